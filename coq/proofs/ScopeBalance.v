(** ScopeBalance: every construct of the indexer model leaves the scope stack as it found it, except that
    `defvar` (and the statements an `include` splices in) add variables to the innermost scope.
    This is the push/pop discipline of index.rs (the property the defects D4 - a `?` before `scopes.pop()` -
    and D13 - no scope for `if`/`let` bodies - violated), proved for ALL programs, all fuels, all states. *)
From Coq Require Import List NArith Bool Lia.
From TG.Model Require Import CoreAst Scope BangOps Indexer.
Import ListNotations.
Open Scope N_scope.

(** [keeps m]: m does not change the scope stack *)
Definition keeps {A} (m : M A) : Prop := forall s, s_scopes (snd (m s)) = s_scopes s.

(** [add_vars vs sc]: the innermost scope gains the variables [vs] (newest first) *)
Definition add_vars (vs : list (name * N)) (sc : list scope) : list scope :=
  match sc with
  | [] => []
  | c :: t => mkScope (sc_kind c) (vs ++ sc_vars c) :: t
  end.
(** [grows m]: m only adds variables to the innermost scope *)
Definition grows {A} (m : M A) : Prop := forall s, exists vs, s_scopes (snd (m s)) = add_vars vs (s_scopes s).

Lemma add_vars_nil : forall sc, add_vars [] sc = sc.
Proof. intros [|[k v] t]; reflexivity. Qed.
Lemma add_vars_app : forall a b sc, add_vars a (add_vars b sc) = add_vars (a ++ b) sc.
Proof. intros a b [|c t]; simpl; [reflexivity|]. now rewrite app_assoc. Qed.

Lemma keeps_grows : forall A (m : M A), keeps m -> grows m.
Proof. intros A m H s. exists []. now rewrite add_vars_nil, H. Qed.

(** ---- the combinators *)
Lemma keeps_ret : forall A (x : A), keeps (ret x). Proof. intros A x s; reflexivity. Qed.
Lemma keeps_none : forall A, keeps (@none A). Proof. intros A s; reflexivity. Qed.
Lemma keeps_lift : forall A (o : option A), keeps (lift o). Proof. intros A o s; reflexivity. Qed.
Lemma keeps_get : forall A (f : st -> A), keeps (get f). Proof. intros A f s; reflexivity. Qed.
Lemma keeps_bad : forall A, keeps (@bad A). Proof. intros A s; reflexivity. Qed.
Lemma keeps_bind : forall A B (m : M A) (f : A -> M B), keeps m -> (forall x, keeps (f x)) -> keeps (bind m f).
Proof.
  intros A B m f Hm Hf s. unfold bind. specialize (Hm s).
  destruct (m s) as [[x|] s1]; simpl in *; [rewrite Hf|]; exact Hm.
Qed.
Lemma keeps_seq : forall A B (m : M A) (k : M B), keeps m -> keeps k -> keeps (seq m k).
Proof. intros A B m k Hm Hk s. unfold seq. now rewrite Hk, Hm. Qed.
Lemma keeps_try : forall A (m : M A), keeps m -> keeps (try_ m).
Proof. intros A m Hm s. unfold try_. specialize (Hm s). destruct (m s); exact Hm. Qed.
Lemma keeps_iterM : forall A B (f : A -> M B) l, (forall x, In x l -> keeps (f x)) -> keeps (iterM f l).
Proof.
  induction l as [|x r IH]; intros H; simpl; [apply keeps_ret|].
  apply keeps_seq; [apply H; now left | apply IH; intros y Hy; apply H; now right].
Qed.
Lemma keeps_mapM_opt : forall A B (f : A -> M B) l, (forall x, In x l -> keeps (f x)) -> keeps (mapM_opt f l).
Proof.
  induction l as [|x r IH]; intros H; simpl; [apply keeps_ret|].
  apply keeps_bind; [apply keeps_try, H; now left|]. intros o.
  apply keeps_bind; [apply IH; intros y Hy; apply H; now right|]. intros os. apply keeps_ret.
Qed.

Lemma grows_bind : forall A B (m : M A) (f : A -> M B), grows m -> (forall x, grows (f x)) -> grows (bind m f).
Proof.
  intros A B m f Hm Hf s. unfold bind. destruct (Hm s) as [v1 H1].
  destruct (m s) as [[x|] s1]; simpl in *.
  - destruct (Hf x s1) as [v2 H2]. exists (v2 ++ v1). now rewrite H2, H1, add_vars_app.
  - now exists v1.
Qed.
Lemma grows_seq : forall A B (m : M A) (k : M B), grows m -> grows k -> grows (seq m k).
Proof.
  intros A B m k Hm Hk s. unfold seq. destruct (Hm s) as [v1 H1]. destruct (Hk (snd (m s))) as [v2 H2].
  exists (v2 ++ v1). now rewrite H2, H1, add_vars_app.
Qed.
Lemma grows_iterM : forall A B (f : A -> M B) l, (forall x, In x l -> grows (f x)) -> grows (iterM f l).
Proof.
  induction l as [|x r IH]; intros H; simpl; [apply keeps_grows, keeps_ret|].
  apply grows_seq; [apply H; now left | apply IH; intros y Hy; apply H; now right].
Qed.

(** ---- the primitives that do not touch the scopes *)
Lemma keeps_upd : forall f, (forall s, s_scopes (f s) = s_scopes s) -> keeps (upd f).
Proof. intros f H s; simpl; apply H. Qed.
Lemma scopes_add_pos : forall r id s, s_scopes (add_pos r id s) = s_scopes s.
Proof. intros r id s. unfold add_pos. destruct (rng_empty r); reflexivity. Qed.

Lemma keeps_here : forall r, keeps (here r). Proof. intros; apply keeps_get. Qed.
Lemma keeps_state : keeps state. Proof. apply keeps_get. Qed.
Lemma keeps_error : forall r k, keeps (error r k). Proof. intros; apply keeps_upd; reflexivity. Qed.
Lemma keeps_err : forall r k, keeps (err r k).
Proof. intros. unfold err. apply keeps_bind; [apply keeps_here|intros; apply keeps_error]. Qed.
Lemma keeps_emit : forall l, keeps (emit l).
Proof. intros. unfold emit. apply keeps_iterM. intros; apply keeps_err. Qed.
Lemma keeps_leaf_of : forall i, keeps (leaf_of i).
Proof. intros. unfold leaf_of. apply keeps_bind; [apply keeps_state|intros; apply keeps_lift]. Qed.
Lemma keeps_add_reference : forall id l, keeps (add_reference id l).
Proof. intros. unfold add_reference. apply keeps_upd. intros s. now rewrite scopes_add_pos. Qed.
Lemma keeps_add_record : forall n c l, keeps (add_record n c l).
Proof. intros n c l s. unfold add_record; simpl. rewrite scopes_add_pos. destruct c; reflexivity. Qed.
Lemma keeps_add_anonymous_def : forall n l, keeps (add_anonymous_def n l).
Proof. intros n l s. reflexivity. Qed.
Lemma keeps_add_leaf : forall l, keeps (add_leaf l).
Proof. intros l s. unfold add_leaf; simpl. now rewrite scopes_add_pos. Qed.
Lemma keeps_add_leaf_nopos : forall l, keeps (add_leaf_nopos l).
Proof. intros l s. reflexivity. Qed.
Lemma keeps_add_multiclass : forall n l, keeps (add_multiclass n l).
Proof. intros n l s. unfold add_multiclass; simpl. now rewrite scopes_add_pos. Qed.
Lemma keeps_record_mut : forall id f, keeps (record_mut id f).
Proof. intros id f s. unfold record_mut. destruct (nthN (s_recs s) id); reflexivity. Qed.
Lemma keeps_multiclass_mut : forall id f, keeps (multiclass_mut id f).
Proof. intros id f s. unfold multiclass_mut. destruct (nthN (s_mcs s) id); reflexivity. Qed.
Lemma keeps_push_file : forall f, keeps (push_file f). Proof. intros; apply keeps_upd; reflexivity. Qed.
Lemma keeps_pop_file : keeps pop_file.
Proof. intros s. unfold pop_file. destruct (s_trace s); reflexivity. Qed.
Lemma keeps_next_anonymous : keeps next_anonymous. Proof. apply keeps_upd; reflexivity. Qed.

Lemma keeps_add_defset : forall l, keeps (add_defset l).
Proof. intros l s. unfold add_defset; simpl. now rewrite scopes_add_pos. Qed.
#[export] Hint Resolve keeps_ret keeps_none keeps_lift keeps_get keeps_bad keeps_here keeps_state keeps_error
  keeps_err keeps_emit keeps_leaf_of keeps_add_reference keeps_add_record keeps_add_anonymous_def keeps_add_leaf
  keeps_add_defset
  keeps_add_leaf_nopos keeps_add_multiclass keeps_record_mut keeps_multiclass_mut keeps_push_file keeps_pop_file
  keeps_next_anonymous : keeps.

(** ---- the scope primitives *)
Lemma scopes_add_variable_grows : forall l, grows (scopes_add_variable l).
Proof.
  intros l s. unfold scopes_add_variable, bind.
  pose proof (keeps_add_leaf l s) as H.
  destruct (add_leaf l s) as [[id|] s1] eqn:E; simpl in *.
  - destruct (s_scopes s1) as [|c t] eqn:Es; simpl.
    + exists []. now rewrite <- H.
    + exists [(lf_name l, id)]. now rewrite <- H.
  - exists []. now rewrite add_vars_nil.
Qed.

(** push; run something that only adds variables to the new scope; pop  =  no change *)
Lemma keeps_scoped : forall A (k : skind) (body : M A), grows body -> keeps (scoped k body).
Proof.
  intros A k body Hb s. unfold scoped, seq, bind, try_, push_scope, upd; simpl.
  destruct (Hb (set_scopes (mkScope k [] :: s_scopes s) s)) as [vs Hvs]. simpl in Hvs.
  destruct (body (set_scopes (mkScope k [] :: s_scopes s) s)) as [o s1]; simpl in *.
  unfold pop_scope. rewrite Hvs. destruct o; reflexivity.
Qed.

(** [ks]: decompose a monadic term into its parts; leaves the recursive calls and the [grows] goals of scoped blocks *)
Ltac ks :=
  repeat first
    [ progress auto with keeps
    | apply keeps_scoped
    | apply keeps_bind; [|intros ?]
    | apply keeps_seq
    | apply keeps_try
    | match goal with
      | |- keeps (match ?x with _ => _ end) => destruct x
      | |- keeps (if ?x then _ else _) => destruct x
      | |- keeps (let '(_, _) := ?x in _) => destruct x
      end ].

(** ---- types and values *)
Lemma keeps_index_ty : forall t, keeps (index_ty t).
Proof. induction t; simpl; ks. Qed.
#[export] Hint Resolve keeps_index_ty : keeps.

Lemma grows_bind_var : forall i t,
    grows (loc <- here (i_rng i) ;; scopes_add_variable (mkLeaf LVar (i_name i) t false loc)).
Proof.
  intros. apply grows_bind; [apply keeps_grows; auto with keeps|]. intros. apply scopes_add_variable_grows.
Qed.

Definition values_keep (n : nat) : Prop :=
  (forall v, keeps (index_value n v)) /\ (forall x, keeps (index_inner n x)) /\
  (forall sv, keeps (index_simple n sv)) /\ (forall a, keeps (index_arg n a)) /\
  (forall op an vs r, keeps (index_bang n op an vs r)) /\
  (forall op a vs r, keeps (index_bang_ops n op a vs r)).

Lemma keeps_sufs_loop : forall (l : list suffix) t,
    keeps ((fix sufs_loop (t : mty) (l : list suffix) : M mty :=
         match l with
         | [] => ret t
         | sf :: r =>
           bind match sf with
                 | SufRange => lift (match t with MBits _ => Some MBit | _ => None end)
                 | SufSlice single => if single then lift (element_typ t) else ret t
                 | SufField i fr =>
                   bind (here (i_rng i)) (fun loc =>
                   bind state (fun s =>
                   match ty_find_field s t (i_name i) with
                   | None => match t with MUnknown => none | _ => seq (err fr DCannotAccessField) none end
                   | Some f => seq (add_reference (SyLeaf f) loc) (bind (leaf_of f) (fun lf => ret (lf_ty lf)))
                   end))
                 end (fun t' => sufs_loop t' r)
         end) t l).
Proof. induction l as [|sf r IH]; intros t; ks; apply IH. Qed.

Lemma keeps_index_annot : forall op an r, keeps (index_annot op an r).
Proof. intros. unfold index_annot. ks. Qed.
Lemma keeps_check_arity : forall op vs r, keeps (check_arity op vs r).
Proof. intros. unfold check_arity. ks. Qed.
#[export] Hint Resolve keeps_index_annot keeps_check_arity : keeps.

Lemma values_keep_all : forall n, values_keep n.
Proof.
  induction n as [|n [IHv [IHi [IHs [IHa [IHb IHo]]]]]].
  - repeat split; intros; simpl; auto with keeps.
  - repeat split.
    + (* value *) intros [r [|first rest]]; simpl; ks.
      apply keeps_iterM; intros; apply IHi.
    + (* inner *) intros [sv sufs]; simpl. apply keeps_bind; [apply IHs|]. intros t0. apply keeps_sufs_loop.
    + (* simple *) intros sv; destruct sv; simpl; ks;
        try (apply keeps_iterM; intros; apply IHv); try (apply keeps_mapM_opt; intros; first [apply IHv|apply IHa]).
    + (* arg *) intros a; destruct a; simpl; ks; apply IHv.
    + (* bang *) intros op an vs r; simpl. ks.
    + (* operands *) intros op a vs r; simpl.
      destruct op; simpl;
        try (ks; try (apply keeps_iterM; intros; ks; apply IHv); try (apply keeps_mapM_opt; intros; apply IHv); fail).
      * (* XFilter *)
        ks; try apply IHv.
        apply grows_seq; [apply grows_bind_var|apply keeps_grows, IHv].
      * (* XFoldl *)
        ks; try apply IHv.
        apply grows_seq; [apply grows_bind_var|].
        apply grows_seq; [apply grows_bind_var|apply keeps_grows, IHv].
      * (* XForEach *)
        ks; try apply IHv.
        apply grows_seq; [apply grows_bind_var|apply keeps_grows, IHv].
Qed.

Lemma keeps_index_value : forall n v, keeps (index_value n v).
Proof. intros n; apply (values_keep_all n). Qed.
Lemma keeps_index_arg : forall n a, keeps (index_arg n a).
Proof. intros n; apply (values_keep_all n). Qed.
#[export] Hint Resolve keeps_index_value keeps_index_arg : keeps.

Lemma keeps_index_args : forall n l, keeps (index_args n l).
Proof. intros. unfold index_args. apply keeps_mapM_opt. intros; auto with keeps. Qed.
#[export] Hint Resolve keeps_index_args : keeps.

Lemma keeps_resolve_class : forall n c, keeps (resolve_class_ref_as_class n c).
Proof. intros n [i args r]; simpl; ks. Qed.
Lemma keeps_resolve_multiclass : forall n c, keeps (resolve_class_ref_as_multiclass n c).
Proof. intros n [i args r]; simpl; ks. Qed.
#[export] Hint Resolve keeps_resolve_class keeps_resolve_multiclass : keeps.

Lemma keeps_index_parents : forall n ps, keeps (index_parents n ps).
Proof. intros. unfold index_parents. ks; apply keeps_iterM; intros; ks. Qed.
Lemma keeps_index_targ : forall n a, keeps (index_targ n a).
Proof. intros n [t i d]; simpl; ks. Qed.
#[export] Hint Resolve keeps_index_parents keeps_index_targ : keeps.

Lemma grows_index_defvar : forall n i v, grows (index_defvar n i v).
Proof.
  intros. unfold index_defvar.
  apply grows_bind; [apply keeps_grows; auto with keeps|]. intros loc.
  apply grows_bind; [apply keeps_grows, keeps_try; auto with keeps|]. intros t.
  apply scopes_add_variable_grows.
Qed.

Lemma grows_index_item : forall n it, grows (index_item n it).
Proof.
  intros n [t i v|i v|i v|c m|v]; simpl; try (apply keeps_grows; ks; fail).
  apply grows_index_defvar.
Qed.

Lemma grows_record_body : forall n ps b, grows (index_record_body n ps b).
Proof.
  intros. unfold index_record_body. apply grows_seq; [apply keeps_grows; auto with keeps|].
  apply grows_iterM. intros; apply grows_index_item.
Qed.

Definition block_like (x : stmt) : bool :=
  match x with SDefvar _ _ | SInclude _ _ => false | _ => true end.

Lemma keeps_index_name_value : forall v, keeps (index_name_value v).
Proof. intros [r [|[[] sufs] rest]]; simpl; ks. Qed.
#[export] Hint Resolve keeps_index_name_value : keeps.

Lemma keeps_values : forall n vs, keeps (iterM (index_value n) vs).
Proof. intros. apply keeps_iterM. intros; auto with keeps. Qed.
Lemma keeps_targs : forall n (o : option (list targ)),
    keeps (match o with Some l => iterM (index_targ n) l | None => ret tt end).
Proof. intros n [l|]; [apply keeps_iterM; intros|]; auto with keeps. Qed.
#[export] Hint Resolve keeps_values keeps_targs : keeps.

Section Stmts.
  Variable files : list (list stmt).
  Variable n : nat.
  Hypothesis Hl : forall l, grows (iterM (index_stmt files n) l).

  Lemma grows_class_body : forall (targs : option (list targ)) ps b,
      grows (seq (match targs with Some l => iterM (index_targ n) l | None => ret tt end)
                 (index_record_body n ps b)).
  Proof. intros. apply grows_seq; [apply keeps_grows; auto with keeps|apply grows_record_body]. Qed.
  Lemma grows_mc_body : forall (targs : option (list targ)) ps b,
      grows (seq (match targs with Some l => iterM (index_targ n) l | None => ret tt end)
                 (seq (index_parents n ps) (iterM (index_stmt files n) b))).
  Proof.
    intros. apply grows_seq; [apply keeps_grows; auto with keeps|].
    apply grows_seq; [apply keeps_grows; auto with keeps|apply Hl].
  Qed.
  Lemma keeps_if_bodies : forall (bs : list (list stmt)),
      keeps (iterM (fun body => scoped KBlock (iterM (index_stmt files n) body)) bs).
  Proof. intros. apply keeps_iterM. intros. apply keeps_scoped, Hl. Qed.

  (** a statement other than defvar / include, one level of fuel above [n] *)
  Lemma keeps_block_like : forall x, block_like x = true -> keeps (index_stmt files (S n) x).
  Proof.
    intros x Hx. destruct x; simpl in *; try discriminate.
    - (* assert *) ks.
    - (* class *) ks; try apply grows_class_body.
    - (* def *) ks; try apply grows_record_body.
    - (* defm *) ks; try (apply keeps_grows; auto with keeps).
    - (* defset *) ks; try apply Hl.
    - (* dump *) ks.
    - (* foreach *) ks; try apply Hl.
    - (* if *) apply keeps_seq; [auto with keeps|].
      apply keeps_seq; [apply keeps_scoped, Hl|apply keeps_if_bodies].
    - (* let *) apply keeps_seq; [auto with keeps|apply keeps_scoped, Hl].
    - (* multiclass *) ks; try apply grows_mc_body.
  Qed.

  Lemma grows_stmt_S : forall x, grows (index_stmt files (S n) x).
  Proof.
    intros x. destruct (block_like x) eqn:E; [apply keeps_grows, keeps_block_like, E|].
    destruct x; try discriminate; simpl.
    - (* include *)
      destruct target as [f|]; [|apply keeps_grows; ks].
      apply grows_bind; [apply keeps_grows; ks|]. intros s0.
      destruct (existsb (N.eqb f) (s_indexed s0)); [apply keeps_grows; ks|].
      apply grows_seq; [apply keeps_grows, keeps_upd; reflexivity|].
      apply grows_bind; [apply keeps_grows; ks|]. intros body.
      apply grows_seq; [apply keeps_grows; ks|].
      apply grows_seq; [apply Hl|apply keeps_grows; ks].
    - apply grows_index_defvar.
  Qed.
End Stmts.

(** every statement only adds variables to the innermost scope ... *)
Lemma grows_index_stmt : forall files n x, grows (index_stmt files n x).
Proof.
  intros files n. induction n as [|n IH]; intros x; [apply keeps_grows; simpl; auto with keeps|].
  apply grows_stmt_S. intros; apply grows_iterM; intros; apply IH.
Qed.

(** ... and every statement other than `defvar` and `include` leaves the scope stack exactly as it was:
    class, def, defm, defset, foreach, if, let, multiclass pop what they push, on every path. *)
Theorem scopes_balanced : forall files n x s,
    block_like x = true -> s_scopes (snd (index_stmt files n x s)) = s_scopes s.
Proof.
  intros files n x s Hx. revert s. change (keeps (index_stmt files n x)).
  destruct n as [|n]; [simpl; auto with keeps|].
  apply keeps_block_like; [|exact Hx]. intros; apply grows_iterM; intros; apply grows_index_stmt.
Qed.
