(** C18, source level, CHILDREN: the full registration stream of the indexer slice (declarations, template arguments,
    fields) equals the AST-only visit of OutlineChildSpec.v -- for every workspace on which the slice hits no modelled panic. *)
From Coq Require Import List NArith Bool Lia Arith PeanoNat.
From TG.Model Require Import Chars CoreAst SymbolMap Outline OutlineIndex OutlineSpec OutlineChildSpec.
From TG.Proofs Require Import OutlineProofs SymbolMapBasics SymbolOps OutlineIndexProofs OutlineSourceProofs OutlineVisitProofs.
Import ListNotations.
Open Scope N_scope.

(** ---- the syntactic table mirrors the record arena ---- *)
Definition field_rel (sm : symbol_map) (x : SymbolMap.name * N) (y : SymbolMap.name * SymbolMap.name) : Prop :=
  fst x = fst y /\ exists fe, get_entry sm (KRecordField, snd x) = Some fe /\ p_typ (e_payload fe) = snd y.
Definition fields_rel (sm : symbol_map) (m : list (SymbolMap.name * N)) (sf : list (SymbolMap.name * SymbolMap.name)) : Prop :=
  Forall2 (field_rel sm) m sf.

Definition is_prec (p : payload) : bool := match p with PRecord _ _ _ _ => true | _ => false end.

Definition rec_rel (sm : symbol_map) (r : nat) (sr : srec) : Prop :=
  exists e, get_entry sm (KRecord, N.of_nat r) = Some e /\ is_prec (e_payload e) = true /\
            fields_rel sm (p_fields (e_payload e)) (sr_fields sr) /\ p_parents (e_payload e) = sr_parents sr.

Definition recs_mirror (sm : symbol_map) (recs : list srec) : Prop :=
  next_id sm KRecord = N.of_nat (List.length recs) /\
  forall r sr, nth_error recs r = Some sr -> rec_rel sm r sr.

(** how one successful op changes entries (from group symmap's decomposition) *)
Lemma op_entry_effect : forall S o S' s e, apply_op S o = SOk S' -> get_entry S s = Some e ->
  exists e', get_entry S' s = Some e' /\
    match op_update S o with
    | Some (t, g) => if sid_eqb t s then e' = g e else e' = e
    | None => e' = e
    end.
Proof.
  intros S o S' s e H He. apply apply_op_spec in H. destruct H as (Ha & _ & _). unfold arenas_after in Ha.
  destruct (op_alloc o) as [[[k e0] keyed]|] eqn:Eo.
  - destruct Ha as (Hg & _). rewrite Hg.
    assert (sid_eqb s (k, next_id S k) = false) as ->.
    { destruct (sid_eqb s (k, next_id S k)) eqn:Q; [|reflexivity]. exfalso. apply sid_eqb_eq in Q. subst s.
      unfold get_entry in He. cbn [fst snd] in He.
      assert (next_id S k < len_N (get_arena S k)) as Hlt by (apply nth_N_some_lt; eauto). unfold next_id in Hlt. lia. }
    exists e. split; [exact He|].
    destruct o; cbn [op_alloc] in Eo; try discriminate; reflexivity.
  - destruct (op_update S o) as [[t g]|] eqn:Eu.
    + destruct Ha as (_ & Hg & _). rewrite Hg. destruct (sid_eqb t s); rewrite He; cbn [option_map]; eauto.
    + rewrite (same_arenas_get_entry _ _ s Ha). eauto.
Qed.

Lemma op_next_id : forall S o S' k, apply_op S o = SOk S' ->
  next_id S' k = match op_alloc o with
                 | Some (k0, _, _) => if sym_kind_eqb k k0 then next_id S k0 + 1 else next_id S k
                 | None => next_id S k
                 end.
Proof.
  intros S o S' k H. apply apply_op_spec in H. destruct H as (Ha & _ & _). unfold arenas_after in Ha.
  destruct (op_alloc o) as [[[k0 e0] keyed]|] eqn:Eo.
  - destruct Ha as (_ & Hn). apply Hn.
  - destruct (op_update S o) as [[t g]|]; [destruct Ha as (_ & _ & Hn); apply Hn|].
    now apply same_arenas_next_id.
Qed.

Lemma op_new_entry : forall S o S' k e0 keyed, apply_op S o = SOk S' -> op_alloc o = Some (k, e0, keyed) ->
  get_entry S' (k, next_id S k) = Some e0.
Proof.
  intros S o S' k e0 keyed H Eo. apply apply_op_spec in H. destruct H as (Ha & _ & _). unfold arenas_after in Ha.
  rewrite Eo in Ha. destruct Ha as (Hg & _). rewrite Hg.
  assert (sid_eqb (k, next_id S k) (k, next_id S k) = true) as -> by (now apply sid_eqb_eq). reflexivity.
Qed.

(** ops that leave the field / parent maps of every record alone *)
Definition rec_touch (o : op) : bool :=
  match o with
  | OpAddRecord _ _ _ _ _ | OpAddAnonymousDef _ _ _ | OpRecAddField _ _ | OpRecAddParent _ => true
  | _ => false
  end.

Lemma cur_target_kind : forall S k t, cur_target S k = Some t -> fst t = k.
Proof.
  intros S k t H. unfold cur_target in H. destruct (sm_cur S) as [[k' id]|]; [|discriminate].
  destruct (sym_kind_eqb k k'); [|discriminate]. now injection H as <-.
Qed.

Lemma field_entry_kept : forall S o S' i fe, apply_op S o = SOk S' -> get_entry S (KRecordField, i) = Some fe ->
  exists fe', get_entry S' (KRecordField, i) = Some fe' /\ e_payload fe' = e_payload fe.
Proof.
  intros S o S' i fe H He. destruct (op_entry_effect _ _ _ _ _ H He) as (fe' & H1 & H2). exists fe'. split; [exact H1|].
  destruct (op_update S o) as [[t g]|] eqn:Eu; [|now subst].
  destruct (sid_eqb t (KRecordField, i)) eqn:Q; [|now subst]. apply sid_eqb_eq in Q. subst t fe'.
  destruct o; cbn [op_update] in Eu; try discriminate;
    try (match type of Eu with context [cur_target S ?k] =>
           destruct (cur_target S k) as [t0|] eqn:Ec; [|discriminate]; cbn [option_map] in Eu;
           injection Eu as Et _; subst t0; apply cur_target_kind in Ec; discriminate end).
  injection Eu as _ <-. reflexivity.
Qed.

Lemma fields_rel_kept : forall S o S' m sf, apply_op S o = SOk S' -> fields_rel S m sf -> fields_rel S' m sf.
Proof.
  intros S o S' m sf H Hr. induction Hr as [|x y m' sf' (Hn & fe & Hf & Ht) _ IH]; constructor; [|exact IH].
  split; [exact Hn|]. destruct (field_entry_kept _ _ _ _ _ H Hf) as (fe' & H1 & H2). exists fe'. split; [exact H1|congruence].
Qed.

Lemma rec_rel_frame : forall S o S' r sr, apply_op S o = SOk S' -> rec_touch o = false -> rec_rel S r sr -> rec_rel S' r sr.
Proof.
  intros S o S' r sr H Ht (e & He & Hk & Hf & Hp).
  destruct (op_entry_effect _ _ _ _ _ H He) as (e' & H1 & H2). exists e'. split; [exact H1|].
  assert (p_fields (e_payload e') = p_fields (e_payload e) /\ p_parents (e_payload e') = p_parents (e_payload e) /\
          is_prec (e_payload e') = is_prec (e_payload e)) as (F & P & K).
  { destruct (op_update S o) as [[t g]|] eqn:Eu; [|now subst].
    destruct (sid_eqb t (KRecord, N.of_nat r)) eqn:Q; [|now subst]. subst e'. apply sid_eqb_eq in Q. subst t.
    destruct o; cbn [op_update rec_touch] in *; try discriminate;
      try (match type of Eu with context [cur_target S ?k] =>
             destruct (cur_target S k) as [t0|] eqn:Ec; [|discriminate]; cbn [option_map] in Eu;
             injection Eu as Et <-; subst t0; apply cur_target_kind in Ec; try discriminate Ec end);
      try (injection Eu as _ <-);
      unfold upd_payload, push_ref, pf_rec_targ;
      cbn [e_payload]; destruct (e_payload e); cbn; auto. }
  rewrite F, P, K. split; [exact Hk|]. split; [eapply fields_rel_kept; eauto|exact Hp].
Qed.

Lemma recs_mirror_frame : forall S o S' recs, apply_op S o = SOk S' -> rec_touch o = false ->
  recs_mirror S recs -> recs_mirror S' recs.
Proof.
  intros S o S' recs H Ht (Hn & Hr). split.
  - rewrite (op_next_id _ _ _ KRecord H).
    destruct (op_alloc o) as [[[k0 e0] keyed]|] eqn:Eo; [|exact Hn].
    destruct k0; cbn; try exact Hn. destruct o; cbn in *; discriminate.
  - intros r sr Hnth. eapply rec_rel_frame; eauto.
Qed.

Lemma nth_error_snoc : forall (A : Type) (l : list A) x r y, nth_error (l ++ [x]) r = Some y ->
  (nth_error l r = Some y) \/ (r = List.length l /\ y = x).
Proof.
  intros A l x r y H. destruct (Nat.lt_ge_cases r (List.length l)) as [Hlt|Hge].
  - left. now rewrite nth_error_app1 in H.
  - right. rewrite nth_error_app2 in H by exact Hge. destruct (r - List.length l)%nat eqn:D.
    + cbn in H. injection H as <-. split; [lia|reflexivity].
    + cbn in H. destruct n; discriminate.
Qed.

(** a new record (add_record / add_anonymous_def) *)
Lemma recs_mirror_alloc : forall S o S' recs e0 keyed, apply_op S o = SOk S' -> op_alloc o = Some (KRecord, e0, keyed) ->
  p_fields (e_payload e0) = [] -> p_parents (e_payload e0) = [] -> is_prec (e_payload e0) = true ->
  recs_mirror S recs -> recs_mirror S' (recs ++ [mkSR [] []]).
Proof.
  intros S o S' recs e0 keyed H Eo F0 P0 K0 (Hn & Hr). split.
  - rewrite (op_next_id _ _ _ KRecord H), Eo. cbn. rewrite app_length. cbn. lia.
  - intros r sr Hnth. apply nth_error_snoc in Hnth. destruct Hnth as [Hnth|[-> ->]].
    + destruct (Hr r sr Hnth) as (e & He & Hk & Hf & Hp).
      destruct (op_entry_effect _ _ _ _ _ H He) as (e' & H1 & H2).
      assert (op_update S o = None) as Eu by (destruct o; cbn in *; try discriminate; reflexivity).
      rewrite Eu in H2. subst e'. exists e. split; [exact H1|]. split; [exact Hk|]. split; [eapply fields_rel_kept; eauto|exact Hp].
    + exists e0. rewrite <- Hn. split; [eapply op_new_entry; eauto|]. rewrite F0, P0. split; [exact K0|]. split; [constructor|reflexivity].
Qed.

Lemma upd_rec_nth : forall recs i f r, nth_error (upd_rec recs i f) r =
  if Nat.eqb i r then option_map f (nth_error recs r) else nth_error recs r.
Proof.
  induction recs as [|x recs IH]; intros i f r; cbn [upd_rec].
  - destruct r; destruct (Nat.eqb i _); reflexivity.
  - destruct i as [|i]; destruct r as [|r]; cbn [nth_error Nat.eqb option_map]; try reflexivity. apply IH.
Qed.

Lemma upd_rec_length : forall recs i f, List.length (upd_rec recs i f) = List.length recs.
Proof. induction recs as [|x recs IH]; intros [|i] f; cbn; auto. Qed.

(** the cursor ops on a record: `record.add_record_field` / `record.add_parent` after `record_mut(rid)` *)
Lemma cur_after_borrow : forall S rid S', apply_op S (OpRecordMut rid) = SOk S' ->
  cur_target S' KRecord = Some (KRecord, rid) /\ (exists e, get_entry S (KRecord, rid) = Some e).
Proof.
  intros S rid S' H. cbn [apply_op] in H. apply borrow_mut_spec in H. destruct H as (-> & He). split; [reflexivity|exact He].
Qed.

Lemma fields_rel_insert : forall sm m sf n fid typ fe,
  fields_rel sm m sf -> get_entry sm (KRecordField, fid) = Some fe -> p_typ (e_payload fe) = typ ->
  fields_rel sm (amap_insert m n fid) (amap_insert sf n typ).
Proof.
  intros sm m sf n fid typ fe H Hf Ht. induction H as [|[k v] [k' t'] m' sf' (Hk & Hx) Htl IH]; cbn [amap_insert].
  - constructor; [|constructor]. split; [reflexivity|]. exists fe. auto.
  - cbn [fst snd] in Hk. subst k'. destruct (list_eqb k n).
    + constructor; [|exact Htl]. split; [reflexivity|]. exists fe. auto.
    + constructor; [split; [reflexivity|exact Hx]|exact IH].
Qed.

(** ---- types: the slice resolves a type exactly as the table does ---- *)
Lemma ty_string_str : forall sm t, ty_string sm t = ty_str (sm_name_to_class sm) t.
Proof.
  intros sm t. induction t as [| | | | |n|e IH|i]; cbn [ty_string ty_str]; try reflexivity.
  - now rewrite IH.
Qed.

(** ---- field lookup: the slice's find_field is the table lookup ---- *)
Definition typ_of_res (sm : symbol_map) (res : option N) (t : option SymbolMap.name) : Prop :=
  match res with
  | None => t = None
  | Some f => exists fe, get_entry sm (KRecordField, f) = Some fe /\ t = Some (p_typ (e_payload fe))
  end.

Lemma amap_get_rel : forall sm m sf n, fields_rel sm m sf -> typ_of_res sm (amap_get m n) (amap_get sf n).
Proof.
  intros sm m sf n H. unfold amap_get. induction H as [|[k v] [k' t'] m' sf' (Hk & fe & Hf & Ht) _ IH]; cbn [lookup].
  - reflexivity.
  - cbn [fst snd] in *. subst k'. destruct (list_eqb k n); [|exact IH]. exists fe. split; [exact Hf|now rewrite Ht].
Qed.

Lemma mirror_lookup : forall sm recs r e, recs_mirror sm recs -> get_entry sm (KRecord, r) = Some e ->
  exists sr, nth_error recs (N.to_nat r) = Some sr /\ fields_rel sm (p_fields (e_payload e)) (sr_fields sr) /\
             p_parents (e_payload e) = sr_parents sr.
Proof.
  intros sm recs r e (Hn & Hr) He.
  assert (r < N.of_nat (List.length recs)) as Hlt.
  { rewrite <- Hn. unfold next_id. unfold get_entry in He. cbn [fst snd] in He. apply nth_N_some_lt. eauto. }
  destruct (nth_error recs (N.to_nat r)) as [sr|] eqn:En.
  - exists sr. split; [reflexivity|]. destruct (Hr _ _ En) as (e' & He' & _ & Hf & Hp). rewrite N2Nat.id in He'.
    assert (e' = e) by congruence. subst e'. auto.
  - apply nth_error_None in En. lia.
Qed.

Lemma find_mirror : forall sm recs, recs_mirror sm recs ->
  forall fuel r n vis res vis', find_field_in fuel sm r n vis = SOk (res, vis') ->
  exists t, sp_find_in fuel recs r n vis = Some (t, vis') /\ typ_of_res sm res t.
Proof.
  intros sm recs Hm. induction fuel as [|f IH]; intros r n vis res vis' H; [discriminate|].
  cbn [find_field_in sp_find_in] in *. apply sbind_ok in H. destruct H as (e & He & H).
  unfold record, symbol in He. destruct (get_entry sm (KRecord, r)) as [e0|] eqn:Ge; [|discriminate]. injection He as ->.
  destruct (mirror_lookup _ _ _ _ Hm Ge) as (sr & En & Hf & Hp). rewrite En.
  pose proof (amap_get_rel sm _ _ n Hf) as Hg.
  destruct (amap_get (p_fields (e_payload e)) n) as [fid|].
  - injection H as <- <-. destruct Hg as (fe & Hfe & ->). exists (Some (p_typ (e_payload fe))). split; [reflexivity|].
    exists fe. auto.
  - cbn in Hg. rewrite Hg. rewrite <- Hp. clear Hp Hg Hf En.
    revert vis H. induction (p_parents (e_payload e)) as [|p ps IHp]; intros vis H.
    + injection H as <- <-. exists None. split; reflexivity.
    + destruct (vis_mem p vis); [now apply IHp|].
      destruct (find_field_in f sm p n (p :: vis)) as [[[f1|] v1]|err] eqn:Ef; [| |discriminate].
      * injection H as <- <-. destruct (IH _ _ _ _ _ Ef) as (t & -> & Ht). exists t. split; [|exact Ht].
        destruct Ht as (fe & _ & ->). reflexivity.
      * destruct (IH _ _ _ _ _ Ef) as (t & -> & Ht). cbn in Ht. subst t. now apply IHp.
Qed.

Lemma find_field_table : forall sm recs r n res, recs_mirror sm recs ->
  find_field (S (List.length (sm_records sm))) sm r n = SOk res ->
  exists t, sp_find recs r n = Some t /\ typ_of_res sm res t.
Proof.
  intros sm recs r n res Hm H. unfold find_field in H. apply sbind_ok in H. destruct H as ([res' vis'] & Hf & H).
  injection H as <-. cbn [fst].
  assert (List.length (sm_records sm) = List.length recs) as El.
  { destruct Hm as (Hn & _). unfold next_id, len_N in Hn. cbn [get_arena] in Hn. lia. }
  rewrite El in Hf. destruct (find_mirror _ _ Hm _ _ _ _ _ _ Hf) as (t & Hs & Ht).
  exists t. unfold sp_find. rewrite Hs. split; [reflexivity|exact Ht].
Qed.

(** ---- the relation between the slice's state and the table state ---- *)
Definition CE (s : ostate) : list cev := ops_cevs (rev (oi_ops s)).

Lemma ops_cevs_app : forall a b, ops_cevs (a ++ b) = ops_cevs a ++ ops_cevs b.
Proof. intros. unfold ops_cevs. apply flat_map_app. Qed.

Definition relc (s : ostate) (c : cstate) (dset : bool) : Prop :=
  oi_indexed s = c_indexed c /\ sm_name_to_class (oi_sm s) = c_cls c /\ recs_mirror (oi_sm s) (c_recs c) /\
  oi_anon s = c_anon c /\ lex s dset.

Definition simc (f : ostate -> ostate) (spec : N -> bool -> cstate -> option (list cev * cstate)) : Prop :=
  forall s c dset, good s -> relc s c dset -> oi_bad (f s) = false ->
    exists ev c', spec (cur_file s) dset c = Some (ev, c') /\ CE (f s) = CE s ++ ev /\
                  good (f s) /\ relc (f s) c' dset /\
                  oi_scopes (f s) = oi_scopes s /\ oi_trace (f s) = oi_trace s /\ ext (oi_sm s) (oi_sm (f s)).

(** a successful emit *)
Lemma emit_okc : forall o s, oi_bad (emit o s) = false -> good s ->
  oi_bad s = false /\ apply_op (oi_sm s) o = SOk (oi_sm (emit o s)) /\ CE (emit o s) = CE s ++ op_cev o /\
  good (emit o s) /\ oi_scopes (emit o s) = oi_scopes s /\ oi_trace (emit o s) = oi_trace s /\
  oi_indexed (emit o s) = oi_indexed s /\ oi_anon (emit o s) = oi_anon s /\ ext (oi_sm s) (oi_sm (emit o s)) /\
  (forall dset, lex s dset -> lex (emit o s) dset).
Proof.
  intros o s Hb (G1 & G2 & G3).
  destruct (emit_cases o s) as [[B E]|[(B & _ & E)|(B & sm' & Ea & E)]]; rewrite E in *; try (cbn in Hb; congruence).
  clear E. pose proof (ext_apply_op _ _ _ Ea) as Hx.
  split; [exact B|]. split; [exact Ea|].
  split; [unfold CE; cbn [set_sm_ops oi_ops rev]; rewrite ops_cevs_app; cbn [ops_cevs flat_map]; now rewrite app_nil_r|].
  split; [split; [cbn; eapply dsets_ok_ext; [exact Hx|apply incl_refl|exact G1]|split; [exact G2|exact G3]]|].
  split; [reflexivity|]. split; [reflexivity|]. split; [reflexivity|]. split; [reflexivity|]. split; [exact Hx|].
  intros dset Hl. eapply (lex_frame s); [exact Hl|reflexivity|reflexivity|exact Hx].
Qed.

(** an op that touches neither the record maps nor the class table keeps the relation *)
Lemma emit_frame : forall o s c dset, oi_bad (emit o s) = false -> good s -> relc s c dset ->
  rec_touch o = false -> op_class o = None ->
  CE (emit o s) = CE s ++ op_cev o /\ good (emit o s) /\ relc (emit o s) c dset /\
  oi_scopes (emit o s) = oi_scopes s /\ oi_trace (emit o s) = oi_trace s /\ ext (oi_sm s) (oi_sm (emit o s)).
Proof.
  intros o s c dset Hb Hg (R1 & R2 & R3 & R4 & R5) Ht Hc.
  destruct (emit_okc o s Hb Hg) as (_ & Ea & E & G & Sc & Tr & Ix & An & X & L).
  split; [exact E|]. split; [exact G|]. split; [|auto].
  split; [congruence|]. split; [rewrite (classes_apply_op _ _ _ Ea), Hc; exact R2|].
  split; [eapply recs_mirror_frame; eauto|]. split; [congruence|auto].
Qed.

(** `record_mut(rid)` then `record.add_record_field(n, fid)` *)
Lemma rf_pair : forall s c dset rid n fid fe typ,
  oi_bad (emit (OpRecAddField n fid) (emit (OpRecordMut rid) s)) = false -> good s -> relc s c dset ->
  get_entry (oi_sm s) (KRecordField, fid) = Some fe -> p_typ (e_payload fe) = typ ->
  let s2 := emit (OpRecAddField n fid) (emit (OpRecordMut rid) s) in
  CE s2 = CE s /\ good s2 /\ relc s2 (add_field c rid n typ) dset /\
  oi_scopes s2 = oi_scopes s /\ oi_trace s2 = oi_trace s /\ ext (oi_sm s) (oi_sm s2).
Proof.
  intros s c dset rid n fid fe typ Hb Hg Hr Hfe Hty s2.
  assert (oi_bad (emit (OpRecordMut rid) s) = false) as Hb1 by (eapply (not_bad_before _ _ (sticky_emit _)); exact Hb).
  destruct (emit_frame _ s c dset Hb1 Hg Hr eq_refl eq_refl) as (E1 & G1 & (A1 & A2 & A3 & A4 & A5) & Sc1 & Tr1 & X1).
  destruct (emit_okc _ s Hb1 Hg) as (_ & Ea1 & _).
  set (s1 := emit (OpRecordMut rid) s) in *.
  destruct (emit_okc _ s1 Hb G1) as (_ & Ea & E2 & G2 & Sc2 & Tr2 & Ix2 & An2 & X2 & L2). fold s2 in Ea, E2, G2, Sc2, Tr2, Ix2, An2, X2, L2.
  destruct (cur_after_borrow _ _ _ Ea1) as (Hcur & (erid & Herid)).
  split; [rewrite E2, E1; cbn [op_cev]; now rewrite !app_nil_r|]. split; [exact G2|].
  split; [|split; [congruence|split; [congruence|eapply ext_trans; eauto]]].
  split; [cbn [add_field set_recs c_indexed]; congruence|].
  split; [cbn [add_field set_recs c_cls]; rewrite (classes_apply_op _ _ _ Ea); exact A2|].
  split; [|split; [cbn [add_field set_recs c_anon]; congruence|auto]].
  (* the table *)
  cbn [add_field set_recs c_recs]. destruct A3 as (Hn & Hrr). split.
  - rewrite upd_rec_length. rewrite (op_next_id _ _ _ KRecord Ea). exact Hn.
  - intros r sr Hnth. rewrite upd_rec_nth in Hnth.
    destruct (field_entry_kept _ _ _ _ _ Ea1 Hfe) as (fe1 & Hfe1 & Hp1).
    destruct (field_entry_kept _ _ _ _ _ Ea Hfe1) as (fe2 & Hfe2 & Hp2).
    destruct (Nat.eqb (N.to_nat rid) r) eqn:Q.
    + apply Nat.eqb_eq in Q. subst r. destruct (nth_error (c_recs c) (N.to_nat rid)) as [sr0|] eqn:En; [|discriminate].
      cbn [option_map] in Hnth. injection Hnth as <-.
      destruct (Hrr _ _ En) as (e & He & Hk & Hf & Hp). unfold rec_rel. rewrite N2Nat.id in *.
      destruct (op_entry_effect _ _ _ _ _ Ea He) as (e' & He' & Heff).
      cbn [op_update] in Heff. rewrite Hcur in Heff. cbn [option_map] in Heff.
      assert (sid_eqb (KRecord, rid) (KRecord, rid) = true) as Qs by (now apply sid_eqb_eq). rewrite Qs in Heff. subst e'.
      exists (upd_payload (pf_rec_field n fid) e). split; [exact He'|].
      unfold upd_payload, pf_rec_field. cbn [e_payload sr_fields sr_parents].
      destruct (e_payload e) as [k0 t0 f0 ps0| | | | | |]; try discriminate Hk. cbn [is_prec p_fields p_parents] in *.
      split; [reflexivity|]. split; [|exact Hp].
      eapply fields_rel_insert; [eapply fields_rel_kept; [exact Ea|exact Hf]|exact Hfe2|congruence].
    + destruct (Hrr _ _ Hnth) as (e & He & Hk & Hf & Hp).
      destruct (op_entry_effect _ _ _ _ _ Ea He) as (e' & He' & Heff).
      cbn [op_update] in Heff. rewrite Hcur in Heff. cbn [option_map] in Heff.
      assert (sid_eqb (KRecord, rid) (KRecord, N.of_nat r) = false) as Qs.
      { destruct (sid_eqb (KRecord, rid) (KRecord, N.of_nat r)) eqn:Q2; [|reflexivity]. apply sid_eqb_eq in Q2.
        injection Q2 as ->. rewrite Nat2N.id in Q. rewrite Nat.eqb_refl in Q. discriminate. }
      rewrite Qs in Heff. subst e'. exists e. split; [exact He'|]. split; [exact Hk|].
      split; [eapply fields_rel_kept; eauto|exact Hp].
Qed.

(** `record_mut(rid)` then `record.add_parent(cid)` *)
Lemma rp_pair : forall s c dset rid cid,
  oi_bad (emit (OpRecAddParent cid) (emit (OpRecordMut rid) s)) = false -> good s -> relc s c dset ->
  let s2 := emit (OpRecAddParent cid) (emit (OpRecordMut rid) s) in
  CE s2 = CE s /\ good s2 /\
  relc s2 (set_recs c (upd_rec (c_recs c) (N.to_nat rid) (fun sr => mkSR (sr_fields sr) (sr_parents sr ++ [cid])))) dset /\
  oi_scopes s2 = oi_scopes s /\ oi_trace s2 = oi_trace s /\ ext (oi_sm s) (oi_sm s2).
Proof.
  intros s c dset rid cid Hb Hg Hr s2.
  assert (oi_bad (emit (OpRecordMut rid) s) = false) as Hb1 by (eapply (not_bad_before _ _ (sticky_emit _)); exact Hb).
  destruct (emit_frame _ s c dset Hb1 Hg Hr eq_refl eq_refl) as (E1 & G1 & (A1 & A2 & A3 & A4 & A5) & Sc1 & Tr1 & X1).
  destruct (emit_okc _ s Hb1 Hg) as (_ & Ea1 & _).
  set (s1 := emit (OpRecordMut rid) s) in *.
  destruct (emit_okc _ s1 Hb G1) as (_ & Ea & E2 & G2 & Sc2 & Tr2 & Ix2 & An2 & X2 & L2). fold s2 in Ea, E2, G2, Sc2, Tr2, Ix2, An2, X2, L2.
  destruct (cur_after_borrow _ _ _ Ea1) as (Hcur & _).
  split; [rewrite E2, E1; cbn [op_cev]; now rewrite !app_nil_r|]. split; [exact G2|].
  split; [|split; [congruence|split; [congruence|eapply ext_trans; eauto]]].
  split; [cbn [set_recs c_indexed]; congruence|].
  split; [cbn [set_recs c_cls]; rewrite (classes_apply_op _ _ _ Ea); exact A2|].
  split; [|split; [cbn [set_recs c_anon]; congruence|auto]].
  cbn [set_recs c_recs]. destruct A3 as (Hn & Hrr). split.
  - rewrite upd_rec_length. rewrite (op_next_id _ _ _ KRecord Ea). exact Hn.
  - intros r sr Hnth. rewrite upd_rec_nth in Hnth.
    destruct (Nat.eqb (N.to_nat rid) r) eqn:Q.
    + apply Nat.eqb_eq in Q. subst r. destruct (nth_error (c_recs c) (N.to_nat rid)) as [sr0|] eqn:En; [|discriminate].
      cbn [option_map] in Hnth. injection Hnth as <-.
      destruct (Hrr _ _ En) as (e & He & Hk & Hf & Hp). unfold rec_rel. rewrite N2Nat.id in *.
      destruct (op_entry_effect _ _ _ _ _ Ea He) as (e' & He' & Heff).
      cbn [op_update] in Heff. rewrite Hcur in Heff. cbn [option_map] in Heff.
      assert (sid_eqb (KRecord, rid) (KRecord, rid) = true) as Qs by (now apply sid_eqb_eq). rewrite Qs in Heff. subst e'.
      exists (upd_payload (pf_rec_parent cid) e). split; [exact He'|].
      unfold upd_payload, pf_rec_parent. cbn [e_payload sr_fields sr_parents].
      destruct (e_payload e) as [k0 t0 f0 ps0| | | | | |]; try discriminate Hk. cbn [is_prec p_fields p_parents] in *.
      split; [reflexivity|]. split; [eapply fields_rel_kept; eauto|now rewrite Hp].
    + destruct (Hrr _ _ Hnth) as (e & He & Hk & Hf & Hp).
      destruct (op_entry_effect _ _ _ _ _ Ea He) as (e' & He' & Heff).
      cbn [op_update] in Heff. rewrite Hcur in Heff. cbn [option_map] in Heff.
      assert (sid_eqb (KRecord, rid) (KRecord, N.of_nat r) = false) as Qs.
      { destruct (sid_eqb (KRecord, rid) (KRecord, N.of_nat r)) eqn:Q2; [|reflexivity]. apply sid_eqb_eq in Q2.
        injection Q2 as ->. rewrite Nat2N.id in Q. rewrite Nat.eqb_refl in Q. discriminate. }
      rewrite Qs in Heff. subst e'. exists e. split; [exact He'|]. split; [exact Hk|].
      split; [eapply fields_rel_kept; eauto|exact Hp].
Qed.

(** ---- the steps inside a record ---- *)
Definition bres (s s' : ostate) (c' : cstate) (dset : bool) (ev : list cev) : Prop :=
  CE s' = CE s ++ ev /\ good s' /\ relc s' c' dset /\
  oi_scopes s' = oi_scopes s /\ oi_trace s' = oi_trace s /\ ext (oi_sm s) (oi_sm s').

Lemma bres_refl : forall s c dset, good s -> relc s c dset -> bres s s c dset [].
Proof.
  intros s c dset Hg Hr. unfold bres. rewrite app_nil_r. split; [reflexivity|]. split; [exact Hg|]. split; [exact Hr|].
  split; [reflexivity|]. split; [reflexivity|apply ext_refl].
Qed.

Lemma bres_trans : forall s s1 s2 c1 c2 dset e1 e2, bres s s1 c1 dset e1 -> bres s1 s2 c2 dset e2 -> bres s s2 c2 dset (e1 ++ e2).
Proof.
  intros s s1 s2 c1 c2 dset e1 e2 (A1 & A2 & A3 & A4 & A5 & A6) (B1 & B2 & B3 & B4 & B5 & B6).
  unfold bres. split; [rewrite B1, A1; now rewrite app_assoc|]. split; [exact B2|]. split; [exact B3|].
  split; [congruence|]. split; [congruence|eapply ext_trans; eauto].
Qed.

Lemma bres_frame_emit : forall o s c dset, oi_bad (emit o s) = false -> good s -> relc s c dset ->
  rec_touch o = false -> op_class o = None -> bres s (emit o s) c dset (op_cev o).
Proof. intros. unfold bres. now apply emit_frame. Qed.

Lemma cur_file_bres : forall s s' c dset ev, bres s s' c dset ev -> cur_file s' = cur_file s.
Proof. intros s s' c dset ev (_ & _ & _ & _ & T & _). unfold cur_file. now rewrite T. Qed.

Lemma targ_step : forall a s c dset, good s -> relc s c dset -> oi_bad (index_targ a s) = false ->
  bres s (index_targ a s) c dset (sp_targ (cur_file s) a c).
Proof.
  intros [t i d] s c dset Hg Hr Hb. unfold index_targ, sp_targ in *.
  assert (ty_string (oi_sm s) t = ty_str (c_cls c) t) as Ety.
  { rewrite ty_string_str. destruct Hr as (_ & -> & _). reflexivity. }
  rewrite Ety in *. destruct (ty_str (c_cls c) t) as [typ|]; [|now apply bres_refl].
  set (o1 := OpAddTemplateArg (i_name i) typ (loc_of s (i_rng i)) (next_id (oi_sm s) KTemplateArg)) in *.
  assert (forall oa ob, rec_touch oa = false -> op_class oa = None -> rec_touch ob = false -> op_class ob = None ->
            op_cev oa = [] -> op_cev ob = [] -> oi_bad (emit ob (emit oa (emit o1 s))) = false ->
            bres s (emit ob (emit oa (emit o1 s))) c dset
                 [CTArg (cur_file s) (i_name i) typ (r_lo (i_rng i)) (r_hi (i_rng i))]) as Hpair.
  { intros oa ob Ta Ca Tb Cb Ea Eb Hbb.
    assert (oi_bad (emit oa (emit o1 s)) = false) as Hb2 by (eapply (not_bad_before _ _ (sticky_emit _)); exact Hbb).
    assert (oi_bad (emit o1 s) = false) as Hb1 by (eapply (not_bad_before _ _ (sticky_emit _)); exact Hb2).
    pose proof (bres_frame_emit o1 s c dset Hb1 Hg Hr eq_refl eq_refl) as B1.
    destruct B1 as (X1 & X2 & X3 & X4) eqn:Eq1. clear Eq1.
    pose proof (bres_frame_emit oa _ c dset Hb2 X2 X3 Ta Ca) as B2.
    destruct B2 as (Y1 & Y2 & Y3 & Y4) eqn:Eq2. clear Eq2.
    pose proof (bres_frame_emit ob _ c dset Hbb Y2 Y3 Tb Cb) as B3.
    pose proof (bres_trans _ _ _ _ _ _ _ _ (bres_trans _ _ _ _ _ _ _ _ (conj X1 (conj X2 (conj X3 X4))) (conj Y1 (conj Y2 (conj Y3 Y4)))) B3) as B.
    rewrite Ea, Eb in B. cbn [o1 op_cev app] in B. exact B. }
  rewrite emit_scopes in Hb |- *.
  destruct (first_record (oi_scopes s)) as [rid|].
  - apply Hpair; try reflexivity. exact Hb.
  - destruct (first_multiclass (oi_scopes s)) as [mid|].
    + apply Hpair; try reflexivity. exact Hb.
    + cbn in Hb. discriminate.
Qed.

Lemma targs_step : forall (targs : option (list targ)) s c dset, good s -> relc s c dset ->
  oi_bad (match targs with Some l => fold_left (fun a t => index_targ t a) l s | None => s end) = false ->
  bres s (match targs with Some l => fold_left (fun a t => index_targ t a) l s | None => s end) c dset
       (sp_targs (cur_file s) targs c).
Proof.
  intros [l|] s c dset Hg Hr Hb; [|now apply bres_refl]. cbn [sp_targs].
  revert s Hg Hr Hb. induction l as [|a l IH]; intros s Hg Hr Hb; cbn [fold_left flat_map] in *; [now apply bres_refl|].
  assert (oi_bad (index_targ a s) = false) as Hb1.
  { eapply (not_bad_before (fun st => fold_left (fun a0 t => index_targ t a0) l st)); [|exact Hb].
    apply (sticky_fold _ (fun t a0 => index_targ t a0)). intros t. apply (sticky_quiet _ (quiet_index_targ t)). }
  pose proof (targ_step a s c dset Hg Hr Hb1) as B1.
  pose proof B1 as (_ & G1 & R1 & _).
  pose proof (IH _ G1 R1 Hb) as B2. rewrite (cur_file_bres _ _ _ _ _ B1) in B2.
  eapply bres_trans; eauto.
Qed.

Lemma parent_step : forall rid p s c dset, good s -> relc s c dset -> oi_bad (index_parent rid p s) = false ->
  bres s (index_parent rid p s) (sp_parent rid p c) dset [].
Proof.
  intros rid [i a r] s c dset Hg Hr Hb. unfold index_parent, sp_parent in *.
  assert (find_class (oi_sm s) (i_name i) = amap_get (c_cls c) (i_name i)) as Ec.
  { unfold find_class. destruct Hr as (_ & -> & _). reflexivity. }
  rewrite Ec in *. destruct (amap_get (c_cls c) (i_name i)) as [cid|]; [|now apply bres_refl].
  destruct (cid =? rid); [now apply bres_refl|].
  destruct (rp_pair s c dset rid cid Hb Hg Hr) as (E & G & R & Sc & Tr & X).
  unfold bres. rewrite app_nil_r. exact (conj E (conj G (conj R (conj Sc (conj Tr X))))).
Qed.

Lemma parents_step : forall rid ps s c dset, good s -> relc s c dset ->
  oi_bad (fold_left (fun st p => index_parent rid p st) ps s) = false ->
  bres s (fold_left (fun st p => index_parent rid p st) ps s) (fold_left (fun a p => sp_parent rid p a) ps c) dset [].
Proof.
  intros rid ps. induction ps as [|p ps IH]; intros s c dset Hg Hr Hb; cbn [fold_left] in *; [now apply bres_refl|].
  assert (oi_bad (index_parent rid p s) = false) as Hb1.
  { eapply (not_bad_before (fun st => fold_left (fun a0 q => index_parent rid q a0) ps st)); [|exact Hb].
    apply (sticky_fold _ (fun q a0 => index_parent rid q a0)). intros q. apply (sticky_quiet _ (quiet_index_parent rid q)). }
  pose proof (parent_step rid p s c dset Hg Hr Hb1) as B1. pose proof B1 as (_ & G1 & R1 & _).
  pose proof (IH _ _ dset G1 R1 Hb) as B2. exact (bres_trans _ _ _ _ _ _ _ _ B1 B2).
Qed.

(** a field is registered: add_record_field, then record_mut + record.add_record_field *)
Lemma field_step : forall s c dset rid n typ lo hi,
  let fid := next_id (oi_sm s) KRecordField in
  let o := OpAddRecordField n typ (mkFR (cur_file s) lo hi) rid fid in
  good s -> relc s c dset -> oi_bad (emit (OpRecAddField n fid) (emit (OpRecordMut rid) (emit o s))) = false ->
  bres s (emit (OpRecAddField n fid) (emit (OpRecordMut rid) (emit o s))) (add_field c rid n typ) dset
       [CField (cur_file s) n typ lo hi].
Proof.
  intros s c dset rid n typ lo hi fid o Hg Hr Hb.
  assert (oi_bad (emit o s) = false) as Hb1.
  { eapply (not_bad_before (fun st => emit (OpRecAddField n fid) (emit (OpRecordMut rid) st))); [|exact Hb].
    intros st B. now apply sticky_emit, sticky_emit. }
  pose proof (bres_frame_emit o s c dset Hb1 Hg Hr eq_refl eq_refl) as B1. pose proof B1 as (_ & G1 & R1 & _).
  destruct (emit_okc o s Hb1 Hg) as (_ & Ea & _).
  pose proof (op_new_entry _ _ _ _ _ _ Ea eq_refl) as Hnew. fold fid in Hnew.
  destruct (rf_pair (emit o s) c dset rid n fid _ typ Hb G1 R1 Hnew eq_refl) as (E & G & R & Sc & Tr & X).
  assert (bres (emit o s) (emit (OpRecAddField n fid) (emit (OpRecordMut rid) (emit o s))) (add_field c rid n typ) dset []) as B2.
  { unfold bres. rewrite app_nil_r. exact (conj E (conj G (conj R (conj Sc (conj Tr X))))). }
  pose proof (bres_trans _ _ _ _ _ _ _ _ B1 B2) as B. cbn [o op_cev fr_file fr_lo fr_hi app] in B. exact B.
Qed.

Lemma item_step : forall rid it s c dset, good s -> relc s c dset -> oi_bad (index_item rid it s) = false ->
  exists ev c', sp_item (cur_file s) rid it c = Some (ev, c') /\ bres s (index_item rid it s) c' dset ev.
Proof.
  intros rid it s c dset Hg Hr Hb. destruct it; cbn [index_item sp_item] in *;
    try (exists [], c; split; [reflexivity|now apply bres_refl]).
  - (* field *)
    assert (ty_string (oi_sm s) t = ty_str (c_cls c) t) as Ety.
    { rewrite ty_string_str. destruct Hr as (_ & -> & _). reflexivity. }
    rewrite Ety in *. destruct (ty_str (c_cls c) t) as [typ|].
    + eexists _, _. split; [reflexivity|]. apply (field_step s c dset rid (i_name i) typ); auto.
    + exists [], c. split; [reflexivity|now apply bres_refl].
  - (* let *)
    destruct (find_field (S (List.length (sm_records (oi_sm s)))) (oi_sm s) rid (i_name i)) as [[f0|]|err] eqn:Ef.
    + pose proof Hr as (R1 & R2 & R3 & R4 & R5).
      destruct (find_field_table _ _ _ _ _ R3 Ef) as (tt & Hs & (fe & Hfe & ->)). rewrite Hs.
      rewrite Hfe in *.
      eexists _, _. split; [reflexivity|].
      apply (field_step s c dset rid (i_name i) (p_typ (e_payload fe))); auto.
    + pose proof Hr as (R1 & R2 & R3 & R4 & R5).
      destruct (find_field_table _ _ _ _ _ R3 Ef) as (tt & Hs & Ht). cbn in Ht. subst tt. rewrite Hs.
      exists [], c. split; [reflexivity|]. now apply bres_refl.
    + cbn in Hb. discriminate.
Qed.

Lemma items_step : forall rid b s c dset, good s -> relc s c dset ->
  oi_bad (fold_left (fun st it => index_item rid it st) b s) = false ->
  exists ev c', sp_items (cur_file s) rid b c = Some (ev, c') /\
                bres s (fold_left (fun st it => index_item rid it st) b s) c' dset ev.
Proof.
  intros rid b. induction b as [|it b IH]; intros s c dset Hg Hr Hb; cbn [fold_left sp_items] in *.
  - exists [], c. split; [reflexivity|now apply bres_refl].
  - assert (oi_bad (index_item rid it s) = false) as Hb1.
    { eapply (not_bad_before (fun st => fold_left (fun a0 q => index_item rid q a0) b st)); [|exact Hb].
      apply (sticky_fold _ (fun q a0 => index_item rid q a0)). intros q. apply (sticky_quiet _ (quiet_index_item rid q)). }
    destruct (item_step rid it s c dset Hg Hr Hb1) as (e1 & c1 & S1 & B1). pose proof B1 as (_ & G1 & R1 & _).
    destruct (IH _ _ dset G1 R1 Hb) as (e2 & c2 & S2 & B2). rewrite (cur_file_bres _ _ _ _ _ B1) in S2.
    rewrite S1, S2. exists (e1 ++ e2), c2. split; [reflexivity|]. eapply bres_trans; eauto.
Qed.

Lemma record_body_step : forall rid ps b s c dset, good s -> relc s c dset ->
  oi_bad (index_record_body rid ps b s) = false ->
  exists ev c', sp_record_body (cur_file s) rid ps b c = Some (ev, c') /\ bres s (index_record_body rid ps b s) c' dset ev.
Proof.
  intros rid ps b s c dset Hg Hr Hb. unfold index_record_body, sp_record_body in *.
  assert (oi_bad (fold_left (fun st p => index_parent rid p st) ps s) = false) as Hb1.
  { eapply (not_bad_before (fun st => fold_left (fun a0 q => index_item rid q a0) b st)); [|exact Hb].
    apply (sticky_fold _ (fun q a0 => index_item rid q a0)). intros q. apply (sticky_quiet _ (quiet_index_item rid q)). }
  pose proof (parents_step rid ps s c dset Hg Hr Hb1) as B1. pose proof B1 as (_ & G1 & R1 & _).
  destruct (items_step rid b _ _ dset G1 R1 Hb) as (ev & c' & S2 & B2). rewrite (cur_file_bres _ _ _ _ _ B1) in S2.
  exists ev, c'. split; [exact S2|]. exact (bres_trans _ _ _ _ _ _ _ _ B1 B2).
Qed.

(** ---- unfolding [svc] ---- *)
Definition svc_body (files : list (list stmt)) (n : nat) (g : N) (dset : bool) (x : stmt) (c : cstate)
  : option (list cev * cstate) :=
  let many := svc_list files n in
  match x with
  | SInclude _ None => Some ([], c)
  | SInclude _ (Some f) =>
      if existsb (N.eqb f) (c_indexed c) then Some ([], c)
      else let c1 := mkC (f :: c_indexed c) (c_cls c) (c_recs c) (c_anon c) (c_skipped c) in
           match nth_error files (N.to_nat f) with
           | None => Some ([], c1)
           | Some body => many f false body c1
           end
  | SClass i targs ps b =>
      let rid := rid_of c in
      let c1 := new_rec (mkC (c_indexed c) (amap_insert (c_cls c) (i_name i) rid) (c_recs c) (c_anon c) (c_skipped c)) in
      match sp_record_body g rid ps b c1 with
      | None => None
      | Some (eb, c2) =>
          Some (CRec g RKClass (i_name i) (r_lo (i_rng i)) (r_hi (i_rng i)) true :: sp_targs g targs c1 ++ eb, c2)
      end
  | SDef (Some nm) _ ps b =>
      match value_first_ident nm with
      | Some i =>
          let rid := rid_of c in
          match sp_record_body g rid ps b (new_rec c) with
          | None => None
          | Some (eb, c2) => Some (CRec g RKDef (i_name i) (r_lo (i_rng i)) (r_hi (i_rng i)) (negb dset) :: eb, c2)
          end
      | None => Some ([], c)
      end
  | SDef None r ps b =>
      let rid := rid_of c in
      let c1 := new_rec (mkC (c_indexed c) (c_cls c) (c_recs c) (c_anon c + 1) (c_skipped c)) in
      match sp_record_body g rid ps b c1 with
      | None => None
      | Some (eb, c2) => Some (CAnon g (anonymous_name (c_anon c)) (r_lo r) (r_hi r) :: eb, c2)
      end
  | SDefm None _ _ => Some ([], mkC (c_indexed c) (c_cls c) (c_recs c) (c_anon c + 1) (c_skipped c))
  | SDefm (Some _) _ _ => Some ([], c)
  | SDefset t i b =>
      match ty_str (c_cls c) t with
      | Some typ =>
          match many g true b c with
          | None => None
          | Some (e, c') => Some (CDefset g (i_name i) typ (r_lo (i_rng i)) (r_hi (i_rng i)) :: e, c')
          end
      | None => Some ([], mkC (c_indexed c) (c_cls c) (c_recs c) (c_anon c) true)
      end
  | SMulticlass i targs _ b =>
      match many g dset b c with
      | None => None
      | Some (e, c') => Some (CMc g (i_name i) (r_lo (i_rng i)) (r_hi (i_rng i)) :: sp_targs g targs c ++ e, c')
      end
  | SForeach _ _ b | SLet _ b => many g dset b c
  | SIf _ th el =>
      match many g dset th c with
      | None => None
      | Some (e1, c1) =>
          match el with
          | None => Some (e1, c1)
          | Some e => match many g dset e c1 with
                      | None => None
                      | Some (e2, c2) => Some (e1 ++ e2, c2)
                      end
          end
      end
  | SAssert _ _ | SDefvar _ _ | SDump _ => Some ([], c)
  end.

Lemma svc_S : forall files n g dset x c, svc files (S n) g dset x c = svc_body files n g dset x c.
Proof.
  intros files n g dset x c.
  assert (forall g d b c,
    (fix many (g : N) (d : bool) (b : list stmt) (c : cstate) {struct b} : option (list cev * cstate) :=
       match b with
       | [] => Some ([], c)
       | y :: r => match svc files n g d y c with
                   | None => None
                   | Some (e1, c1) => match many g d r c1 with
                                      | None => None
                                      | Some (e2, c2) => Some (e1 ++ e2, c2)
                                      end
                   end
       end) g d b c = svc_list files n g d b c) as Hm.
  { intros g0 d b. induction b as [|y r IH]; intros c0; [reflexivity|].
    cbn [svc_list]. destruct (svc files n g0 d y c0) as [[e1 c1]|]; [|reflexivity]. now rewrite IH. }
  unfold svc_body. destruct x; cbn [svc]; rewrite ?Hm; try reflexivity.
  all: repeat (match goal with
               | |- context [match ?e with _ => _ end] => destruct e
               | |- context [if ?e then _ else _] => destruct e
               end; rewrite ?Hm; try reflexivity).
Qed.

(** ---- lists, blocks ---- *)
Lemma simc_list : forall files n (b : list stmt),
  (forall y, simc (index_stmt files n y) (fun g d c => svc files n g d y c)) ->
  simc (fun s => fold_left (fun a y => index_stmt files n y a) b s) (fun g d c => svc_list files n g d b c).
Proof.
  intros files n b Hy. induction b as [|y b IH]; intros s c dset Hg Hr Hb; cbn [fold_left svc_list] in *.
  - exists [], c. rewrite app_nil_r. split; [reflexivity|]. split; [reflexivity|]. split; [exact Hg|]. split; [exact Hr|].
    auto using ext_refl.
  - assert (oi_bad (index_stmt files n y s) = false) as Hb1.
    { eapply (not_bad_before (fun st => fold_left (fun a y0 => index_stmt files n y0 a) b st)); [apply sticky_stmts|exact Hb]. }
    destruct (Hy y s c dset Hg Hr Hb1) as (e1 & c1 & S1 & E1 & G1 & R1 & Sc1 & T1 & X1).
    destruct (IH (index_stmt files n y s) c1 dset G1 R1 Hb) as (e2 & c2 & S2 & E2 & G2 & R2 & Sc2 & T2 & X2).
    assert (cur_file (index_stmt files n y s) = cur_file s) as Hc by (unfold cur_file; now rewrite T1).
    rewrite Hc in S2. rewrite S1, S2.
    exists (e1 ++ e2), c2. split; [reflexivity|]. split; [rewrite E2, E1; now rewrite app_assoc|].
    split; [exact G2|]. split; [exact R2|]. split; [congruence|]. split; [congruence|]. eapply ext_trans; eauto.
Qed.

Lemma push_other_ok : forall k s c dset, (forall d, k <> ODefset d) -> good s -> relc s c dset ->
  good (push_scope k s) /\ relc (push_scope k s) c dset.
Proof.
  intros k s c dset Hk (G1 & G2 & G3) (R1 & R2 & R3 & R4 & R5).
  assert (first_defset (k :: oi_scopes s) = first_defset (oi_scopes s)) as Hfd.
  { destruct k; try reflexivity. exfalso. now apply (Hk id). }
  split.
  - split; [|split; [exact G2|exact G3]]. cbn. destruct k; try exact G1. exfalso. now apply (Hk id).
  - split; [exact R1|]. split; [exact R2|]. split; [exact R3|]. split; [exact R4|].
    unfold lex in *. cbn [push_scope set_scopes oi_scopes]. rewrite Hfd. exact R5.
Qed.

Lemma pop_other_ok : forall k s0 s c dset, (forall d, k <> ODefset d) ->
  oi_scopes s = k :: oi_scopes s0 -> good s -> relc s c dset ->
  good (pop_scope s) /\ relc (pop_scope s) c dset /\ oi_scopes (pop_scope s) = oi_scopes s0.
Proof.
  intros k s0 s c dset Hk Sc (G1 & G2 & G3) (R1 & R2 & R3 & R4 & R5).
  assert (first_defset (k :: oi_scopes s0) = first_defset (oi_scopes s0)) as Hfd.
  { destruct k; try reflexivity. exfalso. now apply (Hk id). }
  split; [|split].
  - split; [|split; [exact G2|exact G3]]. cbn [pop_scope set_scopes oi_scopes oi_sm oi_indexed]. rewrite Sc in *. cbn [tl].
    destruct k; cbn [dsets_ok] in G1; try exact G1. exfalso. now apply (Hk id).
  - split; [exact R1|]. split; [exact R2|]. split; [exact R3|]. split; [exact R4|].
    unfold lex in *. cbn [pop_scope set_scopes oi_scopes oi_sm]. rewrite Sc in *. cbn [tl]. rewrite Hfd in R5. exact R5.
  - cbn [pop_scope set_scopes oi_scopes]. now rewrite Sc.
Qed.

Lemma simc_wrap : forall k F spec, (forall d, k <> ODefset d) -> simc F spec ->
  simc (fun s => pop_scope (F (push_scope k s))) spec.
Proof.
  intros k F spec Hk HF s c dset Hg Hr Hb.
  destruct (push_other_ok k s c dset Hk Hg Hr) as [GP RP].
  destruct (HF (push_scope k s) c dset GP RP Hb) as (ev & c' & S1 & E1 & G1 & R1 & Sc & Tr & X).
  destruct (pop_other_ok k s _ c' dset Hk Sc G1 R1) as (G2 & R2 & Sc2).
  exists ev, c'. split; [exact S1|]. split; [exact E1|]. split; [exact G2|]. split; [exact R2|].
  split; [exact Sc2|]. split; [exact Tr|exact X].
Qed.

(** a record: push its scope, template arguments, parents, body items, pop *)
Lemma record_block : forall rid (targs : option (list targ)) ps b s c dset, good s -> relc s c dset ->
  oi_bad (pop_scope (index_record_body rid ps b
           (match targs with Some l => fold_left (fun a t => index_targ t a) l (push_scope (ORecord rid) s)
            | None => push_scope (ORecord rid) s end))) = false ->
  exists eb c2, sp_record_body (cur_file s) rid ps b c = Some (eb, c2) /\
    bres s (pop_scope (index_record_body rid ps b
           (match targs with Some l => fold_left (fun a t => index_targ t a) l (push_scope (ORecord rid) s)
            | None => push_scope (ORecord rid) s end))) c2 dset (sp_targs (cur_file s) targs c ++ eb).
Proof.
  intros rid targs ps b s c dset Hg Hr Hb.
  destruct (push_other_ok (ORecord rid) s c dset ltac:(discriminate) Hg Hr) as [GP RP].
  set (sP := push_scope (ORecord rid) s) in *.
  set (sT := match targs with Some l => fold_left (fun a t => index_targ t a) l sP | None => sP end) in *.
  assert (oi_bad (index_record_body rid ps b sT) = false) as Hb2 by exact Hb.
  assert (oi_bad sT = false) as Hb1.
  { eapply (not_bad_before _ _ (sticky_quiet _ (quiet_record_body rid ps b))); exact Hb2. }
  pose proof (targs_step targs sP c dset GP RP Hb1) as B1. fold sT in B1. pose proof B1 as (_ & G1 & R1 & Sc1 & _).
  destruct (record_body_step rid ps b sT c dset G1 R1 Hb2) as (eb & c2 & S2 & B2).
  rewrite (cur_file_bres _ _ _ _ _ B1) in S2. change (cur_file sP) with (cur_file s) in S2, B1.
  pose proof (bres_trans _ _ _ _ _ _ _ _ B1 B2) as (E & G & R & Sc & Tr & X).
  destruct (pop_other_ok (ORecord rid) s _ c2 dset ltac:(discriminate) Sc G R) as (G3 & R3 & Sc3).
  exists eb, c2. split; [exact S2|]. unfold bres. split; [exact E|]. split; [exact G3|]. split; [exact R3|].
  split; [exact Sc3|]. split; [exact Tr|exact X].
Qed.

(** a new record: add_record / add_anonymous_def *)
Lemma alloc_rec_step : forall o s c dset e0 keyed,
  op_alloc o = Some (KRecord, e0, keyed) -> is_prec (e_payload e0) = true ->
  p_fields (e_payload e0) = [] -> p_parents (e_payload e0) = [] ->
  oi_bad (emit o s) = false -> good s -> relc s c dset ->
  bres s (emit o s)
       (new_rec (mkC (c_indexed c) (match op_class o with Some n => amap_insert (c_cls c) n (rid_of c) | None => c_cls c end)
                     (c_recs c) (c_anon c) (c_skipped c))) dset (op_cev o).
Proof.
  intros o s c dset e0 keyed Eo K0 F0 P0 Hb Hg (R1 & R2 & R3 & R4 & R5).
  destruct (emit_okc o s Hb Hg) as (_ & Ea & E & G & Sc & Tr & Ix & An & X & L).
  unfold bres. split; [exact E|]. split; [exact G|]. split; [|auto].
  split; [cbn; congruence|]. split.
  - cbn [new_rec set_recs c_cls]. rewrite (classes_apply_op _ _ _ Ea).
    destruct (op_class o); [|exact R2]. rewrite R2. f_equal. destruct R3 as (Hn & _). unfold rid_of. exact Hn.
  - split; [cbn [new_rec set_recs c_recs]; eapply recs_mirror_alloc; eauto|]. split; [cbn; congruence|auto].
Qed.

Lemma simc_nothing : forall s c dset, good s -> relc s c dset ->
  exists ev c', Some (@nil cev, c) = Some (ev, c') /\ CE s = CE s ++ ev /\ good s /\ relc s c' dset /\
                oi_scopes s = oi_scopes s /\ oi_trace s = oi_trace s /\ ext (oi_sm s) (oi_sm s).
Proof.
  intros s c dset Hg Hr. exists [], c. rewrite app_nil_r. split; [reflexivity|]. split; [reflexivity|].
  split; [exact Hg|]. split; [exact Hr|]. auto using ext_refl.
Qed.

Theorem simc_stmt : forall files fuel x, simc (index_stmt files fuel x) (fun g d c => svc files fuel g d x c).
Proof.
  intros files. induction fuel as [|n IH]; intros x.
  - intros s c dset _ _ Hb. cbn in Hb. discriminate.
  - pose proof (fun b => simc_list files n b IH) as HL.
    intros s c dset Hg Hr Hb. rewrite svc_S. revert Hb.
    destruct x; cbn [index_stmt svc_body]; intros Hb.
    + (* include *)
      pose proof Hg as (G1 & G2 & G3). pose proof Hr as (R1 & R2 & R3 & R4 & R5).
      destruct target as [f|]; [|now apply simc_nothing].
      rewrite <- R1. destruct (existsb (N.eqb f) (oi_indexed s)) eqn:Ex; [now apply simc_nothing|].
      assert (~ In f (oi_indexed s)) as Hnf.
      { intros Hin. assert (existsb (N.eqb f) (oi_indexed s) = true) as Ht; [|congruence].
        apply existsb_exists. exists f. split; [exact Hin|apply N.eqb_refl]. }
      destruct (nth_error files (N.to_nat f)) as [body|].
      2:{ exists [], (mkC (f :: oi_indexed s) (c_cls c) (c_recs c) (c_anon c) (c_skipped c)). rewrite app_nil_r.
          split; [reflexivity|]. split; [reflexivity|].
          split; [split; [cbn; eapply dsets_ok_ext; [apply ext_refl|apply incl_tl, incl_refl|exact G1]
                         |split; [intros g Hin; right; now apply G2|exact G3]]|].
          split; [split; [reflexivity|split; [exact R2|split; [exact R3|split; [exact R4|exact R5]]]]|]. auto using ext_refl. }
      set (s1 := set_files s (f :: oi_trace s) (f :: oi_indexed s)) in *.
      set (c1 := mkC (f :: oi_indexed s) (c_cls c) (c_recs c) (c_anon c) (c_skipped c)).
      assert (good s1) as GS.
      { split; [cbn; eapply dsets_ok_ext; [apply ext_refl|apply incl_tl, incl_refl|exact G1]|].
        split; [|discriminate]. intros g [<-|Hin]; [now left|right; now apply G2]. }
      assert (relc s1 c1 false) as RS.
      { split; [reflexivity|]. split; [exact R2|]. split; [exact R3|]. split; [exact R4|].
        unfold lex. cbn [s1 set_files oi_scopes oi_sm].
        destruct (first_defset (oi_scopes s)) as [d|] eqn:Fd; [|reflexivity].
        assert (exists de, get_entry (oi_sm s) (KDefset, d) = Some de /\ In (fr_file (e_def de)) (oi_indexed s)) as (de & Hd & Hin).
        { clear - G1 Fd. induction (oi_scopes s) as [|k l IHl]; [discriminate|].
          destruct k; cbn [first_defset dsets_ok] in *; auto. injection Fd as <-. tauto. }
        exists de. split; [exact Hd|]. unfold cur_file. cbn. symmetry. apply N.eqb_neq. intros Heq. apply Hnf. now rewrite <- Heq. }
      cbn [set_files oi_bad] in Hb.
      destruct (HL body s1 c1 false GS RS Hb) as (ev & c' & S1 & E1 & (A1 & A2 & A3) & (B1 & B2 & B3 & B4 & B5) & Sc & Tr & X).
      change (cur_file s1) with f in S1.
      exists ev, c'. split; [exact S1|]. split; [exact E1|].
      cbn [s1 set_files oi_trace oi_scopes oi_sm] in Tr, Sc, X.
      split; [|split; [|split; [exact Sc|split; [cbn; now rewrite Tr|exact X]]]].
      * split; [exact A1|]. cbn [set_files oi_trace oi_indexed]. rewrite Tr. cbn [tl].
        split; [|exact G3]. intros g Hin. apply A2. rewrite Tr. now right.
      * split; [exact B1|]. split; [exact B2|]. split; [exact B3|]. split; [exact B4|].
        eapply (lex_frame s); [exact R5|exact Sc|cbn; now rewrite Tr|exact X].
    + (* assert *) now apply simc_nothing.
    + (* class *)
      set (rid := next_id (oi_sm s) KRecord) in *.
      set (o := OpAddRecord (i_name i) RKClass (loc_of s (i_rng i)) true rid) in *.
      assert (rid = rid_of c) as Hrid.
      { destruct Hr as (_ & _ & (Hn & _) & _). unfold rid_of. exact Hn. }
      assert (oi_bad (emit o s) = false) as Hbe.
      { eapply (not_bad_before _ _ (sticky_quiet _ (quiet_record_block rid targs parents body))); exact Hb. }
      pose proof (alloc_rec_step o s c dset _ _ eq_refl eq_refl eq_refl eq_refl Hbe Hg Hr) as B1.
      cbn [op_class o] in B1. pose proof B1 as (_ & G1 & R1 & _).
      destruct (record_block rid targs parents body _ _ dset G1 R1 Hb) as (eb & c2 & S2 & B2).
      rewrite (cur_file_bres _ _ _ _ _ B1) in S2, B2. rewrite Hrid in S2. rewrite S2.
      pose proof (bres_trans _ _ _ _ _ _ _ _ B1 B2) as (E & G & R & Sc & Tr & X).
      eexists _, _. split; [reflexivity|]. split; [exact E|]. split; [exact G|]. split; [exact R|]. auto.
    + (* def *)
      set (rid := next_id (oi_sm s) KRecord) in *.
      assert (rid = rid_of c) as Hrid.
      { destruct Hr as (_ & _ & (Hn & _) & _). unfold rid_of. exact Hn. }
      destruct nm as [vv|].
      * destruct (value_first_ident vv) as [i|] eqn:Ev; [|now apply simc_nothing].
        set (same_file := match first_defset (oi_scopes s) with
                          | Some d => match get_entry (oi_sm s) (KDefset, d) with
                                      | Some de => fr_file (e_def de) =? cur_file s | None => false end
                          | None => false end) in *.
        assert (same_file = dset) as Hsf.
        { destruct Hr as (_ & _ & _ & _ & R5). unfold lex in R5. unfold same_file.
          destruct (first_defset (oi_scopes s)); [|now rewrite R5]. destruct R5 as (de & -> & ->). reflexivity. }
        set (o := OpAddRecord (i_name i) RKDef (loc_of s (i_rng i)) (negb same_file) rid) in *.
        set (D := fun st => match first_defset (oi_scopes s) with
                            | Some d => emit (OpDefsetAddDef rid) (emit (OpDefsetMut d) st)
                            | None => st end).
        change (oi_bad (pop_scope (index_record_body rid parents body (push_scope (ORecord rid) (D (emit o s))))) = false) in Hb.
        assert (sticky D) as HsD.
        { unfold D. destruct (first_defset (oi_scopes s)); intros st B; [now apply sticky_emit, sticky_emit|exact B]. }
        assert (oi_bad (D (emit o s)) = false) as HbD.
        { eapply (not_bad_before _ _ (sticky_quiet _ (quiet_record_block rid None parents body))); exact Hb. }
        assert (oi_bad (emit o s) = false) as Hbe by (eapply (not_bad_before _ _ HsD); exact HbD).
        pose proof (alloc_rec_step o s c dset _ _ eq_refl eq_refl eq_refl eq_refl Hbe Hg Hr) as B1.
        cbn [op_class o] in B1. pose proof B1 as (_ & G1 & R1 & _).
        assert (bres (emit o s) (D (emit o s)) (new_rec (mkC (c_indexed c) (c_cls c) (c_recs c) (c_anon c) (c_skipped c))) dset []) as BD.
        { unfold D in *. destruct (first_defset (oi_scopes s)) as [d|]; [|now apply bres_refl].
          assert (oi_bad (emit (OpDefsetMut d) (emit o s)) = false) as Hb2 by (eapply (not_bad_before _ _ (sticky_emit _)); exact HbD).
          pose proof (bres_frame_emit _ _ _ dset Hb2 G1 R1 eq_refl eq_refl) as X1. pose proof X1 as (_ & G2 & R2 & _).
          pose proof (bres_frame_emit _ _ _ dset HbD G2 R2 eq_refl eq_refl) as X2.
          exact (bres_trans _ _ _ _ _ _ _ _ X1 X2). }
        pose proof BD as (_ & G2 & R2 & _).
        destruct (record_block rid None parents body _ _ dset G2 R2 Hb) as (eb & c2 & S2 & B2).
        rewrite (cur_file_bres _ _ _ _ _ BD), (cur_file_bres _ _ _ _ _ B1) in S2, B2.
        assert (new_rec (mkC (c_indexed c) (c_cls c) (c_recs c) (c_anon c) (c_skipped c)) = new_rec c) as Enc by (destruct c; reflexivity).
        rewrite Enc in S2. rewrite Hrid in S2. rewrite S2.
        pose proof (bres_trans _ _ _ _ _ _ _ _ (bres_trans _ _ _ _ _ _ _ _ B1 BD) B2) as (E & G & R & Sc & Tr & X).
        eexists _, _. split; [reflexivity|]. split.
        { change (CE (pop_scope (index_record_body rid parents body (push_scope (ORecord rid) (D (emit o s))))) =
                  CE s ++ CRec (cur_file s) RKDef (i_name i) (r_lo (i_rng i)) (r_hi (i_rng i)) (negb dset) :: eb).
          rewrite E. unfold o. cbn [op_cev sp_targs app fr_file fr_lo fr_hi loc_of]. rewrite Hsf. reflexivity. }
        split; [exact G|]. split; [exact R|]. auto.
      * (* anonymous *)
        set (s0 := set_anon s (oi_anon s + 1)).
        set (c0' := mkC (c_indexed c) (c_cls c) (c_recs c) (c_anon c + 1) (c_skipped c)).
        set (o := OpAddAnonymousDef (anonymous_name (oi_anon s)) (loc_of s r) rid) in *.
        set (D := fun st => match first_defset (oi_scopes s) with
                            | Some d => emit (OpDefsetAddDef rid) (emit (OpDefsetMut d) st)
                            | None => st end).
        change (oi_bad (pop_scope (index_record_body rid parents body (push_scope (ORecord rid) (D (emit o s0))))) = false) in Hb.
        assert (good s0) as G0 by exact Hg.
        assert (relc s0 c0' dset) as R0.
        { destruct Hr as (R1 & R2 & R3 & R4 & R5). split; [exact R1|]. split; [exact R2|]. split; [exact R3|].
          split; [cbn; now rewrite R4|exact R5]. }
        assert (sticky D) as HsD.
        { unfold D. destruct (first_defset (oi_scopes s)); intros st B; [now apply sticky_emit, sticky_emit|exact B]. }
        assert (oi_bad (D (emit o s0)) = false) as HbD.
        { eapply (not_bad_before _ _ (sticky_quiet _ (quiet_record_block rid None parents body))); exact Hb. }
        assert (oi_bad (emit o s0) = false) as Hbe by (eapply (not_bad_before _ _ HsD); exact HbD).
        pose proof (alloc_rec_step o s0 c0' dset _ _ eq_refl eq_refl eq_refl eq_refl Hbe G0 R0) as B1.
        cbn [op_class o] in B1. pose proof B1 as (_ & G1 & R1 & _).
        assert (bres (emit o s0) (D (emit o s0)) (new_rec c0') dset []) as BD.
        { unfold D in *. destruct (first_defset (oi_scopes s)) as [d|]; [|now apply bres_refl].
          assert (oi_bad (emit (OpDefsetMut d) (emit o s0)) = false) as Hb2 by (eapply (not_bad_before _ _ (sticky_emit _)); exact HbD).
          pose proof (bres_frame_emit _ _ _ dset Hb2 G1 R1 eq_refl eq_refl) as X1. pose proof X1 as (_ & G2 & R2 & _).
          pose proof (bres_frame_emit _ _ _ dset HbD G2 R2 eq_refl eq_refl) as X2.
          exact (bres_trans _ _ _ _ _ _ _ _ X1 X2). }
        pose proof BD as (_ & G2 & R2 & _).
        destruct (record_block rid None parents body _ _ dset G2 R2 Hb) as (eb & c2 & S2 & B2).
        rewrite (cur_file_bres _ _ _ _ _ BD), (cur_file_bres _ _ _ _ _ B1) in S2, B2.
        change (cur_file s0) with (cur_file s) in S2, B2.
        rewrite Hrid in S2. fold c0'. rewrite S2.
        pose proof (bres_trans _ _ _ _ _ _ _ _ (bres_trans _ _ _ _ _ _ _ _ B1 BD) B2) as (E & G & R & Sc & Tr & X).
        eexists _, _. split; [reflexivity|]. split.
        { change (CE (pop_scope (index_record_body rid parents body (push_scope (ORecord rid) (D (emit o s0))))) =
                  CE s ++ CAnon (cur_file s) (anonymous_name (c_anon c)) (r_lo r) (r_hi r) :: eb).
          rewrite E. change (CE s0) with (CE s). unfold o. cbn [op_cev sp_targs app fr_file fr_lo fr_hi loc_of].
          destruct Hr as (_ & _ & _ & R4 & _). rewrite R4. reflexivity. }
        split; [exact G|]. split; [exact R|]. auto.
    + (* defm *)
      destruct nm; [now apply simc_nothing|].
      exists [], (mkC (c_indexed c) (c_cls c) (c_recs c) (c_anon c + 1) (c_skipped c)). rewrite app_nil_r.
      split; [reflexivity|]. split; [reflexivity|]. split; [exact Hg|].
      split; [destruct Hr as (R1 & R2 & R3 & R4 & R5); split; [exact R1|split; [exact R2|split; [exact R3|split; [cbn; now rewrite R4|exact R5]]]]|].
      auto using ext_refl.
    + (* defset *)
      pose proof Hr as (R1 & R2 & R3 & R4 & R5).
      assert (ty_string (oi_sm s) t = ty_str (c_cls c) t) as Ety by (rewrite ty_string_str, R2; reflexivity).
      rewrite Ety in *. destruct (ty_str (c_cls c) t) as [typ|].
      2:{ exists [], (mkC (c_indexed c) (c_cls c) (c_recs c) (c_anon c) true). rewrite app_nil_r.
          split; [reflexivity|]. split; [reflexivity|]. split; [exact Hg|].
          split; [split; [exact R1|split; [exact R2|split; [exact R3|split; [exact R4|exact R5]]]]|]. auto using ext_refl. }
      set (did := next_id (oi_sm s) KDefset) in *.
      set (o := OpAddDefset (i_name i) typ (loc_of s (i_rng i)) did) in *.
      assert (sticky (fun st => pop_scope (fold_left (fun a y => index_stmt files n y a) body (push_scope (ODefset did) st)))) as HS.
      { intros st B. apply sticky_pop, sticky_stmts, sticky_push. exact B. }
      assert (oi_bad (emit o s) = false) as Hbe by (eapply (not_bad_before _ _ HS); exact Hb).
      pose proof (bres_frame_emit o s c dset Hbe Hg Hr eq_refl eq_refl) as B1.
      pose proof B1 as (E1 & (G1 & G2 & G3) & (Q1 & Q2 & Q3 & Q4 & Q5) & Sc1 & Tr1 & X1).
      destruct (emit_okc o s Hbe Hg) as (_ & Ea & _ & _ & _ & _ & Ix1 & _).
      destruct (add_defset_entry _ _ _ _ _ _ Ea) as (de & Hde & Hloc). fold did in Hde.
      set (sP := push_scope (ODefset did) (emit o s)) in *.
      assert (In (cur_file s) (oi_indexed s)) as Hcur.
      { destruct Hg as (_ & H2 & H3). apply H2. unfold cur_file. destruct (oi_trace s); [congruence|now left]. }
      assert (good sP) as GP.
      { split; [|split; [exact G2|exact G3]]. unfold sP. cbn [push_scope set_scopes oi_scopes oi_sm oi_indexed dsets_ok].
        split; [|exact G1]. exists de. split; [exact Hde|]. rewrite Hloc, Ix1. exact Hcur. }
      assert (relc sP c true) as RP.
      { split; [exact Q1|]. split; [exact Q2|]. split; [exact Q3|]. split; [exact Q4|].
        unfold lex, sP. cbn [push_scope set_scopes oi_scopes first_defset oi_sm]. exists de. split; [exact Hde|].
        rewrite Hloc. unfold cur_file. cbn [push_scope set_scopes oi_trace]. rewrite Tr1.
        unfold loc_of, cur_file. cbn [fr_file]. symmetry. apply N.eqb_refl. }
      change (oi_bad (fold_left (fun a y => index_stmt files n y a) body sP) = false) in Hb.
      destruct (HL body sP c true GP RP Hb) as (ev & c' & S1 & E2 & (A1 & A2 & A3) & (B1' & B2 & B3 & B4 & B5) & Sc & Tr & X).
      assert (cur_file sP = cur_file s) as Hc by (unfold cur_file, sP; cbn [push_scope set_scopes oi_trace]; now rewrite Tr1).
      rewrite Hc in S1. rewrite S1.
      exists (CDefset (cur_file s) (i_name i) typ (r_lo (i_rng i)) (r_hi (i_rng i)) :: ev), c'. split; [reflexivity|].
      assert (oi_scopes sP = ODefset did :: oi_scopes s) as HscP by (unfold sP; cbn [push_scope set_scopes oi_scopes]; now rewrite Sc1).
      assert (oi_trace sP = oi_trace s) as HtrP by (unfold sP; cbn [push_scope set_scopes oi_trace]; exact Tr1).
      assert (oi_sm sP = oi_sm (emit o s)) as HsmP by reflexivity.
      split.
      { change (CE (pop_scope ?z)) with (CE z). rewrite E2. change (CE sP) with (CE (emit o s)). rewrite E1.
        rewrite <- app_assoc. reflexivity. }
      assert (ext (oi_sm s) (oi_sm (fold_left (fun a y => index_stmt files n y a) body sP))) as XX
        by (eapply ext_trans; [exact X1|]; rewrite <- HsmP; exact X).
      split; [|split; [|split; [|split; [|exact XX]]]].
      * split; [|split; [exact A2|exact A3]]. cbn [pop_scope set_scopes oi_scopes oi_sm oi_indexed].
        rewrite Sc, HscP in *. cbn [tl]. cbn [dsets_ok] in A1. tauto.
      * split; [exact B1'|]. split; [exact B2|]. split; [exact B3|]. split; [exact B4|].
        eapply (lex_frame s); [exact R5| | |exact XX].
        -- cbn [pop_scope set_scopes oi_scopes]. rewrite Sc, HscP. reflexivity.
        -- cbn [pop_scope set_scopes oi_trace]. rewrite Tr. exact HtrP.
      * cbn [pop_scope set_scopes oi_scopes]. rewrite Sc, HscP. reflexivity.
      * cbn [pop_scope set_scopes oi_trace]. rewrite Tr. exact HtrP.
    + (* defvar *) now apply simc_nothing.
    + (* dump *) now apply simc_nothing.
    + (* foreach *) exact (simc_wrap OBlock _ _ ltac:(discriminate) (HL body) s c dset Hg Hr Hb).
    + (* if *)
      assert (oi_bad (pop_scope (fold_left (fun a y => index_stmt files n y a) th (push_scope OBlock s))) = false) as Hb1.
      { destruct el; [|exact Hb].
        eapply (not_bad_before (fun st => pop_scope (fold_left (fun a y => index_stmt files n y a) l (push_scope OBlock st))));
          [|exact Hb]. intros st B. apply sticky_pop, sticky_stmts, sticky_push. exact B. }
      destruct (simc_wrap OBlock _ _ ltac:(discriminate) (HL th) s c dset Hg Hr Hb1) as (e1 & c1 & S1 & E1 & G1 & R1 & Sc1 & Tr1 & X1).
      rewrite S1. destruct el as [e|].
      * destruct (simc_wrap OBlock _ _ ltac:(discriminate) (HL e) _ c1 dset G1 R1 Hb) as (e2 & c2 & S2 & E2 & G2 & R2 & Sc2 & Tr2 & X2).
        assert (cur_file (pop_scope (fold_left (fun a y => index_stmt files n y a) th (push_scope OBlock s))) = cur_file s) as Hc
          by (unfold cur_file; now rewrite Tr1).
        rewrite Hc in S2. rewrite S2.
        exists (e1 ++ e2), c2. split; [reflexivity|]. split; [rewrite E2, E1; now rewrite app_assoc|].
        split; [exact G2|]. split; [exact R2|]. split; [congruence|]. split; [congruence|]. eapply ext_trans; eauto.
      * exists e1, c1. split; [reflexivity|]. split; [exact E1|]. auto.
    + (* let *) exact (simc_wrap OBlock _ _ ltac:(discriminate) (HL body) s c dset Hg Hr Hb).
    + (* multiclass *)
      set (mid := next_id (oi_sm s) KMulticlass) in *.
      set (o := OpAddMulticlass (i_name i) (loc_of s (i_rng i)) mid) in *.
      set (T := fun st => match targs with Some l => fold_left (fun a t => index_targ t a) l st | None => st end).
      change (oi_bad (pop_scope (fold_left (fun a y => index_stmt files n y a) body (T (push_scope (OMulticlass mid) (emit o s))))) = false) in Hb.
      assert (oi_bad (emit o s) = false) as Hbe.
      { eapply (not_bad_before (fun st => pop_scope (fold_left (fun a y => index_stmt files n y a) body (T (push_scope (OMulticlass mid) st)))));
          [|exact Hb]. intros st B. apply sticky_pop, sticky_stmts. unfold T. apply (sticky_quiet _ (quiet_targs targs)). exact B. }
      pose proof (bres_frame_emit o s c dset Hbe Hg Hr eq_refl eq_refl) as B1. pose proof B1 as (_ & G1 & R1 & _).
      destruct (push_other_ok (OMulticlass mid) (emit o s) c dset ltac:(discriminate) G1 R1) as [GP RP].
      set (sP := push_scope (OMulticlass mid) (emit o s)) in *.
      assert (oi_bad (T sP) = false) as HbT.
      { eapply (not_bad_before (fun st => pop_scope (fold_left (fun a y => index_stmt files n y a) body st))); [|exact Hb].
        intros st B. apply sticky_pop, sticky_stmts. exact B. }
      pose proof (targs_step targs sP c dset GP RP HbT) as BT. fold (T sP) in BT. pose proof BT as (ET & GT & RT & ScT & TrT & XT).
      change (oi_bad (fold_left (fun a y => index_stmt files n y a) body (T sP)) = false) in Hb.
      destruct (HL body (T sP) c dset GT RT Hb) as (ev & c' & S1 & E2 & G2 & R2 & Sc & Tr & X).
      assert (cur_file (T sP) = cur_file s) as Hc.
      { rewrite (cur_file_bres _ _ _ _ _ BT). change (cur_file sP) with (cur_file (emit o s)). apply (cur_file_bres _ _ _ _ _ B1). }
      rewrite Hc in S1. rewrite S1.
      assert (cur_file sP = cur_file s) as HcP by (change (cur_file sP) with (cur_file (emit o s)); apply (cur_file_bres _ _ _ _ _ B1)).
      rewrite HcP in ET.
      assert (oi_scopes (fold_left (fun a y => index_stmt files n y a) body (T sP)) = OMulticlass mid :: oi_scopes (emit o s)) as HscB
        by (rewrite Sc, ScT; reflexivity).
      destruct (pop_other_ok (OMulticlass mid) (emit o s) _ c' dset ltac:(discriminate) HscB G2 R2) as (G3 & R3 & Sc3).
      destruct B1 as (E1 & _ & _ & Sc1 & Tr1 & X1).
      eexists _, _. split; [reflexivity|]. split.
      { change (CE (fold_left (fun a y => index_stmt files n y a) body (T sP)) =
                CE s ++ CMc (cur_file s) (i_name i) (r_lo (i_rng i)) (r_hi (i_rng i)) :: sp_targs (cur_file s) targs c ++ ev).
        rewrite E2, ET. change (CE sP) with (CE (emit o s)). rewrite E1.
        unfold o. cbn [op_cev fr_file fr_lo fr_hi loc_of]. rewrite <- !app_assoc. reflexivity. }
      split; [exact G3|]. split; [exact R3|]. split; [exact (eq_trans Sc3 Sc1)|].
      split; [exact (eq_trans Tr (eq_trans TrT Tr1))|].
      eapply ext_trans; [exact X1|]. eapply ext_trans; [exact XT|exact X].
Qed.

(** ---- the workspace theorem ---- *)
Theorem oix_children : forall w, oi_bad (oix w) = false ->
  exists ev c', visitc_ws w = Some (ev, c') /\ ops_cevs (oix_ops w) = ev.
Proof.
  intros w Hb. unfold visitc_ws, oix_ops, oix in *. destruct (ws_files w) as [|root rest] eqn:Ef.
  - exists [], c0. split; reflexivity.
  - assert (good o0) as G0.
    { split; [exact I|]. split; [intros f H; exact H|discriminate]. }
    assert (relc o0 c0 false) as R0.
    { split; [reflexivity|]. split; [reflexivity|]. split; [|split; reflexivity].
      split; [reflexivity|]. intros r sr H. destruct r; discriminate. }
    destruct (simc_list (root :: rest) (ws_fuel w) root (simc_stmt (root :: rest) (ws_fuel w)) o0 c0 false G0 R0 Hb)
      as (ev & c' & S1 & E1 & _).
    exists ev, c'. split; [exact S1|exact E1].
Qed.
