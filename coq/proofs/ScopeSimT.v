(** ScopeSimT: ScopeSim.v for the TYPED resolver ScopeSpecT.v (field access `v.f` included): the same value-level
    simulation, with the typed invariant [TyV] (class / def tables aligned with the model's name maps, typed locals)
    carried by [Pre]; new: [sid_typed], [simple_typed], [typed_some], [sufs_sim] (the suffix loop), [value_typed].
    Copy of ScopeSim.v, extended; the untyped development stays as it is. *)
From Coq Require Import List NArith Bool Lia Arith.
From TG.Model Require Import CoreAst Scope BangOps Indexer .
From TG.Model Require Import ScopeSpecT.
From TG.Proofs Require Import ScopeBalance ScopeFrame GenericResp.
Import ListNotations.
Open Scope N_scope.

(** ---- what a value may change: nothing but the logs and (appended) leaves *)
Definition VR (s s' : st) : Prop :=
  s_recs s' = s_recs s /\ s_mcs s' = s_mcs s /\ s_nclass s' = s_nclass s /\ s_ndef s' = s_ndef s /\
  s_nmc s' = s_nmc s /\ s_ndset s' = s_ndset s /\ s_trace s' = s_trace s /\
  (exists ext, s_leaves s' = s_leaves s ++ ext).
Lemma VR_refl : forall s, VR s s.
Proof. intros s. repeat split; auto. exists []. now rewrite app_nil_r. Qed.
Lemma VR_trans : forall a b c, VR a b -> VR b c -> VR a c.
Proof.
  intros a b c (A1 & A2 & A3 & A4 & A5 & A6 & A7 & [x1 A8]) (B1 & B2 & B3 & B4 & B5 & B6 & B7 & [x2 B8]).
  repeat split; try congruence. exists (x1 ++ x2). now rewrite B8, A8, app_assoc.
Qed.

Ltac vr_prim :=
  intros; let s := fresh "s" in intros s;
  unfold add_reference, scopes_add_variable, add_leaf, bind, upd, bad, error, push_scope, pop_scope, add_pos; simpl;
  repeat match goal with |- context [match ?x with _ => _ end] => destruct x end; simpl;
  repeat split; auto; try (exists []; now rewrite app_nil_r); try (eexists; reflexivity).

Lemma VR_index_value : forall n v, resp VR (index_value n v).
Proof. apply (r_index_value VR VR_refl VR_trans); vr_prim. Qed.
Lemma VR_index_ty : forall t, resp VR (index_ty t).
Proof. apply (r_index_ty VR VR_refl VR_trans); vr_prim. Qed.
Lemma VR_index_arg : forall n a, resp VR (index_arg n a).
Proof. apply (r_index_arg VR VR_refl VR_trans); vr_prim. Qed.
Lemma VR_index_bang_ops : forall n op a vs r, resp VR (index_bang_ops n op a vs r).
Proof. apply (r_index_bang_ops VR VR_refl VR_trans); vr_prim. Qed.

(** ---- the `bad` flag (modelled panic / fuel exhaustion) is never reset *)
Definition BadMono (s s' : st) : Prop := s_bad s = true -> s_bad s' = true.
Lemma BM_refl : forall s, BadMono s s. Proof. intros s H; exact H. Qed.
Lemma BM_trans : forall a b c, BadMono a b -> BadMono b c -> BadMono a c.
Proof. intros a b c H1 H2 H. auto. Qed.
Ltac bm_prim :=
  intros; let s := fresh "s" in intros s;
  unfold BadMono, add_reference, scopes_add_variable, add_leaf, add_leaf_nopos, add_defset, add_record,
    add_anonymous_def, add_multiclass, record_mut, multiclass_mut, pop_file, push_file, next_anonymous,
    bind, upd, bad, error, push_scope, pop_scope, add_pos; simpl;
  repeat match goal with |- context [match ?x with _ => _ end] => destruct x end; simpl; auto.
Lemma BM_index_stmt : forall files n x, resp BadMono (index_stmt files n x).
Proof. apply (r_index_stmt BadMono BM_refl BM_trans); bm_prim. Qed.
Lemma BM_index_value : forall n v, resp BadMono (index_value n v).
Proof. apply (r_index_value BadMono BM_refl BM_trans); bm_prim. Qed.

(** ---------------------------------------------------------------------------------------------
    the relation between the environment of the specification and the state of the model *)
Definition nf_kind (k : dkind) : bool :=
  match k with DSymbolNotFound | DClassNotFound | DMulticlassNotFound | DCannotAccessField => true | _ => false end.
Definition nf (s : st) : list (rng * dkind) := filter (fun d => nf_kind (snd d)) (s_diags s).

Definition lookup_view (s : st) (nm : name) : option rng :=
  match resolve_id s nm with Some sym => define_loc s sym | None => None end.
Definition class_view (s : st) (nm : name) : option rng :=
  match find_class s nm with Some id => option_map rc_loc (nthN (s_recs s) id) | None => None end.
Definition mc_view (s : st) (nm : name) : option rng :=
  match find_multiclass s nm with Some id => option_map mc_loc (nthN (s_mcs s) id) | None => None end.

(** [Step s s' E]: from s to s' exactly the uses E were logged (in order), no "not found" diagnostic was
    emitted, and nothing else a lookup depends on changed *)
Record Step (s s' : st) (E : list ev) : Prop := mkStep {
  st_uses : s_uses s' = rev E ++ s_uses s;
  st_vr : VR s s';
  st_scopes : s_scopes s' = s_scopes s;
  st_nf : nf s' = nf s }.

Lemma Step_refl : forall s, Step s s [].
Proof. intros s. split; auto. apply VR_refl. Qed.
Lemma Step_trans : forall a b c E1 E2, Step a b E1 -> Step b c E2 -> Step a c (E1 ++ E2).
Proof.
  intros a b c E1 E2 [U1 V1 S1 N1] [U2 V2 S2 N2]. split.
  - rewrite U2, U1, rev_app_distr, app_assoc. reflexivity.
  - eapply VR_trans; eassumption.
  - congruence.
  - congruence.
Qed.
Lemma Step_eq : forall a b E E', Step a b E -> E = E' -> Step a b E'.
Proof. intros; subst; assumption. Qed.

(** lookups only depend on the frame *)
Lemma scope_find_eq : forall s s' c nm,
    s_recs s' = s_recs s -> s_mcs s' = s_mcs s -> scope_find s' c nm = scope_find s c nm.
Proof. intros s s' c nm Hr Hm. unfold scope_find, rec_fuel. now rewrite Hr, Hm. Qed.
Lemma find_map_ext : forall A B (g h : A -> option B) l, (forall x, g x = h x) -> find_map g l = find_map h l.
Proof. intros A B g h l H. induction l as [|x r IH]; simpl; [reflexivity|]. rewrite H, IH. reflexivity. Qed.
Lemma resolve_id_eq : forall s s' nm,
    s_scopes s' = s_scopes s -> VR s s' -> resolve_id s' nm = resolve_id s nm.
Proof.
  intros s s' nm Hs (Hr & Hm & _ & Hd & _ & Hds & _ & _).
  unfold resolve_id, find_local, find_def, find_defset. rewrite Hs, Hd, Hds.
  rewrite (find_map_ext _ _ (fun c => scope_find s' c nm) (fun c => scope_find s c nm)); [reflexivity|].
  intros c. now apply scope_find_eq.
Qed.
Lemma nthN_app_some : forall A (l ext : list A) i x, nthN l i = Some x -> nthN (l ++ ext) i = Some x.
Proof.
  intros A l ext i x H. unfold nthN in *. rewrite nth_error_app1; [assumption|].
  apply nth_error_Some. congruence.
Qed.
Lemma define_loc_ext : forall s s' sym d, VR s s' -> define_loc s sym = Some d -> define_loc s' sym = Some d.
Proof.
  intros s s' sym d (Hr & Hm & _ & _ & _ & _ & _ & [ext Hl]) H. destruct sym; simpl in *.
  - now rewrite Hr.
  - now rewrite Hm.
  - rewrite Hl. destruct (nthN (s_leaves s) i) eqn:E; [|discriminate].
    now rewrite (nthN_app_some _ _ ext _ _ E).
Qed.

(** ---------------------------------------------------------------------------------------------
    inheritance: field lookup through the parents *)
Fixpoint ff_par (k : nat) (recs : list recd) (nm : name) (ps : list N) : option N :=
  match ps with
  | [] => None
  | p :: r => match find_field k recs p nm with Some x => Some x | None => ff_par k recs nm r end
  end.
Lemma find_field_S : forall k recs id nm,
    find_field (S k) recs id nm
    = match nthN recs id with
      | None => None
      | Some r => match alookup nm (rc_fields r) with
                  | Some x => Some x
                  | None => ff_par k recs nm (rc_parents r)
                  end
      end.
Proof.
  intros k recs id nm. simpl. destruct (nthN recs id) as [r|]; [|reflexivity].
  destruct (alookup nm (rc_fields r)); [reflexivity|].
  induction (rc_parents r) as [|p ps IH]; [reflexivity|]. simpl.
  destruct (find_field k recs p nm); [reflexivity|exact IH].
Qed.
Lemma ff_par_app : forall k recs nm a b,
    ff_par k recs nm (a ++ b) = match ff_par k recs nm a with Some x => Some x | None => ff_par k recs nm b end.
Proof.
  intros k recs nm a b. induction a as [|p r IH]; [reflexivity|]. simpl.
  destruct (find_field k recs p nm); [reflexivity|exact IH].
Qed.

(** parents are older records *)
Definition REC (recs : list recd) : Prop :=
  forall id rc, nthN recs id = Some rc -> forall p, In p (rc_parents rc) -> p < id.

Lemma nthN_some_lt : forall A (l : list A) i x, nthN l i = Some x -> (N.to_nat i < length l)%nat.
Proof. intros A l i x H. unfold nthN in H. apply nth_error_Some. congruence. Qed.

Lemma ff_fuel : forall recs nm, REC recs -> forall k1 k2 id,
    (N.to_nat id < k1)%nat -> (N.to_nat id < k2)%nat -> find_field k1 recs id nm = find_field k2 recs id nm.
Proof.
  intros recs nm HR. induction k1 as [|k1 IH]; intros k2 id H1 H2; [lia|].
  destruct k2 as [|k2]; [lia|]. rewrite !find_field_S.
  destruct (nthN recs id) as [r|] eqn:E; [|reflexivity].
  destruct (alookup nm (rc_fields r)); [reflexivity|].
  pose proof (HR id r E) as Hp. revert Hp. generalize (rc_parents r). intros ps.
  induction ps as [|p ps IHp]; intros Hp; [reflexivity|]. simpl.
  assert (Hlt : p < id) by (apply Hp; now left).
  rewrite (IH k2 p) by lia. destruct (find_field k2 recs p nm); [reflexivity|].
  apply IHp. intros q Hq. apply Hp. now right.
Qed.

Lemma ff_agree : forall recs recs' nm b, REC recs ->
    (forall id, id < b -> nthN recs' id = nthN recs id) ->
    forall k id, id < b -> find_field k recs' id nm = find_field k recs id nm.
Proof.
  intros recs recs' nm b HR Hag. induction k as [|k IH]; intros id Hid; [reflexivity|].
  rewrite !find_field_S, (Hag id Hid).
  destruct (nthN recs id) as [r|] eqn:E; [|reflexivity].
  destruct (alookup nm (rc_fields r)); [reflexivity|].
  pose proof (HR id r E) as Hp. revert Hp. generalize (rc_parents r). intros ps.
  induction ps as [|p ps IHp]; intros Hp; [reflexivity|]. simpl.
  assert (Hlt : p < id) by (apply Hp; now left).
  rewrite (IH p) by lia. destruct (find_field k recs p nm); [reflexivity|].
  apply IHp. intros q Hq. apply Hp. now right.
Qed.

(** the flattened field table [l] of the specification describes what [find_field] finds in record [cid] *)
Definition FLD (s : st) (cid : N) (l : list (name * rng)) : Prop :=
  forall nm, match find_field (rec_fuel s) (s_recs s) cid nm with
             | Some id => exists lf, nthN (s_leaves s) id = Some lf /\ lookup nm l = Some (lf_loc lf)
             | None => lookup nm l = None
             end.

Lemma FLD_mono : forall s s' cid l b,
    FLD s cid l -> REC (s_recs s) -> cid < b ->
    (forall id, id < b -> nthN (s_recs s') id = nthN (s_recs s) id) ->
    nthN (s_recs s) cid <> None ->
    (exists ext, s_leaves s' = s_leaves s ++ ext) ->
    FLD s' cid l.
Proof.
  intros s s' cid l b H HR Hb Hag Hv [ext Hl] nm. specialize (H nm).
  assert (V1 : (N.to_nat cid < length (s_recs s))%nat).
  { destruct (nthN (s_recs s) cid) eqn:E; [|congruence]. eapply nthN_some_lt; eassumption. }
  assert (V2 : (N.to_nat cid < length (s_recs s'))%nat).
  { rewrite <- (Hag cid Hb) in Hv. destruct (nthN (s_recs s') cid) eqn:E; [|congruence]. eapply nthN_some_lt; eassumption. }
  unfold rec_fuel in *.
  rewrite (ff_agree (s_recs s) (s_recs s') nm b HR Hag _ cid Hb).
  rewrite (ff_fuel (s_recs s) nm HR (S (length (s_recs s'))) (S (length (s_recs s))) cid) by lia.
  destruct (find_field (S (length (s_recs s))) (s_recs s) cid nm) as [id|]; [|exact H].
  destruct H as [lf [A B]]. exists lf. split; [|exact B]. rewrite Hl. now apply nthN_app_some.
Qed.

Lemma FLD_same_recs : forall s s' cid l,
    FLD s cid l -> s_recs s' = s_recs s -> (exists ext, s_leaves s' = s_leaves s ++ ext) -> FLD s' cid l.
Proof.
  intros s s' cid l H Hr [ext Hl] nm. specialize (H nm). unfold rec_fuel in *. rewrite Hr.
  destruct (find_field (S (length (s_recs s))) (s_recs s) cid nm) as [id|]; [|exact H].
  destruct H as [lf [A B]]. exists lf. split; [|exact B]. rewrite Hl. now apply nthN_app_some.
Qed.


(** ---------------------------------------------------------------------------------------------
    types: what the specification records about the type of a declaration vs the type the model computes *)
Fixpoint TYPn (nc nd : list (name * N)) (t : mty) (ty : sty) : Prop :=
  match ty with
  | TUnk => True
  | TCls k => exists n0 cid n1, nth_decl nc k = Some (n0, cid) /\ t = MRecord cid n1
  | TDef k => exists n0 did n1, nth_decl nd k = Some (n0, did) /\ t = MRecord did n1
  | TList ty' => exists t', t = MList t' /\ TYPn nc nd t' ty'
  end.
Definition TYPm (s : st) (t : mty) (ty : sty) : Prop := TYPn (s_nclass s) (s_ndef s) t ty.
(** a local declaration (always a leaf) has the recorded type *)
Definition TYPS (s : st) (sym : symid) (ty : sty) : Prop :=
  match ty with
  | TUnk => True
  | _ => exists id lf, sym = SyLeaf id /\ nthN (s_leaves s) id = Some lf /\ lf_kind lf <> LDefm /\ TYPm s (lf_ty lf) ty
  end.
(** ---- growth: leaves are only appended, class and def names only added in front *)
Definition GRW (s s' : st) : Prop :=
  (exists ext, s_leaves s' = s_leaves s ++ ext) /\ (exists pre, s_nclass s' = pre ++ s_nclass s) /\
  (exists pre, s_ndef s' = pre ++ s_ndef s).
Lemma GRW_refl : forall s, GRW s s.
Proof. intros s. split; [exists []; now rewrite app_nil_r|]. split; exists []; reflexivity. Qed.
Lemma GRW_trans : forall a b c, GRW a b -> GRW b c -> GRW a c.
Proof.
  intros a b c ([x1 A1] & [y1 A2] & [z1 A3]) ([x2 B1] & [y2 B2] & [z2 B3]). split; [|split].
  - exists (x1 ++ x2). now rewrite B1, A1, app_assoc.
  - exists (y2 ++ y1). now rewrite B2, A2, app_assoc.
  - exists (z2 ++ z1). now rewrite B3, A3, app_assoc.
Qed.
Lemma nth_decl_app : forall V (pre l : list (name * V)) k x, nth_decl l k = Some x -> nth_decl (pre ++ l) k = Some x.
Proof.
  intros V pre l k x H. unfold nth_decl in *. rewrite app_length.
  destruct (Nat.ltb_spec k (length l)) as [E|E]; [|discriminate].
  destruct (Nat.ltb_spec k (length pre + length l)); [|lia].
  rewrite nth_error_app2 by lia. replace (length pre + length l - S k - length pre)%nat with (length l - S k)%nat by lia.
  exact H.
Qed.
Lemma TYPm_GRW : forall s s' t ty, GRW s s' -> TYPm s t ty -> TYPm s' t ty.
Proof.
  intros s s' t ty (_ & [p1 Hc] & [p2 Hd]). revert t. induction ty as [|k|k|ty' IH]; intros t H; simpl in *; [exact I| | |].
  - destruct H as (n0 & cid & n1 & A & B). exists n0, cid, n1. split; [|exact B]. rewrite Hc. now apply nth_decl_app.
  - destruct H as (n0 & did & n1 & A & B). exists n0, did, n1. split; [|exact B]. rewrite Hd. now apply nth_decl_app.
  - destruct H as (t' & A & B). exists t'. split; [exact A|now apply IH].
Qed.
(** [TYPS] in a form that does not depend on the shape of the type *)
Lemma TYPS_iff : forall s sym ty,
    TYPS s sym ty <-> (ty = TUnk \/ exists id lf, sym = SyLeaf id /\ nthN (s_leaves s) id = Some lf /\ lf_kind lf <> LDefm /\
                                                  TYPm s (lf_ty lf) ty).
Proof.
  intros s sym ty. destruct ty; simpl; split; intros H; try (now left); try (now right); try exact I;
    destruct H as [H|H]; try discriminate; exact H.
Qed.
Lemma TYPS_map : forall s s' sym ty,
    (forall t, TYPm s t ty -> TYPm s' t ty) -> (exists ext, s_leaves s' = s_leaves s ++ ext) ->
    TYPS s sym ty -> TYPS s' sym ty.
Proof.
  intros s s' sym ty Hm [ext Hl] H. apply TYPS_iff in H. apply TYPS_iff. destruct H as [H|(id & lf & A & B & K & C)]; [now left|].
  right. exists id, lf. split; [exact A|]. split; [rewrite Hl; now apply nthN_app_some|]. split; [exact K|now apply Hm].
Qed.
Lemma TYPS_GRW : forall s s' sym ty, GRW s s' -> TYPS s sym ty -> TYPS s' sym ty.
Proof.
  intros s s' sym ty G H. pose proof G as (Hl & _).
  apply (TYPS_map s s'); auto. intros t. now apply TYPm_GRW.
Qed.

(** the types [ft] the specification records for the fields of a class are those of the leaves [find_field] finds *)
Definition FLDT (s : st) (cid : N) (ft : list (name * sty)) : Prop :=
  forall nm fid ty, find_field (rec_fuel s) (s_recs s) cid nm = Some fid -> lookup nm ft = Some ty -> TYPS s (SyLeaf fid) ty.
Lemma FLDT_nil : forall s cid, FLDT s cid [].
Proof. intros s cid nm fid ty _ H. discriminate. Qed.
Lemma FLDT_mono : forall s s' cid ft b,
    FLDT s cid ft -> REC (s_recs s) -> cid < b ->
    (forall id, id < b -> nthN (s_recs s') id = nthN (s_recs s) id) ->
    nthN (s_recs s) cid <> None -> GRW s s' -> FLDT s' cid ft.
Proof.
  intros s s' cid ft b H HR Hb Hag Hv G nm fid ty Hf Hl.
  assert (V1 : (N.to_nat cid < length (s_recs s))%nat).
  { destruct (nthN (s_recs s) cid) eqn:E; [|congruence]. eapply nthN_some_lt; eassumption. }
  assert (V2 : (N.to_nat cid < length (s_recs s'))%nat).
  { rewrite <- (Hag cid Hb) in Hv. destruct (nthN (s_recs s') cid) eqn:E; [|congruence]. eapply nthN_some_lt; eassumption. }
  unfold rec_fuel in *.
  rewrite (ff_agree (s_recs s) (s_recs s') nm b HR Hag _ cid Hb) in Hf.
  rewrite (ff_fuel (s_recs s) nm HR (S (length (s_recs s'))) (S (length (s_recs s))) cid) in Hf by lia.
  apply (TYPS_GRW s s'); [exact G|]. eapply H; eassumption.
Qed.
Lemma FLDT_same_recs : forall s s' cid ft,
    FLDT s cid ft -> s_recs s' = s_recs s -> GRW s s' -> FLDT s' cid ft.
Proof.
  intros s s' cid ft H Hr G nm fid ty Hf Hl. unfold rec_fuel in *. rewrite Hr in Hf.
  apply (TYPS_GRW s s'); [exact G|]. eapply H; eassumption.
Qed.
Lemma GRW_same : forall s s', s_nclass s' = s_nclass s -> s_ndef s' = s_ndef s ->
    (exists ext, s_leaves s' = s_leaves s ++ ext) -> GRW s s'.
Proof. intros s s' A B C. split; [exact C|]. split; exists []; simpl; assumption. Qed.

Definition TL (e : env) (s : st) : Prop :=
  forall nm sym ty, find_local s nm = Some sym -> first_some (tframe_lookup nm) (e_tfr e) = Some ty -> TYPS s sym ty.
(** classes: the class table of the environment and the class names of the model are the same list of names, in
    the same order; the record of a class has the field table the environment records, except the class whose
    body is open ([o]), whose table is still empty *)
Definition CR (o : option N) (s : st) (tb : list (name * rng)) (id : N) : Prop :=
  nthN (s_recs s) id <> None /\ (o <> Some id -> FLD s id tb) /\ (o = Some id -> tb = []).
(** ... and its fields have the types the environment records *)
Definition CRT (o : option N) (s : st) (ci : cinfo) (id : N) : Prop :=
  CR o s (ci_fields ci) id /\ (o <> Some id -> FLDT s id (ci_ftys ci)).
Definition CF2 (o : option N) (e : env) (s : st) : Prop :=
  Forall2 (fun a b => fst a = fst b /\ CRT o s (snd a) (snd b)) (e_cls e) (s_nclass s).
Definition DF2 (o : option N) (e : env) (s : st) : Prop :=
  Forall2 (fun a b => fst a = fst b /\ CRT o s (snd a) (snd b) /\
                      (forall r, nthN (s_recs s) (snd b) = Some r -> rc_class r = false)) (e_dtbl e) (s_ndef s) /\
  map fst (e_defs e) = map fst (e_dtbl e).
(** a name is local for the specification iff it is local for the model *)
Definition TLoc (e : env) (s : st) : Prop :=
  forall nm, first_some (frame_lookup nm) (e_frames e) = None <-> find_local s nm = None.
Definition TyV (o : option N) (e : env) (s : st) : Prop := CF2 o e s /\ DF2 o e s /\ TL e s /\ TLoc e s.

Record Pre (f : N) (e : env) (s : st) : Prop := mkPre {
  pre_file : current_file s = f;
  pre_id_some : forall nm d, lookup_id e nm = Some d -> lookup_view s nm = Some d;
  pre_id_none : forall nm, lookup_id e nm = None -> resolve_id s nm = None;
  pre_cls_some : forall nm d, lookup_class e nm = Some d -> class_view s nm = Some d;
  pre_cls_none : forall nm, lookup_class e nm = None -> find_class s nm = None;
  pre_mc_some : forall nm d, lookup_mc e nm = Some d -> mc_view s nm = Some d;
  pre_mc_none : forall nm, lookup_mc e nm = None -> find_multiclass s nm = None;
  pre_ty : TyV (current_record_id s) e s }.


(** the relation does not look at the types the environment records *)
Definition same_untyped (e e' : env) : Prop :=
  e_frames e' = e_frames e /\ e_cls e' = e_cls e /\ e_mcs e' = e_mcs e /\ e_defs e' = e_defs e /\ e_dsets e' = e_dsets e /\
  e_tfr e' = e_tfr e /\ e_dtbl e' = e_dtbl e.
Lemma Pre_su : forall f e e' s, Pre f e s -> same_untyped e e' -> Pre f e' s.
Proof.
  intros f e e' s [P1 P2 P3 P4 P5 P6 P7 P8] (A & B & C & D & E & F & G).
  assert (Hid : forall nm, lookup_id e' nm = lookup_id e nm) by (intros; unfold lookup_id; now rewrite A, D, E).
  assert (Hcl : forall nm, lookup_class e' nm = lookup_class e nm) by (intros; unfold lookup_class; now rewrite B).
  assert (Hmc : forall nm, lookup_mc e' nm = lookup_mc e nm) by (intros; unfold lookup_mc; now rewrite C).
  split; auto.
  - intros nm d H. rewrite Hid in H. auto.
  - intros nm H. rewrite Hid in H. auto.
  - intros nm d H. rewrite Hcl in H. auto.
  - intros nm H. rewrite Hcl in H. auto.
  - intros nm d H. rewrite Hmc in H. auto.
  - intros nm H. rewrite Hmc in H. auto.
  - destruct P8 as (X & [Y1 Y2] & Z & W). unfold TyV, CF2, DF2, TL, TLoc. rewrite A, B, G, D, F. auto.
Qed.

Lemma Forall2_imp : forall A B (R1 R2 : A -> B -> Prop) l l',
    (forall a b, R1 a b -> R2 a b) -> Forall2 R1 l l' -> Forall2 R2 l l'.
Proof. intros A B R1 R2 l l' H F. induction F; constructor; auto. Qed.
Lemma find_local_VR : forall s s' nm, s_scopes s' = s_scopes s -> VR s s' -> find_local s' nm = find_local s nm.
Proof.
  intros s s' nm Hs (Hr & Hm & _). unfold find_local. rewrite Hs.
  apply find_map_ext. intros c. now apply scope_find_eq.
Qed.
Lemma TYPm_VR : forall s s' t ty, VR s s' -> TYPm s t ty -> TYPm s' t ty.
Proof.
  intros s s' t ty (_ & _ & Hc & Hd & _). revert t. induction ty as [|k|k|ty' IH]; intros t H; simpl in *; [exact I| | |].
  - destruct H as (n0 & cid & n1 & A & B). exists n0, cid, n1. now rewrite Hc.
  - destruct H as (n0 & did & n1 & A & B). exists n0, did, n1. now rewrite Hd.
  - destruct H as (t' & A & B). exists t'. split; [exact A|now apply IH].
Qed.
Lemma TYPS_VR : forall s s' sym ty, VR s s' -> TYPS s sym ty -> TYPS s' sym ty.
Proof.
  intros s s' sym ty V H. pose proof V as (_ & _ & _ & _ & _ & _ & _ & Hl).
  apply (TYPS_map s s'); auto. intros t. now apply TYPm_VR.
Qed.
Lemma CR_VR : forall o s s' tb id, VR s s' -> CR o s tb id -> CR o s' tb id.
Proof.
  intros o s s' tb id (Hr & _ & _ & _ & _ & _ & _ & Hl) (A & B & C). split; [now rewrite Hr|]. split; [|exact C].
  intros Ho. apply (FLD_same_recs s s'); auto.
Qed.
Lemma GRW_VR : forall s s', VR s s' -> GRW s s'.
Proof. intros s s' (_ & _ & Hc & Hd & _ & _ & _ & Hl). now apply GRW_same. Qed.
Lemma CRT_VR : forall o s s' ci id, VR s s' -> CRT o s ci id -> CRT o s' ci id.
Proof.
  intros o s s' ci id V [A B]. split; [now apply (CR_VR o s s')|].
  intros Ho. pose proof V as (Hr & _). apply (FLDT_same_recs s s'); auto. now apply GRW_VR.
Qed.
Lemma TyV_VR : forall o e s s', TyV o e s -> VR s s' -> s_scopes s' = s_scopes s -> TyV o e s'.
Proof.
  intros o e s s' (C & [D1 D2] & T & W) V Hs. pose proof V as (Hr & Hm & Hc & Hd & _).
  split; [|split; [split|split]].
  - unfold CF2 in *. rewrite Hc. eapply Forall2_imp; [|exact C]. intros a b [X Y]. split; [exact X|now apply (CRT_VR o s s')].
  - rewrite Hd. eapply Forall2_imp; [|exact D1]. intros a b (X & Y & Z). split; [exact X|]. split; [now apply (CRT_VR o s s')|].
    now rewrite Hr.
  - exact D2.
  - intros nm sym ty H1 H2. rewrite (find_local_VR s s' nm Hs V) in H1. apply (TYPS_VR s s'); auto. eapply T; eassumption.
  - intros nm. rewrite (find_local_VR s s' nm Hs V). apply W.
Qed.

Lemma Pre_VR : forall f e s s', Pre f e s -> VR s s' -> s_scopes s' = s_scopes s -> Pre f e s'.
Proof.
  intros f e s s' [P1 P2 P3 P4 P5 P6 P7 P8] V Hs.
  pose proof V as (Hr & Hm & Hc & Hd & Hmc & Hds & Ht & Hl).
  split.
  - unfold current_file in *. now rewrite Ht.
  - intros nm d H. specialize (P2 nm d H). unfold lookup_view in *.
    rewrite (resolve_id_eq s s' nm Hs V). destruct (resolve_id s nm); [|discriminate].
    now apply (define_loc_ext s s').
  - intros nm H. rewrite (resolve_id_eq s s' nm Hs V). now apply P3.
  - intros nm d H. specialize (P4 nm d H). unfold class_view, find_class in *. now rewrite Hc, Hr.
  - intros nm H. unfold find_class in *. rewrite Hc. now apply P5.
  - intros nm d H. specialize (P6 nm d H). unfold mc_view, find_multiclass in *. now rewrite Hmc, Hm.
  - intros nm H. unfold find_multiclass in *. rewrite Hmc. now apply P7.
  - unfold current_record_id. rewrite Hs. now apply (TyV_VR _ e s s').
Qed.
Lemma Pre_Step : forall f e s s' E, Pre f e s -> Step s s' E -> Pre f e s'.
Proof. intros f e s s' E P [_ V S _]. eapply Pre_VR; eassumption. Qed.

(** ---- small steps *)
Lemma nf_cons_other : forall s r k, nf_kind k = false -> nf (set_diags ((r, k) :: s_diags s) s) = nf s.
Proof. intros s r k H. unfold nf; simpl. now rewrite H. Qed.

Lemma Step_err : forall s r k, nf_kind k = false -> Step s (snd (err r k s)) [].
Proof.
  intros s r k H. unfold err, bind, here, get, error, upd; simpl. split.
  - reflexivity.
  - repeat split; auto. exists []. now rewrite app_nil_r.
  - reflexivity.
  - now apply nf_cons_other.
Qed.
Lemma Step_errs : forall (l : list dg) s (k : dkind), nf_kind k = false ->
    Step s (snd (iterM (fun d => err (fst d) k) l s)) [].
Proof.
  induction l as [|d r IH]; intros s k H; simpl; [apply Step_refl|].
  unfold seq. apply (Step_trans s (snd (err (fst d) k s)) _ [] []); [now apply Step_err|now apply IH].
Qed.
Lemma Step_emit : forall (l : list dg) s, (forall d, In d l -> nf_kind (snd d) = false) ->
    Step s (snd (emit l s)) [].
Proof.
  unfold emit. induction l as [|d r IH]; intros s H; simpl; [apply Step_refl|].
  unfold seq. apply (Step_trans s (snd (err (fst d) (snd d) s)) _ [] []);
    [apply Step_err, H; now left|apply IH; intros; apply H; now right].
Qed.

Lemma uses_add_pos : forall r id s, s_uses (add_pos r id s) = s_uses s.
Proof. intros. unfold add_pos. destruct (rng_empty r); reflexivity. Qed.
Lemma nf_add_pos : forall r id s, nf (add_pos r id s) = nf s.
Proof. intros. unfold add_pos, nf. destruct (rng_empty r); reflexivity. Qed.

Lemma Step_add_reference : forall s sym loc,
    Step s (snd (add_reference sym loc s)) [(loc, define_loc s sym)].
Proof.
  intros. unfold add_reference, upd; simpl. split.
  - rewrite uses_add_pos. reflexivity.
  - unfold add_pos. destruct (rng_empty loc); simpl; repeat split; auto; exists []; now rewrite app_nil_r.
  - unfold add_pos. destruct (rng_empty loc); reflexivity.
  - rewrite nf_add_pos. reflexivity.
Qed.

(** computations that do not change the state *)
Definition pure {A} (m : M A) : Prop := forall s, snd (m s) = s.
Lemma pure_ret : forall A (x : A), pure (ret x). Proof. intros A x s; reflexivity. Qed.
Lemma pure_none : forall A, pure (@none A). Proof. intros A s; reflexivity. Qed.
Lemma pure_lift : forall A (o : option A), pure (lift o). Proof. intros A o s; reflexivity. Qed.
Lemma pure_get : forall A (g : st -> A), pure (get g). Proof. intros A g s; reflexivity. Qed.
Lemma pure_bind : forall A B (m : M A) (k : A -> M B), pure m -> (forall x, pure (k x)) -> pure (bind m k).
Proof.
  intros A B m k Hm Hk s. unfold bind. specialize (Hm s). destruct (m s) as [[x|] s1]; simpl in *; subst; auto.
  apply Hk.
Qed.

Lemma bind_pure_state : forall A B (m : M A) (k : A -> M B) s,
    (forall x, pure (k x)) -> snd (bind m k s) = snd (m s).
Proof.
  intros A B m k s H. unfold bind. destruct (m s) as [[x|] s1]; simpl; [apply H|reflexivity].
Qed.

(** ---- types *)
Lemma ty_sim : forall t f e s,
    Pre f e s -> forallb resolved (spec_ty f e t) = true ->
    Step s (snd (index_ty t s)) (spec_ty f e t).
Proof.
  induction t; intros f e s P HR; simpl; try apply Step_refl.
  - (* list *)
    unfold bind. specialize (IHt f e s P HR).
    destruct (index_ty t s) as [[x|] s1]; simpl in *; assumption.
  - (* class *)
    simpl in HR. rewrite andb_true_r in HR. unfold resolved in HR; simpl in HR.
    destruct (lookup_class e (i_name i)) as [d|] eqn:El; [|discriminate].
    pose proof (pre_cls_some f e s P _ _ El) as Hc. unfold class_view in Hc.
    unfold bind, here, state, get; simpl.
    destruct (find_class s (i_name i)) as [c|] eqn:Ef; [|discriminate].
    unfold seq. simpl.
    eapply Step_eq; [apply Step_add_reference|].
    simpl. rewrite Hc. unfold at_file. now rewrite (pre_file f e s P).
Qed.

(** ---- lists of sub-terms *)
Lemma BM_index_arg : forall n a, resp BadMono (index_arg n a).
Proof. apply (r_index_arg BadMono BM_refl BM_trans); bm_prim. Qed.
Lemma BM_index_ty : forall t, resp BadMono (index_ty t).
Proof. apply (r_index_ty BadMono BM_refl BM_trans); bm_prim. Qed.
Lemma BM_index_bang_ops : forall n op a vs r, resp BadMono (index_bang_ops n op a vs r).
Proof. apply (r_index_bang_ops BadMono BM_refl BM_trans); bm_prim. Qed.
Lemma BM_index_inner : forall n x, resp BadMono (index_inner n x).
Proof. intros n. apply (values_resp_all BadMono BM_refl BM_trans); bm_prim. Qed.
Lemma BM_err : forall r k, resp BadMono (err r k).
Proof. intros r k s H. exact H. Qed.

Lemma bad_false_before : forall A (m : M A) s, resp BadMono m -> s_bad (snd (m s)) = false -> s_bad s = false.
Proof. intros A m s H Hb. destruct (s_bad s) eqn:E; [|reflexivity]. rewrite (H s E) in Hb. discriminate. Qed.

Lemma forallb_flat_map_cons : forall A (h : A -> list ev) x l,
    forallb resolved (flat_map h (x :: l)) = true ->
    forallb resolved (h x) = true /\ forallb resolved (flat_map h l) = true.
Proof. intros A h x l H. simpl in H. rewrite forallb_app in H. now apply andb_true_iff in H. Qed.

Lemma iter_sim : forall A B (g : A -> M B) (h : A -> list ev) f e,
    (forall x, resp BadMono (g x)) ->
    forall l,
      (forall x s, In x l -> Pre f e s -> forallb resolved (h x) = true -> s_bad (snd (g x s)) = false ->
                   Step s (snd (g x s)) (h x)) ->
      forall s, Pre f e s -> forallb resolved (flat_map h l) = true -> s_bad (snd (iterM g l s)) = false ->
                Step s (snd (iterM g l s)) (flat_map h l).
Proof.
  intros A B g h f e HB l. induction l as [|x r IH]; intros Hx s P HR Hbad; simpl; [apply Step_refl|].
  destruct (forallb_flat_map_cons _ h x r HR) as [HR1 HR2].
  simpl in Hbad. unfold seq in *.
  assert (Hb1 : s_bad (snd (g x s)) = false).
  { eapply (bad_false_before _ (iterM g r)); [|exact Hbad]. apply (resp_iterM BadMono BM_refl BM_trans). intros; apply HB. }
  assert (S1 : Step s (snd (g x s)) (h x)) by (apply Hx; auto; now left).
  apply (Step_trans s (snd (g x s)) _ (h x) (flat_map h r)); [exact S1|].
  apply IH; auto.
  - intros y s0 Hy. apply Hx. now right.
  - eapply Pre_Step; eassumption.
Qed.

Lemma mapM_opt_state : forall A B (g : A -> M B) l s,
    snd (mapM_opt g l s) = snd (iterM g l s) /\ fst (mapM_opt g l s) <> None.
Proof.
  intros A B g l. induction l as [|x r IH]; intros s; simpl; [split; [reflexivity|discriminate]|].
  unfold bind, try_, seq. destruct (g x s) as [o s1]; simpl.
  destruct (IH s1) as [E1 E2]. destruct (mapM_opt g r s1) as [[os|] s2]; simpl in *; [|congruence].
  split; [assumption|discriminate].
Qed.

(** ---- the pieces of a bang operator *)
Definition spec_annot (f : N) (e : env) (op : bop) (annot : option (ty * rng)) : list ev :=
  match annot with
  | Some (t, _) => if op_takes_type op then spec_ty f e t else []
  | None => []
  end.
Definition spec_operands (f : N) (e : env) (op : bop) (vs : list value) : list ev :=
  match op, vs with
  | XForEach, [var; sq; body] | XFilter, [var; sq; body] =>
    spec_value f e sq
    ++ match first_ident var with
       | Some i => spec_value f (push_vars e [(i_name i, at_file f (i_rng i))]) body
       | None => []
       end
  | XFoldl, [init; sq; acc; var; body] =>
    spec_value f e init ++ spec_value f e sq
    ++ match first_ident acc, first_ident var with
       | Some ia, Some iv =>
         spec_value f (push_vars e [(i_name iv, at_file f (i_rng iv)); (i_name ia, at_file f (i_rng ia))]) body
       | _, _ => []
       end
  | XForEach, _ | XFilter, _ | XFoldl, _ => []
  | _, _ => flat_map (spec_value f e) vs
  end.
Lemma spec_simple_bang : forall f e op annot vs r,
    spec_simple f e (SBang op annot vs r) = spec_annot f e op annot ++ spec_operands f e op vs.
Proof. reflexivity. Qed.
Definition frag_operands (op : bop) (vs : list value) : bool :=
  match op, vs with
  | XForEach, [var; sq; _] | XFilter, [var; sq; _] => is_ident_first var && is_list_literal sq
  | XFoldl, [init; sq; acc; var; _] =>
    is_plain_literal init && is_list_literal sq && is_ident_first acc && is_ident_first var
  | XForEach, _ | XFilter, _ | XFoldl, _ => false
  | _, _ => true
  end.
Lemma frag_simple_bang : forall op annot vs r,
    frag_simple (SBang op annot vs r) = forallb frag_value vs && frag_operands op vs.
Proof. reflexivity. Qed.

Lemma takes_type_annot : forall op,
    op_takes_type op = match bang_annot op with AnUnexpect => false | _ => true end.
Proof. destruct op; reflexivity. Qed.

Lemma annot_sim : forall op annot r f e s,
    Pre f e s -> forallb resolved (spec_annot f e op annot) = true ->
    Step s (snd (index_annot op annot r s)) (spec_annot f e op annot).
Proof.
  intros op annot r f e s P HR. unfold index_annot, spec_annot in *. rewrite takes_type_annot in *.
  destruct (bang_annot op); destruct annot as [[t tr]|]; simpl in *.
  - unfold seq. simpl. apply (Step_err s tr DUnexpectAnnot). reflexivity.
  - apply Step_refl.
  - unfold try_. pose proof (ty_sim t f e s P HR). destruct (index_ty t s); assumption.
  - unfold seq. simpl. apply (Step_err s r DExpectAnnot). reflexivity.
  - unfold try_. pose proof (ty_sim t f e s P HR). destruct (index_ty t s); assumption.
  - apply Step_refl.
Qed.
Lemma Step_check_arity : forall op vs r s, Step s (snd (check_arity op vs r s)) [].
Proof.
  intros. unfold check_arity. destruct (arity_ok _ _); [apply Step_refl|]. apply Step_err. reflexivity.
Qed.

(** ---- scopes: push, declare a variable, pop *)
Lemma nthN_app_last : forall A (l : list A) x, nthN (l ++ [x]) (lenN l) = Some x.
Proof.
  intros. unfold nthN, lenN. rewrite Nat2N.id. rewrite nth_error_app2 by lia. now rewrite Nat.sub_diag.
Qed.

Lemma lookup_id_add_var : forall e n r nm, e_frames e <> [] ->
    lookup_id (add_var e n r) nm = if name_eqb nm n then Some r else lookup_id e nm.
Proof.
  intros e n r nm H. unfold lookup_id, add_var. destruct (e_frames e) as [|fr t]; [congruence|]. simpl.
  unfold frame_lookup at 1. simpl. destruct (name_eqb nm n); reflexivity.
Qed.
Lemma lookup_class_add_var : forall e n r nm, lookup_class (add_var e n r) nm = lookup_class e nm.
Proof. intros. unfold add_var. destruct (e_frames e); reflexivity. Qed.
Lemma lookup_mc_add_var : forall e n r nm, lookup_mc (add_var e n r) nm = lookup_mc e nm.
Proof. intros. unfold add_var. destruct (e_frames e); reflexivity. Qed.
Lemma lookup_id_push_empty : forall e nm, lookup_id (push_vars e []) nm = lookup_id e nm.
Proof. intros. reflexivity. Qed.

(** the state after `Scopes::add_variable` *)
Definition with_var (s : st) (l : leaf) : st := snd (scopes_add_variable l s).

Lemma with_var_facts : forall s l c t, s_scopes s = c :: t ->
    s_scopes (with_var s l) = mkScope (sc_kind c) ((lf_name l, lenN (s_leaves s)) :: sc_vars c) :: t /\
    s_leaves (with_var s l) = s_leaves s ++ [l] /\
    s_uses (with_var s l) = s_uses s /\ nf (with_var s l) = nf s /\ VR s (with_var s l).
Proof.
  intros s l c t Hs. unfold with_var, scopes_add_variable, bind, add_leaf; simpl.
  unfold add_pos. destruct (rng_empty (lf_loc l)); simpl; rewrite Hs; simpl;
    repeat split; auto; eexists; reflexivity.
Qed.

Lemma scope_find_add : forall s s' c n id nm,
    s_recs s' = s_recs s -> s_mcs s' = s_mcs s ->
    scope_find s' (mkScope (sc_kind c) ((n, id) :: sc_vars c)) nm
    = if name_eqb nm n then Some (SyLeaf id) else scope_find s c nm.
Proof.
  intros s s' [k vars] n id nm Hr Hm. unfold scope_find, sc_find_variable, rec_fuel; simpl.
  destruct (name_eqb nm n); [reflexivity|]. now rewrite Hr, Hm.
Qed.

Lemma resolve_id_with_var : forall s l c t nm, s_scopes s = c :: t ->
    resolve_id (with_var s l) nm
    = if name_eqb nm (lf_name l) then Some (SyLeaf (lenN (s_leaves s))) else resolve_id s nm.
Proof.
  intros s l c t nm Hs. destruct (with_var_facts s l c t Hs) as (Hsc & Hl & _ & _ & V).
  pose proof V as (Hr & Hm & _ & Hd & _ & Hds & _ & _).
  unfold resolve_id, find_local, find_def, find_defset. rewrite Hsc, Hs, Hd, Hds. simpl.
  rewrite (scope_find_add s (with_var s l) c (lf_name l) (lenN (s_leaves s)) nm Hr Hm).
  destruct (name_eqb nm (lf_name l)); [reflexivity|].
  rewrite (find_map_ext _ _ (fun c0 => scope_find (with_var s l) c0 nm) (fun c0 => scope_find s c0 nm));
    [reflexivity|]. intros c0. apply scope_find_eq; assumption.
Qed.

Lemma find_local_with_var0 : forall s l c t nm, s_scopes s = c :: t ->
    find_local (with_var s l) nm
    = if name_eqb nm (lf_name l) then Some (SyLeaf (lenN (s_leaves s))) else find_local s nm.
Proof.
  intros s l c t nm Hs. destruct (with_var_facts s l c t Hs) as (Hsc & Hl & _ & _ & V).
  pose proof V as (Hr & Hm & _).
  unfold find_local. rewrite Hsc, Hs. simpl.
  rewrite (scope_find_add s (with_var s l) c (lf_name l) (lenN (s_leaves s)) nm Hr Hm).
  destruct (name_eqb nm (lf_name l)); [reflexivity|].
  rewrite (find_map_ext _ _ (fun c0 => scope_find (with_var s l) c0 nm) (fun c0 => scope_find s c0 nm));
    [reflexivity|]. intros c0. apply scope_find_eq; assumption.
Qed.
Lemma tlocal_tset_var : forall e n ty nm,
    first_some (tframe_lookup nm) (e_tfr (tset_var e n ty))
    = match e_tfr e with
      | [] => None
      | _ :: _ => if name_eqb nm n then Some ty else first_some (tframe_lookup nm) (e_tfr e)
      end.
Proof.
  intros e n ty nm. unfold tset_var, with_tfr, with_frames. simpl. destruct (e_tfr e) as [|tf tt]; [reflexivity|].
  simpl. unfold tframe_lookup at 1. simpl. destruct (name_eqb nm n); reflexivity.
Qed.
Lemma e_tfr_add_var : forall e n r, e_tfr (add_var e n r) = e_tfr e.
Proof. intros. unfold add_var. destruct (e_frames e); reflexivity. Qed.
Lemma globals_add_var0 : forall e n r,
    e_cls (add_var e n r) = e_cls e /\ e_dtbl (add_var e n r) = e_dtbl e /\ e_defs (add_var e n r) = e_defs e.
Proof. intros. unfold add_var. destruct (e_frames e); repeat split. Qed.
Lemma current_record_with_var : forall s l c t, s_scopes s = c :: t ->
    current_record_id (with_var s l) = current_record_id s.
Proof.
  intros s l c t Hs. destruct (with_var_facts s l c t Hs) as (Hsc & _).
  unfold current_record_id. rewrite Hsc, Hs. reflexivity.
Qed.

(** a new variable whose type is known to be [sty] *)
Lemma TyV_with_var : forall o e s n r l c t sty,
    TyV o e s -> s_scopes s = c :: t -> e_frames e <> [] -> lf_name l = n -> lf_kind l <> LDefm -> TYPm s (lf_ty l) sty ->
    TyV o (tset_var (add_var e n r) n sty) (with_var s l).
Proof.
  intros o e s n r l c t sty (C & [D1 D2] & T & W) Hs He Hn Hk Hty.
  destruct (with_var_facts s l c t Hs) as (Hsc & Hl & _ & _ & V).
  pose proof V as (Hr & Hm & Hc & Hd & _).
  destruct (globals_add_var0 e n r) as (G1 & G2 & G3).
  split; [|split; [split|split]].
  - unfold CF2. simpl. rewrite G1, Hc. eapply Forall2_imp; [|exact C].
    intros a b [X Y]. split; [exact X|now apply (CRT_VR o s _ _ _ V)].
  - simpl. rewrite G2, Hd. eapply Forall2_imp; [|exact D1].
    intros a b (X & Y & Z). split; [exact X|]. split; [now apply (CRT_VR o s _ _ _ V)|]. now rewrite Hr.
  - simpl. now rewrite G2, G3.
  - intros nm sym ty H1 H2. rewrite (find_local_with_var0 s l c t nm Hs) in H1.
    rewrite tlocal_tset_var, e_tfr_add_var in H2. destruct (e_tfr e) as [|tf tt] eqn:Et; [discriminate|].
    rewrite Hn in H1. destruct (name_eqb nm n).
    + injection H1 as <-. injection H2 as <-. apply TYPS_iff. right.
      exists (lenN (s_leaves s)), l. split; [reflexivity|]. split; [rewrite Hl; apply nthN_app_last|]. split; [exact Hk|].
      exact (TYPm_VR s _ (lf_ty l) sty V Hty).
    + apply (TYPS_VR s _ sym ty V). apply (T nm sym ty H1). now rewrite Et.
  - intros nm. rewrite (find_local_with_var0 s l c t nm Hs), Hn.
    change (e_frames (tset_var (add_var e n r) n sty)) with (e_frames (add_var e n r)).
    unfold add_var. destruct (e_frames e) as [|fr frs] eqn:Ef; [congruence|].
    simpl. unfold frame_lookup at 1. simpl. destruct (name_eqb nm n); [split; discriminate|].
    specialize (W nm). rewrite Ef in W. simpl in W. exact W.
Qed.

Lemma TL_with_var : forall e s n r l c t sty,
    TL e s -> s_scopes s = c :: t -> lf_name l = n -> lf_kind l <> LDefm -> TYPm s (lf_ty l) sty ->
    TL (tset_var (add_var e n r) n sty) (with_var s l).
Proof.
  intros e s n r l c t sty T Hs Hn Hk Hty.
  destruct (with_var_facts s l c t Hs) as (Hsc & Hl & _ & _ & V).
  intros nm sym ty H1 H2. rewrite (find_local_with_var0 s l c t nm Hs) in H1.
  rewrite tlocal_tset_var, e_tfr_add_var in H2. destruct (e_tfr e) as [|tf tt] eqn:Et; [discriminate|].
  rewrite Hn in H1. destruct (name_eqb nm n).
  - injection H1 as <-. injection H2 as <-. apply TYPS_iff. right.
    exists (lenN (s_leaves s)), l. split; [reflexivity|]. split; [rewrite Hl; apply nthN_app_last|]. split; [exact Hk|].
    exact (TYPm_VR s _ (lf_ty l) sty V Hty).
  - apply (TYPS_VR s _ sym ty V). apply (T nm sym ty H1). now rewrite Et.
Qed.
Lemma same_untyped_tset_var : forall e n ty,
    e_frames (tset_var e n ty) = e_frames e /\ e_cls (tset_var e n ty) = e_cls e /\ e_mcs (tset_var e n ty) = e_mcs e /\
    e_defs (tset_var e n ty) = e_defs e /\ e_dsets (tset_var e n ty) = e_dsets e.
Proof. intros. repeat split. Qed.

Lemma Pre_with_var : forall f e s nm ty c t sty,
    Pre f e s -> s_scopes s = c :: t -> e_frames e <> [] -> TYPm s ty sty ->
    let loc := mkR f (r_lo (i_rng nm)) (r_hi (i_rng nm)) in
    Pre f (tset_var (add_var e (i_name nm) loc) (i_name nm) sty) (with_var s (mkLeaf LVar (i_name nm) ty false loc)).
Proof.
  intros f e s nm ty c t sty P Hs He Hty loc.
  set (l := mkLeaf LVar (i_name nm) ty false loc).
  destruct (with_var_facts s l c t Hs) as (Hsc & Hl & _ & _ & V).
  assert (P' : Pre f e s) by exact P. destruct P as [P1 P2 P3 P4 P5 P6 P7 P8].
  pose proof V as (Hr & Hm & Hc & Hd & Hmc & Hds & Ht & _).
  assert (Hid : forall n0, lookup_id (tset_var (add_var e (i_name nm) loc) (i_name nm) sty) n0
                           = lookup_id (add_var e (i_name nm) loc) n0) by reflexivity.
  split.
  - unfold current_file in *. now rewrite Ht.
  - intros n0 d H. rewrite Hid, lookup_id_add_var in H by assumption.
    unfold lookup_view. rewrite (resolve_id_with_var s l c t n0 Hs). simpl.
    destruct (name_eqb n0 (i_name nm)).
    + injection H as <-. simpl. rewrite Hl, nthN_app_last. reflexivity.
    + specialize (P2 n0 d H). unfold lookup_view in P2. destruct (resolve_id s n0); [|discriminate].
      now apply (define_loc_ext s _ _ _ V).
  - intros n0 H. rewrite Hid, lookup_id_add_var in H by assumption.
    rewrite (resolve_id_with_var s l c t n0 Hs). simpl.
    destruct (name_eqb n0 (i_name nm)); [discriminate|]. now apply P3.
  - intros n0 d H. change (lookup_class (add_var e (i_name nm) loc) n0 = Some d) in H. rewrite lookup_class_add_var in H.
    specialize (P4 n0 d H). unfold class_view, find_class in *. now rewrite Hc, Hr.
  - intros n0 H. change (lookup_class (add_var e (i_name nm) loc) n0 = None) in H. rewrite lookup_class_add_var in H.
    unfold find_class in *. rewrite Hc. now apply P5.
  - intros n0 d H. change (lookup_mc (add_var e (i_name nm) loc) n0 = Some d) in H. rewrite lookup_mc_add_var in H.
    specialize (P6 n0 d H). unfold mc_view, find_multiclass in *. now rewrite Hmc, Hm.
  - intros n0 H. change (lookup_mc (add_var e (i_name nm) loc) n0 = None) in H. rewrite lookup_mc_add_var in H.
    unfold find_multiclass in *. rewrite Hmc. now apply P7.
  - rewrite (current_record_with_var s l c t Hs). apply (TyV_with_var _ e s (i_name nm) loc l c t sty); auto. discriminate.
Qed.

(** a fresh block whose kind contributes nothing to the lookup *)
Definition plain_kind (k : skind) : bool :=
  match k with KRecord _ | KMulticlass _ | KForeach _ _ => false | _ => true end.
Definition pushed (k : skind) (s : st) : st := set_scopes (mkScope k [] :: s_scopes s) s.

Lemma resolve_id_pushed : forall k s nm, plain_kind k = true -> resolve_id (pushed k s) nm = resolve_id s nm.
Proof.
  intros k s nm Hk. unfold resolve_id, find_local, pushed; simpl.
  unfold scope_find at 1, sc_find_variable; simpl. destruct k; try discriminate; reflexivity.
Qed.
Lemma find_local_pushed0 : forall k s nm, plain_kind k = true -> find_local (pushed k s) nm = find_local s nm.
Proof.
  intros k s nm Hk. unfold find_local, pushed; simpl.
  unfold scope_find at 1, sc_find_variable; simpl. destruct k; try discriminate; reflexivity.
Qed.
Lemma current_record_pushed : forall k s, plain_kind k = true -> current_record_id (pushed k s) = current_record_id s.
Proof. intros k s Hk. unfold current_record_id, pushed; simpl. destruct k; try discriminate; reflexivity. Qed.
Lemma TyV_pushed : forall o e s k, TyV o e s -> plain_kind k = true -> TyV o (push_vars e []) (pushed k s).
Proof.
  intros o e s k (C & D & T & W) Hk. split; [exact C|]. split; [exact D|]. split.
  - intros nm sym ty H1 H2. rewrite find_local_pushed0 in H1 by assumption. exact (T nm sym ty H1 H2).
  - intros nm. rewrite find_local_pushed0 by assumption. exact (W nm).
Qed.
Lemma Pre_pushed : forall f e s k, Pre f e s -> plain_kind k = true -> Pre f (push_vars e []) (pushed k s).
Proof.
  intros f e s k [P1 P2 P3 P4 P5 P6 P7 P8] Hk. split; auto.
  - intros nm d H. rewrite lookup_id_push_empty in H. specialize (P2 nm d H).
    unfold lookup_view in *. rewrite resolve_id_pushed by assumption. exact P2.
  - intros nm H. rewrite lookup_id_push_empty in H. rewrite resolve_id_pushed by assumption. now apply P3.
  - rewrite current_record_pushed by assumption. now apply TyV_pushed.
Qed.

(** `scoped k body`: the body runs in the pushed state, the scope is dropped afterwards *)
Lemma scoped_sim : forall A k (body : M A) E s,
    Step (pushed k s) (snd (body (pushed k s))) E -> Step s (snd (scoped k body s)) E.
Proof.
  intros A k body E s [U V S N]. unfold scoped, seq, bind, try_, push_scope, upd; simpl.
  fold (pushed k s). destruct (body (pushed k s)) as [o s2]; simpl in *.
  unfold lift, pop_scope. rewrite S. simpl.
  destruct V as (Hr & Hm & Hc & Hd & Hmc & Hds & Ht & Hl).
  split; simpl; auto. repeat split; auto.
Qed.

(** [StepV]: like [Step] but the innermost scope may have gained variables *)
Record StepV (s s' : st) (E : list ev) : Prop := mkStepV {
  sv_uses : s_uses s' = rev E ++ s_uses s;
  sv_vr : VR s s';
  sv_scopes : exists vs, s_scopes s' = add_vars vs (s_scopes s);
  sv_nf : nf s' = nf s }.
Lemma Step_StepV : forall s s' E, Step s s' E -> StepV s s' E.
Proof. intros s s' E [U V S N]. split; auto. exists []. now rewrite add_vars_nil. Qed.
Lemma StepV_trans : forall a b c E1 E2, StepV a b E1 -> StepV b c E2 -> StepV a c (E1 ++ E2).
Proof.
  intros a b c E1 E2 [U1 V1 [v1 S1] N1] [U2 V2 [v2 S2] N2]. split.
  - rewrite U2, U1, rev_app_distr, app_assoc. reflexivity.
  - eapply VR_trans; eassumption.
  - exists (v2 ++ v1). now rewrite S2, S1, add_vars_app.
  - congruence.
Qed.
Lemma scoped_simV : forall A k (body : M A) E s,
    StepV (pushed k s) (snd (body (pushed k s))) E -> Step s (snd (scoped k body s)) E.
Proof.
  intros A k body E s [U V [vs S] N]. unfold scoped, seq, bind, try_, push_scope, upd; simpl.
  fold (pushed k s). destruct (body (pushed k s)) as [o s2]; simpl in *.
  unfold lift, pop_scope. rewrite S. simpl.
  destruct V as (Hr & Hm & Hc & Hd & Hmc & Hds & Ht & Hl).
  split; simpl; auto. repeat split; auto.
Qed.
Lemma StepV_with_var : forall s l c t, s_scopes s = c :: t -> StepV s (with_var s l) [].
Proof.
  intros s l c t Hs. destruct (with_var_facts s l c t Hs) as (Hsc & Hl & Hu & Hn & V).
  split; auto. exists [(lf_name l, lenN (s_leaves s))]. rewrite Hsc, Hs. reflexivity.
Qed.

(** ---- literal operands have a type *)
Lemma list_literal_typed : forall n v s,
    is_list_literal v = true -> s_bad (snd (index_value n v s)) = false ->
    exists t et, fst (index_value n v s) = Some t /\ element_typ t = Some et.
Proof.
  intros n v s H Hb.
  destruct v as [r [|[sv sufs] [|x2 rest]]]; simpl in H; try discriminate;
    destruct sv; simpl in H; try discriminate; destruct sufs; try discriminate.
  all: destruct n as [|[|[|n]]]; try (simpl in Hb; discriminate); simpl.
  - (* bits *) unfold bind, try_, seq; simpl. eexists _, _. split; [reflexivity|reflexivity].
  - (* list *) unfold bind, try_, seq; simpl.
    destruct (mapM_opt_state _ _ (index_value n) vs s) as [_ Hsome].
    destruct (mapM_opt (index_value n) vs s) as [[os|] s1]; [|simpl in Hsome; congruence]. simpl.
    eexists _, _. split; reflexivity.
Qed.

Lemma plain_literal_typed : forall n v s,
    is_plain_literal v = true -> s_bad (snd (index_value n v s)) = false ->
    exists t, fst (index_value n v s) = Some t.
Proof.
  intros n v s H Hb.
  destruct v as [r [|[sv sufs] [|x2 rest]]]; simpl in H; try discriminate;
    destruct sv; simpl in H; try discriminate; destruct sufs; try discriminate.
  all: destruct n as [|[|[|n]]]; try (simpl in Hb; discriminate); simpl.
  all: unfold bind, try_, seq; simpl; try (eexists; reflexivity).
  destruct (mapM_opt_state _ _ (index_value n) vs s) as [_ Hsome].
  destruct (mapM_opt (index_value n) vs s) as [[os|] s1]; [|simpl in Hsome; congruence]. simpl.
  eexists; reflexivity.
Qed.

(** the diagnostics of check_template_args are never "not found" diagnostics *)
Lemma cta_loop_kinds : forall s targs args k unsolved d,
    In d (fst (cta_loop s targs k unsolved args)) -> nf_kind (snd d) = false.
Proof.
  intros s targs args. induction args as [|x rest IH]; intros k unsolved d H; [destruct H|].
  simpl in H. destruct x as [[[onm t0] r0]|]; [|eapply IH; exact H].
  destruct onm as [nm|].
  - destruct (remove_name nm unsolved) as [was u'] eqn:Er. destruct was.
    + destruct (find_targ nm targs) as [a|]; simpl in H;
        destruct (cta_loop s targs (S k) u' rest) eqn:E; simpl in H.
      * destruct (can_cast s t0 (lf_ty a)); simpl in H.
        -- eapply (IH (S k) u'). rewrite E. exact H.
        -- destruct H as [<-|H]; [reflexivity|]. eapply (IH (S k) u'). rewrite E. exact H.
      * eapply (IH (S k) u'). rewrite E. exact H.
    + destruct (find_targ nm targs) as [a|]; simpl in H;
        destruct (cta_loop s targs (S k) u' rest) eqn:E; simpl in H;
        (destruct H as [<-|H]; [reflexivity|]; eapply (IH (S k) u'); rewrite E; exact H).
  - destruct (nth_error targs k) as [a|]; simpl in H.
    + destruct (cta_loop s targs (S k) (snd (remove_name (lf_name a) unsolved)) rest) eqn:E; simpl in H.
      destruct (can_cast s t0 (lf_ty a)); simpl in H.
      * eapply IH. rewrite E. exact H.
      * destruct H as [<-|H]; [reflexivity|]. eapply IH. rewrite E. exact H.
    + destruct (cta_loop s targs (S k) unsolved rest) eqn:E; simpl in H. eapply IH. rewrite E. exact H.
Qed.
Lemma cta_kinds : forall s targs args r d,
    In d (check_template_args s targs args r) -> nf_kind (snd d) = false.
Proof.
  intros s targs args r d H. unfold check_template_args in H.
  destruct (Nat.ltb (length targs) (length args)).
  - destruct H as [<-|[]]. reflexivity.
  - destruct (cta_loop s targs 0 (map lf_name targs) args) as [dl un] eqn:E.
    apply in_app_or in H. destruct H as [H|H].
    + eapply cta_loop_kinds. rewrite E. exact H.
    + apply in_flat_map in H. destruct H as [u [_ H]].
      destruct (find_targ u targs) as [a|]; [|destruct H].
      destruct (lf_default a); [destruct H|]. destruct H as [<-|[]]. reflexivity.
Qed.

Lemma sufs_loop_pure : forall (l : list suffix) t,
    forallb (fun s => match s with SufField _ _ => false | _ => true end) l = true ->
    pure ((fix sufs_loop (t : mty) (l : list suffix) : M mty :=
         match l with
         | [] => ret t
         | sf :: r =>
           bind match sf with
                 | SufRange => lift (match t with MBits _ => Some MBit | _ => None end)
                 | SufSlice single => if single then lift (element_typ t) else ret t
                 | SufField i fr =>
                   bind (here (i_rng i)) (fun loc =>
                   bind state (fun s =>
                   match ty_find_field s t (i_name i) with
                   | None => match t with MUnknown => none | _ => seq (err fr DCannotAccessField) none end
                   | Some f => seq (add_reference (SyLeaf f) loc) (bind (leaf_of f) (fun lf => ret (lf_ty lf)))
                   end))
                 end (fun t' => sufs_loop t' r)
         end) t l).
Proof.
  induction l as [|sf r IH]; intros t H; [apply pure_ret|].
  simpl in H. apply andb_true_iff in H. destruct H as [H1 H2].
  apply pure_bind; [|intros; now apply IH].
  destruct sf; try discriminate; [apply pure_lift|]. destruct single; [apply pure_lift|apply pure_ret].
Qed.

(** ---------------------------------------------------------------------------------------------
    numbered declarations: the tables of the environment and the name maps of the model are aligned *)
Lemma Forall2_nth : forall A B (R : A -> B -> Prop) l l' j a b,
    Forall2 R l l' -> nth_error l j = Some a -> nth_error l' j = Some b -> R a b.
Proof.
  intros A B R l l' j a b F. revert j. induction F as [|x y l l' Hxy F IH]; intros [|j] Ha Hb; simpl in *; try discriminate.
  - injection Ha as <-. injection Hb as <-. exact Hxy.
  - eapply IH; eassumption.
Qed.
Lemma Forall2_length : forall A B (R : A -> B -> Prop) l l', Forall2 R l l' -> length l = length l'.
Proof. intros A B R l l' F. induction F; simpl; [reflexivity|now rewrite IHF]. Qed.
Lemma nth_decl_F2 : forall V W (R : name * V -> name * W -> Prop) l l' k a b,
    Forall2 R l l' -> nth_decl l k = Some a -> nth_decl l' k = Some b -> R a b.
Proof.
  intros V W R l l' k a b F Ha Hb. unfold nth_decl in *. rewrite <- (Forall2_length _ _ _ _ _ F) in Hb.
  destruct (Nat.ltb k (length l)); [|discriminate]. eapply Forall2_nth; eassumption.
Qed.
Lemma nth_decl_F2_ex : forall V W (R : name * V -> name * W -> Prop) l l' k a,
    Forall2 R l l' -> nth_decl l k = Some a -> exists b, nth_decl l' k = Some b /\ R a b.
Proof.
  intros V W R l l' k a F Ha. unfold nth_decl in *. rewrite <- (Forall2_length _ _ _ _ _ F).
  destruct (Nat.ltb k (length l)) eqn:E; [|discriminate].
  assert (Hlt : (length l - S k < length l')%nat) by (rewrite <- (Forall2_length _ _ _ _ _ F); apply Nat.ltb_lt in E; lia).
  destruct (nth_error l' (length l - S k)) as [b|] eqn:Eb; [|apply nth_error_None in Eb; lia].
  exists b. split; [reflexivity|]. eapply Forall2_nth; eassumption.
Qed.
Lemma pos_of_nth_decl : forall V n (l : list (name * V)) k,
    pos_of n l = Some k -> exists n' v, nth_decl l k = Some (n', v) /\ lookup n l = Some v.
Proof.
  intros V n l. induction l as [|[k0 v0] r IH]; intros k H; simpl in *; [discriminate|].
  destruct (name_eqb n k0).
  - injection H as <-. exists k0, v0. split; [|reflexivity]. unfold nth_decl. cbn [length].
    destruct (Nat.ltb_spec (length r) (S (length r))); [|lia].
    replace (S (length r) - S (length r))%nat with 0%nat by lia. reflexivity.
  - destruct (IH k H) as (n' & v & A & B). exists n', v. split; [|exact B].
    unfold nth_decl in *. cbn [length]. destruct (Nat.ltb_spec k (length r)) as [E|E]; [|discriminate].
    destruct (Nat.ltb_spec k (S (length r))); [|lia].
    replace (S (length r) - S k)%nat with (S (length r - S k)) by lia. exact A.
Qed.
Lemma pos_of_keys : forall V W n (l : list (name * V)) (l' : list (name * W)),
    map fst l = map fst l' -> pos_of n l = pos_of n l'.
Proof.
  intros V W n l. induction l as [|[k v] r IH]; intros [|[k' v'] r'] H; simpl in *; try discriminate; [reflexivity|].
  injection H as -> H. rewrite (IH r' H). assert (length r = length r') by (rewrite <- (map_length fst r), H; apply map_length).
  now rewrite H0.
Qed.
Lemma F2_keys : forall V W (R : name * V -> name * W -> Prop) l l',
    Forall2 (fun a b => fst a = fst b /\ R a b) l l' -> map fst l = map fst l'.
Proof. intros V W R l l' F. induction F as [|x y l l' [Hxy _] F IH]; simpl; [reflexivity|]. now rewrite Hxy, IH. Qed.
Lemma lookup_alookup : forall V n (l : list (name * V)), lookup n l = alookup n l.
Proof. intros V n l. induction l as [|[k v] r IH]; simpl; [reflexivity|]. now rewrite IH. Qed.

(** the class a name denotes: its number in the environment is the number of the model's class id *)
Lemma class_aligned : forall o e s nm cid k,
    CF2 o e s -> find_class s nm = Some cid -> pos_of nm (e_cls e) = Some k ->
    exists n0, nth_decl (s_nclass s) k = Some (n0, cid).
Proof.
  intros o e s nm cid k C Hf Hp. unfold CF2 in C.
  rewrite (pos_of_keys _ _ nm (e_cls e) (s_nclass s) (F2_keys _ _ _ _ _ C)) in Hp.
  destruct (pos_of_nth_decl _ nm (s_nclass s) k Hp) as (n' & v & A & B).
  rewrite lookup_alookup in B. unfold find_class in Hf. assert (v = cid) by congruence. subst. eauto.
Qed.
Lemma def_aligned : forall o e s nm did k,
    DF2 o e s -> find_def s nm = Some did -> pos_of nm (e_defs e) = Some k ->
    exists n0, nth_decl (s_ndef s) k = Some (n0, did).
Proof.
  intros o e s nm did k [D1 D2] Hf Hp.
  rewrite (pos_of_keys _ _ nm (e_defs e) (e_dtbl e) D2) in Hp.
  rewrite (pos_of_keys _ _ nm (e_dtbl e) (s_ndef s) (F2_keys _ _ _ _ _ D1)) in Hp.
  destruct (pos_of_nth_decl _ nm (s_ndef s) k Hp) as (n' & v & A & B).
  rewrite lookup_alookup in B. unfold find_def in Hf. assert (v = did) by congruence. subst. eauto.
Qed.

(** the table of a numbered record type is what the model's field lookup finds (unless the record is open) *)
Lemma fields_of_model : forall o e s ty tb t,
    CF2 o e s -> DF2 o e s -> fields_of e ty = Some tb -> TYPm s t ty ->
    exists id n1, t = MRecord id n1 /\ CR o s tb id.
Proof.
  intros o e s ty tb t C [D1 D2] Hf Ht. destruct ty as [|k|k|ty']; simpl in *; [discriminate| | |discriminate].
  - destruct (nth_decl (e_cls e) k) as [[n ci]|] eqn:E; [|discriminate]. simpl in Hf. injection Hf as <-.
    destruct Ht as (n0 & cid & n1 & A & ->). exists cid, n1. split; [reflexivity|].
    destruct (nth_decl_F2 _ _ _ _ _ _ _ _ C E A) as [_ X]. exact (proj1 X).
  - destruct (nth_decl (e_dtbl e) k) as [[n tb0]|] eqn:E; [|discriminate]. simpl in Hf. injection Hf as <-.
    destruct Ht as (n0 & did & n1 & A & ->). exists did, n1. split; [reflexivity|].
    destruct (nth_decl_F2 _ _ _ _ _ _ _ _ D1 E A) as (_ & X & _). exact (proj1 X).
Qed.

Lemma ftys_of_model : forall o e s ty ft t,
    CF2 o e s -> DF2 o e s -> ftys_of e ty = Some ft -> TYPm s t ty ->
    exists id n1, t = MRecord id n1 /\ (o <> Some id -> FLDT s id ft).
Proof.
  intros o e s ty ft t C [D1 D2] Hf Ht. destruct ty as [|k|k|ty']; simpl in *; try discriminate.
  - destruct (nth_decl (e_cls e) k) as [[n ci]|] eqn:E; [|discriminate]. simpl in Hf. injection Hf as <-.
    destruct Ht as (n0 & cid & n1 & A & ->). exists cid, n1. split; [reflexivity|].
    destruct (nth_decl_F2 _ _ _ _ _ _ _ _ C E A) as [_ X]. exact (proj2 X).
  - destruct (nth_decl (e_dtbl e) k) as [[n ci]|] eqn:E; [|discriminate]. simpl in Hf. injection Hf as <-.
    destruct Ht as (n0 & did & n1 & A & ->). exists did, n1. split; [reflexivity|].
    destruct (nth_decl_F2 _ _ _ _ _ _ _ _ D1 E A) as (_ & X & _). exact (proj2 X).
Qed.

(** ---- what `index_simple` returns for an identifier / a class value *)
Definition sym_type (s : st) (sym : symid) (nm : name) : option mty :=
  match sym with
  | SyRecord rid =>
    match nthN (s_recs s) rid with
    | None => None
    | Some r => if rc_class r then None else option_map (fun d => MRecord d nm) (find_def s nm)
    end
  | SyMc _ => None
  | SyLeaf lid =>
    match nthN (s_leaves s) lid with
    | None => None
    | Some l => match lf_kind l with LDefm => None | _ => Some (lf_ty l) end
    end
  end.
Lemma sid_eq : forall n i s sym,
    resolve_id s (i_name i) = Some sym ->
    let loc := mkR (current_file s) (r_lo (i_rng i)) (r_hi (i_rng i)) in
    let s1 := snd (add_reference sym loc s) in
    index_simple (S n) (SId i) s = (sym_type s1 sym (i_name i), s1).
Proof.
  intros n i s sym Hr loc s1. simpl. unfold bind at 1. unfold here at 1, get at 1. cbn [fst snd].
  unfold bind at 1. unfold state at 1, get at 1. cbn [fst snd]. rewrite Hr.
  unfold seq at 1. fold loc. fold s1. unfold bind at 1. unfold state at 1, get at 1. cbn [fst snd].
  unfold sym_type. destruct sym as [rid|mid|lid].
  - unfold bind at 1, lift at 1. destruct (nthN (s_recs s1) rid) as [r|]; [|reflexivity].
    destruct (rc_class r); [reflexivity|]. unfold bind, lift, ret. destruct (find_def s1 (i_name i)); reflexivity.
  - reflexivity.
  - unfold bind at 1, lift at 1. destruct (nthN (s_leaves s1) lid) as [l|]; [|reflexivity].
    destruct (lf_kind l); reflexivity.
Qed.

Lemma resolve_id_cases : forall s nm sym, resolve_id s nm = Some sym ->
    find_local s nm = Some sym \/
    (find_local s nm = None /\ ((exists rid, sym = SyRecord rid /\ find_def s nm = Some rid) \/
                                 (find_def s nm = None /\ exists lid, sym = SyLeaf lid))).
Proof.
  intros s nm sym H. unfold resolve_id in H. destruct (find_local s nm) as [x|]; [left; congruence|]. right.
  split; [reflexivity|]. destruct (find_def s nm) as [rid|].
  - left. exists rid. split; [congruence|reflexivity].
  - right. split; [reflexivity|]. destruct (find_defset s nm) as [lid|]; simpl in H; [|discriminate]. exists lid. congruence.
Qed.

Lemma sid_typed : forall n i f e s t0,
    Pre f e s -> fst (index_simple (S n) (SId i) s) = Some t0 ->
    TYPm (snd (index_simple (S n) (SId i) s)) t0 (type_of_id e (i_name i)).
Proof.
  intros n i f e s t0 P Ht.
  destruct (pre_ty f e s P) as (C & D & T & W).
  destruct (resolve_id s (i_name i)) as [sym|] eqn:Er.
  - rewrite (sid_eq n i s sym Er) in *. cbn [fst snd] in *.
    set (loc := mkR (current_file s) (r_lo (i_rng i)) (r_hi (i_rng i))) in *.
    pose proof (Step_add_reference s sym loc) as [_ V _ _]. set (s1 := snd (add_reference sym loc s)) in *.
    unfold type_of_id.
    destruct (resolve_id_cases s _ _ Er) as [Hl|[Hl Hg]].
    + (* local *)
      destruct (first_some (frame_lookup (i_name i)) (e_frames e)) as [d|] eqn:Ef.
      2:{ apply (W (i_name i)) in Ef. congruence. }
      destruct (first_some (tframe_lookup (i_name i)) (e_tfr e)) as [ty|] eqn:Et; [|exact I].
      pose proof (T _ _ _ Hl Et) as X. apply TYPS_iff in X. destruct X as [->|(id & lf & -> & A & K & B)]; [exact I|].
      unfold sym_type in Ht.
      pose proof V as (_ & _ & _ & _ & _ & _ & _ & [ext Hle]). rewrite Hle, (nthN_app_some _ _ ext _ _ A) in Ht.
      destruct (lf_kind lf); try congruence; injection Ht as <-; exact (TYPm_VR s s1 (lf_ty lf) ty V B).
    + (* global *)
      assert (Ef : first_some (frame_lookup (i_name i)) (e_frames e) = None) by (now apply (W (i_name i))).
      rewrite Ef. destruct (pos_of (i_name i) (e_defs e)) as [k|] eqn:Ep; [|exact I].
      destruct Hg as [(rid & -> & Hd)|(Hd & lid & ->)].
      * destruct (def_aligned _ e s _ rid k D Hd Ep) as [n0 A].
        unfold sym_type in Ht. destruct (nthN (s_recs s1) rid) as [r|]; [|discriminate].
        destruct (rc_class r); [discriminate|].
        assert (Hd1 : find_def s1 (i_name i) = Some rid).
        { unfold find_def in *. destruct V as (_ & _ & _ & Hnd & _). now rewrite Hnd. }
        rewrite Hd1 in Ht. simpl in Ht. injection Ht as <-.
        simpl. exists n0, rid, (i_name i). split; [|reflexivity]. destruct V as (_ & _ & _ & Hnd & _). now rewrite Hnd.
      * (* a defset name while a def of that name is in the environment: the tables are aligned, so there is none *)
        exfalso. destruct D as [D1 D2].
        rewrite (pos_of_keys _ _ (i_name i) (e_defs e) (e_dtbl e) D2) in Ep.
        rewrite (pos_of_keys _ _ (i_name i) (e_dtbl e) (s_ndef s) (F2_keys _ _ _ _ _ D1)) in Ep.
        destruct (pos_of_nth_decl _ _ _ _ Ep) as (n' & v & _ & B). rewrite lookup_alookup in B.
        unfold find_def in Hd. congruence.
  - (* not found: NAME or an error; nothing is claimed about the type *)
    unfold type_of_id.
    assert (Hl : find_local s (i_name i) = None).
    { unfold resolve_id in Er. destruct (find_local s (i_name i)); [discriminate|reflexivity]. }
    assert (Hd : find_def s (i_name i) = None).
    { unfold resolve_id in Er. rewrite Hl in Er. destruct (find_def s (i_name i)); [discriminate|reflexivity]. }
    assert (Ef : first_some (frame_lookup (i_name i)) (e_frames e) = None) by (now apply (W (i_name i))).
    rewrite Ef. destruct (pos_of (i_name i) (e_defs e)) as [k|] eqn:Ep; [|exact I].
    exfalso. destruct D as [D1 D2].
    rewrite (pos_of_keys _ _ (i_name i) (e_defs e) (e_dtbl e) D2) in Ep.
    rewrite (pos_of_keys _ _ (i_name i) (e_dtbl e) (s_ndef s) (F2_keys _ _ _ _ _ D1)) in Ep.
    destruct (pos_of_nth_decl _ _ _ _ Ep) as (n' & v & _ & B). rewrite lookup_alookup in B.
    unfold find_def in Hd. congruence.
Qed.

(** ---- value suffixes *)
Definition suf_step (sf : suffix) (t : mty) : M mty :=
  match sf with
  | SufRange => lift (match t with MBits _ => Some MBit | _ => None end)
  | SufSlice single => if single then lift (element_typ t) else ret t
  | SufField i fr =>
    bind (here (i_rng i)) (fun loc =>
    bind state (fun s =>
    match ty_find_field s t (i_name i) with
    | None => match t with MUnknown => none | _ => seq (err fr DCannotAccessField) none end
    | Some f => seq (add_reference (SyLeaf f) loc) (bind (leaf_of f) (fun lf => ret (lf_ty lf)))
    end))
  end.
Fixpoint sufs_loop (t : mty) (l : list suffix) : M mty :=
  match l with
  | [] => ret t
  | sf :: r => bind (suf_step sf t) (fun t' => sufs_loop t' r)
  end.
Lemma index_inner_eq : forall n sv sufs,
    index_inner (S n) (Inner sv sufs) = bind (index_simple n sv) (fun t0 => sufs_loop t0 sufs).
Proof.
  intros n sv sufs. reflexivity.
Qed.

Lemma leaves_add_reference : forall sym loc s, s_leaves (snd (add_reference sym loc s)) = s_leaves s.
Proof. intros. unfold add_reference, upd, add_pos; simpl. destruct (rng_empty loc); reflexivity. Qed.
Lemma suf_field_eq : forall i fr t s fid lf,
    ty_find_field s t (i_name i) = Some fid -> nthN (s_leaves s) fid = Some lf ->
    suf_step (SufField i fr) t s
    = (Some (lf_ty lf), snd (add_reference (SyLeaf fid) (mkR (current_file s) (r_lo (i_rng i)) (r_hi (i_rng i))) s)).
Proof.
  intros i fr t s fid lf H1 H2. unfold suf_step. unfold bind at 1. unfold here at 1, get at 1. cbn [fst snd].
  unfold bind at 1. unfold state at 1, get at 1. cbn [fst snd]. rewrite H1.
  unfold seq. unfold leaf_of, bind, state, get, lift, ret. cbn [fst snd].
  rewrite leaves_add_reference, H2. reflexivity.
Qed.
Lemma suf_sty_unk : forall e sf, suf_sty e TUnk sf = TUnk.
Proof. intros e sf. destruct sf as [|single|i fr]; try reflexivity. destruct single; reflexivity. Qed.
Lemma sufs_unk_nil : forall f e sufs, forallb resolved (spec_sufs f e TUnk sufs) = true -> spec_sufs f e TUnk sufs = [].
Proof.
  intros f e sufs. induction sufs as [|sf r IH]; intros H; [reflexivity|].
  destruct sf as [|single|i fr]; cbn [spec_sufs] in *; rewrite ?suf_sty_unk in *; try (now apply IH). discriminate.
Qed.

Lemma sty_sufs_unk : forall e sufs, sty_sufs e TUnk sufs = TUnk.
Proof. intros e sufs. induction sufs as [|sf r IH]; [reflexivity|]. unfold sty_sufs in *. simpl. now rewrite suf_sty_unk. Qed.
Lemma sty_sufs_cons : forall e t sf r, sty_sufs e t (sf :: r) = sty_sufs e (suf_sty e t sf) r.
Proof. reflexivity. Qed.

(** the suffix loop: the uses are the specification's, and the type that comes out is the one it records *)
Lemma sufs_sim_typed : forall sufs f e s t ty,
    Pre f e s -> TYPm s t ty -> forallb resolved (spec_sufs f e ty sufs) = true ->
    s_bad (snd (sufs_loop t sufs s)) = false ->
    Step s (snd (sufs_loop t sufs s)) (spec_sufs f e ty sufs) /\
    TYPm (snd (sufs_loop t sufs s)) (match fst (sufs_loop t sufs s) with Some t' => t' | None => MUnknown end)
         (sty_sufs e ty sufs).
Proof.
  induction sufs as [|sf r IH]; intros f e s t ty P Ht HR Hb; [split; [apply Step_refl|exact Ht]|].
  cbn [sufs_loop] in *. rewrite sty_sufs_cons.
  assert (Hskip : forall o ty', (forall s0, suf_step sf t s0 = (o, s0)) ->
                            spec_sufs f e ty (sf :: r) = spec_sufs f e ty' r -> suf_sty e ty sf = ty' ->
                            (forall t', o = Some t' -> TYPm s t' ty') -> (o = None -> ty' = TUnk) ->
                            Step s (snd (bind (suf_step sf t) (fun t' => sufs_loop t' r) s)) (spec_sufs f e ty (sf :: r)) /\
                            TYPm (snd (bind (suf_step sf t) (fun t' => sufs_loop t' r) s))
                                 (match fst (bind (suf_step sf t) (fun t' => sufs_loop t' r) s) with Some t' => t' | None => MUnknown end)
                                 (sty_sufs e (suf_sty e ty sf) r)).
  { intros o ty' Ho Hs Hst Hty Hn. rewrite Hs, Hst in *. unfold bind in *. rewrite Ho in *. destruct o as [t'|]; cbn [fst snd] in *.
    - apply (IH f e s t' ty'); auto.
    - rewrite (Hn eq_refl) in *. rewrite (sufs_unk_nil f e r HR), sty_sufs_unk. split; [apply Step_refl|exact I]. }
  destruct sf as [|single|i fr].
  - apply (Hskip (match t with MBits _ => Some MBit | _ => None end) TUnk); try reflexivity; try (intros; exact I).
  - destruct single.
    + apply (Hskip (element_typ t) (elem_sty ty)); try reflexivity.
      * intros t' Ho. destruct ty as [|k|k|ty']; try exact I. simpl in Ht. destruct Ht as (t1 & -> & Ht1).
        simpl in Ho. injection Ho as <-. exact Ht1.
      * intros Ho. destruct ty as [|k|k|ty']; try reflexivity. simpl in Ht. destruct Ht as (t1 & -> & Ht1). discriminate.
    + apply (Hskip (Some t) TUnk); try reflexivity; try (intros; exact I); try discriminate.
  - clear Hskip. cbn [spec_sufs] in *. simpl in HR. apply andb_true_iff in HR. destruct HR as [HR1 HR2].
    unfold resolved in HR1; simpl in HR1.
    destruct (fields_of e ty) as [tb|] eqn:Ef; [|discriminate].
    destruct (lookup (i_name i) tb) as [d|] eqn:El; [|discriminate].
    destruct (pre_ty f e s P) as (C & D & _ & _).
    destruct (fields_of_model _ e s ty tb t C D Ef Ht) as (id & n1 & -> & Hv & Hfld & Hopen).
    assert (Hno : current_record_id s <> Some id).
    { intros X. rewrite (Hopen X) in El. discriminate. }
    specialize (Hfld Hno (i_name i)). rewrite El in Hfld.
    destruct (find_field (rec_fuel s) (s_recs s) id (i_name i)) as [fid|] eqn:Eff; [|discriminate].
    destruct Hfld as (lf & Hlf & Hd). injection Hd as ->.
    assert (Hty : ty_find_field s (MRecord id n1) (i_name i) = Some fid) by exact Eff.
    unfold bind in Hb |- *. rewrite (suf_field_eq i fr _ s fid lf Hty Hlf) in *. cbn [fst snd] in *.
    set (loc := mkR (current_file s) (r_lo (i_rng i)) (r_hi (i_rng i))) in *.
    pose proof (Step_add_reference s (SyLeaf fid) loc) as S1. set (s1 := snd (add_reference (SyLeaf fid) loc s)) in *.
    assert (E1 : define_loc s (SyLeaf fid) = Some (lf_loc lf)) by (simpl; now rewrite Hlf).
    set (ty2 := suf_sty e ty (SufField i fr)) in *.
    assert (Hty2 : TYPm s (lf_ty lf) ty2).
    { unfold ty2. cbn [suf_sty]. destruct (ftys_of e ty) as [ft|] eqn:Eft; [|exact I].
      destruct (lookup (i_name i) ft) as [x|] eqn:Ex; [|exact I].
      destruct (ftys_of_model _ e s ty ft _ C D Eft Ht) as (id' & n1' & Heq & Hft). injection Heq as <- <-.
      specialize (Hft Hno (i_name i) fid x Eff Ex). apply TYPS_iff in Hft.
      destruct Hft as [->|(id2 & lf2 & Hs & Hl2 & _ & Hm)]; [exact I|]. injection Hs as <-.
      assert (lf2 = lf) by congruence. subst lf2. exact Hm. }
    change ((at_file f (i_rng i), Some (lf_loc lf)) :: spec_sufs f e ty2 r)
      with ([(at_file f (i_rng i), Some (lf_loc lf))] ++ spec_sufs f e ty2 r).
    assert (V1 : VR s s1) by (destruct S1 as [_ V1 _ _]; exact V1).
    assert (P1 : Pre f e s1).
    { eapply Pre_VR; [exact P|exact V1|]. unfold s1, add_reference, upd, add_pos; simpl. destruct (rng_empty loc); reflexivity. }
    destruct (IH f e s1 (lf_ty lf) ty2 P1 (TYPm_VR s s1 _ _ V1 Hty2) HR2 Hb) as [St Tt].
    split; [|exact Tt].
    eapply Step_trans; [|exact St].
    eapply Step_eq; [exact S1|]. rewrite E1. unfold loc, at_file. now rewrite (pre_file f e s P).
Qed.
Lemma sufs_sim : forall sufs f e s t ty,
    Pre f e s -> TYPm s t ty -> forallb resolved (spec_sufs f e ty sufs) = true ->
    s_bad (snd (sufs_loop t sufs s)) = false ->
    Step s (snd (sufs_loop t sufs s)) (spec_sufs f e ty sufs).
Proof. intros. now apply sufs_sim_typed. Qed.

Lemma VR_index_simple : forall n sv, resp VR (index_simple n sv).
Proof. apply (r_index_simple VR VR_refl VR_trans); vr_prim. Qed.

Lemma classval_eq : forall n i args r s cid rc,
    find_class s (i_name i) = Some cid ->
    let loc := mkR (current_file s) (r_lo (i_rng i)) (r_hi (i_rng i)) in
    let s1 := snd (add_reference (SyRecord cid) loc s) in
    nthN (s_recs s1) cid = Some rc ->
    index_simple (S n) (SClassVal i args r) s
    = match mapM_opt (index_arg n) args s1 with
      | (Some avs, s2) => (Some (MRecord cid (i_name i)),
                           snd (emit (check_template_args s2 (targ_leaves s1 (rc_targs rc)) avs r) s2))
      | (None, s2) => (None, s2)
      end.
Proof.
  intros n i args r s cid rc Hf loc s1 Hrc. simpl.
  unfold bind at 1. unfold here at 1, get at 1. cbn [fst snd].
  unfold bind at 1. unfold state at 1, get at 1. cbn [fst snd]. rewrite Hf.
  unfold seq at 1. fold loc. fold s1.
  unfold bind at 1. unfold state at 1, get at 1. cbn [fst snd].
  unfold bind at 1. unfold lift at 1. rewrite Hrc.
  unfold bind at 1.
  destruct (mapM_opt (index_arg n) args s1) as [[avs|] s2]; [|reflexivity].
  unfold bind at 1. unfold state at 1, get at 1. cbn [fst snd].
  unfold seq, ret. reflexivity.
Qed.

Lemma classval_facts : forall n i args r f e s,
    Pre f e s -> lookup_class e (i_name i) <> None ->
    exists cid, find_class s (i_name i) = Some cid /\
                fst (index_simple (S n) (SClassVal i args r) s) = Some (MRecord cid (i_name i)).
Proof.
  intros n i args r f e s P Hl. destruct (lookup_class e (i_name i)) as [d|] eqn:El; [|congruence].
  pose proof (pre_cls_some f e s P _ _ El) as Hc. unfold class_view in Hc.
  destruct (find_class s (i_name i)) as [cid|] eqn:Ef; [|discriminate]. exists cid. split; [reflexivity|].
  set (loc := mkR (current_file s) (r_lo (i_rng i)) (r_hi (i_rng i))).
  pose proof (Step_add_reference s (SyRecord cid) loc) as [_ (Hr & _) _ _].
  destruct (nthN (s_recs s) cid) as [rc|] eqn:Erc; [|discriminate].
  rewrite (classval_eq n i args r s cid rc Ef) by (fold loc; now rewrite Hr).
  fold loc. destruct (mapM_opt_state _ _ (index_arg n) args (snd (add_reference (SyRecord cid) loc s))) as [_ Hsome].
  destruct (mapM_opt (index_arg n) args (snd (add_reference (SyRecord cid) loc s))) as [[avs|] s2]; [reflexivity|].
  simpl in Hsome. congruence.
Qed.

(** the type the model computes for a simple value is the one the specification records *)
Lemma simple_typed : forall n sv f e s t0,
    Pre f e s -> forallb resolved (spec_simple f e sv) = true ->
    fst (index_simple (S n) sv s) = Some t0 ->
    TYPm (snd (index_simple (S n) sv s)) t0 (sty_simple e sv).
Proof.
  intros n sv f e s t0 P HR Ht. destruct sv; try exact I.
  - now apply (sid_typed n i f e s t0).
  - cbn [sty_simple]. unfold class_ty. destruct (pos_of (i_name i) (e_cls e)) as [k|] eqn:Ep; [|exact I].
    assert (Hl : lookup_class e (i_name i) <> None).
    { change (spec_simple f e (SClassVal i args r)) with
        ((at_file f (i_rng i), lookup_class e (i_name i)) :: flat_map (spec_arg f e) args) in HR.
      simpl in HR. apply andb_true_iff in HR. destruct HR as [HR1 _]. unfold resolved in HR1. simpl in HR1.
      destruct (lookup_class e (i_name i)); [discriminate|discriminate]. }
    destruct (classval_facts n i args r f e s P Hl) as (cid & Hf & Hres). rewrite Hres in Ht. injection Ht as <-.
    destruct (pre_ty f e s P) as (C & _).
    destruct (class_aligned _ e s _ cid k C Hf Ep) as [n0 A].
    pose proof (VR_index_simple (S n) (SClassVal i args r) s) as (_ & _ & Hc & _).
    unfold TYPm. exists n0, cid, (i_name i). split; [|reflexivity]. now rewrite Hc.
Qed.

(** ... and when the specification knows the type, the model has computed one *)
Lemma typed_some : forall n sv f e s,
    sty_simple e sv <> TUnk -> Pre f e s -> forallb resolved (spec_simple f e sv) = true ->
    fst (index_simple (S n) sv s) <> None.
Proof.
  intros n sv f e s Hty P HR. destruct sv; try (exfalso; apply Hty; reflexivity).
  - (* identifier *)
    cbn [sty_simple] in Hty. destruct (pre_ty f e s P) as (C & D & T & W).
    unfold type_of_id in Hty.
    destruct (resolve_id s (i_name i)) as [sym|] eqn:Er.
    + rewrite (sid_eq n i s sym Er). cbn [fst].
      set (loc := mkR (current_file s) (r_lo (i_rng i)) (r_hi (i_rng i))) in *.
      pose proof (Step_add_reference s sym loc) as [_ V _ _]. set (s1 := snd (add_reference sym loc s)) in *.
      pose proof V as (Hr & _ & _ & Hnd & _ & _ & _ & [ext Hle]).
      destruct (resolve_id_cases s _ _ Er) as [Hl|[Hl Hg]].
      * destruct (first_some (frame_lookup (i_name i)) (e_frames e)) as [d|] eqn:Ef.
        2:{ apply (W (i_name i)) in Ef. congruence. }
        destruct (first_some (tframe_lookup (i_name i)) (e_tfr e)) as [ty|] eqn:Et; [|congruence].
        pose proof (T _ _ _ Hl Et) as X. apply TYPS_iff in X. destruct X as [->|(id & lf & -> & A & K & B)]; [congruence|].
        unfold sym_type. rewrite Hle, (nthN_app_some _ _ ext _ _ A). destruct (lf_kind lf); congruence.
      * assert (Ef : first_some (frame_lookup (i_name i)) (e_frames e) = None) by (now apply (W (i_name i))).
        rewrite Ef in Hty. destruct (pos_of (i_name i) (e_defs e)) as [k|] eqn:Ep; [|congruence].
        destruct Hg as [(rid & -> & Hd)|(Hd & lid & ->)].
        -- destruct D as [D1 D2]. destruct (def_aligned _ e s _ rid k (conj D1 D2) Hd Ep) as [n0 A].
           assert (Ep2 := Ep). rewrite (pos_of_keys _ _ (i_name i) (e_defs e) (e_dtbl e) D2) in Ep2.
           destruct (pos_of_nth_decl _ _ _ _ Ep2) as (n' & tb & B & _).
           destruct (nth_decl_F2 _ _ _ _ _ _ _ _ D1 B A) as (_ & ((Hv & _) & _) & Hcl).
           simpl in Hv. unfold sym_type. rewrite Hr. destruct (nthN (s_recs s) rid) as [rc|] eqn:Erc; [|congruence].
           simpl in Hcl. rewrite (Hcl rc Erc). unfold find_def in *. rewrite Hnd, Hd. discriminate.
        -- exfalso. destruct D as [D1 D2].
           rewrite (pos_of_keys _ _ (i_name i) (e_defs e) (e_dtbl e) D2) in Ep.
           rewrite (pos_of_keys _ _ (i_name i) (e_dtbl e) (s_ndef s) (F2_keys _ _ _ _ _ D1)) in Ep.
           destruct (pos_of_nth_decl _ _ _ _ Ep) as (n' & v & _ & B). rewrite lookup_alookup in B.
           unfold find_def in Hd. congruence.
    + exfalso.
      assert (Hl : find_local s (i_name i) = None).
      { unfold resolve_id in Er. destruct (find_local s (i_name i)); [discriminate|reflexivity]. }
      assert (Hd : find_def s (i_name i) = None).
      { unfold resolve_id in Er. rewrite Hl in Er. destruct (find_def s (i_name i)); [discriminate|reflexivity]. }
      assert (Ef : first_some (frame_lookup (i_name i)) (e_frames e) = None) by (now apply (W (i_name i))).
      rewrite Ef in Hty. destruct (pos_of (i_name i) (e_defs e)) as [k|] eqn:Ep; [|congruence].
      destruct D as [D1 D2].
      rewrite (pos_of_keys _ _ (i_name i) (e_defs e) (e_dtbl e) D2) in Ep.
      rewrite (pos_of_keys _ _ (i_name i) (e_dtbl e) (s_ndef s) (F2_keys _ _ _ _ _ D1)) in Ep.
      destruct (pos_of_nth_decl _ _ _ _ Ep) as (n' & v & _ & B). rewrite lookup_alookup in B.
      unfold find_def in Hd. congruence.
  - (* class value *)
    assert (Hl : lookup_class e (i_name i) <> None).
    { change (spec_simple f e (SClassVal i args r)) with
        ((at_file f (i_rng i), lookup_class e (i_name i)) :: flat_map (spec_arg f e) args) in HR.
      simpl in HR. apply andb_true_iff in HR. destruct HR as [HR1 _]. unfold resolved in HR1. simpl in HR1.
      destruct (lookup_class e (i_name i)); [discriminate|discriminate]. }
    destruct (classval_facts n i args r f e s P Hl) as (cid & _ & Hres). rewrite Hres. discriminate.
Qed.

(** ---------------------------------------------------------------------------------------------
    values: the log of the model = the uses of the specification *)
Definition sim_value (n : nat) : Prop := forall v f e s,
    frag_value v = true -> Pre f e s -> forallb resolved (spec_value f e v) = true ->
    s_bad (snd (index_value n v s)) = false -> Step s (snd (index_value n v s)) (spec_value f e v).
Definition sim_inner (n : nat) : Prop := forall x f e s,
    frag_inner x = true -> Pre f e s -> forallb resolved (spec_inner f e x) = true ->
    s_bad (snd (index_inner n x s)) = false -> Step s (snd (index_inner n x s)) (spec_inner f e x).
Definition sim_simple (n : nat) : Prop := forall sv f e s,
    frag_simple sv = true -> Pre f e s -> forallb resolved (spec_simple f e sv) = true ->
    s_bad (snd (index_simple n sv s)) = false -> Step s (snd (index_simple n sv s)) (spec_simple f e sv).
Definition sim_arg (n : nat) : Prop := forall a f e s,
    frag_arg a = true -> Pre f e s -> forallb resolved (spec_arg f e a) = true ->
    s_bad (snd (index_arg n a s)) = false -> Step s (snd (index_arg n a s)) (spec_arg f e a).
Definition sim_bang (n : nat) : Prop := forall op annot vs r f e s,
    forallb frag_value vs = true -> frag_operands op vs = true -> Pre f e s ->
    forallb resolved (spec_annot f e op annot ++ spec_operands f e op vs) = true ->
    s_bad (snd (index_bang n op annot vs r s)) = false ->
    Step s (snd (index_bang n op annot vs r s)) (spec_annot f e op annot ++ spec_operands f e op vs).
Definition sim_ops (n : nat) : Prop := forall op a vs r f e s,
    forallb frag_value vs = true -> frag_operands op vs = true -> Pre f e s ->
    forallb resolved (spec_operands f e op vs) = true ->
    s_bad (snd (index_bang_ops n op a vs r s)) = false ->
    Step s (snd (index_bang_ops n op a vs r s)) (spec_operands f e op vs).

Lemma forallb_In : forall A (p : A -> bool) l x, forallb p l = true -> In x l -> p x = true.
Proof. intros A p l x H Hin. rewrite forallb_forall in H. now apply H. Qed.

Section ValueCases.
  Variable n : nat.
  Hypothesis IHv : sim_value n.
  Hypothesis IHi : sim_inner n.
  Hypothesis IHs : sim_simple n.
  Hypothesis IHa : sim_arg n.
  Hypothesis IHb : sim_bang n.
  Hypothesis IHo : sim_ops n.

  Lemma values_sim : forall vs f e s,
      forallb frag_value vs = true -> Pre f e s -> forallb resolved (flat_map (spec_value f e) vs) = true ->
      s_bad (snd (iterM (index_value n) vs s)) = false ->
      Step s (snd (iterM (index_value n) vs s)) (flat_map (spec_value f e) vs).
  Proof.
    intros vs f e s Hf P HR Hb. apply (iter_sim _ _ (index_value n) (spec_value f e) f e); auto.
    - intros; apply BM_index_value.
    - intros x s0 Hin P0 HR0 Hb0. apply IHv; auto. eapply forallb_In; eassumption.
  Qed.
  Lemma values_sim_map : forall vs f e s,
      forallb frag_value vs = true -> Pre f e s -> forallb resolved (flat_map (spec_value f e) vs) = true ->
      s_bad (snd (mapM_opt (index_value n) vs s)) = false ->
      Step s (snd (mapM_opt (index_value n) vs s)) (flat_map (spec_value f e) vs).
  Proof.
    intros vs f e s Hf P HR Hb. destruct (mapM_opt_state _ _ (index_value n) vs s) as [E _].
    rewrite E in *. now apply values_sim.
  Qed.
  Lemma args_sim_map : forall l f e s,
      forallb frag_arg l = true -> Pre f e s -> forallb resolved (flat_map (spec_arg f e) l) = true ->
      s_bad (snd (mapM_opt (index_arg n) l s)) = false ->
      Step s (snd (mapM_opt (index_arg n) l s)) (flat_map (spec_arg f e) l).
  Proof.
    intros l f e s Hf P HR Hb. destruct (mapM_opt_state _ _ (index_arg n) l s) as [E _].
    rewrite E in *. apply (iter_sim _ _ (index_arg n) (spec_arg f e) f e); auto.
    - intros; apply BM_index_arg.
    - intros x s0 Hin P0 HR0 Hb0. apply IHa; auto. eapply forallb_In; eassumption.
  Qed.

  Lemma case_value : sim_value (S n).
  Proof.
    intros [r inners] f e s Hf P HR Hb. simpl in Hf. apply andb_true_iff in Hf. destruct Hf as [Hf Hne].
    destruct inners as [|first rest]; [discriminate|]. simpl in Hf. apply andb_true_iff in Hf. destruct Hf as [Hf1 Hf2].
    change (spec_value f e (Val r (first :: rest))) with (spec_inner f e first ++ flat_map (spec_inner f e) rest) in *.
    rewrite forallb_app in HR. apply andb_true_iff in HR. destruct HR as [HR1 HR2].
    simpl in *. unfold bind, try_, seq in *.
    destruct (index_inner n first s) as [o s1] eqn:E1. simpl in *.
    assert (Hfin : forall s2, snd ((match rest with [] => lift o | _ :: _ => ret MString end : M mty) s2) = s2)
      by (intros; destruct rest; reflexivity).
    rewrite Hfin in *.
    assert (Hb1 : s_bad s1 = false).
    { eapply (bad_false_before _ (iterM (index_inner n) rest)); [|exact Hb].
      apply (resp_iterM BadMono BM_refl BM_trans). intros; apply BM_index_inner. }
    assert (S1 : Step s s1 (spec_inner f e first)).
    { replace s1 with (snd (index_inner n first s)) by now rewrite E1. apply IHi; auto. now rewrite E1. }
    eapply Step_trans; [exact S1|].
    apply (iter_sim _ _ (index_inner n) (spec_inner f e) f e); auto.
    - intros; apply BM_index_inner.
    - intros x s0 Hin P0 HR0 Hb0. apply IHi; auto. eapply forallb_In; eassumption.
    - eapply Pre_Step; eassumption.
  Qed.

  Lemma case_inner : sim_inner (S n).
  Proof.
    intros [sv sufs] f e s Hf P HR Hb. simpl in Hf.
    change (spec_inner f e (Inner sv sufs)) with (spec_simple f e sv ++ spec_sufs f e (sty_simple e sv) sufs) in *.
    rewrite forallb_app in HR. apply andb_true_iff in HR. destruct HR as [HR1 HR2].
    rewrite index_inner_eq in *.
    assert (Hb1 : s_bad (snd (index_simple n sv s)) = false).
    { unfold bind in Hb. destruct (index_simple n sv s) as [[t0|] s1] eqn:E; cbn [snd] in *; [|exact Hb].
      destruct (s_bad s1) eqn:Eb; [|reflexivity].
      assert (X : resp BadMono (sufs_loop t0 sufs)).
      { clear. revert t0. induction sufs as [|sf r IH]; intros t0; [apply (resp_ret BadMono BM_refl)|].
        cbn [sufs_loop]. apply (resp_bind BadMono BM_trans); [|intros; apply IH].
        destruct sf as [|single|i fr]; simpl.
        - apply (resp_lift BadMono BM_refl).
        - destruct single; [apply (resp_lift BadMono BM_refl)|apply (resp_ret BadMono BM_refl)].
        - apply (resp_bind BadMono BM_trans); [apply (resp_get BadMono BM_refl)|]. intros loc.
          apply (resp_state BadMono). intros s0. destruct (ty_find_field s0 t0 (i_name i)).
          + apply (resp_seq BadMono BM_trans); [bm_prim|].
            apply (resp_bind BadMono BM_trans); [|intros; apply (resp_ret BadMono BM_refl)].
            unfold leaf_of. apply (resp_state BadMono). intros s2. apply (resp_lift BadMono BM_refl).
          + destruct t0; try (apply (resp_seq BadMono BM_trans); [apply BM_err|apply (resp_none BadMono BM_refl)]).
            apply (resp_none BadMono BM_refl). }
      rewrite (X s1 Eb) in Hb. discriminate. }
    pose proof (IHs sv f e s Hf P HR1 Hb1) as S1.
    destruct n as [|n'].
    { (* no fuel for the simple value: the model has failed *) simpl in Hb1. discriminate. }
    unfold bind in Hb |- *.
    destruct (index_simple (S n') sv s) as [[t0|] s1] eqn:E; cbn [fst snd] in *.
    - assert (Ht : TYPm s1 t0 (sty_simple e sv)).
      { replace s1 with (snd (index_simple (S n') sv s)) by now rewrite E.
        apply (simple_typed n' sv f e s t0 P HR1). now rewrite E. }
      eapply Step_trans; [exact S1|]. apply sufs_sim; auto. eapply Pre_Step; eassumption.
    - (* the simple value has no type: the specification knows none either, and the suffixes are not read *)
      assert (Hty : sty_simple e sv = TUnk).
      { destruct (sty_simple e sv) eqn:Es; [reflexivity| | |];
          exfalso; apply (typed_some n' sv f e s); try assumption; try (rewrite Es; discriminate); now rewrite E. }
      rewrite Hty in *. rewrite (sufs_unk_nil f e sufs HR2), app_nil_r. exact S1.
  Qed.

  Lemma case_arg : sim_arg (S n).
  Proof.
    intros a f e s Hf P HR Hb. destruct a as [v r|nm v r|r]; simpl in *; try discriminate;
      unfold bind, try_ in *; destruct (index_value n v s) as [o s1] eqn:E1; simpl in *;
      replace s1 with (snd (index_value n v s)) by (now rewrite E1); apply IHv; auto; now rewrite E1.
  Qed.

  Lemma case_bang : sim_bang (S n).
  Proof.
    intros op annot vs r f e s Hf Hfo P HR Hb.
    rewrite forallb_app in HR. apply andb_true_iff in HR. destruct HR as [HR1 HR2].
    simpl in *. unfold bind, seq in *.
    pose proof (annot_sim op annot r f e s P HR1) as SA.
    destruct (index_annot op annot r s) as [[a|] s1] eqn:EA; simpl in *.
    - assert (Hb2 : s_bad (snd (check_arity op vs r s1)) = false).
      { eapply (bad_false_before _ (index_bang_ops n op a vs r)); [apply BM_index_bang_ops|exact Hb]. }
      eapply Step_trans; [exact SA|].
      eapply (Step_trans _ _ _ [] _); [apply Step_check_arity|].
      apply IHo; auto. eapply Pre_Step; [|apply Step_check_arity]. eapply Pre_Step; eassumption.
    - (* index_annot always returns a value *)
      exfalso. unfold index_annot in EA.
      destruct (bang_annot op); destruct annot as [[t tr]|]; simpl in EA; unfold seq, try_ in EA; simpl in EA;
        try discriminate; destruct (index_ty t s); discriminate.
  Qed.
End ValueCases.

Section ValueCases2.
  Variable n : nat.
  Hypothesis IHv : sim_value n.
  Hypothesis IHa : sim_arg n.
  Hypothesis IHb : sim_bang n.

  (** after the reference has been recorded, the computation of the identifier's type is pure *)
  Lemma sid_tail_pure : forall (sym : symid) (nm : name),
      pure (bind state (fun s' =>
              match sym with
              | SyRecord rid =>
                bind (lift (nthN (s_recs s') rid)) (fun r =>
                if rc_class r then none else bind (lift (find_def s' nm)) (fun d => ret (MRecord d nm)))
              | SyMc _ => none
              | SyLeaf lid =>
                bind (lift (nthN (s_leaves s') lid)) (fun l =>
                match lf_kind l with LDefm => none | _ => ret (lf_ty l) end)
              end)).
  Proof.
    intros sym nm. apply pure_bind; [apply pure_get|]. intros s'. destruct sym.
    - apply pure_bind; [apply pure_lift|]. intros r. destruct (rc_class r); [apply pure_none|].
      apply pure_bind; [apply pure_lift|]. intros; apply pure_ret.
    - apply pure_none.
    - apply pure_bind; [apply pure_lift|]. intros l. destruct (lf_kind l); first [apply pure_none|apply pure_ret].
  Qed.

  Lemma case_simple : sim_simple (S n).
  Proof.
    intros sv f e s Hf P HR Hb. destruct sv.
    - apply Step_refl.
    - apply Step_refl.
    - apply Step_refl.
    - apply Step_refl.
    - apply Step_refl.
    - (* bits *) simpl in *. unfold seq in *. simpl in *. now apply (values_sim n IHv).
    - (* list *) simpl in *. unfold bind in *.
      pose proof (values_sim_map n IHv vs f e s Hf P HR) as G.
      destruct (mapM_opt (index_value n) vs s) as [[os|] s1]; simpl in *; apply G; assumption.
    - (* dag *) simpl in *. unfold seq in *. simpl in *. now apply (values_sim n IHv).
    - (* identifier *)
      change (spec_simple f e (SId i)) with
        (match lookup_id e (i_name i) with
         | None => if name_eqb (i_name i) NAME then [] else [(at_file f (i_rng i), None)]
         | Some d => [(at_file f (i_rng i), Some d)]
         end) in *.
      simpl in Hb |- *. unfold bind at 1 in Hb. unfold bind at 1. unfold here, get in *. simpl in *.
      unfold bind at 1 in Hb. unfold bind at 1. unfold state, get in *. simpl in *.
      destruct (lookup_id e (i_name i)) as [d|] eqn:El.
      + pose proof (pre_id_some f e s P _ _ El) as Hv. unfold lookup_view in Hv.
        destruct (resolve_id s (i_name i)) as [sym|] eqn:Er; [|discriminate].
        unfold seq. rewrite (sid_tail_pure sym (i_name i)).
        eapply Step_eq; [apply Step_add_reference|].
        rewrite Hv. unfold at_file. now rewrite (pre_file f e s P).
      + rewrite (pre_id_none f e s P _ El) in *.
        change name_NAME with NAME in *.
        destruct (name_eqb (i_name i) NAME); [apply Step_refl|]. simpl in HR. discriminate.
    - (* class value *)
      change (spec_simple f e (SClassVal i args r)) with
        ((at_file f (i_rng i), lookup_class e (i_name i)) :: flat_map (spec_arg f e) args) in *.
      simpl in HR. apply andb_true_iff in HR. destruct HR as [HR1 HR2]. unfold resolved in HR1; simpl in HR1.
      destruct (lookup_class e (i_name i)) as [d|] eqn:El; [|discriminate].
      pose proof (pre_cls_some f e s P _ _ El) as Hc. unfold class_view in Hc.
      simpl in Hb |- *. unfold bind at 1 in Hb. unfold bind at 1. unfold here, get in *. simpl in *.
      unfold bind at 1 in Hb. unfold bind at 1. unfold state, get in *. simpl in *.
      destruct (find_class s (i_name i)) as [cid|] eqn:Ef; [|discriminate].
      unfold seq at 1 in Hb. unfold seq at 1.
      set (loc := {| r_file := current_file s; r_lo := r_lo (i_rng i); r_hi := r_hi (i_rng i) |}) in *.
      pose proof (Step_add_reference s (SyRecord cid) loc) as S1.
      set (s1 := snd (add_reference (SyRecord cid) loc s)) in *.
      assert (E1 : define_loc s (SyRecord cid) = Some d) by exact Hc.
      assert (Hrec : nthN (s_recs s1) cid <> None).
      { destruct S1 as [_ (Hr & _) _ _]. rewrite Hr. destruct (nthN (s_recs s) cid); [discriminate|discriminate]. }
      unfold bind at 1 in Hb. unfold bind at 1. simpl in *.
      unfold bind at 1 in Hb. unfold bind at 1. unfold lift at 1 in Hb. unfold lift at 1.
      destruct (nthN (s_recs s1) cid) as [rc|] eqn:Erc; [|congruence].
      assert (P1 : Pre f e s1) by (eapply Pre_Step; eassumption).
      unfold bind at 1 in Hb. unfold bind at 1.
      pose proof (args_sim_map n IHa args f e s1 Hf P1 HR2) as S2.
      destruct (mapM_opt (index_arg n) args s1) as [[avs|] s2] eqn:Em; simpl in *.
      2:{ destruct (mapM_opt_state _ _ (index_arg n) args s1) as [_ Hsome]. rewrite Em in Hsome. simpl in Hsome. congruence. }
      unfold seq in Hb |- *. simpl in *.
      assert (Hb2 : s_bad s2 = false).
      { eapply (bad_false_before _ (emit (check_template_args s2 (targ_leaves s1 (rc_targs rc)) avs r))); [|exact Hb].
        unfold emit. apply (resp_iterM BadMono BM_refl BM_trans). intros; apply BM_err. }
      specialize (S2 Hb2).
      eapply Step_eq.
      + eapply Step_trans; [exact S1|]. eapply Step_trans; [exact S2|].
        apply Step_emit. intros d0 Hd0. eapply cta_kinds. exact Hd0.
      + simpl. rewrite E1, app_nil_r. unfold at_file, loc. now rewrite (pre_file f e s P).
    - (* bang *)
      rewrite frag_simple_bang in Hf. apply andb_true_iff in Hf. destruct Hf as [Hf1 Hf2].
      rewrite spec_simple_bang in *. simpl in Hb |- *. now apply IHb.
    - (* cond *) simpl in *. unfold seq in *. simpl in *. now apply (values_sim n IHv).
  Qed.
End ValueCases2.

Section ValueCases3.
  Variable n : nat.
  Hypothesis IHv : sim_value n.

  Definition gv_check (expected : mty) (v : value) : M unit :=
    bind (try_ (index_value n v)) (fun o =>
      match o with
      | Some t => bind state (fun s => if can_cast s t expected then ret tt else err (value_rng v) DOperand)
      | None => ret tt
      end).

  Lemma BM_gv_check : forall ex v, resp BadMono (gv_check ex v).
  Proof.
    intros ex v. unfold gv_check. apply (resp_bind BadMono BM_trans).
    - apply (resp_try BadMono), BM_index_value.
    - intros [t|]; [|apply (resp_ret BadMono BM_refl)].
      apply (resp_state BadMono). intros s. destruct (can_cast s t ex); [apply BM_refl|apply BM_err].
  Qed.

  Lemma gv_check_sim : forall ex v f e s,
      frag_value v = true -> Pre f e s -> forallb resolved (spec_value f e v) = true ->
      s_bad (snd (gv_check ex v s)) = false -> Step s (snd (gv_check ex v s)) (spec_value f e v).
  Proof.
    intros ex v f e s Hf P HR Hb. unfold gv_check, bind, try_ in *.
    destruct (index_value n v s) as [o s1] eqn:E1. simpl in *.
    assert (S1 : s_bad s1 = false -> Step s s1 (spec_value f e v)).
    { intros Hb1. replace s1 with (snd (index_value n v s)) by now rewrite E1. apply IHv; auto. now rewrite E1. }
    destruct o as [t|]; simpl in *; [|now apply S1].
    unfold state, get in *. simpl in *. destruct (can_cast s1 t ex); simpl in *; [now apply S1|].
    rewrite <- (app_nil_r (spec_value f e v)).
    eapply Step_trans; [apply S1; exact Hb|]. apply Step_err. reflexivity.
  Qed.

  Lemma plain_ops_each : forall ex (post : st -> option mty) vs f e s,
      forallb frag_value vs = true -> Pre f e s -> forallb resolved (flat_map (spec_value f e) vs) = true ->
      s_bad (snd (seq (iterM (gv_check ex) vs) (bind state (fun s0 => lift (post s0))) s)) = false ->
      Step s (snd (seq (iterM (gv_check ex) vs) (bind state (fun s0 => lift (post s0))) s))
           (flat_map (spec_value f e) vs).
  Proof.
    intros ex post vs f e s Hf P HR Hb. unfold seq, bind, state, get, lift in *. simpl in *.
    apply (iter_sim _ _ (gv_check ex) (spec_value f e) f e); auto.
    - intros; apply BM_gv_check.
    - intros x s0 Hin P0 HR0 Hb0. apply gv_check_sim; auto. eapply forallb_In; eassumption.
  Qed.

  Lemma plain_ops_none : forall (post : st -> list (option mty) -> list dg * option mty) vs f e s,
      forallb frag_value vs = true -> Pre f e s -> forallb resolved (flat_map (spec_value f e) vs) = true ->
      s_bad (snd (bind (mapM_opt (index_value n) vs) (fun os => bind state (fun s0 =>
              let '(ds, t) := post s0 os in seq (iterM (fun d => err (fst d) DOperand) ds) (lift t))) s)) = false ->
      Step s (snd (bind (mapM_opt (index_value n) vs) (fun os => bind state (fun s0 =>
              let '(ds, t) := post s0 os in seq (iterM (fun d => err (fst d) DOperand) ds) (lift t))) s))
           (flat_map (spec_value f e) vs).
  Proof.
    intros post vs f e s Hf P HR Hb. unfold bind at 1 in Hb. unfold bind at 1.
    pose proof (values_sim_map n IHv vs f e s Hf P HR) as S1.
    destruct (mapM_opt (index_value n) vs s) as [[os|] s1] eqn:Em; simpl in *; [|now apply S1].
    unfold bind, state, get in *. simpl in *. destruct (post s1 os) as [ds t]. unfold seq, lift in *. simpl in *.
    assert (Hb1 : s_bad s1 = false).
    { eapply (bad_false_before _ (iterM (fun d : dg => err (fst d) DOperand) ds)); [|exact Hb].
      apply (resp_iterM BadMono BM_refl BM_trans). intros; apply BM_err. }
    rewrite <- (app_nil_r (flat_map (spec_value f e) vs)).
    eapply Step_trans; [apply S1; exact Hb1|]. apply Step_errs. reflexivity.
  Qed.
End ValueCases3.

Lemma first_ident_eq : forall v, first_ident v = value_first_ident v.
Proof. intros [r [|[[] sufs] rest]]; reflexivity. Qed.

Lemma scoped_bad : forall A k (body : M A) s,
    s_bad (snd (scoped k body s)) = false -> s_bad (snd (body (pushed k s))) = false.
Proof.
  intros A k body s H. unfold scoped, seq, bind, try_, push_scope, upd in H; simpl in H.
  fold (pushed k s) in H. destruct (body (pushed k s)) as [o s2]; simpl in *.
  unfold lift, pop_scope in H. destruct (s_scopes s2); simpl in H; [discriminate|exact H].
Qed.

Definition bind_var (i : ident) (t : mty) : M unit :=
  bind (here (i_rng i)) (fun loc => scopes_add_variable (mkLeaf LVar (i_name i) t false loc)).

Lemma BM_bind_var : forall i t, resp BadMono (bind_var i t).
Proof.
  intros i t. unfold bind_var. apply (resp_bind BadMono BM_trans); [apply (resp_get BadMono BM_refl)|].
  intros loc. bm_prim.
Qed.

Section Binders.
  Variable n : nat.
  Hypothesis IHv : sim_value n.

  (** the state after declaring a variable in a freshly pushed block *)
  Lemma bind_var_pushed : forall k i t f e s,
      plain_kind k = true -> Pre f e s ->
      let s3 := snd (bind_var i t (pushed k s)) in
      StepV (pushed k s) s3 [] /\ Pre f (push_vars e [(i_name i, at_file f (i_rng i))]) s3.
  Proof.
    intros k i t f e s Hk P s3.
    assert (Hf : current_file (pushed k s) = f) by (unfold pushed, current_file; simpl; apply (pre_file f e s P)).
    assert (E : s3 = with_var (pushed k s) (mkLeaf LVar (i_name i) t false (mkR f (r_lo (i_rng i)) (r_hi (i_rng i))))).
    { unfold s3, bind_var, bind, here, get, with_var; simpl. now rewrite Hf. }
    rewrite E. split.
    - eapply StepV_with_var. reflexivity.
    - apply (Pre_su f (tset_var (add_var (push_vars e []) (i_name i) (mkR f (r_lo (i_rng i)) (r_hi (i_rng i)))) (i_name i) TUnk));
        [|repeat split].
      apply (Pre_with_var f (push_vars e []) (pushed k s) i t (mkScope k []) (s_scopes s) TUnk).
      + now apply Pre_pushed.
      + reflexivity.
      + discriminate.
      + exact I.
  Qed.

  Lemma scoped_var_value : forall k i t body f e s,
      plain_kind k = true -> Pre f e s -> frag_value body = true ->
      let e2 := push_vars e [(i_name i, at_file f (i_rng i))] in
      forallb resolved (spec_value f e2 body) = true ->
      s_bad (snd (scoped k (seq (bind_var i t) (index_value n body)) s)) = false ->
      Step s (snd (scoped k (seq (bind_var i t) (index_value n body)) s)) (spec_value f e2 body).
  Proof.
    intros k i t body f e s Hk P Hf e2 HR Hb.
    apply scoped_simV. apply scoped_bad in Hb. unfold seq in *.
    destruct (bind_var_pushed k i t f e s Hk P) as [S1 P3].
    set (s3 := snd (bind_var i t (pushed k s))) in *.
    change (spec_value f e2 body) with ([] ++ spec_value f e2 body).
    eapply StepV_trans; [exact S1|]. apply Step_StepV. apply IHv; auto.
  Qed.

  Lemma scoped_vars2_value : forall k ia ta iv tv body f e s,
      plain_kind k = true -> Pre f e s -> frag_value body = true ->
      let e2 := push_vars e [(i_name iv, at_file f (i_rng iv)); (i_name ia, at_file f (i_rng ia))] in
      forallb resolved (spec_value f e2 body) = true ->
      s_bad (snd (scoped k (seq (bind_var ia ta) (seq (bind_var iv tv) (index_value n body))) s)) = false ->
      Step s (snd (scoped k (seq (bind_var ia ta) (seq (bind_var iv tv) (index_value n body))) s))
           (spec_value f e2 body).
  Proof.
    intros k ia ta iv tv body f e s Hk P Hf e2 HR Hb.
    apply scoped_simV. apply scoped_bad in Hb. unfold seq in *.
    destruct (bind_var_pushed k ia ta f e s Hk P) as [S1 P3].
    set (s3 := snd (bind_var ia ta (pushed k s))) in *.
    (* second variable: added to the same (now non-empty) block *)
    destruct S1 as [U1 V1 [vs1 Sc1] N1].
    assert (Hsc : exists c t, s_scopes s3 = c :: t).
    { rewrite Sc1. unfold pushed; simpl. eauto. }
    destruct Hsc as [c [t Hsc]].
    assert (Hf3 : current_file s3 = f) by apply (pre_file _ _ _ P3).
    set (l2 := mkLeaf LVar (i_name iv) tv false (mkR f (r_lo (i_rng iv)) (r_hi (i_rng iv)))).
    assert (E4 : snd (bind_var iv tv s3) = with_var s3 l2).
    { unfold bind_var, bind, here, get, with_var; simpl. now rewrite Hf3. }
    rewrite E4 in *.
    pose proof (StepV_with_var s3 l2 c t Hsc) as S2.
    assert (P4 : Pre f e2 (with_var s3 l2)).
    { apply (Pre_su f (tset_var (add_var (push_vars e [(i_name ia, at_file f (i_rng ia))]) (i_name iv)
                                         (mkR f (r_lo (i_rng iv)) (r_hi (i_rng iv)))) (i_name iv) TUnk)); [|repeat split].
      apply (Pre_with_var f (push_vars e [(i_name ia, at_file f (i_rng ia))]) s3 iv tv c t TUnk); auto; [discriminate|exact I]. }
    change (spec_value f e2 body) with ([] ++ ([] ++ spec_value f e2 body)).
    eapply StepV_trans; [split; [exact U1|exact V1|exists vs1; exact Sc1|exact N1]|].
    eapply StepV_trans; [exact S2|]. apply Step_StepV. apply IHv; auto.
  Qed.
End Binders.

Arguments bang_post : simpl never.

Section OpsCase.
  Variable n : nat.
  Hypothesis IHv : sim_value n.

  Lemma BM_scoped_body1 : forall k i t body, resp BadMono (scoped k (seq (bind_var i t) (index_value n body))).
  Proof.
    intros. apply (r_scoped BadMono BM_refl BM_trans); try bm_prim.
    apply (resp_seq BadMono BM_trans); [apply BM_bind_var|apply BM_index_value].
  Qed.

  Lemma ops_filter_like : forall k (wrap : M mty -> mty -> M mty) var sq body f e s,
      plain_kind k = true -> (forall m lt s0, snd (wrap m lt s0) = snd (m s0)) ->
      frag_value sq = true -> frag_value body = true ->
      is_ident_first var = true -> is_list_literal sq = true -> Pre f e s ->
      let E := spec_value f e sq
               ++ match first_ident var with
                  | Some i => spec_value f (push_vars e [(i_name i, at_file f (i_rng i))]) body
                  | None => []
                  end in
      let m := bind (index_value n sq) (fun lt =>
               bind (lift (element_typ lt)) (fun vt =>
               bind (lift (value_first_ident var)) (fun i =>
               wrap (scoped k (seq (bind_var i vt) (index_value n body))) lt))) in
      forallb resolved E = true -> s_bad (snd (m s)) = false -> Step s (snd (m s)) E.
  Proof.
    intros k wrap var sq body f e s Hk Hwrap Hfs Hfb Hid Hll P E m HR Hb. unfold E, m in *. clear E m.
    rewrite forallb_app in HR. apply andb_true_iff in HR. destruct HR as [HR1 HR2].
    unfold is_ident_first in Hid. rewrite first_ident_eq in *.
    destruct (value_first_ident var) as [i|] eqn:Ei; [|discriminate].
    unfold bind at 1 in Hb. unfold bind at 1.
    destruct (index_value n sq s) as [olt s1] eqn:E1.
    assert (Hb1 : s_bad s1 = false).
    { destruct olt as [lt|]; simpl in Hb; [|exact Hb].
      unfold bind at 1 in Hb. destruct (lift (element_typ lt) s1) as [[vt|] s1'] eqn:El; unfold lift in El;
        injection El as El1 El2; subst s1'; simpl in Hb; [|exact Hb].
      unfold bind at 1 in Hb. simpl in Hb. rewrite Hwrap in Hb.
      eapply (bad_false_before _ (scoped k (seq (bind_var i vt) (index_value n body)))); [apply BM_scoped_body1|exact Hb]. }
    assert (S1 : Step s s1 (spec_value f e sq)).
    { replace s1 with (snd (index_value n sq s)) by now rewrite E1. apply IHv; auto. now rewrite E1. }
    destruct (list_literal_typed n sq s Hll) as [lt [et [Elt Eet]]]; [now rewrite E1|].
    rewrite E1 in Elt. simpl in Elt. subst olt. simpl in *.
    unfold bind at 1 in Hb. unfold bind at 1. unfold lift at 1 in Hb. unfold lift at 1. rewrite Eet in *. simpl in *.
    unfold bind at 1 in Hb. unfold bind at 1. simpl in *.
    rewrite Hwrap in *.
    assert (P1 : Pre f e s1) by (eapply Pre_Step; eassumption).
    eapply Step_trans; [exact S1|]. rewrite first_ident_eq, Ei.
    now apply (scoped_var_value n IHv k i et body f e s1 Hk P1 Hfb HR2).
  Qed.

  Lemma BM_scoped_body2 : forall k ia ta iv tv body,
      resp BadMono (scoped k (seq (bind_var ia ta) (seq (bind_var iv tv) (index_value n body)))).
  Proof.
    intros. apply (r_scoped BadMono BM_refl BM_trans); try bm_prim.
    apply (resp_seq BadMono BM_trans); [apply BM_bind_var|].
    apply (resp_seq BadMono BM_trans); [apply BM_bind_var|apply BM_index_value].
  Qed.

  Lemma ops_foldl : forall init sq acc var body f e s,
      frag_value init = true -> frag_value sq = true -> frag_value body = true ->
      is_plain_literal init = true -> is_list_literal sq = true ->
      is_ident_first acc = true -> is_ident_first var = true -> Pre f e s ->
      let E := spec_value f e init ++ spec_value f e sq
               ++ match first_ident acc, first_ident var with
                  | Some ia, Some iv =>
                    spec_value f (push_vars e [(i_name iv, at_file f (i_rng iv)); (i_name ia, at_file f (i_rng ia))]) body
                  | _, _ => []
                  end in
      let m := bind (index_value n init) (fun it =>
               bind (index_value n sq) (fun lt =>
               bind (lift (element_typ lt)) (fun et =>
               bind (lift (value_first_ident acc)) (fun ia =>
               bind (lift (value_first_ident var)) (fun iv =>
               seq (scoped KXFoldl (seq (bind_var ia it) (seq (bind_var iv et) (index_value n body)))) (ret it)))))) in
      forallb resolved E = true -> s_bad (snd (m s)) = false -> Step s (snd (m s)) E.
  Proof.
    intros init sq acc var body f e s Hfi Hfs Hfb Hpl Hll Hia Hiv P E m HR Hb. unfold E, m in *. clear E m.
    rewrite forallb_app in HR. apply andb_true_iff in HR. destruct HR as [HR0 HR].
    rewrite forallb_app in HR. apply andb_true_iff in HR. destruct HR as [HR1 HR2].
    unfold is_ident_first in *. rewrite !first_ident_eq in *.
    destruct (value_first_ident acc) as [ia|] eqn:Eia; [|discriminate].
    destruct (value_first_ident var) as [iv|] eqn:Eiv; [|discriminate].
    (* the two operands run first; everything after respects BadMono *)
    set (tail2 := fun it lt =>
               bind (lift (element_typ lt)) (fun et =>
               bind (lift (Some ia)) (fun ia0 =>
               bind (lift (Some iv)) (fun iv0 =>
               seq (scoped KXFoldl (seq (bind_var ia0 it) (seq (bind_var iv0 et) (index_value n body)))) (ret it))))) in *.
    assert (BMt : forall it lt, resp BadMono (tail2 it lt)).
    { intros it lt. unfold tail2. apply (resp_bind BadMono BM_trans); [apply (resp_lift BadMono BM_refl)|]. intros et.
      apply (resp_bind BadMono BM_trans); [apply (resp_lift BadMono BM_refl)|]. intros ia0.
      apply (resp_bind BadMono BM_trans); [apply (resp_lift BadMono BM_refl)|]. intros iv0.
      apply (resp_seq BadMono BM_trans); [apply BM_scoped_body2|apply (resp_ret BadMono BM_refl)]. }
    unfold bind at 1 in Hb. unfold bind at 1.
    destruct (index_value n init s) as [oit s0] eqn:E0.
    assert (Hb0 : s_bad s0 = false).
    { destruct oit as [it|]; simpl in Hb; [|exact Hb].
      eapply (bad_false_before _ (bind (index_value n sq) (fun lt => tail2 it lt))); [|exact Hb].
      apply (resp_bind BadMono BM_trans); [apply BM_index_value|intros; apply BMt]. }
    assert (S0 : Step s s0 (spec_value f e init)).
    { replace s0 with (snd (index_value n init s)) by now rewrite E0. apply IHv; auto. now rewrite E0. }
    destruct (plain_literal_typed n init s Hpl) as [it Eit]; [now rewrite E0|].
    rewrite E0 in Eit. simpl in Eit. subst oit. simpl in *.
    assert (P0 : Pre f e s0) by (eapply Pre_Step; eassumption).
    unfold bind at 1 in Hb. unfold bind at 1.
    destruct (index_value n sq s0) as [olt s1] eqn:E1.
    assert (Hb1 : s_bad s1 = false).
    { destruct olt as [lt|]; simpl in Hb; [|exact Hb].
      eapply (bad_false_before _ (tail2 it lt)); [apply BMt|exact Hb]. }
    assert (S1 : Step s0 s1 (spec_value f e sq)).
    { replace s1 with (snd (index_value n sq s0)) by now rewrite E1. apply IHv; auto. now rewrite E1. }
    destruct (list_literal_typed n sq s0 Hll) as [lt [et [Elt Eet]]]; [now rewrite E1|].
    rewrite E1 in Elt. simpl in Elt. subst olt. simpl in *.
    unfold tail2 in *. unfold bind at 1 in Hb. unfold bind at 1. unfold lift at 1 in Hb. unfold lift at 1.
    rewrite Eet in *. simpl in *.
    repeat (unfold bind at 1 in Hb; simpl in Hb). repeat (unfold bind at 1; simpl).
    unfold seq at 1 in Hb. unfold seq at 1. simpl in *.
    assert (P1 : Pre f e s1) by (eapply Pre_Step; eassumption).
    eapply Step_trans; [exact S0|]. eapply Step_trans; [exact S1|].
    rewrite ?(first_ident_eq var), ?(first_ident_eq acc) in HR2. rewrite ?Eia in HR2. rewrite ?Eiv in HR2.
    rewrite ?(first_ident_eq var), ?(first_ident_eq acc). rewrite ?Eia. rewrite ?Eiv.
    apply (scoped_vars2_value n IHv KXFoldl ia it iv et body f e s1 eq_refl P1 Hfb HR2). exact Hb.
  Qed.
End OpsCase.

Section OpsCase2.
  Variable n : nat.
  Hypothesis IHv : sim_value n.

  Lemma case_ops : sim_ops (S n).
  Proof.
    intros op a vs r f e s Hf Hfo P HR Hb.
    destruct op; cbn [index_bang_ops bang_check_each] in Hb |- *; unfold spec_operands in HR |- *;
      try (apply (plain_ops_each n IHv); assumption);
      try (apply (plain_ops_none n IHv (fun s0 os => bang_post s0 _ a (combine (map value_rng vs) os))); assumption).
    - (* XFilter *)
      destruct vs as [|var [|sq [|body [|x rest]]]]; try discriminate.
      simpl in Hf, Hfo. apply andb_true_iff in Hfo. destruct Hfo as [Hid Hll].
      apply andb_true_iff in Hf. destruct Hf as [_ Hf]. apply andb_true_iff in Hf. destruct Hf as [Hfs Hf].
      apply andb_true_iff in Hf. destruct Hf as [Hfb _].
      cbn [nth_error lift bind] in Hb |- *.
      apply (ops_filter_like n IHv KXFilter (fun m lt => seq m (ret lt)) var sq body f e s); auto.
    - (* XFoldl *)
      destruct vs as [|init [|sq [|acc [|var [|body [|x rest]]]]]]; try discriminate.
      simpl in Hf, Hfo.
      apply andb_true_iff in Hfo. destruct Hfo as [Hfo Hiv]. apply andb_true_iff in Hfo. destruct Hfo as [Hfo Hia].
      apply andb_true_iff in Hfo. destruct Hfo as [Hpl Hll].
      apply andb_true_iff in Hf. destruct Hf as [Hfi Hf]. apply andb_true_iff in Hf. destruct Hf as [Hfs Hf].
      apply andb_true_iff in Hf. destruct Hf as [_ Hf]. apply andb_true_iff in Hf. destruct Hf as [_ Hf].
      apply andb_true_iff in Hf. destruct Hf as [Hfb _].
      cbn [nth_error lift bind] in Hb |- *.
      apply (ops_foldl n IHv init sq acc var body f e s); auto.
    - (* XForEach *)
      destruct vs as [|var [|sq [|body [|x rest]]]]; try discriminate.
      simpl in Hf, Hfo. apply andb_true_iff in Hfo. destruct Hfo as [Hid Hll].
      apply andb_true_iff in Hf. destruct Hf as [_ Hf]. apply andb_true_iff in Hf. destruct Hf as [Hfs Hf].
      apply andb_true_iff in Hf. destruct Hf as [Hfb _].
      cbn [nth_error lift bind] in Hb |- *.
      apply (ops_filter_like n IHv KXForeach
               (fun m lt => bind (try_ m) (fun et => ret (MList match et with Some t => t | None => MUnknown end)))
               var sq body f e s); auto.
      intros m lt s0. unfold bind, try_. destruct (m s0); reflexivity.
  Qed.
End OpsCase2.

Theorem values_agree : forall n,
    sim_value n /\ sim_inner n /\ sim_simple n /\ sim_arg n /\ sim_bang n /\ sim_ops n.
Proof.
  induction n as [|n (IHv & IHi & IHs & IHa & IHb & IHo)].
  - unfold sim_value, sim_inner, sim_simple, sim_arg, sim_bang, sim_ops.
    split; [|split; [|split; [|split; [|split]]]]; intros; simpl in *; discriminate.
  - assert (Hv : sim_value (S n)) by (apply case_value; assumption).
    split; [exact Hv|]. split; [apply case_inner; assumption|]. split; [apply case_simple; assumption|].
    split; [apply case_arg; assumption|]. split; [apply case_bang; assumption|apply case_ops; assumption].
Qed.

Lemma value_agrees : forall n v f e s,
    frag_value v = true -> Pre f e s -> forallb resolved (spec_value f e v) = true ->
    s_bad (snd (index_value n v s)) = false -> Step s (snd (index_value n v s)) (spec_value f e v).
Proof. intros n. apply (values_agree n). Qed.
Lemma arg_agrees : forall n a f e s,
    frag_arg a = true -> Pre f e s -> forallb resolved (spec_arg f e a) = true ->
    s_bad (snd (index_arg n a s)) = false -> Step s (snd (index_arg n a s)) (spec_arg f e a).
Proof. intros n. apply (values_agree n). Qed.

(** ---- the type a declared type denotes *)
Lemma ty_typed : forall t f e s typ,
    Pre f e s -> fst (index_ty t s) = Some typ -> TYPm (snd (index_ty t s)) typ (sty_of_ty e t).
Proof.
  induction t; intros f e s typ P H; try exact I.
  { (* list *)
    cbn [sty_of_ty]. simpl in H |- *. unfold bind in *. destruct (index_ty t s) as [[x|] s1] eqn:E; simpl in *; [|discriminate].
    injection H as <-. exists x. split; [reflexivity|]. specialize (IHt f e s x P). rewrite E in IHt. now apply IHt. }
  cbn [sty_of_ty]. unfold class_ty. destruct (pos_of (i_name i) (e_cls e)) as [k|] eqn:Ep; [|exact I].
  simpl in H |- *. unfold bind, here, state, get in *. simpl in *.
  destruct (find_class s (i_name i)) as [c|] eqn:Ef; [|discriminate].
  unfold seq, ret in *. simpl in *. injection H as <-.
  destruct (pre_ty f e s P) as (C & _).
  destruct (class_aligned _ e s _ c k C Ef Ep) as [n0 A].
  exists n0, c, (i_name i). split; [|reflexivity].
  unfold add_reference, upd, add_pos; simpl. destruct (rng_empty _); exact A.
Qed.

(** ---- the type of a value that is a single simple value (what a defvar records) *)
Lemma value_single_eq : forall n r sv sufs s,
    index_value (S n) (Val r [Inner sv sufs]) s = index_inner n (Inner sv sufs) s.
Proof.
  intros n r sv sufs s. simpl. unfold bind, try_, seq, lift. simpl.
  destruct (index_inner n (Inner sv sufs) s) as [o s1]. reflexivity.
Qed.
Lemma inner_nosuf_eq : forall n sv s, index_inner (S n) (Inner sv []) s = index_simple n sv s.
Proof.
  intros n sv s. rewrite index_inner_eq. unfold bind. cbn [sufs_loop]. unfold ret.
  destruct (index_simple n sv s) as [[t0|] s1]; reflexivity.
Qed.
Lemma value_typed : forall n v f e s,
    Pre f e s -> forallb resolved (spec_value f e v) = true ->
    s_bad (snd (index_value n v s)) = false ->
    TYPm (snd (index_value n v s)) (match fst (index_value n v s) with Some t => t | None => MUnknown end) (sty_value e v).
Proof.
  intros n [r inners] f e s P HR Hb.
  destruct inners as [|[sv sufs] rest]; [exact I|]. destruct rest; [|exact I].
  cbn [sty_value].
  destruct n as [|n]; [discriminate|]. rewrite value_single_eq in *.
  destruct n as [|n]; [discriminate|]. rewrite index_inner_eq in *.
  assert (HR' : forallb resolved (spec_simple f e sv ++ spec_sufs f e (sty_simple e sv) sufs) = true).
  { change (spec_value f e (Val r [Inner sv sufs])) with ((spec_simple f e sv ++ spec_sufs f e (sty_simple e sv) sufs) ++ []) in HR.
    now rewrite app_nil_r in HR. }
  rewrite forallb_app in HR'. apply andb_true_iff in HR'. destruct HR' as [HR1 HR2].
  destruct n as [|n].
  { exfalso. unfold bind in Hb. simpl in Hb. discriminate. }
  pose proof (VR_index_simple (S n) sv s) as V1.
  pose proof (proj1 (proj2 (proj2 (values_keep_all (S n)))) sv s) as K1.
  unfold bind in *. destruct (index_simple (S n) sv s) as [[t0|] s1] eqn:E; cbn [fst snd] in *.
  - assert (Ht : TYPm s1 t0 (sty_simple e sv)).
    { replace s1 with (snd (index_simple (S n) sv s)) by now rewrite E.
      apply (simple_typed n sv f e s t0 P HR1). now rewrite E. }
    assert (P1 : Pre f e s1) by (eapply Pre_VR; eassumption).
    exact (proj2 (sufs_sim_typed sufs f e s1 t0 _ P1 Ht HR2 Hb)).
  - (* no type for the simple value: the specification knows none either *)
    assert (Hty : sty_simple e sv = TUnk).
    { destruct (sty_simple e sv) eqn:Es; [reflexivity| | |];
        exfalso; apply (typed_some n sv f e s); try assumption; try (rewrite Es; discriminate); now rewrite E. }
    rewrite Hty, sty_sufs_unk. exact I.
Qed.

(** the initial state is related to the empty environment *)
Lemma TyV_initial : TyV None env0 st0.
Proof.
  split; [constructor|]. split; [split; [constructor|reflexivity]|]. split.
  - intros nm sym ty H. discriminate.
  - intros nm. split; reflexivity.
Qed.
Lemma Pre_initial : Pre 0 env0 st0.
Proof.
  split; try reflexivity; intros; try discriminate. exact TyV_initial.
Qed.
