(** The rendering of the CURRENT source of handlers/document_link.rs `exec` and handlers/diagnostics.rs `exec`
    (coq/gen/GenHandlersHost.v) equals the hand models: group host's [Host.links_of] over group bridge's item abstraction
    [Pipeline.include_items] of the tree (document links), and for the diagnostics the per-file map whose keys are the workspace
    files (group host's [Host.workspace]) and whose values are the parse errors of every workspace file followed by the index
    diagnostics (group scope's [Indexer.diagnostics]), in the order the code produces them. *)
From Coq Require Import List NArith Bool String Lia.
From TG.Gen Require Import GenTokens GenAst GenHandlers GenHandlersHost.
From TG.Model Require Import Chars Tree TreeNav Folding SymbolMap Includes AstAccess HandlerApi HandlerSymApi HandlerHostApi.
From TG.Model Require Host AstToCore Pipeline CoreAst Scope Indexer.
From TG.Proofs Require Import TreeNavProofs GenHandlersEq.
Import ListNotations.
Close Scope string_scope.
Open Scope N_scope.

(** ================= cursors vs located nodes ================= *)
Definition lnode_of (c : cursor) : AstToCore.lnode := (cur_offset c, fst c).

Lemma child_lnodes : forall c, map lnode_of (child_cursors c) = AstToCore.lchildren (lnode_of c).
Proof.
  intros [t ctx]. unfold child_cursors, AstToCore.lchildren, lnode_of. cbn [fst snd].
  destruct t as [k cs|k txt]; [|reflexivity]. cbn [children_of].
  assert (forall l lr, map (fun c : cursor => (cur_offset c, fst c)) (child_cursors_go k ctx lr l) =
                       with_offsets (cur_offset (Node k cs, ctx) + forest_len (rev lr)) l) as H.
  { induction l as [|c r IH]; intros lr; [reflexivity|]. cbn [child_cursors_go map with_offsets]. f_equal.
    - unfold cur_offset. cbn [fst snd]. now rewrite child_offset.
    - rewrite IH, forest_len_rev_cons. now rewrite N.add_assoc. }
  etransitivity; [exact (H cs [])|]. cbn [rev]. change (forest_len []) with 0. now rewrite N.add_0_r.
Qed.

Lemma hd_error_map {A B} (f : A -> B) : forall l, hd_error (map f l) = option_map f (hd_error l).
Proof. destruct l; reflexivity. Qed.
Lemma hd_error_firstn1 {A} : forall l : list A, hd_error (firstn 1 l) = hd_error l.
Proof. destruct l; reflexivity. Qed.

Lemma include_path_field : forall c, sk_eqb (kind_of (fst c)) S_Include = true ->
  option_map lnode_of (ast_field_child c "path"%string) = hd_error (AstToCore.field (lnode_of c) "path"%string).
Proof.
  intros c Hk. apply sk_eqb_eq in Hk. unfold ast_field_child, AstToCore.field, AstToCore.l_kind, lnode_of. cbn [snd]. rewrite Hk.
  change (accessors_of S_Include) with [("path"%string, [S_String], AChild)]. cbn [find fst String.eqb Ascii.eqb Bool.eqb].
  unfold AstToCore.laccess, acc_kinds, acc_mode_of. cbn [fst snd]. rewrite hd_error_firstn1.
  rewrite <- hd_error_map. f_equal. unfold child_node_cursors.
  change (cur_offset c, fst c) with (lnode_of c). rewrite <- child_lnodes.
  rewrite (filter_map_comm lnode_of (fun x => is_node (snd x) && kind_in (kind_of (snd x)) [S_String])). reflexivity.
Qed.

Lemma last_sig_spec : forall ls acc,
  Pipeline.last_sig ls acc = match last_opt (filter sig_token ls) with Some l => Some (lf_hi l) | None => acc end.
Proof.
  induction ls as [|[[[k lo] hi] tx] r IH]; intros acc; [reflexivity|]. cbn [Pipeline.last_sig filter]. rewrite IH.
  unfold sig_token at 2. cbn [lf_kind lf_lo lf_hi].
  destruct (negb (sk_is_trivia k) && negb (lo =? hi)).
  - destruct (filter sig_token r) as [|x r'] eqn:E; [reflexivity|].
    change (last_opt ((k, lo, hi, tx) :: x :: r')) with (last_opt (x :: r')).
    destruct (last_opt (x :: r')) eqn:L; [reflexivity|apply last_opt_None in L; discriminate].
  - reflexivity.
Qed.

Lemma link_range_eq : forall off t, Pipeline.range_excluding_trivia off t = Folding.range_excluding_trivia off t.
Proof.
  intros off t. unfold Pipeline.range_excluding_trivia, Folding.range_excluding_trivia. rewrite last_sig_spec.
  destruct (last_opt _); reflexivity.
Qed.

(** ================= document_link ================= *)
Lemma links_of_app : forall (m : list (rng * N)) (a b : list (item text)),
  Host.links_of m (a ++ b) = Host.links_of m a ++ Host.links_of m b.
Proof.
  intros m. induction a as [|x r IH]; intros b; [reflexivity|]. cbn [app Host.links_of].
  destruct x as [sid reached [[s lr]|]|nm]; try apply IH. destruct (im_get sid m); [cbn [app]; f_equal|]; apply IH.
Qed.

Definition include_item_of (d : N * N * tree) : list (item text) :=
  let '(lo, hi, n) := d in
  if sk_eqb (kind_of n) S_Include then
    [IInc (lo, hi) true
       match AstToCore.field (lo, n) "path"%string with
       | [] => None
       | s :: _ => Some (AstToCore.m_string_value s, Pipeline.range_excluding_trivia (fst s) (snd s))
       end]
  else [].

Theorem src_document_link_exec_eq : forall db f,
  src_document_link_exec db f =
  Some (Host.links_of (hdb_rim db f) (Pipeline.include_items (fst (hdb_parse db f)))).
Proof.
  intros db f. unfold src_document_link_exec, hdb_resolved_include_map, hdb_parse_of, hp_syntax_node, rw_descendants,
    rw_descendants_with_tokens, cur_root. cbn [fst snd]. f_equal.
  set (m := hdb_rim db f). set (t := fst (hdb_parse db f)).
  unfold Pipeline.include_items. change (fun d : N * N * tree => _) with include_item_of.
  unfold descendants. change 0 with (forest_len (before_ctx [])). rewrite <- elems_nodes.
  induction (elems_from t []) as [|c r IH]; [reflexivity|]. cbn [filter].
  destruct (is_node (fst c)) eqn:Hn; [|exact IH]. cbn [it_filter_map map flat_map]. rewrite links_of_app, <- IH. clear IH.
  unfold ast_cast, node_info, include_item_of, node_ptr, cur_range, incmap_get, mk_document_link. rewrite Hn. cbn [andb].
  destruct (sk_eqb (kind_of (fst c)) S_Include) eqn:Hk; [|reflexivity].
  pose proof (include_path_field c Hk) as Hp. unfold lnode_of in Hp at 2.
  destruct (ast_field_child c "path"%string) as [p|]; cbn [option_map] in Hp.
  - destruct (AstToCore.field (cur_offset c, fst c) "path"%string) as [|s rest]; [discriminate|]. cbn [hd_error] in Hp.
    injection Hp as <-. cbn [Host.links_of]. unfold lnode_of. cbn [fst snd].
    rewrite link_range_eq, <- src_range_excluding_trivia_eq.
    destruct (im_get (cur_offset c, cur_offset c + tree_len (fst c)) m); reflexivity.
  - destruct (AstToCore.field (cur_offset c, fst c) "path"%string) as [|s rest]; [reflexivity|discriminate].
Qed.

(** ... i.e. group host's [Host.document_link] of every input database whose resolved include map and file content for [f] are
    what the handler's database returns (content = the item abstraction [Pipeline.include_items] of the parsed tree) *)
Corollary links_model_is_source : forall (db : host_db) (hdb : @inputs Pipeline.fpath text) f c,
  rim hdb f = Some (hdb_rim db f) -> fc hdb f = Some c -> c_items c = Pipeline.include_items (fst (hdb_parse db f)) ->
  exists l, src_document_link_exec db f = Some l /\ Host.document_link hdb f = Includes.Done l.
Proof.
  intros db hdb f c Hr Hc Hi. eexists. split; [apply src_document_link_exec_eq|].
  unfold Host.document_link. rewrite Hr, Hc, Hi. reflexivity.
Qed.

(** ================= diagnostics ================= *)
Lemma hfor_pure : forall (R B X St : Type) (g : X -> St -> St) (xs : list X) (st : St),
  @hfor R B X St xs (fun x s => Val (g x s)) st = Val (fold_left (fun s x => g x s) xs st).
Proof. intros R B X St g. induction xs as [|x r IH]; intros st; [reflexivity|]. cbn [hfor fold_left]. apply IH. Qed.

(** everything the handler reports, in the order the code produces it: the parse errors of every workspace file in
    `iter_files` order, then the index diagnostics *)
Definition parse_diags (db : host_db) : list diag :=
  flat_map (fun f => map (fun e : perr => mk_diagnostic (mk_file_range f (pe_range e)) (pe_message e)) (hp_errors (hdb_parse db f)))
           (hdb_files db).
Definition all_diags (db : host_db) : list diag := parse_diags db ++ hdb_index_diags db.
Definition diag_file (d : diag) : fileid := fr_file (fst d).

Definition diag_map (db : host_db) : dmap :=
  fold_left (fun m d => hm_push m (diag_file d) d) (all_diags db)
            (fold_left (fun m f => hm_insert m f []) (hdb_files db) []).

Lemma fold_extend : forall (X : Type) (g : X -> list diag) (xs : list X) (acc : list diag),
  fold_left (fun s x => s ++ g x) xs acc = acc ++ flat_map g xs.
Proof. intros X g. induction xs as [|x r IH]; intros acc; cbn [fold_left flat_map]; [now rewrite app_nil_r|]. now rewrite IH, app_assoc. Qed.

Theorem src_diagnostics_exec_eq : forall db, src_diagnostics_exec db = Done (diag_map db).
Proof.
  intros db. unfold src_diagnostics_exec, hdb_source_root, hdb_index.
  rewrite (hfor_pure _ _ _ _ (fun v_file_id v_diagnostic_list =>
             v_diagnostic_list ++ map (fun v_err => mk_diagnostic (mk_file_range v_file_id (pe_range v_err)) (pe_message v_err))
                                      (hp_errors (hdb_parse_of db v_file_id)))).
  cbn [hbind]. rewrite (hfor_pure _ _ _ _ (fun v_file_id v_diagnostic_map => hm_insert v_diagnostic_map v_file_id [])).
  cbn [hbind]. rewrite (hfor_pure _ _ _ _ (fun v_diagnostic v_diagnostic_map =>
                          hm_push v_diagnostic_map (fr_file (dg_location v_diagnostic)) v_diagnostic)).
  cbn [hbind hrun]. f_equal. unfold diag_map, all_diags, parse_diags, hdb_parse_of.
  rewrite (fold_extend _ (fun f => map (fun e : perr => mk_diagnostic (mk_file_range f (pe_range e)) (pe_message e))
                                       (hp_errors (hdb_parse db f)))). reflexivity.
Qed.

(** what the map holds, per key *)
Lemma hm_get_insert : forall m k v f, hm_get (hm_insert m k v) f = if k =? f then Some v else hm_get m f.
Proof.
  induction m as [|[k' v'] r IH]; intros k v f; cbn [hm_insert hm_get]; [reflexivity|].
  destruct (k' =? k) eqn:E; cbn [hm_get].
  - apply N.eqb_eq in E. subst k'. destruct (k =? f); reflexivity.
  - rewrite IH. destruct (k' =? f) eqn:E2; [|reflexivity]. apply N.eqb_eq in E2. subst k'. rewrite N.eqb_sym in E. now rewrite E.
Qed.

Lemma hm_get_push : forall m k x f,
  hm_get (hm_push m k x) f =
  if k =? f then Some (match hm_get m f with Some l => l ++ [x] | None => [x] end) else hm_get m f.
Proof.
  induction m as [|[k' v'] r IH]; intros k x f; cbn [hm_push hm_get].
  - destruct (k =? f); reflexivity.
  - destruct (k' =? k) eqn:E; cbn [hm_get].
    + apply N.eqb_eq in E. subst k'. destruct (k =? f); reflexivity.
    + rewrite IH. destruct (k' =? f) eqn:E2; [|reflexivity]. apply N.eqb_eq in E2. subst k'. rewrite N.eqb_sym in E. now rewrite E.
Qed.

Lemma hm_get_inserts : forall fs m f,
  hm_get (fold_left (fun m f => hm_insert m f []) fs m) f = if existsb (fun g => g =? f) fs then Some [] else hm_get m f.
Proof.
  induction fs as [|g r IH]; intros m f; cbn [fold_left existsb]; [reflexivity|]. rewrite IH, hm_get_insert.
  destruct (existsb (fun g0 => g0 =? f) r); [now rewrite orb_true_r|]. rewrite orb_false_r. reflexivity.
Qed.

Definition of_file (f : fileid) (d : diag) : bool := diag_file d =? f.

Lemma hm_get_pushes : forall ds m f,
  hm_get (fold_left (fun m d => hm_push m (diag_file d) d) ds m) f =
  match hm_get m f with
  | Some l => Some (l ++ filter (of_file f) ds)
  | None => if existsb (of_file f) ds then Some (filter (of_file f) ds) else None
  end.
Proof.
  induction ds as [|d r IH]; intros m f; cbn [fold_left filter existsb].
  - destruct (hm_get m f); [now rewrite app_nil_r|reflexivity].
  - rewrite IH, hm_get_push. change (of_file f d) with (diag_file d =? f).
    destruct (diag_file d =? f); destruct (hm_get m f); cbn [orb]; try reflexivity.
    now rewrite <- app_assoc.
Qed.

Theorem diag_map_get : forall db f,
  hm_get (diag_map db) f =
  if existsb (fun g => g =? f) (hdb_files db) || existsb (of_file f) (all_diags db)
  then Some (filter (of_file f) (all_diags db)) else None.
Proof.
  intros db f. unfold diag_map. rewrite hm_get_pushes, hm_get_inserts. cbn [hm_get].
  destruct (existsb (fun g => g =? f) (hdb_files db)); reflexivity.
Qed.

(** ---- how the two hand models combine ---- *)
(** keys: every workspace file ([Host.workspace] = `SourceRoot::iter_files`) is a key, even without a diagnostic *)
Corollary diagnostics_keys_workspace : forall (db : host_db) (hdb : @inputs Pipeline.fpath text) fset,
  Host.workspace hdb = Some fset -> hdb_files db = map fst fset ->
  forall f, In f (map fst fset) -> exists l, hm_get (diag_map db) f = Some l /\ l = filter (of_file f) (all_diags db).
Proof.
  intros db hdb fset _ Hf f Hin. rewrite diag_map_get, Hf.
  assert (existsb (fun g => g =? f) (map fst fset) = true) as ->
    by (apply existsb_exists; exists f; split; [exact Hin|apply N.eqb_refl]).
  cbn [orb]. eexists. split; reflexivity.
Qed.

(** values: projected to (range, class), the reported list IS [Indexer.diagnostics w] whenever the database's parse errors are the
    workspace's [ws_perrs] (class DSyntax) and its index diagnostics are the indexer's, oldest first *)
Definition rng_of (r : file_range) : CoreAst.rng := CoreAst.mkR (fr_file r) (fr_lo r) (fr_hi r).
Corollary diagnostics_values_indexer : forall (db : host_db) (w : CoreAst.workspace) (cls : text -> Scope.dkind),
  map (fun d : diag => (rng_of (fst d), cls (snd d))) (parse_diags db) = map (fun r => (r, Scope.DSyntax)) (CoreAst.ws_perrs w) ->
  map (fun d : diag => (rng_of (fst d), cls (snd d))) (hdb_index_diags db) = rev (Scope.s_diags (Indexer.index_ws w)) ->
  map (fun d : diag => (rng_of (fst d), cls (snd d))) (all_diags db) = Indexer.diagnostics w.
Proof. intros db w cls H1 H2. unfold all_diags, Indexer.diagnostics. now rewrite map_app, H1, H2. Qed.
