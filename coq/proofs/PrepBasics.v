(** Basic facts about the preprocessor model (Prep.v): every delivered token spans a prefix of
    the remaining raw tokens, progress, behaviour at the end of input, "an Error token always has a
    pending message", and "directive kinds are never delivered".  Also the readable unfoldings of
    [prep_next] (if-chains over [tk_eqb] instead of 110-way matches) that later proofs use. *)
From Coq Require Import List NArith Bool Lia.
From TG.Gen Require Import GenTokens GenLexTables.
From TG.Model Require Import Chars Lexer Prep.
From TG.Proofs Require Import LexBasics.
Import ListNotations.
Open Scope N_scope.

Definition sumlen (l : list rtok) : N := fold_right (fun t a => rlen t + a) 0 l.

Lemma sumlen_app a b : sumlen (a ++ b) = sumlen a + sumlen b.
Proof. induction a as [|t a IH]; cbn [app sumlen fold_right]; [reflexivity|]. fold (sumlen (a ++ b)) (sumlen a). lia. Qed.

Lemma sumlen_cons t a : sumlen (t :: a) = rlen t + sumlen a.
Proof. reflexivity. Qed.

(** * Unfoldings *)

Definition note_err (st : pstate) (t : rtok) : pstate :=
  match rerr t with
  | Some e => {| macros := macros st; perr := perr st; lerr := Some e; openc := openc st |}
  | None => st
  end.

Lemma raw_eat_cons st t r : raw_eat st (t :: r) = (t, note_err st t, r).
Proof. reflexivity. Qed.

Lemma note_err_macros st t : macros (note_err st t) = macros st.
Proof. unfold note_err. destruct (rerr t); reflexivity. Qed.
Lemma note_err_perr st t : perr (note_err st t) = perr st.
Proof. unfold note_err. destruct (rerr t); reflexivity. Qed.
Lemma note_err_openc st t : openc (note_err st t) = openc st.
Proof. unfold note_err. destruct (rerr t); reflexivity. Qed.

Lemma next_not_trivia_cons st t r sk :
  next_not_trivia st (t :: r) sk =
  if is_trivia (rk t) then next_not_trivia (note_err st t) r (sk + rlen t)
  else (t, sk, note_err st t, r).
Proof. reflexivity. Qed.

Lemma eat_until_cons d st t r e :
  eat_until_else_or_endif d st (t :: r) e =
  let st' := note_err st t in
  let e' := e + rlen t in
  if tk_eqb (rk t) T_Ifdef || tk_eqb (rk t) T_Ifndef then eat_until_else_or_endif (d + 1) st' r e'
  else if tk_eqb (rk t) T_Endif then
    (if 2 <=? d then eat_until_else_or_endif (d - 1) st' r e'
     else if d =? 1 then (e', set_openc st' (N.pred (openc st')), r)
     else eat_until_else_or_endif d st' r e')
  else if tk_eqb (rk t) T_Else then
    (if d =? 1 then (e', st', r) else eat_until_else_or_endif d st' r e')
  else eat_until_else_or_endif d st' r e'.
Proof. cbn [eat_until_else_or_endif raw_eat]. fold (note_err st t). destruct (rk t); reflexivity. Qed.

Definition process_if (t : rtok) (st1 : pstate) (r1 : list rtok) (defined_wanted : bool)
  : TokenKind * N * pstate * list rtok :=
  let '(n, skipped, st2, r2) := next_not_trivia st1 r1 0 in
  let len := rlen t + skipped + rlen n in
  if tk_eqb (rk n) T_Id then
    let macro_defined := mem_macro (rtext n) (macros st2) in
    let st3 := set_openc st2 (openc st2 + 1) in
    if Bool.eqb defined_wanted macro_defined then (T_PreProcessor, len, st3, r2)
    else let '(eaten, st4, r3) := eat_until_else_or_endif 1 st3 r2 0 in
         (T_PreProcessor, len + eaten, st4, r3)
  else (T_Error, len, set_perr st2 (if defined_wanted then PEIfdefName else PEIfndefName), r2).

Definition process_else (t : rtok) (st1 : pstate) (r1 : list rtok) : TokenKind * N * pstate * list rtok :=
  let '(eaten, st2, r2) := eat_until_else_or_endif 1 st1 r1 0 in
  (T_PreProcessor, rlen t + eaten, st2, r2).

Definition process_define (t : rtok) (st1 : pstate) (r1 : list rtok) : TokenKind * N * pstate * list rtok :=
  let '(n, skipped, st2, r2) := next_not_trivia st1 r1 0 in
  let len := rlen t + skipped + rlen n in
  if tk_eqb (rk n) T_Id then (T_PreProcessor, len, add_macro st2 (rtext n), r2)
  else (T_Error, len, set_perr st2 PEDefineName, r2).

Definition at_eof (t : rtok) (st1 : pstate) (r1 : list rtok) : TokenKind * N * pstate * list rtok :=
  if 0 <? openc st1 then (T_Error, rlen t, set_perr (set_openc st1 0) PEUnterminated, r1)
  else (T_Eof, rlen t, st1, r1).

Lemma prep_next_eq st raw :
  prep_next st raw =
  let '(t, st1, r1) := raw_eat st raw in
  if tk_eqb (rk t) T_Ifdef then process_if t st1 r1 true
  else if tk_eqb (rk t) T_Ifndef then process_if t st1 r1 false
  else if tk_eqb (rk t) T_Else then process_else t st1 r1
  else if tk_eqb (rk t) T_Endif then (T_PreProcessor, rlen t, set_openc st1 (N.pred (openc st1)), r1)
  else if tk_eqb (rk t) T_Define then process_define t st1 r1
  else if tk_eqb (rk t) T_Eof then at_eof t st1 r1
  else (rk t, rlen t, st1, r1).
Proof.
  unfold prep_next. destruct (raw_eat st raw) as [[t st1] r1].
  destruct (rk t) eqn:K; try reflexivity.
  - (* Ifdef *) cbv beta iota zeta delta [tk_eqb tk_index N.eqb Pos.eqb]. unfold process_if.
    destruct (next_not_trivia st1 r1 0) as [[[n sk] st2] r2]. destruct (rk n); reflexivity.
  - (* Ifndef *) cbv beta iota zeta delta [tk_eqb tk_index N.eqb Pos.eqb]. unfold process_if.
    destruct (next_not_trivia st1 r1 0) as [[[n sk] st2] r2]. destruct (rk n); reflexivity.
  - (* Define *) cbv beta iota zeta delta [tk_eqb tk_index N.eqb Pos.eqb]. unfold process_define.
    destruct (next_not_trivia st1 r1 0) as [[[n sk] st2] r2]. destruct (rk n); reflexivity.
Qed.

(** * Spans *)

Lemma next_not_trivia_span raw : forall st sk n sk' st' r',
  next_not_trivia st raw sk = (n, sk', st', r') ->
  exists pre, raw = pre ++ r' /\ sk' + rlen n = sk + sumlen pre
              /\ macros st' = macros st /\ perr st' = perr st /\ openc st' = openc st.
Proof.
  induction raw as [|t r IH]; intros st sk n sk' st' r' H.
  - cbn in H. inversion H; subst. exists []. cbn. repeat split; lia.
  - rewrite next_not_trivia_cons in H. destruct (is_trivia (rk t)).
    + apply IH in H. destruct H as (pre & H1 & H2 & H3 & H4 & H5).
      exists (t :: pre). rewrite sumlen_cons, note_err_macros, note_err_perr, note_err_openc in *.
      repeat split; try assumption; [cbn; congruence|lia].
    + inversion H; subst. exists [n]. rewrite note_err_macros, note_err_perr, note_err_openc.
      cbn. repeat split; lia.
Qed.

Lemma eat_until_span raw : forall d st e e' st' r',
  eat_until_else_or_endif d st raw e = (e', st', r') ->
  exists pre, raw = pre ++ r' /\ e' = e + sumlen pre
              /\ macros st' = macros st /\ perr st' = perr st.
Proof.
  induction raw as [|t r IH]; intros d st e e' st' r' H.
  - cbn in H. inversion H; subst. exists []. cbn. repeat split; lia.
  - rewrite eat_until_cons in H. cbv zeta in H.
    assert (REC : forall d', eat_until_else_or_endif d' (note_err st t) r (e + rlen t) = (e', st', r') ->
              exists pre, t :: r = pre ++ r' /\ e' = e + sumlen pre
                          /\ macros st' = macros st /\ perr st' = perr st).
    { intros d' H'. apply IH in H'. destruct H' as (pre & H1 & H2 & H3 & H4).
      exists (t :: pre). rewrite sumlen_cons, note_err_macros, note_err_perr in *.
      repeat split; try assumption; [cbn; congruence|lia]. }
    assert (STOP : forall st'', (e + rlen t, st'', r) = (e', st', r') ->
              macros st'' = macros st -> perr st'' = perr st ->
              exists pre, t :: r = pre ++ r' /\ e' = e + sumlen pre
                          /\ macros st' = macros st /\ perr st' = perr st).
    { intros st'' H' M P. inversion H'; subst. exists [t]. cbn. repeat split; try assumption; lia. }
    destruct (tk_eqb (rk t) T_Ifdef || tk_eqb (rk t) T_Ifndef); [eapply REC; exact H|].
    destruct (tk_eqb (rk t) T_Endif).
    { destruct (2 <=? d); [eapply REC; exact H|].
      destruct (d =? 1); [|eapply REC; exact H].
      eapply STOP; [exact H| |]; cbn; [apply note_err_macros|apply note_err_perr]. }
    destruct (tk_eqb (rk t) T_Else).
    { destruct (d =? 1); [|eapply REC; exact H].
      eapply STOP; [exact H|apply note_err_macros|apply note_err_perr]. }
    eapply REC; exact H.
Qed.

Lemma prep_next_span_sumlen : forall st raw k len st' raw',
  prep_next st raw = (k, len, st', raw') ->
  exists pre, raw = pre ++ raw' /\ len = sumlen pre.
Proof.
  intros st raw k len st' raw' H. rewrite prep_next_eq in H.
  destruct raw as [|t r].
  - cbn in H. unfold at_eof in H. destruct (0 <? openc st); inversion H; subst; exists []; split; reflexivity.
  - rewrite raw_eat_cons in H.
    assert (ONE : forall k0 st0, (k0, rlen t, st0, r) = (k, len, st', raw') ->
              exists pre, t :: r = pre ++ raw' /\ len = sumlen pre).
    { intros k0 st0 H'. inversion H'; subst. exists [t]. cbn. split; [reflexivity|lia]. }
    assert (PIF : forall w, process_if t (note_err st t) r w = (k, len, st', raw') ->
              exists pre, t :: r = pre ++ raw' /\ len = sumlen pre).
    { intros w H'. unfold process_if in H'.
      destruct (next_not_trivia (note_err st t) r 0) as [[[n sk] st2] r2] eqn:EN.
      apply next_not_trivia_span in EN. destruct EN as (pre & E1 & E2 & _).
      cbv zeta in H'. destruct (tk_eqb (rk n) T_Id).
      - destruct (Bool.eqb w _).
        + inversion H'; subst. exists (t :: pre). rewrite sumlen_cons. split; [reflexivity|lia].
        + destruct (eat_until_else_or_endif 1 _ r2 0) as [[eaten st4] r3] eqn:EE.
          apply eat_until_span in EE. destruct EE as (pre2 & F1 & F2 & _).
          inversion H'; subst. exists (t :: pre ++ pre2). rewrite sumlen_cons, sumlen_app.
          split; [cbn; rewrite <- app_assoc; reflexivity|lia].
      - inversion H'; subst. exists (t :: pre). rewrite sumlen_cons. split; [reflexivity|lia]. }
    destruct (tk_eqb (rk t) T_Ifdef); [eapply PIF; exact H|].
    destruct (tk_eqb (rk t) T_Ifndef); [eapply PIF; exact H|].
    destruct (tk_eqb (rk t) T_Else).
    { unfold process_else in H.
      destruct (eat_until_else_or_endif 1 _ r 0) as [[eaten st2] r2] eqn:EE.
      apply eat_until_span in EE. destruct EE as (pre2 & F1 & F2 & _).
      inversion H; subst. exists (t :: pre2). rewrite sumlen_cons. split; [reflexivity|lia]. }
    destruct (tk_eqb (rk t) T_Endif); [eapply ONE; exact H|].
    destruct (tk_eqb (rk t) T_Define).
    { unfold process_define in H.
      destruct (next_not_trivia (note_err st t) r 0) as [[[n sk] st2] r2] eqn:EN.
      apply next_not_trivia_span in EN. destruct EN as (pre & E1 & E2 & _).
      cbv zeta in H. destruct (tk_eqb (rk n) T_Id); inversion H; subst;
        exists (t :: pre); rewrite sumlen_cons; (split; [reflexivity|lia]). }
    destruct (tk_eqb (rk t) T_Eof).
    { unfold at_eof in H. destruct (0 <? _); eapply ONE; exact H. }
    eapply ONE; exact H.
Qed.

(** * The requested basic lemmas *)

Lemma prep_next_span : forall st raw k len st' raw',
  prep_next st raw = (k, len, st', raw') ->
  exists pre, raw = pre ++ raw' /\ len = fold_right (fun t a => rlen t + a) 0%N pre.
Proof. exact prep_next_span_sumlen. Qed.

Lemma prep_next_progress : forall st raw k len st' raw',
  prep_next st raw = (k, len, st', raw') -> raw <> [] -> (List.length raw' < List.length raw)%nat.
Proof.
  intros st raw k len st' raw' H NE.
  destruct raw as [|t r]; [contradiction|].
  (* the first raw token is always consumed: split off the suffix after it *)
  assert (S : exists pre, r = pre ++ raw').
  { rewrite prep_next_eq, raw_eat_cons in H.
    assert (PIF : forall w, process_if t (note_err st t) r w = (k, len, st', raw') -> exists pre, r = pre ++ raw').
    { intros w H'. unfold process_if in H'.
      destruct (next_not_trivia (note_err st t) r 0) as [[[n sk] st2] r2] eqn:EN.
      apply next_not_trivia_span in EN. destruct EN as (pre & E1 & _).
      cbv zeta in H'. destruct (tk_eqb (rk n) T_Id).
      - destruct (Bool.eqb w _).
        + inversion H'; subst. exists pre. reflexivity.
        + destruct (eat_until_else_or_endif 1 _ r2 0) as [[eaten st4] r3] eqn:EE.
          apply eat_until_span in EE. destruct EE as (pre2 & F1 & _).
          inversion H'; subst. exists (pre ++ pre2). rewrite <- app_assoc. reflexivity.
      - inversion H'; subst. exists pre. reflexivity. }
    assert (ONE : forall k0 st0, (k0, rlen t, st0, r) = (k, len, st', raw') -> exists pre, r = pre ++ raw').
    { intros k0 st0 H'. inversion H'; subst. exists []. reflexivity. }
    destruct (tk_eqb (rk t) T_Ifdef); [eapply PIF; exact H|].
    destruct (tk_eqb (rk t) T_Ifndef); [eapply PIF; exact H|].
    destruct (tk_eqb (rk t) T_Else).
    { unfold process_else in H.
      destruct (eat_until_else_or_endif 1 _ r 0) as [[eaten st2] r2] eqn:EE.
      apply eat_until_span in EE. destruct EE as (pre2 & F1 & _).
      inversion H; subst. exists pre2. reflexivity. }
    destruct (tk_eqb (rk t) T_Endif); [eapply ONE; exact H|].
    destruct (tk_eqb (rk t) T_Define).
    { unfold process_define in H.
      destruct (next_not_trivia (note_err st t) r 0) as [[[n sk] st2] r2] eqn:EN.
      apply next_not_trivia_span in EN. destruct EN as (pre & E1 & _).
      cbv zeta in H. destruct (tk_eqb (rk n) T_Id); inversion H; subst; exists pre; reflexivity. }
    destruct (tk_eqb (rk t) T_Eof).
    { unfold at_eof in H. destruct (0 <? _); eapply ONE; exact H. }
    eapply ONE; exact H. }
  destruct S as [pre ->]. cbn [List.length]. rewrite app_length. lia.
Qed.

Lemma prep_next_nil : forall st,
  prep_next st [] = (if (0 <? openc st)%N then (T_Error, 0%N, set_perr (set_openc st 0%N) PEUnterminated, [])
                     else (T_Eof, 0%N, st, [])).
Proof. intros st. reflexivity. Qed.

Lemma take_error_set_perr st e : fst (take_error (set_perr st e)) = Some (ErrPrep e).
Proof. reflexivity. Qed.

Lemma prep_next_error_msg : forall st raw k len st' raw',
  Forall (fun t => rk t = T_Error <-> rerr t <> None) raw ->
  prep_next st raw = (k, len, st', raw') -> k = T_Error -> fst (take_error st') <> None.
Proof.
  intros st raw k len st' raw' F H K. subst k. rewrite prep_next_eq in H.
  destruct raw as [|t r].
  - cbn in H. unfold at_eof in H. destruct (0 <? openc st); inversion H; subst.
    rewrite take_error_set_perr. discriminate.
  - rewrite raw_eat_cons in H. inversion F as [|t0 r0 Ft Fr]; subst.
    assert (PIF : forall w, process_if t (note_err st t) r w = (T_Error, len, st', raw') ->
                            fst (take_error st') <> None).
    { intros w H'. unfold process_if in H'.
      destruct (next_not_trivia (note_err st t) r 0) as [[[n sk] st2] r2].
      cbv zeta in H'. destruct (tk_eqb (rk n) T_Id).
      - destruct (Bool.eqb w _); [discriminate|].
        destruct (eat_until_else_or_endif 1 _ r2 0) as [[eaten st4] r3]. discriminate.
      - inversion H'; subst. rewrite take_error_set_perr. discriminate. }
    destruct (tk_eqb (rk t) T_Ifdef); [eapply PIF; exact H|].
    destruct (tk_eqb (rk t) T_Ifndef); [eapply PIF; exact H|].
    destruct (tk_eqb (rk t) T_Else).
    { unfold process_else in H. destruct (eat_until_else_or_endif 1 _ r 0) as [[eaten st2] r2]. discriminate. }
    destruct (tk_eqb (rk t) T_Endif); [discriminate|].
    destruct (tk_eqb (rk t) T_Define).
    { unfold process_define in H.
      destruct (next_not_trivia (note_err st t) r 0) as [[[n sk] st2] r2].
      cbv zeta in H. destruct (tk_eqb (rk n) T_Id); [discriminate|].
      inversion H; subst. rewrite take_error_set_perr. discriminate. }
    destruct (tk_eqb (rk t) T_Eof).
    { unfold at_eof in H. destruct (0 <? _); [|discriminate].
      inversion H; subst. rewrite take_error_set_perr. discriminate. }
    inversion H as [[K L S R]]. apply Ft in K.
    unfold note_err. destruct (rerr t) as [e|]; [|contradiction].
    unfold take_error. cbn. destruct (perr st); cbn; discriminate.
Qed.

Definition is_directive (k : TokenKind) : bool :=
  tk_eqb k T_Ifdef || tk_eqb k T_Ifndef || tk_eqb k T_Else || tk_eqb k T_Endif || tk_eqb k T_Define.

Lemma prep_next_not_directive_b : forall st raw k len st' raw',
  prep_next st raw = (k, len, st', raw') -> is_directive k = false.
Proof.
  intros st raw k len st' raw' H. rewrite prep_next_eq in H.
  destruct (raw_eat st raw) as [[t st1] r1].
  assert (PIF : forall w, process_if t st1 r1 w = (k, len, st', raw') -> is_directive k = false).
  { intros w H'. unfold process_if in H'.
    destruct (next_not_trivia st1 r1 0) as [[[n sk] st2] r2].
    cbv zeta in H'. destruct (tk_eqb (rk n) T_Id).
    - destruct (Bool.eqb w _); [inversion H'; reflexivity|].
      destruct (eat_until_else_or_endif 1 _ r2 0) as [[eaten st4] r3]. inversion H'; reflexivity.
    - inversion H'; reflexivity. }
  destruct (tk_eqb (rk t) T_Ifdef) eqn:K1; [eapply PIF; exact H|].
  destruct (tk_eqb (rk t) T_Ifndef) eqn:K2; [eapply PIF; exact H|].
  destruct (tk_eqb (rk t) T_Else) eqn:K3.
  { unfold process_else in H. destruct (eat_until_else_or_endif 1 _ r1 0) as [[eaten st2] r2].
    inversion H; reflexivity. }
  destruct (tk_eqb (rk t) T_Endif) eqn:K4; [inversion H; reflexivity|].
  destruct (tk_eqb (rk t) T_Define) eqn:K5.
  { unfold process_define in H.
    destruct (next_not_trivia st1 r1 0) as [[[n sk] st2] r2].
    cbv zeta in H. destruct (tk_eqb (rk n) T_Id); inversion H; reflexivity. }
  destruct (tk_eqb (rk t) T_Eof).
  { unfold at_eof in H. destruct (0 <? _); inversion H; reflexivity. }
  inversion H; subst. unfold is_directive. rewrite K1, K2, K3, K4, K5. reflexivity.
Qed.

Lemma prep_next_not_directive : forall st raw k len st' raw',
  prep_next st raw = (k, len, st', raw') ->
  k <> T_Ifdef /\ k <> T_Ifndef /\ k <> T_Else /\ k <> T_Endif /\ k <> T_Define.
Proof.
  intros st raw k len st' raw' H. apply prep_next_not_directive_b in H.
  repeat split; intros ->; cbv in H; discriminate.
Qed.
