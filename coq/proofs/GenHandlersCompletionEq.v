(** The rendering of the BODY of handlers/completion.rs `exec` (coq/gen/GenHandlersCompletion.v) equals group grammar's
    Completion.completion_model -- whose dispatch is the arm TABLE t_completion.py reads from the same function -- for ALL
    trees, offsets, trigger characters and symbol-map states.  The vocabulary methods are tables in both. *)
From Coq Require Import List NArith Bool Lia.
From TG.Gen Require Import GenTokens GenCompletion GenAst GenHandlersCompletion.
From TG.Model Require Import Chars Tree TreeNav SymbolMap HandlerApi HandlerSymApi Completion HandlerCompApi.
Import ListNotations.
Open Scope N_scope.

Lemma tok_anc : forall fuel off base t ctx,
  anc_at fuel off base t (map fr_kind ctx) = option_map (fun c : cursor => map fr_kind (snd c)) (tok_at fuel off base t ctx).
Proof.
  induction fuel as [|n IH]; intros off base t ctx; [reflexivity|].
  destruct t as [k cs|k txt]; cbn [anc_at tok_at].
  - assert (forall l b lr,
      (fix go (b : N) (l : list tree) {struct l} : option (list SyntaxKind) :=
         match l with
         | [] => None
         | c :: r => let len := tree_len c in
                     if negb (len =? 0) && (b <=? off) && (off <=? b + len) then anc_at n off b c (k :: map fr_kind ctx)
                     else go (b + len) r
         end) b l =
      option_map (fun c : cursor => map fr_kind (snd c))
        ((fix go (b : N) (left_rev l : list tree) {struct l} : option cursor :=
            match l with
            | [] => None
            | c :: r => let len := tree_len c in
                        if negb (len =? 0) && (b <=? off) && (off <=? b + len)
                        then tok_at n off b c ({| fr_kind := k; fr_left := left_rev; fr_right := r |} :: ctx)
                        else go (b + len) (c :: left_rev) r
            end) b lr l)) as Hgo.
    { induction l as [|c r IHl]; intros b lr; [reflexivity|]. cbv zeta.
      destruct (negb (tree_len c =? 0) && (b <=? off) && (off <=? b + tree_len c)).
      - apply (IH off b c ({| fr_kind := k; fr_left := lr; fr_right := r |} :: ctx)).
      - apply IHl. }
    apply Hgo.
  - destruct (negb (bytes txt =? 0) && (base <=? off) && (off <=? base + bytes txt)); reflexivity.
Qed.

Lemma dispatch_chain : forall gp (X : list comp_item) cl,
  (if sk_eqb gp S_StatementList then X ++ toplevel_keyword_items
   else if sk_eqb gp S_InnerValue then X ++ primitive_value_items
   else if sk_eqb gp S_ClassRef then X ++ complete_classes cl
   else if ast_type_can_cast gp then X ++ primitive_type_items
   else X) =
  X ++ match dispatch gp with Some a => action_items cl a | None => [] end.
Proof. intros gp X cl. destruct gp; vm_compute dispatch; cbn; rewrite ?app_nil_r; reflexivity. Qed.

Theorem src_completion_exec_eq : forall M trees pos trig,
  src_completion_exec (mkIdb M trees) pos trig =
  Done (completion_model (cm_classes M) (trees (fst pos)) (snd pos) trig).
Proof.
  intros M trees pos trig. unfold src_completion_exec, completion_model, ancestors_at, idb_parse, db_index, index_symbol_map,
    rw_syntax_node, cur_root, rw_token_at_offset_left, fp_file, fp_position. cbn [idb_sm idb_trees fst snd].
  change (@nil SyntaxKind) with (map fr_kind []). rewrite tok_anc.
  destruct (tok_at _ _ _ _ _) as [[t ctx]|]; [|reflexivity]. cbn [option_map htry hbind snd].
  unfold rw_parent, parent. cbn [snd fst].
  destruct ctx as [|f1 rest]; [reflexivity|]. cbn [map htry hbind snd fst].
  destruct rest as [|f2 rest']; [reflexivity|]. cbn [map htry hbind snd fst]. unfold rw_kind, plug. cbn [fst kind_of].
  unfold context_items.
  assert ((if opt_text_eqb trig (Some [33]) then [] ++ bang_operator_items else []) =
          match trig with Some t0 => if list_eqb t0 bang_trigger then bang_operator_items else [] | None => [] end) as Htr
    by (destruct trig; reflexivity).
  destruct (opt_text_eqb trig (Some [33])) eqn:E; cbn [hbind]; rewrite <- Htr;
    match goal with |- context [if sk_eqb ?k S_StatementList then _ else _] => idtac end.
  - rewrite <- (dispatch_chain (fr_kind f2) ([] ++ bang_operator_items) (cm_classes M)).
    destruct (sk_eqb (fr_kind f2) S_StatementList); [reflexivity|].
    destruct (sk_eqb (fr_kind f2) S_InnerValue); [reflexivity|].
    destruct (sk_eqb (fr_kind f2) S_ClassRef); [reflexivity|].
    destruct (ast_type_can_cast (fr_kind f2)); reflexivity.
  - rewrite <- (dispatch_chain (fr_kind f2) [] (cm_classes M)).
    destruct (sk_eqb (fr_kind f2) S_StatementList); [reflexivity|].
    destruct (sk_eqb (fr_kind f2) S_InnerValue); [reflexivity|].
    destruct (sk_eqb (fr_kind f2) S_ClassRef); [reflexivity|].
    destruct (ast_type_can_cast (fr_kind f2)); reflexivity.
Qed.
