(** [Pipeline.analyze] = [PipelineHost.analyze_from_state] of the state after the first touch of a fresh
    host: in that state ascending FileId order is walk order (HostAscending) and the root's path is the
    one recorded for it in the source root. *)
From Coq Require Import List NArith Bool Lia Arith.
From TG.Model Require Import Chars Includes Host Pipeline PipelineHost.
From TG.Proofs Require Import IncludesGraph IncludesRefine HostIndex HostHistory HostTheorems HostAscending.
Import ListNotations.
Local Open Scope nat_scope.

(** ** fpath: PathBuf compared by components *)
Lemma list_eqb_ok : forall a b : list N, list_eqb a b = true <-> a = b.
Proof.
  induction a as [|x a IH]; destruct b as [|y b]; cbn [list_eqb]; split; intro H;
    try reflexivity; try discriminate.
  - apply andb_true_iff in H. destruct H as [H1 H2]. apply N.eqb_eq in H1. apply IH in H2. congruence.
  - injection H as -> ->. apply andb_true_iff. split; [apply N.eqb_refl|apply IH; reflexivity].
Qed.

Lemma fpath_eqb_ok : forall a b : fpath, fpath_eqb a b = true <-> a = b.
Proof.
  induction a as [|x a IH]; destruct b as [|y b]; cbn [fpath_eqb]; split; intro H;
    try reflexivity; try discriminate.
  - apply andb_true_iff in H. destruct H as [H1 H2]. apply list_eqb_ok in H1. apply IH in H2. congruence.
  - injection H as -> ->. apply andb_true_iff. split; [apply list_eqb_ok; reflexivity|apply IH; reflexivity].
Qed.

Global Instance FPathOk : @PathAlgOk fpath text FPathAlg.
Proof. constructor. intros a b. change (@path_eqb fpath text FPathAlg a b) with (fpath_eqb a b). apply fpath_eqb_ok. Qed.

(** ** sorting an id list that is already in walk = ascending order *)
Lemma insert_sorted_last : forall (l : list N) x, (forall y, In y l -> (y < x)%N) -> insert_sorted x l = l ++ [x].
Proof.
  induction l as [|g r IH]; intros x H; [reflexivity|]. cbn [insert_sorted].
  assert (Hg : (g < x)%N) by (apply H; left; reflexivity).
  destruct (x <=? g)%N eqn:E; [apply N.leb_le in E; lia|]. cbn [app]. f_equal.
  apply IH. intros y Hy. apply H. right. exact Hy.
Qed.

Lemma sort_ids_upto : forall k, sort_ids (rev (upto k)) = upto k.
Proof.
  induction k as [|k IH]; [reflexivity|].
  unfold upto in *. rewrite seq_S, map_app, rev_app_distr. cbn [map rev app].
  unfold sort_ids in *. cbn [fold_right]. rewrite IH. apply insert_sorted_last.
  intros y Hy. apply in_map_iff in Hy. destruct Hy as [n [<- Hn]]. apply in_seq in Hn. lia.
Qed.

Lemma sort_walk_order : forall (l : list N) k, rev l = upto k -> sort_ids l = rev l.
Proof. intros l k H. rewrite <- (rev_involutive l), H, sort_ids_upto, rev_involutive. reflexivity. Qed.

(** ** analyze from the fresh state *)
Lemma path_in_fset_found : forall (fset : list (N * fpath)) f p,
  NoDup (map fst fset) -> In (f, p) fset -> path_in_fset f fset = p.
Proof.
  unfold path_in_fset. induction fset as [|[g q] r IH]; intros f p ND Hi; [contradiction|].
  cbn [find fst]. cbn [map fst] in ND. inversion ND as [|? ? Hn ND']; subst.
  destruct Hi as [Hi|Hi].
  - injection Hi as -> ->. rewrite N.eqb_refl. reflexivity.
  - destruct (g =? f)%N eqn:E.
    + apply N.eqb_eq in E. subst g. exfalso. apply Hn. change f with (fst (f, p)). apply in_map. exact Hi.
    + apply IH; assumption.
Qed.

Theorem analyze_is_from_state : forall pfuel cfuel files root,
  analyze pfuel cfuel files root =
  let dfs := disk_files_of pfuel files in
  let rootp := components root in
  let rc := match assoc rootp dfs with
            | Some c => c
            | None => {| c_tag := N.of_nat (List.length files); c_items := [] |}
            end in
  match touch cfuel (world_of dfs) st_init rootp rc with
  | Done st => analyze_from_state pfuel files st
  | _ => None
  end.
Proof.
  intros pfuel cfuel files root. unfold analyze. cbv zeta.
  change (map (fun pt => parse_file pfuel (components (fst pt)) (snd pt)) files) with (parsed_of pfuel files).
  change (map (fun tp => (pf_path (snd tp), content_of (fst tp) (snd tp))) (number_from 0 (parsed_of pfuel files)))
    with (disk_files_of pfuel files).
  change {| disk := fun p => assoc p (disk_files_of pfuel files); extra := [] |} with (world_of (disk_files_of pfuel files)).
  set (dfs := disk_files_of pfuel files). set (rootp := components root).
  set (rc := match assoc rootp dfs with Some c => c | None => _ end).
  destruct (touch cfuel (world_of dfs) st_init rootp rc) as [[fs2 db2]| |e] eqn:Et; try reflexivity.
  unfold analyze_from_state. destruct (sroot db2) as [[fset root']|] eqn:S; [|reflexivity].
  destruct (touch_fresh_ascending (world_of dfs) cfuel rootp rc fs2 db2 fset root' Et S) as [k Hk].
  rewrite (sort_walk_order _ k Hk).
  destruct (touch_reach (world_of dfs) cfuel st_init rootp rc (fs2, db2) (hinv_init _) Et)
    as [fset' [r' [S' [R [ND [NDi [Hp Hreach]]]]]]].
  cbn [snd fst] in S', R, Hp. rewrite S in S'. injection S' as <- <-.
  assert (Hin : In (root', rootp) fset).
  { assert (Hq : In rootp (map snd fset)) by (apply Hreach; constructor).
    apply in_map_iff in Hq. destruct Hq as [[g q] [Eq Hi]]. cbn [snd] in Eq. subst q.
    pose proof (Hp g rootp Hi) as Hg.
    assert (W : wf_fs fs2).
    { destruct (touch_done (world_of dfs) cfuel st_init rootp rc (fs2, db2) (hinv_init _) Et)
        as [V [_ [a [b [_ [_ [_ [[W _] _]]]]]]]]. exact W. }
    assert (g = root') by exact (pof_inj fs2 g root' rootp W Hg R). subst g. exact Hi. }
  rewrite (path_in_fset_found fset root' rootp NDi Hin). reflexivity.
Qed.
