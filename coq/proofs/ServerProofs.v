(** Properties C11 and C09 over model/ServerProto.v.
    C11: [versions_sorted] (the sequential publication stream is sorted by version), [converges_seq] (after any
    history the last publication of every file of the final workspace is its current diagnostics with the last
    version, and the last publication of every other file is empty), [stream_prefix]/[stream_final] (every
    execution of the concurrent server emits a prefix of the sequential stream, the whole stream at
    quiescence), and their combination [c11_monotone], [c11_converges]; [old_stale]: before fix 3457fbf a
    file that left the workspace kept its last non-empty publication.
    C09: each handler's conversion equals the specification mapper [pos_of] applied with the text of the file
    the ide-level result names ([c09_*]); [c09_old_refuted]: before fix 5c4888d definition used the requesting
    file's line table. *)
From Coq Require Import List Bool Arith NArith Lia Sorted.
From TG.Model Require Import Chars LineIndex Sched ServerProto.
From TG.Proofs Require Import SchedProofs LineIndexProofs LineIndexSpec LineIndexImpl.
Import ListNotations.
Open Scope nat_scope.

(* ------------------------------------------------------------------------------------------ *)
(** * C11, sequential protocol *)

Section Proto.
Context {D : Type}.
Notation pub := (pub D).
Notation dmap := (dmap D).

Implicit Types (f : file) (m : dmap) (l : list pub).

Lemma memb_In f (l : list file) : memb f l = true <-> In f l.
Proof.
  unfold memb. rewrite existsb_exists. split.
  - intros (x & Hx & E). apply Nat.eqb_eq in E. subst. exact Hx.
  - intros H. exists f. split; [exact H|apply Nat.eqb_refl].
Qed.

Lemma find_app {A : Type} (g : A -> bool) (a b : list A) :
  find g (a ++ b) = match find g a with Some x => Some x | None => find g b end.
Proof. induction a as [|x r IH]; cbn; auto. destruct (g x); auto. Qed.

Lemma last_pub_app f l1 l2 :
  last_pub f (l1 ++ l2) = match last_pub f l2 with Some p => Some p | None => last_pub f l1 end.
Proof. unfold last_pub. rewrite rev_app_distr. apply find_app. Qed.

Lemma last_pub_in f l p : last_pub f l = Some p -> In p l /\ pfile p = f.
Proof.
  unfold last_pub. intros H. apply find_some in H. destruct H as [H1 H2].
  split; [apply in_rev; exact H1|apply Nat.eqb_eq; exact H2].
Qed.

Lemma last_pub_none f l : (forall p, In p l -> pfile p <> f) -> last_pub f l = None.
Proof.
  intros H. destruct (last_pub f l) as [p|] eqn:E; auto.
  destruct (last_pub_in _ _ _ E) as [H1 H2]. exfalso. exact (H p H1 H2).
Qed.

Lemma last_pub_some f l p : In p l -> pfile p = f -> exists q, last_pub f l = Some q.
Proof.
  intros H1 H2. destruct (last_pub f l) as [q|] eqn:E; [eauto|].
  unfold last_pub in E. pose proof (find_none _ _ E p) as Hn. rewrite <- in_rev in Hn.
  specialize (Hn H1). rewrite H2, Nat.eqb_refl in Hn. discriminate.
Qed.

Lemma task_pubs_ver pubd m v p : In p (task_pubs pubd m v) -> pver p = v.
Proof.
  unfold task_pubs. intros H. apply in_app_or in H. destruct H as [H|H]; apply in_map_iff in H;
    destruct H as (x & <- & _); reflexivity.
Qed.

Lemma last_pub_entries f (d : list D) v m : NoDup (keys m) -> In (f, d) m ->
  last_pub f (map (fun e => mkPub (fst e) (snd e) v) m) = Some (mkPub f d v).
Proof.
  induction m as [|x r IH]; intros Hn Hin; [contradiction|].
  cbn [keys map] in Hn. inversion Hn as [|? ? Hx Hr]; subst.
  change (map (fun e => mkPub (fst e) (snd e) v) (x :: r))
    with ([mkPub (fst x) (snd x) v] ++ map (fun e => mkPub (fst e) (snd e) v) r).
  rewrite last_pub_app. destruct Hin as [->|Hin].
  - rewrite last_pub_none.
    + unfold last_pub. cbn. rewrite Nat.eqb_refl. reflexivity.
    + intros p Hp E. apply in_map_iff in Hp. destruct Hp as (y & <- & Hy). cbn in E.
      apply Hx. cbn. rewrite <- E. apply in_map. exact Hy.
  - fold (keys r) in Hr. rewrite (IH Hr Hin). reflexivity.
Qed.

Lemma left_files_spec pubd m f : In f (left_files pubd m) <-> In f pubd /\ ~ In f (keys m).
Proof.
  unfold left_files. rewrite filter_In. split; intros [H1 H2]; split; auto.
  - intros Hk. apply memb_In in Hk. rewrite Hk in H2. discriminate.
  - destruct (memb f (keys m)) eqn:E; auto. apply memb_In in E. contradiction.
Qed.

(** (a) a file of the workspace: its entry, with the version of the task *)
Lemma task_last_in pubd m v f (d : list D) : NoDup (keys m) -> In (f, d) m ->
  last_pub f (task_pubs pubd m v) = Some (mkPub f d v).
Proof.
  intros Hn Hin. unfold task_pubs. rewrite last_pub_app, last_pub_none.
  - apply last_pub_entries; assumption.
  - intros p Hp E. apply in_map_iff in Hp. destruct Hp as (g & <- & Hg). cbn in E. subst g.
    apply left_files_spec in Hg. destruct Hg as [_ Hg]. apply Hg. apply (in_map fst) in Hin. exact Hin.
Qed.

(** (b) a file that was published before and left: an empty list *)
Lemma task_last_left pubd m v f : ~ In f (keys m) -> In f pubd ->
  exists p, last_pub f (task_pubs pubd m v) = Some p /\ pdiags p = [].
Proof.
  intros Hk Hp. unfold task_pubs. rewrite last_pub_app.
  assert (Hin : In (mkPub f (@nil D) v) (map (fun g => mkPub g [] v) (left_files pubd m))).
  { apply in_map_iff. exists f. split; auto. apply left_files_spec. auto. }
  destruct (last_pub_some f _ _ Hin eq_refl) as [q Hq]. rewrite Hq. exists q. split; auto.
  destruct (last_pub_in _ _ _ Hq) as [Hq1 _]. apply in_map_iff in Hq1. destruct Hq1 as (g & <- & _). reflexivity.
Qed.

(** (c) any other file: nothing *)
Lemma task_last_other pubd m v f : ~ In f (keys m) -> ~ In f pubd -> last_pub f (task_pubs pubd m v) = None.
Proof.
  intros Hk Hp. apply last_pub_none. intros p Hin E. unfold task_pubs in Hin. apply in_app_or in Hin.
  destruct Hin as [Hin|Hin]; apply in_map_iff in Hin; destruct Hin as (x & <- & Hx); cbn in E.
  - apply Hk. rewrite <- E. apply in_map. exact Hx.
  - subst x. apply left_files_spec in Hx. tauto.
Qed.

Lemma publications_app (h1 : list dmap) : forall sv h2,
  publications sv (h1 ++ h2) = publications sv h1 ++ publications (run_server sv h1) h2.
Proof.
  induction h1 as [|m r IH]; intros sv h2; cbn [app publications run_server]; auto.
  rewrite IH, app_assoc. reflexivity.
Qed.

Lemma run_server_app (h1 : list dmap) : forall sv h2, run_server sv (h1 ++ h2) = run_server (run_server sv h1) h2.
Proof. induction h1 as [|m r IH]; intros sv h2; cbn [app run_server]; auto. Qed.

Lemma version_run (h : list dmap) : forall sv, version (run_server sv h) = version sv + length h.
Proof. induction h as [|m r IH]; intros sv; cbn [run_server length]; [lia|]. rewrite IH. cbn. lia. Qed.

(** the last publication of a file outside [published_files] is empty, after any history *)
Lemma left_empty (h : list dmap) : forall f p, ~ In f (published (run_server init_server h)) ->
  last_pub f (publications init_server h) = Some p -> pdiags p = [].
Proof.
  induction h as [|m h IH] using rev_ind; intros f p Hn Hl.
  - discriminate.
  - rewrite publications_app in Hl. rewrite run_server_app in Hn. cbn [run_server publications notify fst snd] in Hl, Hn.
    cbn [published] in Hn. rewrite app_nil_r, last_pub_app in Hl.
    set (sv := run_server init_server h) in *.
    destruct (in_dec Nat.eq_dec f (published sv)) as [Hp|Hp].
    + destruct (task_last_left (published sv) m (version sv) f Hn Hp) as (q & Hq & Hd).
      rewrite Hq in Hl. injection Hl as <-. exact Hd.
    + rewrite (task_last_other _ _ _ _ Hn Hp) in Hl. eapply IH; eauto.
Qed.

Theorem converges_seq (h : list dmap) m : NoDup (keys m) ->
  (forall f d, In (f, d) m ->
     last_pub f (publications init_server (h ++ [m])) = Some (mkPub f d (length h))) /\
  (forall f p, ~ In f (keys m) ->
     last_pub f (publications init_server (h ++ [m])) = Some p -> pdiags p = []).
Proof.
  intros Hn. split.
  - intros f d Hin. rewrite publications_app. cbn [publications notify fst snd]. rewrite app_nil_r, last_pub_app.
    rewrite (task_last_in _ _ _ _ _ Hn Hin), version_run. reflexivity.
  - intros f p Hk Hl. eapply (left_empty (h ++ [m])); [|exact Hl].
    rewrite run_server_app. cbn. exact Hk.
Qed.

(** ** versions *)

Definition ver_le (p q : pub) : Prop := pver p <= pver q.

Lemma ss_app {A : Type} (R : A -> A -> Prop) (l1 l2 : list A) :
  StronglySorted R l1 -> StronglySorted R l2 -> (forall x y, In x l1 -> In y l2 -> R x y) ->
  StronglySorted R (l1 ++ l2).
Proof.
  induction l1 as [|a r IH]; intros H1 H2 H; cbn; auto.
  inversion H1 as [|? ? Hr Ha]; subst. constructor.
  - apply IH; auto. intros x y Hx Hy. apply H; [right|]; assumption.
  - apply Forall_app. split; auto. apply Forall_forall. intros y Hy. apply H; [left; reflexivity|exact Hy].
Qed.

Lemma ss_const {A : Type} (R : A -> A -> Prop) (l : list A) : (forall x y, In x l -> In y l -> R x y) ->
  StronglySorted R l.
Proof.
  induction l as [|a r IH]; intros H; constructor.
  - apply IH. intros x y Hx Hy. apply H; right; assumption.
  - apply Forall_forall. intros y Hy. apply H; [left; reflexivity|right; exact Hy].
Qed.

Lemma ss_decomp {A : Type} (R : A -> A -> Prop) (l1 : list A) : forall (p : A) (l2 : list A) (q : A) (l3 : list A),
  StronglySorted R (l1 ++ p :: l2 ++ q :: l3) -> R p q.
Proof.
  induction l1 as [|a r IH]; intros p l2 q l3 H; cbn in H.
  - inversion H as [|? ? _ Hf]; subst. rewrite Forall_forall in Hf. apply Hf.
    apply in_or_app. right. left. reflexivity.
  - inversion H; subst. eapply IH; eauto.
Qed.

Theorem versions_sorted (h : list dmap) : forall sv,
  StronglySorted ver_le (publications sv h) /\ (forall p, In p (publications sv h) -> version sv <= pver p).
Proof.
  induction h as [|m r IH]; intros sv; cbn [publications notify fst snd].
  - split; [constructor|intros p []].
  - destruct (IH (mkServer (S (version sv)) (keys m))) as [IH1 IH2]. cbn [version] in IH2. split.
    + apply ss_app; auto.
      * apply ss_const. intros x y Hx Hy. unfold ver_le.
        rewrite (task_pubs_ver _ _ _ _ Hx), (task_pubs_ver _ _ _ _ Hy). lia.
      * intros x y Hx Hy. unfold ver_le. rewrite (task_pubs_ver _ _ _ _ Hx). specialize (IH2 y Hy). lia.
    + intros p Hp. apply in_app_or in Hp. destruct Hp as [Hp|Hp].
      * rewrite (task_pubs_ver _ _ _ _ Hp). lia.
      * specialize (IH2 p Hp). lia.
Qed.

(** ** before fix 3457fbf *)
Theorem old_stale (d : D) : exists (h : list dmap) m f p,
  ~ In f (keys m) /\ last_pub f (publications_old init_server (h ++ [m])) = Some p /\ pdiags p <> [].
Proof.
  exists [[(0, []); (1, [d])]], [(0, [])], 1, (mkPub 1 [d] 0). split.
  - cbn. intros [H|[]]. discriminate.
  - split; [reflexivity|discriminate].
Qed.

(* ------------------------------------------------------------------------------------------ *)
(** * C11, every schedule of the concurrent server *)

Lemma items_pubs (msgs : list (msg D)) : forall sv,
  flat_map (@item_pubs pub) (items_of sv msgs) = publications sv (history msgs).
Proof.
  induction msgs as [|[k m|kd] r IH]; intros sv; cbn [items_of flat_map item_pubs history publications]; auto.
  - rewrite IH. reflexivity.
  - rewrite IH. reflexivity.
Qed.

Theorem stream_prefix pol (msgs : list (msg D)) s :
  reach pol (init (script_of (items_of init_server msgs))) s ->
  exists rest, publications init_server (history msgs) = out s ++ rest.
Proof.
  intros Hr. destruct (pub_trace_prefix (script_of_pub_ok _ true) Hr) as [rest E].
  exists rest. rewrite <- E, script_pubs_of, items_pubs. reflexivity.
Qed.

Theorem stream_final pol (msgs : list (msg D)) s :
  reach pol (init (script_of (items_of init_server msgs))) s -> final s ->
  out s = publications init_server (history msgs).
Proof.
  intros Hr Hf. rewrite (pub_trace_final (script_of_pub_ok _ true) Hr Hf), script_pubs_of, items_pubs. reflexivity.
Qed.

Theorem c11_monotone pol (msgs : list (msg D)) s :
  reach pol (init (script_of (items_of init_server msgs))) s ->
  forall l1 p l2 q l3, out s = l1 ++ p :: l2 ++ q :: l3 -> pver p <= pver q.
Proof.
  intros Hr l1 p l2 q l3 E. destruct (stream_prefix _ _ _ Hr) as [rest Hp]. rewrite E in Hp.
  destruct (versions_sorted (history msgs) init_server) as [Hs _]. rewrite Hp in Hs.
  replace ((l1 ++ p :: l2 ++ q :: l3) ++ rest) with (l1 ++ p :: l2 ++ q :: (l3 ++ rest)) in Hs.
  - exact (ss_decomp _ _ _ _ _ _ Hs).
  - rewrite <- !app_assoc. cbn. rewrite <- app_assoc. reflexivity.
Qed.

Theorem c11_converges pol (msgs : list (msg D)) (h : list dmap) m s :
  history msgs = h ++ [m] -> NoDup (keys m) ->
  reach pol (init (script_of (items_of init_server msgs))) s -> final s ->
  (forall f d, In (f, d) m -> last_pub f (out s) = Some (mkPub f d (length h))) /\
  (forall f p, ~ In f (keys m) -> last_pub f (out s) = Some p -> pdiags p = []).
Proof.
  intros Hh Hn Hr Hf. rewrite (stream_final _ _ _ Hr Hf), Hh. apply converges_seq. exact Hn.
Qed.

Theorem c11_stream pol (msgs : list (msg D)) s :
  reach pol (init (script_of (items_of init_server msgs))) s ->
  (exists rest, publications init_server (history msgs) = out s ++ rest) /\
  (final s -> out s = publications init_server (history msgs)).
Proof. intros Hr. split; [exact (stream_prefix _ _ _ Hr)|exact (stream_final _ _ _ Hr)]. Qed.

End Proto.

(** a history in which a file with a problem leaves the workspace, and a complete execution of it *)
Definition nv_msgs : list (msg nat) :=
  [MsgNotif 1 [(0, []); (1, [42])]; MsgReq (KDefinition true); MsgNotif 0 [(0, [])]].

Lemma c11_nonvacuous : exists (msgs : list (msg nat)) (h : list (dmap nat)) (m : dmap nat) (s : st (pub nat)),
  history msgs = h ++ [m] /\ NoDup (keys m) /\
  reach WriterPref (init (script_of (items_of init_server msgs))) s /\ final s /\
  ~ In 1 (keys m) /\ last_pub 1 (out s) = Some (mkPub 1 [] 1) /\ last_pub 0 (out s) = Some (mkPub 0 [] 1) /\
  In (mkPub 1 [42] 0) (out s).
Proof.
  destruct (@completes (pub nat) WriterPref _ (init (script_of (items_of init_server nv_msgs))) (le_n _))
    as (tr & s & Hrun & Hf).
  { apply inv_init. apply script_of_ok. }
  pose proof (reach_run _ _ _ Hrun) as Hr.
  exists nv_msgs, [[(0, []); (1, [42])]], [(0, [])], s.
  split; [reflexivity|]. split; [repeat constructor; intros []|]. split; [exact Hr|]. split; [exact Hf|].
  rewrite (stream_final _ _ _ Hr Hf).
  split; [cbn; intros [H|[]]; discriminate|]. split; [reflexivity|]. split; [reflexivity|].
  cbn. auto.
Qed.

(* ------------------------------------------------------------------------------------------ *)
(** * C09 *)

Open Scope N_scope.

Lemma mapM_ok {A B : Type} (f : A -> res B) (g : A -> B) (l : list A) :
  (forall x, In x l -> f x = Ok (g x)) -> mapM f l = Ok (map g l).
Proof.
  induction l as [|x r IH]; intros H; cbn [mapM map]; auto.
  rewrite (H x (or_introl eq_refl)). cbn [bind]. rewrite IH; [reflexivity|].
  intros y Hy. apply H. right. exact Hy.
Qed.

Section Loc.
Variable content : file -> text.
Notation small := (small content).
Notation range_ok := (range_ok content).
Notation spec_range := (spec_range content).

Lemma line_index_ok {f} : small f -> line_index content f = Ok (li_of (content f)).
Proof. intros H. apply li_new_ok. exact H. Qed.

Lemma range_conv {f r} : small f -> range_ok f r -> to_proto_range (li_of (content f)) r = Ok (spec_range f r).
Proof.
  intros Hs [Ha Hb]. destruct r as [a b]. apply to_proto_range_ok; assumption.
Qed.

Lemma location_ok (loc : file * rng) : small (fst loc) -> range_ok (fst loc) (snd loc) ->
  (li <- line_index content (fst loc) ;; location li loc) = Ok (fst loc, spec_range (fst loc) (snd loc)).
Proof.
  intros Hs Hr. rewrite line_index_ok by assumption. cbn [bind]. unfold location.
  rewrite range_conv by assumption. reflexivity.
Qed.

Theorem c09_definition reqf (loc : file * rng) : small reqf -> small (fst loc) -> range_ok (fst loc) (snd loc) ->
  h_definition content reqf (Some loc) = Ok (Some (fst loc, spec_range (fst loc) (snd loc))).
Proof.
  intros Hq Hs Hr. unfold h_definition. rewrite (line_index_ok Hq). cbn [bind].
  pose proof (location_ok loc Hs Hr) as H. unfold bind in H |- *.
  destruct (line_index content (fst loc)) as [li|]; [|discriminate].
  destruct (location li loc) as [l|]; [|discriminate]. injection H as ->. reflexivity.
Qed.

Theorem c09_references reqf (locs : list (file * rng)) : small reqf ->
  (forall it, In it locs -> small (fst it) /\ range_ok (fst it) (snd it)) ->
  h_references content reqf (Some locs) =
    Ok (Some (map (fun it => (fst it, spec_range (fst it) (snd it))) locs)).
Proof.
  intros Hq H. unfold h_references. rewrite (line_index_ok Hq). cbn [bind].
  rewrite (mapM_ok _ (fun it => (fst it, spec_range (fst it) (snd it)))); [reflexivity|].
  intros it Hin. destruct (H it Hin). apply location_ok; assumption.
Qed.

Lemma document_symbol_ok f : small f -> forall s, sym_ok content f s ->
  document_symbol (li_of (content f)) s = Ok (spec_symbol content f s).
Proof.
  intros Hs. fix IH 1. intros [r ch] [Hr Hch]. cbn [document_symbol spec_symbol].
  rewrite (range_conv Hs Hr). cbn [bind].
  match goal with |- (ch' <- ?go ch ;; _) = _ =>
    assert (Hgo : go ch = Ok (map (spec_symbol content f) ch)) end.
  { clear Hr. induction ch as [|x xs IHch]; [reflexivity|]. destruct Hch as [Hx Hxs].
    rewrite (IH x Hx). cbn [bind]. rewrite (IHch Hxs). reflexivity. }
  rewrite Hgo. reflexivity.
Qed.

Theorem c09_document_symbol f (l : list dsym) : small f -> (forall s, In s l -> sym_ok content f s) ->
  h_document_symbol content f (Some l) = Ok (Some (map (spec_symbol content f) l)).
Proof.
  intros Hs H. unfold h_document_symbol. rewrite (line_index_ok Hs). cbn [bind].
  rewrite (mapM_ok _ (spec_symbol content f)); [reflexivity|].
  intros s Hin. apply document_symbol_ok; auto.
Qed.

Theorem c09_folding_range f (l : list rng) : small f ->
  h_folding_range content f (Some l) = Ok (Some (map (spec_lines content f) l)).
Proof.
  intros Hs. unfold h_folding_range. rewrite (line_index_ok Hs). cbn [bind].
  rewrite (mapM_ok _ (spec_lines content f)); [reflexivity|].
  intros [a b] _. unfold folding_range. rewrite (to_proto_folding_range_ok _ a b Hs). reflexivity.
Qed.

Theorem c09_inlay_hint f (l : list N) : small f -> (forall o, In o l -> on_char_boundary (content f) o) ->
  h_inlay_hint content f (Some l) = Ok (Some (map (pos_of (content f)) l)).
Proof.
  intros Hs H. unfold h_inlay_hint. rewrite (line_index_ok Hs). cbn [bind].
  rewrite (mapM_ok _ (pos_of (content f))); [reflexivity|].
  intros o Hin. apply to_proto_position_ok; auto.
Qed.

Theorem c09_document_link f (l : list (rng * file)) : small f -> (forall x, In x l -> range_ok f (fst x)) ->
  h_document_link content f (Some l) = Ok (Some (map (fun x => (spec_range f (fst x), snd x)) l)).
Proof.
  intros Hs H. unfold h_document_link. rewrite (line_index_ok Hs). cbn [bind].
  rewrite (mapM_ok _ (fun x => (spec_range f (fst x), snd x))); [reflexivity|].
  intros x Hin. unfold document_link. rewrite (range_conv Hs (H x Hin)). reflexivity.
Qed.

Theorem c09_diagnostics {M : Type} (dm : list (file * list (rng * M))) :
  (forall e, In e dm -> small (fst e) /\ forall d, In d (snd e) -> range_ok (fst e) (fst d)) ->
  h_diagnostics content dm =
    Ok (map (fun e => (fst e, map (fun d => (spec_range (fst e) (fst d), snd d)) (snd e))) dm).
Proof.
  intros H. unfold h_diagnostics. apply mapM_ok. intros e Hin. destruct (H e Hin) as [Hs Hd].
  unfold h_diagnostics_entry. rewrite (line_index_ok Hs). cbn [bind].
  rewrite (mapM_ok _ (fun d => (spec_range (fst e) (fst d), snd d))); [reflexivity|].
  intros d Hdin. unfold diagnostic. rewrite (range_conv Hs (Hd d Hdin)). reflexivity.
Qed.

Theorem c09_none reqf : small reqf ->
  h_definition content reqf None = Ok None /\ h_references content reqf None = Ok None /\
  h_document_symbol content reqf None = Ok None /\ h_folding_range content reqf None = Ok None /\
  h_inlay_hint content reqf None = Ok None /\ h_document_link content reqf None = Ok None.
Proof.
  intros Hs. unfold h_definition, h_references, h_document_symbol, h_folding_range, h_inlay_hint, h_document_link.
  rewrite (line_index_ok Hs). cbn [bind]. repeat split.
Qed.

End Loc.

(** ** the defect repaired by 5c4888d (D6), on the workspace of DESIGN section C09 *)

Definition str (s : list nat) : text := map N.of_nat s.
(* root (file 0) = include "sub.td"\nclass Foo : Bar;     sub.td (file 1) = \n\nclass Bar; *)
Definition d6_root : text :=
  str [105;110;99;108;117;100;101;32;34;115;117;98;46;116;100;34;10;
       99;108;97;115;115;32;70;111;111;32;58;32;66;97;114;59]%nat.
Definition d6_sub : text := str [10;10;99;108;97;115;115;32;66;97;114;59]%nat.
Definition d6_content (f : file) : text := match f with O => d6_root | _ => d6_sub end.
Definition d6_loc : file * rng := (1%nat, (8, 11)).

Lemma d6_hyps : small d6_content 0%nat /\ small d6_content 1%nat /\ range_ok d6_content 1%nat (8, 11).
Proof.
  split; [vm_compute; discriminate|]. split; [vm_compute; discriminate|]. split.
  - exists (str [10;10;99;108;97;115;115;32]%nat), (str [66;97;114;59]%nat). split; reflexivity.
  - exists (str [10;10;99;108;97;115;115;32;66;97;114]%nat), (str [59]%nat). split; reflexivity.
Qed.

Theorem c09_old_refuted : exists (content : file -> text) reqf (loc : file * rng),
  small content reqf /\ small content (fst loc) /\ range_ok content (fst loc) (snd loc) /\
  h_definition_old content reqf (Some loc) = Ok (Some (1%nat, ((0, 8), (0, 11)))) /\
  spec_range content (fst loc) (snd loc) = ((2, 6), (2, 9)).
Proof.
  exists d6_content, 0%nat, d6_loc. destruct d6_hyps as (H0 & H1 & H2).
  split; [exact H0|]. split; [exact H1|]. split; [exact H2|]. split; vm_compute; reflexivity.
Qed.
