(** Soundness of the completeness checker of model/GramComp.v:
    if [check_complete G p C fuel = true] then every grammar function [f] certified for a nonterminal [M] parses EVERY word
    of [M] (w.r.t. the grammar G) in every context whose next token is in the certified follower set of [M]: it returns
    true, consumes exactly the word and records no error (token-level semantics [texec]; lifted to the parser model by
    TokRefine.refine_done). *)
From Coq Require Import List NArith Bool Lia PeanoNat Arith String.
From TG.Gen Require Import GenTokens.
From TG.Model Require Import GInterp DocGrammar GramAbs TokSem GramComp.
From TG.Proofs Require Import GramRx GramCompRx TokFrame TokComplete.
Import ListNotations.
Close Scope string_scope.
Close Scope N_scope.
Open Scope nat_scope.
Open Scope list_scope.

(** * Equality tests *)
Lemma val_eqb_eq a b : val_eqb a b = true -> a = b.
Proof.
  destruct a, b; cbn; intros H; try discriminate H.
  - apply Bool.eqb_prop in H. now subst.
  - apply Nat.eqb_eq in H. now subst.
Qed.
Lemma venv_eqb_eq a : forall b, venv_eqb a b = true -> a = b.
Proof.
  induction a as [|x a IH]; destruct b as [|y b]; cbn; intros H; try discriminate H; auto.
  apply andb_true_iff in H as [H1 H2]. apply val_eqb_eq in H1. apply IH in H2. now subst.
Qed.
Lemma cur_eqb_eq a b : cur_eqb a b = true -> a = b.
Proof.
  destruct a, b; cbn; intros H; try discriminate H; auto.
  apply andb_true_iff in H as [H1 H2]. apply kinds_eqb_eq in H1. apply kinds_eqb_eq in H2. now subst.
Qed.
Lemma rxset_sub_In' a b : rxset_sub a b = true -> forall r, In r a -> In r b.
Proof.
  unfold rxset_sub. intros H r Hr. rewrite forallb_forall in H. specialize (H r Hr).
  apply existsb_exists in H as (y & Hy & E). apply rx_eqb_eq in E. now subst.
Qed.
Definition ceqv (a b : cst) : Prop :=
  s_cur a = s_cur b /\ (forall r, In r (s_r a) -> In r (s_r b)) /\ s_env a = s_env b /\ s_mv a = s_mv b /\ s_lp a = s_lp b.
Lemma cst_eqb_eqv a b : cst_eqb a b = true -> ceqv a b.
Proof.
  unfold cst_eqb. intros H.
  apply andb_true_iff in H as [H H6]. apply andb_true_iff in H as [H H5]. apply andb_true_iff in H as [H H4].
  apply andb_true_iff in H as [H H3]. apply andb_true_iff in H as [H1 H2].
  apply cur_eqb_eq in H1. apply venv_eqb_eq in H4. apply Bool.eqb_prop in H5. apply Bool.eqb_prop in H6.
  repeat split; auto. intros r. now apply rxset_sub_In'.
Qed.
Lemma ceqv_refl a : ceqv a a.
Proof. repeat split; auto. Qed.

Lemma dedup_cst_In x : forall l, In x l -> exists y, In y (dedup_cst l) /\ ceqv x y.
Proof.
  induction l as [|z l IH]; intros H; [contradiction|]. unfold dedup_cst in *. cbn [fold_right].
  destruct H as [->|H].
  - destruct (existsb (cst_eqb x) _) eqn:E.
    + apply existsb_exists in E as (y & Hy & Ey). exists y. split; auto. now apply cst_eqb_eqv.
    + exists x. split; [now left|apply ceqv_refl].
  - destruct (IH H) as (y & Hy & Ey). exists y. split; auto.
    destruct (existsb (cst_eqb z) _); [exact Hy|now right].
Qed.
Lemma dedup_vcst_In v x : forall l, In (v, x) l -> exists y, In (v, y) (dedup_vcst l) /\ ceqv x y.
Proof.
  induction l as [|z l IH]; intros H; [contradiction|]. unfold dedup_vcst in *. cbn [fold_right].
  destruct H as [->|H].
  - destruct (existsb (vcst_eqb (v, x)) _) eqn:E.
    + apply existsb_exists in E as ([v' y] & Hy & Ey). unfold vcst_eqb in Ey. cbn [fst snd] in Ey.
      apply andb_true_iff in Ey as [E1 E2]. apply val_eqb_eq in E1. subst v'.
      exists y. split; auto. now apply cst_eqb_eqv.
    + exists x. split; [now left|apply ceqv_refl].
  - destruct (IH H) as (y & Hy & Ey). exists y. split; auto.
    destruct (existsb (vcst_eqb z) _); [exact Hy|now right].
Qed.
Lemma subset_cst_In a b : subset_cst a b = true -> forall x, In x a -> exists y, In y b /\ ceqv x y.
Proof.
  unfold subset_cst. intros H x Hx. rewrite forallb_forall in H. specialize (H x Hx).
  apply existsb_exists in H as (y & Hy & E). exists y. split; auto. now apply cst_eqb_eqv.
Qed.

(** * Combinators *)
Definition couts_incl (a b : couts) : Prop :=
  incl (k_norm a) (k_norm b) /\ incl (k_brk a) (k_brk b) /\ incl (k_ret a) (k_ret b).
Lemma couts_incl_refl a : couts_incl a a.
Proof. repeat split; apply incl_refl. Qed.
Lemma couts_incl_app_l a b : couts_incl a (couts_app a b).
Proof. repeat split; cbn; apply incl_appl, incl_refl. Qed.
Lemma couts_incl_app_r a b : couts_incl b (couts_app a b).
Proof. repeat split; cbn; apply incl_appr, incl_refl. Qed.
Lemma couts_incl_trans a b c : couts_incl a b -> couts_incl b c -> couts_incl a c.
Proof. intros (A1 & A2 & A3) (B1 & B2 & B3). repeat split; eapply incl_tran; eauto. Qed.

Lemma bind_norm_spec o k : forall o', bind_norm o k = COk o' ->
  incl (k_brk o) (k_brk o') /\ incl (k_ret o) (k_ret o') /\
  forall v a, In (v, a) (k_norm o) -> exists o1, k v a = COk o1 /\ couts_incl o1 o'.
Proof.
  unfold bind_norm. generalize (k_norm o) as l.
  induction l as [|[v0 a0] l IH]; intros o' H.
  - cbn in H. inversion H. subst o'. cbn. repeat split; try apply incl_refl. intros v a [].
  - cbn [fold_right fst snd] in H.
    destruct (k v0 a0) as [o1|m1] eqn:K.
    + match type of H with context [match ?X with COk _ => _ | CErr _ => _ end] => destruct X as [o2|m2] eqn:R end; [|discriminate H].
      inversion H. subst o'. destruct (IH _ eq_refl) as (B & Rt & Nn).
      split; [cbn; apply incl_appr, B|]. split; [cbn; apply incl_appr, Rt|].
      intros v a [E|Hin].
      * inversion E. subst. exists o1. split; auto. apply couts_incl_app_l.
      * destruct (Nn v a Hin) as (o3 & E3 & I3). exists o3. split; auto.
        eapply couts_incl_trans; [exact I3|apply couts_incl_app_r].
    + discriminate H.
Qed.

Lemma map_res_spec {A B : Type} (f : A -> cres B) : forall l l', map_res f l = COk l' ->
  forall x, In x l -> exists y, f x = COk y /\ In y l'.
Proof.
  induction l as [|a l IH]; intros l' H x Hx; [contradiction|].
  cbn [map_res] in H. destruct (f a) as [y|m] eqn:Fa; [|discriminate H].
  destruct (map_res f l) as [ys|m] eqn:Fl; [|discriminate H]. inversion H. subst l'.
  destruct Hx as [->|Hx].
  - exists y. split; auto. now left.
  - destruct (IH _ eq_refl x Hx) as (y' & E & Hin). exists y'. split; auto. now right.
Qed.

(** * one-step unfoldings of [texec] *)
Lemma tx_seq n p a b en ts :
  texec (S n) p (ESeq a b) en ts = match texec n p a en ts with TVal _ en1 ts1 => texec n p b en1 ts1 | r => r end.
Proof. reflexivity. Qed.
Lemma tx_if n p c a b en ts :
  texec (S n) p (EIf c a b) en ts =
  match texec n p c en ts with
  | TVal (VB true) en1 ts1 => texec n p a en1 ts1
  | TVal (VB false) en1 ts1 => texec n p b en1 ts1
  | TVal (VN _) _ _ => TStuck
  | r => r
  end.
Proof. reflexivity. Qed.
Lemma tx_while n p c b en ts :
  texec (S n) p (EWhile c b) en ts =
  match texec n p c en ts with
  | TVal (VB true) en1 ts1 =>
      match texec n p b en1 ts1 with
      | TVal _ en2 ts2 => texec n p (EWhile c b) en2 ts2
      | TBrk en2 ts2 => TVal (VB true) en2 ts2
      | r => r
      end
  | TVal (VB false) en1 ts1 => TVal (VB true) en1 ts1
  | TVal (VN _) _ _ => TStuck
  | r => r
  end.
Proof. reflexivity. Qed.

Lemma fuel_up p n e en ts r m : texec n p e en ts = r -> not_oof r -> n <= m -> texec m p e en ts = r.
Proof. intros H Hn Hm. subst r. now apply texec_fuel. Qed.

Section Sound.
  Variable G : grammar.
  Variable p : prog.
  Variable C : ccert.
  Notation T := (cc_tabs C).
  Hypothesis Hclosed : tabs_closed G T = true.
  Hypothesis Hexact : tabs_null_exact G T (cc_dfuel C) = true.

  (** what a certified function does on a word of its nonterminal *)
  (** the current token of an input: its head, or Eof at the end of input *)
  Definition hdT (tail : list TokenKind) : TokenKind := match tail with [] => T_Eof | t :: _ => t end.
  Definition Parses (M f : nat) (u : list TokenKind) : Prop :=
    forall tail' e' en, In (hdT tail') (cc_fol C M) ->
      exists m, texec m p (ECall f None) en (mk_ts (u ++ tail') e') = TVal (VB true) en (mk_ts tail' e').

  Section Fn.
  Variable N : nat.                       (* the nonterminal of the function under consideration *)
  Variable tail : list TokenKind.         (* what follows the word of this invocation (possibly the end of input) *)
  Variable k : TokenKind.                 (* the follower: the first token of [tail], or Eof *)
  Hypothesis Hhd : hdT tail = k.
  Variable e0 : nat.
  Variable len0 : nat.                    (* length of the word of this invocation *)
  Hypothesis Hk : In k (cc_fol C N).
  Hypothesis HIH : forall M f u, cc_mode C f = Some M -> fn_body p f <> None -> rmatch G (RSym (DNT M)) u ->
    (List.length u < len0 \/ (List.length u <= len0 /\ cc_rank C M < cc_rank C N)) -> Parses M f u.

  Definition tstate (w : list TokenKind) : tst := mk_ts (w ++ tail) e0.
  Definition hd_tok (w : list TokenKind) : TokenKind := match w with t :: _ => t | [] => k end.
  Lemma tcur_tstate w : tcur (tstate w) = hd_tok w.
  Proof. destruct w; [|reflexivity]. cbn [hd_tok]. rewrite <- Hhd. unfold tstate, tcur, mk_ts. cbn [app tks]. now destruct tail. Qed.

  Definition conc (s : cst) (w : list TokenKind) : Prop :=
    (exists r, In r (s_r s) /\ rmatch G r w) /\
    match s_cur s with
    | CUnk => True
    | CSet cont fin => (exists t w', w = t :: w' /\ In t cont) \/ (w = [] /\ In k fin)
    end.
  Definition flags_ok (s s' : cst) (w w' : list TokenKind) : Prop :=
    (s_mv s' = true -> s_mv s = true \/ List.length w' < List.length w) /\
    (s_lp s' = true -> s_lp s = true \/ List.length w' < List.length w).
  Definition post (s : cst) (w : list TokenKind) (s' : cst) (w' : list TokenKind) (en : env) (ts : tst) : Prop :=
    en = s_env s' /\ ts = tstate w' /\ conc s' w' /\ (exists c, w = c ++ w') /\ flags_ok s s' w w'.
  Definition okres (s : cst) (w : list TokenKind) (o : couts) (r : tres) : Prop :=
    match r with
    | TVal v en ts => exists s' w', In (v, s') (k_norm o) /\ post s w s' w' en ts
    | TBrk en ts => exists s' w', In s' (k_brk o) /\ post s w s' w' en ts
    | TRet v en ts => exists s' w', In (v, s') (k_ret o) /\ post s w s' w' en ts
    | TStuck | TOOF => False
    end.
  Lemma okres_not_oof s w o r : okres s w o r -> not_oof r.
  Proof. destruct r; cbn; auto. Qed.
  Lemma okres_incl s w o o' r : couts_incl o o' -> okres s w o r -> okres s w o' r.
  Proof.
    intros (I1 & I2 & I3). destruct r; cbn; auto.
    - intros (s' & w' & Hin & Hp). exists s', w'. split; auto.
    - intros (s' & w' & Hin & Hp). exists s', w'. split; auto.
    - intros (s' & w' & Hin & Hp). exists s', w'. split; auto.
  Qed.

  Lemma conc_eqv a b w : ceqv a b -> conc a w -> conc b w.
  Proof.
    intros (E1 & E2 & _) ((r & Hr & Hm) & Hc). split.
    - exists r. split; auto.
    - rewrite <- E1. exact Hc.
  Qed.
  Lemma post_eqv s w s' w' en ts y : ceqv s' y -> post s w s' w' en ts -> post s w y w' en ts.
  Proof.
    intros E (P1 & P2 & P3 & P4 & P5 & P6). pose proof E as (E1 & E2 & E3 & E4 & E5).
    split; [congruence|]. split; auto. split; [eapply conc_eqv; eauto|]. split; auto.
    split; [rewrite <- E4; exact P5|rewrite <- E5; exact P6].
  Qed.
  Lemma okres_dedup s w o r : okres s w o r -> okres s w (couts_dedup o) r.
  Proof.
    destruct r; cbn; auto.
    - intros (s' & w' & Hin & Hp). destruct (dedup_vcst_In _ _ _ Hin) as (y & Hy & E). exists y, w'. split; auto. eapply post_eqv; eauto.
    - intros (s' & w' & Hin & Hp). destruct (dedup_cst_In _ _ Hin) as (y & Hy & E). exists y, w'. split; auto. eapply post_eqv; eauto.
    - intros (s' & w' & Hin & Hp). destruct (dedup_vcst_In _ _ _ Hin) as (y & Hy & E). exists y, w'. split; auto. eapply post_eqv; eauto.
  Qed.
  (** the start state may be replaced by an equivalent one *)
  Lemma post_eqv_l s y w s' w' en ts : ceqv s y -> post y w s' w' en ts -> post s w s' w' en ts.
  Proof.
    intros (_ & _ & _ & E4 & E5) (P1 & P2 & P3 & P4 & P5 & P6).
    split; auto. split; auto. split; auto. split; auto. split; [rewrite E4; exact P5|rewrite E5; exact P6].
  Qed.
  Lemma okres_eqv_l s y w o r : ceqv s y -> okres y w o r -> okres s w o r.
  Proof.
    intros E. destruct r; cbn; auto.
    - intros (s' & w' & Hin & Hp). exists s', w'. split; auto. eapply post_eqv_l; eauto.
    - intros (s' & w' & Hin & Hp). exists s', w'. split; auto. eapply post_eqv_l; eauto.
    - intros (s' & w' & Hin & Hp). exists s', w'. split; auto. eapply post_eqv_l; eauto.
  Qed.

  Lemma post_intro s w s' w' en ts :
    en = s_env s' -> ts = tstate w' -> conc s' w' -> (exists c, w = c ++ w') ->
    (s_mv s' = true -> s_mv s = true \/ List.length w' < List.length w) ->
    (s_lp s' = true -> s_lp s = true \/ List.length w' < List.length w) -> post s w s' w' en ts.
  Proof. intros. split; auto. split; auto. split; auto. split; auto. split; auto. Qed.

  Lemma post_trans s w s1 w1 en1 ts1 s2 w2 en2 ts2 :
    post s w s1 w1 en1 ts1 -> post s1 w1 s2 w2 en2 ts2 -> post s w s2 w2 en2 ts2.
  Proof.
    intros (_ & _ & _ & (c1 & E1) & F1 & F1') (P1 & P2 & P3 & (c2 & E2) & F2 & F2').
    assert (L1 : List.length w1 <= List.length w) by (subst w; rewrite app_length; lia).
    assert (L2 : List.length w2 <= List.length w1) by (subst w1; rewrite app_length; lia).
    apply post_intro; auto.
    - exists (c1 ++ c2). subst w w1. now rewrite app_assoc.
    - intros H. destruct (F2 H) as [H1|H1]; [|right; lia]. destruct (F1 H1) as [H0|H0]; [now left|right; lia].
    - intros H. destruct (F2' H) as [H1|H1]; [|right; lia]. destruct (F1' H1) as [H0|H0]; [now left|right; lia].
  Qed.
  (** bounds carried along a step *)
  Lemma post_bounds s w s1 w1 en1 ts1 : post s w s1 w1 en1 ts1 ->
    List.length w <= len0 -> (s_mv s = true -> List.length w < len0) ->
    List.length w1 <= len0 /\ (s_mv s1 = true -> List.length w1 < len0).
  Proof.
    intros (_ & _ & _ & (c1 & E1) & F1 & _) B1 B2.
    assert (L1 : List.length w1 <= List.length w) by (subst w; rewrite app_length; lia).
    split; [lia|]. intros H. destruct (F1 H) as [H0|H0]; [specialize (B2 H0)|]; lia.
  Qed.

  (** a step that consumes nothing and keeps the flags *)
  Lemma post_same s s' w : conc s' w -> s_mv s' = s_mv s -> s_lp s' = s_lp s -> post s w s' w (s_env s') (tstate w).
  Proof.
    intros Hc E1 E2. apply post_intro; auto.
    - now exists [].
    - rewrite E1. now left.
    - rewrite E2. now left.
  Qed.

  (** * Knowledge about the current token *)
  Lemma known_conc s w : conc s w -> conc (known C N s) w.
  Proof.
    intros ((r & Hr & Hm) & Hc). unfold known. destruct (s_cur s) eqn:Ec; [|split; [eauto|rewrite Ec; exact Hc]].
    split; [cbn; eauto|]. cbn [with_cur s_cur].
    destruct w as [|t w'].
    - right. split; auto.
      assert (E : rs_null C (s_r s) = true).
      { unfold rs_null. apply existsb_exists. exists r. split; auto. eapply null_complete; eauto. }
      rewrite E. exact Hk.
    - left. exists t, w'. split; auto. apply kset_dedup_In. unfold rs_first. apply in_flat_map. exists r. split; auto.
      eapply first_complete; eauto.
  Qed.
  Lemma known_fields s : s_env (known C N s) = s_env s /\ s_mv (known C N s) = s_mv s /\ s_lp (known C N s) = s_lp s /\
                         exists cont fin, s_cur (known C N s) = CSet cont fin.
  Proof. unfold known. destruct (s_cur s) eqn:E; cbn; repeat split; eauto. Qed.

  Lemma restrict_sound s q w cont fin : s_cur s = CSet cont fin -> conc s w -> q (hd_tok w) = true ->
    exists sq, restrict s q = Some sq /\ conc sq w /\ s_env sq = s_env s /\ s_mv sq = s_mv s /\ s_lp sq = s_lp s /\
               exists c' f', s_cur sq = CSet c' f' /\ (forall t, In t c' -> q t = true) /\ (forall t, In t f' -> q t = true).
  Proof.
    intros Ec ((r & Hr & Hm) & Hc) Hq. rewrite Ec in Hc. unfold restrict. rewrite Ec.
    assert (Fc : forall t, In t (filter q cont) -> q t = true) by (intros t Ht; now apply filter_In in Ht).
    assert (Ff : forall t, In t (filter q fin) -> q t = true) by (intros t Ht; now apply filter_In in Ht).
    destruct Hc as [(t & w' & -> & Ht)|[-> Hf]]; cbn [hd_tok] in Hq.
    - assert (Hin : In t (filter q cont)) by (apply filter_In; auto).
      destruct (filter q cont) as [|c0 cl] eqn:E1; [contradiction|].
      eexists. split; [reflexivity|]. split.
      + split; [cbn; eauto|]. cbn [with_cur s_cur]. left. eauto.
      + cbn. split; auto. split; auto. split; auto. eexists _, _. split; [reflexivity|]. split; auto.
    - assert (Hin : In k (filter q fin)) by (apply filter_In; auto).
      destruct (filter q fin) as [|f0 fl] eqn:E2; [contradiction|].
      destruct (filter q cont) as [|c0 cl] eqn:E1.
      + eexists. split; [reflexivity|]. split.
        * split; [cbn; exists REps; split; [now left|constructor]|]. cbn [s_cur]. right. split; auto.
        * cbn. split; auto. split; auto. split; auto. eexists _, _. split; [reflexivity|]. split; auto; intros t [] .
      + eexists. split; [reflexivity|]. split.
        * split; [cbn; eauto|]. cbn [with_cur s_cur]. right. split; auto.
        * cbn. split; auto. split; auto. split; auto. eexists _, _. split; [reflexivity|]. split; auto.
  Qed.

  (** * Eating *)
  Lemma eat_ders_spec rs : forall ts l, eat_ders G C ts rs = COk l ->
    forall t, In t ts -> tk_eqb t T_Error = false /\
      exists d, pd_all G T (cc_dfuel C) (LTok t) (Some [t]) rs = Some d /\ d_miss d = [] /\ incl (d_der d) l.
  Proof.
    induction ts as [|t0 ts IH]; intros l H t Ht; [contradiction|].
    cbn [eat_ders] in H. destruct (tk_eqb t0 T_Error) eqn:Ee; [discriminate H|].
    destruct (pd_all G T (cc_dfuel C) (LTok t0) (Some [t0]) rs) as [d|] eqn:Ed; [|discriminate H].
    destruct (eat_ders G C ts rs) as [l'|m] eqn:El; [|discriminate H].
    destruct (d_miss d) eqn:Em; [|discriminate H]. inversion H. subst l.
    destruct Ht as [->|Ht].
    - split; auto. exists d. repeat split; auto. apply incl_appl, incl_refl.
    - destruct (IH _ eq_refl t Ht) as (A & d' & B & B2 & B3). split; auto. exists d'. repeat split; auto. apply incl_appr, B3.
  Qed.

  Lemma eat_sound s v s' w : eat G C s = COk (v, s') -> conc s w ->
    exists t w', w = t :: w' /\ tk_eqb t T_Error = false /\ v = VB true /\ conc s' w' /\
                 s_env s' = s_env s /\ s_mv s' = true /\ s_lp s' = true.
  Proof.
    unfold eat. intros H ((r & Hr & Hm) & Hc).
    destruct (s_cur s) as [|cont [|f0 fl]] eqn:Ec; try discriminate H.
    destruct (eat_ders G C cont (s_r s)) as [[|r0 rs]|m] eqn:Ed; try discriminate H.
    inversion H. subst v s'. clear H.
    destruct Hc as [(t & w' & -> & Ht)|[_ []]].
    destruct (eat_ders_spec _ _ _ Ed t Ht) as (Hne & d & Hd & Hmiss & Hincl).
    exists t, w'. split; auto. split; auto. split; auto. split; [|cbn; auto].
    split; [|exact I].
    assert (Hcons : cons (Some [t]) (t :: w')) by (right; exists t, w'; split; auto; now left).
    destruct (pd_all_complete G T Hclosed _ _ _ _ _ Hd r (t :: w') Hr Hm Hcons) as [(u & v & r' & E & Hl & Hin & Hm')|[(m & Hin & _)|[_ E]]].
    - cbn in Hl. subst u. cbn in E. inversion E. subst v.
      exists r'. split; auto. apply (dedup_rx_In_conv r' (r0 :: rs)). apply Hincl. exact Hin.
    - rewrite Hmiss in Hin. contradiction.
    - discriminate E.
  Qed.
  Lemma t_eat_tstate t w : tk_eqb t T_Error = false -> t_eat (tstate (t :: w)) = Some (tstate w).
  Proof. intros H. unfold t_eat, tstate, mk_ts. cbn [tks app terr]. rewrite H. reflexivity. Qed.

  Lemma post_eat s s' t w : conc s' w -> post s (t :: w) s' w (s_env s') (tstate w).
  Proof.
    intros Hc. apply post_intro; auto; try (now exists [t]); intros _; right; cbn; lia.
  Qed.

  (** * Primitives *)
  Definition single (l : list (val * cst)) : couts := {| k_norm := l; k_brk := []; k_ret := [] |}.

  Lemma eat_when_sound sk q other l w cont fin : s_cur sk = CSet cont fin -> conc sk w ->
    eat_when G C sk q other = COk l ->
    (q (hd_tok w) = true -> exists t w' s', w = t :: w' /\ tk_eqb t T_Error = false /\ In (VB true, s') l /\ conc s' w' /\ s_env s' = s_env sk) /\
    (q (hd_tok w) = false -> exists sn b, restrict sk (fun t => negb (q t)) = Some sn /\ conc sn w /\
        s_env sn = s_env sk /\ s_mv sn = s_mv sk /\ s_lp sn = s_lp sk /\ other (Some sn) = COk b /\ incl b l).
  Proof.
    intros Ec Hc H. unfold eat_when in H.
    destruct (match restrict sk q with Some sy => match eat G C sy with COk r => COk [r] | CErr m => CErr m end | None => COk [] end) as [a|m] eqn:Ea; [|discriminate H].
    destruct (other (restrict sk (fun t => negb (q t)))) as [b|m] eqn:Eb; [|discriminate H]. inversion H. subst l. clear H.
    split; intros Hq.
    - destruct (restrict_sound sk q w cont fin Ec Hc Hq) as (sy & Er & Hcy & Ee & _).
      rewrite Er in Ea. destruct (eat G C sy) as [[v s']|m] eqn:Eeat; [|discriminate Ea]. inversion Ea. subst a.
      destruct (eat_sound _ _ _ _ Eeat Hcy) as (t & w' & -> & Hne & -> & Hc' & Ee' & _).
      exists t, w', s'. split; auto. split; auto. split; [now left|]. split; auto. congruence.
    - assert (Hq' : (fun t => negb (q t)) (hd_tok w) = true) by (cbv beta; now rewrite Hq).
      destruct (restrict_sound sk _ w cont fin Ec Hc Hq') as (sn & Er & Hcn & E1 & E2 & E3 & _).
      rewrite Er in Eb. exists sn, b. split; auto. split; auto. split; auto. split; auto. split; auto. split; auto. apply incl_appr, incl_refl.
  Qed.

  Lemma okres_val s w l v s' w' en ts : In (v, s') l -> post s w s' w' en ts -> okres s w (single l) (TVal v en ts).
  Proof. intros Hin Hp. cbn. exists s', w'. split; auto. Qed.

  Lemma post_known s sn w : conc sn w -> s_env sn = s_env (known C N s) -> s_mv sn = s_mv (known C N s) -> s_lp sn = s_lp (known C N s) ->
    post s w sn w (s_env s) (tstate w).
  Proof.
    intros Hc E1 E2 E3. destruct (known_fields s) as (K1 & K2 & K3 & _).
    replace (s_env s) with (s_env sn) by congruence. apply post_same; congruence.
  Qed.

  Lemma cprim_sound pr s l w : cprim G C N pr s = COk l -> conc s w ->
    okres s w (single l) (texec_prim p pr (s_env s) (tstate w)).
  Proof.
    intros H Hc.
    pose proof (known_conc s w Hc) as Hck. destruct (known_fields s) as (K1 & K2 & K3 & cont & fin & Kc).
    destruct pr as [sk| | |x sk|k0|k0 msg| |k0| |msg|msg|msg|ks]; cbn [cprim] in H; cbn [texec_prim].
    - inversion H. subst l. eapply okres_val; [now left|]. apply post_same; auto.
    - inversion H. subst l. eapply okres_val; [now left|]. apply post_same; auto.
    - inversion H. subst l. eapply okres_val; [now left|]. apply post_same; auto.
    - destruct (env_get (s_env s) x) as [[b|n]|]; try discriminate H. inversion H. subst l.
      eapply okres_val; [now left|]. apply post_same; auto.
    - (* assert *)
      unfold on_known in H. destruct (eat_when_sound _ _ _ _ w cont fin Kc Hck H) as [Y Nn].
      rewrite tcur_tstate. destruct (tk_eqb (hd_tok w) k0) eqn:Eq.
      + destruct (Y eq_refl) as (t & w' & s' & -> & Hne & Hin & Hc' & Ee).
        rewrite t_eat_tstate by auto. cbn [tlift]. eapply okres_val; [exact Hin|].
        replace (s_env s) with (s_env s') by congruence. now apply post_eat.
      + destruct (Nn eq_refl) as (sn & b & _ & _ & _ & _ & _ & Ho & _). discriminate Ho.
    - (* expect *)
      unfold on_known in H. destruct (eat_when_sound _ _ _ _ w cont fin Kc Hck H) as [Y Nn].
      rewrite tcur_tstate. destruct (tk_eqb (hd_tok w) k0) eqn:Eq.
      + destruct (Y eq_refl) as (t & w' & s' & -> & Hne & Hin & Hc' & Ee).
        rewrite t_eat_tstate by auto. cbn [tlift]. eapply okres_val; [exact Hin|].
        replace (s_env s) with (s_env s') by congruence. now apply post_eat.
      + destruct (Nn eq_refl) as (sn & b & _ & _ & _ & _ & _ & Ho & _). discriminate Ho.
    - (* eat *)
      unfold on_known in H. destruct (eat G C (known C N s)) as [[v s']|m] eqn:Ee; [|discriminate H]. inversion H. subst l.
      destruct (eat_sound _ _ _ _ Ee Hck) as (t & w' & -> & Hne & -> & Hc' & Ee' & _).
      rewrite t_eat_tstate by auto. cbn [tlift]. eapply okres_val; [now left|].
      replace (s_env s) with (s_env s') by congruence. now apply post_eat.
    - (* eat_if *)
      unfold on_known in H. destruct (eat_when_sound _ _ _ _ w cont fin Kc Hck H) as [Y Nn].
      rewrite tcur_tstate. destruct (tk_eqb (hd_tok w) k0) eqn:Eq.
      + destruct (Y eq_refl) as (t & w' & s' & -> & Hne & Hin & Hc' & Ee).
        rewrite t_eat_tstate by auto. eapply okres_val; [exact Hin|].
        replace (s_env s) with (s_env s') by congruence. now apply post_eat.
      + destruct (Nn eq_refl) as (sn & b & _ & Hcn & E1 & E2 & E3 & Ho & Hi). inversion Ho. subst b.
        eapply okres_val; [apply Hi; now left|]. now apply post_known.
    - inversion H. subst l. eapply okres_val; [now left|]. apply post_same; auto.
    - discriminate H.
    - discriminate H.
    - discriminate H.
    - (* at_set *)
      unfold on_known in H. inversion H. subst l. clear H.
      unfold t_at_set. rewrite tcur_tstate.
      set (q := fun t : TokenKind => existsb (tk_eqb t) ks).
      change (existsb (tk_eqb (hd_tok w)) ks) with (q (hd_tok w)).
      change (fun t : TokenKind => negb (existsb (tk_eqb t) ks)) with (fun t : TokenKind => negb (q t)).
      change (fun t : TokenKind => existsb (tk_eqb t) ks) with q.
      destruct (q (hd_tok w)) eqn:Eq.
      + destruct (restrict_sound _ q w cont fin Kc Hck Eq) as (sq & Er & Hcq & E1 & E2 & E3 & _).
        rewrite Er. eapply okres_val; [apply in_or_app; left; now left|]. now apply post_known.
      + assert (Eq' : (fun t => negb (q t)) (hd_tok w) = true) by (cbv beta; now rewrite Eq).
        destruct (restrict_sound _ _ w cont fin Kc Hck Eq') as (sq & Er & Hcq & E1 & E2 & E3 & _).
        rewrite Er. eapply okres_val; [apply in_or_app; right; now left|]. now apply post_known.
  Qed.

  (** * Calls of certified functions *)
  Lemma hdT_app v : hdT (v ++ tail) = hd_tok v.
  Proof. destruct v; [exact Hhd|reflexivity]. Qed.

  Lemma call_nt_sound M f s v s' w : cc_mode C f = Some M -> fn_body p f <> None ->
    call_nt G C N M s = COk (v, s') -> conc s w ->
    List.length w <= len0 -> (s_mv s = true -> List.length w < len0) ->
    exists m, okres s w (single [(v, s')]) (texec m p (ECall f None) (s_env s) (tstate w)).
  Proof.
    intros Hmode Hbody H Hc B1 B2. unfold call_nt in H.
    match type of H with context [pd_all G T ?fu ?L ?c ?rs] => destruct (pd_all G T fu L c rs) as [d|] eqn:Ed; [|discriminate H]; set (cc := c) in * end.
    match type of H with (if ?b then _ else _) = _ => destruct b eqn:C1; [discriminate H|] end.
    match type of H with (if ?b then _ else _) = _ => destruct b eqn:C2; [discriminate H|] end.
    match type of H with (if negb ?b then _ else _) = _ => destruct b eqn:C3; [|discriminate H] end. cbn [negb] in H.
    match type of H with (if ?b then _ else _) = _ => destruct b eqn:C4; [discriminate H|] end.
    match type of H with match ?x with [] => _ | _ => _ end = _ => destruct x as [|r1 rl] eqn:Ers; [discriminate H|] end.
    inversion H. subst v s'. clear H.
    destruct Hc as ((r & Hr & Hm) & Hcur).
    assert (Hcons : cons cc w).
    { unfold cc. destruct (s_cur s) as [|cont fin]; cbn; auto. destruct Hcur as [(t & w' & -> & Ht)|[-> _]]; [right; eauto|now left]. }
    (* decomposition of the remaining word *)
    assert (D : exists u v0 r', w = u ++ v0 /\ rmatch G (RSym (DNT M)) u /\ In r' (r1 :: rl) /\ rmatch G r' v0).
    { rewrite <- Ers.
      destruct (pd_all_complete G T Hclosed _ _ _ _ _ Ed r w Hr Hm Hcons) as [(u & v0 & r' & E & Hl & Hin & Hm')|[(m0 & Hin & Hm')|[He Hw]]].
      - exists u, v0, r'. repeat split; auto. apply dedup_rx_In_conv. apply in_or_app. now left.
      - destruct (nt_null T M) eqn:En.
        + exists [], w, m0. repeat split; auto; [eapply null_exact; eauto|].
          apply dedup_rx_In_conv. apply in_or_app. right. apply in_or_app. now left.
        + cbn [negb andb] in C1. destruct (d_miss d); [contradiction|discriminate C1].
      - subst w. destruct (nt_null T M) eqn:En.
        + exists [], [], REps. repeat split; auto; [eapply null_exact; eauto| |constructor].
          apply dedup_rx_In_conv. apply in_or_app. right. apply in_or_app. right. rewrite He. now left.
        + cbn [negb andb] in C2. rewrite He in C2. cbn [andb] in C2. apply negb_false_iff in C2.
          destruct (s_cur s) as [|cont [|f0 fl]]; try discriminate C2.
          destruct Hcur as [(t & w' & E & _)|[_ []]]. discriminate E. }
    destruct D as (u & v0 & r' & -> & Hu & Hr' & Hv).
    (* the follower of the callee *)
    assert (Hfol : In (hd_tok v0) (cc_fol C M)).
    { rewrite forallb_forall in C3. specialize (C3 r' Hr'). apply andb_true_iff in C3 as [F1 F2].
      destruct v0 as [|t v'].
      - rewrite (null_complete G T Hclosed r' Hv) in F2. cbn [negb orb] in F2. cbn [hd_tok].
        eapply kset_sub_In; [exact F2|]. destruct (s_cur s) as [|[|c0 cl] fin]; auto.
        destruct Hcur as [(t & w' & _ & [])|[_ Hf]]. exact Hf.
      - cbn [hd_tok]. eapply kset_sub_In; [exact F1|]. eapply first_complete; eauto. }
    assert (Lw : List.length (u ++ v0) = List.length u + List.length v0) by apply app_length.
    assert (Hmeas : List.length u < len0 \/ (List.length u <= len0 /\ cc_rank C M < cc_rank C N)).
    { destruct (s_mv s) eqn:Emv.
      - left. specialize (B2 eq_refl). lia.
      - right. split; [lia|]. cbn [negb andb] in C4. apply negb_false_iff in C4. now apply Nat.ltb_lt in C4. }
    destruct (HIH M f u Hmode Hbody Hu Hmeas (v0 ++ tail) e0 (s_env s) ltac:(rewrite hdT_app; exact Hfol)) as (m & Hrun).
    exists m. unfold tstate. rewrite <- app_assoc. rewrite Hrun.
    eapply okres_val; [now left|]. apply post_intro.
    - reflexivity.
    - reflexivity.
    - split; [exists r'; split; auto|]. cbn [s_cur].
      destruct (s_cur s) as [|[|c0 cl] fin] eqn:Ecur; cbn; auto.
      destruct Hcur as [(t & w' & _ & [])|[E Hf]]. apply app_eq_nil in E as [_ ->]. right. split; auto.
    - now exists u.
    - cbn [s_mv]. intros Hf. apply orb_true_iff in Hf as [Hf|Hf]; [now left|right].
      rewrite Lw. destruct u; [|cbn; lia]. apply negb_true_iff in Hf.
      pose proof (null_complete G T Hclosed _ Hu) as Hn. cbn [rnull] in Hn. congruence.
    - cbn [s_lp]. intros Hf. apply orb_true_iff in Hf as [Hf|Hf]; [now left|right].
      rewrite Lw. destruct u; [|cbn; lia]. apply negb_true_iff in Hf.
      pose proof (null_complete G T Hclosed _ Hu) as Hn. cbn [rnull] in Hn. congruence.
  Qed.

  (** * Composition *)
  Lemma okres_trans s w s1 w1 en1 ts1 o r : post s w s1 w1 en1 ts1 -> okres s1 w1 o r -> okres s w o r.
  Proof.
    intros P1. destruct r; cbn; auto.
    - intros (s' & w' & Hin & Hp). exists s', w'. split; auto. eapply post_trans; eauto.
    - intros (s' & w' & Hin & Hp). exists s', w'. split; auto. eapply post_trans; eauto.
    - intros (s' & w' & Hin & Hp). exists s', w'. split; auto. eapply post_trans; eauto.
  Qed.

  Definition sound_for (ex : cst -> cres couts) (e : expr) : Prop :=
    forall s o w, ex s = COk o -> conc s w -> List.length w <= len0 -> (s_mv s = true -> List.length w < len0) ->
      exists m, okres s w o (texec m p e (s_env s) (tstate w)).

  (** * Loops *)
  Definition fix_lp (h st : cst) : cst := with_lp st (s_lp h || s_lp st).
  Lemma conc_with_lp s b w : conc (with_lp s b) w <-> conc s w.
  Proof. unfold conc. cbn. tauto. Qed.
  Lemma post_fix h w st w' en ts : post (with_lp h false) w st w' en ts -> post h w (fix_lp h st) w' en ts.
  Proof.
    intros (P1 & P2 & P3 & P4 & P5 & P6). apply post_intro.
    - exact P1.
    - exact P2.
    - unfold fix_lp. now apply conc_with_lp.
    - exact P4.
    - exact P5.
    - unfold fix_lp. cbn [s_lp with_lp]. intros H. apply orb_true_iff in H as [H|H]; [now left|].
      destruct (P6 H) as [H0|H0]; [discriminate H0|now right].
  Qed.
  Lemma post_after_progress h w y w2 s' w' en ts :
    (exists c, w = c ++ w2) -> List.length w2 < List.length w -> (s_mv y = true -> s_mv h = true \/ List.length w2 < List.length w) ->
    post y w2 s' w' en ts -> post h w s' w' en ts.
  Proof.
    intros (c1 & E1) L Hmv (P1 & P2 & P3 & (c2 & E2) & P5 & P6).
    assert (L2 : List.length w' <= List.length w2) by (subst w2; rewrite app_length; lia).
    apply post_intro; auto.
    - exists (c1 ++ c2). subst w w2. now rewrite app_assoc.
    - intros H. destruct (P5 H) as [H1|H1]; [|right; lia]. destruct (Hmv H1) as [H0|H0]; [now left|right; lia].
    - intros _. right. lia.
  Qed.

  Definition is_true_v (vs : val * cst) : bool := match fst vs with VB true => true | _ => false end.
  Definition is_false_v (vs : val * cst) : bool := match fst vs with VB false => true | _ => false end.
  Definition is_vn (vs : val * cst) : bool := match fst vs with VB _ => false | VN _ => true end.

  Section Loop.
    Variables exc exb : cst -> cres couts.

    Lemma wround_spec : forall I res next, wround exc exb I = COk (res, next) ->
      forall h, In h I -> exists oc ob,
        exc (with_lp h false) = COk oc /\ k_brk oc = [] /\
        bind_norm {| k_norm := filter is_true_v (k_norm oc); k_brk := []; k_ret := [] |} (fun _ st1 => exb st1) = COk ob /\
        existsb is_vn (k_norm oc) = false /\ forallb (fun vs => s_lp (snd vs)) (k_norm ob) = true /\
        (forall st, In (VB false, st) (k_norm oc) -> In (VB true, fix_lp h st) (k_norm res)) /\
        (forall st, In st (k_brk ob) -> In (VB true, fix_lp h st) (k_norm res)) /\
        (forall v st, In (v, st) (k_ret oc ++ k_ret ob) -> In (v, fix_lp h st) (k_ret res)) /\
        (forall v st, In (v, st) (k_norm ob) -> In st next).
    Proof.
      induction I as [|h0 I IH]; intros res next H h Hh; [contradiction|].
      cbn [wround fold_right] in H. fold (wround exc exb I) in H.
      destruct (wround exc exb I) as [[res1 next1]|m] eqn:Ew; [|discriminate H].
      destruct (exc (with_lp h0 false)) as [oc|m] eqn:Ec; [|discriminate H].
      destruct (k_brk oc) eqn:Eb; [|discriminate H].
      match type of H with match ?X with COk _ => _ | CErr _ => _ end = _ => destruct X as [ob|m] eqn:Ebody; [|discriminate H] end.
      match type of H with (if ?b then _ else _) = _ => destruct b eqn:Evn; [discriminate H|] end.
      match type of H with (if negb ?b then _ else _) = _ => destruct b eqn:Elp; [|discriminate H] end. cbn [negb] in H.
      inversion H. subst res next. clear H.
      destruct Hh as [->|Hh].
      - exists oc, ob. split; auto. split; auto. split; [exact Ebody|]. split; [exact Evn|]. split; [exact Elp|].
        split; [|split; [|split]].
        + intros st Hin. cbn [k_norm]. apply in_or_app. left. apply in_map_iff. exists (fix_lp h st). split; auto.
          apply in_or_app. left. apply in_map_iff. exists (VB false, st). split; auto. apply filter_In. split; auto.
        + intros st Hin. cbn [k_norm]. apply in_or_app. left. apply in_map_iff. exists (fix_lp h st). split; auto.
          apply in_or_app. right. apply in_map_iff. exists st. split; auto.
        + intros v st Hin. cbn [k_ret]. apply in_or_app. left. apply in_map_iff. exists (v, st). split; auto.
        + intros v st Hin. apply in_or_app. left. apply in_map_iff. exists (v, st). split; auto.
      - destruct (IH _ _ eq_refl h Hh) as (oc' & ob' & A1 & A2 & A3 & A4 & A5 & A6 & A7 & A8 & A9).
        exists oc', ob'. split; auto. split; auto. split; auto. split; auto. split; auto.
        split; [|split; [|split]].
        + intros st Hin. cbn [k_norm]. apply in_or_app. right. auto.
        + intros st Hin. cbn [k_norm]. apply in_or_app. right. auto.
        + intros v st Hin. cbn [k_ret]. apply in_or_app. right. eauto.
        + intros v st Hin. apply in_or_app. right. eauto.
    Qed.

    Lemma ceqv_trans a b c : ceqv a b -> ceqv b c -> ceqv a c.
    Proof. intros (A1 & A2 & A3 & A4 & A5) (B1 & B2 & B3 & B4 & B5). repeat split; try congruence. auto. Qed.

    Lemma witer_spec : forall n I0 res, witer exc exb n I0 = COk res ->
      exists I res0 next, (forall x, In x I0 -> exists y, In y I /\ ceqv x y) /\ wround exc exb I = COk (res0, next) /\
                          res = couts_dedup res0 /\ (forall x, In x next -> exists y, In y I /\ ceqv x y).
    Proof.
      induction n as [|n IH]; intros I0 res H; cbn [witer] in H; [discriminate H|].
      destruct (wround exc exb I0) as [[res0 next]|m] eqn:Ew; [|discriminate H].
      cbv zeta in H. destruct (subset_cst (dedup_cst next) I0) eqn:Es.
      - inversion H. subst res. exists I0, res0, next. split; [intros x Hx; exists x; split; auto; apply ceqv_refl|].
        split; auto. split; auto. intros x Hx. destruct (dedup_cst_In _ _ Hx) as (y & Hy & E1).
        destruct (subset_cst_In _ _ Es y Hy) as (z & Hz & E2). exists z. split; auto. eapply ceqv_trans; eauto.
      - destruct (IH _ _ H) as (I & res1 & next1 & A1 & A2 & A3 & A4). exists I, res1, next1. split; auto.
        intros x Hx. destruct (dedup_cst_In x (I0 ++ dedup_cst next) ltac:(apply in_or_app; now left)) as (y & Hy & E1).
        destruct (A1 y Hy) as (z & Hz & E2). exists z. split; auto. eapply ceqv_trans; eauto.
    Qed.
  End Loop.

  Lemma is_vn_false l n s : existsb is_vn l = false -> ~ In (VN n, s) l.
  Proof.
    intros H Hin. assert (E : existsb is_vn l = true) by (apply existsb_exists; exists (VN n, s); split; auto).
    congruence.
  Qed.

  Section LoopSound.
    Variables (exc exb : cst -> cres couts) (c b : expr).
    Hypothesis Hc : sound_for exc c.
    Hypothesis Hb : sound_for exb b.
    Variables (I : list cst) (res : couts) (next : list cst).
    Hypothesis Hround : wround exc exb I = COk (res, next).
    Hypothesis Hsat : forall x, In x next -> exists y, In y I /\ ceqv x y.

    Lemma loop_sound : forall n w, List.length w < n -> forall h, In h I -> conc h w ->
      List.length w <= len0 -> (s_mv h = true -> List.length w < len0) ->
      exists m, okres h w res (texec m p (EWhile c b) (s_env h) (tstate w)).
    Proof.
      induction n as [|n IH]; intros w Hn h Hh Hcw B1 B2; [lia|].
      destruct (wround_spec exc exb I res next Hround h Hh) as (oc & ob & Ec & Ebrk & Ebody & Evn & Elp & X1 & X2 & X3 & X4).
      assert (Hc0 : conc (with_lp h false) w) by now apply conc_with_lp.
      destruct (Hc _ _ w Ec Hc0 B1 B2) as (m1 & R1). change (s_env (with_lp h false)) with (s_env h) in R1.
      pose proof (okres_not_oof _ _ _ _ R1) as N1.
      destruct (texec m1 p c (s_env h) (tstate w)) as [v en1 ts1|en1 ts1|v en1 ts1| |] eqn:E1; cbn [okres] in R1; try contradiction.
      - destruct R1 as (s1 & w1 & Hin1 & P1).
        destruct v as [[|]|nv].
        + (* condition true: the body *)
          destruct (bind_norm_spec _ _ _ Ebody) as (_ & _ & Bn).
          destruct (Bn (VB true) s1 ltac:(cbn [k_norm]; apply filter_In; split; auto)) as (o1 & Eb1 & Inc1).
          pose proof P1 as (Pe & Pt & Pc & _). subst en1 ts1.
          destruct (post_bounds _ _ _ _ _ _ P1 B1 B2) as (B1' & B2').
          destruct (Hb _ _ w1 Eb1 Pc B1' B2') as (m2 & R2).
          pose proof (okres_not_oof _ _ _ _ R2) as N2.
          destruct (texec m2 p b (s_env s1) (tstate w1)) as [v2 en2 ts2|en2 ts2|v2 en2 ts2| |] eqn:E2; cbn [okres] in R2; try contradiction.
          * (* the body continues: next iteration *)
            destruct R2 as (s2 & w2 & Hin2 & P2). destruct Inc1 as (In1 & In2 & In3).
            pose proof (post_trans _ _ _ _ _ _ _ _ _ _ P1 P2) as P12.
            assert (Hlp : s_lp s2 = true).
            { rewrite forallb_forall in Elp. apply (Elp (v2, s2)). now apply In1. }
            pose proof P12 as (Pe2 & Pt2 & Pc2 & Psuf & Pmv & Plp).
            assert (Lt : List.length w2 < List.length w).
            { destruct (Plp Hlp) as [Hx|Hx]; [discriminate Hx|exact Hx]. }
            destruct (Hsat s2 (X4 v2 s2 (In1 _ Hin2))) as (y & Hy & Ey).
            pose proof Ey as (_ & _ & Ey3 & Ey4 & _).
            destruct (IH w2 ltac:(lia) y Hy ltac:(eapply conc_eqv; eauto) ltac:(lia) ltac:(intros _; lia)) as (m3 & R3).
            pose proof (okres_not_oof _ _ _ _ R3) as N3.
            exists (S (Nat.max m1 (Nat.max m2 m3))). rewrite tx_while.
            rewrite (fuel_up p m1 c _ _ _ _ E1 N1) by lia.
            rewrite (fuel_up p m2 b _ _ _ _ E2 N2) by lia.
            subst en2 ts2. rewrite Ey3.
            rewrite (fuel_up p m3 (EWhile c b) _ _ _ _ eq_refl N3) by lia.
            (* transport the result *)
            assert (Hmv' : s_mv y = true -> s_mv h = true \/ List.length w2 < List.length w).
            { intros Hq. rewrite <- Ey4 in Hq. exact (Pmv Hq). }
            destruct (texec m3 p (EWhile c b) (s_env y) (tstate w2)) as [v3 en3 ts3|en3 ts3|v3 en3 ts3| |]; cbn [okres] in R3 |- *; try contradiction.
            -- destruct R3 as (s' & w' & Hin & Hp). exists s', w'. split; auto. eapply post_after_progress; eauto.
            -- destruct R3 as (s' & w' & Hin & Hp). exists s', w'. split; auto. eapply post_after_progress; eauto.
            -- destruct R3 as (s' & w' & Hin & Hp). exists s', w'. split; auto. eapply post_after_progress; eauto.
          * (* break *)
            destruct R2 as (s2 & w2 & Hin2 & P2). destruct Inc1 as (In1 & In2 & In3).
            exists (S (Nat.max m1 m2)). rewrite tx_while.
            rewrite (fuel_up p m1 c _ _ _ _ E1 N1) by lia. rewrite (fuel_up p m2 b _ _ _ _ E2 N2) by lia.
            cbn [okres]. exists (fix_lp h s2), w2. split; [apply X2; now apply In2|].
            apply post_fix. eapply post_trans; eauto.
          * (* return *)
            destruct R2 as (s2 & w2 & Hin2 & P2). destruct Inc1 as (In1 & In2 & In3).
            exists (S (Nat.max m1 m2)). rewrite tx_while.
            rewrite (fuel_up p m1 c _ _ _ _ E1 N1) by lia. rewrite (fuel_up p m2 b _ _ _ _ E2 N2) by lia.
            cbn [okres]. exists (fix_lp h s2), w2. split; [apply X3; apply in_or_app; right; now apply In3|].
            apply post_fix. eapply post_trans; eauto.
        + (* condition false: exit *)
          exists (S m1). rewrite tx_while, E1. cbn [okres]. exists (fix_lp h s1), w1. split; [now apply X1|]. now apply post_fix.
        + exfalso. eapply is_vn_false; eauto.
      - destruct R1 as (s1 & w1 & Hin1 & _). rewrite Ebrk in Hin1. contradiction.
      - destruct R1 as (s1 & w1 & Hin1 & P1). exists (S m1). rewrite tx_while, E1. cbn [okres].
        exists (fix_lp h s1), w1. split; [apply X3; apply in_or_app; now left|]. now apply post_fix.
    Qed.
  End LoopSound.

  (** * Inline calls *)
  Lemma conc_with_env s en w : conc (with_env s en) w <-> conc s w.
  Proof. unfold conc. cbn. tauto. Qed.
  Lemma post_with_env_l s en w s' w' en' ts : post (with_env s en) w s' w' en' ts -> post s w s' w' en' ts.
  Proof. intros (P1 & P2 & P3 & P4 & P5 & P6). apply post_intro; auto. Qed.
  Lemma post_with_env_r s w s' w' en ts en2 : post s w s' w' en ts -> post s w (with_env s' en2) w' en2 ts.
  Proof.
    intros (P1 & P2 & P3 & P4 & P5 & P6). apply post_intro; auto; try (now apply conc_with_env).
  Qed.

  Lemma cinline_sound rec f arg s o w : (forall e, sound_for (rec e) e) ->
    cinline p rec f arg s = COk o -> conc s w -> List.length w <= len0 -> (s_mv s = true -> List.length w < len0) ->
    exists m, okres s w o (texec m p (ECall f arg) (s_env s) (tstate w)).
  Proof.
    intros Hrec H Hcw B1 B2. unfold cinline in H.
    destruct (fn_body p f) as [body|] eqn:Ef; [|discriminate H].
    match type of H with match ?X with Some _ => _ | None => _ end = _ => destruct X as [cen0|] eqn:Ecen; [|discriminate H] end.
    destruct (rec body (with_env s cen0)) as [ob|m0] eqn:Eb; [|discriminate H].
    destruct (k_brk ob) eqn:Ebrk; [|discriminate H].
    destruct (map_res (cback s arg) (k_norm ob ++ k_ret ob)) as [l|m0] eqn:Em; [|discriminate H].
    inversion H. subst o. clear H.
    assert (Hc0 : conc (with_env s cen0) w) by now apply conc_with_env.
    destruct (Hrec body _ _ w Eb Hc0 B1 B2) as (m & R). change (s_env (with_env s cen0)) with cen0 in R.
    exists (S m). cbn [texec]. rewrite Ef. rewrite Ecen.
    (* the write-back *)
    assert (Back : forall v cen1 ts1 s1 w1, In (v, s1) (k_norm ob ++ k_ret ob) -> post (with_env s cen0) w s1 w1 cen1 ts1 ->
              okres s w {| k_norm := l; k_brk := []; k_ret := [] |}
                (match arg with
                 | Some (x, true) => match env_get cen1 0 with Some w0 => TVal v (env_set (s_env s) x w0) ts1 | None => TStuck end
                 | _ => TVal v (s_env s) ts1
                 end)).
    { intros v cen1 ts1 s1 w1 Hin Hp. destruct (map_res_spec _ _ _ Em _ Hin) as ([v' s2] & Ecb & Hin2).
      pose proof Hp as (Pe & _). unfold cback in Ecb. cbn [fst snd] in Ecb.
      destruct arg as [[x [|]]|].
      - rewrite <- Pe in Ecb. destruct (env_get cen1 0) as [w0|]; [|discriminate Ecb]. inversion Ecb. subst v' s2.
        cbn [okres]. eexists _, w1. split; [exact Hin2|]. eapply post_with_env_r. eapply post_with_env_l; eauto.
      - inversion Ecb. subst v' s2. cbn [okres]. eexists _, w1. split; [exact Hin2|]. eapply post_with_env_r. eapply post_with_env_l; eauto.
      - inversion Ecb. subst v' s2. cbn [okres]. eexists _, w1. split; [exact Hin2|]. eapply post_with_env_r. eapply post_with_env_l; eauto. }
    destruct (texec m p body cen0 (tstate w)) as [v cen1 ts1|cen1 ts1|v cen1 ts1| |]; cbn [okres] in R; try contradiction.
    - destruct R as (s1 & w1 & Hin & Hp). eapply Back; eauto. apply in_or_app. now left.
    - destruct R as (s1 & w1 & Hin & _). rewrite Ebrk in Hin. contradiction.
    - destruct R as (s1 & w1 & Hin & Hp). eapply Back; eauto. apply in_or_app. now right.
  Qed.

  (** * The abstract execution is sound *)
  Lemma cdedup_inv r o : cdedup r = COk o -> exists o0, r = COk o0 /\ o = couts_dedup o0.
  Proof. destruct r; cbn; intros H; [|discriminate H]. inversion H. eauto. Qed.

  Lemma cexec_sound : forall n e, sound_for (cexec G p C N n e) e.
  Proof.
    induction n as [|n IH]; intros e s o w H Hcw B1 B2; [discriminate H|].
    cbn [cexec] in H. apply cdedup_inv in H as (o0 & H & ->).
    cut (exists m, okres s w o0 (texec m p e (s_env s) (tstate w))).
    { intros (m & R). exists m. now apply okres_dedup. }
    destruct e as [b|x|a|pr|f arg|a b|c a b|c b| |a|x a].
    - (* EB *) inversion H. subst o0. exists 1. cbn [texec okres]. exists s, w. split; [now left|]. now apply post_same.
    - (* EVar *)
      destruct (env_get (s_env s) x) as [v|] eqn:Ev; [|discriminate H]. inversion H. subst o0.
      exists 1. cbn [texec]. rewrite Ev. cbn [okres]. exists s, w. split; [now left|]. now apply post_same.
    - (* ENot *)
      destruct (cexec G p C N n a s) as [oa|m0] eqn:Ea; [|discriminate H].
      destruct (existsb _ (k_norm oa)) eqn:Evn; [discriminate H|]. inversion H. subst o0. clear H.
      destruct (IH a _ _ w Ea Hcw B1 B2) as (m & R). exists (S m). cbn [texec].
      destruct (texec m p a (s_env s) (tstate w)) as [v en1 ts1|en1 ts1|v en1 ts1| |]; cbn [okres] in R; try contradiction.
      + destruct R as (s1 & w1 & Hin & Hp). destruct v as [bv|nv].
        * cbn [okres k_norm]. exists s1, w1. split; auto. apply in_map_iff. exists (VB bv, s1). split; auto.
        * exfalso. eapply (is_vn_false _ nv s1); eauto.
      + exact R.
      + exact R.
    - (* EPrim *)
      destruct (cprim G C N pr s) as [l|m0] eqn:Ep; [|discriminate H]. inversion H. subst o0.
      exists 1. cbn [texec]. change {| k_norm := dedup_vcst l; k_brk := []; k_ret := [] |} with (couts_dedup (single l)).
      apply okres_dedup. now apply cprim_sound.
    - (* ECall *)
      assert (Inl : cinline p (cexec G p C N n) f arg s = COk o0 ->
                    exists m, okres s w o0 (texec m p (ECall f arg) (s_env s) (tstate w))).
      { intros Hi. eapply cinline_sound; eauto. }
      destruct (if cc_inl C f then None else cc_mode C f) as [M|] eqn:Emode; [|auto].
      destruct arg as [a0|]; [auto|].
      destruct (fn_body p f) as [body|] eqn:Ef; [|auto].
      destruct (call_nt G C N M s) as [[v s']|m0] eqn:Ecall; [|auto].
      inversion H. subst o0.
      assert (Hm : cc_mode C f = Some M) by (destruct (cc_inl C f); [discriminate Emode|exact Emode]).
      eapply call_nt_sound; eauto. congruence.
    - (* ESeq *)
      destruct (cexec G p C N n a s) as [oa|m0] eqn:Ea; [|discriminate H].
      destruct (IH a _ _ w Ea Hcw B1 B2) as (m1 & R1). pose proof (okres_not_oof _ _ _ _ R1) as N1.
      destruct (bind_norm_spec _ _ _ H) as (Ib & Ir & Bn).
      destruct (texec m1 p a (s_env s) (tstate w)) as [v en1 ts1|en1 ts1|v en1 ts1| |] eqn:E1; cbn [okres] in R1; try contradiction.
      + destruct R1 as (s1 & w1 & Hin & P1). destruct (Bn v s1 Hin) as (o1 & Eb & Inc).
        pose proof P1 as (Pe & Pt & Pc & _). subst en1 ts1.
        destruct (post_bounds _ _ _ _ _ _ P1 B1 B2) as (B1' & B2').
        destruct (IH b _ _ w1 Eb Pc B1' B2') as (m2 & R2). pose proof (okres_not_oof _ _ _ _ R2) as N2.
        exists (S (Nat.max m1 m2)). rewrite tx_seq. rewrite (fuel_up p m1 a _ _ _ _ E1 N1) by lia.
        rewrite (fuel_up p m2 b _ _ _ _ eq_refl N2) by lia.
        eapply okres_incl; [exact Inc|]. eapply okres_trans; eauto.
      + destruct R1 as (s1 & w1 & Hin & P1). exists (S m1). rewrite tx_seq, E1. cbn [okres]. exists s1, w1. split; auto.
      + destruct R1 as (s1 & w1 & Hin & P1). exists (S m1). rewrite tx_seq, E1. cbn [okres]. exists s1, w1. split; auto.
    - (* EIf *)
      destruct (cexec G p C N n c s) as [oc|m0] eqn:Ec; [|discriminate H].
      destruct (IH c _ _ w Ec Hcw B1 B2) as (m1 & R1). pose proof (okres_not_oof _ _ _ _ R1) as N1.
      destruct (bind_norm_spec _ _ _ H) as (Ib & Ir & Bn).
      destruct (texec m1 p c (s_env s) (tstate w)) as [v en1 ts1|en1 ts1|v en1 ts1| |] eqn:E1; cbn [okres] in R1; try contradiction.
      + destruct R1 as (s1 & w1 & Hin & P1). destruct (Bn v s1 Hin) as (o1 & Eb & Inc).
        pose proof P1 as (Pe & Pt & Pc & _). subst en1 ts1.
        destruct (post_bounds _ _ _ _ _ _ P1 B1 B2) as (B1' & B2').
        destruct v as [[|]|nv]; [| |discriminate Eb].
        * destruct (IH a _ _ w1 Eb Pc B1' B2') as (m2 & R2). pose proof (okres_not_oof _ _ _ _ R2) as N2.
          exists (S (Nat.max m1 m2)). rewrite tx_if. rewrite (fuel_up p m1 c _ _ _ _ E1 N1) by lia.
          rewrite (fuel_up p m2 a _ _ _ _ eq_refl N2) by lia.
          eapply okres_incl; [exact Inc|]. eapply okres_trans; eauto.
        * destruct (IH b _ _ w1 Eb Pc B1' B2') as (m2 & R2). pose proof (okres_not_oof _ _ _ _ R2) as N2.
          exists (S (Nat.max m1 m2)). rewrite tx_if. rewrite (fuel_up p m1 c _ _ _ _ E1 N1) by lia.
          rewrite (fuel_up p m2 b _ _ _ _ eq_refl N2) by lia.
          eapply okres_incl; [exact Inc|]. eapply okres_trans; eauto.
      + destruct R1 as (s1 & w1 & Hin & P1). exists (S m1). rewrite tx_if, E1. cbn [okres]. exists s1, w1. split; auto.
      + destruct R1 as (s1 & w1 & Hin & P1). exists (S m1). rewrite tx_if, E1. cbn [okres]. exists s1, w1. split; auto.
    - (* EWhile *)
      destruct (witer_spec _ _ _ _ _ H) as (I & res0 & next & A1 & A2 & -> & A4).
      destruct (A1 s ltac:(now left)) as (y & Hy & Ey). pose proof Ey as (_ & _ & Ey3 & Ey4 & _).
      destruct (loop_sound _ _ c b (IH c) (IH b) I res0 next A2 A4 (S (List.length w)) w ltac:(lia) y Hy
                  ltac:(eapply conc_eqv; eauto) B1 ltac:(rewrite <- Ey4; exact B2)) as (m & R).
      exists m. rewrite Ey3. apply okres_dedup. eapply okres_eqv_l; eauto.
    - (* EBreak *) inversion H. subst o0. exists 1. cbn [texec okres]. exists s, w. split; [now left|]. now apply post_same.
    - (* EReturn *)
      destruct (cexec G p C N n a s) as [oa|m0] eqn:Ea; [|discriminate H]. inversion H. subst o0. clear H.
      destruct (IH a _ _ w Ea Hcw B1 B2) as (m & R). exists (S m). cbn [texec].
      destruct (texec m p a (s_env s) (tstate w)) as [v en1 ts1|en1 ts1|v en1 ts1| |]; cbn [okres] in R; try contradiction.
      + destruct R as (s1 & w1 & Hin & Hp). cbn [okres k_ret]. exists s1, w1. split; auto. apply in_or_app. now left.
      + exact R.
      + destruct R as (s1 & w1 & Hin & Hp). cbn [okres k_ret]. exists s1, w1. split; auto. apply in_or_app. now right.
    - (* ESet *)
      destruct (cexec G p C N n a s) as [oa|m0] eqn:Ea; [|discriminate H]. inversion H. subst o0. clear H.
      destruct (IH a _ _ w Ea Hcw B1 B2) as (m & R). exists (S m). cbn [texec].
      destruct (texec m p a (s_env s) (tstate w)) as [v en1 ts1|en1 ts1|v en1 ts1| |]; cbn [okres] in R; try contradiction.
      + destruct R as (s1 & w1 & Hin & Hp). cbn [okres k_norm]. eexists _, w1. split.
        * apply in_map_iff. exists (v, s1). split; [reflexivity|exact Hin].
        * cbn [fst snd]. pose proof Hp as (Pe & _). subst en1. eapply post_with_env_r; eauto.
      + exact R.
      + exact R.
  Qed.
  End Fn.

  (** * All certified functions *)
  Variable cfuel : nat.
  Hypothesis Hcheck : forall f, f < List.length (fns p) -> cres_ok (check_cfn G p C cfuel f) = true.

  Lemma fn_sound M f w :
    cc_mode C f = Some M -> fn_body p f <> None -> rmatch G (RSym (DNT M)) w ->
    (forall M' f' u, cc_mode C f' = Some M' -> fn_body p f' <> None -> rmatch G (RSym (DNT M')) u ->
        (List.length u < List.length w \/ (List.length u <= List.length w /\ cc_rank C M' < cc_rank C M)) -> Parses M' f' u) ->
    Parses M f w.
  Proof.
    intros Hmode Hbody Hd HIH tail e en Hk.
    assert (Hf : f < List.length (fns p)) by (apply nth_error_Some; exact Hbody).
    pose proof (Hcheck f Hf) as Hc. unfold check_cfn in Hc. rewrite Hmode in Hc.
    destruct (fn_body p f) as [body|] eqn:Ef; [|contradiction].
    inversion Hd as [| |m rhs w0 Hn Hr| | | | |]; subst. rewrite Hn in Hc.
    destruct (cexec G p C M cfuel body (init_cst rhs)) as [o|m0] eqn:Ex; [|discriminate Hc].
    destruct (k_brk o) eqn:Ebrk; [|discriminate Hc].
    destruct (forallb exit_ok (k_norm o ++ k_ret o)) eqn:Eexit; [|discriminate Hc]. clear Hc.
    assert (Hc0 : conc (hdT tail) (init_cst rhs) w).
    { split; [exists rhs; split; [now left|exact Hr]|exact I]. }
    destruct (cexec_sound M tail (hdT tail) eq_refl e (List.length w) Hk HIH cfuel body _ _ w Ex Hc0 (le_n _) ltac:(cbn; discriminate)) as (m & R).
    change (s_env (init_cst rhs)) with (@nil val) in R.
    exists (S m). cbn [texec]. rewrite Ef.
    assert (Exit : forall v s' w', In (v, s') (k_norm o ++ k_ret o) -> conc (hdT tail) s' w' -> v = VB true /\ w' = []).
    { intros v s' w' Hin ((r & Hr' & Hm') & Hcur). rewrite forallb_forall in Eexit. specialize (Eexit _ Hin).
      unfold exit_ok in Eexit. cbn [fst snd] in Eexit. apply andb_true_iff in Eexit as [E1 E2].
      split; [destruct v as [[|]|]; try discriminate E1; reflexivity|].
      destruct (s_cur s') as [|[|c0 cl] fin].
      - rewrite forallb_forall in E2. specialize (E2 r Hr'). unfold is_eps in E2. apply rx_eqb_eq in E2. subst r. now inversion Hm'.
      - destruct Hcur as [(t & w1 & _ & [])|[E _]]. exact E.
      - rewrite forallb_forall in E2. specialize (E2 r Hr'). unfold is_eps in E2. apply rx_eqb_eq in E2. subst r. now inversion Hm'. }
    change (mk_ts (w ++ tail) e) with (tstate tail e w).
    destruct (texec m p body [] (tstate tail e w)) as [v cen1 ts1|cen1 ts1|v cen1 ts1| |]; cbn [okres] in R; try contradiction.
    - destruct R as (s' & w' & Hin & (_ & Pt & Pc & _)).
      destruct (Exit v s' w' ltac:(apply in_or_app; now left) Pc) as (-> & ->). subst ts1. reflexivity.
    - destruct R as (s' & w' & Hin & _). rewrite Ebrk in Hin. contradiction.
    - destruct R as (s' & w' & Hin & (_ & Pt & Pc & _)).
      destruct (Exit v s' w' ltac:(apply in_or_app; now right) Pc) as (-> & ->). subst ts1. reflexivity.
  Qed.

  Theorem complete_sound : forall M f w, cc_mode C f = Some M -> fn_body p f <> None -> rmatch G (RSym (DNT M)) w -> Parses M f w.
  Proof.
    assert (Main : forall len, forall rk M f w, cc_mode C f = Some M -> fn_body p f <> None -> rmatch G (RSym (DNT M)) w ->
                     List.length w = len -> cc_rank C M = rk -> Parses M f w).
    { induction len as [len IHlen] using lt_wf_ind. induction rk as [rk IHrk] using lt_wf_ind.
      intros M f w Hmode Hbody Hd Hl Hr. apply fn_sound; auto.
      intros M' f' u Hmode' Hbody' Hd' [Hlt|[Hle Hrk]].
      - eapply (IHlen (List.length u)); eauto. lia.
      - destruct (Nat.eq_dec (List.length u) len) as [E|E].
        + eapply (IHrk (cc_rank C M')); eauto. lia.
        + eapply (IHlen (List.length u)); eauto. lia. }
    intros M f w Hmode Hbody Hd. eapply Main; eauto.
  Qed.
End Sound.

(** the checker is sound *)
Theorem check_complete_sound G p C fuel : check_complete G p C fuel = true ->
  forall M f w, cc_mode C f = Some M -> f < List.length (fns p) -> derives G M w ->
  forall tail e en, In (hdT tail) (cc_fol C M) ->
    exists m, texec m p (ECall f None) en (mk_ts (w ++ tail) e) = TVal (VB true) en (mk_ts tail e).
Proof.
  unfold check_complete. intros H M f w Hmode Hf Hd tail e en Hk.
  apply andb_true_iff in H as [H H3]. apply andb_true_iff in H as [H1 H2].
  rewrite forallb_forall in H3.
  assert (Hcheck : forall f0, f0 < List.length (fns p) -> cres_ok (check_cfn G p C fuel f0) = true).
  { intros f0 Hf0. apply H3. apply in_seq. lia. }
  assert (Hbody : fn_body p f <> None) by (apply nth_error_Some; exact Hf).
  exact (complete_sound G p C H1 H2 fuel Hcheck M f w Hmode Hbody Hd tail e en Hk).
Qed.

(** emptying rules only removes words *)
Lemma blank_sub bl G : forall r w, rmatch (blank bl G) r w -> rmatch G r w.
Proof.
  induction 1 as [|ks k Hk|n r w Hn Hr IH| | | | |]; try (constructor; auto; fail).
  unfold blank in Hn. rewrite nth_error_map in Hn.
  destruct (nth_error (combine (seq 0 (List.length G)) G) n) as [[i rhs]|] eqn:E; [|discriminate Hn].
  cbn [option_map fst snd] in Hn.
  assert (Hi : nth_error G n = Some rhs).
  { clear -E. revert n E. generalize 0 as st. induction G as [|g G' IHG]; intros st n E; [destruct n; discriminate E|].
    destruct n as [|n]; cbn in E |- *; [now inversion E|]. eapply IHG; eauto. }
  destruct (existsb (Nat.eqb i) bl).
  - inversion Hn. subst r. inversion Hr.
  - inversion Hn. subst r. eapply MNT; eauto.
Qed.

(** nonterminals that cannot reach an emptied rule keep all their words *)
Fixpoint rx_nts (r : rx) : list nat :=
  match r with
  | RSym (DNT m) => [m]
  | RSeq a b | RAlt a b => rx_nts a ++ rx_nts b
  | RStar a => rx_nts a
  | _ => []
  end.
Definition nts_closed (G : grammar) (S : list nat) : bool :=
  forallb (fun n => match nth_error G n with
                    | Some rhs => forallb (fun m => existsb (Nat.eqb m) S) (rx_nts rhs)
                    | None => true
                    end) S.
Lemma combine_seq_nth {A : Type} (l : list A) : forall st n x, nth_error l n = Some x ->
  nth_error (combine (seq st (List.length l)) l) n = Some (st + n, x).
Proof.
  induction l as [|a l IH]; intros st n x H; [destruct n; discriminate H|].
  destruct n as [|n]; cbn in H |- *.
  - inversion H. now rewrite Nat.add_0_r.
  - rewrite (IH (S st) n x H). f_equal. f_equal. lia.
Qed.
Lemma blank_nth bl G n rhs : nth_error G n = Some rhs ->
  nth_error (blank bl G) n = Some (if existsb (Nat.eqb n) bl then RNone else rhs).
Proof.
  intros H. unfold blank. rewrite nth_error_map. rewrite (combine_seq_nth G 0 n rhs H). reflexivity.
Qed.
Lemma blank_keep bl G S : nts_closed G S = true -> (forall n, In n S -> existsb (Nat.eqb n) bl = false) ->
  forall r w, rmatch G r w -> (forall m, In m (rx_nts r) -> In m S) -> rmatch (blank bl G) r w.
Proof.
  intros Hcl Hdis. induction 1 as [|ks k Hk|n r w Hn Hr IH|a b u v Ha IHa Hb IHb|a b w Ha IH|a b w Hb IH|a|a u v Hu IHu Hv IHv]; intros Hs.
  - constructor.
  - now constructor.
  - assert (HnS : In n S) by (apply Hs; now left).
    eapply MNT; [rewrite (blank_nth bl G n r Hn), (Hdis n HnS); reflexivity|].
    apply IH. intros m Hm. unfold nts_closed in Hcl. rewrite forallb_forall in Hcl. specialize (Hcl n HnS). rewrite Hn in Hcl.
    rewrite forallb_forall in Hcl. specialize (Hcl m Hm). apply existsb_exists in Hcl as (y & Hy & E). apply Nat.eqb_eq in E. now subst.
  - constructor; [apply IHa|apply IHb]; intros m Hm; apply Hs; cbn; apply in_or_app; auto.
  - apply MAltL. apply IH. intros m Hm. apply Hs. cbn. apply in_or_app. auto.
  - apply MAltR. apply IH. intros m Hm. apply Hs. cbn. apply in_or_app. auto.
  - constructor.
  - constructor; [apply IHu|apply IHv]; intros m Hm; apply Hs; auto.
Qed.

(** * Sub-grammars *)
Lemma rx_incl_sound G : forall fuel a b, rx_incl G fuel a b = true -> forall w, rmatch G a w -> rmatch G b w.
Proof.
  induction fuel as [|n IH]; intros a b H w Hm; cbn [rx_incl] in H; [discriminate H|].
  destruct (rx_eqb a b) eqn:Eab; [apply rx_eqb_eq in Eab; now subst|].
  assert (Right : (match b with
                   | RAlt b1 b2 => rx_incl G n a b1 || rx_incl G n a b2
                   | RSym (DNT m) => match nth_error G m with Some rhs => rx_incl G n a rhs | None => false end
                   | RSeq b1 b2 => (match a with RSeq a1 a2 => rx_incl G n a1 b1 && rx_incl G n a2 b2 | _ => false end) ||
                                   (rx_incl G n a b1 && rnull_lo G n b2)
                   | RStar b1 => match a with RStar a1 => rx_incl G n a1 b1 | REps => true | _ => false end
                   | RSym (DTok ks2) => match a with RSym (DTok ks1) => kset_sub ks1 ks2 | _ => false end
                   | _ => false
                   end) = true -> rmatch G b w).
  { clear H. intros H. destruct b as [| |[ks2|m]|b1 b2|b1 b2|b1]; try discriminate H.
    - destruct a as [| |[ks1|m1]|a1 a2|a1 a2|a1]; try discriminate H.
      inversion Hm; subst. constructor. eapply kset_sub_In; eauto.
    - destruct (nth_error G m) as [rhs|] eqn:E; [|discriminate H]. eapply MNT; eauto.
    - apply orb_true_iff in H as [H|H].
      + destruct a as [| |s|a1 a2|a1 a2|a1]; try discriminate H. apply andb_true_iff in H as [H1 H2].
        inversion Hm; subst. constructor; eauto.
      + apply andb_true_iff in H as [H1 H2]. rewrite <- (app_nil_r w). constructor; eauto.
        eapply rnull_lo_sound; eauto.
    - apply orb_true_iff in H as [H|H]; [apply MAltL|apply MAltR]; eauto.
    - destruct a as [| |s|a1 a2|a1 a2|a1]; try discriminate H.
      + inversion Hm. constructor.
      + (* star <= star *)
        clear Eab. remember (RStar a1) as ra eqn:Er. induction Hm as [| | | | | |a0|a0 u v Hu _ Hv IHv]; try discriminate Er.
        * constructor.
        * inversion Er. subst a0. constructor; eauto. }
  destruct a as [| |s|a1 a2|a1 a2|a1]; try (apply Right; exact H).
  - inversion Hm.
  - apply andb_true_iff in H as [H1 H2]. inversion Hm; subst; eauto.
Qed.

Lemma sub_grammar_sound G G2 phi fuel : sub_grammar_ok G G2 phi fuel = true ->
  forall r w, rmatch G2 r w -> rmatch G (rx_map phi r) w.
Proof.
  intros Hok. induction 1 as [|ks k Hk|n r w Hn Hr IH| | | | |]; cbn [rx_map]; try (constructor; auto; fail).
  unfold sub_grammar_ok in Hok. rewrite forallb_forall in Hok.
  assert (Hlt : n < List.length G2) by (apply nth_error_Some; congruence).
  specialize (Hok n ltac:(apply in_seq; lia)). rewrite Hn in Hok.
  pose proof (rx_incl_sound G fuel _ _ Hok w IH) as Hm.
  destruct (nth_error G (phi n)) as [r0|] eqn:E; [eapply MNT; eauto|inversion Hm].
Qed.

(** nonterminals whose rules (transitively) are the same in both grammars keep all their words *)
Definition rules_agree (G G2 : grammar) (S : list nat) : bool :=
  forallb (fun n => match nth_error G n, nth_error G2 n with
                    | Some a, Some b => rx_eqb a b
                    | None, None => true
                    | _, _ => false
                    end) S.
Lemma agree_keep G G2 S : nts_closed G S = true -> rules_agree G G2 S = true ->
  forall r w, rmatch G r w -> (forall m, In m (rx_nts r) -> In m S) -> rmatch G2 r w.
Proof.
  intros Hcl Hag. induction 1 as [|ks k Hk|n r w Hn Hr IH|a b u v Ha IHa Hb IHb|a b w Ha IH|a b w Hb IH|a|a u v Hu IHu Hv IHv]; intros Hs.
  - constructor.
  - now constructor.
  - assert (HnS : In n S) by (apply Hs; now left).
    unfold rules_agree in Hag. rewrite forallb_forall in Hag. specialize (Hag n HnS). rewrite Hn in Hag.
    destruct (nth_error G2 n) as [r2|] eqn:E2; [|discriminate Hag]. apply rx_eqb_eq in Hag. subst r2.
    eapply MNT; [exact E2|]. apply IH. intros m Hm.
    unfold nts_closed in Hcl. rewrite forallb_forall in Hcl. specialize (Hcl n HnS). rewrite Hn in Hcl.
    rewrite forallb_forall in Hcl. specialize (Hcl m Hm). apply existsb_exists in Hcl as (y & Hy & E). apply Nat.eqb_eq in E. now subst.
  - constructor; [apply IHa|apply IHb]; intros m Hm; apply Hs; cbn; apply in_or_app; auto.
  - apply MAltL. apply IH. intros m Hm. apply Hs. cbn. apply in_or_app. auto.
  - apply MAltR. apply IH. intros m Hm. apply Hs. cbn. apply in_or_app. auto.
  - constructor.
  - constructor; [apply IHu|apply IHv]; intros m Hm; apply Hs; auto.
Qed.
