(** Soundness of the abstract interpretation model/ShapeChk.v, for EVERY program of the grammar DSL: if the check
    passes, every tree [parse_with] returns satisfies [AstToCore.ident_shape] (every Identifier node is empty or
    starts with an Id token, and no token has the kind Identifier).  Instantiated on the regenerated grammar by
    vm_compute ([grammar_ident_shape]).  The abstract states are related to the builder by [Rel]; the analysis is
    independent of how `fn identifier` is written (duplicated or hoisted finish_node, if-statement or if-expression). *)
From Coq Require Import List NArith Bool PeanoNat Lia.
From TG.Gen Require Import GenTokens GenGrammar.
From TG.Model Require Import Chars Lexer Prep Tree ParserPrims GInterp AstToCore ShapeChk.
From TG.Proofs Require Import GTile.
Import ListNotations.

(** * ident_shape, unfolded *)
Lemma ident_shape_node_eq k cs :
  ident_shape (Node k cs) =
  (if sk_eqb k S_Identifier
   then match cs with [] => true | Tok k' _ :: _ => sk_eqb k' S_Id | Node _ _ :: _ => false end
   else true) && forallb ident_shape cs.
Proof.
  cbn [ident_shape]. apply f_equal. induction cs as [|c r IH]; [reflexivity|]. cbn [forallb]. rewrite <- IH. reflexivity.
Qed.

Lemma tok_shape k txt : ident_shape (Tok (sk_of_tk k) txt) = true.
Proof. cbn [ident_shape]. destruct k; reflexivity. Qed.

(** * The builder invariant *)
Definition shaped (t : tree) : Prop := ident_shape t = true.
Definition bshape (b : builder) : Prop :=
  Forall shaped (children b) /\ Forall (fun kf : SyntaxKind * nat => fst kf <> S_Identifier) (parents b).
Definition Shape (s : pst) : Prop := bshape (bld s).

Definition is_tk_tok (t : tree) : Prop := exists k txt, t = Tok (sk_of_tk k) txt.
(** [b'] is [b] with tokens pushed *)
Definition tok_ext (b b' : builder) : Prop :=
  parents b' = parents b /\ exists toks, children b' = toks ++ children b /\ Forall is_tk_tok toks.

Lemma tok_ext_refl b : tok_ext b b.
Proof. split; [reflexivity|]. exists []. split; [reflexivity|constructor]. Qed.
Lemma tok_ext_trans a b c : tok_ext a b -> tok_ext b c -> tok_ext a c.
Proof.
  intros (P1 & t1 & C1 & F1) (P2 & t2 & C2 & F2). split; [congruence|]. exists (t2 ++ t1).
  split; [rewrite C2, C1, app_assoc; reflexivity|apply Forall_app; split; assumption].
Qed.
Lemma tok_ext_token b k txt : tok_ext b (b_token b (sk_of_tk k) txt).
Proof. split; [reflexivity|]. exists [Tok (sk_of_tk k) txt]. split; [reflexivity|]. constructor; [exists k, txt; reflexivity|constructor]. Qed.

Lemma bshape_tok_ext b b' : bshape b -> tok_ext b b' -> bshape b'.
Proof.
  intros (C & P) (EP & toks & EC & F). split; [|rewrite EP; exact P].
  rewrite EC. apply Forall_app. split; [|exact C].
  eapply Forall_impl; [|exact F]. intros t (k & txt & ->). apply tok_shape.
Qed.

(** * Effect of the token-level primitives on the builder *)
Lemma p_error_bld s m : bld (p_error s m) = bld s.
Proof. reflexivity. Qed.
Lemma with_pp_after_bld s p a : bld (with_pp_after s p a) = bld s.
Proof. reflexivity. Qed.

Lemma p_save_bld s s1 : p_save s = Some s1 -> bld s1 = b_token (bld s) (sk_of_tk (cur s)) (cur_text s).
Proof.
  unfold p_save. destruct (tk_eqb (cur s) T_Error).
  - destruct (take_error _) as [[e|] pp']; [|discriminate]. intros E. inversion E. reflexivity.
  - intros E. inversion E. reflexivity.
Qed.

Lemma p_lex_bld s : bld (p_lex s) = bld s.
Proof. unfold p_lex. destruct (prep_next (pp s) (raw s)) as [[[k len] pp'] raw']. destruct (take_bytes len (src s)). reflexivity. Qed.

Lemma p_skip_bld : forall fuel s s', p_skip fuel s = Some s' -> tok_ext (bld s) (bld s').
Proof.
  induction fuel as [|x fuel IH]; intros s s' E; cbn [p_skip] in E.
  - destruct (is_trivia (cur s)); [discriminate|]. inversion E. apply tok_ext_refl.
  - destruct (is_trivia (cur s)); [|inversion E; apply tok_ext_refl].
    destruct (p_save s) as [s1|] eqn:S1; [|discriminate].
    eapply tok_ext_trans; [|eapply IH; exact E]. rewrite p_lex_bld, (p_save_bld _ _ S1). apply tok_ext_token.
Qed.

(** eat: the current token, then trivia *)
Lemma p_eat_bld s s' : p_eat s = Some s' ->
  parents (bld s') = parents (bld s) /\
  exists toks, children (bld s') = toks ++ Tok (sk_of_tk (cur s)) (cur_text s) :: children (bld s) /\ Forall is_tk_tok toks.
Proof.
  unfold p_eat, p_skip_all. destruct (p_save s) as [s1|] eqn:S1; [|discriminate]. intros E.
  apply p_skip_bld in E. rewrite p_lex_bld, (p_save_bld _ _ S1) in E. destruct E as (EP & toks & EC & F).
  split; [exact EP|]. exists toks. split; [exact EC|exact F].
Qed.

Lemma p_eat_ext s s' : p_eat s = Some s' -> tok_ext (bld s) (bld s').
Proof.
  intros E. destruct (p_eat_bld _ _ E) as (EP & toks & EC & F). split; [exact EP|].
  exists (toks ++ [Tok (sk_of_tk (cur s)) (cur_text s)]). split; [rewrite EC, <- app_assoc; reflexivity|].
  apply Forall_app. split; [exact F|]. constructor; [eexists; eexists; reflexivity|constructor].
Qed.

Lemma p_eat_if_ext s k b s' : p_eat_if s k = Some (b, s') -> tok_ext (bld s) (bld s').
Proof.
  unfold p_eat_if. destruct (p_at s k).
  - destruct (p_eat s) as [s1|] eqn:E; [|discriminate]. intros H. inversion H; subst. eapply p_eat_ext; eauto.
  - intros H. inversion H. apply tok_ext_refl.
Qed.

(** * start_node / finish_node *)
Lemma In_skipn {A} n : forall (l : list A) x, In x (skipn n l) -> In x l.
Proof. induction n; intros [|a l] x H; cbn [skipn] in H; auto. right. auto. Qed.
Lemma In_firstn {A} n : forall (l : list A) x, In x (firstn n l) -> In x l.
Proof. induction n; intros [|a l] x H; cbn [firstn] in H; try contradiction. destruct H as [->|H]; [left; reflexivity|right; auto]. Qed.

Lemma sk_neq_eqb k : k <> S_Identifier -> sk_eqb k S_Identifier = false.
Proof. intros H. destruct (sk_eqb k S_Identifier) eqn:E; [|reflexivity]. apply sk_eqb_eq in E. contradiction. Qed.

Lemma bshape_start b k : k <> S_Identifier -> bshape b -> bshape (b_start_node b k).
Proof. intros K (C & P). split; [exact C|]. constructor; [exact K|exact P]. Qed.

Lemma bshape_start_at b cp k b' : k <> S_Identifier -> b_start_node_at b cp k = Some b' -> bshape b -> bshape b'.
Proof.
  intros K E (C & P). unfold b_start_node_at in E. destruct (Nat.leb cp (List.length (children b))); [|discriminate].
  assert (G : b' = {| parents := (k, cp) :: parents b; children := children b |}).
  { destruct (parents b) as [|[k0 first] ps]; [inversion E; reflexivity|].
    destruct (Nat.leb first cp); [inversion E; reflexivity|discriminate]. }
  subst b'. split; [exact C|]. cbn [parents]. constructor; [exact K|exact P].
Qed.

Lemma bshape_finish b b' : b_finish_node b = Some b' -> bshape b -> bshape b'.
Proof.
  intros E (C & P). unfold b_finish_node in E. destruct (parents b) as [|[k first] ps] eqn:EP; [discriminate|].
  inversion E. inversion P as [|x l K P']. subst. cbn [fst] in K. split; cbn [children parents]; [|exact P'].
  set (n := (List.length (children b) - first)%nat). constructor.
  - unfold shaped. rewrite ident_shape_node_eq, (sk_neq_eqb _ K). cbn [andb]. apply forallb_forall. intros x Hx.
    apply in_rev in Hx. apply In_firstn in Hx. rewrite Forall_forall in C. apply C. exact Hx.
  - rewrite Forall_forall in *. intros x Hx. apply C. eapply In_skipn. exact Hx.
Qed.

Lemma Shape_with_bld s b : bshape b -> Shape (with_bld s b).
Proof. intros H; exact H. Qed.

Lemma p_finish_node_shape s s' : p_finish_node s = Some s' -> Shape s -> Shape s'.
Proof.
  unfold p_finish_node. destruct (b_finish_node (bld s)) as [b|] eqn:E; [|discriminate]. intros H S. inversion H.
  apply Shape_with_bld. eapply bshape_finish; eauto.
Qed.

Lemma error_eat_shape s m s' :
  match p_eat (with_bld (p_error s m) (b_start_node (bld (p_error s m)) S_Error)) with
  | Some s3 => p_finish_node s3
  | None => None
  end = Some s' -> Shape s -> Shape s'.
Proof.
  intros E S. destruct (p_eat _) as [s3|] eqn:E3; [|discriminate].
  eapply p_finish_node_shape; [exact E|]. unfold Shape. eapply bshape_tok_ext; [|eapply p_eat_ext; exact E3].
  cbn [bld with_bld]. apply bshape_start; [discriminate|]. exact S.
Qed.

(** * The abstract states and the builder *)
Definition open_id (b b0 : builder) (kids : list tree) : Prop :=
  bshape b0 /\ parents b = (S_Identifier, List.length (children b0)) :: parents b0 /\ children b = kids ++ children b0.
Definition id_empty (b : builder) : Prop := exists b0, open_id b b0 [].
Definition id_started (b : builder) : Prop :=
  exists b0 toks txt, open_id b b0 (toks ++ [Tok S_Id txt]) /\ Forall is_tk_tok toks.
Definition Rel (a : ast) (b : builder) : Prop :=
  match a with
  | Bot => False
  | NoId => bshape b
  | IdEmpty => id_empty b
  | IdStarted => id_started b
  | IdOk => id_empty b \/ id_started b
  end.

Lemma join_ub a b j : join a b = Some j -> forall x, (Rel a x -> Rel j x) /\ (Rel b x -> Rel j x).
Proof. destruct a, b; cbn [join]; intros E; inversion E; subst; intros x; cbn [Rel]; tauto. Qed.
Lemma le_noid_rel a b : le_noid a = true -> Rel a b -> bshape b.
Proof. destruct a; cbn [le_noid Rel]; try discriminate; tauto. Qed.

Lemma started_tok_ext b b' : id_started b -> tok_ext b b' -> id_started b'.
Proof.
  intros (b0 & toks & txt & (S0 & P0 & C0) & F) (EP & t' & EC & F'). exists b0, (t' ++ toks), txt. split.
  - split; [exact S0|]. split; [rewrite EP; exact P0|]. rewrite EC, C0, <- !app_assoc. reflexivity.
  - apply Forall_app. split; assumption.
Qed.

(** closing the open Identifier node *)
Lemma finish_open b b0 kids b' :
  open_id b b0 kids -> (kids = [] \/ exists toks txt, kids = toks ++ [Tok S_Id txt] /\ Forall is_tk_tok toks) ->
  b_finish_node b = Some b' -> bshape b'.
Proof.
  intros ((C & P) & EP & EC) K F. unfold b_finish_node in F. rewrite EP in F. inversion F; subst b'. cbn [children parents]. rewrite EC.
  replace (List.length (kids ++ children b0) - List.length (children b0))%nat with (List.length kids) by (rewrite app_length; lia).
  rewrite firstn_app, firstn_all, Nat.sub_diag. cbn [firstn]. rewrite app_nil_r.
  rewrite skipn_app, skipn_all, Nat.sub_diag. cbn [skipn app].
  split; [|exact P]. constructor; [|exact C]. unfold shaped. rewrite ident_shape_node_eq.
  replace (sk_eqb S_Identifier S_Identifier) with true by reflexivity.
  destruct K as [->|(toks & txt & -> & FT)]; [reflexivity|].
  rewrite rev_app_distr. cbn [rev app]. replace (sk_eqb S_Id S_Id) with true by reflexivity. cbn [andb forallb].
  change (ident_shape (Tok S_Id txt)) with true. cbn [andb].
  apply forallb_forall. intros x Hx. apply in_rev in Hx. rewrite Forall_forall in FT. destruct (FT x Hx) as (k & tx & ->). apply tok_shape.
Qed.

Lemma rel_finish a b b' : a <> NoId -> Rel a b -> b_finish_node b = Some b' -> bshape b'.
Proof.
  intros NA R F. destruct a; cbn [Rel] in R; try contradiction.
  - destruct R as (b0 & O). eapply finish_open; [exact O|left; reflexivity|exact F].
  - destruct R as (b0 & toks & txt & O & FT). eapply finish_open; [exact O|right; eauto|exact F].
  - destruct R as [(b0 & O)|(b0 & toks & txt & O & FT)]; [eapply finish_open; [exact O|left; reflexivity|exact F]|eapply finish_open; [exact O|right; eauto|exact F]].
Qed.

(** * Results *)
Definition res_ok (t f : ast) (r : GInterp.res) : Prop :=
  match r with
  | RVal (VB true) _ s => Rel t (bld s)
  | RVal (VB false) _ s => Rel f (bld s)
  | RVal (VN _) _ s => Rel t (bld s) /\ Rel f (bld s)
  | RBrk _ s | RRet _ _ s => bshape (bld s)
  | RPanic | ROOF => True
  end.

Lemma res_ok_same a v en s : Rel a (bld s) -> res_ok a a (RVal v en s).
Proof. intros R. destruct v as [[|]|m]; cbn [res_ok]; auto. Qed.
Lemma res_ok_lift a o en : (forall s, o = Some s -> Rel a (bld s)) -> res_ok a a (lift o en).
Proof. destruct o; cbn [lift res_ok]; auto. Qed.
Lemma res_val_join t f j v en s : join t f = Some j -> res_ok t f (RVal v en s) -> Rel j (bld s).
Proof. intros J R. destruct (join_ub _ _ _ J (bld s)) as (A & B). destruct v as [[|]|m]; cbn [res_ok] in R; [auto|auto|destruct R; auto]. Qed.

Lemma tk_neq_kind s : tk_eqb (cur s) T_Error = tk_eqb (cur s) T_Error. Proof. reflexivity. Qed.

(** eat_if(Id) on an empty open Identifier *)
Lemma eat_if_id_empty s b s' : id_empty (bld s) -> p_eat_if s T_Id = Some (b, s') ->
  if b then id_started (bld s') else id_empty (bld s').
Proof.
  intros (b0 & (S0 & P0 & C0)) E. unfold p_eat_if in E. destruct (p_at s T_Id) eqn:AT.
  - destruct (p_eat s) as [s1|] eqn:EE; [|discriminate]. inversion E; subst b s'.
    destruct (p_eat_bld _ _ EE) as (EP & toks & EC & FT).
    assert (K : cur s = T_Id) by (apply GenTokens.tk_eqb_eq; exact AT). rewrite K in EC. change (sk_of_tk T_Id) with S_Id in EC.
    exists b0, toks, (cur_text s). split; [|exact FT]. split; [exact S0|]. split; [rewrite EP; exact P0|].
    rewrite EC, C0. cbn [app]. rewrite <- app_assoc. reflexivity.
  - inversion E; subst b s'. exists b0. split; [exact S0|split; assumption].
Qed.

(** * Soundness of the primitive rules *)
Lemma an_prim_sound p pr a t f en s : an_prim pr a = Some (t, f) -> Rel a (bld s) -> res_ok t f (exec_prim p pr en s).
Proof.
  intros A R. destruct a; [contradiction| | | |].
  - (* NoId: as before, plus opening an Identifier *)
    cbn [Rel] in R. destruct pr; cbn [an_prim same] in A; cbn [exec_prim].
    + inversion A; subst. apply res_ok_same. destruct (sk_eqb k S_Identifier) eqn:K.
      * apply sk_eqb_eq in K. subst k. cbn [Rel]. exists (bld s). split; [exact R|split; reflexivity].
      * cbn [Rel]. unfold p_start_node. cbn [bld with_bld]. apply bshape_start; [|exact R]. intros ->. cbn in K. discriminate.
    + inversion A; subst. apply res_ok_lift. intros s' E. eapply p_finish_node_shape; eauto.
    + inversion A; subst. apply res_ok_same. exact R.
    + destruct (sk_eqb k S_Identifier) eqn:K; [discriminate|]. inversion A; subst.
      destruct (env_get en x) as [[b|cp]|]; cbn [res_ok]; auto. apply res_ok_lift. intros s' E.
      unfold p_start_node_at in E. destruct (b_start_node_at (bld s) cp k) as [b|] eqn:B; [|discriminate]. inversion E.
      apply Shape_with_bld. eapply bshape_start_at; [|exact B|exact R]. intros ->. cbn in K. discriminate.
    + inversion A; subst. apply res_ok_lift. intros s' E. unfold p_assert in E.
      destruct (p_eat_if s k) as [[[|] s1]|] eqn:EI; try discriminate. inversion E; subst.
      eapply bshape_tok_ext; [exact R|eapply p_eat_if_ext; exact EI].
    + inversion A; subst. apply res_ok_lift. intros s' E. unfold p_expect in E.
      destruct (p_eat_if s k) as [[[|] s1]|] eqn:EI; try discriminate.
      * inversion E; subst. eapply bshape_tok_ext; [exact R|eapply p_eat_if_ext; exact EI].
      * assert (S1 : bshape (bld s1)) by (eapply bshape_tok_ext; [exact R|eapply p_eat_if_ext; exact EI]).
        destruct (after_err s1); inversion E; subst; exact S1.
    + inversion A; subst. apply res_ok_lift. intros s' E. eapply bshape_tok_ext; [exact R|eapply p_eat_ext; exact E].
    + inversion A; subst. destruct (p_eat_if s k) as [[b s1]|] eqn:EI; [|exact I].
      apply res_ok_same. eapply bshape_tok_ext; [exact R|eapply p_eat_if_ext; exact EI].
    + inversion A; subst. apply res_ok_lift. intros s' E. eapply bshape_tok_ext; [exact R|eapply p_skip_bld; exact E].
    + inversion A; subst. apply res_ok_same. exact R.
    + inversion A; subst. apply res_ok_lift. intros s' E. eapply error_eat_shape; [exact E|exact R].
    + inversion A; subst. apply res_ok_lift. intros s' E. unfold p_error_and_recover in E.
      destruct (negb (p_at_set (p_error s m) (recover_tokens p)) && negb (p_eof (p_error s m))).
      * eapply error_eat_shape; [exact E|exact R].
      * inversion E. exact R.
    + inversion A; subst. apply res_ok_same. exact R.
  - (* IdEmpty *)
    cbn [Rel] in R. destruct pr; cbn [an_prim same] in A; cbn [exec_prim]; try discriminate.
    + inversion A; subst. apply res_ok_lift. intros s' E. unfold p_finish_node in E.
      destruct (b_finish_node (bld s)) as [b'|] eqn:F; [|discriminate]. inversion E. apply Shape_with_bld.
      eapply (rel_finish IdEmpty); [discriminate|exact R|exact F].
    + inversion A; subst. apply res_ok_same. exact R.
    + destruct (tk_eqb k T_Id) eqn:K; [|discriminate]. inversion A; subst. apply GenTokens.tk_eqb_eq in K. subst k.
      apply res_ok_lift. intros s' E. unfold p_assert in E. destruct (p_eat_if s T_Id) as [[[|] s1]|] eqn:EI; try discriminate.
      inversion E; subst. exact (eat_if_id_empty _ _ _ R EI).
    + destruct (tk_eqb k T_Id) eqn:K; [|discriminate]. inversion A; subst. apply GenTokens.tk_eqb_eq in K. subst k.
      destruct (p_eat_if s T_Id) as [[b s1]|] eqn:EI; cbn [res_ok]; [|exact I].
      pose proof (eat_if_id_empty _ _ _ R EI) as H. destruct b; exact H.
    + inversion A; subst. apply res_ok_same. exact R.
    + inversion A; subst. apply res_ok_same. exact R.
  - (* IdStarted *)
    cbn [Rel] in R. destruct pr; cbn [an_prim same] in A; cbn [exec_prim]; try discriminate.
    + inversion A; subst. apply res_ok_lift. intros s' E. unfold p_finish_node in E.
      destruct (b_finish_node (bld s)) as [b'|] eqn:F; [|discriminate]. inversion E. apply Shape_with_bld.
      eapply (rel_finish IdStarted); [discriminate|exact R|exact F].
    + inversion A; subst. apply res_ok_same. exact R.
    + inversion A; subst. apply res_ok_lift. intros s' E. unfold p_assert in E.
      destruct (p_eat_if s k) as [[[|] s1]|] eqn:EI; try discriminate. inversion E; subst.
      eapply started_tok_ext; [exact R|eapply p_eat_if_ext; exact EI].
    + inversion A; subst. apply res_ok_lift. intros s' E. unfold p_expect in E.
      destruct (p_eat_if s k) as [[[|] s1]|] eqn:EI; try discriminate.
      * inversion E; subst. eapply started_tok_ext; [exact R|eapply p_eat_if_ext; exact EI].
      * assert (S1 : id_started (bld s1)) by (eapply started_tok_ext; [exact R|eapply p_eat_if_ext; exact EI]).
        destruct (after_err s1); inversion E; subst; exact S1.
    + inversion A; subst. apply res_ok_lift. intros s' E. eapply started_tok_ext; [exact R|eapply p_eat_ext; exact E].
    + inversion A; subst. destruct (p_eat_if s k) as [[b s1]|] eqn:EI; [|exact I].
      apply res_ok_same. eapply started_tok_ext; [exact R|eapply p_eat_if_ext; exact EI].
    + inversion A; subst. apply res_ok_lift. intros s' E. eapply started_tok_ext; [exact R|eapply p_skip_bld; exact E].
    + inversion A; subst. apply res_ok_same. exact R.
    + inversion A; subst. apply res_ok_same. exact R.
  - (* IdOk *)
    destruct pr; cbn [an_prim same] in A; cbn [exec_prim]; try discriminate.
    + inversion A; subst. apply res_ok_lift. intros s' E. unfold p_finish_node in E.
      destruct (b_finish_node (bld s)) as [b'|] eqn:F; [|discriminate]. inversion E. apply Shape_with_bld.
      eapply (rel_finish IdOk); [discriminate|exact R|exact F].
    + inversion A; subst. apply res_ok_same. exact R.
    + inversion A; subst. apply res_ok_same. exact R.
    + inversion A; subst. apply res_ok_same. exact R.
Qed.

(** * Soundness of the analysis, for every program whose function bodies pass the check *)
Lemma obind_some {A B} (o : option A) (g : A -> option B) r : obind o g = Some r -> exists x, o = Some x /\ g x = Some r.
Proof. destruct o; cbn [obind]; [eauto|discriminate]. Qed.

Theorem gexec_shape p : shape_chk_prog p = true ->
  forall n e a t f en s, an e a = Some (t, f) -> Rel a (bld s) -> res_ok t f (gexec n p e en s).
Proof.
  intros PC. induction n as [|n IH]; intros e a t f en s A R; [exact I|].
  destruct e as [b|x|x|pr|fn arg|x y|c x y|c b| |x|v x]; cbn [gexec]; cbn [an] in A.
  - (* EB *) destruct b; inversion A; subst; cbn [res_ok]; exact R.
  - (* EVar *) inversion A; subst. destruct (env_get en x); [apply res_ok_same; exact R|exact I].
  - (* ENot *)
    apply obind_some in A. destruct A as ([xt xf] & Ax & E). inversion E; subst. cbn [fst snd].
    pose proof (IH x a _ _ en s Ax R) as H. destruct (gexec n p x en s) as [[[|]|m] en1 s1| | | |]; cbn [res_ok negb] in *; auto.
  - (* EPrim *) eapply an_prim_sound; eauto.
  - (* ECall *)
    destruct a; try discriminate; [contradiction|]. inversion A; subst. cbn [Rel] in R.
    destruct (fn_body p fn) as [body|] eqn:FB; [|exact I].
    assert (CB : shape_chk body = true).
    { unfold shape_chk_prog in PC. rewrite forallb_forall in PC. apply PC. unfold fn_body in FB. eapply nth_error_In. exact FB. }
    unfold shape_chk in CB. destruct (an body NoId) as [[bt bf]|] eqn:AB; [|discriminate]. apply andb_true_iff in CB. destruct CB as [Lt Lf].
    destruct (match arg with Some (x, _) => match env_get en x with Some v => Some [v] | None => None end | None => Some [] end) as [cen0|]; [|exact I].
    pose proof (IH body NoId bt bf cen0 s AB R) as H.
    assert (V : forall v cen1 s1, res_ok bt bf (RVal v cen1 s1) -> bshape (bld s1)).
    { intros v cen1 s1 Hv. destruct v as [[|]|m]; cbn [res_ok] in Hv; [exact (le_noid_rel _ _ Lt Hv)|exact (le_noid_rel _ _ Lf Hv)|exact (le_noid_rel _ _ Lt (proj1 Hv))]. }
    destruct (gexec n p body cen0 s) as [v cen1 s1|cen1 s1|v cen1 s1| |]; cbn [res_ok] in *; auto.
    + pose proof (V v cen1 s1 H) as B1. destruct arg as [[x [|]]|]; [destruct (env_get cen1 0); [apply res_ok_same; exact B1|exact I]|apply res_ok_same; exact B1|apply res_ok_same; exact B1].
    + destruct arg as [[x [|]]|]; [destruct (env_get cen1 0); [apply res_ok_same; exact H|exact I]|apply res_ok_same; exact H|apply res_ok_same; exact H].
  - (* ESeq *)
    apply obind_some in A. destruct A as ([xt xf] & Ax & A). apply obind_some in A. destruct A as (a1 & J & Ay). cbn [fst snd] in *.
    pose proof (IH x a xt xf en s Ax R) as H. destruct (gexec n p x en s) as [v en1 s1| | | |] eqn:G; cbn [res_ok] in *; auto.
    apply (IH y a1 t f en1 s1 Ay). exact (res_val_join xt xf a1 v en1 s1 J H).
  - (* EIf *)
    apply obind_some in A. destruct A as ([ct cf] & Ac & A). apply obind_some in A. destruct A as ([xt xf] & Ax & A).
    apply obind_some in A. destruct A as ([yt yf] & Ay & A). apply obind_some in A. destruct A as (jt & Jt & A).
    apply obind_some in A. destruct A as (jf & Jf & A). inversion A; subst. cbn [fst snd] in *.
    pose proof (IH c a ct cf en s Ac R) as H.
    assert (UP : forall r, (res_ok xt xf r \/ res_ok yt yf r) -> res_ok t f r).
    { intros r Hr. destruct r as [[[|]|m] en2 s2| | | |]; cbn [res_ok] in *; try tauto.
      - destruct (join_ub _ _ _ Jt (bld s2)); tauto.
      - destruct (join_ub _ _ _ Jf (bld s2)); tauto.
      - destruct (join_ub _ _ _ Jt (bld s2)), (join_ub _ _ _ Jf (bld s2)); tauto. }
    destruct (gexec n p c en s) as [[[|]|m] en1 s1| | | |]; cbn [res_ok] in *; auto.
    + apply UP. left. apply (IH x ct xt xf en1 s1 Ax H).
    + apply UP. right. apply (IH y cf yt yf en1 s1 Ay H).
  - (* EWhile *)
    destruct a; try discriminate; [contradiction|]. cbn [Rel] in R.
    pose proof A as AW. apply obind_some in A. destruct A as ([ct cf] & Ac & A). apply obind_some in A. destruct A as ([bt bf] & Ab & A).
    cbn [fst snd] in A. destruct (le_noid ct && le_noid cf && le_noid bt && le_noid bf) eqn:L; [|discriminate]. inversion A; subst.
    apply andb_true_iff in L. destruct L as [L Lbf]. apply andb_true_iff in L. destruct L as [L Lbt]. apply andb_true_iff in L. destruct L as [Lct Lcf].
    pose proof (IH c NoId ct cf en s Ac R) as H.
    destruct (gexec n p c en s) as [[[|]|m] en1 s1| | | |]; cbn [res_ok] in *; auto.
    + assert (B1 : bshape (bld s1)) by (exact (le_noid_rel _ _ Lct H)).
      pose proof (IH b NoId bt bf en1 s1 Ab B1) as H2.
      destruct (gexec n p b en1 s1) as [v en2 s2|en2 s2| | |]; cbn [res_ok] in *; auto.
      apply (IH (EWhile c b) NoId NoId NoId en2 s2 AW).
      destruct v as [[|]|m]; cbn [res_ok] in H2; [exact (le_noid_rel _ _ Lbt H2)|exact (le_noid_rel _ _ Lbf H2)|exact (le_noid_rel _ _ Lbt (proj1 H2))].
    + exact (le_noid_rel _ _ Lcf H).
  - (* EBreak *) destruct (le_noid a) eqn:L; [|discriminate]. cbn [res_ok]. eapply le_noid_rel; eauto.
  - (* EReturn *)
    apply obind_some in A. destruct A as ([xt xf] & Ax & A). cbn [fst snd] in A.
    destruct (le_noid xt && le_noid xf) eqn:L; [|discriminate]. apply andb_true_iff in L. destruct L as [Lt Lf].
    pose proof (IH x a xt xf en s Ax R) as H. destruct (gexec n p x en s) as [v en1 s1| | | |]; cbn [res_ok] in *; auto.
    destruct v as [[|]|m]; cbn [res_ok] in H; [exact (le_noid_rel _ _ Lt H)|exact (le_noid_rel _ _ Lf H)|exact (le_noid_rel _ _ Lt (proj1 H))].
  - (* ESet *)
    apply obind_some in A. destruct A as ([xt xf] & Ax & A). apply obind_some in A. destruct A as (j & J & A). inversion A; subst. cbn [fst snd] in *.
    pose proof (IH x a xt xf en s Ax R) as H. destruct (gexec n p x en s) as [v0 en1 s1| | | |]; cbn [res_ok] in *; auto.
    exact (res_val_join xt xf _ v0 en1 s1 J H).
Qed.

(** * The tree of every completed parse *)
Lemma p_new_shape txt : Shape (p_new txt).
Proof. unfold Shape, p_new. rewrite p_lex_bld. cbn [bld]. split; constructor. Qed.

Theorem parse_ident_shape p entry : shape_chk_prog p = true ->
  forall fuel txt t errs st, parse_with fuel p entry txt = ParseOk t errs st -> ident_shape t = true.
Proof.
  intros PC fuel txt t errs st H. unfold parse_with in H.
  pose proof (gexec_shape p PC fuel (ECall entry None) NoId NoId NoId [] (p_new txt) eq_refl (p_new_shape txt)) as T.
  assert (F : forall s, bshape (bld s) -> p_finish s = Some (t, errs) -> ident_shape t = true).
  { intros s (C & _) E. unfold p_finish in E. destruct (b_finish (bld s)) as [t0|] eqn:B; [|discriminate]. inversion E; subst t0.
    unfold b_finish in B. destruct (children (bld s)) as [|[k cs|k tx] [|c2 r]] eqn:EC; try discriminate.
    assert (t = Node k cs) by (destruct (parents (bld s)); inversion B; reflexivity). subst t.
    inversion C. assumption. }
  destruct (gexec fuel p (ECall entry None) [] (p_new txt)) as [v en s|en s|v en s| |]; try discriminate;
    destruct (p_finish s) as [[t0 es]|] eqn:PF; try discriminate; inversion H; subst; eapply F; eauto.
  destruct v as [[|]|m]; cbn [res_ok] in T; tauto.
Qed.

(** * The regenerated grammar *)
Lemma grammar_shape_chk : shape_chk_prog grammar_prog = true.
Proof. vm_compute. reflexivity. Qed.

Theorem grammar_ident_shape : forall fuel txt t errs st,
  parse_with fuel grammar_prog grammar_entry txt = ParseOk t errs st -> ident_shape t = true.
Proof. exact (parse_ident_shape grammar_prog grammar_entry grammar_shape_chk). Qed.
