(** Soundness of the syntactic check model/ShapeChk.v, for EVERY program of the grammar DSL: if the check
    passes, every tree [parse_with] returns satisfies [AstToCore.ident_shape] (every Identifier node is empty or
    starts with an Id token, and no token has the kind Identifier).  Instantiated on the regenerated grammar by
    vm_compute ([grammar_ident_shape]). *)
From Coq Require Import List NArith Bool PeanoNat Lia.
From TG.Gen Require Import GenTokens GenGrammar.
From TG.Model Require Import Chars Lexer Prep Tree ParserPrims GInterp AstToCore ShapeChk.
From TG.Proofs Require Import GTile.
Import ListNotations.

(** * ident_shape, unfolded *)
Lemma ident_shape_node_eq k cs :
  ident_shape (Node k cs) =
  (if sk_eqb k S_Identifier
   then match cs with [] => true | Tok k' _ :: _ => sk_eqb k' S_Id | Node _ _ :: _ => false end
   else true) && forallb ident_shape cs.
Proof.
  cbn [ident_shape]. apply f_equal. induction cs as [|c r IH]; [reflexivity|]. cbn [forallb]. rewrite <- IH. reflexivity.
Qed.

Lemma tok_shape k txt : ident_shape (Tok (sk_of_tk k) txt) = true.
Proof. cbn [ident_shape]. destruct k; reflexivity. Qed.

(** * The builder invariant *)
Definition shaped (t : tree) : Prop := ident_shape t = true.
Definition bshape (b : builder) : Prop :=
  Forall shaped (children b) /\ Forall (fun kf : SyntaxKind * nat => fst kf <> S_Identifier) (parents b).
Definition Shape (s : pst) : Prop := bshape (bld s).

Definition is_tk_tok (t : tree) : Prop := exists k txt, t = Tok (sk_of_tk k) txt.
(** [b'] is [b] with tokens pushed *)
Definition tok_ext (b b' : builder) : Prop :=
  parents b' = parents b /\ exists toks, children b' = toks ++ children b /\ Forall is_tk_tok toks.

Lemma tok_ext_refl b : tok_ext b b.
Proof. split; [reflexivity|]. exists []. split; [reflexivity|constructor]. Qed.
Lemma tok_ext_trans a b c : tok_ext a b -> tok_ext b c -> tok_ext a c.
Proof.
  intros (P1 & t1 & C1 & F1) (P2 & t2 & C2 & F2). split; [congruence|]. exists (t2 ++ t1).
  split; [rewrite C2, C1, app_assoc; reflexivity|apply Forall_app; split; assumption].
Qed.
Lemma tok_ext_token b k txt : tok_ext b (b_token b (sk_of_tk k) txt).
Proof. split; [reflexivity|]. exists [Tok (sk_of_tk k) txt]. split; [reflexivity|]. constructor; [exists k, txt; reflexivity|constructor]. Qed.

Lemma bshape_tok_ext b b' : bshape b -> tok_ext b b' -> bshape b'.
Proof.
  intros (C & P) (EP & toks & EC & F). split; [|rewrite EP; exact P].
  rewrite EC. apply Forall_app. split; [|exact C].
  eapply Forall_impl; [|exact F]. intros t (k & txt & ->). apply tok_shape.
Qed.

(** * Effect of the token-level primitives on the builder *)
Lemma p_error_bld s m : bld (p_error s m) = bld s.
Proof. reflexivity. Qed.
Lemma with_pp_after_bld s p a : bld (with_pp_after s p a) = bld s.
Proof. reflexivity. Qed.

Lemma p_save_bld s s1 : p_save s = Some s1 -> bld s1 = b_token (bld s) (sk_of_tk (cur s)) (cur_text s).
Proof.
  unfold p_save. destruct (tk_eqb (cur s) T_Error).
  - destruct (take_error _) as [[e|] pp']; [|discriminate]. intros E. inversion E. reflexivity.
  - intros E. inversion E. reflexivity.
Qed.

Lemma p_lex_bld s : bld (p_lex s) = bld s.
Proof. unfold p_lex. destruct (prep_next (pp s) (raw s)) as [[[k len] pp'] raw']. destruct (take_bytes len (src s)). reflexivity. Qed.

Lemma p_skip_bld : forall fuel s s', p_skip fuel s = Some s' -> tok_ext (bld s) (bld s').
Proof.
  induction fuel as [|x fuel IH]; intros s s' E; cbn [p_skip] in E.
  - destruct (is_trivia (cur s)); [discriminate|]. inversion E. apply tok_ext_refl.
  - destruct (is_trivia (cur s)); [|inversion E; apply tok_ext_refl].
    destruct (p_save s) as [s1|] eqn:S1; [|discriminate].
    eapply tok_ext_trans; [|eapply IH; exact E]. rewrite p_lex_bld, (p_save_bld _ _ S1). apply tok_ext_token.
Qed.

(** eat: the current token, then trivia *)
Lemma p_eat_bld s s' : p_eat s = Some s' ->
  parents (bld s') = parents (bld s) /\
  exists toks, children (bld s') = toks ++ Tok (sk_of_tk (cur s)) (cur_text s) :: children (bld s) /\ Forall is_tk_tok toks.
Proof.
  unfold p_eat, p_skip_all. destruct (p_save s) as [s1|] eqn:S1; [|discriminate]. intros E.
  apply p_skip_bld in E. rewrite p_lex_bld, (p_save_bld _ _ S1) in E. destruct E as (EP & toks & EC & F).
  split; [exact EP|]. exists toks. split; [exact EC|exact F].
Qed.

Lemma p_eat_ext s s' : p_eat s = Some s' -> tok_ext (bld s) (bld s').
Proof.
  intros E. destruct (p_eat_bld _ _ E) as (EP & toks & EC & F). split; [exact EP|].
  exists (toks ++ [Tok (sk_of_tk (cur s)) (cur_text s)]). split; [rewrite EC, <- app_assoc; reflexivity|].
  apply Forall_app. split; [exact F|]. constructor; [eexists; eexists; reflexivity|constructor].
Qed.

Lemma p_eat_if_ext s k b s' : p_eat_if s k = Some (b, s') -> tok_ext (bld s) (bld s').
Proof.
  unfold p_eat_if. destruct (p_at s k).
  - destruct (p_eat s) as [s1|] eqn:E; [|discriminate]. intros H. inversion H; subst. eapply p_eat_ext; eauto.
  - intros H. inversion H. apply tok_ext_refl.
Qed.

(** * start_node / finish_node *)
Lemma In_skipn {A} n : forall (l : list A) x, In x (skipn n l) -> In x l.
Proof. induction n; intros [|a l] x H; cbn [skipn] in H; auto. right. auto. Qed.
Lemma In_firstn {A} n : forall (l : list A) x, In x (firstn n l) -> In x l.
Proof. induction n; intros [|a l] x H; cbn [firstn] in H; try contradiction. destruct H as [->|H]; [left; reflexivity|right; auto]. Qed.

Lemma sk_neq_eqb k : k <> S_Identifier -> sk_eqb k S_Identifier = false.
Proof. intros H. destruct (sk_eqb k S_Identifier) eqn:E; [|reflexivity]. apply sk_eqb_eq in E. contradiction. Qed.

Lemma bshape_start b k : k <> S_Identifier -> bshape b -> bshape (b_start_node b k).
Proof. intros K (C & P). split; [exact C|]. constructor; [exact K|exact P]. Qed.

Lemma bshape_start_at b cp k b' : k <> S_Identifier -> b_start_node_at b cp k = Some b' -> bshape b -> bshape b'.
Proof.
  intros K E (C & P). unfold b_start_node_at in E. destruct (Nat.leb cp (List.length (children b))); [|discriminate].
  assert (G : b' = {| parents := (k, cp) :: parents b; children := children b |}).
  { destruct (parents b) as [|[k0 first] ps]; [inversion E; reflexivity|].
    destruct (Nat.leb first cp); [inversion E; reflexivity|discriminate]. }
  subst b'. split; [exact C|]. cbn [parents]. constructor; [exact K|exact P].
Qed.

Lemma bshape_finish b b' : b_finish_node b = Some b' -> bshape b -> bshape b'.
Proof.
  intros E (C & P). unfold b_finish_node in E. destruct (parents b) as [|[k first] ps] eqn:EP; [discriminate|].
  inversion E. inversion P as [|x l K P']. subst. cbn [fst] in K. split; cbn [children parents]; [|exact P'].
  set (n := (List.length (children b) - first)%nat). constructor.
  - unfold shaped. rewrite ident_shape_node_eq, (sk_neq_eqb _ K). cbn [andb]. apply forallb_forall. intros x Hx.
    apply in_rev in Hx. apply In_firstn in Hx. rewrite Forall_forall in C. apply C. exact Hx.
  - rewrite Forall_forall in *. intros x Hx. apply C. eapply In_skipn. exact Hx.
Qed.

Lemma Shape_with_bld s b : bshape b -> Shape (with_bld s b).
Proof. intros H; exact H. Qed.

Lemma p_finish_node_shape s s' : p_finish_node s = Some s' -> Shape s -> Shape s'.
Proof.
  unfold p_finish_node. destruct (b_finish_node (bld s)) as [b|] eqn:E; [|discriminate]. intros H S. inversion H.
  apply Shape_with_bld. eapply bshape_finish; eauto.
Qed.

Lemma error_eat_shape s m s' :
  match p_eat (with_bld (p_error s m) (b_start_node (bld (p_error s m)) S_Error)) with
  | Some s3 => p_finish_node s3
  | None => None
  end = Some s' -> Shape s -> Shape s'.
Proof.
  intros E S. destruct (p_eat _) as [s3|] eqn:E3; [|discriminate].
  eapply p_finish_node_shape; [exact E|]. unfold Shape. eapply bshape_tok_ext; [|eapply p_eat_ext; exact E3].
  cbn [bld with_bld]. apply bshape_start; [discriminate|]. exact S.
Qed.

(** * Every primitive that does not open an Identifier node preserves the invariant *)
Lemma exec_prim_shape p pr en s : prim_ok pr = true -> Shape s -> res_inv Shape (exec_prim p pr en s).
Proof.
  intros OK S. destruct pr; cbn [exec_prim].
  - (* start_node *) cbn [res_inv]. cbn [prim_ok] in OK. apply negb_true_iff in OK.
    unfold Shape, p_start_node. cbn [bld with_bld]. apply bshape_start; [|exact S].
    intros ->. cbn in OK. discriminate.
  - apply lift_inv. intros s' E. eapply p_finish_node_shape; eauto.
  - exact S.
  - destruct (env_get en x) as [[b|cp]|]; cbn [res_inv]; auto. apply lift_inv. intros s' E.
    unfold p_start_node_at in E. destruct (b_start_node_at (bld s) cp k) as [b|] eqn:B; [|discriminate]. inversion E.
    apply Shape_with_bld. eapply bshape_start_at; [|exact B|exact S].
    cbn [prim_ok] in OK. apply negb_true_iff in OK. intros ->. cbn in OK. discriminate.
  - (* assert *) apply lift_inv. intros s' E. unfold p_assert in E.
    destruct (p_eat_if s k) as [[[|] s1]|] eqn:EI; try discriminate. inversion E; subst.
    eapply bshape_tok_ext; [exact S|eapply p_eat_if_ext; exact EI].
  - (* expect *) apply lift_inv. intros s' E. unfold p_expect in E.
    destruct (p_eat_if s k) as [[[|] s1]|] eqn:EI; try discriminate.
    + inversion E; subst. eapply bshape_tok_ext; [exact S|eapply p_eat_if_ext; exact EI].
    + assert (S1 : Shape s1) by (eapply bshape_tok_ext; [exact S|eapply p_eat_if_ext; exact EI]).
      destruct (after_err s1); inversion E; subst; exact S1.
  - (* eat *) apply lift_inv. intros s' E. eapply bshape_tok_ext; [exact S|eapply p_eat_ext; exact E].
  - (* eat_if *) destruct (p_eat_if s k) as [[b s1]|] eqn:EI; cbn [res_inv]; [|exact I].
    eapply bshape_tok_ext; [exact S|eapply p_eat_if_ext; exact EI].
  - (* skip *) apply lift_inv. intros s' E. eapply bshape_tok_ext; [exact S|eapply p_skip_bld; exact E].
  - (* error *) exact S.
  - (* error_and_eat *) apply lift_inv. intros s' E. eapply error_eat_shape; [exact E|exact S].
  - (* error_and_recover *) apply lift_inv. intros s' E. unfold p_error_and_recover in E.
    destruct (negb (p_at_set (p_error s m) (recover_tokens p)) && negb (p_eof (p_error s m))).
    + eapply error_eat_shape; [exact E|exact S].
    + inversion E. exact S.
  - exact S.
Qed.

(** * The identifier pattern *)
Lemma is_ident_pat_inv e : is_ident_pat e = true ->
  exists b1 b2, e = ESeq (EPrim (PStartNode S_Identifier))
                         (EIf (EPrim (PEatIf T_Id)) (ESeq (EPrim PFinishNode) (EB b1)) (ESeq (EPrim PFinishNode) (EB b2))).
Proof.
  destruct e as [| | | | |a b| | | | |]; try discriminate.
  destruct a as [| | |pa| | | | | | |]; try discriminate. destruct pa; try discriminate.
  destruct b as [| | | | | |c x y| | | |]; try discriminate.
  destruct c as [| | |pc| | | | | | |]; try discriminate. destruct pc; try discriminate.
  destruct x as [| | | | |x1 x2| | | | |]; try discriminate. destruct x1 as [| | |px| | | | | | |]; try discriminate.
  destruct px; try discriminate. destruct x2; try discriminate.
  destruct y as [| | | | |y1 y2| | | | |]; try discriminate. destruct y1 as [| | |py| | | | | | |]; try discriminate.
  destruct py; try discriminate. destruct y2; try discriminate.
  cbn [is_ident_pat]. intros H. apply andb_true_iff in H. destruct H as [H1 H2].
  apply sk_eqb_eq in H1. apply GenTokens.tk_eqb_eq in H2. subst. eauto.
Qed.

(** the node built by start_node(Identifier); eat_if(Id); finish_node *)
Lemma ident_node_shape s b s2 s3 :
  Shape s -> p_eat_if (p_start_node s S_Identifier) T_Id = Some (b, s2) -> p_finish_node s2 = Some s3 -> Shape s3.
Proof.
  intros (C & P) EI FN.
  assert (B0 : parents (bld (p_start_node s S_Identifier)) = (S_Identifier, List.length (children (bld s))) :: parents (bld s)
               /\ children (bld (p_start_node s S_Identifier)) = children (bld s)) by (split; reflexivity).
  destruct B0 as [BP BC].
  unfold p_finish_node in FN. destruct (b_finish_node (bld s2)) as [b3|] eqn:F; [|discriminate]. inversion FN; subst s3.
  apply Shape_with_bld. unfold b_finish_node in F.
  unfold p_eat_if in EI. destruct (p_at (p_start_node s S_Identifier) T_Id) eqn:AT.
  - destruct (p_eat (p_start_node s S_Identifier)) as [s1|] eqn:E; [|discriminate]. inversion EI; subst b s2.
    destruct (p_eat_bld _ _ E) as (EP & toks & EC & FT). rewrite BP in EP. rewrite BC in EC.
    assert (K : cur (p_start_node s S_Identifier) = T_Id) by (apply GenTokens.tk_eqb_eq; exact AT).
    rewrite K in EC. change (sk_of_tk T_Id) with S_Id in EC.
    rewrite EP in F. inversion F; subst b3. cbn [children parents]. rewrite EC.
    set (c0 := children (bld s)). set (tk := Tok S_Id (cur_text (p_start_node s S_Identifier))).
    replace (List.length (toks ++ tk :: c0) - List.length c0)%nat with (List.length (toks ++ [tk])) by (rewrite !app_length; cbn [List.length]; lia).
    replace (toks ++ tk :: c0) with ((toks ++ [tk]) ++ c0) by (rewrite <- app_assoc; reflexivity).
    rewrite firstn_app, firstn_all, Nat.sub_diag. cbn [firstn]. rewrite app_nil_r.
    rewrite skipn_app, skipn_all, Nat.sub_diag. cbn [skipn app].
    split; [|exact P]. constructor; [|exact C].
    unfold shaped. rewrite rev_app_distr. cbn [rev app]. rewrite ident_shape_node_eq.
    replace (sk_eqb S_Identifier S_Identifier) with true by reflexivity. unfold tk at 1.
    replace (sk_eqb S_Id S_Id) with true by reflexivity. cbn [andb forallb]. change (ident_shape tk) with true. cbn [andb].
    apply forallb_forall. intros x Hx. apply in_rev in Hx. rewrite Forall_forall in FT.
    destruct (FT x Hx) as (k & txt & ->). apply tok_shape.
  - inversion EI; subst b s2. rewrite BP in F. inversion F; subst b3. cbn [children parents]. try rewrite BC.
    rewrite Nat.sub_diag. cbn [firstn rev skipn]. split; [|exact P]. constructor; [reflexivity|exact C].
Qed.

Lemma ident_pat_shape p e : is_ident_pat e = true -> forall n en s, Shape s -> res_inv Shape (gexec n p e en s).
Proof.
  intros H. destruct (is_ident_pat_inv e H) as (b1 & b2 & ->). intros n en s HS.
  destruct n as [|n]; [exact I|]. cbn [gexec].
  destruct n as [|n]; [exact I|]. cbn [gexec exec_prim].
  destruct n as [|n]; [exact I|]. cbn [gexec exec_prim].
  destruct (p_eat_if (p_start_node s S_Identifier) T_Id) as [[b s2]|] eqn:EI; [|exact I].
  assert (G : forall bb, res_inv Shape (gexec (S n) p (ESeq (EPrim PFinishNode) (EB bb)) en s2)).
  { intros bb. cbn [gexec]. destruct n as [|n]; [exact I|]. cbn [gexec exec_prim].
    destruct (p_finish_node s2) as [s3|] eqn:FN; cbn [lift]; [|exact I]. cbn [res_inv].
    eapply ident_node_shape; eauto. }
  destruct b; apply G.
Qed.

(** * Every program that passes the check preserves the invariant *)
Theorem gexec_shape p : shape_chk_prog p = true ->
  forall n e en s, shape_chk e = true -> Shape s -> res_inv Shape (gexec n p e en s).
Proof.
  intros PC. induction n as [|n IH]; intros e en s CK S; [exact I|].
  destruct (is_ident_pat e) eqn:PAT; [apply ident_pat_shape; assumption|].
  assert (CK' : match e with
                | EB _ | EVar _ | EBreak | ECall _ _ => true
                | ENot a | EReturn a | ESet _ a => shape_chk a
                | EPrim pr => prim_ok pr
                | ESeq a b => shape_chk a && shape_chk b
                | EIf c a b => shape_chk c && shape_chk a && shape_chk b
                | EWhile c b => shape_chk c && shape_chk b
                end = true).
  { destruct e; cbn [shape_chk] in CK; rewrite PAT in CK; exact CK. }
  clear CK PAT.
  destruct e as [b|x|a|pr|f arg|a b|c a b|c b| |a|x a]; cbn [gexec].
  - exact S.
  - destruct (env_get en x); cbn; auto.
  - pose proof (IH a en s CK' S) as H. destruct (gexec n p a en s) as [[b|m] en1 s1| | | |]; cbn in *; auto.
  - apply exec_prim_shape; assumption.
  - destruct (fn_body p f) as [body|] eqn:FB; [|exact I].
    assert (CB : shape_chk body = true).
    { unfold shape_chk_prog in PC. rewrite forallb_forall in PC. apply PC. unfold fn_body in FB. eapply nth_error_In. exact FB. }
    destruct (match arg with Some (x, _) => match env_get en x with Some v => Some [v] | None => None end | None => Some [] end) as [cen0|]; [|exact I].
    pose proof (IH body cen0 s CB S) as H.
    destruct (gexec n p body cen0 s) as [v cen1 s1|cen1 s1|v cen1 s1| |]; cbn in *; auto;
      destruct arg as [[x [|]]|]; cbn; auto; destruct cen1; cbn; auto.
  - apply andb_true_iff in CK'. destruct CK' as [Ca Cb].
    pose proof (IH a en s Ca S) as H. destruct (gexec n p a en s) as [v en1 s1| | | |]; cbn in *; auto.
  - apply andb_true_iff in CK'. destruct CK' as [Cc Cb]. apply andb_true_iff in Cc. destruct Cc as [Cc Ca].
    pose proof (IH c en s Cc S) as H. destruct (gexec n p c en s) as [[[|]|m] en1 s1| | | |]; cbn in *; auto.
  - pose proof CK' as CW. apply andb_true_iff in CK'. destruct CK' as [Cc Cb].
    pose proof (IH c en s Cc S) as H. destruct (gexec n p c en s) as [[[|]|m] en1 s1| | | |]; cbn in *; auto.
    pose proof (IH b en1 s1 Cb H) as H2. destruct (gexec n p b en1 s1) as [v en2 s2|en2 s2| | |]; cbn in *; auto.
    all: try (apply IH; [|exact H2]; cbn [shape_chk]; rewrite CW; apply orb_true_r).
  - exact S.
  - pose proof (IH a en s CK' S) as H. destruct (gexec n p a en s) as [v en1 s1| | | |]; cbn in *; auto.
  - pose proof (IH a en s CK' S) as H. destruct (gexec n p a en s) as [v en1 s1| | | |]; cbn in *; auto.
Qed.

(** * The tree of every completed parse *)
Lemma p_new_shape txt : Shape (p_new txt).
Proof. unfold Shape, p_new. rewrite p_lex_bld. cbn [bld]. split; constructor. Qed.

Theorem parse_ident_shape p entry : shape_chk_prog p = true ->
  forall fuel txt t errs st, parse_with fuel p entry txt = ParseOk t errs st -> ident_shape t = true.
Proof.
  intros PC fuel txt t errs st H. unfold parse_with in H.
  pose proof (gexec_shape p PC fuel (ECall entry None) [] (p_new txt) eq_refl (p_new_shape txt)) as T.
  assert (F : forall s, Shape s -> p_finish s = Some (t, errs) -> ident_shape t = true).
  { intros s (C & _) E. unfold p_finish in E. destruct (b_finish (bld s)) as [t0|] eqn:B; [|discriminate]. inversion E; subst t0.
    unfold b_finish in B. destruct (children (bld s)) as [|[k cs|k tx] [|c2 r]] eqn:EC; try discriminate.
    assert (t = Node k cs) by (destruct (parents (bld s)); inversion B; reflexivity). subst t.
    inversion C. assumption. }
  destruct (gexec fuel p (ECall entry None) [] (p_new txt)) as [v en s|en s|v en s| |]; try discriminate; cbn [res_inv] in T;
    destruct (p_finish s) as [[t0 es]|] eqn:PF; try discriminate; inversion H; subst; eapply F; eauto.
Qed.

(** * The regenerated grammar *)
Lemma grammar_shape_chk : shape_chk_prog grammar_prog = true.
Proof. vm_compute. reflexivity. Qed.

Theorem grammar_ident_shape : forall fuel txt t errs st,
  parse_with fuel grammar_prog grammar_entry txt = ParseOk t errs st -> ident_shape t = true.
Proof. exact (parse_ident_shape grammar_prog grammar_entry grammar_shape_chk). Qed.
