(** Soundness of the inclusion check of model/GramAbs.v:
      check_all G prog cert = true  ->  every parse of the parser MODEL that ends with ZERO errors has consumed a
      token-kind word derivable from the start symbol of G.
    Generic in the program, the grammar and the certificate (induction on the fuel of [gexec]); the obligation
    [check_all doc_rules_sound grammar_prog grammar_cert = true] is re-evaluated by vm_compute whenever the grammar
    program or the documents change. *)
From Coq Require Import List NArith Bool Lia PeanoNat Arith String.
From TG.Gen Require Import GenTokens GenLexTables.
From TG.Model Require Import Chars Lexer Prep Tree ParserPrims GInterp DocGrammar GramAbs.
From TG.Proofs Require Import GramRx.
Import ListNotations.
Close Scope string_scope.
Open Scope list_scope.

(** * Leaf kinds held by the builder *)
Fixpoint tkinds (t : tree) : list SyntaxKind :=
  match t with
  | Tok k _ => [k]
  | Node _ cs => (fix go (l : list tree) : list SyntaxKind := match l with [] => [] | c :: r => tkinds c ++ go r end) cs
  end.
Lemma tkinds_node k cs : tkinds (Node k cs) = flat_map tkinds cs.
Proof. simpl. induction cs as [|c r IH]; simpl; auto; now rewrite IH. Qed.

Definition bkinds (b : builder) : list SyntaxKind := flat_map tkinds (rev (children b)).

Lemma bkinds_token b k t : bkinds (b_token b k t) = bkinds b ++ [k].
Proof. unfold bkinds, b_token. cbn [children]. simpl rev. rewrite flat_map_app. reflexivity. Qed.
Lemma bkinds_start_node b k : bkinds (b_start_node b k) = bkinds b.
Proof. reflexivity. Qed.
Lemma bkinds_start_node_at b cp k b' : b_start_node_at b cp k = Some b' -> bkinds b' = bkinds b.
Proof.
  unfold b_start_node_at. destruct (Nat.leb cp (List.length (children b))); try discriminate.
  destruct (parents b) as [|[k0 first] ps].
  - intros H. inversion H. reflexivity.
  - destruct (Nat.leb first cp); intros H; inversion H. reflexivity.
Qed.
Lemma bkinds_finish_node b b' : b_finish_node b = Some b' -> bkinds b' = bkinds b.
Proof.
  unfold b_finish_node. destruct (parents b) as [|[k first] ps]; try discriminate.
  intros H. inversion H. subst b'. unfold bkinds. cbn [children].
  set (n := (List.length (children b) - first)%nat).
  simpl rev. rewrite flat_map_app. cbn [flat_map]. rewrite tkinds_node, app_nil_r, <- flat_map_app.
  rewrite <- rev_app_distr, firstn_skipn. reflexivity.
Qed.

Definition nontriv (k : SyntaxKind) : bool := negb (sk_is_trivia k).
Definition W (s : pst) : list SyntaxKind := filter nontriv (bkinds (bld s)).
Definition nerr (s : pst) : nat := List.length (errs s).

Lemma sk_trivia_tk k : is_trivia k = true -> sk_is_trivia (sk_of_tk k) = true.
Proof. destruct k; simpl; intros H; try discriminate; reflexivity. Qed.

(** the non-trivia kinds one eaten token contributes (the preprocessor kinds map to a trivia syntax kind) *)
Definition tokw (k : TokenKind) : list SyntaxKind := if sk_is_trivia (sk_of_tk k) then [] else [sk_of_tk k].
Lemma filter_tokw k : filter nontriv [sk_of_tk k] = tokw k.
Proof. unfold tokw, nontriv. simpl. destruct (sk_is_trivia (sk_of_tk k)); reflexivity. Qed.

(** * What the primitives do to (errors, after_err, builder kinds, current token) *)
Lemma p_lex_frame s : errs (p_lex s) = errs s /\ after_err (p_lex s) = after_err s /\ bld (p_lex s) = bld s.
Proof.
  unfold p_lex. destruct (prep_next (pp s) (raw s)) as [[[k len] pp'] raw'].
  destruct (take_bytes len (src s)). cbn. auto.
Qed.

Lemma p_save_spec s s' : p_save s = Some s' ->
  (nerr s <= nerr s')%nat /\ cur s' = cur s /\
  (nerr s' = nerr s -> after_err s' = false /\ bkinds (bld s') = bkinds (bld s) ++ [sk_of_tk (cur s)]).
Proof.
  unfold p_save. destruct (tk_eqb (cur s) T_Error).
  - destruct (take_error _) as [[e|] pp']; try discriminate.
    intros H. inversion H. subst s'. unfold nerr. cbn. split; [lia|]. split; auto. intros; lia.
  - intros H. inversion H. subst s'. unfold nerr. cbn. split; [lia|]. split; auto. intros _. split; auto.
    apply bkinds_token.
Qed.

Lemma p_skip_spec : forall fuel s s', p_skip fuel s = Some s' ->
  (nerr s <= nerr s')%nat /\
  (nerr s' = nerr s -> (after_err s = false -> after_err s' = false) /\ W s' = W s).
Proof.
  induction fuel as [|t fuel IH]; intros s s' H; simpl in H.
  - destruct (is_trivia (cur s)); try discriminate. inversion H. subst. split; auto.
  - destruct (is_trivia (cur s)) eqn:T.
    + destruct (p_save s) as [s1|] eqn:S; try discriminate.
      apply p_save_spec in S as (M1 & C1 & Q1).
      destruct (p_lex_frame s1) as (E2 & A2 & B2).
      apply IH in H as (M2 & Q2).
      unfold nerr in *. rewrite E2 in *. split; [lia|]. intros Q.
      assert (Qa : List.length (errs s1) = List.length (errs s)) by lia.
      destruct (Q1 Qa) as (A1 & K1). destruct (Q2 ltac:(lia)) as (A3 & W3).
      split.
      * intros _. apply A3. rewrite A2. exact A1.
      * rewrite W3. unfold W. rewrite B2, K1, filter_app, filter_tokw. unfold tokw. rewrite (sk_trivia_tk _ T). apply app_nil_r.
    + inversion H. subst. split; auto.
Qed.

Lemma p_eat_spec s s' : p_eat s = Some s' ->
  (nerr s <= nerr s')%nat /\
  (nerr s' = nerr s -> after_err s' = false /\ W s' = W s ++ tokw (cur s)).
Proof.
  unfold p_eat. destruct (p_save s) as [s1|] eqn:S; try discriminate.
  apply p_save_spec in S as (M1 & C1 & Q1). unfold p_skip_all.
  destruct (p_lex_frame s1) as (E2 & A2 & B2). intros H.
  apply p_skip_spec in H as (M2 & Q2). unfold nerr in *. rewrite E2 in *. split; [lia|]. intros Q.
  assert (Qa : List.length (errs s1) = List.length (errs s)) by lia.
  destruct (Q1 Qa) as (A1 & K1). destruct (Q2 ltac:(lia)) as (A3 & W3). split.
  - apply A3. rewrite A2. exact A1.
  - rewrite W3. unfold W. rewrite B2, K1, filter_app, filter_tokw. reflexivity.
Qed.

Lemma with_bld_frame s b : errs (with_bld s b) = errs s /\ after_err (with_bld s b) = after_err s /\ cur (with_bld s b) = cur s /\ bld (with_bld s b) = b.
Proof. cbn. auto. Qed.

Lemma p_finish_node_spec s s' : p_finish_node s = Some s' ->
  errs s' = errs s /\ after_err s' = after_err s /\ cur s' = cur s /\ W s' = W s.
Proof.
  unfold p_finish_node. destruct (b_finish_node (bld s)) as [b|] eqn:E; try discriminate.
  intros H. inversion H. subst s'. cbn. repeat split; auto. unfold W. cbn. now rewrite (bkinds_finish_node _ _ E).
Qed.
Lemma p_start_node_at_spec s cp k s' : p_start_node_at s cp k = Some s' ->
  errs s' = errs s /\ after_err s' = after_err s /\ cur s' = cur s /\ W s' = W s.
Proof.
  unfold p_start_node_at. destruct (b_start_node_at (bld s) cp k) as [b|] eqn:E; try discriminate.
  intros H. inversion H. subst s'. cbn. repeat split; auto. unfold W. cbn. now rewrite (bkinds_start_node_at _ _ _ _ E).
Qed.
Lemma p_start_node_spec s k :
  errs (p_start_node s k) = errs s /\ after_err (p_start_node s k) = after_err s /\ cur (p_start_node s k) = cur s /\
  W (p_start_node s k) = W s.
Proof. cbn. auto. Qed.

Lemma p_error_nerr s m : nerr (p_error s m) = S (nerr s).
Proof. reflexivity. Qed.

Lemma p_error_and_eat_nerr s m s' : p_error_and_eat s m = Some s' -> (nerr s < nerr s')%nat.
Proof.
  unfold p_error_and_eat. destruct (p_eat _) as [s3|] eqn:E; try discriminate.
  apply p_eat_spec in E as (M & _). intros H. apply p_finish_node_spec in H as (E2 & _).
  unfold nerr in *. rewrite E2. cbn in M. lia.
Qed.
Lemma p_error_and_recover_nerr rc s m s' : p_error_and_recover rc s m = Some s' -> (nerr s < nerr s')%nat.
Proof.
  unfold p_error_and_recover. destruct (_ && _).
  - destruct (p_eat _) as [s3|] eqn:E; try discriminate.
    apply p_eat_spec in E as (M & _). intros H. apply p_finish_node_spec in H as (E2 & _).
    unfold nerr in *. rewrite E2. cbn in M. lia.
  - intros H. inversion H. subst. rewrite p_error_nerr. lia.
Qed.

Lemma p_eat_if_spec s k b s' : p_eat_if s k = Some (b, s') ->
  (b = true /\ cur s = k /\ p_eat s = Some s') \/ (b = false /\ cur s <> k /\ s' = s).
Proof.
  unfold p_eat_if, p_at. destruct (tk_eqb (cur s) k) eqn:E.
  - destruct (p_eat s) as [s1|]; try discriminate. intros H. inversion H. subst. left.
    apply tk_eqb_eq in E. auto.
  - intros H. inversion H. subst. right. repeat split; auto. intros C. subst. rewrite tk_eqb_refl in E. discriminate.
Qed.

(** * The number of recorded errors never decreases *)
Definition res_ge (k : nat) (r : res) : Prop :=
  match r with
  | RVal _ _ s | RBrk _ s | RRet _ _ s => (k <= nerr s)%nat
  | RPanic | ROOF => True
  end.
Lemma res_ge_le k k' r : (k' <= k)%nat -> res_ge k r -> res_ge k' r.
Proof. destruct r; simpl; auto; lia. Qed.

Lemma exec_prim_mono p pr en s : res_ge (nerr s) (exec_prim p pr en s).
Proof.
  destruct pr; cbn [exec_prim].
  - cbn. unfold nerr. cbn. lia.
  - unfold lift. destruct (p_finish_node s) as [s'|] eqn:E; cbn; auto.
    apply p_finish_node_spec in E as (E & _). unfold nerr. rewrite E. lia.
  - cbn. lia.
  - destruct (env_get en x) as [[b|cp]|]; cbn; auto. unfold lift.
    destruct (p_start_node_at s cp k) as [s'|] eqn:E; cbn; auto.
    apply p_start_node_at_spec in E as (E & _). unfold nerr. rewrite E. lia.
  - unfold lift, p_assert. destruct (p_eat_if s k) as [[[|] s1]|] eqn:E; cbn; auto.
    apply p_eat_if_spec in E as [(_ & _ & E)|(? & _)]; [|discriminate]. apply p_eat_spec in E. tauto.
  - unfold lift, p_expect. destruct (p_eat_if s k) as [[[|] s1]|] eqn:E; cbn; auto.
    + apply p_eat_if_spec in E as [(_ & _ & E)|(? & _)]; [|discriminate]. apply p_eat_spec in E. tauto.
    + apply p_eat_if_spec in E as [(? & _)|(_ & _ & ->)]; [discriminate|].
      destruct (after_err s); cbn [res_ge]; unfold nerr; cbn; lia.
  - unfold lift. destruct (p_eat s) as [s'|] eqn:E; cbn; auto. apply p_eat_spec in E. tauto.
  - destruct (p_eat_if s k) as [[b s1]|] eqn:E; cbn; auto.
    apply p_eat_if_spec in E as [(_ & _ & E)|(_ & _ & ->)]; [apply p_eat_spec in E; tauto|lia].
  - unfold lift, p_skip_all. destruct (p_skip _ s) as [s'|] eqn:E; cbn; auto. apply p_skip_spec in E. tauto.
  - cbn [res_ge]; unfold nerr; cbn. lia.
  - unfold lift. destruct (p_error_and_eat s m) as [s'|] eqn:E; cbn; auto. apply p_error_and_eat_nerr in E. lia.
  - unfold lift. destruct (p_error_and_recover _ s m) as [s'|] eqn:E; cbn; auto. apply p_error_and_recover_nerr in E. lia.
  - cbn. lia.
Qed.

Lemma gexec_mono p : forall n e en s, res_ge (nerr s) (gexec n p e en s).
Proof.
  induction n as [|n IH]; intros e en s; [exact I|].
  destruct e as [b|x|a|pr|f arg|a b|c a b|c b| |a|x a]; cbn [gexec].
  - cbn. lia.
  - destruct (env_get en x); cbn; auto.
  - pose proof (IH a en s) as H. destruct (gexec n p a en s) as [[b|m] en1 s1| | | |]; cbn in *; auto.
  - apply exec_prim_mono.
  - destruct (fn_body p f) as [body|]; [|exact I].
    destruct (match arg with Some (x, _) => match env_get en x with Some v => Some [v] | None => None end | None => Some [] end) as [cen0|]; [|exact I].
    pose proof (IH body cen0 s) as H.
    destruct (gexec n p body cen0 s) as [v cen1 s1|cen1 s1|v cen1 s1| |]; cbn in *; auto;
      destruct arg as [[x [|]]|]; cbn; auto; destruct cen1; cbn; auto.
  - pose proof (IH a en s) as H. destruct (gexec n p a en s) as [v en1 s1| | | |]; cbn in *; auto.
    eapply res_ge_le; [exact H|apply IH].
  - pose proof (IH c en s) as H. destruct (gexec n p c en s) as [[[|]|m] en1 s1| | | |]; cbn in *; auto;
      (eapply res_ge_le; [exact H|apply IH]).
  - pose proof (IH c en s) as H. destruct (gexec n p c en s) as [[[|]|m] en1 s1| | | |]; cbn in *; auto.
    pose proof (IH b en1 s1) as H2. destruct (gexec n p b en1 s1) as [v en2 s2|en2 s2| | |]; cbn in *; auto; try lia.
    eapply res_ge_le; [|apply IH]. lia.
  - cbn. lia.
  - pose proof (IH a en s) as H. destruct (gexec n p a en s) as [v en1 s1| | | |]; cbn in *; auto.
  - pose proof (IH a en s) as H. destruct (gexec n p a en s) as [v en1 s1| | | |]; cbn in *; auto.
Qed.

(** * Equality tests of abstract states *)
Lemma oeqb_eq a b : oeqb a b = true -> a = b.
Proof. destruct a as [[|]|], b as [[|]|]; simpl; intros H; try discriminate; reflexivity. Qed.
Lemma env_eqb_eq a : forall b, env_eqb a b = true -> a = b.
Proof.
  induction a as [|x a IH]; intros [|y b] H; simpl in H; try discriminate; auto.
  apply andb_true_iff in H as [H1 H2]. apply oeqb_eq in H1. f_equal; auto.
Qed.
Lemma rxset_sub_In a b : rxset_sub a b = true -> forall r, In r a -> In r b.
Proof.
  unfold rxset_sub. intros H r Hr. rewrite forallb_forall in H. specialize (H r Hr).
  apply existsb_exists in H as (y & Hy & E). apply rx_eqb_eq in E. now subst.
Qed.

(** * Combinators *)
Definition outs_incl (a b : aouts) : Prop :=
  incl (o_norm a) (o_norm b) /\ incl (o_brk a) (o_brk b) /\ incl (o_ret a) (o_ret b).
Lemma outs_incl_refl a : outs_incl a a.
Proof. repeat split; apply incl_refl. Qed.
Lemma outs_incl_app_l a b : outs_incl a (outs_app a b).
Proof. repeat split; cbn; apply incl_appl, incl_refl. Qed.
Lemma outs_incl_app_r a b : outs_incl b (outs_app a b).
Proof. repeat split; cbn; apply incl_appr, incl_refl. Qed.
Lemma outs_incl_trans a b c : outs_incl a b -> outs_incl b c -> outs_incl a c.
Proof. intros (A1 & A2 & A3) (B1 & B2 & B3). repeat split; eapply incl_tran; eauto. Qed.

Lemma run_all_spec f : forall I o, run_all f I = Some o ->
  forall a, In a I -> exists oa, f a = Some oa /\ outs_incl oa o.
Proof.
  induction I as [|x I IH]; intros o H a Ha; [contradiction|].
  cbn [run_all fold_right] in H. fold (run_all f I) in H.
  destruct (f x) as [ox|] eqn:Fx; try discriminate.
  destruct (run_all f I) as [oI|] eqn:FI; try discriminate.
  inversion H. subst o. destruct Ha as [<-|Ha].
  - exists ox. split; auto. apply outs_incl_app_l.
  - destruct (IH _ eq_refl a Ha) as (oa & E & Inc). exists oa. split; auto.
    eapply outs_incl_trans; [exact Inc|apply outs_incl_app_r].
Qed.

Lemma bind_norm_spec o k : forall o', bind_norm o k = Some o' ->
  incl (o_brk o) (o_brk o') /\ incl (o_ret o) (o_ret o') /\
  forall v a, In (v, a) (o_norm o) -> exists o1, k v a = Some o1 /\ outs_incl o1 o'.
Proof.
  unfold bind_norm. generalize (o_norm o) as l.
  induction l as [|[v0 a0] l IH]; intros o' H.
  - cbn in H. inversion H. subst o'. cbn. repeat split; try apply incl_refl. intros v a [].
  - cbn [fold_right fst snd] in H.
    destruct (k v0 a0) as [o1|] eqn:K; try discriminate.
    match type of H with context [match ?X with Some _ => _ | None => _ end] => destruct X as [o2|] eqn:R end; try discriminate.
    inversion H. subst o'. destruct (IH _ eq_refl) as (B & Rt & N).
    split; [cbn; apply incl_appr, B|]. split; [cbn; apply incl_appr, Rt|].
    intros v a [E|Hin].
    + inversion E. subst. exists o1. split; auto. apply outs_incl_app_l.
    + destruct (N v a Hin) as (o3 & E3 & I3). exists o3. split; auto.
      eapply outs_incl_trans; [exact I3|apply outs_incl_app_r].
Qed.

Section Main.
  Variable G : grammar.
  Variable p : prog.
  Variable C : cert.
  Variable cfuel : nat.
  Hypothesis Hcheck : forall f, (f < List.length (fns p))%nat -> check_fn G p C cfuel f = true.

  Notation aexec := (aexec G p C).

  (** * The abstraction relation *)
  Definition envrel (ae : list (option bool)) (en : env) : Prop :=
    forall x b, nth_error ae x = Some (Some b) -> nth_error en x = Some (VB b).
  Definition valrel (av : aval) (v : val) : Prop := forall b, av = Some b -> v = VB b.

  (** frame of the innermost NT function: its documented right-hand side, the word and the current token at entry *)
  Record frame := { fR : rx; fw : list SyntaxKind; fcur : TokenKind }.
  Definition Frm (F : frame) (a : astate) (s : pst) : Prop :=
    exists u : list TokenKind,
      W s = fw F ++ map sk_of_tk u /\
      (forall r v, In r (ar a) -> rmatch G r v -> rmatch G (fR F) (u ++ v)) /\
      (ac a = false -> u = [] /\ cur s = fcur F).
  Definition Rel (E0 : nat) (a : astate) (en : env) (s : pst) : Prop :=
    In (cur s) (aL a) /\ after_err s = false /\ nerr s = E0 /\ envrel (aenv a) en.

  Definition okres (E0 : nat) (F : frame) (o : aouts) (r : res) : Prop :=
    match r with
    | RVal v en' s' => nerr s' = E0 -> exists av a', In (av, a') (o_norm o) /\ valrel av v /\ Rel E0 a' en' s' /\ Frm F a' s'
    | RBrk en' s' => nerr s' = E0 -> exists a', In a' (o_brk o) /\ Rel E0 a' en' s' /\ Frm F a' s'
    | RRet v en' s' => nerr s' = E0 -> exists av a', In (av, a') (o_ret o) /\ valrel av v /\ Rel E0 a' en' s' /\ Frm F a' s'
    | RPanic | ROOF => True
    end.
  Lemma okres_incl E0 F o o' r : outs_incl o o' -> okres E0 F o r -> okres E0 F o' r.
  Proof.
    intros (I1 & I2 & I3). destruct r; cbn; auto; intros H Q; specialize (H Q).
    - destruct H as (av & a' & Hin & R). exists av, a'. split; auto.
    - destruct H as (a' & Hin & R). exists a'. split; auto.
    - destruct H as (av & a' & Hin & R). exists av, a'. split; auto.
  Qed.

  Lemma astate_eqb_rel a b : astate_eqb a b = true ->
    forall E0 F en s, Rel E0 a en s -> Frm F a s -> Rel E0 b en s /\ Frm F b s.
  Proof.
    unfold astate_eqb. intros H E0 F en s (R1 & R2 & R3 & R4) (u & U1 & U2 & U3).
    apply andb_true_iff in H as [H H5]. apply andb_true_iff in H as [H H4]. apply andb_true_iff in H as [H H3].
    apply andb_true_iff in H as [H1 H2].
    apply kinds_eqb_eq in H1. apply env_eqb_eq in H2. apply Bool.eqb_prop in H5.
    split.
    - repeat split; auto; [now rewrite <- H1|now rewrite <- H2].
    - exists u. split; [exact U1|split].
      + intros r v Hr. apply U2. eapply rxset_sub_In; eauto.
      + intros Hb. apply U3. now rewrite H5.
  Qed.

  Lemma aenv_set_same : forall x ae v, nth_error (aenv_set ae x v) x = Some v.
  Proof. induction x as [|x IH]; intros [|a0 ae] v; cbn; auto. Qed.
  Lemma aenv_set_other : forall x ae v y o, y <> x ->
    nth_error (aenv_set ae x v) y = Some (Some o) -> nth_error ae y = Some (Some o).
  Proof.
    induction x as [|x IH]; intros [|a0 ae] v [|y] o Hne H; cbn in *; try congruence.
    - destruct y; cbn in *; first [assumption|discriminate H].
    - apply (IH [] v y o) in H; [|congruence]. destruct y; cbn in *; first [assumption|discriminate H].
    - apply (IH ae v y o) in H; [auto|congruence].
  Qed.
  Lemma env_set_same : forall x en v, nth_error (env_set en x v) x = Some v.
  Proof. induction x as [|x IH]; intros [|a0 en] v; cbn; auto. Qed.
  Lemma env_set_other : forall x en v y w, y <> x -> nth_error en y = Some w -> nth_error (env_set en x v) y = Some w.
  Proof.
    induction x as [|x IH]; intros [|a0 en] v [|y] w Hne H; cbn in *; try congruence;
      try (destruct y; cbn in H; discriminate H).
    apply IH; [congruence|auto].
  Qed.

  Lemma envrel_set ae en x av v : envrel ae en -> valrel av v -> envrel (aenv_set ae x av) (env_set en x v).
  Proof.
    intros H Hv y b Hy. destruct (Nat.eq_dec y x) as [->|Hne].
    - rewrite aenv_set_same in Hy. inversion Hy. subst av. rewrite (Hv b eq_refl). apply env_set_same.
    - apply aenv_set_other in Hy; auto. apply env_set_other; auto.
  Qed.

  Lemma envrel_get ae en x v : envrel ae en -> env_get en x = Some v -> valrel (aenv_get ae x) v.
  Proof.
    intros H E b Hb. unfold aenv_get in Hb. destruct (nth_error ae x) as [o|] eqn:N; try discriminate.
    subst o. specialize (H x b N). unfold env_get in E. congruence.
  Qed.

  (** * Consuming one token *)
  Lemma consume_sound k a l F s s' :
    consume G C k a = Some l -> Frm F a s -> W s' = W s ++ tokw k ->
    exists a', In a' l /\ Frm F a' s' /\ aL a' = all_token_kinds /\ aenv a' = aenv a.
  Proof.
    unfold consume, tokw. intros Hc (u & U1 & U2 & U3) HW.
    destruct (sk_is_trivia (sk_of_tk k)).
    - inversion Hc. subst l. eexists. split; [now left|]. cbn. repeat split; auto.
      exists u. cbn. rewrite HW, app_nil_r. repeat split; auto; discriminate.
    - destruct (a_pd G C (inl k) (ar a)) as [|r0 rs] eqn:E; try discriminate.
      inversion Hc. subst l.
      exists {| aL := all_kinds; aenv := aenv a; ar := r0 :: rs; ac := true |}.
      split; [now left|]. split; [|split; reflexivity].
      exists (u ++ [k]). cbn [ar ac]. split; [|split].
      + rewrite HW, U1, map_app, app_assoc. reflexivity.
      + intros r v Hr Hm. rewrite <- E in Hr. unfold a_pd in Hr. apply dedup_rx_In in Hr.
        apply in_flat_map in Hr as (r1 & Hr1 & Hr).
        rewrite <- app_assoc. apply (U2 r1); auto.
        eapply pd_sound; eauto. reflexivity.
      + discriminate.
  Qed.

  (** * Primitives *)
  Lemma eat_step E0 F a en s s' l0 :
    p_eat s = Some s' -> nerr s' = E0 -> Rel E0 a en s -> Frm F a s -> consume G C (cur s) a = Some l0 ->
    exists a', In a' l0 /\ Rel E0 a' en s' /\ Frm F a' s'.
  Proof.
    intros He Q (R1 & R2 & R3 & R4) Hf Hc. apply p_eat_spec in He as (_ & Hq).
    destruct (Hq ltac:(lia)) as (A & HW).
    destruct (consume_sound _ _ _ _ _ _ Hc Hf HW) as (a' & Hin & Hf' & HL & He').
    exists a'. split; auto. split; auto.
    repeat split; auto.
    - rewrite HL. apply all_token_kinds_complete.
    - now rewrite He'.
  Qed.

  Lemma eat_any_spec a : forall ks res, eat_any G C a ks = Some res ->
    forall k, In k ks -> exists l0, consume G C k a = Some l0 /\ incl (map (fun s => (Some true, s)) l0) res.
  Proof.
    induction ks as [|k0 ks IH]; intros res H k Hk; [contradiction|].
    cbn [eat_any] in H. destruct (consume G C k0 a) as [l|] eqn:E; try discriminate.
    destruct (eat_any G C a ks) as [l'|] eqn:E2; try discriminate. inversion H. subst res.
    destruct Hk as [<-|Hk].
    - exists l. split; auto. apply incl_appl, incl_refl.
    - destruct (IH _ eq_refl k Hk) as (l0 & Hc & Hi). exists l0. split; auto. apply incl_appr, Hi.
  Qed.

  Lemma kset_mem_In k L : kset_mem k L = true <-> In k L.
  Proof.
    unfold kset_mem. rewrite existsb_exists. split.
    - intros (y & Hy & E). apply tk_eqb_eq in E. now subst.
    - intros H. exists k. split; auto. apply tk_eqb_refl.
  Qed.
  Lemma kset_diff_In k L ks : In k L -> kset_mem k ks = false -> In k (kset_diff L ks).
  Proof. intros H1 H2. unfold kset_diff. apply filter_In. split; auto. now rewrite H2. Qed.
  Lemma kset_inter_In k L ks : In k L -> kset_mem k ks = true -> In k (kset_inter L ks).
  Proof. intros H1 H2. unfold kset_inter. apply filter_In. split; auto. Qed.

  Definition single (l : list (aval * astate)) : aouts := {| o_norm := l; o_brk := []; o_ret := [] |}.

  Lemma unit_step E0 F a en s s' :
    errs s' = errs s -> after_err s' = after_err s -> cur s' = cur s -> W s' = W s ->
    Rel E0 a en s -> Frm F a s -> Rel E0 a en s' /\ Frm F a s'.
  Proof.
    intros H1 H2 H3 H4 (R1 & R2 & R3 & R4) (u & U1 & U2 & U3). split.
    - repeat split; auto; try congruence. unfold nerr in *. now rewrite H1.
    - exists u. repeat split; auto; try congruence; destruct (U3 H) as [? ?]; congruence.
  Qed.

  Lemma valrel_some b : valrel (Some b) (VB b).
  Proof. intros b' H. now inversion H. Qed.
  Lemma valrel_none v : valrel None v.
  Proof. intros b H. discriminate. Qed.
  Lemma ok_intro E0 F (l : list (aval * astate)) av a' v en s' :
    In (av, a') l -> valrel av v -> Rel E0 a' en s' -> Frm F a' s' ->
    exists av a', In (av, a') (o_norm (single l)) /\ valrel av v /\ Rel E0 a' en s' /\ Frm F a' s'.
  Proof. intros; exists av, a'; auto. Qed.
  Lemma with_L_ok E0 F a en s L : In (cur s) L -> Rel E0 a en s -> Frm F a s -> Rel E0 (with_L a L) en s /\ Frm F (with_L a L) s.
  Proof.
    intros Hi (R1 & R2 & R3 & R4) (u & U1 & U2 & U3). split; [repeat split; auto|].
    exists u. split; [exact U1|split; [exact U2|exact U3]].
  Qed.

  Lemma aprim_sound E0 F pr a l en s :
    aprim G C pr a = Some l -> Rel E0 a en s -> Frm F a s -> okres E0 F (single l) (exec_prim p pr en s).
  Proof.
    intros Ha HR HF. pose proof HR as (R1 & R2 & R3 & R4).
    destruct pr; cbn [exec_prim aprim] in *.
    - (* start_node *) inversion Ha. subst l. cbn [okres]. intros _.
      destruct (p_start_node_spec s k) as (A & B & D & E).
      destruct (unit_step E0 F a en s _ A B D E HR HF).
      eapply ok_intro; [now left|apply valrel_some|auto|auto].
    - (* finish_node *) inversion Ha. subst l. unfold lift. destruct (p_finish_node s) as [s'|] eqn:E; cbn [okres]; auto. intros _.
      apply p_finish_node_spec in E as (A & B & D & E).
      destruct (unit_step E0 F a en s _ A B D E HR HF).
      eapply ok_intro; [now left|apply valrel_some|auto|auto].
    - (* checkpoint *) inversion Ha. subst l. cbn [okres]. intros _.
      eapply ok_intro; [now left|apply valrel_none|auto|auto].
    - (* start_node_at *) inversion Ha. subst l. destruct (env_get en x) as [[b|cp]|]; cbn [okres]; auto.
      unfold lift. destruct (p_start_node_at s cp k) as [s'|] eqn:E; cbn [okres]; auto. intros _.
      apply p_start_node_at_spec in E as (A & B & D & E).
      destruct (unit_step E0 F a en s _ A B D E HR HF).
      eapply ok_intro; [now left|apply valrel_some|auto|auto].
    - (* assert *) unfold lift, p_assert. destruct (p_eat_if s k) as [[[|] s1]|] eqn:E; cbn [okres]; auto. intros Q.
      apply p_eat_if_spec in E as [(_ & Ck & E)|(? & _)]; [|discriminate].
      subst k. rewrite (proj2 (kset_mem_In _ _) R1) in Ha.
      destruct (consume G C (cur s) a) as [l0|] eqn:Hc; try discriminate. inversion Ha. subst l.
      destruct (eat_step _ _ _ _ _ _ _ E Q HR HF Hc) as (a' & Hin & HR' & HF').
      eapply ok_intro; [|apply valrel_some|eauto|eauto]. apply in_map_iff. eauto.
    - (* expect *) unfold lift, p_expect. destruct (p_eat_if s k) as [[[|] s1]|] eqn:E; cbn [okres]; auto.
      + intros Q. apply p_eat_if_spec in E as [(_ & Ck & E)|(? & _)]; [|discriminate].
        subst k. rewrite (proj2 (kset_mem_In _ _) R1) in Ha.
        destruct (consume G C (cur s) a) as [l0|] eqn:Hc; try discriminate. inversion Ha. subst l.
        destruct (eat_step _ _ _ _ _ _ _ E Q HR HF Hc) as (a' & Hin & HR' & HF').
        eapply ok_intro; [|apply valrel_some|eauto|eauto]. apply in_map_iff. eauto.
      + apply p_eat_if_spec in E as [(? & _)|(_ & _ & ->)]; [discriminate|].
        rewrite R2. cbn [okres]. unfold nerr in *. cbn. intros Q. lia.
    - (* eat *) unfold lift. destruct (p_eat s) as [s'|] eqn:E; cbn [okres]; auto. intros Q.
      destruct (eat_any_spec a _ _ Ha _ R1) as (l0 & Hc & Hi).
      destruct (eat_step _ _ _ _ _ _ _ E Q HR HF Hc) as (a' & Hin & HR' & HF').
      eapply ok_intro; [|apply valrel_some|eauto|eauto]. apply Hi, in_map_iff. eauto.
    - (* eat_if *) destruct (p_eat_if s k) as [[b s1]|] eqn:E; cbn [okres]; auto. intros Q.
      apply p_eat_if_spec in E as [(-> & Ck & E)|(-> & Ck & ->)].
      + subst k. rewrite (proj2 (kset_mem_In _ _) R1) in Ha.
        destruct (consume G C (cur s) a) as [l0|] eqn:Hc; try discriminate. inversion Ha. subst l.
        destruct (eat_step _ _ _ _ _ _ _ E Q HR HF Hc) as (a' & Hin & HR' & HF').
        eapply ok_intro; [|apply valrel_some|eauto|eauto]. apply in_or_app. left. apply in_map_iff. eauto.
      + assert (Hd : In (cur s) (kset_diff (aL a) [k])).
        { apply kset_diff_In; auto. unfold kset_mem. cbn. rewrite orb_false_r.
          destruct (tk_eqb (cur s) k) eqn:T; auto. apply tk_eqb_eq in T. contradiction. }
        assert (Hno : In (Some false, with_L a (kset_diff (aL a) [k]))
                         (match kset_diff (aL a) [k] with [] => [] | _ :: _ => [(Some false, with_L a (kset_diff (aL a) [k]))] end)).
        { destruct (kset_diff (aL a) [k]) eqn:D; [contradiction|]. now left. }
        destruct (with_L_ok E0 F a en s _ Hd HR HF) as (HR' & HF').
        eapply ok_intro; [|apply valrel_some|eauto|eauto].
        destruct (kset_mem k (aL a)).
        * destruct (consume G C k a); try discriminate. inversion Ha. apply in_or_app. right.
          destruct (kset_diff (aL a) [k]) eqn:D; [contradiction|]. now left.
        * inversion Ha. destruct (kset_diff (aL a) [k]) eqn:D; [contradiction|]. now left.
    - (* skip *) inversion Ha. subst l. unfold lift, p_skip_all. destruct (p_skip _ s) as [s'|] eqn:E; cbn [okres]; auto. intros Q.
      apply p_skip_spec in E as (_ & Hq). destruct (Hq ltac:(lia)) as (A & HW).
      eapply ok_intro; [now left|apply valrel_some| |].
      + repeat split; cbn; auto. apply all_token_kinds_complete.
      + destruct HF as (u & U1 & U2 & U3). exists u. cbn. split; [now rewrite HW|split; [exact U2|discriminate]].
    - (* error *) cbn [okres]. unfold nerr in *. cbn. intros Q. lia.
    - (* error_and_eat *) unfold lift. destruct (p_error_and_eat s m) as [s'|] eqn:E; cbn [okres]; auto.
      apply p_error_and_eat_nerr in E. intros Q. lia.
    - (* error_and_recover *) unfold lift. destruct (p_error_and_recover _ s m) as [s'|] eqn:E; cbn [okres]; auto.
      apply p_error_and_recover_nerr in E. intros Q. lia.
    - (* at_set *) inversion Ha. subst l. cbn [okres]. intros _. unfold p_at_set.
      destruct (existsb (tk_eqb (cur s)) ks) eqn:T.
      + assert (Hi : In (cur s) (kset_inter (aL a) ks)) by (apply kset_inter_In; auto).
        destruct (with_L_ok E0 F a en s _ Hi HR HF) as (HR' & HF').
        eapply ok_intro; [|apply valrel_some|eauto|eauto].
        apply in_or_app. left. destruct (kset_inter (aL a) ks); [contradiction|now left].
      + assert (Hi : In (cur s) (kset_diff (aL a) ks)) by (apply kset_diff_In; auto).
        destruct (with_L_ok E0 F a en s _ Hi HR HF) as (HR' & HF').
        eapply ok_intro; [|apply valrel_some|eauto|eauto].
        apply in_or_app. right. destruct (kset_diff (aL a) ks); [contradiction|now left].
  Qed.

  (** * Unfolding of the abstract executor *)
  Lemma aexec_S m e st : aexec (S m) e st =
    match e with
    | EB b => Some {| o_norm := [(Some b, st)]; o_brk := []; o_ret := [] |}
    | EVar x => Some {| o_norm := [(aenv_get (aenv st) x, st)]; o_brk := []; o_ret := [] |}
    | ENot a =>
        match aexec m a st with
        | Some o => Some {| o_norm := map (fun vs => (neg_aval (fst vs), snd vs)) (o_norm o); o_brk := o_brk o; o_ret := o_ret o |}
        | None => None
        end
    | EPrim pr => match aprim G C pr st with Some l => Some {| o_norm := l; o_brk := []; o_ret := [] |} | None => None end
    | ECall f arg =>
        match c_mode C f with
        | FNT mm ct cf =>
            match arg with
            | Some (_, true) => None
            | _ =>
                let ds := a_pd G C (inr mm) (ar st) in
                match ct, ds with
                | true, [] => None
                | _, _ =>
                    Some {| o_norm :=
                              (if ct then [(Some true, {| aL := all_kinds; aenv := aenv st; ar := ds; ac := true |})] else []) ++
                              (if cf then [(Some false, st)] else []);
                            o_brk := []; o_ret := [] |}
                end
            end
        | FInline =>
            match fn_body p f with
            | None => None
            | Some body =>
                let cen := match arg with Some (x, _) => [aenv_get (aenv st) x] | None => [] end in
                match aexec m body (with_env st cen) with
                | None => None
                | Some o =>
                    match o_brk o with
                    | _ :: _ => None
                    | [] =>
                        let back (vs : aval * astate) : aval * astate :=
                          match arg with
                          | Some (x, true) => (fst vs, with_env (snd vs) (aenv_set (aenv st) x (aenv_get (aenv (snd vs)) 0)))
                          | _ => (fst vs, with_env (snd vs) (aenv st))
                          end in
                        Some {| o_norm := map back (o_norm o ++ o_ret o); o_brk := []; o_ret := [] |}
                    end
                end
            end
        end
    | ESeq a b => match aexec m a st with Some o => bind_norm o (fun _ st1 => aexec m b st1) | None => None end
    | EIf c a b =>
        match aexec m c st with
        | Some o => bind_norm o (fun v st1 =>
                      match v with
                      | Some true => aexec m a st1
                      | Some false => aexec m b st1
                      | None => match aexec m a st1, aexec m b st1 with
                                | Some o1, Some o2 => Some (outs_app o1 o2) | _, _ => None end
                      end)
        | None => None
        end
    | EWhile c b => witer (aexec m c) (aexec m b) m [st]
    | EBreak => Some {| o_norm := []; o_brk := [st]; o_ret := [] |}
    | EReturn a =>
        match aexec m a st with
        | Some o => Some {| o_norm := []; o_brk := o_brk o; o_ret := o_norm o ++ o_ret o |}
        | None => None
        end
    | ESet x a =>
        match aexec m a st with
        | Some o => Some {| o_norm := map (fun vs => (Some true, with_env (snd vs) (aenv_set (aenv (snd vs)) x (fst vs)))) (o_norm o);
                            o_brk := o_brk o; o_ret := o_ret o |}
        | None => None
        end
    end.
  Proof. destruct e; reflexivity. Qed.

  Definition Sound (n : nat) : Prop := forall e en s m a o F E0,
    aexec m e a = Some o -> Rel E0 a en s -> Frm F a s -> okres E0 F o (gexec n p e en s).

  Lemma okres_later E0 F o n e1 en1 s1 : (E0 <= nerr s1)%nat ->
    (nerr s1 = E0 -> okres E0 F o (gexec n p e1 en1 s1)) -> okres E0 F o (gexec n p e1 en1 s1).
  Proof.
    intros Hle H. pose proof (gexec_mono p n e1 en1 s1) as M.
    destruct (gexec n p e1 en1 s1); cbn in *; auto; intros Q; apply H; lia.
  Qed.

  Lemma with_env_ok E0 F a1 ae en1 en s1 :
    Rel E0 a1 en1 s1 -> Frm F a1 s1 -> envrel ae en -> Rel E0 (with_env a1 ae) en s1 /\ Frm F (with_env a1 ae) s1.
  Proof.
    intros (R1 & R2 & R3 & R4) (u & U1 & U2 & U3) He. split; [repeat split; auto|].
    exists u. split; [exact U1|split; [exact U2|exact U3]].
  Qed.

  Lemma witer_spec exc exb : forall k I0 res, witer exc exb k I0 = Some res ->
    exists I next, incl I0 I /\ wround exc exb I = Some (res, next) /\ subset_states next I = true.
  Proof.
    induction k as [|k IH]; intros I0 res H; cbn [witer] in H; try discriminate.
    destruct (wround exc exb I0) as [[r nx]|] eqn:E; try discriminate.
    destruct (subset_states nx I0) eqn:Sb.
    - inversion H. subst r. exists I0, nx. repeat split; auto. apply incl_refl.
    - apply IH in H as (I & next & Hi & Hr & Hs). exists I, next. repeat split; auto.
      eapply incl_tran; [|exact Hi]. apply incl_appl, incl_refl.
  Qed.
  Lemma wround_spec exc exb Inv res next : wround exc exb Inv = Some (res, next) ->
    exists oc ob, run_all exc Inv = Some oc /\ o_brk oc = [] /\
      bind_norm {| o_norm := filter (fun vs => match fst vs with Some false => false | _ => true end) (o_norm oc);
                   o_brk := []; o_ret := [] |} (fun _ st1 => exb st1) = Some ob /\
      res = {| o_norm := map (fun s => (Some true, s))
                             (map snd (filter (fun vs => match fst vs with Some true => false | _ => true end) (o_norm oc)) ++ o_brk ob);
               o_brk := []; o_ret := o_ret oc ++ o_ret ob |} /\
      next = map snd (o_norm ob).
  Proof.
    unfold wround. destruct (run_all exc Inv) as [oc|]; try discriminate.
    destruct (o_brk oc) eqn:B; try discriminate.
    match goal with |- context [bind_norm ?X ?K] => destruct (bind_norm X K) as [ob|] eqn:E end; try discriminate.
    intros H. inversion H. subst. exists oc, ob. repeat split; auto.
  Qed.

  Lemma sound_all : forall n, Sound n.
  Proof.
    induction n as [n IHn] using lt_wf_ind.
    destruct n as [|n]; [intros e en s m a o F E0 _ _ _; exact I|].
    assert (IH : Sound n) by (apply IHn; lia).
    intros e en s m a o F E0 Ha HR HF. destruct m as [|m]; [discriminate|].
    rewrite aexec_S in Ha. pose proof HR as (R1 & R2 & R3 & R4).
    assert (Hs0 : (E0 <= nerr s)%nat) by lia.
    destruct e as [b|x|a0|pr|f arg|a0 b0|c a0 b0|c b0| |a0|x a0]; cbn [gexec].
    - (* EB *) inversion Ha. subst o. cbn [okres]. intros _. exists (Some b), a. repeat split; auto; [now left|apply valrel_some].
    - (* EVar *) inversion Ha. subst o. destruct (env_get en x) as [v|] eqn:E; cbn [okres]; auto. intros _.
      exists (aenv_get (aenv a) x), a. split; [now left|]. split; [eapply envrel_get; eauto|]. split; auto.
    - (* ENot *) destruct (aexec m a0 a) as [o0|] eqn:E0'; try discriminate. inversion Ha. subst o.
      pose proof (IH a0 en s m a o0 F E0 E0' HR HF) as H.
      destruct (gexec n p a0 en s) as [[b|k] en1 s1|en1 s1|v en1 s1| |]; cbn [okres] in *; auto.
      + intros Q. destruct (H Q) as (av & a' & Hin & Hv & HR' & HF').
        exists (neg_aval av), a'. split; [|split; auto].
        * cbn. apply in_map_iff. exists (av, a'). auto.
        * intros b' Hb. destruct av as [bb|]; try discriminate. cbn in Hb. inversion Hb.
          specialize (Hv bb eq_refl). inversion Hv. reflexivity.
    - (* EPrim *) destruct (aprim G C pr a) as [l|] eqn:E; try discriminate. inversion Ha. subst o.
      apply (aprim_sound E0 F pr a l en s E HR HF).
    - (* ECall *)
      destruct (fn_body p f) as [body|] eqn:Eb; [|exact I].
      set (cen := match arg with Some (x, _) => match env_get en x with Some v => Some [v] | None => None end | None => Some [] end).
      destruct cen as [cen0|] eqn:Ecen; [|exact I].
      destruct (c_mode C f) as [|mm ct cf] eqn:Em; cbv zeta in Ha.
      + (* inline *)
        set (acen := match arg with Some (x, _) => [aenv_get (aenv a) x] | None => [] end) in Ha.
        destruct (aexec m body (with_env a acen)) as [ob|] eqn:Eab; try discriminate.
        destruct (o_brk ob) eqn:Ebrk; try discriminate. injection Ha as Ho. rewrite <- Ho. clear Ho.
        match goal with |- okres _ _ ?O _ => set (OUT := O) end.
        assert (Hen : envrel acen cen0).
        { subst acen cen. destruct arg as [[x byref]|].
          - destruct (env_get en x) as [v0|] eqn:Ex; try discriminate. inversion Ecen. subst cen0.
            intros y b Hy. destruct y as [|y]; cbn in Hy.
            + inversion Hy. cbn. f_equal. apply (envrel_get _ _ _ _ R4 Ex b). auto.
            + destruct y; discriminate.
          - inversion Ecen. intros y b Hy. destruct y; discriminate. }
        destruct (with_env_ok E0 F a acen en cen0 s HR HF Hen) as (HRc & HFc).
        pose proof (IH body cen0 s m _ ob F E0 Eab HRc HFc) as H.
        assert (Back : forall v cen1 s1 av a1, In (av, a1) (o_norm ob ++ o_ret ob) -> valrel av v -> Rel E0 a1 cen1 s1 -> Frm F a1 s1 ->
                  nerr s1 = E0 ->
                  okres E0 F OUT
                    (match arg with
                     | Some (x, true) => match env_get cen1 0 with Some w => RVal v (env_set en x w) s1 | None => RPanic end
                     | _ => RVal v en s1
                     end)).
        { intros v cen1 s1 av a1 Hin Hv HR1 HF1 Q.
          destruct arg as [[x [|]]|].
          - destruct (env_get cen1 0) as [w|] eqn:Ew; [|exact I]. cbn [okres]. intros _.
            destruct (with_env_ok E0 F a1 (aenv_set (aenv a) x (aenv_get (aenv a1) 0)) cen1 (env_set en x w) s1 HR1 HF1) as (HR2 & HF2).
            { apply envrel_set; auto. eapply envrel_get; eauto. apply HR1. }
            exists av, (with_env a1 (aenv_set (aenv a) x (aenv_get (aenv a1) 0))). split; [|auto].
            unfold OUT. cbn [o_norm]. apply in_map_iff. exists (av, a1). auto.
          - cbn [okres]. intros _. destruct (with_env_ok E0 F a1 (aenv a) cen1 en s1 HR1 HF1 R4) as (HR2 & HF2).
            exists av, (with_env a1 (aenv a)). split; [|auto]. unfold OUT. cbn [o_norm]. apply in_map_iff. exists (av, a1). auto.
          - cbn [okres]. intros _. destruct (with_env_ok E0 F a1 (aenv a) cen1 en s1 HR1 HF1 R4) as (HR2 & HF2).
            exists av, (with_env a1 (aenv a)). split; [|auto]. unfold OUT. cbn [o_norm]. apply in_map_iff. exists (av, a1). auto. }
        pose proof (gexec_mono p n body cen0 s) as M.
        destruct (gexec n p body cen0 s) as [v cen1 s1|cen1 s1|v cen1 s1| |]; cbn [okres res_ge] in *; auto.
        * assert (Hq : nerr s1 = E0 -> okres E0 F OUT (match arg with
                     | Some (x, true) => match env_get cen1 0 with Some w => RVal v (env_set en x w) s1 | None => RPanic end
                     | _ => RVal v en s1 end)).
          { intros Q. destruct (H Q) as (av & a1 & Hin & Hv & HR1 & HF1). eapply Back; eauto. apply in_or_app. now left. }
          destruct arg as [[x [|]]|]; [destruct (env_get cen1 0); [|exact I]| |]; cbn [okres] in *; intros Q; apply Hq; auto.
        * assert (Hq : nerr s1 = E0 -> okres E0 F OUT (match arg with
                     | Some (x, true) => match env_get cen1 0 with Some w => RVal v (env_set en x w) s1 | None => RPanic end
                     | _ => RVal v en s1 end)).
          { intros Q. destruct (H Q) as (av & a1 & Hin & Hv & HR1 & HF1). eapply Back; eauto. apply in_or_app. now right. }
          destruct arg as [[x [|]]|]; [destruct (env_get cen1 0); [|exact I]| |]; cbn [okres] in *; intros Q; apply Hq; auto.
      + (* NT function *)
        assert (Hlt : (f < List.length (fns p))%nat) by (apply nth_error_Some; unfold fn_body in Eb; congruence).
        pose proof (Hcheck f Hlt) as Hck. unfold check_fn in Hck. rewrite Em, Eb in Hck.
        destruct (nth_error G mm) as [rhs|] eqn:Erhs; try discriminate.
        destruct (GramAbs.aexec G p C cfuel body (init_state rhs)) as [of|] eqn:Eof; try discriminate.
        destruct (o_brk of) eqn:Ebrk; try discriminate.
        rewrite forallb_forall in Hck.
        assert (Hnotref : match arg with Some (_, true) => False | _ => True end).
        { destruct arg as [[x [|]]|]; auto. discriminate. }
        set (F' := {| fR := rhs; fw := W s; fcur := cur s |}).
        assert (HRi : Rel E0 (init_state rhs) cen0 s).
        { repeat split; auto. - apply all_token_kinds_complete. - intros y b Hy. destruct y as [|[|y]]; discriminate. }
        assert (HFi : Frm F' (init_state rhs) s).
        { exists []. cbn. rewrite app_nil_r. repeat split; auto. intros r v [<-|[]] Hm. exact Hm. }
        pose proof (IH body cen0 s cfuel _ of F' E0 Eof HRi HFi) as H.
        set (ds := a_pd G C (inr mm) (ar a)) in Ha.
        assert (Ho : o = {| o_norm := (if ct then [(Some true, {| aL := all_kinds; aenv := aenv a; ar := ds; ac := true |})] else []) ++
                                      (if cf then [(Some false, a)] else []); o_brk := []; o_ret := [] |} /\ (ct = true -> ds <> [])).
        { destruct arg as [[x [|]]|]; try contradiction; destruct ct; destruct ds eqn:Eds; try discriminate; inversion Ha; split; auto; intros; discriminate. }
        destruct Ho as (-> & Hds). clear Ha.
        match goal with |- okres _ _ ?O _ => set (OUT := O) end.
        assert (Exit : forall v cen1 s1 av a', In (av, a') (o_norm of ++ o_ret of) -> valrel av v -> Rel E0 a' cen1 s1 -> Frm F' a' s1 ->
                  okres E0 F OUT (RVal v en s1)).
        { intros v cen1 s1 av a' Hin Hv (P1 & P2 & P3 & P4) (u & V1 & V2 & V3). cbn [okres]. intros _.
          specialize (Hck _ Hin). unfold exit_ok in Hck. cbn [fst snd] in Hck.
          destruct HF as (uc & U1 & U2 & U3).
          destruct av as [[|]|]; try discriminate.
          - (* returned true *)
            apply andb_true_iff in Hck as [-> Hnul]. unfold a_nullable in Hnul.
            apply existsb_exists in Hnul as (r0 & Hr0 & Hn0). apply nullable_sound in Hn0.
            assert (Hd : derives G mm u).
            { eapply MNT; eauto. specialize (V2 r0 [] Hr0 Hn0). now rewrite app_nil_r in V2. }
            exists (Some true), {| aL := all_kinds; aenv := aenv a; ar := ds; ac := true |}.
            split; [unfold OUT; cbn [o_norm]; apply in_or_app; left; now left|]. split; [exact Hv|]. split.
            + repeat split; auto. apply all_token_kinds_complete.
            + exists (uc ++ u). cbn [ar ac]. split; [|split; [|discriminate]].
              * cbn [fw F'] in V1. rewrite V1, U1, map_app, app_assoc. reflexivity.
              * intros r' v' Hr' Hm'. unfold ds, a_pd in Hr'. apply dedup_rx_In in Hr'.
                apply in_flat_map in Hr' as (r1 & Hr1 & Hr').
                rewrite <- app_assoc. apply (U2 r1); auto. eapply pd_sound; eauto.
          - (* returned false *)
            apply andb_true_iff in Hck as [-> Hac]. apply negb_true_iff in Hac.
            destruct (V3 Hac) as (-> & Hcur). cbn [fcur fw F'] in *. rewrite app_nil_r in V1.
            exists (Some false), a. split; [unfold OUT; cbn [o_norm]; apply in_or_app; right; now left|]. split; [exact Hv|]. split.
            + repeat split; auto. now rewrite Hcur.
            + exists uc. split; [now rewrite V1|split; [exact U2|]]. intros Hc0. destruct (U3 Hc0) as (-> & Hcc). split; auto. congruence. }
        pose proof (gexec_mono p n body cen0 s) as M.
        destruct (gexec n p body cen0 s) as [v cen1 s1|cen1 s1|v cen1 s1| |]; cbn [okres res_ge] in *; auto.
        * assert (Hq : nerr s1 = E0 -> okres E0 F OUT (RVal v en s1)).
          { intros Q. destruct (H Q) as (av & a1 & Hin & Hv & HR1 & HF1).
            exact (Exit v cen1 s1 av a1 (in_or_app _ _ _ (or_introl Hin)) Hv HR1 HF1). }
          destruct arg as [[x [|]]|]; try contradiction; cbn [okres] in *; intros Q; apply Hq; auto.
        * assert (Hq : nerr s1 = E0 -> okres E0 F OUT (RVal v en s1)).
          { intros Q. destruct (H Q) as (av & a1 & Hin & Hv & HR1 & HF1).
            exact (Exit v cen1 s1 av a1 (in_or_app _ _ _ (or_intror Hin)) Hv HR1 HF1). }
          destruct arg as [[x [|]]|]; try contradiction; cbn [okres] in *; intros Q; apply Hq; auto.
    - (* ESeq *)
      destruct (aexec m a0 a) as [o0|] eqn:E0'; try discriminate.
      pose proof (IH a0 en s m a o0 F E0 E0' HR HF) as H.
      destruct (bind_norm_spec _ _ _ Ha) as (Bb & Br & Bn).
      pose proof (gexec_mono p n a0 en s) as M.
      destruct (gexec n p a0 en s) as [v en1 s1|en1 s1|v en1 s1| |]; cbn [okres res_ge] in *; auto.
      + apply okres_later; [lia|]. intros Q. destruct (H Q) as (av & a' & Hin & Hv & HR' & HF').
        destruct (Bn av a' Hin) as (o1 & E1 & I1). eapply okres_incl; [exact I1|]. eapply IH; eauto.
      + intros Q. destruct (H Q) as (a' & Hin & HR' & HF'). exists a'. split; auto.
      + intros Q. destruct (H Q) as (av & a' & Hin & Hv & HR' & HF'). exists av, a'. split; auto.
    - (* EIf *)
      destruct (aexec m c a) as [o0|] eqn:E0'; try discriminate.
      pose proof (IH c en s m a o0 F E0 E0' HR HF) as H.
      destruct (bind_norm_spec _ _ _ Ha) as (Bb & Br & Bn).
      pose proof (gexec_mono p n c en s) as M.
      destruct (gexec n p c en s) as [[[|]|k] en1 s1|en1 s1|v en1 s1| |]; cbn [okres res_ge] in *; auto.
      + apply okres_later; [lia|]. intros Q. destruct (H Q) as (av & a' & Hin & Hv & HR' & HF').
        destruct (Bn av a' Hin) as (o1 & E1 & I1). eapply okres_incl; [exact I1|].
        destruct av as [[|]|].
        * eapply IH; eauto.
        * specialize (Hv false eq_refl). discriminate.
        * destruct (aexec m a0 a') as [oa|] eqn:Ea; try discriminate.
          destruct (aexec m b0 a') as [ob|] eqn:Eb; try discriminate. inversion E1. subst o1.
          eapply okres_incl; [apply outs_incl_app_l|]. eapply IH; eauto.
      + apply okres_later; [lia|]. intros Q. destruct (H Q) as (av & a' & Hin & Hv & HR' & HF').
        destruct (Bn av a' Hin) as (o1 & E1 & I1). eapply okres_incl; [exact I1|].
        destruct av as [[|]|].
        * specialize (Hv true eq_refl). discriminate.
        * eapply IH; eauto.
        * destruct (aexec m a0 a') as [oa|] eqn:Ea; try discriminate.
          destruct (aexec m b0 a') as [ob|] eqn:Eb; try discriminate. inversion E1. subst o1.
          eapply okres_incl; [apply outs_incl_app_r|]. eapply IH; eauto.
      + intros Q. destruct (H Q) as (a' & Hin & HR' & HF'). exists a'. split; auto.
      + intros Q. destruct (H Q) as (av & a' & Hin & Hv & HR' & HF'). exists av, a'. split; auto.
    - (* EWhile *)
      apply witer_spec in Ha as (Inv & next & HI & Hr & Hsub).
      apply wround_spec in Hr as (oc & ob & Hrun & Hbrk & Hbind & -> & ->).
      destruct (bind_norm_spec _ _ _ Hbind) as (_ & _ & Bn). cbn [o_norm] in Bn.
      match goal with |- okres E0 F ?R _ => set (RES := R) end.
      assert (L : forall j, (j <= S n)%nat -> forall en' s' a', In a' Inv -> Rel E0 a' en' s' -> Frm F a' s' ->
                  okres E0 F RES (gexec j p (EWhile c b0) en' s')).
      { induction j as [|j IHj]; intros Hj en' s' a' Hin HR' HF'; [exact I|].
        cbn [gexec].
        destruct (run_all_spec _ _ _ Hrun a' Hin) as (oa & Ea & Ioa).
        assert (Sj : Sound j) by (apply IHn; lia).
        pose proof (Sj c en' s' m a' oa F E0 Ea HR' HF') as Hc. apply (okres_incl _ _ _ _ _ Ioa) in Hc.
        pose proof (gexec_mono p j c en' s') as Mc.
        assert (Hs' : nerr s' = E0) by apply HR'.
        destruct (gexec j p c en' s') as [[[|]|k] en1 s1|en1 s1|v en1 s1| |]; cbn [okres res_ge] in *; auto.
        - (* condition true *)
          pose proof (gexec_mono p j b0 en1 s1) as Mb.
          assert (Body : nerr s1 = E0 -> exists a1 o1, aexec m b0 a1 = Some o1 /\ outs_incl o1 ob /\ Rel E0 a1 en1 s1 /\ Frm F a1 s1).
          { intros Q1. destruct (Hc Q1) as (av & a1 & Hin1 & Hv1 & HR1 & HF1).
            assert (Hf : In (av, a1) (filter (fun vs => match fst vs with Some false => false | _ => true end) (o_norm oc))).
            { apply filter_In. split; auto. cbn. destruct av as [[|]|]; auto. specialize (Hv1 false eq_refl). discriminate. }
            destruct (Bn av a1 Hf) as (o1 & E1 & I1). exists a1, o1. auto. }
          destruct (gexec j p b0 en1 s1) as [v2 en2 s2|en2 s2|v2 en2 s2| |] eqn:Eb; cbn [res_ge] in Mb; auto.
          + apply okres_later; [lia|]. intros Q2.
            destruct (Body ltac:(lia)) as (a1 & o1 & E1 & I1 & HR1 & HF1).
            pose proof (Sj b0 en1 s1 m a1 o1 F E0 E1 HR1 HF1) as Hb. rewrite Eb in Hb. cbn [okres] in Hb.
            destruct (Hb Q2) as (av2 & a2 & Hin2 & _ & HR2 & HF2).
            assert (Hn : In a2 (map snd (o_norm ob))).
            { apply in_map_iff. exists (av2, a2). split; auto. apply I1, Hin2. }
            unfold subset_states in Hsub. rewrite forallb_forall in Hsub. specialize (Hsub _ Hn).
            apply existsb_exists in Hsub as (y & Hy & Ey).
            destruct (astate_eqb_rel _ _ Ey E0 F en2 s2 HR2 HF2) as (HRy & HFy).
            apply (IHj ltac:(lia) en2 s2 y Hy HRy HFy).
          + cbn [okres]. intros Q2.
            destruct (Body ltac:(lia)) as (a1 & o1 & E1 & I1 & HR1 & HF1).
            pose proof (Sj b0 en1 s1 m a1 o1 F E0 E1 HR1 HF1) as Hb. rewrite Eb in Hb. cbn [okres] in Hb.
            destruct (Hb Q2) as (a2 & Hin2 & HR2 & HF2).
            exists (Some true), a2. split; [|split; [apply valrel_some|auto]].
            unfold RES. cbn [o_norm]. apply in_map. apply in_or_app. right. apply I1, Hin2.
          + cbn [okres]. intros Q2.
            destruct (Body ltac:(lia)) as (a1 & o1 & E1 & I1 & HR1 & HF1).
            pose proof (Sj b0 en1 s1 m a1 o1 F E0 E1 HR1 HF1) as Hb. rewrite Eb in Hb. cbn [okres] in Hb.
            destruct (Hb Q2) as (av2 & a2 & Hin2 & Hv2 & HR2 & HF2).
            exists av2, a2. split; [|auto]. unfold RES. cbn [o_ret]. apply in_or_app. right. apply I1, Hin2.
        - (* condition false *)
          intros Q. destruct (Hc Q) as (av & a1 & Hin1 & Hv1 & HR1 & HF1).
          exists (Some true), a1. split; [|split; [apply valrel_some|auto]].
          unfold RES. cbn [o_norm]. apply in_map. apply in_or_app. left. apply in_map_iff. exists (av, a1). split; auto.
          apply filter_In. split; auto. cbn. destruct av as [[|]|]; auto. specialize (Hv1 true eq_refl). discriminate.
        - (* break in the condition *)
          intros Q. destruct (Hc Q) as (a1 & Hin1 & _). rewrite Hbrk in Hin1. contradiction.
        - (* return in the condition *)
          intros Q. destruct (Hc Q) as (av & a1 & Hin1 & Hv1 & HR1 & HF1).
          exists av, a1. split; [|auto]. unfold RES. cbn [o_ret]. apply in_or_app. now left. }
      apply (L (S n) (le_n _) en s a); auto. apply HI. now left.
    - (* EBreak *) inversion Ha. subst o. cbn [okres]. intros _. exists a. split; [now left|auto].
    - (* EReturn *) destruct (aexec m a0 a) as [o0|] eqn:E0'; try discriminate. inversion Ha. subst o.
      pose proof (IH a0 en s m a o0 F E0 E0' HR HF) as H.
      destruct (gexec n p a0 en s) as [v en1 s1|en1 s1|v en1 s1| |]; cbn [okres] in *; auto.
      + intros Q. destruct (H Q) as (av & a' & Hin & R). exists av, a'. split; auto. cbn. apply in_or_app. now left.
      + intros Q. destruct (H Q) as (av & a' & Hin & R). exists av, a'. split; auto. cbn. apply in_or_app. now right.
    - (* ESet *) destruct (aexec m a0 a) as [o0|] eqn:E0'; try discriminate. inversion Ha. subst o.
      pose proof (IH a0 en s m a o0 F E0 E0' HR HF) as H.
      destruct (gexec n p a0 en s) as [v en1 s1|en1 s1|v en1 s1| |]; cbn [okres] in *; auto.
      intros Q. destruct (H Q) as (av & a' & Hin & Hv & HR' & HF').
      destruct (with_env_ok E0 F a' (aenv_set (aenv a') x av) en1 (env_set en1 x v) s1 HR' HF') as (HR2 & HF2).
      { apply envrel_set; auto. apply HR'. }
      exists (Some true), (with_env a' (aenv_set (aenv a') x av)). split; [|split; [apply valrel_some|auto]].
      cbn. apply in_map_iff. exists (av, a'). auto.
  Qed.
End Main.

(** * The theorem: zero errors => the consumed token kinds are a sentence *)
Lemma p_new_init txt : errs (p_new txt) = [] /\ after_err (p_new txt) = false /\ bld (p_new txt) = builder_init.
Proof. unfold p_new. destruct (p_lex_frame {| raw := raw_lex txt; src := txt; pp := pinit; cursor := 0; cur := T_Eof; cur_lo := 0; cur_text := [];
           bld := builder_init; errs := []; after_err := false; nlex := 0; nstart := 0 |}) as (A & B & D). cbn in *. auto. Qed.

Lemma b_finish_kinds b t : b_finish b = Some t -> bkinds b = tkinds t.
Proof.
  unfold b_finish, bkinds. destruct (children b) as [|[k cs|k txt] [|c2 r]]; try discriminate.
  destruct (parents b); intros H; inversion H; subst; cbn [rev app flat_map]; now rewrite app_nil_r.
Qed.

Theorem check_all_sound G p C cfuel entry start :
  check_all G p C cfuel entry start = true ->
  forall fuel txt t st, parse_with fuel p entry txt = ParseOk t [] st ->
  exists u : list TokenKind, derives G start u /\ map sk_of_tk u = filter nontriv (tkinds t).
Proof.
  unfold check_all. intros Hc fuel txt t st Hp.
  apply andb_true_iff in Hc as [Hall Hentry].
  assert (Hcheck : forall f, (f < List.length (fns p))%nat -> check_fn G p C cfuel f = true).
  { intros f Hf. rewrite forallb_forall in Hall. apply Hall. apply in_seq. lia. }
  destruct (c_mode C entry) as [|mm ct cf] eqn:Em; try discriminate.
  destruct ct; try discriminate. destruct cf; try discriminate. apply Nat.eqb_eq in Hentry. subst mm.
  unfold parse_with in Hp. destruct fuel as [|n]; [discriminate|]. cbn [gexec] in Hp.
  destruct (fn_body p entry) as [body|] eqn:Eb; [|discriminate].
  assert (Hlt : (entry < List.length (fns p))%nat) by (apply nth_error_Some; unfold fn_body in Eb; congruence).
  pose proof (Hcheck entry Hlt) as Hck. unfold check_fn in Hck. rewrite Em, Eb in Hck.
  destruct (nth_error G start) as [rhs|] eqn:Erhs; try discriminate.
  destruct (aexec G p C cfuel body (init_state rhs)) as [of|] eqn:Eof; try discriminate.
  destruct (o_brk of) eqn:Ebrk; try discriminate. rewrite forallb_forall in Hck.
  destruct (p_new_init txt) as (N1 & N2 & N3).
  set (s0 := p_new txt) in *.
  set (F0 := {| fR := rhs; fw := []; fcur := cur s0 |}).
  assert (HR : Rel 0 (init_state rhs) [] s0).
  { repeat split; auto. - apply all_token_kinds_complete. - unfold nerr. now rewrite N1. - intros y b Hy. destruct y as [|[|y]]; discriminate. }
  assert (HF : Frm G F0 (init_state rhs) s0).
  { exists []. cbn. unfold W. rewrite N3. cbn. repeat split; auto. intros r v [<-|[]] Hm. exact Hm. }
  pose proof (sound_all G p C cfuel Hcheck n body [] s0 cfuel _ of F0 0%nat Eof HR HF) as H.
  assert (Fin : forall v cen1 s1, okres G 0 F0 of (RVal v cen1 s1) \/ okres G 0 F0 of (RRet v cen1 s1) ->
            p_finish s1 = Some (t, []) -> exists u, derives G start u /\ map sk_of_tk u = filter nontriv (tkinds t)).
  { intros v cen1 s1 Hok Hfin. unfold p_finish in Hfin.
    destruct (b_finish (bld s1)) as [t'|] eqn:Ebf; try discriminate. inversion Hfin. subst t'.
    assert (Q : nerr s1 = 0%nat).
    { unfold nerr. destruct (errs s1); auto. exfalso. apply (f_equal (@List.length _)) in H2. rewrite rev_length in H2. discriminate. }
    assert (Ex : exists av a', In (av, a') (o_norm of ++ o_ret of) /\ Frm G F0 a' s1).
    { destruct Hok as [Hok|Hok]; destruct (Hok Q) as (av & a' & Hin & _ & _ & HF'); exists av, a'; split; auto; apply in_or_app; auto. }
    destruct Ex as (av & a' & Hin & (u & U1 & U2 & U3)).
    specialize (Hck _ Hin). unfold exit_ok in Hck. cbn [fst snd] in Hck.
    destruct av as [[|]|]; try discriminate.
    cbn [andb] in Hck. unfold a_nullable in Hck. apply existsb_exists in Hck as (r0 & Hr0 & Hn0).
    apply nullable_sound in Hn0. exists u. split.
    - eapply MNT; eauto. specialize (U2 r0 [] Hr0 Hn0). now rewrite app_nil_r in U2.
    - cbn [fw F0] in U1. cbn in U1. rewrite <- U1. unfold W. now rewrite (b_finish_kinds _ _ Ebf). }
  destruct (gexec n p body [] s0) as [v cen1 s1|cen1 s1|v cen1 s1| |]; cbn in Hp; try discriminate.
  - destruct (p_finish s1) as [[t' es]|] eqn:Ef; try discriminate. inversion Hp. subst. eapply Fin; eauto.
  - destruct (p_finish s1) as [[t' es]|] eqn:Ef; try discriminate. inversion Hp. subst. eapply Fin; eauto.
Qed.
