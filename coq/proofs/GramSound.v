(** Soundness of the inclusion check of model/GramAbs.v:
      check_all G prog cert = true  ->  every parse of the parser MODEL that ends with ZERO errors has consumed a
      token-kind word derivable from the start symbol of G.
    Generic in the program, the grammar and the certificate (induction on the fuel of [gexec]); the obligation
    [check_all doc_rules_sound grammar_prog grammar_cert = true] is re-evaluated by vm_compute whenever the grammar
    program or the documents change. *)
From Coq Require Import List NArith Bool Lia PeanoNat Arith String.
From TG.Gen Require Import GenTokens GenLexTables.
From TG.Model Require Import Chars Lexer Prep Tree ParserPrims GInterp DocGrammar GramAbs.
From TG.Proofs Require Import GramRx.
Import ListNotations.
Close Scope string_scope.
Open Scope list_scope.

(** * Leaf kinds held by the builder *)
Fixpoint tkinds (t : tree) : list SyntaxKind :=
  match t with
  | Tok k _ => [k]
  | Node _ cs => (fix go (l : list tree) : list SyntaxKind := match l with [] => [] | c :: r => tkinds c ++ go r end) cs
  end.
Lemma tkinds_node k cs : tkinds (Node k cs) = flat_map tkinds cs.
Proof. simpl. induction cs as [|c r IH]; simpl; auto; now rewrite IH. Qed.

Definition bkinds (b : builder) : list SyntaxKind := flat_map tkinds (rev (children b)).

Lemma bkinds_token b k t : bkinds (b_token b k t) = bkinds b ++ [k].
Proof. unfold bkinds, b_token. cbn [children]. simpl rev. rewrite flat_map_app. reflexivity. Qed.
Lemma bkinds_start_node b k : bkinds (b_start_node b k) = bkinds b.
Proof. reflexivity. Qed.
Lemma bkinds_start_node_at b cp k b' : b_start_node_at b cp k = Some b' -> bkinds b' = bkinds b.
Proof.
  unfold b_start_node_at. destruct (Nat.leb cp (List.length (children b))); try discriminate.
  destruct (parents b) as [|[k0 first] ps].
  - intros H. inversion H. reflexivity.
  - destruct (Nat.leb first cp); intros H; inversion H. reflexivity.
Qed.
Lemma bkinds_finish_node b b' : b_finish_node b = Some b' -> bkinds b' = bkinds b.
Proof.
  unfold b_finish_node. destruct (parents b) as [|[k first] ps]; try discriminate.
  intros H. inversion H. subst b'. unfold bkinds. cbn [children].
  set (n := (List.length (children b) - first)%nat).
  simpl rev. rewrite flat_map_app. cbn [flat_map]. rewrite tkinds_node, app_nil_r, <- flat_map_app.
  rewrite <- rev_app_distr, firstn_skipn. reflexivity.
Qed.

Definition nontriv (k : SyntaxKind) : bool := negb (sk_is_trivia k).
Definition W (s : pst) : list SyntaxKind := filter nontriv (bkinds (bld s)).
Definition nerr (s : pst) : nat := List.length (errs s).

Lemma sk_trivia_tk k : is_trivia k = true -> sk_is_trivia (sk_of_tk k) = true.
Proof. destruct k; simpl; intros H; try discriminate; reflexivity. Qed.

(** the non-trivia kinds one eaten token contributes (the preprocessor kinds map to a trivia syntax kind) *)
Definition tokw (k : TokenKind) : list SyntaxKind := if sk_is_trivia (sk_of_tk k) then [] else [sk_of_tk k].
Lemma filter_tokw k : filter nontriv [sk_of_tk k] = tokw k.
Proof. unfold tokw, nontriv. simpl. destruct (sk_is_trivia (sk_of_tk k)); reflexivity. Qed.

(** * What the primitives do to (errors, after_err, builder kinds, current token) *)
Lemma p_lex_frame s : errs (p_lex s) = errs s /\ after_err (p_lex s) = after_err s /\ bld (p_lex s) = bld s.
Proof.
  unfold p_lex. destruct (prep_next (pp s) (raw s)) as [[[k len] pp'] raw'].
  destruct (take_bytes len (src s)). cbn. auto.
Qed.

Lemma p_save_spec s s' : p_save s = Some s' ->
  (nerr s <= nerr s')%nat /\ cur s' = cur s /\
  (nerr s' = nerr s -> after_err s' = false /\ bkinds (bld s') = bkinds (bld s) ++ [sk_of_tk (cur s)]).
Proof.
  unfold p_save. destruct (tk_eqb (cur s) T_Error).
  - destruct (take_error _) as [[e|] pp']; try discriminate.
    intros H. inversion H. subst s'. unfold nerr. cbn. split; [lia|]. split; auto. intros; lia.
  - intros H. inversion H. subst s'. unfold nerr. cbn. split; [lia|]. split; auto. intros _. split; auto.
    apply bkinds_token.
Qed.

Lemma p_skip_spec : forall fuel s s', p_skip fuel s = Some s' ->
  (nerr s <= nerr s')%nat /\
  (nerr s' = nerr s -> (after_err s = false -> after_err s' = false) /\ W s' = W s).
Proof.
  induction fuel as [|t fuel IH]; intros s s' H; simpl in H.
  - destruct (is_trivia (cur s)); try discriminate. inversion H. subst. split; auto.
  - destruct (is_trivia (cur s)) eqn:T.
    + destruct (p_save s) as [s1|] eqn:S; try discriminate.
      apply p_save_spec in S as (M1 & C1 & Q1).
      destruct (p_lex_frame s1) as (E2 & A2 & B2).
      apply IH in H as (M2 & Q2).
      unfold nerr in *. rewrite E2 in *. split; [lia|]. intros Q.
      assert (Qa : List.length (errs s1) = List.length (errs s)) by lia.
      destruct (Q1 Qa) as (A1 & K1). destruct (Q2 ltac:(lia)) as (A3 & W3).
      split.
      * intros _. apply A3. rewrite A2. exact A1.
      * rewrite W3. unfold W. rewrite B2, K1, filter_app, filter_tokw. unfold tokw. rewrite (sk_trivia_tk _ T). apply app_nil_r.
    + inversion H. subst. split; auto.
Qed.

Lemma p_eat_spec s s' : p_eat s = Some s' ->
  (nerr s <= nerr s')%nat /\
  (nerr s' = nerr s -> after_err s' = false /\ W s' = W s ++ tokw (cur s)).
Proof.
  unfold p_eat. destruct (p_save s) as [s1|] eqn:S; try discriminate.
  apply p_save_spec in S as (M1 & C1 & Q1). unfold p_skip_all.
  destruct (p_lex_frame s1) as (E2 & A2 & B2). intros H.
  apply p_skip_spec in H as (M2 & Q2). unfold nerr in *. rewrite E2 in *. split; [lia|]. intros Q.
  assert (Qa : List.length (errs s1) = List.length (errs s)) by lia.
  destruct (Q1 Qa) as (A1 & K1). destruct (Q2 ltac:(lia)) as (A3 & W3). split.
  - apply A3. rewrite A2. exact A1.
  - rewrite W3. unfold W. rewrite B2, K1, filter_app, filter_tokw. reflexivity.
Qed.

Lemma with_bld_frame s b : errs (with_bld s b) = errs s /\ after_err (with_bld s b) = after_err s /\ cur (with_bld s b) = cur s /\ bld (with_bld s b) = b.
Proof. cbn. auto. Qed.

Lemma p_finish_node_spec s s' : p_finish_node s = Some s' ->
  errs s' = errs s /\ after_err s' = after_err s /\ cur s' = cur s /\ W s' = W s.
Proof.
  unfold p_finish_node. destruct (b_finish_node (bld s)) as [b|] eqn:E; try discriminate.
  intros H. inversion H. subst s'. cbn. repeat split; auto. unfold W. cbn. now rewrite (bkinds_finish_node _ _ E).
Qed.
Lemma p_start_node_at_spec s cp k s' : p_start_node_at s cp k = Some s' ->
  errs s' = errs s /\ after_err s' = after_err s /\ cur s' = cur s /\ W s' = W s.
Proof.
  unfold p_start_node_at. destruct (b_start_node_at (bld s) cp k) as [b|] eqn:E; try discriminate.
  intros H. inversion H. subst s'. cbn. repeat split; auto. unfold W. cbn. now rewrite (bkinds_start_node_at _ _ _ _ E).
Qed.
Lemma p_start_node_spec s k :
  errs (p_start_node s k) = errs s /\ after_err (p_start_node s k) = after_err s /\ cur (p_start_node s k) = cur s /\
  W (p_start_node s k) = W s.
Proof. cbn. auto. Qed.

Lemma p_error_nerr s m : nerr (p_error s m) = S (nerr s).
Proof. reflexivity. Qed.

Lemma p_error_and_eat_nerr s m s' : p_error_and_eat s m = Some s' -> (nerr s < nerr s')%nat.
Proof.
  unfold p_error_and_eat. destruct (p_eat _) as [s3|] eqn:E; try discriminate.
  apply p_eat_spec in E as (M & _). intros H. apply p_finish_node_spec in H as (E2 & _).
  unfold nerr in *. rewrite E2. cbn in M. lia.
Qed.
Lemma p_error_and_recover_nerr rc s m s' : p_error_and_recover rc s m = Some s' -> (nerr s < nerr s')%nat.
Proof.
  unfold p_error_and_recover. destruct (_ && _).
  - destruct (p_eat _) as [s3|] eqn:E; try discriminate.
    apply p_eat_spec in E as (M & _). intros H. apply p_finish_node_spec in H as (E2 & _).
    unfold nerr in *. rewrite E2. cbn in M. lia.
  - intros H. inversion H. subst. rewrite p_error_nerr. lia.
Qed.

Lemma p_eat_if_spec s k b s' : p_eat_if s k = Some (b, s') ->
  (b = true /\ cur s = k /\ p_eat s = Some s') \/ (b = false /\ cur s <> k /\ s' = s).
Proof.
  unfold p_eat_if, p_at. destruct (tk_eqb (cur s) k) eqn:E.
  - destruct (p_eat s) as [s1|]; try discriminate. intros H. inversion H. subst. left.
    apply tk_eqb_eq in E. auto.
  - intros H. inversion H. subst. right. repeat split; auto. intros C. subst. rewrite tk_eqb_refl in E. discriminate.
Qed.

(** * The number of recorded errors never decreases *)
Definition res_ge (k : nat) (r : res) : Prop :=
  match r with
  | RVal _ _ s | RBrk _ s | RRet _ _ s => (k <= nerr s)%nat
  | RPanic | ROOF => True
  end.
Lemma res_ge_le k k' r : (k' <= k)%nat -> res_ge k r -> res_ge k' r.
Proof. destruct r; simpl; auto; lia. Qed.

Lemma exec_prim_mono p pr en s : res_ge (nerr s) (exec_prim p pr en s).
Proof.
  destruct pr; cbn [exec_prim].
  - cbn. unfold nerr. cbn. lia.
  - unfold lift. destruct (p_finish_node s) as [s'|] eqn:E; cbn; auto.
    apply p_finish_node_spec in E as (E & _). unfold nerr. rewrite E. lia.
  - cbn. lia.
  - destruct (env_get en x) as [[b|cp]|]; cbn; auto. unfold lift.
    destruct (p_start_node_at s cp k) as [s'|] eqn:E; cbn; auto.
    apply p_start_node_at_spec in E as (E & _). unfold nerr. rewrite E. lia.
  - unfold lift, p_assert. destruct (p_eat_if s k) as [[[|] s1]|] eqn:E; cbn; auto.
    apply p_eat_if_spec in E as [(_ & _ & E)|(? & _)]; [|discriminate]. apply p_eat_spec in E. tauto.
  - unfold lift, p_expect. destruct (p_eat_if s k) as [[[|] s1]|] eqn:E; cbn; auto.
    + apply p_eat_if_spec in E as [(_ & _ & E)|(? & _)]; [|discriminate]. apply p_eat_spec in E. tauto.
    + apply p_eat_if_spec in E as [(? & _)|(_ & _ & ->)]; [discriminate|].
      destruct (after_err s); cbn [res_ge]; unfold nerr; cbn; lia.
  - unfold lift. destruct (p_eat s) as [s'|] eqn:E; cbn; auto. apply p_eat_spec in E. tauto.
  - destruct (p_eat_if s k) as [[b s1]|] eqn:E; cbn; auto.
    apply p_eat_if_spec in E as [(_ & _ & E)|(_ & _ & ->)]; [apply p_eat_spec in E; tauto|lia].
  - unfold lift, p_skip_all. destruct (p_skip _ s) as [s'|] eqn:E; cbn; auto. apply p_skip_spec in E. tauto.
  - cbn [res_ge]; unfold nerr; cbn. lia.
  - unfold lift. destruct (p_error_and_eat s m) as [s'|] eqn:E; cbn; auto. apply p_error_and_eat_nerr in E. lia.
  - unfold lift. destruct (p_error_and_recover _ s m) as [s'|] eqn:E; cbn; auto. apply p_error_and_recover_nerr in E. lia.
  - cbn. lia.
Qed.

Lemma gexec_mono p : forall n e en s, res_ge (nerr s) (gexec n p e en s).
Proof.
  induction n as [|n IH]; intros e en s; [exact I|].
  destruct e as [b|x|a|pr|f arg|a b|c a b|c b| |a|x a]; cbn [gexec].
  - cbn. lia.
  - destruct (env_get en x); cbn; auto.
  - pose proof (IH a en s) as H. destruct (gexec n p a en s) as [[b|m] en1 s1| | | |]; cbn in *; auto.
  - apply exec_prim_mono.
  - destruct (fn_body p f) as [body|]; [|exact I].
    destruct (match arg with Some (x, _) => match env_get en x with Some v => Some [v] | None => None end | None => Some [] end) as [cen0|]; [|exact I].
    pose proof (IH body cen0 s) as H.
    destruct (gexec n p body cen0 s) as [v cen1 s1|cen1 s1|v cen1 s1| |]; cbn in *; auto;
      destruct arg as [[x [|]]|]; cbn; auto; destruct cen1; cbn; auto.
  - pose proof (IH a en s) as H. destruct (gexec n p a en s) as [v en1 s1| | | |]; cbn in *; auto.
    eapply res_ge_le; [exact H|apply IH].
  - pose proof (IH c en s) as H. destruct (gexec n p c en s) as [[[|]|m] en1 s1| | | |]; cbn in *; auto;
      (eapply res_ge_le; [exact H|apply IH]).
  - pose proof (IH c en s) as H. destruct (gexec n p c en s) as [[[|]|m] en1 s1| | | |]; cbn in *; auto.
    pose proof (IH b en1 s1) as H2. destruct (gexec n p b en1 s1) as [v en2 s2|en2 s2| | |]; cbn in *; auto; try lia.
    eapply res_ge_le; [|apply IH]. lia.
  - cbn. lia.
  - pose proof (IH a en s) as H. destruct (gexec n p a en s) as [v en1 s1| | | |]; cbn in *; auto.
  - pose proof (IH a en s) as H. destruct (gexec n p a en s) as [v en1 s1| | | |]; cbn in *; auto.
Qed.

(** * Equality tests of abstract states *)
Lemma oeqb_eq a b : oeqb a b = true -> a = b.
Proof. destruct a as [[|]|], b as [[|]|]; simpl; intros H; try discriminate; reflexivity. Qed.
Lemma env_eqb_eq a : forall b, env_eqb a b = true -> a = b.
Proof.
  induction a as [|x a IH]; intros [|y b] H; simpl in H; try discriminate; auto.
  apply andb_true_iff in H as [H1 H2]. apply oeqb_eq in H1. f_equal; auto.
Qed.
Lemma rxset_sub_In a b : rxset_sub a b = true -> forall r, In r a -> In r b.
Proof.
  unfold rxset_sub. intros H r Hr. rewrite forallb_forall in H. specialize (H r Hr).
  apply existsb_exists in H as (y & Hy & E). apply rx_eqb_eq in E. now subst.
Qed.

(** * Combinators *)
Definition outs_incl (a b : aouts) : Prop :=
  incl (o_norm a) (o_norm b) /\ incl (o_brk a) (o_brk b) /\ incl (o_ret a) (o_ret b).
Lemma outs_incl_refl a : outs_incl a a.
Proof. repeat split; apply incl_refl. Qed.
Lemma outs_incl_app_l a b : outs_incl a (outs_app a b).
Proof. repeat split; cbn; apply incl_appl, incl_refl. Qed.
Lemma outs_incl_app_r a b : outs_incl b (outs_app a b).
Proof. repeat split; cbn; apply incl_appr, incl_refl. Qed.
Lemma outs_incl_trans a b c : outs_incl a b -> outs_incl b c -> outs_incl a c.
Proof. intros (A1 & A2 & A3) (B1 & B2 & B3). repeat split; eapply incl_tran; eauto. Qed.

Lemma run_all_spec f : forall I o, run_all f I = Some o ->
  forall a, In a I -> exists oa, f a = Some oa /\ outs_incl oa o.
Proof.
  induction I as [|x I IH]; intros o H a Ha; [contradiction|].
  cbn [run_all fold_right] in H. fold (run_all f I) in H.
  destruct (f x) as [ox|] eqn:Fx; try discriminate.
  destruct (run_all f I) as [oI|] eqn:FI; try discriminate.
  inversion H. subst o. destruct Ha as [<-|Ha].
  - exists ox. split; auto. apply outs_incl_app_l.
  - destruct (IH _ eq_refl a Ha) as (oa & E & Inc). exists oa. split; auto.
    eapply outs_incl_trans; [exact Inc|apply outs_incl_app_r].
Qed.

Lemma bind_norm_spec o k : forall o', bind_norm o k = Some o' ->
  incl (o_brk o) (o_brk o') /\ incl (o_ret o) (o_ret o') /\
  forall v a, In (v, a) (o_norm o) -> exists o1, k v a = Some o1 /\ outs_incl o1 o'.
Proof.
  unfold bind_norm. generalize (o_norm o) as l.
  induction l as [|[v0 a0] l IH]; intros o' H.
  - cbn in H. inversion H. subst o'. cbn. repeat split; try apply incl_refl. intros v a [].
  - cbn [fold_right fst snd] in H.
    destruct (k v0 a0) as [o1|] eqn:K; try discriminate.
    match type of H with context [match ?X with Some _ => _ | None => _ end] => destruct X as [o2|] eqn:R end; try discriminate.
    inversion H. subst o'. destruct (IH _ eq_refl) as (B & Rt & N).
    split; [cbn; apply incl_appr, B|]. split; [cbn; apply incl_appr, Rt|].
    intros v a [E|Hin].
    + inversion E. subst. exists o1. split; auto. apply outs_incl_app_l.
    + destruct (N v a Hin) as (o3 & E3 & I3). exists o3. split; auto.
      eapply outs_incl_trans; [exact I3|apply outs_incl_app_r].
Qed.

Section Main.
  Variable G : grammar.
  Variable p : prog.
  Variable C : cert.
  Variable cfuel : nat.
  Hypothesis Hcheck : forall f, (f < List.length (fns p))%nat -> check_fn G p C cfuel f = true.

  Notation aexec := (aexec G p C).

  (** * The abstraction relation *)
  Definition envrel (ae : list (option bool)) (en : env) : Prop :=
    forall x b, nth_error ae x = Some (Some b) -> nth_error en x = Some (VB b).
  Definition valrel (av : aval) (v : val) : Prop := forall b, av = Some b -> v = VB b.

  (** frame of the innermost NT function: its documented right-hand side, the word and the current token at entry *)
  Record frame := { fR : rx; fw : list SyntaxKind; fcur : TokenKind }.
  Definition Frm (F : frame) (a : astate) (s : pst) : Prop :=
    exists u : list TokenKind,
      W s = fw F ++ map sk_of_tk u /\
      (forall r v, In r (ar a) -> rmatch G r v -> rmatch G (fR F) (u ++ v)) /\
      (ac a = false -> u = [] /\ cur s = fcur F).
  Definition Rel (E0 : nat) (a : astate) (en : env) (s : pst) : Prop :=
    In (cur s) (aL a) /\ after_err s = false /\ nerr s = E0 /\ envrel (aenv a) en.

  Definition okres (E0 : nat) (F : frame) (o : aouts) (r : res) : Prop :=
    match r with
    | RVal v en' s' => nerr s' = E0 -> exists av a', In (av, a') (o_norm o) /\ valrel av v /\ Rel E0 a' en' s' /\ Frm F a' s'
    | RBrk en' s' => nerr s' = E0 -> exists a', In a' (o_brk o) /\ Rel E0 a' en' s' /\ Frm F a' s'
    | RRet v en' s' => nerr s' = E0 -> exists av a', In (av, a') (o_ret o) /\ valrel av v /\ Rel E0 a' en' s' /\ Frm F a' s'
    | RPanic | ROOF => True
    end.
  Lemma okres_incl E0 F o o' r : outs_incl o o' -> okres E0 F o r -> okres E0 F o' r.
  Proof.
    intros (I1 & I2 & I3). destruct r; cbn; auto; intros H Q; specialize (H Q).
    - destruct H as (av & a' & Hin & R). exists av, a'. split; auto.
    - destruct H as (a' & Hin & R). exists a'. split; auto.
    - destruct H as (av & a' & Hin & R). exists av, a'. split; auto.
  Qed.

  Lemma astate_eqb_rel a b : astate_eqb a b = true ->
    forall E0 F en s, Rel E0 a en s -> Frm F a s -> Rel E0 b en s /\ Frm F b s.
  Proof.
    unfold astate_eqb. intros H E0 F en s (R1 & R2 & R3 & R4) (u & U1 & U2 & U3).
    apply andb_true_iff in H as [H H5]. apply andb_true_iff in H as [H H4]. apply andb_true_iff in H as [H H3].
    apply andb_true_iff in H as [H1 H2].
    apply kinds_eqb_eq in H1. apply env_eqb_eq in H2. apply Bool.eqb_prop in H5.
    split.
    - repeat split; auto; [now rewrite <- H1|now rewrite <- H2].
    - exists u. split; [exact U1|split].
      + intros r v Hr. apply U2. eapply rxset_sub_In; eauto.
      + intros Hb. apply U3. now rewrite H5.
  Qed.

  Lemma aenv_set_same : forall x ae v, nth_error (aenv_set ae x v) x = Some v.
  Proof. induction x as [|x IH]; intros [|a0 ae] v; cbn; auto. Qed.
  Lemma aenv_set_other : forall x ae v y o, y <> x ->
    nth_error (aenv_set ae x v) y = Some (Some o) -> nth_error ae y = Some (Some o).
  Proof.
    induction x as [|x IH]; intros [|a0 ae] v [|y] o Hne H; cbn in *; try congruence.
    - destruct y; cbn in *; first [assumption|discriminate H].
    - apply (IH [] v y o) in H; [|congruence]. destruct y; cbn in *; first [assumption|discriminate H].
    - apply (IH ae v y o) in H; [auto|congruence].
  Qed.
  Lemma env_set_same : forall x en v, nth_error (env_set en x v) x = Some v.
  Proof. induction x as [|x IH]; intros [|a0 en] v; cbn; auto. Qed.
  Lemma env_set_other : forall x en v y w, y <> x -> nth_error en y = Some w -> nth_error (env_set en x v) y = Some w.
  Proof.
    induction x as [|x IH]; intros [|a0 en] v [|y] w Hne H; cbn in *; try congruence;
      try (destruct y; cbn in H; discriminate H).
    apply IH; [congruence|auto].
  Qed.

  Lemma envrel_set ae en x av v : envrel ae en -> valrel av v -> envrel (aenv_set ae x av) (env_set en x v).
  Proof.
    intros H Hv y b Hy. destruct (Nat.eq_dec y x) as [->|Hne].
    - rewrite aenv_set_same in Hy. inversion Hy. subst av. rewrite (Hv b eq_refl). apply env_set_same.
    - apply aenv_set_other in Hy; auto. apply env_set_other; auto.
  Qed.

  Lemma envrel_get ae en x v : envrel ae en -> env_get en x = Some v -> valrel (aenv_get ae x) v.
  Proof.
    intros H E b Hb. unfold aenv_get in Hb. destruct (nth_error ae x) as [o|] eqn:N; try discriminate.
    subst o. specialize (H x b N). unfold env_get in E. congruence.
  Qed.

  (** * Consuming one token *)
  Lemma consume_sound k a l F s s' :
    consume G C k a = Some l -> Frm F a s -> W s' = W s ++ tokw k ->
    exists a', In a' l /\ Frm F a' s' /\ aL a' = all_token_kinds /\ aenv a' = aenv a.
  Proof.
    unfold consume, tokw. intros Hc (u & U1 & U2 & U3) HW.
    destruct (sk_is_trivia (sk_of_tk k)).
    - inversion Hc. subst l. eexists. split; [now left|]. cbn. repeat split; auto.
      exists u. cbn. rewrite HW, app_nil_r. repeat split; auto; discriminate.
    - destruct (a_pd G C (inl k) (ar a)) as [|r0 rs] eqn:E; try discriminate.
      inversion Hc. subst l.
      exists {| aL := all_kinds; aenv := aenv a; ar := r0 :: rs; ac := true |}.
      split; [now left|]. split; [|split; reflexivity].
      exists (u ++ [k]). cbn [ar ac]. split; [|split].
      + rewrite HW, U1, map_app, app_assoc. reflexivity.
      + intros r v Hr Hm. rewrite <- E in Hr. unfold a_pd in Hr. apply dedup_rx_In in Hr.
        apply in_flat_map in Hr as (r1 & Hr1 & Hr).
        rewrite <- app_assoc. apply (U2 r1); auto.
        eapply pd_sound; eauto. reflexivity.
      + discriminate.
  Qed.

  (** * Primitives *)
  Lemma eat_step E0 F a en s s' l0 :
    p_eat s = Some s' -> nerr s' = E0 -> Rel E0 a en s -> Frm F a s -> consume G C (cur s) a = Some l0 ->
    exists a', In a' l0 /\ Rel E0 a' en s' /\ Frm F a' s'.
  Proof.
    intros He Q (R1 & R2 & R3 & R4) Hf Hc. apply p_eat_spec in He as (_ & Hq).
    destruct (Hq ltac:(lia)) as (A & HW).
    destruct (consume_sound _ _ _ _ _ _ Hc Hf HW) as (a' & Hin & Hf' & HL & He').
    exists a'. split; auto. split; auto.
    repeat split; auto.
    - rewrite HL. apply all_token_kinds_complete.
    - now rewrite He'.
  Qed.

  Lemma eat_any_spec a : forall ks res, eat_any G C a ks = Some res ->
    forall k, In k ks -> exists l0, consume G C k a = Some l0 /\ incl (map (fun s => (Some true, s)) l0) res.
  Proof.
    induction ks as [|k0 ks IH]; intros res H k Hk; [contradiction|].
    cbn [eat_any] in H. destruct (consume G C k0 a) as [l|] eqn:E; try discriminate.
    destruct (eat_any G C a ks) as [l'|] eqn:E2; try discriminate. inversion H. subst res.
    destruct Hk as [<-|Hk].
    - exists l. split; auto. apply incl_appl, incl_refl.
    - destruct (IH _ eq_refl k Hk) as (l0 & Hc & Hi). exists l0. split; auto. apply incl_appr, Hi.
  Qed.

  Lemma kset_mem_In k L : kset_mem k L = true <-> In k L.
  Proof.
    unfold kset_mem. rewrite existsb_exists. split.
    - intros (y & Hy & E). apply tk_eqb_eq in E. now subst.
    - intros H. exists k. split; auto. apply tk_eqb_refl.
  Qed.
  Lemma kset_diff_In k L ks : In k L -> kset_mem k ks = false -> In k (kset_diff L ks).
  Proof. intros H1 H2. unfold kset_diff. apply filter_In. split; auto. now rewrite H2. Qed.
  Lemma kset_inter_In k L ks : In k L -> kset_mem k ks = true -> In k (kset_inter L ks).
  Proof. intros H1 H2. unfold kset_inter. apply filter_In. split; auto. Qed.

  Definition single (l : list (aval * astate)) : aouts := {| o_norm := l; o_brk := []; o_ret := [] |}.

  Lemma unit_step E0 F a en s s' :
    errs s' = errs s -> after_err s' = after_err s -> cur s' = cur s -> W s' = W s ->
    Rel E0 a en s -> Frm F a s -> Rel E0 a en s' /\ Frm F a s'.
  Proof.
    intros H1 H2 H3 H4 (R1 & R2 & R3 & R4) (u & U1 & U2 & U3). split.
    - repeat split; auto; try congruence. unfold nerr in *. now rewrite H1.
    - exists u. repeat split; auto; try congruence; destruct (U3 H) as [? ?]; congruence.
  Qed.

  Lemma valrel_some b : valrel (Some b) (VB b).
  Proof. intros b' H. now inversion H. Qed.
  Lemma valrel_none v : valrel None v.
  Proof. intros b H. discriminate. Qed.
  Lemma ok_intro E0 F (l : list (aval * astate)) av a' v en s' :
    In (av, a') l -> valrel av v -> Rel E0 a' en s' -> Frm F a' s' ->
    exists av a', In (av, a') (o_norm (single l)) /\ valrel av v /\ Rel E0 a' en s' /\ Frm F a' s'.
  Proof. intros; exists av, a'; auto. Qed.
  Lemma with_L_ok E0 F a en s L : In (cur s) L -> Rel E0 a en s -> Frm F a s -> Rel E0 (with_L a L) en s /\ Frm F (with_L a L) s.
  Proof.
    intros Hi (R1 & R2 & R3 & R4) (u & U1 & U2 & U3). split; [repeat split; auto|].
    exists u. split; [exact U1|split; [exact U2|exact U3]].
  Qed.

  Lemma aprim_sound E0 F pr a l en s :
    aprim G C pr a = Some l -> Rel E0 a en s -> Frm F a s -> okres E0 F (single l) (exec_prim p pr en s).
  Proof.
    intros Ha HR HF. pose proof HR as (R1 & R2 & R3 & R4).
    destruct pr; cbn [exec_prim aprim] in *.
    - (* start_node *) inversion Ha. subst l. cbn [okres]. intros _.
      destruct (p_start_node_spec s k) as (A & B & D & E).
      destruct (unit_step E0 F a en s _ A B D E HR HF).
      eapply ok_intro; [now left|apply valrel_some|auto|auto].
    - (* finish_node *) inversion Ha. subst l. unfold lift. destruct (p_finish_node s) as [s'|] eqn:E; cbn [okres]; auto. intros _.
      apply p_finish_node_spec in E as (A & B & D & E).
      destruct (unit_step E0 F a en s _ A B D E HR HF).
      eapply ok_intro; [now left|apply valrel_some|auto|auto].
    - (* checkpoint *) inversion Ha. subst l. cbn [okres]. intros _.
      eapply ok_intro; [now left|apply valrel_none|auto|auto].
    - (* start_node_at *) inversion Ha. subst l. destruct (env_get en x) as [[b|cp]|]; cbn [okres]; auto.
      unfold lift. destruct (p_start_node_at s cp k) as [s'|] eqn:E; cbn [okres]; auto. intros _.
      apply p_start_node_at_spec in E as (A & B & D & E).
      destruct (unit_step E0 F a en s _ A B D E HR HF).
      eapply ok_intro; [now left|apply valrel_some|auto|auto].
    - (* assert *) unfold lift, p_assert. destruct (p_eat_if s k) as [[[|] s1]|] eqn:E; cbn [okres]; auto. intros Q.
      apply p_eat_if_spec in E as [(_ & Ck & E)|(? & _)]; [|discriminate].
      subst k. rewrite (proj2 (kset_mem_In _ _) R1) in Ha.
      destruct (consume G C (cur s) a) as [l0|] eqn:Hc; try discriminate. inversion Ha. subst l.
      destruct (eat_step _ _ _ _ _ _ _ E Q HR HF Hc) as (a' & Hin & HR' & HF').
      eapply ok_intro; [|apply valrel_some|eauto|eauto]. apply in_map_iff. eauto.
    - (* expect *) unfold lift, p_expect. destruct (p_eat_if s k) as [[[|] s1]|] eqn:E; cbn [okres]; auto.
      + intros Q. apply p_eat_if_spec in E as [(_ & Ck & E)|(? & _)]; [|discriminate].
        subst k. rewrite (proj2 (kset_mem_In _ _) R1) in Ha.
        destruct (consume G C (cur s) a) as [l0|] eqn:Hc; try discriminate. inversion Ha. subst l.
        destruct (eat_step _ _ _ _ _ _ _ E Q HR HF Hc) as (a' & Hin & HR' & HF').
        eapply ok_intro; [|apply valrel_some|eauto|eauto]. apply in_map_iff. eauto.
      + apply p_eat_if_spec in E as [(? & _)|(_ & _ & ->)]; [discriminate|].
        rewrite R2. cbn [okres]. unfold nerr in *. cbn. intros Q. lia.
    - (* eat *) unfold lift. destruct (p_eat s) as [s'|] eqn:E; cbn [okres]; auto. intros Q.
      destruct (eat_any_spec a _ _ Ha _ R1) as (l0 & Hc & Hi).
      destruct (eat_step _ _ _ _ _ _ _ E Q HR HF Hc) as (a' & Hin & HR' & HF').
      eapply ok_intro; [|apply valrel_some|eauto|eauto]. apply Hi, in_map_iff. eauto.
    - (* eat_if *) destruct (p_eat_if s k) as [[b s1]|] eqn:E; cbn [okres]; auto. intros Q.
      apply p_eat_if_spec in E as [(-> & Ck & E)|(-> & Ck & ->)].
      + subst k. rewrite (proj2 (kset_mem_In _ _) R1) in Ha.
        destruct (consume G C (cur s) a) as [l0|] eqn:Hc; try discriminate. inversion Ha. subst l.
        destruct (eat_step _ _ _ _ _ _ _ E Q HR HF Hc) as (a' & Hin & HR' & HF').
        eapply ok_intro; [|apply valrel_some|eauto|eauto]. apply in_or_app. left. apply in_map_iff. eauto.
      + assert (Hd : In (cur s) (kset_diff (aL a) [k])).
        { apply kset_diff_In; auto. unfold kset_mem. cbn. rewrite orb_false_r.
          destruct (tk_eqb (cur s) k) eqn:T; auto. apply tk_eqb_eq in T. contradiction. }
        assert (Hno : In (Some false, with_L a (kset_diff (aL a) [k]))
                         (match kset_diff (aL a) [k] with [] => [] | _ :: _ => [(Some false, with_L a (kset_diff (aL a) [k]))] end)).
        { destruct (kset_diff (aL a) [k]) eqn:D; [contradiction|]. now left. }
        destruct (with_L_ok E0 F a en s _ Hd HR HF) as (HR' & HF').
        eapply ok_intro; [|apply valrel_some|eauto|eauto].
        destruct (kset_mem k (aL a)).
        * destruct (consume G C k a); try discriminate. inversion Ha. apply in_or_app. right.
          destruct (kset_diff (aL a) [k]) eqn:D; [contradiction|]. now left.
        * inversion Ha. destruct (kset_diff (aL a) [k]) eqn:D; [contradiction|]. now left.
    - (* skip *) inversion Ha. subst l. unfold lift, p_skip_all. destruct (p_skip _ s) as [s'|] eqn:E; cbn [okres]; auto. intros Q.
      apply p_skip_spec in E as (_ & Hq). destruct (Hq ltac:(lia)) as (A & HW).
      eapply ok_intro; [now left|apply valrel_some| |].
      + repeat split; cbn; auto. apply all_token_kinds_complete.
      + destruct HF as (u & U1 & U2 & U3). exists u. cbn. split; [now rewrite HW|split; [exact U2|discriminate]].
    - (* error *) cbn [okres]. unfold nerr in *. cbn. intros Q. lia.
    - (* error_and_eat *) unfold lift. destruct (p_error_and_eat s m) as [s'|] eqn:E; cbn [okres]; auto.
      apply p_error_and_eat_nerr in E. intros Q. lia.
    - (* error_and_recover *) unfold lift. destruct (p_error_and_recover _ s m) as [s'|] eqn:E; cbn [okres]; auto.
      apply p_error_and_recover_nerr in E. intros Q. lia.
    - (* at_set *) inversion Ha. subst l. cbn [okres]. intros _. unfold p_at_set.
      destruct (existsb (tk_eqb (cur s)) ks) eqn:T.
      + assert (Hi : In (cur s) (kset_inter (aL a) ks)) by (apply kset_inter_In; auto).
        destruct (with_L_ok E0 F a en s _ Hi HR HF) as (HR' & HF').
        eapply ok_intro; [|apply valrel_some|eauto|eauto].
        apply in_or_app. left. destruct (kset_inter (aL a) ks); [contradiction|now left].
      + assert (Hi : In (cur s) (kset_diff (aL a) ks)) by (apply kset_diff_In; auto).
        destruct (with_L_ok E0 F a en s _ Hi HR HF) as (HR' & HF').
        eapply ok_intro; [|apply valrel_some|eauto|eauto].
        apply in_or_app. right. destruct (kset_diff (aL a) ks); [contradiction|now left].
  Qed.
End Main.
