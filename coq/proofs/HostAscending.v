(** In a host whose ids are dense (allocated 0,1,2,..) and whose every known id is either visited or
    pending in the queue, collect_sources visits the files in ascending FileId order: ids are handed out
    at discovery, every newly discovered file is queued at once, and the queue is FIFO.
    Consequence ([touch_fresh_ascending]): after the first touch of a fresh host the source root's file
    set, oldest first, is [0; 1; ..; k-1] - so numbering the workspace by ascending FileId
    (Pipeline.analyze) and by walk order (PipelineHost.analyze_from_state) coincide there. *)
From Coq Require Import List NArith Bool Lia Arith.
From TG.Model Require Import Includes Host.
From TG.Proofs Require Import IncludesGraph IncludesRefine HostIndex.
Import ListNotations.
Local Open Scope nat_scope.

Section Asc.
Context {path istr : Type} {PA : PathAlg path istr} {PAok : PathAlgOk path istr}.
Notation content := (content istr).
Notation world := (world path istr).
Notation fsys := (@fsys path istr).
Notation inputs := (@inputs path istr).

Definition upto (k : nat) : list N := map N.of_nat (seq 0 k).
Definition range (a n : nat) : list N := map N.of_nat (seq a n).

Lemma upto_app : forall k n, upto k ++ range k n = upto (k + n).
Proof. intros. unfold upto, range. rewrite <- map_app, <- seq_app. reflexivity. Qed.

(** first occurrences of the ids of [q] that are not in [seen] *)
Fixpoint pend (seen q : list N) : list N :=
  match q with
  | [] => []
  | x :: r => if memN x seen then pend seen r else x :: pend (x :: seen) r
  end.

Lemma memN_cons : forall x y l, memN x (y :: l) = (y =? x)%N || memN x l.
Proof. reflexivity. Qed.

Lemma memN_app : forall x a b, memN x (a ++ b) = memN x a || memN x b.
Proof. intros. unfold memN. apply existsb_app. Qed.

Lemma memN_rev : forall x l, memN x (rev l) = memN x l.
Proof.
  intros x l. destruct (memN x l) eqn:E.
  - apply memN_true. apply -> in_rev. apply memN_true. exact E.
  - apply memN_false. intro H. apply in_rev in H. apply memN_true in H. congruence.
Qed.

Lemma pend_ext : forall q s s', (forall x, memN x s = memN x s') -> pend s q = pend s' q.
Proof.
  induction q as [|x r IH]; intros s s' H; [reflexivity|]. cbn [pend]. rewrite <- H.
  destruct (memN x s); [apply IH; exact H|]. f_equal. apply IH.
  intro y. rewrite !memN_cons, H. reflexivity.
Qed.

Lemma pend_app : forall a b s, pend s (a ++ b) = pend s a ++ pend (rev (pend s a) ++ s) b.
Proof.
  induction a as [|x r IH]; intros b s; [reflexivity|]. cbn [app pend].
  destruct (memN x s); [apply IH|]. cbn [app]. rewrite IH. f_equal. f_equal.
  apply pend_ext. intro y. cbn [rev]. rewrite <- app_assoc. reflexivity.
Qed.

(** [s] holds exactly the ids below [k] *)
Definition dense (s : list N) (k : nat) : Prop := forall x, memN x s = true <-> (x < N.of_nat k)%N.

Lemma dense_upto : forall s k, (forall x, memN x s = memN x (upto k)) -> dense s k.
Proof.
  intros s k H x. rewrite H. rewrite memN_true. unfold upto. rewrite in_map_iff. split.
  - intros [n [<- Hn]]. apply in_seq in Hn. lia.
  - intro Hx. exists (N.to_nat x). split; [apply N2Nat.id|]. apply in_seq. lia.
Qed.

(** ** what one assign / resolve does to the id counter *)
Lemma assign_next : forall (fs : fsys) p f fs',
  wf_fs fs -> assign fs p = (f, fs') ->
  ((f < next fs)%N /\ next fs' = next fs) \/ (f = next fs /\ next fs' = (next fs + 1)%N).
Proof.
  intros fs p f fs' W H. unfold assign in H. destruct (file_for_path fs p) as [g|] eqn:E.
  - injection H as <- <-. left. split; [|reflexivity]. eapply (wf_lt fs W). apply (wf_fp fs W). exact E.
  - injection H as <- <-. right. split; reflexivity.
Qed.

Variable w : world.

Lemma resolve_next : forall s dirs (fs : fsys) db fs' db' o,
  wf_fs fs -> resolve w fs db s dirs = (fs', db', o) ->
  wf_fs fs' /\
  match o with
  | None => next fs' = next fs
  | Some f => ((f < next fs)%N /\ next fs' = next fs) \/ (f = next fs /\ next fs' = (next fs + 1)%N)
  end.
Proof.
  induction dirs as [|d r IH]; intros fs db fs' db' o W H; cbn [resolve] in H.
  - injection H as <- <- <-. split; [exact W|reflexivity].
  - assert (W1 : wf_fs (log_read fs (join d s))) by (destruct W; constructor; assumption).
    destruct (read w fs (join d s)).
    + destruct (assign (log_read fs (join d s)) (join d s)) as [f fs2] eqn:Ea.
      injection H as <- <- <-. destruct (assign_spec _ _ _ _ W1 Ea) as [W2 _].
      split; [exact W2|]. exact (assign_next _ _ _ _ W1 Ea).
    + destruct (IH _ _ _ _ _ W1 H) as [A B]. split; [exact A|exact B].
Qed.

Lemma resolve_all_pend : forall dirs incs (fs : fsys) db fs' db' l S k,
  wf_fs fs -> next fs = N.of_nat k -> dense S k ->
  resolve_all w fs db dirs incs = (fs', db', l) ->
  exists n, wf_fs fs' /\ next fs' = N.of_nat (k + n) /\ pend S (map snd l) = range k n.
Proof.
  intros dirs. induction incs as [|[sid s] r IH]; intros fs db fs' db' l S k W Hn HS H; cbn [resolve_all] in H.
  - injection H as <- <- <-. exists 0. rewrite Nat.add_0_r. split; [exact W|]. split; [exact Hn|reflexivity].
  - destruct (resolve w fs db s dirs) as [[fs1 db1] o] eqn:E1.
    destruct (resolve_all w fs1 db1 dirs r) as [[fs2 db2] l2] eqn:E2.
    injection H as <- <- <-.
    destruct (resolve_next _ _ _ _ _ _ _ W E1) as [W1 Ho].
    destruct o as [f|].
    + cbn [map snd pend]. destruct Ho as [[Hlt Hnx]|[Hf Hnx]].
      * assert (Hm : memN f S = true) by (apply HS; rewrite <- Hn; exact Hlt). rewrite Hm.
        apply (IH fs1 db1 fs2 db2 l2 S k W1); [congruence|exact HS|exact E2].
      * assert (Hm : memN f S = false).
        { destruct (memN f S) eqn:E; [|reflexivity]. apply HS in E. rewrite <- Hn, Hf in E. lia. }
        rewrite Hm.
        assert (HS' : dense (f :: S) (Datatypes.S k)).
        { intro x. rewrite memN_cons. rewrite Hf, Hn. split.
          - intro Hx. apply orb_true_iff in Hx. destruct Hx as [Hx|Hx].
            + apply N.eqb_eq in Hx. lia.
            + apply HS in Hx. lia.
          - intro Hx. destruct (N.eq_dec (N.of_nat k) x) as [->|Hne].
            + rewrite N.eqb_refl. reflexivity.
            + apply orb_true_iff. right. apply HS. lia. }
        destruct (IH fs1 db1 fs2 db2 l2 (f :: S) (Datatypes.S k) W1) as [n [W2 [N2 P2]]];
          [rewrite Hnx, Hn; lia|exact HS'|exact E2|].
        exists (Datatypes.S n). split; [exact W2|]. split; [rewrite N2; f_equal; lia|].
        rewrite P2. unfold range. cbn [seq map]. rewrite Hf, Hn. reflexivity.
    + apply (IH fs1 db1 fs2 db2 l2 S k W1); [congruence|exact HS|exact E2].
Qed.

Lemma fset_mem_memN : forall f (fset : list (N * path)), fset_mem f fset = memN f (map fst fset).
Proof.
  intros f fset. unfold fset_mem, memN. induction fset as [|x r IH]; [reflexivity|].
  cbn [existsb map]. rewrite IH. reflexivity.
Qed.

(** ** the walk visits ascending ids *)
Definition ainv (fs : fsys) (queue : list N) (fset : list (N * path)) (k : nat) : Prop :=
  wf_fs fs /\ next fs = N.of_nat k /\
  rev (map fst fset) ++ pend (map fst fset) queue = upto k.

Theorem collect_ascending : forall fuel fs db queue fset k fs' db' fset',
  ainv fs queue fset k ->
  collect fuel w fs db queue fset = Done (fs', db', fset') ->
  exists k', rev (map fst fset') = upto k'.
Proof.
  induction fuel as [|n IH]; intros fs db queue fset k fs' db' fset' [W [Hn Hu]] H.
  - destruct queue; cbn [collect] in H; [|discriminate]. injection H as <- <- <-.
    exists k. cbn [pend] in Hu. rewrite app_nil_r in Hu. exact Hu.
  - destruct queue as [|f q]; cbn [collect] in H.
    + injection H as <- <- <-. exists k. cbn [pend] in Hu. rewrite app_nil_r in Hu. exact Hu.
    + rewrite fset_mem_memN in H. cbn [pend] in Hu.
      destruct (memN f (map fst fset)) eqn:Em.
      * apply (IH fs db q fset k fs' db' fset'); [|exact H]. split; [exact W|]. split; [exact Hn|exact Hu].
      * destruct (fc db f) as [c|]; [|discriminate].
        destruct (path_for_file fs f) as [p|]; [|discriminate].
        destruct (parent p) as [d|]; [|discriminate].
        destruct (resolve_all w fs db (d :: extra w) (list_includes (c_items c))) as [[fs1 db1] l] eqn:Er.
        set (seen' := f :: map fst fset) in *.
        assert (HS : dense (rev (pend seen' q) ++ seen') k).
        { apply dense_upto. intro x. rewrite <- Hu. rewrite !memN_app, memN_rev, memN_rev.
          unfold seen'. rewrite !memN_cons. cbn [memN existsb].
          destruct (memN x (pend (f :: map fst fset) q)), (f =? x)%N, (memN x (map fst fset)); reflexivity. }
        destruct (resolve_all_pend _ _ _ _ _ _ _ _ k W Hn HS Er) as [m [W1 [N1 P1]]].
        apply (IH fs1 (set_rim db1 f l) (q ++ map snd l) ((f, p) :: fset) (k + m) fs' db' fset'); [|exact H].
        split; [exact W1|]. split; [exact N1|].
        cbn [map fst rev]. fold seen'. rewrite pend_app, P1.
        rewrite <- app_assoc. cbn [app]. rewrite <- upto_app, <- Hu. rewrite <- !app_assoc. reflexivity.
Qed.

(** the first touch of a fresh host *)
Theorem touch_fresh_ascending : forall fuel p c fs' db' fset root,
  touch fuel w st_init p c = Done (fs', db') ->
  sroot db' = Some (fset, root) ->
  exists k, rev (map fst fset) = upto k.
Proof.
  intros fuel p c fs' db' fset root H S. unfold touch, st_init in H.
  destruct (assign (set_open fs_init p c) p) as [f fs2] eqn:Ea.
  assert (W0 : wf_fs (set_open (@fs_init path istr) p c)) by (constructor; cbn; intros; discriminate).
  destruct (assign_spec _ _ _ _ W0 Ea) as [W2 _].
  unfold assign, file_for_path in Ea. cbn [set_open ids fs_init assoc next] in Ea. injection Ea as <- <-.
  unfold set_root_file in H.
  destruct (collect fuel w _ _ [0%N] []) as [[[fs3 db3] fset3]| |e] eqn:Ec; try discriminate.
  injection H as <- <-. cbn [set_sroot sroot] in S. injection S as <- <-.
  eapply (collect_ascending fuel _ _ [0%N] [] 1); [|exact Ec].
  split; [exact W2|]. split; reflexivity.
Qed.

End Asc.

