(** The workspace that the end-to-end pipeline (model/Pipeline.v) hands to the indexer model is well formed:
    one statement list per workspace file; every range and identifier of file k carries the file number k and
    delimits a slice of THAT file's text (the identifier's name being the slice); every include target is the
    number of a workspace file.  These are the facts the indexer model relies on when it looks files up
    ([nthN files f]) and turns CoreAst ranges into symbol locations. *)
From Coq Require Import List NArith Bool String PeanoNat Lia.
From TG.Gen Require Import GenTokens GenAst GenGrammar.
From TG.Model Require Import Chars Lexer Prep Tree ParserPrims GInterp AstAccess CoreAst AstToCore CoreParts.
From TG.Model Require Includes Host.
From TG.Model Require Import Pipeline.
From TG.Proofs Require Import ParserTile GTile ParserTop BridgeProofs BridgeText.
Import ListNotations.
Close Scope string_scope.
Open Scope N_scope.
Open Scope list_scope.

Definition ident_in_text (txt : text) (i : ident) : Prop :=
  exists pre suf, txt = pre ++ i_name i ++ suf /\ r_lo (i_rng i) = bytes pre /\ r_hi (i_rng i) = bytes pre + bytes (i_name i).

Definition file_wf (nfiles : nat) (k : nat) (txt : text) (fl : list stmt) : Prop :=
  Forall (fun r => r_file r = N.of_nat k /\ slice_of txt (r_lo r) (r_hi r)) (file_rngs fl) /\
  Forall (fun i => r_file (i_rng i) = N.of_nat k /\ ident_in_text txt i) (file_idents fl) /\
  Forall (fun g => g < N.of_nat nfiles) (file_targets fl).

Definition ws_wf (texts : list text) (w : workspace) : Prop :=
  List.length (ws_files w) = List.length texts /\
  forall k fl txt, nth_error (ws_files w) k = Some fl -> nth_error texts k = Some txt ->
                   file_wf (List.length texts) k txt fl.

(** a parsed file: its parse is the modelled parser's answer on its text *)
Definition pf_ok (p : pfile) : Prop := exists fuel, pf_out p = parse_with fuel grammar_prog grammar_entry (pf_text p).

Lemma firstErr_ok {A} : forall (l : list (res A)) fl, firstErr l = Ok fl -> l = map Ok fl.
Proof.
  induction l as [|[a|e|] l IH]; intros fl E; cbn [firstErr] in E; try discriminate.
  - inversion E. reflexivity.
  - destruct (firstErr l) as [l'|e|] eqn:F; try discriminate. inversion E; subst. cbn [map]. f_equal. apply IH. reflexivity.
Qed.

Lemma number_from_nth {A} : forall (l : list A) s k,
  nth_error (number_from s l) k = option_map (fun x => (s + N.of_nat k, x)) (nth_error l k).
Proof.
  induction l as [|x l IH]; intros s k; destruct k as [|k]; cbn [number_from nth_error option_map]; try reflexivity.
  - rewrite N.add_0_r. reflexivity.
  - rewrite IH. destruct (nth_error l k); cbn [option_map]; [|reflexivity]. do 2 f_equal. lia.
Qed.

Lemma number_from_length {A} : forall (l : list A) s, List.length (number_from s l) = List.length l.
Proof. induction l as [|x l IH]; intros s; cbn [number_from List.length]; [reflexivity|]. rewrite IH. reflexivity. Qed.

Lemma index_of_bound f : forall l s k, index_of f l s = Some k -> k < s + N.of_nat (List.length l).
Proof.
  induction l as [|g l IH]; intros s k E; cbn [index_of] in E; [discriminate|].
  destruct (g =? f).
  - inversion E; subst. cbn [List.length]. lia.
  - apply IH in E. cbn [List.length]. lia.
Qed.

Lemma links_for_bound ids dl f g : link_tgt (links_for ids dl f) g -> g < N.of_nat (List.length ids).
Proof.
  intros (lo & hi & H). unfold links_for in H. apply in_flat_map in H. destruct H as (lt & _ & H).
  destruct (index_of (snd lt) ids 0) as [k|] eqn:E; [|contradiction]. destruct H as [H|[]]. inversion H; subst.
  apply index_of_bound in E. lia.
Qed.

Lemma core_of_pfile_wf ids dl k f p fl :
  pf_ok p -> core_of_pfile ids dl (N.of_nat k, (f, p)) = Ok fl -> file_wf (List.length ids) k (pf_text p) fl.
Proof.
  intros (fuel & PO) E. unfold core_of_pfile in E. cbn [fst snd] in E. unfold pf_tree in E.
  destruct (pf_out p) as [t es st| |] eqn:O; try discriminate. symmetry in PO.
  assert (CT : core_of_text fuel (N.of_nat k) (links_for ids dl f) (pf_text p) = Some (Ok fl)).
  { unfold core_of_text. rewrite PO, E. reflexivity. }
  split; [eapply core_ranges_in_text; exact CT|]. split; [eapply core_idents_in_text; exact CT|].
  eapply Forall_impl; [|eapply core_targets_are_links; exact E]. intros g Hg. eapply links_for_bound. exact Hg.
Qed.

Lemma assemble_nth ids dl wsf w k fl :
  an_core (assemble ids dl wsf) = Ok w -> nth_error (ws_files w) k = Some fl ->
  exists f p, nth_error wsf k = Some (f, p) /\ core_of_pfile ids dl (N.of_nat k, (f, p)) = Ok fl.
Proof.
  intros E Hk. unfold assemble in E. cbn [an_core] in E.
  destruct (firstErr (map (core_of_pfile ids dl) (number_from 0 wsf))) as [fl0|e|] eqn:F; try discriminate.
  inversion E; subst w. cbn [ws_files] in Hk. apply firstErr_ok in F.
  apply (f_equal (fun l => nth_error l k)) in F. cbv beta in F. rewrite !nth_error_map in F. rewrite number_from_nth in F.
  rewrite Hk in F. destruct (nth_error wsf k) as [[f p]|] eqn:Hw; cbn [option_map] in F; [|discriminate].
  inversion F as [F']. try rewrite N.add_0_l in F'. exists f, p. auto.
Qed.

Lemma assemble_length ids dl wsf w :
  an_core (assemble ids dl wsf) = Ok w -> List.length (ws_files w) = List.length wsf.
Proof.
  intros E. unfold assemble in E. cbn [an_core] in E.
  destruct (firstErr (map (core_of_pfile ids dl) (number_from 0 wsf))) as [fl|e|] eqn:F; try discriminate.
  inversion E; subst w. cbn [ws_files]. apply firstErr_ok in F.
  apply (f_equal (@List.length _)) in F. rewrite !map_length, number_from_length in F. symmetry. exact F.
Qed.

Theorem assemble_wf ids dl wsf w :
  List.length wsf = List.length ids -> Forall (fun fp => pf_ok (snd fp)) wsf ->
  an_core (assemble ids dl wsf) = Ok w -> ws_wf (map (fun fp => pf_text (snd fp)) wsf) w.
Proof.
  intros L OKs E. unfold ws_wf. rewrite map_length. split; [eapply assemble_length; exact E|].
  intros k flk txt Hk Ht. destruct (assemble_nth _ _ _ _ _ _ E Hk) as (f & p & Hw & C).
  rewrite nth_error_map, Hw in Ht. cbn [option_map snd] in Ht. inversion Ht; subst txt.
  rewrite L. eapply core_of_pfile_wf; [|exact C].
  rewrite Forall_forall in OKs. apply (OKs (f, p)). eapply nth_error_In. exact Hw.
Qed.

Lemma all_some_spec {A} : forall (l : list (option A)) r, all_some l = Some r -> l = map Some r.
Proof.
  induction l as [|[a|] l IH]; intros r E; cbn [all_some] in E; try discriminate.
  - inversion E. reflexivity.
  - destruct (all_some l) as [r'|] eqn:F; try discriminate. inversion E; subst. cbn [map]. f_equal. apply IH. reflexivity.
Qed.

Lemma parse_file_ok fuel path txt : pf_ok (parse_file fuel path txt).
Proof. exists fuel. reflexivity. Qed.

(** what [analyze] returns is an [assemble] of parsed files, one per workspace FileId *)
Lemma analyze_assemble : forall pfuel cfuel files root a,
  analyze pfuel cfuel files root = Some a ->
  exists ids dl wsf, a = assemble ids dl wsf /\ List.length wsf = List.length ids /\ Forall (fun fp => pf_ok (snd fp)) wsf.
Proof.
  intros pfuel cfuel files root a A. unfold analyze in A.
  set (parsed := map (fun pt => parse_file pfuel (components (fst pt)) (snd pt)) files) in *.
  destruct (Host.touch _ _ _ _ _) as [[fs2 db2]| |]; try discriminate.
  destruct (Includes.sroot db2) as [[fset rt]|]; try discriminate.
  set (ids := sort_ids (map fst fset)) in *.
  destruct (all_some _) as [wsf|] eqn:AS; try discriminate. inversion A; subst a. clear A.
  apply all_some_spec in AS.
  exists ids, (fun f => match Host.document_link db2 f with Includes.Done l => l | _ => [] end), wsf.
  split; [reflexivity|]. split.
  - apply (f_equal (@List.length _)) in AS. rewrite !map_length in AS. symmetry. exact AS.
  - rewrite Forall_forall. intros fp Hfp. assert (I0 : In (Some fp) (map Some wsf)) by (apply in_map; exact Hfp).
    rewrite <- AS in I0. apply in_map_iff in I0. destruct I0 as (f & Hf & _).
    destruct (Includes.fc db2 f) as [c|]; [|discriminate].
    destruct (nth_error parsed (N.to_nat (Includes.c_tag c))) as [p|] eqn:NP; inversion Hf; subst fp; cbn [snd].
    + apply nth_error_In in NP. unfold parsed in NP. apply in_map_iff in NP. destruct NP as (pt & <- & _). apply parse_file_ok.
    + apply parse_file_ok.
Qed.

(** THE PIPELINE: whatever the files and the root, when the analysis yields a Core workspace, that workspace is well
    formed with respect to the texts of its files *)
Theorem analyze_wf : forall pfuel cfuel files root a w,
  analyze pfuel cfuel files root = Some a -> an_core a = Ok w ->
  ws_wf (map (fun fp => pf_text (snd fp)) (an_files a)) w.
Proof.
  intros pfuel cfuel files root a w A E. destruct (analyze_assemble _ _ _ _ _ A) as (ids & dl & wsf & -> & L & OKs).
  change (an_files (assemble ids dl wsf)) with wsf. apply assemble_wf with (ids := ids) (dl := dl); assumption.
Qed.
