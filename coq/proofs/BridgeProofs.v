(** Proofs about the bridge model/AstToCore.v (tree -> CoreAst through the generated accessor table).

    - [laccess_access]        the located accessors are AstAccess.access with offsets
    - [core_of_tree_total]    core_of_tree never runs out of fuel (it returns Ok or Err = "noncore")
    - [core_ranges_in_tree]   every range of the produced CoreAst (identifier ranges included) is the range of a
                              located subtree (node or token) of the input tree
    - [core_idents_are_tokens] / [core_idents_are_id_tokens]
                              every identifier carries the text of the token of the tree at exactly its range;
                              that token is the first token of an Identifier node, hence an Id token when the
                              Identifier nodes of the tree have the shape the grammar gives them ([ident_shape])
    - [sub_in_tree], [sub_slice]  located subtrees are entries of Tree.descendants / Tree.leaves, and slices of
                              the tree text that start at their offset (with C01_lossless: of the parsed text) *)
From Coq Require Import List NArith ZArith Bool String PeanoNat Lia.
From TG.Gen Require Import GenTokens GenAst GenGrammar.
From TG.Model Require Import Chars Lexer Prep Tree ParserPrims GInterp AstAccess CoreAst AstToCore CoreParts.
From TG.Proofs Require Import ParserTile.
Import ListNotations.
Close Scope string_scope.
Open Scope N_scope.
Open Scope list_scope.

(** * The located accessors are the accessors of AstAccess.v *)
Lemma map_snd_with_offsets : forall cs o, map snd (with_offsets o cs) = cs.
Proof. induction cs as [|c r IH]; intros o; cbn [with_offsets map snd]; [reflexivity|]. rewrite IH. reflexivity. Qed.

Lemma filter_map_snd {A B} (p : B -> bool) (l : list (A * B)) :
  map snd (filter (fun c => p (snd c)) l) = filter p (map snd l).
Proof. induction l as [|x l IH]; cbn [filter map]; [reflexivity|]. destruct (p (snd x)); cbn [map]; rewrite IH; reflexivity. Qed.

Lemma filter_filter {A} (p q : A -> bool) (l : list A) : filter p (filter q l) = filter (fun x => q x && p x) l.
Proof. induction l as [|x l IH]; cbn [filter]; [reflexivity|]. destruct (q x); cbn [filter andb]; rewrite IH; reflexivity. Qed.

Lemma map_firstn {A B} (f : A -> B) n (l : list A) : map f (firstn n l) = firstn n (map f l).
Proof. revert l; induction n; intros [|x l]; cbn [firstn map]; try reflexivity. rewrite IHn. reflexivity. Qed.

Lemma nth_error_map' {A B} (f : A -> B) (l : list A) i : nth_error (map f l) i = option_map f (nth_error l i).
Proof. revert l; induction i; intros [|x l]; cbn [nth_error map option_map]; try reflexivity. apply IHi. Qed.

Theorem laccess_access : forall x ks m, map snd (laccess x ks m) = access (snd x) ks m.
Proof.
  intros [o t] ks m. unfold laccess, access, of_kinds, node_children, lchildren. cbn [fst snd].
  set (p := fun c : tree => is_node c && kind_in (kind_of c) ks).
  assert (E : map snd (filter (fun c : N * tree => is_node (snd c) && kind_in (kind_of (snd c)) ks) (with_offsets o (children_of t)))
              = filter (fun c => kind_in (kind_of c) ks) (filter is_node (children_of t))).
  { change (fun c : N * tree => is_node (snd c) && kind_in (kind_of (snd c)) ks) with (fun c : N * tree => p (snd c)).
    rewrite filter_map_snd, map_snd_with_offsets, filter_filter. reflexivity. }
  destruct m as [| |i].
  - rewrite map_firstn, E. reflexivity.
  - exact E.
  - rewrite <- E, nth_error_map'. destruct (nth_error _ i); reflexivity.
Qed.

(** * Located subtrees *)
Inductive sub (t : tree) : lnode -> Prop :=
| sub_root : sub t (0, t)
| sub_child : forall x y, sub t x -> In y (lchildren x) -> sub t y.

Lemma firstn_In' {A} n : forall (l : list A) x, In x (firstn n l) -> In x l.
Proof. induction n; intros [|a l] x H; cbn [firstn] in H; try contradiction. destruct H as [->|H]; [left; reflexivity|right; auto]. Qed.

Lemma laccess_children x ks m y : In y (laccess x ks m) -> In y (lchildren x).
Proof.
  unfold laccess. match goal with |- context [filter ?p (lchildren x)] => set (cs := filter p (lchildren x)) end.
  assert (S : forall z, In z cs -> In z (lchildren x)) by (intros z Hz; apply filter_In in Hz; tauto).
  destruct m as [| |i]; intros H.
  - apply S. eapply firstn_In'. exact H.
  - apply S. exact H.
  - destruct (nth_error cs i) eqn:E; [|contradiction]. destruct H as [<-|[]]. apply S. eapply nth_error_In. exact E.
Qed.

Lemma laccess_is_node x ks m y : In y (laccess x ks m) -> is_node (snd y) = true /\ kind_in (kind_of (snd y)) ks = true.
Proof.
  unfold laccess. match goal with |- context [filter ?p (lchildren x)] => set (cs := filter p (lchildren x)) end.
  assert (S : forall z, In z cs -> is_node (snd z) = true /\ kind_in (kind_of (snd z)) ks = true).
  { intros z Hz. apply filter_In in Hz. destruct Hz as [_ Hz]. apply andb_true_iff in Hz. exact Hz. }
  destruct m as [| |i]; intros H.
  - apply S. eapply firstn_In'. exact H.
  - apply S. exact H.
  - destruct (nth_error cs i) eqn:E; [|contradiction]. destruct H as [<-|[]]. apply S. eapply nth_error_In. exact E.
Qed.

Lemma field_children x f y : In y (field x f) -> In y (lchildren x).
Proof. unfold field. destruct (find _ _); [apply laccess_children|contradiction]. Qed.

Lemma field_sub t x f y : sub t x -> In y (field x f) -> sub t y.
Proof. intros S H. eapply sub_child; [exact S|]. eapply field_children. exact H. Qed.

Lemma first_tok_sub t : forall t0 off y, first_tok off t0 = Some y -> sub t (off, t0) ->
  sub t y /\ exists k txt, snd y = Tok k txt.
Proof.
  fix IH 1. intros [k cs|k txt] off y E S.
  - destruct cs as [|c r].
    { cbn [first_tok] in E. discriminate. }
    cbn [first_tok] in E.
    apply (IH c off y E). eapply sub_child; [exact S|]. unfold lchildren. cbn [fst snd children_of with_offsets]. left. reflexivity.
  - cbn [first_tok] in E. inversion E. subst y. split; [exact S|]. exists k, txt. reflexivity.
Qed.

Lemma first_token_sub t x y : sub t x -> first_token x = Some y -> sub t y /\ exists k txt, snd y = Tok k txt.
Proof. destruct x as [o t0]. unfold first_token. cbn [fst snd]. intros S E. eapply first_tok_sub; eauto. Qed.

(** * Heights: a child is lower *)
Lemma height_node k cs : height (Node k cs) = S (fold_right (fun c a => Nat.max (height c) a) O cs).
Proof. cbn [height]. apply f_equal. induction cs as [|c r IH]; [reflexivity|]. cbn [fold_right]. rewrite <- IH. reflexivity. Qed.

Lemma with_offsets_in : forall cs o y, In y (with_offsets o cs) -> In (snd y) cs.
Proof. induction cs as [|c r IH]; intros o y H; cbn [with_offsets] in H; [contradiction|]. destruct H as [<-|H]; [left; reflexivity|right; eapply IH; exact H]. Qed.

Lemma height_child x y : In y (lchildren x) -> (height (snd y) < height (snd x))%nat.
Proof.
  destruct x as [o [k cs|k txt]]; unfold lchildren; cbn [fst snd children_of]; intros H; [|contradiction].
  apply with_offsets_in in H. rewrite height_node. revert H. generalize (snd y). intros c H.
  induction cs as [|d r IH]; [contradiction|]. cbn [fold_right]. destruct H as [->|H]; [lia|]. specialize (IH H). lia.
Qed.

Lemma height_field x f y : In y (field x f) -> (height (snd y) < height (snd x))%nat.
Proof. intros H. apply height_child. eapply field_children. exact H. Qed.

(** * A Hoare-style predicate on results: [Fuel] is excluded, [Err] is vacuous *)
Definition safe {A : Type} (P : A -> Prop) (m : res A) : Prop :=
  match m with Ok a => P a | Err _ => True | Fuel => False end.

Lemma safe_bind {A B} (Q : A -> Prop) (P : B -> Prop) (m : res A) (f : A -> res B) :
  safe Q m -> (forall a, Q a -> safe P (f a)) -> safe P (bind m f).
Proof. destruct m as [a|e|]; cbn [safe bind]; intros H K; [apply K; exact H|exact I|exact H]. Qed.
Lemma safe_ok {A} (P : A -> Prop) a : P a -> safe P (Ok a).
Proof. intros H; exact H. Qed.
Lemma safe_err {A} (P : A -> Prop) e : safe P (Err e).
Proof. exact I. Qed.
Lemma safe_need {A} (l : list A) w : safe (fun a => In a l) (need l w).
Proof. destruct l; cbn [need safe]; [exact I|left; reflexivity]. Qed.
Lemma safe_need_opt {A} (o : option A) w : safe (fun a => o = Some a) (need_opt o w).
Proof. destruct o; cbn [need_opt safe]; [reflexivity|exact I]. Qed.
Lemma safe_mapM {A B} (P : B -> Prop) (f : A -> res B) (l : list A) :
  (forall x, In x l -> safe P (f x)) -> safe (Forall P) (mapM f l).
Proof.
  induction l as [|x l IH]; intros H; cbn [mapM].
  - constructor.
  - eapply safe_bind; [apply H; left; reflexivity|]. intros y Hy.
    eapply safe_bind; [apply IH; intros z Hz; apply H; right; exact Hz|]. intros ys Hys.
    cbn [safe]. constructor; assumption.
Qed.
Lemma safe_weaken {A} (P Q : A -> Prop) m : safe P m -> (forall a, P a -> Q a) -> safe Q m.
Proof. destruct m; cbn [safe]; auto. Qed.
Lemma safe_opt_with {A} (P : A -> Prop) (f : lnode -> res A) (l : list lnode) :
  (forall x, In x l -> safe P (f x)) -> safe (fun o => match o with Some a => P a | None => True end) (opt_with f l).
Proof.
  destruct l as [|v r]; intros H; cbn [opt_with]; [exact I|].
  eapply safe_bind; [apply H; left; reflexivity|]. intros a Ha. exact Ha.
Qed.

(** * What a produced range / identifier is *)
Definition part_ok (t : tree) (f : N) (p : part) : Prop :=
  match p with
  | PR r => r_file r = f /\ exists x, sub t x /\ r_lo r = fst x /\ r_hi r = l_end x
  | PI i => r_file (i_rng i) = f /\
            exists x o k txt, sub t x /\ l_kind x = S_Identifier /\ first_token x = Some (o, Tok k txt) /\
                              r_lo (i_rng i) = o /\ r_hi (i_rng i) = o + bytes txt /\ i_name i = txt
  end.
Definition parts_ok (t : tree) (f : N) (l : list part) : Prop := Forall (part_ok t f) l.

Lemma parts_ok_app t f a b : parts_ok t f a -> parts_ok t f b -> parts_ok t f (a ++ b).
Proof. intros; apply Forall_app; split; assumption. Qed.
Lemma parts_ok_cons t f a b : part_ok t f a -> parts_ok t f b -> parts_ok t f (a :: b).
Proof. intros; constructor; assumption. Qed.
Lemma parts_ok_nil t f : parts_ok t f [].
Proof. constructor. Qed.
Lemma parts_ok_flat_map {A} t f (g : A -> list part) (l : list A) :
  Forall (fun a => parts_ok t f (g a)) l -> parts_ok t f (flat_map g l).
Proof. induction 1; cbn [flat_map]; [constructor|apply parts_ok_app; assumption]. Qed.
Lemma parts_ok_opt {A} t f (g : A -> list part) (o : option A) :
  match o with Some a => parts_ok t f (g a) | None => True end -> parts_ok t f (opt_parts g o).
Proof. destruct o; cbn [opt_parts]; [auto|intros; constructor]. Qed.

Lemma rng_of_ok t c x : sub t x -> part_ok t (cx_file c) (PR (rng_of c x)).
Proof. intros S. cbn [part_ok rng_of r_file r_lo r_hi]. split; [reflexivity|]. exists x. auto. Qed.

Lemma m_identifier_ok t c x i : sub t x -> l_kind x = S_Identifier -> m_identifier c x = Some i -> part_ok t (cx_file c) (PI i).
Proof.
  intros S K E. unfold m_identifier in E. destruct (first_token x) as [[o [k cs|k txt]]|] eqn:F; try discriminate.
  inversion E; subst i. cbn [part_ok i_rng i_name r_file r_lo r_hi]. split; [reflexivity|].
  exists x, o, k, txt. auto 10.
Qed.

Lemma sk_eqb_true a b : sk_eqb a b = true -> a = b.
Proof. apply sk_eqb_eq. Qed.

Lemma c_ident_safe t c x : sub t x -> safe (fun i => part_ok t (cx_file c) (PI i)) (c_ident c x).
Proof.
  intros S. unfold c_ident. destruct (sk_eqb (l_kind x) S_Identifier) eqn:K; [|exact I].
  apply sk_eqb_true in K. destruct (m_identifier c x) as [i|] eqn:E; cbn [need_opt safe]; [|exact I].
  eapply m_identifier_ok; eauto.
Qed.

(** * The translators: every produced part is a part of the tree, and the fuel suffices *)
Ltac hts :=
  repeat match goal with
         | H : In ?y (field ?x ?f) |- _ =>
             lazymatch goal with
             | _ : (height (snd y) < height (snd x))%nat |- _ => fail
             | _ => pose proof (height_field x f y H)
             end
         end; lia.
Ltac subs := eauto 8 using field_sub.
Ltac sneed := eapply safe_bind; [apply safe_need|]; intros ? ?; cbv beta in *.
Ltac sident := eapply safe_bind; [apply c_ident_safe; subs|]; intros ? ?; cbv beta in *.

Section Translators.
Variable t : tree.
Variable c : cx.
Notation f := (cx_file c).
Notation POK := (parts_ok t (cx_file c)).

Lemma c_typ_safe : forall n x, sub t x -> (height (snd x) < n)%nat ->
  safe (fun ty => POK (ty_parts ty)) (c_typ n c x).
Proof.
  induction n as [|n IH]; intros x S H; [lia|].
  cbn [c_typ]. destruct (l_kind x); try exact I; try (cbn [safe ty_parts]; apply parts_ok_nil).
  - sneed. eapply safe_bind; [apply safe_need_opt|]. intros v Hv.
    destruct (v <? 0)%Z; cbn [safe ty_parts]; [exact I|apply parts_ok_nil].
  - sneed. eapply safe_bind; [apply IH; [subs|hts]|]. intros ty Hty. exact Hty.
  - sneed. sident. cbn [safe ty_parts]. apply parts_ok_cons; [assumption|apply parts_ok_nil].
Qed.

Lemma c_suffix_safe x : sub t x -> safe (fun s => POK (suffix_parts s)) (c_suffix c x).
Proof.
  intros S. unfold c_suffix. destruct (l_kind x); try exact I; try (cbn [safe suffix_parts]; apply parts_ok_nil).
  sneed. sident. cbn [safe suffix_parts]. apply parts_ok_cons; [assumption|]. apply parts_ok_cons; [apply rng_of_ok; exact S|apply parts_ok_nil].
Qed.

Lemma in_dag_values l v : In v (dag_values l) -> exists a, In a l /\ In v (field a "value").
Proof. unfold dag_values. intros H. apply in_flat_map in H. exact H. Qed.

Lemma safe_args_with (g : lnode -> res arg) (l : list lnode) :
  (forall avl a, In avl l -> In a (field avl "arg_values") -> safe (fun r => POK (arg_parts r)) (g a)) ->
  safe (fun r => POK (flat_map arg_parts r)) (args_with g l).
Proof.
  destruct l as [|avl r]; intros H; cbn [args_with].
  - cbn [safe flat_map]. apply parts_ok_nil.
  - eapply safe_weaken; [apply safe_mapM; intros a Ha; eapply H; [left; reflexivity|exact Ha]|].
    intros r0 Hr. apply parts_ok_flat_map. exact Hr.
Qed.

Lemma mapM_in {A B} (g : A -> res B) : forall (l : list A) ys, mapM g l = Ok ys -> forall y, In y ys -> exists x, In x l /\ g x = Ok y.
Proof.
  induction l as [|x l IH]; intros ys E y Hy; cbn [mapM] in E.
  - inversion E; subst. contradiction.
  - destruct (g x) as [b| |] eqn:G; cbn [bind] in E; try discriminate.
    destruct (mapM g l) as [bs| |] eqn:M; cbn [bind] in E; try discriminate.
    inversion E; subst. destruct Hy as [<-|Hy]; [exists x; split; [left; reflexivity|exact G]|].
    destruct (IH bs eq_refl y Hy) as (x0 & I0 & G0). exists x0. split; [right; exact I0|exact G0].
Qed.

Lemma values_safe_all : forall n,
  (forall x, sub t x -> (height (snd x) < n)%nat -> safe (fun v => POK (value_parts v)) (c_value n c x)) /\
  (forall x, sub t x -> (height (snd x) < n)%nat -> safe (fun v => POK (inner_parts v)) (c_inner n c x)) /\
  (forall x, sub t x -> (height (snd x) < n)%nat -> safe (fun v => POK (simple_parts v)) (c_simple n c x)) /\
  (forall x, sub t x -> (height (snd x) < n)%nat -> safe (fun v => POK (arg_parts v)) (c_arg n c x)).
Proof.
  induction n as [|n (IHv & IHi & IHs & IHa)]; [repeat split; intros; lia|].
  assert (VS : forall l, (forall y, In y l -> sub t y /\ (height (snd y) < n)%nat) ->
                         safe (fun vs => POK (flat_map value_parts vs)) (mapM (c_value n c) l)).
  { intros l Hl. eapply safe_weaken; [apply safe_mapM; intros y Hy; apply IHv; apply Hl; exact Hy|].
    intros vs Hvs. apply parts_ok_flat_map. exact Hvs. }
  repeat split; intros x S H.
  - (* value *)
    cbn [c_value]. eapply safe_bind; [apply safe_mapM; intros y Hy; apply IHi; [subs|hts]|].
    intros inners Hin. destruct inners as [|i0 ir]; [exact I|]. cbn [safe value_parts].
    apply parts_ok_cons; [apply rng_of_ok; exact S|]. apply parts_ok_flat_map. exact Hin.
  - (* inner *)
    cbn [c_inner]. sneed. eapply safe_bind; [apply IHs; [subs|hts]|]. intros s Hs.
    eapply safe_bind; [apply safe_mapM; intros y Hy; apply c_suffix_safe; subs|]. intros sufs Hsufs.
    cbn [safe inner_parts]. apply parts_ok_app; [exact Hs|]. apply parts_ok_flat_map. exact Hsufs.
  - (* simple *)
    cbn [c_simple]. destruct (l_kind x) eqn:K; try exact I; try (cbn [safe simple_parts]; apply parts_ok_nil).
    + (* Bits *) sneed. eapply safe_bind; [apply VS; intros y Hy; split; [subs|hts]|]. intros vs Hvs. exact Hvs.
    + (* List *) sneed. eapply safe_bind; [apply VS; intros y Hy; split; [subs|hts]|]. intros vs Hvs. exact Hvs.
    + (* Dag *)
      eapply safe_bind; [apply VS|intros vs Hvs; exact Hvs].
      intros y Hy. apply in_app_or in Hy. destruct Hy as [Hy|Hy].
      * apply in_dag_values in Hy. destruct Hy as (a & Ha & Hy). split; [subs|hts].
      * destruct (field x "arg_list") as [|al r] eqn:AL; [contradiction|].
        assert (Hal : In al (field x "arg_list")) by (rewrite AL; left; reflexivity).
        apply in_dag_values in Hy. destruct Hy as (a & Ha & Hy). split; [subs|hts].
    + (* Identifier *)
      eapply safe_bind; [apply c_ident_safe; exact S|]. intros i Hi. cbn [safe simple_parts].
      apply parts_ok_cons; [exact Hi|apply parts_ok_nil].
    + (* ClassValue *)
      sneed. sident.
      eapply safe_bind; [apply safe_args_with; intros avl ar Havl Har; apply IHa; [subs|hts]|]. intros args Hargs.
      cbn [safe simple_parts]. apply parts_ok_cons; [assumption|]. apply parts_ok_cons; [apply rng_of_ok; exact S|exact Hargs].
    + (* BangOperator *)
      eapply safe_bind; [apply safe_need_opt|]. intros k Hk.
      eapply safe_bind.
      { apply (safe_opt_with (fun p : ty * rng => POK (PR (snd p) :: ty_parts (fst p)))).
        intros y Hy. eapply safe_bind; [apply c_typ_safe; [subs|hts]|]. intros ty Hty. cbn [safe fst snd].
        apply parts_ok_cons; [apply rng_of_ok; subs|exact Hty]. }
      intros annot Hannot.
      eapply safe_bind; [apply VS; intros y Hy; split; [subs|hts]|]. intros vs Hvs.
      destruct (bop_of_kind k); [|exact I]. cbn [safe simple_parts].
      apply parts_ok_cons; [apply rng_of_ok; exact S|]. apply parts_ok_app; [|exact Hvs].
      destruct annot as [[ty tr]|]; [exact Hannot|apply parts_ok_nil].
    + (* CondOperator *)
      destruct (mapM (fun cl => cn <- need (field cl "condition") "cond condition" ;;
                                v <- need (field cl "value") "cond value" ;; Ok [cn; v]) (field x "clauses")) as [cvs| |] eqn:M;
        cbn [bind]; [|exact I|].
      * eapply safe_bind; [apply VS|intros vs Hvs; exact Hvs].
        intros y Hy. apply in_concat in Hy. destruct Hy as (l & Hl & Hy).
        destruct (mapM_in _ _ _ M l Hl) as (cl & Hcl & E).
        destruct (field cl "condition") as [|cn r1] eqn:C1; cbn [need bind] in E; [discriminate|].
        destruct (field cl "value") as [|v r2] eqn:C2; cbn [need bind] in E; [discriminate|].
        inversion E; subst l.
        assert (I1 : In cn (field cl "condition")) by (rewrite C1; left; reflexivity).
        assert (I2 : In v (field cl "value")) by (rewrite C2; left; reflexivity).
        destruct Hy as [<-|[<-|[]]]; (split; [subs|hts]).
      * (* the clause collector never runs out of fuel *)
        exfalso. clear -M. revert M. generalize (field x "clauses"). intros l. induction l as [|cl l IH]; cbn [mapM]; [discriminate|].
        destruct (field cl "condition"); cbn [need bind]; [discriminate|].
        destruct (field cl "value"); cbn [need bind]; [discriminate|].
        destruct (mapM _ l); cbn [bind]; try discriminate. intros _. apply IH. reflexivity.
  - (* arg *)
    cbn [c_arg]. destruct (l_kind x) eqn:K; try exact I.
    + (* Positional *)
      sneed. eapply safe_bind; [apply IHv; [subs|hts]|]. intros v' Hv'. cbn [safe arg_parts].
      apply parts_ok_cons; [apply rng_of_ok; exact S|exact Hv'].
    + (* Named *)
      sneed. sneed. sneed. destruct (l_kind a1); try exact I; try (cbn [safe arg_parts]; apply parts_ok_cons; [apply rng_of_ok; exact S|apply parts_ok_nil]).
      * sneed. eapply safe_bind; [apply IHv; [subs|hts]|]. intros v' Hv'. cbn [safe arg_parts].
        apply parts_ok_cons; [apply rng_of_ok; exact S|exact Hv'].
      * eapply safe_bind; [apply safe_need_opt|]. intros i Hi.
        sneed. eapply safe_bind; [apply IHv; [subs|hts]|]. intros v' Hv'. cbn [safe arg_parts].
        apply parts_ok_cons; [apply rng_of_ok; exact S|exact Hv'].
Qed.

Lemma c_value_safe n x : sub t x -> (height (snd x) < n)%nat -> safe (fun v => POK (value_parts v)) (c_value n c x).
Proof. apply (values_safe_all n). Qed.
Lemma c_arg_safe n x : sub t x -> (height (snd x) < n)%nat -> safe (fun v => POK (arg_parts v)) (c_arg n c x).
Proof. apply (values_safe_all n). Qed.

Ltac svalue := eapply safe_bind; [apply c_value_safe; [subs|hts]|]; intros ? ?; cbv beta in *.
Ltac styp := eapply safe_bind; [apply c_typ_safe; [subs|hts]|]; intros ? ?; cbv beta in *.

Lemma c_values_safe n l : (forall y, In y l -> sub t y /\ (height (snd y) < n)%nat) ->
  safe (fun vs => POK (flat_map value_parts vs)) (c_values n c l).
Proof.
  intros Hl. unfold c_values. eapply safe_weaken; [apply safe_mapM; intros y Hy; apply c_value_safe; apply Hl; exact Hy|].
  intros vs Hvs. apply parts_ok_flat_map. exact Hvs.
Qed.

Lemma c_opt_value_safe n l : (forall y, In y l -> sub t y /\ (height (snd y) < n)%nat) ->
  safe (fun o => POK (opt_parts value_parts o)) (c_opt_value n c l).
Proof.
  intros Hl. unfold c_opt_value. eapply safe_weaken; [apply safe_opt_with; intros y Hy; apply c_value_safe; apply Hl; exact Hy|].
  intros o Ho. apply parts_ok_opt. exact Ho.
Qed.

Lemma c_args_safe n x fld : sub t x -> (height (snd x) <= n)%nat ->
  safe (fun r => POK (flat_map arg_parts r)) (c_args n c (field x fld)).
Proof.
  intros S H. unfold c_args. apply safe_args_with. intros avl a Havl Ha. apply c_arg_safe; [subs|hts].
Qed.

Lemma c_targs_safe n x fld : sub t x -> (height (snd x) <= n)%nat ->
  safe (fun o => POK (opt_parts (flat_map targ_parts) o)) (c_targs n c (field x fld)).
Proof.
  intros S H. unfold c_targs. eapply safe_weaken.
  - apply (safe_opt_with (fun l => POK (flat_map targ_parts l))). intros tl Htl.
    eapply safe_weaken; [apply (safe_mapM (fun a => POK (targ_parts a)))|intros l Hl; apply parts_ok_flat_map; exact Hl].
    intros a Ha. sneed. styp. sneed. sident.
    eapply safe_bind; [apply c_opt_value_safe; intros y Hy; split; [subs|hts]|]. intros d Hd.
    cbn [safe targ_parts]. apply parts_ok_app; [assumption|]. apply parts_ok_cons; assumption.
  - intros o Ho. apply parts_ok_opt. exact Ho.
Qed.

Lemma c_parents_safe n pl : sub t pl -> (height (snd pl) < n)%nat ->
  safe (fun l => POK (flat_map classref_parts l)) (c_parents n c pl).
Proof.
  intros S H. unfold c_parents.
  eapply safe_weaken; [apply (safe_mapM (fun a => POK (classref_parts a)))|intros l Hl; apply parts_ok_flat_map; exact Hl].
  intros cr Hcr. sneed. sident.
  eapply safe_bind; [apply c_args_safe; [subs|hts]|]. intros avs Havs.
  cbn [safe classref_parts]. apply parts_ok_cons; [assumption|]. apply parts_ok_cons; [apply rng_of_ok; subs|exact Havs].
Qed.

Lemma c_item_safe n x : sub t x -> (height (snd x) < n)%nat -> safe (fun i => POK (item_parts i)) (c_item n c x).
Proof.
  intros S H. unfold c_item. destruct (l_kind x); try exact I.
  - (* Defvar *) sneed. sident. sneed. svalue. cbn [safe item_parts]. apply parts_ok_cons; assumption.
  - (* Dump *) sneed. svalue. cbn [safe item_parts]. assumption.
  - (* Assert *) sneed. svalue. sneed. svalue. cbn [safe item_parts]. apply parts_ok_app; assumption.
  - (* FieldDef *) sneed. styp. sneed. sident.
    eapply safe_bind; [apply c_opt_value_safe; intros y Hy; split; [subs|hts]|]. intros d Hd.
    cbn [safe item_parts]. apply parts_ok_app; [assumption|]. apply parts_ok_cons; assumption.
  - (* FieldLet *) sneed. sident. sneed. svalue. cbn [safe item_parts]. apply parts_ok_cons; assumption.
Qed.

Lemma c_record_body_safe n rb : sub t rb -> (height (snd rb) < n)%nat ->
  safe (fun b => POK (flat_map classref_parts (fst b)) /\ POK (flat_map item_parts (snd b))) (c_record_body n c rb).
Proof.
  intros S H. unfold c_record_body. sneed. sneed.
  eapply safe_bind; [apply (safe_mapM (fun a => POK (item_parts a))); intros y Hy; apply c_item_safe; [subs|hts]|]. intros items Hitems.
  eapply safe_bind; [apply c_parents_safe; [subs|hts]|]. intros ps Hps.
  cbn [safe fst snd]. split; [exact Hps|apply parts_ok_flat_map; exact Hitems].
Qed.

Lemma stmts_safe_all : forall n,
  (forall x, sub t x -> (height (snd x) < n)%nat -> safe (fun l => POK (flat_map stmt_parts l)) (c_stmts n c x)) /\
  (forall x, sub t x -> (height (snd x) < n)%nat -> safe (fun s => POK (stmt_parts s)) (c_stmt n c x)).
Proof.
  induction n as [|n (IHl & IHs)]; [split; intros; lia|].
  split; intros x S H.
  - cbn [c_stmts]. eapply safe_weaken; [apply (safe_mapM (fun a => POK (stmt_parts a))); intros y Hy; apply IHs; [subs|hts]|].
    intros l Hl. apply parts_ok_flat_map. exact Hl.
  - assert (SL : forall y, sub t y -> (height (snd y) < n)%nat -> safe (fun l => POK (flat_map stmt_parts l)) (c_stmts n c y)) by exact IHl.
    cbn [c_stmt]. destruct (l_kind x); try exact I.
    + (* Include *) sneed. cbn [safe stmt_parts]. apply parts_ok_cons; [apply rng_of_ok; exact S|apply parts_ok_nil].
    + (* Class *) sneed. sident.
      eapply safe_bind; [apply c_targs_safe; [exact S|hts]|]. intros ta Hta.
      sneed. eapply safe_bind; [apply c_record_body_safe; [subs|hts]|]. intros b [Hb1 Hb2].
      cbn [safe stmt_parts]. apply parts_ok_cons; [assumption|]. apply parts_ok_app; [assumption|]. apply parts_ok_app; assumption.
    + (* Def *)
      eapply safe_bind; [apply c_opt_value_safe; intros y Hy; split; [subs|hts]|]. intros nm Hnm.
      sneed. eapply safe_bind; [apply c_record_body_safe; [subs|hts]|]. intros b [Hb1 Hb2].
      cbn [safe stmt_parts]. apply parts_ok_app; [assumption|]. apply parts_ok_cons; [apply rng_of_ok; exact S|]. apply parts_ok_app; assumption.
    + (* Let *)
      sneed.
      destruct (mapM (fun it => need (field it "value") "let item value") (field a "items")) as [vs| |] eqn:M; cbn [bind]; [|exact I|].
      * eapply safe_bind.
        { apply c_values_safe. intros y Hy. destruct (mapM_in _ _ _ M y Hy) as (it & Hit & E).
          destruct (field it "value") as [|v r] eqn:C1; cbn [need] in E; [discriminate|]. inversion E; subst y.
          assert (I1 : In v (field it "value")) by (rewrite C1; left; reflexivity). split; [subs|hts]. }
        intros vs' Hvs'. sneed. eapply safe_bind; [apply SL; [subs|hts]|]. intros b Hb.
        cbn [safe stmt_parts]. apply parts_ok_app; assumption.
      * exfalso. clear -M. revert M. generalize (field a "items"). intros l. induction l as [|it l IH]; cbn [mapM]; [discriminate|].
        destruct (field it "value"); cbn [need bind]; [discriminate|].
        destruct (mapM _ l); cbn [bind]; try discriminate. intros _. apply IH. reflexivity.
    + (* MultiClass *) sneed. sident.
      eapply safe_bind; [apply c_targs_safe; [exact S|hts]|]. intros ta Hta.
      sneed. eapply safe_bind; [apply c_parents_safe; [subs|hts]|]. intros ps Hps.
      sneed. eapply safe_bind; [apply SL; [subs|hts]|]. intros b Hb.
      cbn [safe stmt_parts]. apply parts_ok_cons; [assumption|]. apply parts_ok_app; [assumption|]. apply parts_ok_app; assumption.
    + (* Defm *)
      eapply safe_bind; [apply c_opt_value_safe; intros y Hy; split; [subs|hts]|]. intros nm Hnm.
      sneed. eapply safe_bind; [apply c_parents_safe; [subs|hts]|]. intros ps Hps.
      cbn [safe stmt_parts]. apply parts_ok_app; [assumption|]. apply parts_ok_cons; [apply rng_of_ok; exact S|assumption].
    + (* Defset *) sneed. styp. sneed. sident. sneed. eapply safe_bind; [apply SL; [subs|hts]|]. intros b Hb.
      cbn [safe stmt_parts]. apply parts_ok_app; [assumption|]. apply parts_ok_cons; assumption.
    + (* Defvar *) sneed. sident. sneed. svalue. cbn [safe stmt_parts]. apply parts_ok_cons; assumption.
    + (* Dump *) sneed. svalue. cbn [safe stmt_parts]. assumption.
    + (* Foreach *) sneed. sneed.
      eapply safe_bind.
      { instantiate (1 := fun init => POK (match init with FeRange => [] | FeValue v => value_parts v end)).
        destruct (l_kind a0); try exact I; try (cbn [safe]; apply parts_ok_nil).
        svalue. cbn [safe]. assumption. }
      intros init Hinit. sneed. sident. sneed. eapply safe_bind; [apply SL; [subs|hts]|]. intros b Hb.
      cbn [safe stmt_parts]. apply parts_ok_cons; [assumption|]. apply parts_ok_app; assumption.
    + (* If *) sneed. svalue. sneed. eapply safe_bind; [apply SL; [subs|hts]|]. intros th Hth.
      eapply safe_bind; [apply (safe_opt_with (fun l => POK (flat_map stmt_parts l))); intros y Hy; apply SL; [subs|hts]|]. intros el Hel.
      cbn [safe stmt_parts]. apply parts_ok_app; [assumption|]. apply parts_ok_app; [assumption|]. apply parts_ok_opt. exact Hel.
    + (* Assert *) sneed. svalue. sneed. svalue. cbn [safe stmt_parts]. apply parts_ok_app; assumption.
Qed.

Lemma c_file_safe n root : sub t root -> (height (snd root) < n)%nat ->
  safe (fun l => POK (flat_map stmt_parts l)) (c_file n c root).
Proof.
  intros S H. unfold c_file. destruct (l_kind root); try exact I. destruct (snd root) eqn:E; [rewrite <- E in H|exact I].
  sneed. apply (stmts_safe_all n); [subs|hts].
Qed.
End Translators.

(** * The theorems *)
Theorem core_of_tree_safe : forall file links t,
  safe (fun ss => parts_ok t file (flat_map stmt_parts ss)) (core_of_tree file links t).
Proof.
  intros file links t. unfold core_of_tree.
  apply (c_file_safe t (mkCx file links)); [constructor|cbn [snd]; lia].
Qed.

(** (c) totality: the translation never runs out of fuel: on EVERY tree it returns a Core AST or a "noncore" reason *)
Theorem core_of_tree_total : forall file links t, core_of_tree file links t <> Fuel.
Proof. intros file links t E. pose proof (core_of_tree_safe file links t) as H. rewrite E in H. exact H. Qed.

Theorem core_of_tree_opt_spec : forall file links t,
  (exists ss, core_of_tree file links t = Ok ss /\ core_of_tree_opt file links t = Some ss) \/
  (exists why, core_of_tree file links t = Err why /\ core_of_tree_opt file links t = None).
Proof.
  intros file links t. unfold core_of_tree_opt. destruct (core_of_tree file links t) as [ss|why|] eqn:E.
  - left. exists ss. auto.
  - right. exists why. auto.
  - exfalso. eapply core_of_tree_total. exact E.
Qed.

(** * Located subtrees are entries of Tree.descendants / Tree.leaves and slices of the tree text *)
Lemma with_offsets_split : forall cs o oy c, In (oy, c) (with_offsets o cs) ->
  exists a b, cs = a ++ c :: b /\ oy = o + forest_len a.
Proof.
  induction cs as [|d r IH]; intros o oy c H; cbn [with_offsets] in H; [contradiction|].
  destruct H as [E|H].
  - inversion E; subst. exists [], r. split; [reflexivity|]. unfold forest_len. cbn [fold_right]. lia.
  - destruct (IH _ _ _ H) as (a & b & -> & ->). exists (d :: a), b. split; [reflexivity|].
    unfold forest_len. cbn [fold_right]. lia.
Qed.

Lemma tree_len_bytes' t0 : tree_len t0 = bytes (tree_text t0).
Proof. destruct (leaves_from_spec t0 0) as (_ & _ & H). exact H. Qed.

Lemma forest_len_bytes a : forest_len a = bytes (forest_text a).
Proof.
  induction a as [|c r IH]; [reflexivity|]. unfold forest_len, forest_text in *. cbn [fold_right map]. rewrite concat_cons.
  rewrite bytes_app, <- IH, tree_len_bytes'. reflexivity.
Qed.

Theorem sub_slice t x : sub t x ->
  exists pre suf, tree_text t = pre ++ tree_text (snd x) ++ suf /\ fst x = bytes pre.
Proof.
  induction 1 as [|x y S (pre & suf & E & O) Hy].
  - exists [], []. cbn [fst snd app bytes]. rewrite app_nil_r. auto.
  - destruct x as [o [k cs|k tx]]; unfold lchildren in Hy; cbn [fst snd children_of] in Hy, E, O; [|contradiction].
    destruct y as [oy c]. destruct (with_offsets_split _ _ _ _ Hy) as (a & b & -> & ->).
    exists (pre ++ forest_text a), (forest_text b ++ suf). cbn [fst snd]. split.
    + rewrite E, tree_text_node, forest_text_app. unfold forest_text at 2. cbn [map]. rewrite concat_cons.
      fold (forest_text b). rewrite <- !app_assoc. reflexivity.
    + rewrite bytes_app, forest_len_bytes, O. reflexivity.
Qed.

(** the subtree at a located node: its end is its start plus the bytes of its text *)
Lemma l_end_bytes x : l_end x = fst x + bytes (tree_text (snd x)).
Proof. unfold l_end. rewrite tree_len_bytes'. reflexivity. Qed.

(** descendants / leaves of a forest at an offset (the inner fixes of Tree.descendants_from / leaves_from) *)
Fixpoint forest_desc (o : N) (l : list tree) : list (N * N * tree) :=
  match l with [] => [] | c :: r => descendants_from o c ++ forest_desc (o + tree_len c) r end.

Lemma descendants_from_node k cs off :
  descendants_from off (Node k cs) = (off, off + tree_len (Node k cs), Node k cs) :: forest_desc off cs.
Proof.
  cbn [descendants_from]. apply f_equal. revert off. induction cs as [|c r IH]; intros o; [reflexivity|].
  cbn [forest_desc]. rewrite <- (IH (o + tree_len c)). reflexivity.
Qed.

Lemma forest_desc_in : forall cs o oy c, In (oy, c) (with_offsets o cs) ->
  forall d, In d (descendants_from oy c) -> In d (forest_desc o cs).
Proof.
  induction cs as [|e r IH]; intros o oy c H d Hd; cbn [with_offsets] in H; [contradiction|].
  cbn [forest_desc]. apply in_or_app. destruct H as [E|H].
  - inversion E; subst. left. exact Hd.
  - right. eapply IH; eauto.
Qed.
Lemma forest_leaves_in : forall cs o oy c, In (oy, c) (with_offsets o cs) ->
  forall d, In d (leaves_from oy c) -> In d (forest_leaves o cs).
Proof.
  induction cs as [|e r IH]; intros o oy c H d Hd; cbn [with_offsets] in H; [contradiction|].
  cbn [forest_leaves]. apply in_or_app. destruct H as [E|H].
  - inversion E; subst. left. exact Hd.
  - right. eapply IH; eauto.
Qed.

(** what it means for a located subtree to be an entry of the tree's descendants (nodes) / leaves (tokens) *)
Definition entry_of (o : N) (t0 : tree) (y : lnode) : Prop :=
  match snd y with
  | Node _ _ => In (fst y, l_end y, snd y) (descendants_from o t0)
  | Tok k tx => In (k, fst y, fst y + bytes tx, tx) (leaves_from o t0)
  end.

Lemma entry_self o t0 : entry_of o t0 (o, t0).
Proof.
  unfold entry_of. cbn [fst snd]. destruct t0 as [k cs|k tx].
  - rewrite descendants_from_node. left. reflexivity.
  - cbn [leaves_from]. left. reflexivity.
Qed.

(** entries are closed under taking children *)
Lemma tree_ind_forall (P : tree -> Prop) :
  (forall k tx, P (Tok k tx)) -> (forall k cs, Forall P cs -> P (Node k cs)) -> forall t0, P t0.
Proof.
  intros HT HN. fix IH 1. intros [k cs|k tx]; [|apply HT].
  apply HN. induction cs as [|c r IHr]; constructor; [apply IH|exact IHr].
Qed.

Lemma entry_trans : forall t0 o x, entry_of o t0 x -> forall y, In y (lchildren x) -> entry_of o t0 y.
Proof.
  induction t0 as [k tx|k cs IHcs] using tree_ind_forall; intros o x Hx y Hy; [rename k into k0|].
  2: assert (IH : forall c, In c cs -> forall o1 x1, entry_of o1 c x1 -> forall y1, In y1 (lchildren x1) -> entry_of o1 c y1)
       by (rewrite Forall_forall in IHcs; exact IHcs).
  2: clear IHcs.
  all: swap 1 2.
  - destruct x as [ox [kx csx|kx txx]]; [|unfold lchildren in Hy; cbn in Hy; contradiction].
    unfold entry_of in Hx. cbn [fst snd] in Hx. rewrite descendants_from_node in Hx. destruct Hx as [E|Hx].
    + (* x is the root: y is a child of the root *)
      inversion E; subst ox kx csx. unfold lchildren in Hy. cbn [fst snd children_of] in Hy. destruct y as [oy c].
      pose proof (entry_self oy c) as Hs. unfold entry_of in *. cbn [fst snd] in *. destruct c as [kc csc|kc txc].
      * rewrite descendants_from_node. right. eapply forest_desc_in; [exact Hy|exact Hs].
      * rewrite leaves_from_node. eapply forest_leaves_in; [exact Hy|exact Hs].
    + (* x lies below a child c of the root *)
      assert (G : forall l o0, In (ox, l_end (ox, Node kx csx), Node kx csx) (forest_desc o0 l) ->
                               (forall c, In c l -> forall o1 x1, entry_of o1 c x1 -> forall y1, In y1 (lchildren x1) -> entry_of o1 c y1) ->
                               match snd y with
                               | Node _ _ => In (fst y, l_end y, snd y) (forest_desc o0 l)
                               | Tok k0 tx0 => In (k0, fst y, fst y + bytes tx0, tx0) (forest_leaves o0 l)
                               end).
      { induction l as [|c r IHl]; intros o0 Hin Hc; cbn [forest_desc] in Hin; [contradiction|].
        apply in_app_or in Hin. destruct Hin as [Hin|Hin].
        - assert (Ex : entry_of o0 c (ox, Node kx csx)) by (unfold entry_of; cbn [fst snd]; exact Hin).
          pose proof (Hc c (or_introl eq_refl) o0 _ Ex y Hy) as Ey. unfold entry_of in Ey.
          destruct (snd y); cbn [forest_desc forest_leaves]; apply in_or_app; left; exact Ey.
        - specialize (IHl (o0 + tree_len c) Hin (fun c0 H0 => Hc c0 (or_intror H0))).
          destruct (snd y); cbn [forest_desc forest_leaves]; apply in_or_app; right; exact IHl. }
      specialize (G cs o Hx IH). unfold entry_of. destruct (snd y) eqn:Ey.
      * rewrite descendants_from_node. right. exact G.
      * rewrite leaves_from_node. exact G.
  - (* the root is a token: its only entry is itself, which has no children *)
    unfold entry_of in Hx. destruct x as [ox [kx csx|kx txx]]; cbn [fst snd] in Hx.
    + cbn [descendants_from] in Hx. contradiction.
    + unfold lchildren in Hy. cbn in Hy. contradiction.
Qed.

(** "the range of a node or token of t": every located subtree is an entry of [descendants t] (with exactly its
    range) or of [leaves t] (with exactly its range and text) *)
Theorem sub_in_tree t y : sub t y ->
  match snd y with
  | Node _ _ => In (fst y, l_end y, snd y) (descendants t)
  | Tok k tx => In (k, fst y, fst y + bytes tx, tx) (leaves t)
  end.
Proof.
  intros S. change (entry_of 0 t y). induction S as [|x y S IH Hy]; [apply entry_self|]. eapply entry_trans; eauto.
Qed.

(** * (a) every range of the Core AST is the range of a node or a token of the tree *)
Definition in_tree (t : tree) (lo hi : N) : Prop :=
  (exists n, In (lo, hi, n) (descendants t)) \/ (exists k tx, In (k, lo, hi, tx) (leaves t)).

Lemma sub_range_in_tree t x : sub t x -> in_tree t (fst x) (l_end x).
Proof.
  intros S. pose proof (sub_in_tree t x S) as H. destruct x as [o [k cs|k tx]]; cbn [fst snd] in *.
  - left. exists (Node k cs). exact H.
  - right. exists k, tx. unfold l_end. cbn [fst snd tree_len]. exact H.
Qed.

Lemma part_ok_in_tree t f p : part_ok t f p ->
  r_file (part_rng p) = f /\ in_tree t (r_lo (part_rng p)) (r_hi (part_rng p)).
Proof.
  destruct p as [r|i]; cbn [part_ok part_rng].
  - intros (F & x & S & L & H). split; [exact F|]. rewrite L, H. apply sub_range_in_tree. exact S.
  - intros (F & x & o & k & txt & S & _ & T & L & H & _). split; [exact F|].
    destruct (first_token_sub t x _ S T) as (S' & _). pose proof (sub_range_in_tree t _ S') as R.
    unfold l_end in R. cbn [fst snd tree_len] in R. rewrite L, H. exact R.
Qed.

Theorem core_ranges_in_tree : forall file links t ss,
  core_of_tree file links t = Ok ss ->
  Forall (fun r => r_file r = file /\ in_tree t (r_lo r) (r_hi r)) (file_rngs ss).
Proof.
  intros file links t ss E. pose proof (core_of_tree_safe file links t) as H. rewrite E in H. cbn [safe] in H.
  unfold file_rngs. apply Forall_map. eapply Forall_impl; [|exact H]. intros p Hp. apply part_ok_in_tree. exact Hp.
Qed.

(** ... hence a slice of the tree text that starts at its lower end (with C01_lossless: of the parsed text, on
    character boundaries; see proofs/BridgeText.v) *)
Definition slice_of (txt : text) (lo hi : N) : Prop :=
  exists pre mid suf, txt = pre ++ mid ++ suf /\ lo = bytes pre /\ hi = bytes pre + bytes mid.

Lemma sub_range_slice t x : sub t x -> slice_of (tree_text t) (fst x) (l_end x).
Proof.
  intros S. destruct (sub_slice t x S) as (pre & suf & E & O). exists pre, (tree_text (snd x)), suf.
  split; [exact E|]. split; [exact O|]. rewrite l_end_bytes, O. reflexivity.
Qed.

Theorem core_ranges_slices : forall file links t ss,
  core_of_tree file links t = Ok ss ->
  Forall (fun r => r_file r = file /\ slice_of (tree_text t) (r_lo r) (r_hi r)) (file_rngs ss).
Proof.
  intros file links t ss E. pose proof (core_of_tree_safe file links t) as H. rewrite E in H. cbn [safe] in H.
  unfold file_rngs. apply Forall_map. eapply Forall_impl; [|exact H]. intros [r|i]; cbn [part_ok part_rng].
  - intros (F & x & S & L & Hh). split; [exact F|]. rewrite L, Hh. apply sub_range_slice. exact S.
  - intros (F & x & o & k & txt & S & _ & T & L & Hh & _). split; [exact F|].
    destruct (first_token_sub t x _ S T) as (S' & _). pose proof (sub_range_slice t _ S') as R.
    unfold l_end in R. cbn [fst snd tree_len] in R. rewrite L, Hh. exact R.
Qed.

(** * (b) every identifier carries the text of the token of the tree at exactly its range *)
Lemma forall_flat_map_parts (P : ident -> Prop) (l : list part) :
  Forall (fun p => match p with PI i => P i | PR _ => True end) l ->
  Forall P (flat_map (fun p => match p with PI i => [i] | PR _ => [] end) l).
Proof.
  induction 1 as [|p l Hp _ IH]; cbn [flat_map]; [constructor|]. destruct p; cbn [app]; [exact IH|constructor; assumption].
Qed.

Theorem core_idents_are_tokens : forall file links t ss,
  core_of_tree file links t = Ok ss ->
  Forall (fun i => r_file (i_rng i) = file /\
                   exists k, In (k, r_lo (i_rng i), r_hi (i_rng i), i_name i) (leaves t)) (file_idents ss).
Proof.
  intros file links t ss E. pose proof (core_of_tree_safe file links t) as H. rewrite E in H. cbn [safe] in H.
  unfold file_idents. apply forall_flat_map_parts. eapply Forall_impl; [|exact H]. intros [r|i]; [intros; exact I|].
  cbn [part_ok]. intros (F & x & o & k & txt & S & _ & T & L & Hh & Nm). split; [exact F|]. exists k.
  destruct (first_token_sub t x _ S T) as (S' & _). pose proof (sub_in_tree t _ S') as R. cbn [fst snd] in R.
  rewrite L, Hh, Nm. exact R.
Qed.

(** the token is the first token of an Identifier node; when the Identifier nodes have the shape the grammar gives
    them (executable check [ident_shape]), it is an Id token *)
Lemma ident_shape_node k cs : ident_shape (Node k cs) = true -> forall c, In c cs -> ident_shape c = true.
Proof.
  cbn [ident_shape]. intros H. apply andb_true_iff in H. destruct H as [_ H]. revert H.
  induction cs as [|d r IH]; intros H c Hc; [contradiction|]. apply andb_true_iff in H. destruct H as [H1 H2].
  destruct Hc as [->|Hc]; [exact H1|apply IH; assumption].
Qed.

Lemma ident_shape_sub t x : ident_shape t = true -> sub t x -> ident_shape (snd x) = true.
Proof.
  intros H S. induction S as [|x y S IH Hy]; [exact H|].
  destruct x as [o [k cs|k tx]]; unfold lchildren in Hy; cbn [fst snd children_of] in Hy; [|contradiction].
  apply with_offsets_in in Hy. eapply ident_shape_node; [exact IH|exact Hy].
Qed.

Lemma ident_first_token_is_id x o k txt :
  ident_shape (snd x) = true -> l_kind x = S_Identifier -> first_token x = Some (o, Tok k txt) -> k = S_Id.
Proof.
  destruct x as [ox [kx cs|kx tx]]; unfold l_kind, first_token; cbn [fst snd kind_of]; intros H K T.
  - subst kx. cbn [ident_shape] in H. apply andb_true_iff in H. destruct H as [H _].
    replace (sk_eqb S_Identifier S_Identifier) with true in H by reflexivity.
    destruct cs as [|[kc cc|kc tc] r]; cbn [first_tok] in T; try discriminate.
    inversion T; subst. apply sk_eqb_true. exact H.
  - subst kx. cbn [ident_shape] in H. discriminate H.
Qed.

Theorem core_idents_are_id_tokens : forall file links t ss,
  ident_shape t = true ->
  core_of_tree file links t = Ok ss ->
  Forall (fun i => r_file (i_rng i) = file /\
                   In (S_Id, r_lo (i_rng i), r_hi (i_rng i), i_name i) (leaves t)) (file_idents ss).
Proof.
  intros file links t ss Sh E. pose proof (core_of_tree_safe file links t) as H. rewrite E in H. cbn [safe] in H.
  unfold file_idents. apply forall_flat_map_parts. eapply Forall_impl; [|exact H]. intros [r|i]; [intros; exact I|].
  cbn [part_ok]. intros (F & x & o & k & txt & S & K & T & L & Hh & Nm). split; [exact F|].
  assert (k = S_Id) by (eapply ident_first_token_is_id; [eapply ident_shape_sub; eauto|exact K|exact T]). subst k.
  destruct (first_token_sub t x _ S T) as (S' & _). pose proof (sub_in_tree t _ S') as R. cbn [fst snd] in R.
  rewrite L, Hh, Nm. exact R.
Qed.

(** determinism is definitional (core_of_tree is a function); what the Rust side calls "noncore" is [Err] *)
Theorem core_of_tree_deterministic : forall file links t r1 r2,
  core_of_tree file links t = r1 -> core_of_tree file links t = r2 -> r1 = r2.
Proof. intros; congruence. Qed.

(** * Include targets come from the links *)
Definition wsafe {A : Type} (P : A -> Prop) (m : res A) : Prop := match m with Ok a => P a | _ => True end.
Lemma wsafe_bind {A B} (P : B -> Prop) (m : res A) (f : A -> res B) :
  (forall a, m = Ok a -> wsafe P (f a)) -> wsafe P (bind m f).
Proof. destruct m; cbn [bind wsafe]; auto. Qed.
Lemma wsafe_mapM {A B} (P : B -> Prop) (f : A -> res B) (l : list A) :
  (forall x, In x l -> wsafe P (f x)) -> wsafe (Forall P) (mapM f l).
Proof.
  induction l as [|x l IH]; intros H; cbn [mapM]; [constructor|].
  apply wsafe_bind. intros y Hy. apply wsafe_bind. intros ys Hys. cbn [wsafe]. constructor.
  - pose proof (H x (or_introl eq_refl)) as W. rewrite Hy in W. exact W.
  - assert (W : wsafe (Forall P) (mapM f l)) by (apply IH; intros z Hz; apply H; right; exact Hz). rewrite Hys in W. exact W.
Qed.
Lemma Forall_flat_map' {A B} (P : B -> Prop) (g : A -> list B) (l : list A) :
  Forall (fun a => Forall P (g a)) l -> Forall P (flat_map g l).
Proof. induction 1; cbn [flat_map]; [constructor|apply Forall_app; split; assumption]. Qed.

Definition link_tgt (links : list (N * N * N)) (g : N) : Prop := exists lo hi, In (lo, hi, g) links.

Lemma targets_all c : forall n,
  (forall x, wsafe (fun l => Forall (link_tgt (cx_links c)) (flat_map stmt_targets l)) (c_stmts n c x)) /\
  (forall x, wsafe (fun s => Forall (link_tgt (cx_links c)) (stmt_targets s)) (c_stmt n c x)).
Proof.
  induction n as [|n (IHl & IHs)]; [split; intros; exact I|].
  split; intros x.
  - cbn [c_stmts]. pose proof (wsafe_mapM (fun s => Forall (link_tgt (cx_links c)) (stmt_targets s)) (c_stmt n c)
                                 (field x "statements") (fun y _ => IHs y)) as W.
    destruct (mapM (c_stmt n c) (field x "statements")); cbn [wsafe] in *; auto. apply Forall_flat_map'. exact W.
  - cbn [c_stmt]. destruct (l_kind x); try exact I; repeat (apply wsafe_bind; intros ? ?); cbn [wsafe stmt_targets];
      repeat match goal with
             | H : c_stmts n c ?sl = Ok ?b |- _ =>
                 let W := fresh "W" in pose proof (IHl sl) as W; rewrite H in W; cbn [wsafe] in W; clear H
             end; try (constructor; fail); try assumption.
    + (* Include *)
      unfold link_target. destruct (find _ (cx_links c)) as [[[lo hi] g]|] eqn:F; [|constructor].
      apply find_some in F. destruct F as [F _]. cbn [snd]. constructor; [exists lo, hi; exact F|constructor].
    + (* If *)
      apply Forall_app. split; [assumption|].
      match goal with H : opt_with (c_stmts n c) ?l = Ok ?el |- _ => destruct l as [|v r]; cbn [opt_with] in H end.
      * match goal with H : Ok None = Ok _ |- _ => inversion H end. constructor.
      * match goal with H : bind (c_stmts n c v) _ = Ok _ |- _ =>
          destruct (c_stmts n c v) as [e| |] eqn:E; cbn [bind] in H; try discriminate; inversion H end.
        pose proof (IHl v) as W'. rewrite E in W'. exact W'.
Qed.

Theorem core_targets_are_links : forall file links t ss,
  core_of_tree file links t = Ok ss -> Forall (link_tgt links) (file_targets ss).
Proof.
  intros file links t ss E. unfold core_of_tree, c_file in E.
  destruct (l_kind (0, t)); try discriminate. destruct (snd (0, t)); try discriminate.
  destruct (need (field (0, t) "statement_list") "statement list") as [sl| |]; cbn [bind] in E; try discriminate.
  pose proof (proj1 (targets_all (mkCx file links) (S (S (height t)))) sl) as W. rewrite E in W. exact W.
Qed.
