(** Proofs about the bridge model/AstToCore.v (tree -> CoreAst through the generated accessor table).

    - [laccess_access]        the located accessors are AstAccess.access with offsets
    - [core_of_tree_total]    core_of_tree never runs out of fuel (it returns Ok or Err = "noncore")
    - [core_ranges_in_tree]   every range of the produced CoreAst (identifier ranges included) is the range of a
                              located subtree (node or token) of the input tree
    - [core_idents_are_tokens] / [core_idents_are_id_tokens]
                              every identifier carries the text of the token of the tree at exactly its range;
                              that token is the first token of an Identifier node, hence an Id token when the
                              Identifier nodes of the tree have the shape the grammar gives them ([ident_shape])
    - [sub_in_tree], [sub_slice]  located subtrees are entries of Tree.descendants / Tree.leaves, and slices of
                              the tree text that start at their offset (with C01_lossless: of the parsed text) *)
From Coq Require Import List NArith ZArith Bool String PeanoNat Lia.
From TG.Gen Require Import GenTokens GenAst GenGrammar.
From TG.Model Require Import Chars Lexer Prep Tree ParserPrims GInterp AstAccess CoreAst AstToCore.
From TG.Proofs Require Import ParserTile.
Import ListNotations.
Close Scope string_scope.
Open Scope N_scope.
Open Scope list_scope.

(** * The located accessors are the accessors of AstAccess.v *)
Lemma map_snd_with_offsets : forall cs o, map snd (with_offsets o cs) = cs.
Proof. induction cs as [|c r IH]; intros o; cbn [with_offsets map snd]; [reflexivity|]. rewrite IH. reflexivity. Qed.

Lemma filter_map_snd {A B} (p : B -> bool) (l : list (A * B)) :
  map snd (filter (fun c => p (snd c)) l) = filter p (map snd l).
Proof. induction l as [|x l IH]; cbn [filter map]; [reflexivity|]. destruct (p (snd x)); cbn [map]; rewrite IH; reflexivity. Qed.

Lemma filter_filter {A} (p q : A -> bool) (l : list A) : filter p (filter q l) = filter (fun x => q x && p x) l.
Proof. induction l as [|x l IH]; cbn [filter]; [reflexivity|]. destruct (q x); cbn [filter andb]; rewrite IH; reflexivity. Qed.

Lemma map_firstn {A B} (f : A -> B) n (l : list A) : map f (firstn n l) = firstn n (map f l).
Proof. revert l; induction n; intros [|x l]; cbn [firstn map]; try reflexivity. rewrite IHn. reflexivity. Qed.

Lemma nth_error_map' {A B} (f : A -> B) (l : list A) i : nth_error (map f l) i = option_map f (nth_error l i).
Proof. revert l; induction i; intros [|x l]; cbn [nth_error map option_map]; try reflexivity. apply IHi. Qed.

Theorem laccess_access : forall x ks m, map snd (laccess x ks m) = access (snd x) ks m.
Proof.
  intros [o t] ks m. unfold laccess, access, of_kinds, node_children, lchildren. cbn [fst snd].
  set (p := fun c : tree => is_node c && kind_in (kind_of c) ks).
  assert (E : map snd (filter (fun c : N * tree => is_node (snd c) && kind_in (kind_of (snd c)) ks) (with_offsets o (children_of t)))
              = filter (fun c => kind_in (kind_of c) ks) (filter is_node (children_of t))).
  { change (fun c : N * tree => is_node (snd c) && kind_in (kind_of (snd c)) ks) with (fun c : N * tree => p (snd c)).
    rewrite filter_map_snd, map_snd_with_offsets, filter_filter. reflexivity. }
  destruct m as [| |i].
  - rewrite map_firstn, E. reflexivity.
  - exact E.
  - rewrite <- E, nth_error_map'. destruct (nth_error _ i); reflexivity.
Qed.

(** * Located subtrees *)
Inductive sub (t : tree) : lnode -> Prop :=
| sub_root : sub t (0, t)
| sub_child : forall x y, sub t x -> In y (lchildren x) -> sub t y.

Lemma firstn_In' {A} n : forall (l : list A) x, In x (firstn n l) -> In x l.
Proof. induction n; intros [|a l] x H; cbn [firstn] in H; try contradiction. destruct H as [->|H]; [left; reflexivity|right; auto]. Qed.

Lemma laccess_children x ks m y : In y (laccess x ks m) -> In y (lchildren x).
Proof.
  unfold laccess. match goal with |- context [filter ?p (lchildren x)] => set (cs := filter p (lchildren x)) end.
  assert (S : forall z, In z cs -> In z (lchildren x)) by (intros z Hz; apply filter_In in Hz; tauto).
  destruct m as [| |i]; intros H.
  - apply S. eapply firstn_In'. exact H.
  - apply S. exact H.
  - destruct (nth_error cs i) eqn:E; [|contradiction]. destruct H as [<-|[]]. apply S. eapply nth_error_In. exact E.
Qed.

Lemma laccess_is_node x ks m y : In y (laccess x ks m) -> is_node (snd y) = true /\ kind_in (kind_of (snd y)) ks = true.
Proof.
  unfold laccess. match goal with |- context [filter ?p (lchildren x)] => set (cs := filter p (lchildren x)) end.
  assert (S : forall z, In z cs -> is_node (snd z) = true /\ kind_in (kind_of (snd z)) ks = true).
  { intros z Hz. apply filter_In in Hz. destruct Hz as [_ Hz]. apply andb_true_iff in Hz. exact Hz. }
  destruct m as [| |i]; intros H.
  - apply S. eapply firstn_In'. exact H.
  - apply S. exact H.
  - destruct (nth_error cs i) eqn:E; [|contradiction]. destruct H as [<-|[]]. apply S. eapply nth_error_In. exact E.
Qed.

Lemma field_children x f y : In y (field x f) -> In y (lchildren x).
Proof. unfold field. destruct (find _ _); [apply laccess_children|contradiction]. Qed.

Lemma field_sub t x f y : sub t x -> In y (field x f) -> sub t y.
Proof. intros S H. eapply sub_child; [exact S|]. eapply field_children. exact H. Qed.

Lemma first_tok_sub t : forall t0 off y, first_tok off t0 = Some y -> sub t (off, t0) ->
  sub t y /\ exists k txt, snd y = Tok k txt.
Proof.
  fix IH 1. intros [k cs|k txt] off y E S.
  - destruct cs as [|c r].
    { cbn [first_tok] in E. discriminate. }
    cbn [first_tok] in E.
    apply (IH c off y E). eapply sub_child; [exact S|]. unfold lchildren. cbn [fst snd children_of with_offsets]. left. reflexivity.
  - cbn [first_tok] in E. inversion E. subst y. split; [exact S|]. exists k, txt. reflexivity.
Qed.

Lemma first_token_sub t x y : sub t x -> first_token x = Some y -> sub t y /\ exists k txt, snd y = Tok k txt.
Proof. destruct x as [o t0]. unfold first_token. cbn [fst snd]. intros S E. eapply first_tok_sub; eauto. Qed.

(** * Heights: a child is lower *)
Lemma height_node k cs : height (Node k cs) = S (fold_right (fun c a => Nat.max (height c) a) O cs).
Proof. cbn [height]. apply f_equal. induction cs as [|c r IH]; [reflexivity|]. cbn [fold_right]. rewrite <- IH. reflexivity. Qed.

Lemma with_offsets_in : forall cs o y, In y (with_offsets o cs) -> In (snd y) cs.
Proof. induction cs as [|c r IH]; intros o y H; cbn [with_offsets] in H; [contradiction|]. destruct H as [<-|H]; [left; reflexivity|right; eapply IH; exact H]. Qed.

Lemma height_child x y : In y (lchildren x) -> (height (snd y) < height (snd x))%nat.
Proof.
  destruct x as [o [k cs|k txt]]; unfold lchildren; cbn [fst snd children_of]; intros H; [|contradiction].
  apply with_offsets_in in H. rewrite height_node. revert H. generalize (snd y). intros c H.
  induction cs as [|d r IH]; [contradiction|]. cbn [fold_right]. destruct H as [->|H]; [lia|]. specialize (IH H). lia.
Qed.

Lemma height_field x f y : In y (field x f) -> (height (snd y) < height (snd x))%nat.
Proof. intros H. apply height_child. eapply field_children. exact H. Qed.
