(** Property C08, second part: in the protocol of the real server (after fix 0d12b07) a task never waits for the
    main loop nor for another task: in every reachable state every unfinished task can step.
    Stronger static discipline [strict_ok] (the vfs write lock is only requested when no snapshot is live; nothing is
    spawned while it is held; a task that uses the published_files mutex is only spawned when no snapshot is live;
    after dropping its snapshot a task only ends), satisfied by [script_of items] for every sequence of messages;
    invariant [SInv]; theorem [tasks_never_blocked]. *)
From Coq Require Import List Bool Arith Lia.
From TG.Model Require Import Sched.
From TG.Proofs Require Import SchedProofs.
Import ListNotations.

Set Implicit Arguments.

Ltac simp_st := cbn [mpc ws vw vwait out].
Ltac wcase H := try match type of H with context [if ?c then _ else _] => destruct c; [|discriminate H] end.

Section WaitFree.
Context {P : Type}.
Notation wact := (wact P).
Notation worker := (worker P).
Notation mact := (mact P).
Notation st := (st P).

Implicit Types (s : st) (w : worker) (pol : policy).

(** after the snapshot is dropped the task only ends *)
Fixpoint drop_tail (l : list wact) : bool :=
  match l with
  | [] => true
  | WDrop :: r => match r with [] => true | WEnd :: [] => true | _ => false end
  | _ :: r => drop_tail r
  end.

Definition real_skel (sk : list wact) : bool := wf_skel sk && drop_tail sk.

Fixpoint strict_ok (h nw : bool) (l : list mact) : bool :=
  match l with
  | [] => negb h
  | a :: r =>
    match a with
    | MNote _ => strict_ok h nw r
    | MBar | MQW _ => implb h nw && strict_ok h true r
    | MVW => negb h && nw && strict_ok true nw r
    | MVWu => h && strict_ok false nw r
    | MSpawn sk => negb h && real_skel sk && (negb (usesP sk) || nw) && strict_ok h false r
    end
  end.

Lemma strict_ok_le (l : list mact) : forall h (b b' : bool),
  (b = true -> b' = true) -> strict_ok h b l = true -> strict_ok h b' l = true.
Proof.
  induction l as [|a r IH]; intros h b b' Hb H; cbn [strict_ok] in *; auto.
  destruct a; eauto.
  - apply andb_true_iff in H. destruct H as [H1 H2]. apply andb_true_iff. split; auto.
    destruct h, b; cbn in *; auto; try discriminate.
  - apply andb_true_iff in H. destruct H as [H1 H3]. apply andb_true_iff in H1. destruct H1 as [H1 H2].
    rewrite H1, (Hb H2). cbn. eauto.
  - apply andb_true_iff in H. destruct H as [H1 H2]. apply andb_true_iff. split; auto.
    destruct h, b; cbn in *; auto; try discriminate.
  - apply andb_true_iff in H. destruct H as [H1 H2]. apply andb_true_iff. split; eauto.
  - apply andb_true_iff in H. destruct H as [H1 H4]. apply andb_true_iff in H1. destruct H1 as [H1 H3].
    rewrite H1, H4. cbn. destruct (usesP sk); cbn in *; auto. rewrite (Hb H3). reflexivity.
Qed.

Definition W (w : worker) : Prop :=
  wf_worker w = true /\ drop_tail (rem w) = true /\ (wq w = false -> rem w = [] \/ rem w = [WEnd]).

Definition SInv s : Prop :=
  strict_ok (vw s) (noq (ws s)) (mpc s) = true /\
  (vw s = true -> noq (ws s) = true) /\
  vwait s = false /\
  (forall w, In w (ws s) -> W w) /\
  length (filter Pind (ws s)) <= 1.

Lemma W_dropped w : W w -> wq w = false -> wv w = false /\ wp w = false /\ Pind w = false.
Proof.
  intros (Hwf & _ & Hq) E. unfold wf_worker in Hwf. rewrite E in Hwf. unfold Pind.
  destruct (Hq E) as [Hr|Hr]; rewrite Hr in *; cbn in Hwf |- *;
    destruct (wv w), (wp w); cbn in *; try discriminate; auto.
Qed.

Lemma noq_all (l : list worker) : noq l = true -> forall w, In w l -> wq w = false.
Proof.
  unfold noq. rewrite forallb_forall. intros H w Hin. specialize (H w Hin). destruct (wq w); auto; discriminate.
Qed.

Lemma filter_none_len {A : Type} (f : A -> bool) (l : list A) : (forall x, In x l -> f x = false) -> filter f l = [].
Proof. apply filter_nil_all. Qed.

Lemma count_upd_le {A : Type} (f : A -> bool) (l : list A) : forall i a a', nth_error l i = Some a ->
  (f a' = true -> f a = true) -> length (filter f (upd i a' l)) <= length (filter f l).
Proof.
  induction l as [|z r IH]; intros [|i] a a' Hn Hf; cbn in *; try discriminate.
  - injection Hn as ->. destruct (f a') eqn:E; [rewrite (Hf eq_refl); cbn; lia|destruct (f a); cbn; lia].
  - specialize (IH _ _ _ Hn Hf). destruct (f z); cbn; lia.
Qed.

Lemma two_in_filter {A : Type} (f : A -> bool) (l : list A) : forall i j a b, i <> j ->
  nth_error l i = Some a -> nth_error l j = Some b -> f a = true -> f b = true -> 2 <= length (filter f l).
Proof.
  induction l as [|z r IH]; intros [|i] [|j] a b Hij Ha Hb Fa Fb; cbn in *; try discriminate; try congruence.
  - injection Ha as ->. rewrite Fa. cbn.
    assert (In b (filter f r)) by (apply filter_In; split; [eapply nth_error_In; eauto|exact Fb]).
    destruct (filter f r); [contradiction|cbn; lia].
  - injection Hb as ->. rewrite Fb. cbn.
    assert (In a (filter f r)) by (apply filter_In; split; [eapply nth_error_In; eauto|exact Fa]).
    destruct (filter f r); [contradiction|cbn; lia].
  - assert (i <> j) by congruence. specialize (IH _ _ _ _ H Ha Hb Fa Fb). destruct (f z); cbn; lia.
Qed.

Lemma sinv_init (script : list mact) : strict_ok false true script = true -> SInv (init script).
Proof.
  intros H. split; [exact H|]. split; [discriminate|]. split; [reflexivity|]. split; [intros w []|]. cbn. lia.
Qed.

Lemma drop_tail_tl (a : wact) (r : list wact) : drop_tail (a :: r) = true -> drop_tail r = true.
Proof.
  destruct a; cbn; auto. destruct r as [|b r']; auto. destruct b; try discriminate.
  destruct r'; [reflexivity|discriminate].
Qed.

Lemma W_step pol s w w' o : W w -> wstep pol s w = Some (w', o) -> W w' /\ (Pind w' = true -> Pind w = true).
Proof.
  intros (Hwf & Hdt & Hq) Hs. destruct (wstep_shape _ _ _ Hs) as (a & Er & Hqq & Hwf').
  rewrite Er in Hdt, Hq. split; [split; [auto|split; [eapply drop_tail_tl; eauto|]]|].
  - intros E. unfold wstep in Hs. rewrite Er in Hs.
    destruct a; cbn in Hs; wcase Hs; injection Hs as Hs _; rewrite <- Hs in E; cbn in E;
      try (destruct (Hq E) as [Hx|Hx]; [discriminate|]; inversion Hx; auto).
    (* WDrop *)
    cbn in Hdt. destruct (rem w') as [|b r']; auto. destruct b; try discriminate. destruct r'; [auto|discriminate].
  - unfold Pind. rewrite Er. unfold wstep in Hs. rewrite Er in Hs.
    destruct a; cbn in Hs; wcase Hs; injection Hs as Hs _; rewrite <- Hs; cbn; auto;
      intros H; rewrite ?orb_true_r; auto.
Qed.

Lemma readers_noq (l : list worker) : (forall w, In w l -> W w) -> noq l = true -> readers l = 0.
Proof.
  intros HW Hq. apply readers_zero. intros w Hin.
  destruct (W_dropped (HW w Hin) (noq_all _ Hq w Hin)) as (H & _). exact H.
Qed.

Lemma sinv_step pol l s s' : SInv s -> exec pol l s = Some s' -> SInv s'.
Proof.
  intros (H1 & H2 & H3 & H4 & H5) H. destruct l as [| |i]; cbn in H.
  - unfold mstep in H. destruct (mpc s) as [|a r] eqn:Em; [discriminate|].
    destruct a; cbn [strict_ok] in H1.
    + injection H as <-. split; [|split; [|split; [|split]]]; simp_st; auto.
    + destruct (noq (ws s)) eqn:En; [|discriminate]. injection H as <-.
      apply andb_true_iff in H1. destruct H1 as [_ H1].
      split; [|split; [|split; [|split]]]; simp_st; auto. rewrite En. exact H1.
    + destruct (can_write s) eqn:Ec; [|discriminate]. injection H as <-.
      apply andb_true_iff in H1. destruct H1 as [H0 H1]. apply andb_true_iff in H0. destruct H0 as [_ Hn].
      split; [|split; [|split; [|split]]]; simp_st; auto.
    + destruct (noq (ws s)) eqn:En; [|discriminate]. injection H as <-.
      apply andb_true_iff in H1. destruct H1 as [_ H1].
      split; [|split; [|split; [|split]]]; simp_st; auto. rewrite En. exact H1.
    + injection H as <-. apply andb_true_iff in H1. destruct H1 as [_ H1].
      split; [|split; [|split; [|split]]]; simp_st; auto. discriminate.
    + injection H as <-.
      apply andb_true_iff in H1. destruct H1 as [H1 Hr]. apply andb_true_iff in H1. destruct H1 as [H1 Hu].
      apply andb_true_iff in H1. destruct H1 as [Hh Hk]. apply andb_true_iff in Hk. destruct Hk as [Hwf Hdt].
      assert (Ev : vw s = false) by (destruct (vw s); auto; discriminate).
      split; [|split; [|split; [|split]]]; simp_st; auto.
      * rewrite noq_app. cbn. rewrite andb_false_r. exact Hr.
      * rewrite Ev. discriminate.
      * intros w Hin. apply in_app_or in Hin. destruct Hin as [Hin|[<-|[]]]; [apply H4; exact Hin|].
        split; [exact Hwf|]. split; [exact Hdt|]. discriminate.
      * rewrite filter_app, app_length. cbn [filter].
        assert (Hpn : Pind (mkW false false true sk) = usesP sk) by (unfold Pind; cbn; apply orb_false_r).
        rewrite Hpn.
        destruct (usesP sk) eqn:Eu; cbn [length]; [|lia].
        cbn in Hu. rewrite (filter_none_len Pind (ws s)); [cbn; lia|].
        intros w Hin. destruct (W_dropped (H4 w Hin) (noq_all _ Hu w Hin)) as (_ & _ & Hp). exact Hp.
  - (* main never has to queue: the lock is free when it asks for it *)
    exfalso. unfold mwait in H. destruct (mpc s) as [|a r] eqn:Em; [discriminate|].
    destruct a; try discriminate. cbn [strict_ok] in H1.
    apply andb_true_iff in H1. destruct H1 as [H0 _]. apply andb_true_iff in H0. destruct H0 as [Hh Hn].
    unfold can_write in H. rewrite (readers_noq _ H4 Hn) in H.
    destruct (vw s); [discriminate|]. cbn in H. rewrite andb_false_r in H. discriminate.
  - destruct (nth_error (ws s) i) as [w|] eqn:En; [|discriminate].
    destruct (wstep pol s w) as [[w' o]|] eqn:Ew; [|discriminate]. injection H as <-.
    destruct (wstep_shape _ _ _ Ew) as (a & Er & Hq & _).
    destruct (@W_step pol s w w' o (H4 w (nth_error_In' _ _ En)) Ew) as [HW' HP'].
    assert (Hmono : noq (ws s) = true -> noq (upd i w' (ws s)) = true) by (intros Hn; eapply noq_upd_mono; eauto).
    split; [|split; [|split; [|split]]]; simp_st; auto.
    + eapply strict_ok_le; [exact Hmono|exact H1].
    + intros x Hin. destruct (In_upd _ _ _ _ Hin) as [->|Hin']; auto.
    + pose proof (count_upd_le Pind (ws s) _ _ En HP'). lia.
Qed.

Lemma sinv_reach pol script s : strict_ok false true script = true -> reach pol (init script) s -> SInv s.
Proof.
  intros Hs Hr. induction Hr as [|s1 s2 _ IH [l Hl]]; [apply sinv_init; exact Hs|].
  eapply sinv_step; eauto.
Qed.

Theorem never_blocked pol s i w : SInv s -> nth_error (ws s) i = Some w -> rem w <> [] ->
  exists s', exec pol (LWorker i) s = Some s'.
Proof.
  intros (H1 & H2 & H3 & H4 & H5) Hn Hr.
  pose proof (H4 w (nth_error_In' _ _ Hn)) as HW.
  destruct (wstep pol s w) as [x|] eqn:Ex; [eapply exec_worker; eauto|exfalso].
  unfold wstep in Ex. destruct (rem w) as [|a r] eqn:Er; [congruence|].
  destruct a; try discriminate.
  - (* vfs.read() *)
    unfold can_read in Ex. rewrite H3 in Ex. cbn in Ex. destruct (vw s) eqn:Ev; [|discriminate].
    destruct HW as (_ & _ & Hq). rewrite Er in Hq.
    destruct (Hq (noq_all _ (H2 eq_refl) w (nth_error_In' _ _ Hn))) as [Hx|Hx]; discriminate.
  - (* the mutex *)
    destruct (p_held (ws s)) eqn:Ep; [|discriminate]. unfold p_held in Ep.
    destruct (existsb_nth _ _ Ep) as (j & w2 & Hj & Hp2).
    assert (Pw : Pind w = true) by (unfold Pind; rewrite Er; reflexivity).
    assert (Pw2 : Pind w2 = true) by (unfold Pind; rewrite Hp2; apply orb_true_r).
    destruct (Nat.eq_dec i j) as [->|Hij].
    + rewrite Hn in Hj. injection Hj as <-. destruct HW as (Hwf & _). unfold wf_worker in Hwf.
      rewrite Er, Hp2 in Hwf. cbn in Hwf. rewrite andb_false_r in Hwf. discriminate.
    + pose proof (two_in_filter Pind (ws s) Hij Hn Hj Pw Pw2). lia.
Qed.

(** ** the real scripts *)

Lemma drop_tail_app (l1 l2 : list wact) : (forall a, In a l1 -> a <> WDrop) -> drop_tail (l1 ++ l2) = drop_tail l2.
Proof.
  induction l1 as [|a r IH]; intros H; cbn [app]; auto.
  assert (a <> WDrop) by (apply H; left; reflexivity).
  rewrite <- IH by (intros x Hx; apply H; right; exact Hx). destruct a; auto; congruence.
Qed.

Lemma real_diag (pubs : list P) : real_skel (diag pubs) = true.
Proof.
  unfold real_skel. rewrite wf_diag. unfold diag. cbn [app drop_tail andb].
  rewrite drop_tail_app; [reflexivity|].
  intros a Ha. apply in_flat_map in Ha. destruct Ha as (p & _ & Ha). cbn in Ha.
  intros ->. repeat (destruct Ha as [Ha|Ha]; [discriminate|]). contradiction.
Qed.

Lemma real_skeleton (k : kind) : real_skel (@skeleton P k) = true /\ usesP (@skeleton P k) = false.
Proof. destruct k as [| | | | |[]|[]|[]]; split; reflexivity. Qed.

Lemma strict_ok_inner_app k (r : list mact) : strict_ok true true r = true -> strict_ok true true (inner k ++ r) = true.
Proof. induction k as [|k IH]; intros H; cbn [inner app strict_ok implb andb]; auto. Qed.

Theorem script_of_strict (items : list (item P)) : forall nw, strict_ok false nw (script_of items) = true.
Proof.
  induction items as [|it r IH]; intros nw; [reflexivity|].
  unfold script_of. cbn [flat_map]. fold (script_of r). destruct it as [k pubs|kd]; cbn [block].
  - unfold handler. rewrite <- !app_assoc. cbn [app strict_ok implb negb andb].
    rewrite strict_ok_inner_app; [reflexivity|].
    cbn [app strict_ok implb negb andb]. rewrite real_diag, orb_true_r. cbn [andb]. apply IH.
  - cbn [app strict_ok negb andb]. destruct (real_skeleton kd) as [-> ->]. cbn [negb orb andb]. apply IH.
Qed.

Theorem tasks_never_blocked pol (items : list (item P)) s i w :
  reach pol (init (script_of items)) s -> nth_error (ws s) i = Some w -> rem w <> [] ->
  exists s', exec pol (LWorker i) s = Some s'.
Proof.
  intros Hr. apply never_blocked. eapply sinv_reach; [apply script_of_strict|exact Hr].
Qed.

(** the critical sections of the published_files mutex are executed one task at a time, in spawn order: while a
    task still has business with the mutex no other task has (so the i-th diagnostics task reads exactly what the
    (i-1)-th wrote: the sequential threading of [published] in ServerProto.items_of) *)
Theorem one_mutex_user pol (items : list (item P)) s :
  reach pol (init (script_of items)) s -> length (filter (@Pind P) (ws s)) <= 1.
Proof.
  intros Hr. destruct (sinv_reach (script_of_strict items true) Hr) as (_ & _ & _ & _ & H). exact H.
Qed.

End WaitFree.
