(** Basic facts about the lexer model (Lexer.v): every token is a prefix of the input, every
    non-Eof token is non-empty, Error <-> a message is parked, and the same facts for the raw
    token list the preprocessor model consumes.  Also: a fuel-free relational characterisation
    of [lex_text] and readable unfoldings of the literal-character matches of the model. *)
From Coq Require Import List NArith Bool Lia Wf_nat.
From TG.Gen Require Import GenTokens GenLexTables.
From TG.Model Require Import Chars Lexer Prep.
Import ListNotations.
Open Scope N_scope.

(** * Scanner primitives split their input *)

Lemma eat_while_split p s a b : eat_while p s = (a, b) -> s = a ++ b.
Proof.
  revert a b; induction s as [|c r IH]; intros a b H; cbn [eat_while] in H.
  - inversion H; reflexivity.
  - destruct (p c).
    + destruct (eat_while p r) as [a' b'] eqn:E. inversion H; subst. cbn. f_equal. apply IH. reflexivity.
    + inversion H; reflexivity.
Qed.

Lemma eat_until_split p s a b : eat_until p s = (a, b) -> s = a ++ b.
Proof. apply eat_while_split. Qed.

Lemma eat_until2_split x y s a b : eat_until2 x y s = (a, b) -> s = a ++ b.
Proof.
  revert a b; induction s as [|c r IH]; intros a b H.
  - inversion H; reflexivity.
  - cbn [eat_until2] in H. destruct r as [|d r'].
    + inversion H; reflexivity.
    + destruct ((c =? x) && (d =? y)).
      * inversion H; reflexivity.
      * destruct (eat_until2 x y (d :: r')) as [a' b'] eqn:E. inversion H; subst.
        cbn. f_equal. apply IH; reflexivity.
Qed.

Lemma block_comment_split s : forall depth a b, block_comment depth s = (a, b) -> s = a ++ b.
Proof.
  remember (List.length s) as n eqn:Hn.
  revert s Hn. induction n as [n IH] using lt_wf_ind. intros s Hn depth a b H.
  destruct s as [|c r]; [inversion H; reflexivity|].
  cbn [block_comment] in H. destruct r as [|d r'].
  - inversion H; reflexivity.
  - destruct ((c =? 47) && (d =? 42)).
    + destruct (block_comment (S depth) r') as [a' b'] eqn:E. inversion H; subst.
      cbn. do 2 f_equal. eapply (IH (List.length r')); [cbn; lia|reflexivity|exact E].
    + destruct ((c =? 42) && (d =? 47)).
      * destruct depth as [|depth'].
        -- inversion H; reflexivity.
        -- destruct (block_comment depth' r') as [a' b'] eqn:E. inversion H; subst.
           cbn. do 2 f_equal. eapply (IH (List.length r')); [cbn; lia|reflexivity|exact E].
      * destruct (block_comment depth (d :: r')) as [a' b'] eqn:E. inversion H; subst.
        cbn. f_equal. eapply (IH (List.length (d :: r'))); [cbn; lia|reflexivity|exact E].
Qed.

(** * Literal-character matches of the model, restated with boolean tests *)

Definition hd_eqb (x : N) (r : text) : bool := match r with d :: _ => d =? x | [] => false end.

Lemma hd_eqb_true x r : hd_eqb x r = true -> r = x :: tl r.
Proof. destruct r as [|d r']; cbn; [discriminate|]. intros H. apply N.eqb_eq in H. subst. reflexivity. Qed.

Ltac lit_match r :=
  let d := fresh "d" in let r' := fresh "r" in let p := fresh "p" in
  destruct r as [|d r']; [reflexivity|]; destruct d as [|p]; [reflexivity|];
  repeat (destruct p as [p|p|]; try reflexivity).

Lemma match47 (r : text) : (match r with 47 :: _ => true | _ => false end) = hd_eqb 47 r.
Proof. lit_match r. Qed.
Lemma match42 (r : text) : (match r with 42 :: _ => true | _ => false end) = hd_eqb 42 r.
Proof. lit_match r. Qed.
Lemma match123 (r : text) : (match r with 123 :: _ => true | _ => false end) = hd_eqb 123 r.
Proof. lit_match r. Qed.

Lemma match46 {A} (r : text) (f : text -> A) (y : A) :
  (match r with 46 :: r1 => f r1 | _ => y end) = if hd_eqb 46 r then f (tl r) else y.
Proof. lit_match r. Qed.

Lemma match_num_prefix (s : text) :
  (match s with
   | 98 :: r => (2, [98], r)
   | 120 :: r => (16, [120], r)
   | _ => (10, [], s)
   end) = (if hd_eqb 98 s then (2, [98], tl s) else if hd_eqb 120 s then (16, [120], tl s) else (10, @nil N, s)).
Proof. lit_match s. Qed.

Lemma match_code_end {A} (rest : text) (f : text -> A) (y : A) :
  (match rest with 125 :: 93 :: r => f r | _ => y end)
  = if hd_eqb 125 rest && hd_eqb 93 (tl rest) then f (tl (tl rest)) else y.
Proof.
  destruct rest as [|d r']; [reflexivity|]. destruct d as [|p]; [reflexivity|].
  repeat (destruct p as [p|p|]; try reflexivity).
  cbn [hd_eqb tl andb]. rewrite N.eqb_refl. cbn [andb]. lit_match r'.
Qed.

(** * Table facts (re-established by computation on the regenerated tables) *)

Definition kind_ok (k : TokenKind) : bool := negb (tk_eqb k T_Error) && negb (tk_eqb k T_Eof).

Lemma kind_ok_spec k : kind_ok k = true -> k <> T_Error /\ k <> T_Eof.
Proof. intros H; split; intros ->; cbv in H; discriminate. Qed.

Lemma lookup_forallb {A} (P : A -> bool) (tbl : list (list N * A)) key v :
  forallb (fun kv => P (snd kv)) tbl = true -> lookup tbl key = Some v -> P v = true.
Proof.
  induction tbl as [|[k' v'] tbl IH]; cbn [lookup forallb]; [discriminate|].
  intros H L. apply andb_true_iff in H. destruct H as [H1 H2].
  destruct (list_eqb k' key); [inversion L; subst; exact H1 | auto].
Qed.

Lemma lookup1_forallb {A} (P : A -> bool) (tbl : list (N * A)) key v :
  forallb (fun kv => P (snd kv)) tbl = true -> lookup1 tbl key = Some v -> P v = true.
Proof.
  induction tbl as [|[k' v'] tbl IH]; cbn [lookup1 forallb]; [discriminate|].
  intros H L. apply andb_true_iff in H. destruct H as [H1 H2].
  destruct (k' =? key); [inversion L; subst; exact H1 | auto].
Qed.

Lemma keyword_table_ok : forallb (fun kv => kind_ok (snd kv)) keyword_table = true.
Proof. vm_compute. reflexivity. Qed.
Lemma bangop_table_ok : forallb (fun kv => kind_ok (snd kv)) bangop_table = true.
Proof. vm_compute. reflexivity. Qed.
Lemma directive_table_ok : forallb (fun kv => kind_ok (snd kv)) directive_table = true.
Proof. vm_compute. reflexivity. Qed.
Lemma punct_table_ok : forallb (fun kv => kind_ok (snd kv)) punct_table = true.
Proof. vm_compute. reflexivity. Qed.

(** * Every scanner function returns a well-formed result *)

Definition good (s : text) (r : lexres) : Prop :=
  let '(k, e, a, b) := r in s = a ++ b /\ (k = T_Error <-> e <> None) /\ k <> T_Eof.

Lemma good_tok s k a b : s = a ++ b -> k <> T_Error -> k <> T_Eof -> good s (tok k a b).
Proof. intros H1 H2 H3. cbn. split; [exact H1|]. split; [|exact H3]. split; [contradiction|congruence]. Qed.

Lemma good_tok_ok s k a b : s = a ++ b -> kind_ok k = true -> good s (tok k a b).
Proof. intros H1 H2. apply kind_ok_spec in H2. destruct H2. apply good_tok; assumption. Qed.

Lemma good_err s e a b : s = a ++ b -> good s (err e a b).
Proof. intros H1. cbn. split; [exact H1|]. split; [|discriminate]. split; [discriminate|reflexivity]. Qed.

Lemma good_cons c s r : good s r -> good (c :: s) (cons_lexeme c r).
Proof. destruct r as [[[k e] a] b]. cbn. intros [H1 H2]. split; [congruence|exact H2]. Qed.

Lemma identifier_good c s : good s (identifier c s).
Proof.
  unfold identifier. destruct (eat_while is_identifier_continue s) as [a rest] eqn:E.
  apply eat_while_split in E.
  destruct (lookup keyword_table (c :: a)) as [k|] eqn:L.
  - apply good_tok_ok; [exact E|]. exact (lookup_forallb _ _ _ _ keyword_table_ok L).
  - apply good_tok; [exact E|discriminate|discriminate].
Qed.

Definition num_pfx (c : N) (s : text) : N * text * text :=
  if c =? 48 then
    (if hd_eqb 98 s then (2, [98], tl s) else if hd_eqb 120 s then (16, [120], tl s) else (10, [], s))
  else (10, [], s).

Lemma num_pfx_spec c s base pfx s1 :
  num_pfx c s = (base, pfx, s1) -> s = pfx ++ s1 /\ (base = 10 -> pfx = []).
Proof.
  unfold num_pfx. destruct (c =? 48).
  - destruct (hd_eqb 98 s) eqn:E1.
    + intros H; inversion H; subst. split; [exact (hd_eqb_true _ _ E1)|discriminate].
    + destruct (hd_eqb 120 s) eqn:E2; intros H; inversion H; subst.
      * split; [exact (hd_eqb_true _ _ E2)|discriminate].
      * split; reflexivity.
  - intros H; inversion H; subst. split; reflexivity.
Qed.

(** [number] with the literal matches restated *)
Lemma number_eq c s :
  number c s =
  let peek_digit := match s with d :: _ => is_ascii_digit d | [] => false end in
  if negb peek_digit && (c =? 43) then tok T_Plus [] s
  else if negb peek_digit && (c =? 45) then tok T_Minus [] s
  else
    let sign := if c =? 43 then 1 else if c =? 45 then 2 else 0 in
    let '(base, pfx, s1) := num_pfx c s in
    let '(ds, rest) :=
      if base =? 2 then eat_while is_bin_digit s1
      else if base =? 10 then eat_while is_ascii_digit s1
      else eat_while is_ascii_hexdigit s1 in
    let digits := if (base =? 10) && (sign =? 0) then c :: ds else ds in
    if (base =? 10) && (sign =? 0) && (match rest with d :: _ => is_identifier_start d | [] => false end) then
      let '(a, rest') := eat_while is_identifier_continue rest in
      match lookup keyword_table (c :: ds ++ a) with
      | Some k => tok k (ds ++ a) rest'
      | None => tok T_Id (ds ++ a) rest'
      end
    else if negb (base =? 10) && (match ds with [] => true | _ :: _ => false end) then
      let '(a, rest') := eat_while is_identifier_continue rest in
      match lookup keyword_table (c :: pfx ++ a) with
      | Some k => tok k (pfx ++ a) rest'
      | None => tok T_Id (pfx ++ a) rest'
      end
    else if interpret_ok base sign digits then
      tok (if base =? 2 then T_BinaryIntVal else T_IntVal) (pfx ++ ds) rest
    else
      err (if base =? 2 then EInvalidBinary else if base =? 10 then EInvalidNumber else EInvalidHex) (pfx ++ ds) rest.
Proof. unfold number, num_pfx. rewrite match_num_prefix. reflexivity. Qed.

Lemma number_good c s : good s (number c s).
Proof.
  rewrite number_eq. cbv zeta.
  destruct (negb _ && (c =? 43)); [apply good_tok; [reflexivity|discriminate|discriminate]|].
  destruct (negb _ && (c =? 45)); [apply good_tok; [reflexivity|discriminate|discriminate]|].
  destruct (num_pfx c s) as [[base pfx] s1] eqn:EP. apply num_pfx_spec in EP. destruct EP as [EP1 EP2].
  destruct (if base =? 2 then eat_while is_bin_digit s1
            else if base =? 10 then eat_while is_ascii_digit s1 else eat_while is_ascii_hexdigit s1)
    as [ds rest] eqn:ED.
  assert (HS : s1 = ds ++ rest).
  { destruct (base =? 2); [|destruct (base =? 10)]; apply eat_while_split in ED; exact ED. }
  destruct ((base =? 10) && _ && _) eqn:EI.
  - apply andb_true_iff in EI. destruct EI as [EI _]. apply andb_true_iff in EI. destruct EI as [EI _].
    apply N.eqb_eq in EI. specialize (EP2 EI). subst pfx.
    destruct (eat_while is_identifier_continue rest) as [a rest'] eqn:EA. apply eat_while_split in EA.
    assert (HS2 : s = (ds ++ a) ++ rest') by (rewrite <- app_assoc; cbn in EP1; congruence).
    destruct (lookup keyword_table _) as [k|] eqn:L.
    + apply good_tok_ok; [exact HS2|]. exact (lookup_forallb _ _ _ _ keyword_table_ok L).
    + apply good_tok; [exact HS2|discriminate|discriminate].
  - destruct (negb (base =? 10) && _) eqn:EF.
    { apply andb_true_iff in EF. destruct EF as [_ EF]. destruct ds as [|d0 ds0]; [|discriminate].
      cbn [app] in HS. subst s1.
      destruct (eat_while is_identifier_continue rest) as [a rest'] eqn:EA. apply eat_while_split in EA.
      assert (HS2 : s = (pfx ++ a) ++ rest') by (rewrite <- app_assoc; congruence).
      destruct (lookup keyword_table _) as [k|] eqn:L.
      + apply good_tok_ok; [exact HS2|]. exact (lookup_forallb _ _ _ _ keyword_table_ok L).
      + apply good_tok; [exact HS2|discriminate|discriminate]. }
    assert (HS2 : s = (pfx ++ ds) ++ rest) by (rewrite <- app_assoc; congruence).
    destruct (interpret_ok _ _ _).
    + apply good_tok; [exact HS2| |]; destruct (base =? 2); discriminate.
    + apply good_err. exact HS2.
Qed.

Lemma string_body_good s : forall escaped, good s (string_body escaped s).
Proof.
  induction s as [|c r IH]; intros escaped; cbn [string_body].
  - apply good_err. reflexivity.
  - destruct ((c =? 92) && negb escaped).
    + specialize (IH true). destruct (string_body true r) as [[[k e] a] b].
      cbn in *. destruct IH as [H1 H2]. split; [congruence|exact H2].
    + destruct ((c =? 34) && negb escaped); [apply good_tok; [reflexivity|discriminate|discriminate]|].
      destruct ((c =? 13) || (c =? 10)); [apply good_err; reflexivity|].
      specialize (IH false). destruct (string_body false r) as [[[k e] a] b].
      cbn in *. destruct IH as [H1 H2]. split; [congruence|exact H2].
Qed.

Lemma var_name_good s : good s (var_name s).
Proof.
  unfold var_name. destruct s as [|c r]; [apply good_err; reflexivity|].
  destruct (is_identifier_start c); [|apply good_err; reflexivity].
  destruct (eat_while is_identifier_continue r) as [a rest] eqn:E. apply eat_while_split in E.
  apply good_tok; [cbn; congruence|discriminate|discriminate].
Qed.

Lemma code_fragment_eq s :
  code_fragment s =
  let '(a, rest) := eat_until2 125 93 s in
  if hd_eqb 125 rest && hd_eqb 93 (tl rest) then tok T_CodeFragment (a ++ [125; 93]) (tl (tl rest))
  else err EUnterminatedCode a rest.
Proof.
  unfold code_fragment. destruct (eat_until2 125 93 s) as [a rest].
  apply (match_code_end rest (fun r => tok T_CodeFragment (a ++ [125; 93]) r)).
Qed.

Lemma code_fragment_good s : good s (code_fragment s).
Proof.
  rewrite code_fragment_eq. destruct (eat_until2 125 93 s) as [a rest] eqn:E.
  apply eat_until2_split in E.
  destruct (hd_eqb 125 rest && hd_eqb 93 (tl rest)) eqn:C.
  - apply andb_true_iff in C. destruct C as [C1 C2].
    apply hd_eqb_true in C1. apply hd_eqb_true in C2.
    apply good_tok; [|discriminate|discriminate].
    rewrite <- app_assoc. cbn. rewrite <- C2, <- C1. exact E.
  - apply good_err. exact E.
Qed.

Lemma bangoperator_good s : good s (bangoperator s).
Proof.
  unfold bangoperator. destruct (eat_while is_ascii_alphabetic s) as [a rest] eqn:E.
  apply eat_while_split in E.
  destruct (lookup bangop_table a) as [k|] eqn:L.
  - apply good_tok_ok; [exact E|]. exact (lookup_forallb _ _ _ _ bangop_table_ok L).
  - apply good_err. exact E.
Qed.

Lemma preprocessor_good s : good s (preprocessor s).
Proof.
  unfold preprocessor. destruct (eat_while is_alphabetic s) as [a rest] eqn:E.
  apply eat_while_split in E.
  destruct (lookup directive_table a) as [k|] eqn:L.
  - apply good_tok_ok; [exact E|]. exact (lookup_forallb _ _ _ _ directive_table_ok L).
  - apply good_tok; [reflexivity|discriminate|discriminate].
Qed.

(** * [lex_one] with the literal matches restated (the form later proofs should unfold) *)

Lemma lex_one_eq s :
  lex_one s =
  match s with
  | [] => tok T_Eof [] []
  | c :: r =>
      if is_whitespace c then
        let '(a, rest) := eat_while is_ascii_whitespace r in tok T_Whitespace (c :: a) rest
      else if (c =? 47) && hd_eqb 47 r then
        let '(a, rest) := eat_until is_newline (tl r) in tok T_LineComment (c :: 47 :: a) rest
      else if (c =? 47) && hd_eqb 42 r then
        let '(a, rest) := block_comment O (tl r) in tok T_BlockComment (c :: 42 :: a) rest
      else if is_ascii_digit c then cons_lexeme c (number c r)
      else if c =? 45 then cons_lexeme c (number c r)
      else if c =? 43 then cons_lexeme c (number c r)
      else if is_identifier_start c then cons_lexeme c (identifier c r)
      else if c =? 34 then cons_lexeme c (string_body false r)
      else if c =? 36 then cons_lexeme c (var_name r)
      else if (c =? 91) && hd_eqb 123 r then
        let '(k, e, a, b) := code_fragment (tl r) in (k, e, c :: 123 :: a, b)
      else if c =? 33 then cons_lexeme c (bangoperator r)
      else if c =? 35 then cons_lexeme c (preprocessor r)
      else if c =? 46 then
        (if hd_eqb 46 r then
           (if hd_eqb 46 (tl r) then tok T_DotDotDot [46; 46; 46] (tl (tl r))
            else err EInvalidDotDot [46; 46] (tl r))
         else tok T_Dot [46] r)
      else match lookup1 punct_table c with
      | Some k => tok k [c] r
      | None => err EUnexpectedChar [c] r
      end
  end.
Proof.
  destruct s as [|c r]; [reflexivity|]. unfold lex_one.
  rewrite match47, match42, match123.
  rewrite (match46 r (fun r1 => match r1 with 46 :: r2 => tok T_DotDotDot [46; 46; 46] r2
                                | _ => err EInvalidDotDot [46; 46] r1 end) (tok T_Dot [46] r)).
  rewrite (match46 (tl r) (fun r2 => tok T_DotDotDot [46; 46; 46] r2) (err EInvalidDotDot [46; 46] (tl r))).
  reflexivity.
Qed.

Lemma lex_one_cons_good c r :
  exists k e a' b, lex_one (c :: r) = (k, e, c :: a', b) /\ r = a' ++ b
                   /\ (k = T_Error <-> e <> None) /\ k <> T_Eof.
Proof.
  assert (G : forall res, good r res ->
              exists k e a' b, cons_lexeme c res = (k, e, c :: a', b) /\ r = a' ++ b
                               /\ (k = T_Error <-> e <> None) /\ k <> T_Eof).
  { intros [[[k e] a] b] [H1 [H2 H3]]. exists k, e, a, b. cbn. auto. }
  assert (GT : forall k a b, r = a ++ b -> k <> T_Error -> k <> T_Eof ->
              exists k' e a' b', tok k (c :: a) b = (k', e, c :: a', b') /\ r = a' ++ b'
                               /\ (k' = T_Error <-> e <> None) /\ k' <> T_Eof).
  { intros k a b H1 H2 H3. exists k, None, a, b. split; [reflexivity|]. split; [exact H1|].
    split; [|exact H3]. split; [contradiction|congruence]. }
  assert (GE : forall e a b, r = a ++ b ->
              exists k' e' a' b', err e (c :: a) b = (k', e', c :: a', b') /\ r = a' ++ b'
                               /\ (k' = T_Error <-> e' <> None) /\ k' <> T_Eof).
  { intros e a b H1. exists T_Error, (Some e), a, b. split; [reflexivity|]. split; [exact H1|].
    split; [|discriminate]. split; [discriminate|reflexivity]. }
  rewrite lex_one_eq.
  destruct (is_whitespace c).
  { destruct (eat_while is_ascii_whitespace r) as [a rest] eqn:E. apply eat_while_split in E.
    apply GT; [exact E|discriminate|discriminate]. }
  destruct ((c =? 47) && hd_eqb 47 r) eqn:C1.
  { apply andb_true_iff in C1. destruct C1 as [_ C1]. apply hd_eqb_true in C1.
    destruct (eat_until is_newline (tl r)) as [a rest] eqn:E. apply eat_until_split in E.
    apply (GT T_LineComment (47 :: a) rest); [cbn; congruence|discriminate|discriminate]. }
  destruct ((c =? 47) && hd_eqb 42 r) eqn:C2.
  { apply andb_true_iff in C2. destruct C2 as [_ C2]. apply hd_eqb_true in C2.
    destruct (block_comment 0 (tl r)) as [a rest] eqn:E. apply block_comment_split in E.
    apply (GT T_BlockComment (42 :: a) rest); [cbn; congruence|discriminate|discriminate]. }
  destruct (is_ascii_digit c); [apply G, number_good|].
  destruct (c =? 45); [apply G, number_good|].
  destruct (c =? 43); [apply G, number_good|].
  destruct (is_identifier_start c); [apply G, identifier_good|].
  destruct (c =? 34); [apply G, string_body_good|].
  destruct (c =? 36); [apply G, var_name_good|].
  destruct ((c =? 91) && hd_eqb 123 r) eqn:C3.
  { apply andb_true_iff in C3. destruct C3 as [_ C3]. apply hd_eqb_true in C3.
    pose proof (code_fragment_good (tl r)) as CG.
    destruct (code_fragment (tl r)) as [[[k e] a] b]. destruct CG as [H1 [H2 H3]].
    exists k, e, (123 :: a), b. split; [reflexivity|]. split; [cbn; congruence|]. auto. }
  destruct (c =? 33); [apply G, bangoperator_good|].
  destruct (c =? 35); [apply G, preprocessor_good|].
  destruct (c =? 46) eqn:C46.
  { apply N.eqb_eq in C46. subst c. destruct (hd_eqb 46 r) eqn:D1.
    - apply hd_eqb_true in D1. destruct (hd_eqb 46 (tl r)) eqn:D2.
      + apply hd_eqb_true in D2.
        apply (GT T_DotDotDot [46; 46] (tl (tl r))); [cbn; congruence|discriminate|discriminate].
      + apply (GE EInvalidDotDot [46] (tl r)). cbn; congruence.
    - apply (GT T_Dot [] r); [reflexivity|discriminate|discriminate]. }
  destruct (lookup1 punct_table c) as [k|] eqn:L.
  - pose proof (lookup1_forallb _ _ _ _ punct_table_ok L) as K. apply kind_ok_spec in K. destruct K.
    apply (GT k [] r); [reflexivity|assumption|assumption].
  - apply (GE EUnexpectedChar [] r). reflexivity.
Qed.

(** * The requested basic lemmas *)

Lemma lex_one_nil : lex_one [] = (T_Eof, None, [], []).
Proof. reflexivity. Qed.

Lemma lex_one_split : forall s k e a r, lex_one s = (k, e, a, r) -> s = a ++ r.
Proof.
  intros s k e a r H. destruct s as [|c s'].
  - cbn in H. inversion H; reflexivity.
  - destruct (lex_one_cons_good c s') as (k' & e' & a' & b' & H1 & H2 & _).
    rewrite H1 in H. inversion H; subst. reflexivity.
Qed.

Lemma lex_one_progress : forall s k e a r, lex_one s = (k, e, a, r) -> s <> [] -> a <> [] /\ k <> T_Eof.
Proof.
  intros s k e a r H NE. destruct s as [|c s']; [contradiction|].
  destruct (lex_one_cons_good c s') as (k' & e' & a' & b' & H1 & _ & _ & H4).
  rewrite H1 in H. inversion H; subst. split; [discriminate|exact H4].
Qed.

Lemma lex_one_err : forall s k e a r, lex_one s = (k, e, a, r) -> (k = T_Error <-> e <> None).
Proof.
  intros s k e a r H. destruct s as [|c s'].
  - cbn in H. inversion H; subst. split; [discriminate|congruence].
  - destruct (lex_one_cons_good c s') as (k' & e' & a' & b' & H1 & _ & H3 & _).
    rewrite H1 in H. inversion H; subst. exact H3.
Qed.

Lemma lex_one_eof_inv s k e a r : lex_one s = (k, e, a, r) -> k = T_Eof -> s = [] /\ e = None /\ a = [] /\ r = [].
Proof.
  intros H K. destruct s as [|c s'].
  - cbn in H. inversion H; auto.
  - exfalso. eapply lex_one_progress in H; [|discriminate]. tauto.
Qed.

Lemma lex_one_shorter s k e a r : lex_one s = (k, e, a, r) -> s <> [] -> (List.length r < List.length s)%nat.
Proof.
  intros H NE. pose proof (lex_one_split _ _ _ _ _ H) as S. pose proof (lex_one_progress _ _ _ _ _ H NE) as [P _].
  subst s. rewrite app_length. destruct a; [contradiction|cbn; lia].
Qed.

(** * [lex_all] / [lex_text] without fuel *)

Lemma tk_eqb_refl k : tk_eqb k k = true.
Proof. apply N.eqb_refl. Qed.

Lemma tk_index_nth k : nth_error all_token_kinds (N.to_nat (tk_index k)) = Some k.
Proof. destruct k; vm_compute; reflexivity. Qed.

Lemma tk_eqb_eq a b : tk_eqb a b = true -> a = b.
Proof.
  unfold tk_eqb. intros H. apply N.eqb_eq in H.
  pose proof (tk_index_nth a) as Ha. rewrite H, tk_index_nth in Ha. congruence.
Qed.

Lemma tk_eqb_neq a b : tk_eqb a b = false -> a <> b.
Proof. intros H ->. rewrite tk_eqb_refl in H. discriminate. Qed.

Lemma tk_eqb_eof k : tk_eqb k T_Eof = true -> k = T_Eof.
Proof. apply tk_eqb_eq. Qed.

Lemma lex_all_unfold n s :
  lex_all (S n) s =
  let '(k, e, a, rest) := lex_one s in
  if tk_eqb k T_Eof then [(k, e, a)] else (k, e, a) :: lex_all n rest.
Proof. cbn [lex_all]. destruct (lex_one s) as [[[k e] a] rest]. destruct k; reflexivity. Qed.

(** relational characterisation of the token list of a text *)
Inductive lexes : text -> list (TokenKind * option lex_err * text) -> Prop :=
| lexes_nil : lexes [] [(T_Eof, None, [])]
| lexes_cons s k e a r l : s <> [] -> lex_one s = (k, e, a, r) -> lexes r l -> lexes s ((k, e, a) :: l).

Lemma lex_all_lexes n : forall s, (List.length s < n)%nat -> lexes s (lex_all n s).
Proof.
  induction n as [|n IH]; intros s L; [lia|].
  rewrite lex_all_unfold. destruct (lex_one s) as [[[k e] a] rest] eqn:E.
  destruct s as [|c s'].
  - cbn in E. inversion E; subst. cbn. constructor.
  - pose proof (lex_one_progress _ _ _ _ _ E ltac:(discriminate)) as [_ K].
    destruct (tk_eqb k T_Eof) eqn:T; [apply tk_eqb_eof in T; contradiction|].
    eapply lexes_cons; [discriminate|exact E|].
    apply IH. pose proof (lex_one_shorter _ _ _ _ _ E ltac:(discriminate)). lia.
Qed.

Lemma lex_text_lexes s : lexes s (lex_text s).
Proof. apply lex_all_lexes. lia. Qed.

Lemma lexes_fun s l1 : lexes s l1 -> forall l2, lexes s l2 -> l1 = l2.
Proof.
  induction 1 as [|s k e a r l NE E _ IH]; intros l2 H2; inversion H2; subst; try congruence.
  match goal with H : lex_one s = _ |- _ => rewrite E in H; inversion H; subst end.
  f_equal. apply IH. assumption.
Qed.

Lemma lexes_lex_text s l : lexes s l -> lex_text s = l.
Proof. intros H. exact (lexes_fun _ _ (lex_text_lexes s) _ H). Qed.

(** * The raw token list of the preprocessor model *)

Definition mk_rtok (x : TokenKind * option lex_err * text) : rtok :=
  let '(k, e, a) := x in {| rk := k; rerr := e; rtext := a |}.

Lemma raw_lex_eq s :
  raw_lex s = filter (fun t => negb (tk_eqb (rk t) T_Eof)) (map mk_rtok (lex_text s)).
Proof. reflexivity. Qed.

Lemma lexes_raw s l :
  lexes s l ->
  let raw := filter (fun t => negb (tk_eqb (rk t) T_Eof)) (map mk_rtok l) in
  concat (map rtext raw) = s
  /\ Forall (fun t => rk t <> T_Eof) raw
  /\ Forall (fun t => rtext t <> []) raw
  /\ Forall (fun t => rk t = T_Error <-> rerr t <> None) raw.
Proof.
  induction 1 as [|s k e a r l NE E _ IH].
  - cbn. repeat split; constructor.
  - cbn zeta in IH. destruct IH as (I1 & I2 & I3 & I4).
    pose proof (lex_one_progress _ _ _ _ _ E NE) as [PA PK].
    pose proof (lex_one_split _ _ _ _ _ E) as SP.
    pose proof (lex_one_err _ _ _ _ _ E) as ER.
    cbn [map filter mk_rtok rk].
    destruct (tk_eqb k T_Eof) eqn:T; [apply tk_eqb_eof in T; contradiction|].
    cbn [negb map concat rtext].
    repeat split.
    + rewrite I1. symmetry. exact SP.
    + constructor; [exact PK|exact I2].
    + constructor; [exact PA|exact I3].
    + constructor; [exact ER|exact I4].
Qed.

Lemma raw_lex_concat : forall s, concat (map rtext (raw_lex s)) = s.
Proof. intros s. rewrite raw_lex_eq. exact (proj1 (lexes_raw _ _ (lex_text_lexes s))). Qed.

Lemma raw_lex_no_eof : forall s, Forall (fun t => rk t <> T_Eof) (raw_lex s).
Proof. intros s. rewrite raw_lex_eq. exact (proj1 (proj2 (lexes_raw _ _ (lex_text_lexes s)))). Qed.

Lemma raw_lex_nonempty : forall s, Forall (fun t => rtext t <> []) (raw_lex s).
Proof. intros s. rewrite raw_lex_eq. exact (proj1 (proj2 (proj2 (lexes_raw _ _ (lex_text_lexes s))))). Qed.

Lemma raw_lex_err : forall s, Forall (fun t => rk t = T_Error <-> rerr t <> None) (raw_lex s).
Proof. intros s. rewrite raw_lex_eq. exact (proj2 (proj2 (proj2 (lexes_raw _ _ (lex_text_lexes s))))). Qed.
