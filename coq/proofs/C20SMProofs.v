(** C20 over the symbol table: for EVERY op log that replays ([run_ops ops = SOk S]) the class items offered in a
    parent-class position are exactly the class records currently registered by name (last declaration of a name wins),
    each with one snippet tab stop per template argument of THAT record. *)
From Coq Require Import List NArith Bool Lia PeanoNat.
From TG.Gen Require Import GenTokens GenCompletion.
From TG.Model Require Import Chars Tree SymbolMap Completion CompletionSM.
From TG.Proofs Require Import SymbolMapBasics SymbolOps C20Proofs.
Import ListNotations.
Open Scope list_scope.

(** * association lists *)
Lemma amap_get_insert {V} (m : list (name * V)) k v k' :
  amap_get (amap_insert m k v) k' = if list_eqb k k' then Some v else amap_get m k'.
Proof.
  unfold amap_get. induction m as [|[k0 v0] m IH]; cbn.
  - reflexivity.
  - destruct (list_eqb k0 k) eqn:E.
    + apply list_eqb_eq in E. subst k0. cbn. destruct (list_eqb k k'); reflexivity.
    + cbn. destruct (list_eqb k0 k') eqn:E2.
      * destruct (list_eqb k k') eqn:E3; [|reflexivity].
        apply list_eqb_eq in E2. apply list_eqb_eq in E3. subst. rewrite list_eqb_refl in E. discriminate.
      * exact IH.
Qed.

Lemma amap_insert_keys {V} (m : list (name * V)) k v k' :
  In k' (map fst (amap_insert m k v)) <-> k' = k \/ In k' (map fst m).
Proof.
  induction m as [|[k0 v0] m IH]; cbn.
  - intuition.
  - destruct (list_eqb k0 k) eqn:E; cbn.
    + apply list_eqb_eq in E. subst. intuition.
    + rewrite IH. intuition.
Qed.
Lemma amap_insert_nodup {V} (m : list (name * V)) k v :
  NoDup (map fst m) -> NoDup (map fst (amap_insert m k v)).
Proof.
  induction m as [|[k0 v0] m IH]; cbn; intros H.
  - constructor; [intros []|constructor].
  - inversion H as [|? ? Hn Hd]; subst. destruct (list_eqb k0 k) eqn:E; cbn.
    + constructor; auto.
    + constructor; auto. rewrite amap_insert_keys. intros [->|Hin]; [|contradiction].
      rewrite list_eqb_refl in E. discriminate.
Qed.
Lemma amap_In_get {V} (m : list (name * V)) k v :
  NoDup (map fst m) -> In (k, v) m -> amap_get m k = Some v.
Proof.
  unfold amap_get. induction m as [|[k0 v0] m IH]; cbn; intros Hn Hin; [contradiction|].
  inversion Hn as [|? ? Hk Hd]; subst. destruct Hin as [E|Hin].
  - inversion E. subst. now rewrite list_eqb_refl.
  - destruct (list_eqb k0 k) eqn:E.
    + apply list_eqb_eq in E. subst. exfalso. apply Hk. apply in_map_iff. exists (k, v). auto.
    + auto.
Qed.
Lemma amap_get_In {V} (m : list (name * V)) k v : amap_get m k = Some v -> In (k, v) m.
Proof. apply lookup_In. Qed.

(** * what one op does to name_to_class *)
Lemma ntc_set_arena S k l : sm_name_to_class (set_arena S k l) = sm_name_to_class S.
Proof. destruct k; reflexivity. Qed.
Lemma ntc_add_to_pos S loc s S' : add_to_pos S loc s = SOk S' -> sm_name_to_class S' = sm_name_to_class S.
Proof. intros H. apply add_to_pos_spec in H. tauto. Qed.
Lemma ntc_add_symbol S k e fl ip logged S' :
  add_symbol S k e fl ip logged = SOk S' -> sm_name_to_class S' = sm_name_to_class S /\ logged = next_id S k.
Proof.
  unfold add_symbol, alloc. cbn. unfold check_id.
  destruct (N.eqb logged (next_id S k)) eqn:E; cbn; [|discriminate].
  apply N.eqb_eq in E. intros H. split; auto.
  destruct fl, ip; cbn in H.
  - apply ntc_add_to_pos in H. rewrite H. unfold push_file_sym. cbn. apply ntc_set_arena.
  - inversion H. unfold push_file_sym. cbn. apply ntc_set_arena.
  - apply ntc_add_to_pos in H. rewrite H. apply ntc_set_arena.
  - inversion H. apply ntc_set_arena.
Qed.
Lemma ntc_with_cur S k f S' : with_cur S k f = SOk S' -> sm_name_to_class S' = sm_name_to_class S.
Proof.
  unfold with_cur. destruct (sm_cur S) as [[k' id]|]; try discriminate.
  destruct (sym_kind_eqb k k'); try discriminate.
  destruct (get_entry S (k, id)); try discriminate.
  intros H. inversion H. unfold update_entry. apply ntc_set_arena.
Qed.
Lemma ntc_borrow_mut S s S' : borrow_mut S s = SOk S' -> sm_name_to_class S' = sm_name_to_class S.
Proof. unfold borrow_mut. destruct (get_entry S s); try discriminate. intros H. inversion H. reflexivity. Qed.

Definition ntc_after (S : symbol_map) (o : op) : list (name * N) :=
  match o with
  | OpAddRecord n RKClass _ _ _ => amap_insert (sm_name_to_class S) n (next_id S KRecord)
  | _ => sm_name_to_class S
  end.
Lemma next_id_set_ntc S m k : next_id (set_name_to_class S m) k = next_id S k.
Proof. destruct k; reflexivity. Qed.
Lemma next_id_set_ntd S m k : next_id (set_name_to_def S m) k = next_id S k.
Proof. destruct k; reflexivity. Qed.

Lemma ntc_apply_op S o S' : apply_op S o = SOk S' ->
  sm_name_to_class S' = ntc_after S o /\
  (forall n k loc g id, o = OpAddRecord n k loc g id -> id = next_id S KRecord).
Proof.
  intros H. destruct o; cbn [apply_op ntc_after] in *;
    try (split; [|intros; discriminate]).
  - destruct k.
    + apply ntc_add_symbol in H as [H1 H2]. rewrite next_id_set_ntc in H2. split.
      * rewrite H1. reflexivity.
      * intros ? ? ? ? ? E. inversion E. congruence.
    + apply ntc_add_symbol in H as [H1 H2]. rewrite next_id_set_ntd in H2. split.
      * rewrite H1. reflexivity.
      * intros ? ? ? ? ? E. inversion E. congruence.
  - apply ntc_add_symbol in H. tauto.
  - apply ntc_add_symbol in H. tauto.
  - apply ntc_add_symbol in H. tauto.
  - apply ntc_add_symbol in H. tauto.
  - apply ntc_add_symbol in H. destruct H as [H _]. rewrite H. reflexivity.
  - apply ntc_add_symbol in H. destruct H as [H _]. rewrite H. reflexivity.
  - apply ntc_add_symbol in H. tauto.
  - apply ntc_add_symbol in H. tauto.
  - destruct (get_entry S s); try discriminate. apply ntc_add_to_pos in H. rewrite H. unfold update_entry. apply ntc_set_arena.
  - eapply ntc_borrow_mut; eauto.
  - eapply ntc_borrow_mut; eauto.
  - eapply ntc_borrow_mut; eauto.
  - eapply ntc_borrow_mut; eauto.
  - eapply ntc_with_cur; eauto.
  - eapply ntc_with_cur; eauto.
  - eapply ntc_with_cur; eauto.
  - eapply ntc_with_cur; eauto.
  - eapply ntc_with_cur; eauto.
  - eapply ntc_with_cur; eauto.
  - eapply ntc_with_cur; eauto.
  - inversion H. reflexivity.
Qed.

(** * what one op does to an existing record entry *)
Lemma get_entry_fresh S k : get_entry S (k, next_id S k) = None.
Proof.
  unfold get_entry, next_id. cbn [fst snd].
  destruct (nth_N (get_arena S k) (len_N (get_arena S k))) eqn:E; auto.
  assert (H : (len_N (get_arena S k) < len_N (get_arena S k))%N) by (apply nth_N_some_lt; eauto). lia.
Qed.

(** relation between the entry of a record before and after one step *)
Definition entry_step (e0 e' : entry) : Prop :=
  e_name e' = e_name e0 /\ p_record_kind (e_payload e') = p_record_kind (e_payload e0) /\
  (p_targs (e_payload e') = p_targs (e_payload e0) \/
   exists n a, p_targs (e_payload e') = amap_insert (p_targs (e_payload e0)) n a).
Lemma entry_step_refl e : entry_step e e.
Proof. repeat split; auto. Qed.

Lemma upd_step (g : payload -> payload) e0 :
  (forall p, p_record_kind (g p) = p_record_kind p /\
             (p_targs (g p) = p_targs p \/ exists n a, p_targs (g p) = amap_insert (p_targs p) n a)) ->
  entry_step e0 (upd_payload g e0).
Proof. intros H. unfold entry_step, upd_payload. cbn. destruct (H (e_payload e0)). auto. Qed.

Lemma record_entry_step S o S' : apply_op S o = SOk S' ->
  forall id e0, get_entry S (KRecord, id) = Some e0 ->
  exists e', get_entry S' (KRecord, id) = Some e' /\ entry_step e0 e'.
Proof.
  intros H id e0 H0. pose proof (apply_op_spec S o S' H) as (Ha & _ & _). unfold arenas_after in Ha.
  destruct (op_alloc o) as [[[k e] b]|] eqn:Eo.
  - destruct Ha as [Ha _]. rewrite Ha.
    destruct (sid_eqb (KRecord, id) (k, next_id S k)) eqn:E.
    + apply sid_eqb_eq in E. inversion E. subst. rewrite get_entry_fresh in H0. discriminate.
    + exists e0. split; auto. apply entry_step_refl.
  - destruct (op_update S o) as [[s f]|] eqn:Eu.
    + destruct Ha as (_ & Ha & _). rewrite Ha.
      destruct (sid_eqb s (KRecord, id)) eqn:E.
      * rewrite H0. cbn. exists (f e0). split; auto.
        destruct o; cbn [op_update] in Eu; try discriminate;
          try (destruct (cur_target S _); cbn in Eu; [|discriminate]); inversion Eu; subst f;
          try (apply upd_step; intros p; destruct p; cbn; auto; fail).
        -- (* add_reference *) unfold push_ref, entry_step. cbn. auto.
        -- (* record.add_template_arg *) apply upd_step. intros p; destruct p; cbn; eauto.
        -- (* multiclass.add_template_arg *) apply upd_step. intros p; destruct p; cbn; eauto.
      * exists e0. split; auto. apply entry_step_refl.
    + exists e0. split; [|apply entry_step_refl].
      unfold get_entry in *. cbn [fst snd] in *. now rewrite (Ha KRecord).
Qed.

(** * the invariants *)
Definition rec_ok (S : symbol_map) (n : name) (id : N) : Prop :=
  exists e, get_entry S (KRecord, id) = Some e /\ e_name e = n /\ p_record_kind (e_payload e) = Some RKClass.
Definition class_inv (S : symbol_map) : Prop :=
  NoDup (map fst (sm_name_to_class S)) /\
  (forall n id, amap_get (sm_name_to_class S) n = Some id -> rec_ok S n id) /\
  (forall id e, get_entry S (KRecord, id) = Some e -> NoDup (map fst (p_targs (e_payload e)))).

Lemma class_inv_empty : class_inv sm_empty.
Proof.
  split; [constructor|]. split.
  - intros n id H. discriminate.
  - intros id e H. unfold get_entry, nth_N in H. cbn in H. destruct (N.to_nat id); discriminate.
Qed.

Lemma class_inv_step S o S' : class_inv S -> apply_op S o = SOk S' -> class_inv S'.
Proof.
  intros (I1 & I2 & I3) H. destruct (ntc_apply_op S o S' H) as (Hn & Hid).
  pose proof (apply_op_spec S o S' H) as (Ha & _ & _).
  split; [|split].
  - rewrite Hn. unfold ntc_after. destruct o; auto. destruct k; auto. now apply amap_insert_nodup.
  - intros n id Hg. rewrite Hn in Hg.
    assert (Old : amap_get (sm_name_to_class S) n = Some id -> rec_ok S' n id).
    { intros Hg0. destruct (I2 n id Hg0) as (e0 & E0 & N0 & K0).
      destruct (record_entry_step S o S' H id e0 E0) as (e' & E' & (Sn & Sk & _)).
      exists e'. repeat split; auto; congruence. }
    unfold ntc_after in Hg. destruct o; auto. destruct k; auto.
    rewrite amap_get_insert in Hg. destruct (list_eqb n0 n) eqn:E; auto.
    apply list_eqb_eq in E. subst n0. inversion Hg. subst id.
    unfold arenas_after in Ha. cbn [op_alloc] in Ha. destruct Ha as [Ha _].
    eexists. split; [rewrite Ha, (proj2 (sid_eqb_eq _ _) eq_refl); reflexivity|]. cbn. auto.
  - intros id e' E'.
    destruct (get_entry S (KRecord, id)) as [e0|] eqn:E0.
    + destruct (record_entry_step S o S' H id e0 E0) as (e2 & E2 & (_ & _ & St)).
      rewrite E' in E2. inversion E2. subst e2. specialize (I3 id e0 E0).
      destruct St as [->|(n & a & ->)]; auto. now apply amap_insert_nodup.
    + (* a record allocated by this op: no template argument yet *)
      unfold arenas_after in Ha. destruct (op_alloc o) as [[[k e] b]|] eqn:Eo.
      * destruct Ha as [Ha _]. rewrite Ha in E'.
        destruct (sid_eqb (KRecord, id) (k, next_id S k)); [|congruence].
        inversion E'. subst e'. destruct o; cbn in Eo; inversion Eo; cbn; constructor.
      * destruct (op_update S o) as [[s f]|].
        -- destruct Ha as (_ & Ha & _). rewrite Ha in E'. destruct (sid_eqb s (KRecord, id)); rewrite E0 in E'; discriminate.
        -- unfold get_entry in *. cbn [fst snd] in *. rewrite (Ha KRecord) in E'. congruence.
Qed.

Lemma class_inv_run : forall ops S S', class_inv S -> run_ops_from S ops = SOk S' -> class_inv S'.
Proof.
  induction ops as [|o ops IH]; intros S S' I H; cbn in H.
  - inversion H. now subst.
  - destruct (apply_op S o) as [S1|] eqn:E; cbn in H; [|discriminate].
    eapply IH; [|exact H]. eapply class_inv_step; eauto.
Qed.

(** * last declaration wins *)
Lemma last_decl_run : forall ops S S' n, run_ops_from S ops = SOk S' ->
  amap_get (sm_name_to_class S') n = last_class_decl ops n (amap_get (sm_name_to_class S) n).
Proof.
  induction ops as [|o ops IH]; intros S S' n H; cbn in H.
  - inversion H. reflexivity.
  - destruct (apply_op S o) as [S1|] eqn:E; cbn in H; [|discriminate].
    rewrite (IH S1 S' n H). destruct (ntc_apply_op S o S1 E) as (Hn & Hid). rewrite Hn.
    destruct o; cbn [last_class_decl ntc_after]; auto. destruct k; auto.
    rewrite amap_get_insert, <- (Hid _ _ _ _ _ eq_refl). reflexivity.
Qed.

(** * the class symbols of a reachable state *)
Definition sym_matches (S : symbol_map) (nid : name * N) (c : class_sym) : Prop :=
  cs_name c = fst nid /\ record_kind_of S (snd nid) = Some RKClass /\
  cs_ntargs c = List.length (record_targs S (snd nid)) /\ NoDup (map fst (record_targs S (snd nid))).

Lemma class_syms_of_spec S : class_inv S -> forall m, incl m (sm_name_to_class S) ->
  exists cl, class_syms_of S (map snd m) = SOk cl /\ Forall2 (sym_matches S) m cl.
Proof.
  intros (I1 & I2 & I3). induction m as [|[n id] m IH]; intros Hi.
  - exists []. split; [reflexivity|constructor].
  - destruct IH as (cl & E & F); [intros x Hx; apply Hi; now right|].
    assert (Hg : amap_get (sm_name_to_class S) n = Some id) by (apply amap_In_get; auto; apply Hi; now left).
    destruct (I2 n id Hg) as (e & Ee & En & Ek).
    exists (class_sym_of e :: cl). split.
    + cbn [map class_syms_of snd]. unfold record, symbol. rewrite Ee. cbn [sbind]. rewrite E. reflexivity.
    + constructor; auto. unfold sym_matches, record_kind_of, record_targs. cbn [fst snd]. rewrite Ee.
      repeat split; auto. eapply I3; eauto.
Qed.

Lemma keys_get {V} (m : list (name * V)) n : In n (map fst m) <-> amap_get m n <> None.
Proof.
  unfold amap_get. induction m as [|[k v] m IH]; cbn.
  - split; [intros []|congruence].
  - destruct (list_eqb k n) eqn:E.
    + apply list_eqb_eq in E. subst. split; [discriminate|auto].
    + rewrite <- IH. split; [intros [->|H]; auto; rewrite list_eqb_refl in E; discriminate|auto].
Qed.

Theorem sm_classes_exact ops S : run_ops ops = SOk S ->
  exists cl, class_syms S = SOk cl /\
    Forall2 (sym_matches S) (sm_name_to_class S) cl /\
    NoDup (map cs_name cl) /\
    (forall n, In n (map cs_name cl) <-> last_class_decl ops n None <> None) /\
    (forall n id, In (n, id) (sm_name_to_class S) <-> last_class_decl ops n None = Some id).
Proof.
  intros H. assert (I : class_inv S) by (eapply class_inv_run; [apply class_inv_empty|exact H]).
  destruct (class_syms_of_spec S I (sm_name_to_class S) (incl_refl _)) as (cl & E & F).
  exists cl. split; [exact E|]. split; [exact F|].
  assert (Hn : map cs_name cl = map fst (sm_name_to_class S)).
  { clear E. induction F as [|x c l l' (A & _) _ IH]; cbn; auto. now rewrite A, IH. }
  assert (L : forall n, amap_get (sm_name_to_class S) n = last_class_decl ops n None).
  { intros n. exact (last_decl_run ops sm_empty S n H). }
  split; [rewrite Hn; apply I|]. split.
  - intros n. rewrite Hn, keys_get, L. reflexivity.
  - intros n id. rewrite <- L. split; [apply amap_In_get, I|apply amap_get_In].
Qed.

(** completion in a parent-class position over a reachable state *)
Theorem sm_completion ops S tr off p rest : run_ops ops = SOk S ->
  ancestors_at tr off = Some (p :: S_ClassRef :: rest) ->
  exists cl, completion_sm S tr off None = SOk (Some (map class_item cl)) /\
             Forall2 (sym_matches S) (sm_name_to_class S) cl.
Proof.
  intros H Ha. destruct (sm_classes_exact ops S H) as (cl & E & F & _).
  exists cl. split; auto. unfold completion_sm. rewrite E. cbn [sbind].
  destruct (C20_classes_proof cl tr off p rest Ha) as (Hc & _). rewrite Hc. reflexivity.
Qed.

(** one tab stop per template argument of THAT record *)
Theorem sm_placeholders S nid c : sym_matches S nid c -> ~ In 36%N (fst nid) ->
  item_label (class_item c) = fst nid /\
  tabstops (class_snippet c) = map N.of_nat (seq 1 (List.length (record_targs S (snd nid)))) ++ [0%N].
Proof.
  intros (A & _ & B & _) Hd. split; [exact A|]. rewrite <- B. apply C20_class_placeholders_proof. now rewrite A.
Qed.
