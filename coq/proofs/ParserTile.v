(** G-tile, primitive level: the tiling invariant of the hand model of parser.rs (ParserPrims.v).

    In every parser state reachable through the primitives
        texts pushed to the green-tree builder ++ text of the look-ahead ++ unread source = input,
    the look-ahead range [cur_lo, cur_hi) is the running byte position, the unread source is the
    concatenation of the unread raw tokens of the lexer, an Error look-ahead has a message pending in
    the preprocessor/lexer slot, the fuel handed to [p_skip] never runs out, and every recorded error
    range is a pair of character boundaries of the input.  The builder operations start_node /
    start_node_at / finish_node only regroup children. *)
From Coq Require Import List Arith NArith Bool Lia.
From TG.Gen Require Import GenTokens GenLexTables.
From TG.Model Require Import Chars Lexer Prep Tree ParserPrims.
From TG.Proofs Require Import LexBasics PrepBasics.
Import ListNotations.
Open Scope N_scope.

(** * Texts and byte lengths *)

Lemma utf8_len_pos c : 0 < utf8_len c.
Proof. unfold utf8_len. destruct (c <? 128); [lia|]. destruct (c <? 2048); [lia|]. destruct (c <? 65536); lia. Qed.

Lemma bytes_app a b : bytes (a ++ b) = bytes a + bytes b.
Proof. induction a as [|c a IH]; cbn [app bytes]; [reflexivity|]. rewrite IH. lia. Qed.

Lemma bytes_nil_inv t : bytes t = 0 -> t = [].
Proof. destruct t as [|c r]; [reflexivity|]. cbn [bytes]. pose proof (utf8_len_pos c). lia. Qed.

Lemma take_bytes_app a : forall b, take_bytes (bytes a) (a ++ b) = (a, b).
Proof.
  induction a as [|c a IH]; intros b.
  - cbn [bytes app]. destruct b as [|d b]; reflexivity.
  - cbn [bytes app take_bytes]. pose proof (utf8_len_pos c) as P.
    destruct (utf8_len c + bytes a =? 0) eqn:E; [apply N.eqb_eq in E; lia|].
    replace (utf8_len c + bytes a - utf8_len c) with (bytes a) by lia.
    rewrite IH. reflexivity.
Qed.

Lemma raw_text_app a b : raw_text (a ++ b) = raw_text a ++ raw_text b.
Proof. unfold raw_text. rewrite map_app, concat_app. reflexivity. Qed.

Lemma bytes_raw_text l : bytes (raw_text l) = fold_right (fun t a => rlen t + a) 0 l.
Proof.
  induction l as [|t l IH]; [reflexivity|].
  unfold raw_text in *. cbn [map fold_right]. rewrite concat_cons, bytes_app, IH. reflexivity.
Qed.

(** a byte offset that falls between two characters of [txt] *)
Definition on_char_boundary (txt : text) (off : N) : Prop := exists k, off = bytes (firstn k txt).

Lemma boundary_prefix a b : on_char_boundary (a ++ b) (bytes a).
Proof. exists (List.length a). rewrite firstn_app, firstn_all, Nat.sub_diag. cbn. rewrite app_nil_r. reflexivity. Qed.

Lemma bytes_firstn_le k : forall t, bytes (firstn k t) <= bytes t.
Proof. induction k as [|k IH]; intros [|c r]; cbn [firstn bytes]; try lia. specialize (IH r). lia. Qed.

Lemma boundary_le txt off : on_char_boundary txt off -> off <= bytes txt.
Proof. intros [k ->]. apply bytes_firstn_le. Qed.

(** * The builder only regroups *)

Definition forest_text (cs : list tree) : text := concat (map tree_text cs).

Lemma tree_text_node k cs : tree_text (Node k cs) = forest_text cs.
Proof.
  cbn [tree_text]. unfold forest_text.
  induction cs as [|c r IH]; [reflexivity|]. cbn [map concat]. rewrite <- IH. reflexivity.
Qed.

Lemma forest_text_app a b : forest_text (a ++ b) = forest_text a ++ forest_text b.
Proof. unfold forest_text. rewrite map_app, concat_app. reflexivity. Qed.

(** text of everything handed to the builder so far, in order *)
Definition pushed (b : builder) : text := forest_text (rev (children b)).

Lemma pushed_init : pushed builder_init = [].
Proof. reflexivity. Qed.

Lemma pushed_token b k t : pushed (b_token b k t) = pushed b ++ t.
Proof. unfold pushed, b_token. cbn [children rev]. rewrite forest_text_app. unfold forest_text at 2. cbn. rewrite app_nil_r. reflexivity. Qed.

Lemma pushed_start_node b k : pushed (b_start_node b k) = pushed b.
Proof. reflexivity. Qed.

Lemma pushed_start_node_at b cp k b' : b_start_node_at b cp k = Some b' -> pushed b' = pushed b.
Proof.
  unfold b_start_node_at. destruct (Nat.leb cp _); [|discriminate].
  destruct (parents b) as [|[k0 first] ps].
  - intros H; inversion H; reflexivity.
  - destruct (Nat.leb first cp); [|discriminate]. intros H; inversion H; reflexivity.
Qed.

Lemma pushed_finish_node b b' : b_finish_node b = Some b' -> pushed b' = pushed b.
Proof.
  unfold b_finish_node. destruct (parents b) as [|[k first] ps]; [discriminate|].
  intros H; inversion H; subst; clear H. unfold pushed. cbn [children rev].
  set (n := (List.length (children b) - first)%nat).
  rewrite forest_text_app. unfold forest_text at 2. cbn [map concat]. rewrite app_nil_r, tree_text_node.
  rewrite <- forest_text_app, <- rev_app_distr, firstn_skipn. reflexivity.
Qed.

Lemma pushed_finish b t : b_finish b = Some t -> tree_text t = pushed b.
Proof.
  unfold b_finish, pushed. destruct (children b) as [|c r]; [discriminate|].
  destruct c as [k cs|k tx]; [|discriminate]. destruct r; [|discriminate].
  intros H. assert (t = Node k cs) by (destruct (parents b); congruence). subst t.
  cbn [rev app]. unfold forest_text. cbn [map concat]. rewrite app_nil_r. reflexivity.
Qed.

(** * The invariant *)

Definition err_ok (txt : text) (e : N * N * parse_msg) : Prop :=
  let '(lo, hi, _) := e in
  exists a b c, txt = a ++ b ++ c /\ lo = bytes a /\ hi = bytes a + bytes b.

Definition raw_ok (r : list rtok) : Prop :=
  Forall (fun t => rk t <> T_Eof) r /\
  Forall (fun t => rk t = T_Error <-> rerr t <> None) r /\
  Forall (fun t => rtext t <> []) r.

(** state between [save] and [lex]: the look-ahead has been handed to the builder *)
Record Pre (txt : text) (s : pst) : Prop := {
  p_text : pushed (bld s) ++ src s = txt;
  p_src : src s = raw_text (raw s);
  p_cursor : cursor s = bytes (pushed (bld s));
  p_raw : raw_ok (raw s);
  p_errs : Forall (err_ok txt) (errs s)
}.

Record Tile (txt : text) (s : pst) : Prop := {
  t_text : pushed (bld s) ++ cur_text s ++ src s = txt;
  t_src : src s = raw_text (raw s);
  t_lo : cur_lo s = bytes (pushed (bld s));
  t_cursor : cursor s = cur_lo s + bytes (cur_text s);
  t_eof : cur s = T_Eof -> raw s = [] /\ cur_text s = [];
  t_raw : raw_ok (raw s);
  t_errmsg : cur s = T_Error -> fst (take_error (pp s)) <> None;
  t_errs : Forall (err_ok txt) (errs s)
}.

Lemma raw_ok_app a b : raw_ok (a ++ b) -> raw_ok b.
Proof. intros (H1 & H2 & H3). apply Forall_app in H1, H2, H3. unfold raw_ok. tauto. Qed.

Lemma raw_ok_lex txt : raw_ok (raw_lex txt).
Proof. repeat split; [apply raw_lex_no_eof|apply raw_lex_err|apply raw_lex_nonempty]. Qed.

(** the preprocessor delivers Eof only when the raw tokens are exhausted *)
Lemma prep_next_eof st raw len st' raw' :
  Forall (fun t => rk t <> T_Eof) raw -> prep_next st raw = (T_Eof, len, st', raw') -> raw = [].
Proof.
  intros F H. destruct raw as [|t r]; [reflexivity|]. exfalso.
  inversion F as [|t0 r0 Ft Fr]; subst.
  rewrite prep_next_eq, raw_eat_cons in H.
  assert (PIF : forall w, process_if t (note_err st t) r w = (T_Eof, len, st', raw') -> False).
  { intros w H'. unfold process_if in H'.
    destruct (next_not_trivia (note_err st t) r 0) as [[[n sk] st2] r2].
    cbv zeta in H'. destruct (tk_eqb (rk n) T_Id).
    - destruct (Bool.eqb w _); [discriminate|].
      destruct (eat_until_else_or_endif 1 _ r2 0) as [[eaten st4] r3]. discriminate.
    - discriminate. }
  destruct (tk_eqb (rk t) T_Ifdef); [eapply PIF; exact H|].
  destruct (tk_eqb (rk t) T_Ifndef); [eapply PIF; exact H|].
  destruct (tk_eqb (rk t) T_Else).
  { unfold process_else in H. destruct (eat_until_else_or_endif 1 _ r 0) as [[eaten st2] r2]. discriminate. }
  destruct (tk_eqb (rk t) T_Endif); [discriminate|].
  destruct (tk_eqb (rk t) T_Define).
  { unfold process_define in H. destruct (next_not_trivia (note_err st t) r 0) as [[[n sk] st2] r2].
    cbv zeta in H. destruct (tk_eqb (rk n) T_Id); discriminate. }
  destruct (tk_eqb (rk t) T_Eof) eqn:K.
  { apply LexBasics.tk_eqb_eq in K. contradiction. }
  inversion H. contradiction.
Qed.

Lemma p_lex_eq s :
  p_lex s =
  let '(k, len, pp', raw') := prep_next (pp s) (raw s) in
  let '(tx, src') := take_bytes len (src s) in
  {| raw := raw'; src := src'; pp := pp'; cursor := cursor s + len;
     cur := k; cur_lo := cursor s; cur_text := tx;
     bld := bld s; errs := errs s; after_err := after_err s; nlex := nlex s + 1; nstart := nstart s |}.
Proof. reflexivity. Qed.

(** ParserBase::lex re-establishes the invariant *)
Lemma p_lex_tile txt s : Pre txt s -> Tile txt (p_lex s).
Proof.
  intros [PT PS PC PR PE]. rewrite p_lex_eq.
  destruct (prep_next (pp s) (raw s)) as [[[k len] pp'] raw'] eqn:EP.
  destruct (prep_next_span _ _ _ _ _ _ EP) as (pre & ER & EL).
  assert (TB : take_bytes len (src s) = (raw_text pre, raw_text raw')).
  { rewrite PS, ER, raw_text_app, EL, <- bytes_raw_text. apply take_bytes_app. }
  rewrite TB.
  constructor; cbn [raw src pp cursor cur cur_lo cur_text bld errs].
  - rewrite <- PT, PS, ER, raw_text_app. reflexivity.
  - reflexivity.
  - exact PC.
  - rewrite EL, <- bytes_raw_text. reflexivity.
  - intros ->. destruct PR as (F1 & _). pose proof (prep_next_eof _ _ _ _ _ F1 EP) as RN.
    rewrite RN in ER. symmetry in ER. apply app_eq_nil in ER. destruct ER as [-> ->]. split; reflexivity.
  - rewrite ER in PR. eapply raw_ok_app; exact PR.
  - intros ->. destruct PR as (_ & F2 & _). eapply prep_next_error_msg; [exact F2|exact EP|reflexivity].
  - exact PE.
Qed.

Lemma take_error_some st : fst (take_error st) <> None -> exists e st', take_error st = (Some e, st').
Proof.
  unfold take_error. destruct (perr st); [intros _; eexists; eexists; reflexivity|].
  destruct (lerr st); [intros _; eexists; eexists; reflexivity|]. cbn. congruence.
Qed.

Lemma cur_range_ok txt s : Tile txt s -> forall m, err_ok txt (cur_lo s, cur_hi s, m).
Proof.
  intros T m. unfold err_ok, cur_hi. exists (pushed (bld s)), (cur_text s), (src s).
  rewrite (t_text _ _ T), (t_lo _ _ T). auto.
Qed.

(** ParserBase::save never hits `expect("error token without message")` and hands the look-ahead to the builder *)
Lemma p_save_tile txt s : Tile txt s -> exists s1, p_save s = Some s1 /\ Pre txt s1.
Proof.
  intros T. pose proof T as [TT TS TL TC TE TR TM TErr]. unfold p_save.
  destruct (tk_eqb (cur s) T_Error) eqn:K.
  - apply LexBasics.tk_eqb_eq in K. specialize (TM K).
    cbn [with_bld pp]. destruct (take_error_some _ TM) as (e & st' & ->).
    eexists; split; [reflexivity|].
    constructor; cbn [p_error with_pp_after with_bld raw src pp cursor bld errs cur_lo cur_text].
    + rewrite pushed_token, <- app_assoc. exact TT.
    + exact TS.
    + rewrite pushed_token, bytes_app, TC, TL. reflexivity.
    + exact TR.
    + constructor; [|exact TErr].
      unfold cur_hi. cbn [cur_lo cur_text]. apply (cur_range_ok txt s T).
  - eexists; split; [reflexivity|].
    constructor; cbn [with_pp_after with_bld raw src pp cursor bld errs].
    + rewrite pushed_token, <- app_assoc. exact TT.
    + exact TS.
    + rewrite pushed_token, bytes_app, TC, TL. reflexivity.
    + exact TR.
    + exact TErr.
Qed.

Lemma p_save_frame s s1 : p_save s = Some s1 ->
  raw s1 = raw s /\ src s1 = src s /\ cursor s1 = cursor s /\ cur s1 = cur s /\ openc (pp s1) = openc (pp s)
  /\ nlex s1 = nlex s /\ nstart s1 = nstart s.
Proof.
  unfold p_save. destruct (tk_eqb (cur s) T_Error).
  - cbn [with_bld pp]. unfold take_error. destruct (perr (pp s)).
    + intros H; inversion H; cbn; tauto.
    + destruct (lerr (pp s)); intros H; inversion H; cbn; tauto.
  - intros H; inversion H; cbn; tauto.
Qed.

Lemma prep_nil_not_trivia st k len st' raw' : prep_next st [] = (k, len, st', raw') -> is_trivia k = false.
Proof. rewrite prep_next_nil. destruct (0 <? openc st); intros H; inversion H; reflexivity. Qed.

(** ParserBase::skip: the fuel of [p_skip_all] suffices *)
Lemma p_skip_tile txt : forall fuel s, Tile txt s ->
  (List.length (raw s) < List.length fuel)%nat \/ is_trivia (cur s) = false ->
  exists s', p_skip fuel s = Some s' /\ Tile txt s' /\ is_trivia (cur s') = false.
Proof.
  induction fuel as [|x fuel IH]; intros s T F.
  - destruct F as [F|F]; [cbn in F; lia|]. cbn [p_skip]. rewrite F. eauto.
  - cbn [p_skip]. destruct (is_trivia (cur s)) eqn:TR; [|eauto].
    destruct F as [F|F]; [|congruence].
    destruct (p_save_tile txt s T) as (s1 & SV & P1). rewrite SV.
    destruct (p_save_frame _ _ SV) as (R1 & _).
    apply IH; [apply p_lex_tile; exact P1|].
    rewrite p_lex_eq. destruct (prep_next (pp s1) (raw s1)) as [[[k len] pp'] raw'] eqn:EP.
    destruct (take_bytes len (src s1)) as [tx src']. cbn [raw cur].
    destruct (raw s1) as [|t r] eqn:ER.
    + right. eapply prep_nil_not_trivia; exact EP.
    + left. assert (NE : t :: r <> []) by discriminate.
      pose proof (prep_next_progress _ _ _ _ _ _ EP NE) as LT. rewrite <- R1 in F. cbn [List.length] in *. lia.
Qed.

Lemma p_skip_all_tile txt s : Tile txt s ->
  exists s', p_skip_all s = Some s' /\ Tile txt s' /\ is_trivia (cur s') = false.
Proof. intros T. apply p_skip_tile; [exact T|]. left. cbn [List.length]. lia. Qed.

(** ParserBase::eat never fails *)
Lemma p_eat_tile txt s : Tile txt s ->
  exists s', p_eat s = Some s' /\ Tile txt s' /\ is_trivia (cur s') = false.
Proof.
  intros T. unfold p_eat. destruct (p_save_tile txt s T) as (s1 & -> & P1).
  apply p_skip_all_tile, p_lex_tile, P1.
Qed.

Lemma tile_with_bld txt s b : pushed b = pushed (bld s) -> Tile txt s -> Tile txt (with_bld s b).
Proof.
  intros E [TT TS TL TC TE TR TM TErr].
  constructor; cbn [with_bld raw src pp cursor cur cur_lo cur_text bld errs]; try assumption; rewrite E; assumption.
Qed.

Lemma p_error_tile txt s m : Tile txt s -> Tile txt (p_error s m).
Proof.
  intros T. pose proof T as [TT TS TL TC TE TR TM TErr].
  constructor; cbn [p_error raw src pp cursor cur cur_lo cur_text bld errs]; try assumption.
  constructor; [apply cur_range_ok; exact T|exact TErr].
Qed.

Lemma p_start_node_tile txt s k : Tile txt s -> Tile txt (p_start_node s k).
Proof.
  intros T. pose proof (tile_with_bld txt s (b_start_node (bld s) k) (pushed_start_node _ _) T) as [TT TS TL TC TE TR TM TErr].
  constructor; assumption.
Qed.

Lemma p_start_node_at_tile txt s cp k s' : Tile txt s -> p_start_node_at s cp k = Some s' -> Tile txt s'.
Proof.
  intros T. unfold p_start_node_at. destruct (b_start_node_at (bld s) cp k) as [b|] eqn:E; [|discriminate].
  intros H; inversion H; subst. apply tile_with_bld; [eapply pushed_start_node_at; exact E|exact T].
Qed.

Lemma p_finish_node_tile txt s s' : Tile txt s -> p_finish_node s = Some s' -> Tile txt s'.
Proof.
  intros T. unfold p_finish_node. destruct (b_finish_node (bld s)) as [b|] eqn:E; [|discriminate].
  intros H; inversion H; subst. apply tile_with_bld; [eapply pushed_finish_node; exact E|exact T].
Qed.

Lemma p_error_and_eat_tile txt s m s' : Tile txt s -> p_error_and_eat s m = Some s' -> Tile txt s'.
Proof.
  intros T. unfold p_error_and_eat.
  assert (T2 : Tile txt (with_bld (p_error s m) (b_start_node (bld (p_error s m)) S_Error))).
  { apply tile_with_bld; [apply pushed_start_node|apply p_error_tile; exact T]. }
  destruct (p_eat_tile _ _ T2) as (s3 & -> & T3 & _). apply p_finish_node_tile; exact T3.
Qed.

Lemma p_error_and_recover_tile txt rec s m s' : Tile txt s -> p_error_and_recover rec s m = Some s' -> Tile txt s'.
Proof.
  intros T. unfold p_error_and_recover.
  destruct (negb (p_at_set (p_error s m) rec) && negb (p_eof (p_error s m))).
  - assert (T2 : Tile txt (with_bld (p_error s m) (b_start_node (bld (p_error s m)) S_Error))).
    { apply tile_with_bld; [apply pushed_start_node|apply p_error_tile; exact T]. }
    destruct (p_eat_tile _ _ T2) as (s3 & -> & T3 & _). apply p_finish_node_tile; exact T3.
  - intros H; inversion H; subst. apply p_error_tile; exact T.
Qed.

Lemma p_eat_if_tile txt s k : Tile txt s ->
  exists b s', p_eat_if s k = Some (b, s') /\ Tile txt s' /\ b = p_at s k.
Proof.
  intros T. unfold p_eat_if. destruct (p_at s k) eqn:A.
  - destruct (p_eat_tile _ _ T) as (s' & -> & T' & _). eauto.
  - eauto.
Qed.

Lemma p_assert_tile txt s k s' : Tile txt s -> p_assert s k = Some s' -> Tile txt s'.
Proof.
  intros T. unfold p_assert. destruct (p_eat_if_tile txt s k T) as (b & s1 & -> & T1 & _).
  destruct b; [|discriminate]. intros H; inversion H; subst; exact T1.
Qed.

Lemma p_expect_tile txt s k m : Tile txt s -> exists s', p_expect s k m = Some s' /\ Tile txt s'.
Proof.
  intros T. unfold p_expect. destruct (p_eat_if_tile txt s k T) as (b & s1 & -> & T1 & _).
  destruct b; [eauto|]. destruct (after_err s1); [eauto|]. eexists; split; [reflexivity|]. apply p_error_tile; exact T1.
Qed.

(** ParserBase::new *)
Lemma p_new_tile txt : Tile txt (p_new txt).
Proof.
  unfold p_new. apply p_lex_tile.
  constructor; cbn [raw src pp cursor bld errs]; try reflexivity.
  - unfold raw_text. symmetry. apply raw_lex_concat.
  - apply raw_ok_lex.
  - constructor.
Qed.

(** * Leaves of a tree: running offsets and character boundaries (rowan derives ranges from the
      token texts, exactly as [leaves_from] does) *)

Definition leaf := (SyntaxKind * N * N * text)%type.
Definition leaf_text (l : leaf) : text := let '(_, _, _, tx) := l in tx.

(** every leaf starts where the previous one ended; the first at [off] *)
Fixpoint running (off : N) (ls : list leaf) : Prop :=
  match ls with
  | [] => True
  | (_, lo, hi, tx) :: r => lo = off /\ hi = off + bytes tx /\ running hi r
  end.

Lemma running_app a : forall off b, running off a -> running (off + bytes (concat (map leaf_text a))) b -> running off (a ++ b).
Proof.
  induction a as [|[[[k lo] hi] tx] a IH]; intros off b Ra Rb.
  - cbn in *. rewrite N.add_0_r in Rb. exact Rb.
  - cbn [app running] in *. destruct Ra as (-> & -> & Ra). repeat split. apply IH; [exact Ra|].
    cbn [map leaf_text concat] in Rb. rewrite bytes_app, N.add_assoc in Rb. exact Rb.
Qed.

Fixpoint forest_leaves (o : N) (l : list tree) : list leaf :=
  match l with [] => [] | c :: r => leaves_from o c ++ forest_leaves (o + tree_len c) r end.

Lemma leaves_from_node k cs off : leaves_from off (Node k cs) = forest_leaves off cs.
Proof. cbn [leaves_from]. revert off. induction cs as [|c r IH]; intros off; [reflexivity|]. cbn [forest_leaves]. rewrite <- (IH (off + tree_len c)). reflexivity. Qed.

Lemma tree_len_node k cs : tree_len (Node k cs) = forest_len cs.
Proof. cbn [tree_len]. unfold forest_len. induction cs as [|c r IH]; [reflexivity|]. cbn [fold_right]. rewrite <- IH at 1. reflexivity. Qed.

Lemma leaves_from_spec : forall t off,
  concat (map leaf_text (leaves_from off t)) = tree_text t /\ running off (leaves_from off t) /\ tree_len t = bytes (tree_text t).
Proof.
  fix IH 1. intros [k cs|k tx] off.
  - rewrite leaves_from_node, tree_text_node, tree_len_node.
    revert off. induction cs as [|c r IHr]; intros off.
    + cbn. repeat split.
    + destruct (IH c off) as (C1 & C2 & C3). destruct (IHr (off + tree_len c)) as (R1 & R2 & R3).
      cbn [forest_leaves]. unfold forest_text, forest_len in *. cbn [map fold_right].
      rewrite concat_cons, map_app, concat_app. split; [f_equal; [exact C1|exact R1]|]. split.
      * apply running_app; [exact C2|]. replace (concat (map leaf_text (leaves_from off c))) with (tree_text c) by (symmetry; exact C1). rewrite <- C3. exact R2.
      * rewrite bytes_app, <- C3, <- R3. reflexivity.
  - cbn. rewrite app_nil_r. repeat split.
Qed.

(** boundaries: every leaf of a tiling of [txt] starts and ends between two characters of [txt] *)
Definition leaf_on_boundary (txt : text) (l : leaf) : Prop :=
  let '(_, lo, hi, _) := l in on_char_boundary txt lo /\ on_char_boundary txt hi.

Lemma running_boundary : forall ls pre post, running (bytes pre) ls ->
  Forall (leaf_on_boundary (pre ++ concat (map leaf_text ls) ++ post)) ls.
Proof.
  induction ls as [|[[[k lo] hi] tx] r IH]; intros pre post R; [constructor|].
  cbn [running] in R. destruct R as (-> & -> & R). cbn [map leaf_text concat]. constructor.
  - cbn. split; [apply boundary_prefix|].
    rewrite <- bytes_app. rewrite <- app_assoc. rewrite app_assoc. apply boundary_prefix.
  - rewrite <- bytes_app in R. specialize (IH (pre ++ tx) post R).
    rewrite <- !app_assoc in IH. rewrite <- app_assoc. exact IH.
Qed.

Lemma leaves_boundary t : Forall (leaf_on_boundary (tree_text t)) (leaves t).
Proof.
  destruct (leaves_from_spec t 0) as (C & R & _). unfold leaves.
  pose proof (running_boundary (leaves_from 0 t) [] [] R) as H. cbn [app] in H.
  rewrite app_nil_r, C in H. exact H.
Qed.

(** Parser::finish: the tree text is everything that was pushed *)
Lemma p_finish_text s t es : p_finish s = Some (t, es) -> tree_text t = pushed (bld s) /\ es = rev (errs s).
Proof.
  unfold p_finish. destruct (b_finish (bld s)) as [t0|] eqn:E; [|discriminate].
  intros H; inversion H; subst. split; [eapply pushed_finish; exact E|reflexivity].
Qed.

(** closing: at Eof the look-ahead is empty and nothing is left unread *)
Lemma tile_eof_pushed txt s : Tile txt s -> cur s = T_Eof -> pushed (bld s) = txt.
Proof.
  intros T E. destruct (t_eof _ _ T E) as (R & C).
  pose proof (t_text _ _ T) as TT. rewrite C, (t_src _ _ T), R in TT. cbn in TT. rewrite app_nil_r in TT. exact TT.
Qed.
