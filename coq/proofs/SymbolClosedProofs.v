(** On a closed symbol map (model/SymbolClosed.v) the three handlers that follow payload ids -- document_symbol, hover,
    inlay_hint (model/Outline.v) -- never hit an `expect("invalid … id")`: they return [SOk]. *)
From Coq Require Import List NArith Bool Lia String.
From TG.Model Require Import Chars Tree TreeNav SymbolMap DocComments Outline SymbolClosed.
Import ListNotations.
Open Scope N_scope.

Lemma smap_ok {A B} : forall (g : A -> sres B) l, (forall x, In x l -> exists y, g x = SOk y) -> exists ys, smap g l = SOk ys.
Proof.
  induction l as [|x l IH]; intros H; cbn [smap]; [eexists; reflexivity|].
  destruct (H x (or_introl eq_refl)) as [y ->]. destruct (IH (fun z Hz => H z (or_intror Hz))) as [ys ->].
  cbn. eexists; reflexivity.
Qed.

Lemma smap_in {A B} : forall (g : A -> sres B) l ys, smap g l = SOk ys -> forall y, In y ys -> exists x, In x l /\ g x = SOk y.
Proof.
  induction l as [|x l IH]; intros ys H y Hy; cbn [smap] in H.
  - inversion H; subst. destruct Hy.
  - destruct (g x) as [y0|] eqn:G; [|discriminate]. cbn in H. destruct (smap g l) as [ys0|] eqn:M; [|discriminate].
    cbn in H. inversion H; subst. destruct Hy as [<-|Hy].
    + exists x. split; [left; reflexivity|exact G].
    + destruct (IH ys0 eq_refl y Hy) as (x' & Hx & Gx). exists x'. split; [right; exact Hx|exact Gx].
Qed.

Lemma fmap_get_in {V} : forall (m : list (fileid * V)) f v, fmap_get m f = Some v -> In (f, v) m.
Proof.
  induction m as [|[f' v'] m IH]; intros f v H; cbn [fmap_get] in H; [discriminate|].
  destruct (f' =? f) eqn:E.
  - apply N.eqb_eq in E. inversion H; subst. left. reflexivity.
  - right. apply IH. exact H.
Qed.

Section Closed.
  Variable S : symbol_map.
  Hypothesis C : sm_closedb S = true.

  Lemma vid_symbol : forall k i, vid S k i = true -> exists e, symbol S (k, i) = SOk e /\ In e (get_arena S k).
  Proof.
    intros k i H. unfold vid, len_N in H. apply N.ltb_lt in H.
    unfold symbol, get_entry, nth_N. cbn [fst snd].
    destruct (nth_error (get_arena S k) (N.to_nat i)) as [e|] eqn:E.
    - exists e. split; [reflexivity|]. eapply nth_error_In. exact E.
    - apply nth_error_None in E. lia.
  Qed.

  Lemma arena_payload_ok : forall k e, In e (get_arena S k) -> payload_ok S k (e_payload e) = true.
  Proof.
    intros k e H. unfold sm_closedb in C. apply andb_prop in C. destruct C as [C1 _]. apply andb_prop in C1. destruct C1 as [C1 _].
    rewrite forallb_forall in C1. assert (K : In k all_kinds) by (destruct k; cbn; tauto).
    specialize (C1 k K). rewrite forallb_forall in C1. exact (C1 e H).
  Qed.

  Lemma file_syms_valid : forall f l s, fmap_get (sm_file_syms S) f = Some l -> In s l -> vsid S s = true.
  Proof.
    intros f l s H Hs. unfold sm_closedb in C. apply andb_prop in C. destruct C as [C1 _]. apply andb_prop in C1. destruct C1 as [_ C2].
    rewrite forallb_forall in C2. specialize (C2 (f, l) (fmap_get_in _ _ _ H)). cbn [snd] in C2.
    rewrite forallb_forall in C2. exact (C2 s Hs).
  Qed.

  Lemma pos_valid : forall f m e, fmap_get (sm_pos S) f = Some m -> In e m -> vsid S (snd e) = true.
  Proof.
    intros f m e H He. unfold sm_closedb in C. apply andb_prop in C. destruct C as [_ C3].
    rewrite forallb_forall in C3. specialize (C3 (f, m) (fmap_get_in _ _ _ H)). cbn [snd] in C3.
    rewrite forallb_forall in C3. exact (C3 e He).
  Qed.

  Lemma vsid_symbol : forall s, vsid S s = true -> exists e, symbol S s = SOk e /\ In e (get_arena S (fst s)).
  Proof. intros [k i] H. exact (vid_symbol k i H). Qed.

  (** ---- document_symbol *)
  Lemma leaf_docsyms_ok : forall k dk ids, forallb (vid S k) ids = true -> exists ds, smap (leaf_docsym S k dk) ids = SOk ds.
  Proof.
    intros k dk ids H. apply smap_ok. intros x Hx. rewrite forallb_forall in H.
    destruct (vid_symbol k x (H x Hx)) as (e & E & _). unfold leaf_docsym. rewrite E. cbn. eexists; reflexivity.
  Qed.

  Lemma record_docsym_ok : forall e, In e (get_arena S KRecord) -> exists o, record_docsym S e = SOk o.
  Proof.
    intros e He. pose proof (arena_payload_ok KRecord e He) as P. unfold record_docsym.
    destruct (e_payload e) as [rk targs fields ps| | | | | |]; cbn [payload_ok] in P; try discriminate.
    apply andb_prop in P. destruct P as [P1 P2].
    destruct (leaf_docsyms_ok KTemplateArg DKTemplateArgument _ P1) as [ts T].
    destruct (leaf_docsyms_ok KRecordField DKField _ P2) as [fs F].
    unfold targ_docsyms, field_docsyms. destruct rk.
    - rewrite T. cbn. rewrite F. cbn. eexists; reflexivity.
    - rewrite F. cbn. eexists; reflexivity.
  Qed.

  Lemma symbol_to_docsym_ok : forall s, vsid S s = true -> exists o, symbol_to_document_symbol S s = SOk o.
  Proof.
    intros [k i] H. destruct (vsid_symbol _ H) as (e & E & He). cbn [fst] in He.
    unfold symbol_to_document_symbol. rewrite E. cbn [sbind fst].
    pose proof (arena_payload_ok k e He) as P.
    destruct k; try (eexists; reflexivity).
    - exact (record_docsym_ok e He).
    - destruct (e_payload e) as [| | | |typ defs| |]; cbn [payload_ok] in P; try discriminate. cbn [p_defs].
      assert (exists des, smap (record S) defs = SOk des) as [des D].
      { apply smap_ok. intros x Hx. rewrite forallb_forall in P. destruct (vid_symbol KRecord x (P x Hx)) as (e' & E' & _).
        exists e'. exact E'. }
      rewrite D. cbn [sbind].
      assert (exists ds, smap (record_docsym S) (filter (same_file_as e) des) = SOk ds) as [ds R].
      { apply smap_ok. intros x Hx. apply filter_In in Hx. destruct Hx as [Hx _].
        destruct (smap_in _ _ _ D x Hx) as (id & Hid & Rid). apply record_docsym_ok.
        unfold record, symbol, get_entry, nth_N in Rid. cbn [fst snd] in Rid.
        destruct (nth_error (get_arena S KRecord) (N.to_nat id)) as [e0|] eqn:N0; [|discriminate].
        inversion Rid; subst. eapply nth_error_In. exact N0. }
      rewrite R. cbn. eexists; reflexivity.
    - destruct (e_payload e) as [| | | | |targs ps|]; cbn [payload_ok] in P; try discriminate. cbn [p_targs].
      destruct (leaf_docsyms_ok KTemplateArg DKTemplateArgument _ P) as [ts T]. unfold targ_docsyms. rewrite T. cbn.
      eexists; reflexivity.
  Qed.

  Theorem document_symbol_ok : forall f, exists o, document_symbol S f = SOk o.
  Proof.
    intros f. unfold document_symbol, iter_symbols_in_file.
    destruct (fmap_get (sm_file_syms S) f) as [ids|] eqn:F; [|eexists; reflexivity].
    assert (exists l, smap (symbol_to_document_symbol S) ids = SOk l) as [l L].
    { apply smap_ok. intros s Hs. apply symbol_to_docsym_ok. exact (file_syms_valid f ids s F Hs). }
    rewrite L. cbn. eexists; reflexivity.
  Qed.

  (** ---- hover *)
  Lemma targ_names_ok : forall (g : entry -> name) ids, forallb (vid S KTemplateArg) ids = true ->
    exists l, smap (fun id => sbind (template_arg S id) (fun a => SOk (g a))) ids = SOk l.
  Proof.
    intros g ids H. apply smap_ok. intros x Hx. rewrite forallb_forall in H.
    destruct (vid_symbol KTemplateArg x (H x Hx)) as (e & E & _). unfold template_arg. rewrite E. cbn. eexists; reflexivity.
  Qed.

  Lemma signature_ok : forall s e, symbol S s = SOk e -> In e (get_arena S (fst s)) -> exists n, signature S s e = SOk n.
  Proof.
    intros [k i] e E He. cbn [fst] in He. pose proof (arena_payload_ok k e He) as P. unfold signature. cbn [fst].
    destruct k; destruct (e_payload e) as [rk targs fields ps|typ|typ parent|typ|typ defs|targs ps|ps];
      cbn [payload_ok] in P; try discriminate; try (eexists; reflexivity).
    - apply andb_prop in P. destruct P as [P1 _]. destruct rk; [|eexists; reflexivity].
      destruct (targ_names_ok (fun a => p_typ (e_payload a) ++ s2n " "%string ++ e_name a) _ P1) as [l L].
      match goal with |- context [smap ?g ?l0] => assert (X : smap g l0 = SOk l) by exact L; rewrite X end.
      cbn. eexists; reflexivity.
    - destruct (vid_symbol KRecord parent P) as (pe & PE & _). unfold record. rewrite PE. cbn. eexists; reflexivity.
  Qed.

  Lemma find_symbol_at_closed : forall f p, exists o, find_symbol_at S f p = SOk o /\
    match o with Some (s, e) => symbol S s = SOk e /\ In e (get_arena S (fst s)) | None => True end.
  Proof.
    intros f p. unfold find_symbol_at, find_symbol_id_at.
    destruct (fmap_get (sm_pos S) f) as [m|] eqn:F; [|exists None; split; [reflexivity|exact I]].
    destruct (ivl_overlap_point m p) as [|[[lo hi] v] r] eqn:O; [exists None; split; [reflexivity|exact I]|].
    assert (Hin : In (lo, hi, v) m).
    { unfold ivl_overlap_point in O. assert (In (lo, hi, v) (filter (ivl_contains p) m)) by (rewrite O; left; reflexivity).
      apply filter_In in H. tauto. }
    pose proof (pos_valid f m (lo, hi, v) F Hin) as V. cbn [snd] in V.
    destruct (vsid_symbol v V) as (e & E & He). rewrite E. cbn. exists (Some (v, e)). split; [reflexivity|]. split; assumption.
  Qed.

  Theorem hover_ok : forall trees f p, exists o, hover S trees f p = SOk o.
  Proof.
    intros trees f p. unfold hover, extract_symbol_signature.
    destruct (find_symbol_at_closed f p) as (o & -> & Ho). cbn [sbind].
    destruct o as [[s e]|]; [|cbn; eexists; reflexivity].
    destruct Ho as (E & He). destruct (signature_ok s e E He) as [n ->]. cbn. eexists; reflexivity.
  Qed.

  (** ---- inlay_hint *)
  Lemma hints_of_symbol_ok : forall t x, vsid S (snd x) = true -> exists l, hints_of_symbol S t x = SOk l.
  Proof.
    intros t [sloc [k i]] V. cbn [snd] in V. destruct (vsid_symbol _ V) as (e & E & He). cbn [fst] in He.
    unfold hints_of_symbol. rewrite E. cbn [sbind fst].
    pose proof (arena_payload_ok k e He) as P.
    destruct k; destruct (e_payload e) as [rk targs fields ps|typ|typ parent|typ|typ defs|targs ps|ps];
      cbn [payload_ok] in P; try discriminate; try (eexists; reflexivity).
    apply andb_prop in P. destruct P as [P1 _]. destruct rk; [|eexists; reflexivity].
    unfold inlay_hint_class. destruct (class_arg_list t (fr_lo sloc) (fr_hi sloc)); [|eexists; reflexivity].
    destruct (targ_names_ok (fun a => e_name a) _ P1) as [l L].
    match goal with |- context [smap ?g ?l0] => assert (X : smap g l0 = SOk l) by exact L; rewrite X end.
    cbn. eexists; reflexivity.
  Qed.

  Theorem inlay_hint_ok : forall trees loc, exists o, inlay_hint S trees loc = SOk o.
  Proof.
    intros trees loc. unfold inlay_hint, iter_symbols_in_range, iter_symbols_in_range_g, fr_is_empty.
    destruct (fr_hi loc <=? fr_lo loc) eqn:G; cbn [andb]; [cbn; eexists; reflexivity|].
    destruct (fmap_get (sm_pos S) (fr_file loc)) as [m|] eqn:F; [|cbn; eexists; reflexivity].
    unfold ivl_iter. rewrite G.
    - cbn [sbind]. destruct (trees (fr_file loc)) as [t|]; [|eexists; reflexivity].
      match goal with |- context [smap ?g ?l] => assert (exists hs, smap g l = SOk hs) as [hs H] end.
      { apply smap_ok. intros x Hx. apply hints_of_symbol_ok. apply in_map_iff in Hx. destruct Hx as ([[lo hi] v] & <- & Hv).
        cbn [snd]. apply filter_In in Hv. destruct Hv as [Hv _]. exact (pos_valid _ m (lo, hi, v) F Hv). }
      rewrite H. cbn. eexists; reflexivity.
  Qed.
End Closed.
