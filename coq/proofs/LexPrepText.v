(** LexPrepText: C14 and C15 combined at the level of TEXTS: for a text that is a sequence of
    specification-level lexical pieces (LexSpec, directives included) the raw token list the
    preprocessor consumes is that piece sequence; if it is the rendering of a well-nested arrangement
    (PrepSpec) the parser is handed exactly the selected tokens. *)
From Coq Require Import List NArith Bool Lia.
From TG.Gen Require Import GenTokens.
From TG.Model Require Import Chars Lexer Prep PrepRun LexSpec PrepSpec.
From TG.Proofs Require Import LexBasics LexConform PrepConform.
Import ListNotations.
Open Scope N_scope.

Definition rtok_of_piece (p : piece) : rtok := {| rk := pk p; rerr := None; rtext := pw p |}.

Lemma valid_not_eof p : valid_piece_d p = true -> tk_eqb (pk p) T_Eof = false.
Proof.
  destruct p as [k w]. unfold valid_piece_d, valid_piece. cbn [pk pw]. intros V.
  destruct (tk_eqb k T_Eof) eqn:E; [|reflexivity]. apply LexBasics.tk_eqb_eq in E. subst k.
  vm_compute in V. discriminate.
Qed.

Lemma raw_lex_pieces ps :
  forallb valid_piece_d ps = true -> not_merged ps = true ->
  raw_lex (render ps) = map rtok_of_piece ps.
Proof.
  intros V M. rewrite raw_lex_eq. rewrite (conforms ps V M). unfold expected_tokens.
  rewrite map_app, filter_app. cbn [map filter mk_rtok rk]. change (tk_eqb T_Eof T_Eof) with true.
  cbn [negb]. rewrite app_nil_r.
  induction ps as [|p ps IH]; [reflexivity|].
  cbn [forallb] in V. apply andb_true_iff in V. destruct V as [Vp V].
  cbn [map filter mk_rtok rk]. rewrite (valid_not_eof p Vp). cbn [negb].
  f_equal. apply IH; [exact V|].
  cbn [not_merged] in M. apply andb_true_iff in M. tauto.
Qed.

Lemma selects_text_pieces ps items :
  forallb valid_piece_d ps = true -> not_merged ps = true ->
  map rtok_of_piece ps = render_items items -> items_ok items = true ->
  filter not_pp (prep_text (render ps)) = map deliver (snd (select [] items)) ++ [eof_entry].
Proof.
  intros V M R O. apply C15_selects_text_proof; [|exact O].
  rewrite (raw_lex_pieces ps V M). exact R.
Qed.

Lemma unterminated_text_pieces ps items p :
  forallb valid_piece_d ps = true -> not_merged ps = true ->
  map rtok_of_piece ps = render_items items ++ render_partial p ->
  items_ok items = true -> partial_ok p = true ->
  filter not_pp (prep_text (render ps))
  = map deliver (snd (select [] items) ++ select_partial (fst (select [] items)) p)
    ++ [(T_Error, 0, Some (ErrPrep PEUnterminated)); eof_entry].
Proof.
  intros V M R O PO. rewrite prep_text_run, (raw_lex_pieces ps V M), R.
  apply C15_unterminated_proof; assumption.
Qed.

Lemma missing_name_text_pieces ps items dir gap rest :
  forallb valid_piece_d ps = true -> not_merged ps = true ->
  map rtok_of_piece ps = render_items items ++ dir :: gap ++ rest ->
  items_ok items = true -> missing_name dir gap rest = true ->
  exists pre len post,
    prep_text (render ps) = pre ++ (T_Error, len, Some (ErrPrep (missing_name_err dir))) :: post
    /\ filter not_pp pre = map deliver (snd (select [] items)).
Proof.
  intros V M R O MN. rewrite prep_text_run, (raw_lex_pieces ps V M), R.
  apply C15_missing_name_proof; assumption.
Qed.
