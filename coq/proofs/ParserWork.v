(** Work accounting (every program): the work counters of the parser state are exactly the size of what was
    built -- [nlex] = 1 + number of tokens handed to the builder (every lex but the last one is followed by a
    save), [nstart] <= number of finished nodes + number of open nodes.  For a completed parse:
    nlex = 1 + leaves of the tree, nstart <= nodes of the tree + nodes left open.  Hence "parser work is linear
    in the number of tokens" is the statement "the tree has O(tokens) nodes and leaves", which the check measures
    on the real parser's tree (rowan creates one node per start_node(_at) and one leaf per token() call). *)
From Coq Require Import List Arith NArith Bool Lia.
From TG.Gen Require Import GenTokens GenLexTables.
From TG.Model Require Import Chars Lexer Prep Tree ParserPrims GInterp.
From TG.Proofs Require Import ParserTile GTile.
Import ListNotations.
Open Scope nat_scope.

Fixpoint ntoks (t : tree) : nat :=
  match t with
  | Tok _ _ => 1
  | Node _ cs => (fix go (l : list tree) : nat := match l with [] => 0 | c :: r => ntoks c + go r end) cs
  end.
Fixpoint nnodes (t : tree) : nat :=
  match t with
  | Tok _ _ => 0
  | Node _ cs => S ((fix go (l : list tree) : nat := match l with [] => 0 | c :: r => nnodes c + go r end) cs)
  end.
Definition ftoks (l : list tree) : nat := fold_right (fun c a => ntoks c + a) 0 l.
Definition fnodes (l : list tree) : nat := fold_right (fun c a => nnodes c + a) 0 l.

Lemma ntoks_node k cs : ntoks (Node k cs) = ftoks cs.
Proof. unfold ftoks. induction cs as [|c r IH]; [reflexivity|]. cbn [fold_right]. rewrite <- IH. reflexivity. Qed.
Lemma nnodes_node k cs : nnodes (Node k cs) = S (fnodes cs).
Proof. reflexivity. Qed.
Lemma ftoks_app a b : ftoks (a ++ b) = ftoks a + ftoks b.
Proof. unfold ftoks. induction a as [|c a IH]; cbn [app fold_right]; [reflexivity|]. rewrite IH. lia. Qed.
Lemma fnodes_app a b : fnodes (a ++ b) = fnodes a + fnodes b.
Proof. unfold fnodes. induction a as [|c a IH]; cbn [app fold_right]; [reflexivity|]. rewrite IH. lia. Qed.
Lemma ftoks_rev a : ftoks (rev a) = ftoks a.
Proof. induction a as [|c a IH]; [reflexivity|]. cbn [rev]. rewrite ftoks_app, IH. unfold ftoks. cbn. lia. Qed.
Lemma fnodes_rev a : fnodes (rev a) = fnodes a.
Proof. induction a as [|c a IH]; [reflexivity|]. cbn [rev]. rewrite fnodes_app, IH. unfold fnodes. cbn. lia. Qed.

Lemma leaves_count : forall t off, List.length (leaves_from off t) = ntoks t.
Proof.
  fix IH 1. intros [k cs|k tx] off; [|reflexivity].
  rewrite leaves_from_node, ntoks_node. revert off. induction cs as [|c r IHr]; intros off; [reflexivity|].
  cbn [forest_leaves]. rewrite app_length, IH, IHr. reflexivity.
Qed.

(** the invariant: [pend] = 1 between save and lex (the saved token has no lex yet), 0 otherwise *)
Definition WI (pend : nat) (s : pst) : Prop :=
  N.to_nat (nlex s) + pend = S (ftoks (children (bld s))) /\
  N.to_nat (nstart s) <= fnodes (children (bld s)) + List.length (parents (bld s)).

Lemma WI_with_bld_same pend s b : ftoks (children b) = ftoks (children (bld s)) ->
  fnodes (children (bld s)) + List.length (parents (bld s)) <= fnodes (children b) + List.length (parents b) ->
  WI pend s -> WI pend (with_bld s b).
Proof. intros E1 E2 [H1 H2]. split; cbn [with_bld bld nlex nstart]; [rewrite E1; exact H1|lia]. Qed.

Lemma WI_error pend s m : WI pend s -> WI pend (p_error s m).
Proof. exact (fun H => H). Qed.

Lemma WI_save s s1 : WI 0 s -> p_save s = Some s1 -> WI 1 s1.
Proof.
  intros [H1 H2]. unfold p_save. destruct (tk_eqb (cur s) T_Error).
  - destruct (take_error _) as [[e|] pp']; [|discriminate]. intros X; inversion X; subst. split; cbn; unfold ftoks, fnodes in *; cbn; lia.
  - intros X; inversion X; subst. split; cbn; unfold ftoks, fnodes in *; cbn; lia.
Qed.
Lemma WI_lex s : WI 1 s -> WI 0 (p_lex s).
Proof.
  intros [H1 H2]. unfold p_lex. destruct (prep_next (pp s) (raw s)) as [[[k len] pp'] raw'].
  destruct (take_bytes len (src s)) as [tx src']. split; cbn [nlex nstart bld]; [|exact H2].
  rewrite N2Nat.inj_add. change (N.to_nat 1) with 1. lia.
Qed.
Lemma WI_skip : forall fuel s s', WI 0 s -> p_skip fuel s = Some s' -> WI 0 s'.
Proof.
  induction fuel as [|x fuel IH]; intros s s' H; cbn [p_skip].
  - destruct (is_trivia (cur s)); intros X; inversion X; subst; exact H.
  - destruct (is_trivia (cur s)); [|intros X; inversion X; subst; exact H].
    destruct (p_save s) as [s1|] eqn:SV; [|discriminate]. apply IH. apply WI_lex. eapply WI_save; eauto.
Qed.
Lemma WI_eat s s' : WI 0 s -> p_eat s = Some s' -> WI 0 s'.
Proof.
  intros H. unfold p_eat. destruct (p_save s) as [s1|] eqn:SV; [|discriminate].
  apply WI_skip. apply WI_lex. eapply WI_save; eauto.
Qed.
Lemma WI_eat_if s k b s' : WI 0 s -> p_eat_if s k = Some (b, s') -> WI 0 s'.
Proof.
  intros H. unfold p_eat_if. destruct (p_at s k).
  - destruct (p_eat s) as [s1|] eqn:E; [|discriminate]. intros X; inversion X; subst. eapply WI_eat; eauto.
  - intros X; inversion X; subst. exact H.
Qed.
Lemma WI_start_node s k : WI 0 s -> WI 0 (p_start_node s k).
Proof.
  intros [H1 H2]. unfold p_start_node.
  split; cbn [with_bld b_start_node bld nlex nstart children parents List.length]; [exact H1|].
  rewrite N2Nat.inj_add. change (N.to_nat 1) with 1. lia.
Qed.
Lemma WI_bstart pend s k : WI pend s -> WI pend (with_bld s (b_start_node (bld s) k)).
Proof. intros H. apply WI_with_bld_same; [reflexivity|cbn [b_start_node children parents List.length]; lia|exact H]. Qed.
Lemma WI_finish_node s s' : WI 0 s -> p_finish_node s = Some s' -> WI 0 s'.
Proof.
  intros [H1 H2]. unfold p_finish_node, b_finish_node. destruct (parents (bld s)) as [|[k f] ps] eqn:PB; [discriminate|].
  intros X; inversion X; subst; clear X. set (n := List.length (children (bld s)) - f).
  assert (ET : ftoks (children (bld s)) = ftoks (firstn n (children (bld s))) + ftoks (skipn n (children (bld s)))).
  { rewrite <- ftoks_app, firstn_skipn. reflexivity. }
  assert (EN : fnodes (children (bld s)) = fnodes (firstn n (children (bld s))) + fnodes (skipn n (children (bld s)))).
  { rewrite <- fnodes_app, firstn_skipn. reflexivity. }
  split; cbn [with_bld bld nlex nstart children parents].
  - unfold ftoks at 1. cbn [fold_right]. fold (ftoks (skipn n (children (bld s)))). rewrite ntoks_node, ftoks_rev. lia.
  - unfold fnodes at 1. cbn [fold_right]. fold (fnodes (skipn n (children (bld s)))). rewrite nnodes_node, fnodes_rev.
    cbn [List.length] in H2. lia.
Qed.
Lemma WI_start_node_at s cp k s' : WI 0 s -> p_start_node_at s cp k = Some s' -> WI 0 s'.
Proof.
  intros H. unfold p_start_node_at, b_start_node_at. destruct (Nat.leb cp _); [|discriminate].
  destruct (parents (bld s)) as [|[k0 f0] ps] eqn:PB.
  - intros X; inversion X; subst. apply WI_with_bld_same; [reflexivity|cbn [children parents List.length]; rewrite PB; cbn [List.length]; lia|exact H].
  - destruct (Nat.leb f0 cp); [|discriminate]. intros X; inversion X; subst.
    apply WI_with_bld_same; [reflexivity|cbn [children parents List.length]; rewrite PB; cbn [List.length]; lia|exact H].
Qed.

Lemma exec_prim_WI p pr en s : WI 0 s -> res_inv (WI 0) (exec_prim p pr en s).
Proof.
  intros H. destruct pr; cbn [exec_prim].
  - cbn. apply WI_start_node, H.
  - apply lift_inv. intros s'. apply WI_finish_node, H.
  - cbn. exact H.
  - destruct (env_get en x) as [[b|cp]|]; cbn; auto. apply lift_inv. intros s'. apply WI_start_node_at, H.
  - unfold p_assert. destruct (p_eat_if s k) as [[[|] s1]|] eqn:F; cbn; auto. eapply WI_eat_if; eauto.
  - unfold p_expect. destruct (p_eat_if s k) as [[[|] s1]|] eqn:F; cbn; auto; [eapply WI_eat_if; eauto|].
    pose proof (WI_eat_if _ _ _ _ H F) as H1. destruct (after_err s1); cbn; auto.
  - apply lift_inv. intros s'. apply WI_eat, H.
  - destruct (p_eat_if s k) as [[b s1]|] eqn:F; cbn; auto. eapply WI_eat_if; eauto.
  - apply lift_inv. intros s'. unfold p_skip_all. apply WI_skip, H.
  - cbn. exact H.
  - unfold p_error_and_eat. destruct (p_eat _) as [s3|] eqn:F; cbn; auto.
    apply lift_inv. intros s'. apply WI_finish_node. eapply WI_eat; [|exact F]. apply WI_bstart, WI_error, H.
  - unfold p_error_and_recover. destruct (negb _ && negb _).
    + destruct (p_eat _) as [s3|] eqn:F; cbn; auto.
      apply lift_inv. intros s'. apply WI_finish_node. eapply WI_eat; [|exact F]. apply WI_bstart, WI_error, H.
    + cbn. exact H.
  - cbn. exact H.
Qed.

(** every program preserves an invariant that every primitive preserves *)
Theorem gexec_preserves (P : pst -> Prop) p :
  (forall pr en s, P s -> res_inv P (exec_prim p pr en s)) ->
  forall n e en s, P s -> res_inv P (gexec n p e en s).
Proof.
  intros HP. induction n as [|n IH]; intros e en s T; [exact I|].
  destruct e as [b|x|a|pr|f arg|a b|c a b|c b| |a|x a]; cbn [gexec].
  - exact T.
  - destruct (env_get en x); cbn; auto.
  - pose proof (IH a en s T) as H. destruct (gexec n p a en s) as [[b|m] en1 s1| | | |]; cbn in *; auto.
  - apply HP, T.
  - destruct (fn_body p f) as [body|]; [|exact I].
    destruct (match arg with Some (x, _) => match env_get en x with Some v => Some [v] | None => None end | None => Some [] end) as [cen0|]; [|exact I].
    pose proof (IH body cen0 s T) as H.
    destruct (gexec n p body cen0 s) as [v cen1 s1|cen1 s1|v cen1 s1| |]; cbn in *; auto;
      destruct arg as [[x [|]]|]; cbn; auto; destruct cen1; cbn; auto.
  - pose proof (IH a en s T) as H. destruct (gexec n p a en s) as [v en1 s1| | | |]; cbn in *; auto.
  - pose proof (IH c en s T) as H. destruct (gexec n p c en s) as [[[|]|m] en1 s1| | | |]; cbn in *; auto.
  - pose proof (IH c en s T) as H. destruct (gexec n p c en s) as [[[|]|m] en1 s1| | | |]; cbn in *; auto.
    pose proof (IH b en1 s1 H) as H2. destruct (gexec n p b en1 s1) as [v en2 s2|en2 s2| | |]; cbn in *; auto.
  - exact T.
  - pose proof (IH a en s T) as H. destruct (gexec n p a en s) as [v en1 s1| | | |]; cbn in *; auto.
  - pose proof (IH a en s T) as H. destruct (gexec n p a en s) as [v en1 s1| | | |]; cbn in *; auto.
Qed.

Lemma WI_new txt : WI 0 (p_new txt).
Proof. unfold p_new. apply WI_lex. split; cbn; lia. Qed.

Theorem work_accounting p entry fuel txt t errs st :
  parse_with fuel p entry txt = ParseOk t errs st ->
  N.to_nat (nlex st) = S (List.length (leaves t)) /\
  N.to_nat (nstart st) <= nnodes t + List.length (parents (bld st)).
Proof.
  unfold parse_with. intros H.
  pose proof (gexec_preserves (WI 0) p (exec_prim_WI p) fuel (ECall entry None) [] (p_new txt) (WI_new txt)) as R.
  assert (K : forall s, WI 0 s -> p_finish s = Some (t, errs) ->
            N.to_nat (nlex s) = S (List.length (leaves t)) /\ N.to_nat (nstart s) <= nnodes t + List.length (parents (bld s))).
  { intros s [W1 W2]. unfold p_finish, b_finish. destruct (children (bld s)) as [|[k cs|k tx] [|c2 r]] eqn:C; try discriminate.
    intros X. assert (t = Node k cs) by (destruct (parents (bld s)); congruence). subst t.
    unfold leaves. rewrite leaves_count. unfold ftoks, fnodes in *. cbn [fold_right] in *. lia. }
  destruct (gexec fuel p (ECall entry None) [] (p_new txt)) as [v en s|en s|v en s| |]; try discriminate;
    cbn in R; destruct (p_finish s) as [[t0 es]|] eqn:F; try discriminate; inversion H; subst; apply K; auto.
Qed.
