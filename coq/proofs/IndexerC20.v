(** IndexerC20 (group symmap): C20's class clause, end to end over the models.  Group grammar's theorems over the symbol
    table (proofs/C20SMProofs.v: the class items are the class records registered by name, one tab stop per template
    argument of that record) composed with the state [absN (index_ws w)] the indexer model stands for and with the
    specification [ClassVisit.declared_classes] read off the typed AST (proofs/IndexerClasses.v). *)
From Coq Require Import List NArith Bool Lia PeanoNat.
From TG.Gen Require Import GenTokens GenCompletion.
From TG.Model Require Import Chars Tree SymbolMap Completion CompletionSM.
From TG.Model Require CoreAst Scope Indexer IndexerOps ClassVisit.
From TG.Proofs Require Import SymbolMapBasics C20Proofs C20SMProofs.
From TG.Proofs Require IndexerValid IndexerSim IndexerClasses.
Import ListNotations.
Open Scope list_scope.

Module S := Scope.
Module O := IndexerOps.
Module V := ClassVisit.
Module K := IndexerClasses.

(** ---- the two name equalities and the two association-list disciplines *)
Lemma list_eqb_name_eqb : forall a b, list_eqb a b = CoreAst.name_eqb a b.
Proof. induction a as [|x a IH]; destruct b as [|y b]; cbn; try reflexivity; try (rewrite IH; reflexivity). Qed.
Lemma name_eqb_sym : forall a b, CoreAst.name_eqb a b = CoreAst.name_eqb b a.
Proof. induction a as [|x a IH]; destruct b as [|y b]; cbn; try reflexivity. rewrite IH, N.eqb_sym. reflexivity. Qed.

Lemma amap_of_nodup : forall l, NoDup (map fst (O.amap_of l)).
Proof. induction l as [|e l IH]; cbn; [constructor|apply amap_insert_nodup; exact IH]. Qed.
(** looking a name up in the replayed map = the newest binding of Scope.v's list *)
Lemma amap_get_of : forall l n, amap_get (O.amap_of l) n = S.alookup n l.
Proof.
  induction l as [|[k v] l IH]; intros n; [reflexivity|]. cbn [O.amap_of fold_right fst snd]. fold (O.amap_of l).
  rewrite amap_get_insert, IH. cbn [S.alookup]. rewrite list_eqb_name_eqb, name_eqb_sym. reflexivity.
Qed.

(** ---- the class map of [absN s] under the invariant of proofs/IndexerClasses.v *)
Lemma get_entry_absN : forall s sid, get_entry (O.absN s) sid = get_entry (O.abs s) sid.
Proof. intros s [k i]. destruct k; reflexivity. Qed.
Lemma ntc_absN : forall s, sm_name_to_class (O.absN s) = O.amap_of (S.s_nclass s).
Proof. reflexivity. Qed.

Lemma lookup_parallel : forall s ncl cls n id, Forall2 (K.cls_ok s) ncl cls -> S.alookup n ncl = Some id ->
  exists T, S.alookup n cls = Some T /\ nth_error (map K.sig (S.s_recs s)) (N.to_nat id) = Some (n, true, T).
Proof.
  intros s ncl cls n id H. induction H as [|[k v] [k' T] l l' [H1 H2] _ IH]; cbn; [discriminate|]. cbn in H1, H2. subst k'.
  destruct (CoreAst.name_eqb n k) eqn:E.
  - intros Ev. inversion Ev. subst v. apply K.name_eqb_eq in E. subst k. exists T. split; [reflexivity|exact H2].
  - exact IH.
Qed.
Lemma lookup_parallel_rev : forall s ncl cls n T, Forall2 (K.cls_ok s) ncl cls -> S.alookup n cls = Some T ->
  exists id, S.alookup n ncl = Some id /\ nth_error (map K.sig (S.s_recs s)) (N.to_nat id) = Some (n, true, T).
Proof.
  intros s ncl cls n T H. induction H as [|[k v] [k' T'] l l' [H1 H2] _ IH]; cbn; [discriminate|]. cbn in H1, H2. subst k'.
  destruct (CoreAst.name_eqb n k) eqn:E.
  - intros Ev. inversion Ev. subst T'. apply K.name_eqb_eq in E. subst k. exists v. split; [reflexivity|exact H2].
  - exact IH.
Qed.

(** a record with a given signature is an entry of [absN s] with that name, kind and template-argument names *)
Lemma sig_entry : forall s id nm c T, nth_error (map K.sig (S.s_recs s)) (N.to_nat id) = Some (nm, c, T) ->
  exists e, get_entry (O.absN s) (KRecord, id) = Some e /\ e_name e = nm /\
            p_record_kind (e_payload e) = Some (if c then RKClass else RKDef) /\ map fst (p_targs (e_payload e)) = T.
Proof.
  intros s id nm c T H. rewrite nth_error_map in H. destruct (nth_error (S.s_recs s) (N.to_nat id)) as [r|] eqn:E; [|discriminate].
  cbn in H. inversion H. subst. rewrite get_entry_absN, IndexerSim.get_rec_abs. unfold S.nthN. rewrite E. cbn [option_map].
  eexists. split; [reflexivity|]. cbn. split; [reflexivity|]. split; [reflexivity|].
  unfold O.map_leaf_ids. rewrite map_map. reflexivity.
Qed.

Theorem class_inv_absN : forall s v, K.Inv s v -> class_inv (O.absN s).
Proof.
  intros s v HI. split; [rewrite ntc_absN; apply amap_of_nodup|]. split.
  - intros n id H. rewrite ntc_absN, amap_get_of in H.
    destruct (lookup_parallel s _ _ n id (K.i_cls _ _ HI) H) as (T & _ & Hn).
    destruct (sig_entry s id n true T Hn) as (e & He & Hname & Hk & _). exists e. auto.
  - intros id e He. rewrite get_entry_absN, IndexerSim.get_rec_abs in He.
    destruct (S.nthN (S.s_recs s) id) as [r|] eqn:E; [|discriminate]. cbn in He. inversion He. subst e. cbn.
    unfold O.map_leaf_ids. rewrite map_map. cbn.
    pose proof (K.i_nd _ _ HI) as Hnd. rewrite Forall_forall in Hnd.
    apply (Hnd (K.sig r)). apply in_map. unfold S.nthN in E. eapply nth_error_In. exact E.
Qed.

Lemma Forall2_In_r : forall X Y (P : X -> Y -> Prop) l l' y, Forall2 P l l' -> In y l' -> exists x, In x l /\ P x y.
Proof.
  intros X Y P l l' y H. induction H as [|x0 y0 l l' Hp _ IH]; intros Hin; [destruct Hin|].
  destruct Hin as [<-|Hin]; [exists x0; split; [left; reflexivity|exact Hp]|]. destruct (IH Hin) as (x & Hx & Hpx). exists x. split; [right; exact Hx|exact Hpx].
Qed.
Lemma Forall2_In_l : forall X Y (P : X -> Y -> Prop) l l' x, Forall2 P l l' -> In x l -> exists y, In y l' /\ P x y.
Proof.
  intros X Y P l l' x H. induction H as [|x0 y0 l l' Hp _ IH]; intros Hin; [destruct Hin|].
  destruct Hin as [<-|Hin]; [exists y0; split; [left; reflexivity|exact Hp]|]. destruct (IH Hin) as (y & Hy & Hpy). exists y. split; [right; exact Hy|exact Hpy].
Qed.

(** ---- the class symbols of the state the indexer model stands for = the declared classes, last declaration wins *)
Lemma alookup_map_len : forall n (cls : list (CoreAst.name * list CoreAst.name)),
  S.alookup n (map (fun c => (fst c, length (snd c))) cls) = option_map (@length _) (S.alookup n cls).
Proof. intros n. induction cls as [|[k T] r IH]; cbn; [reflexivity|]. destruct (CoreAst.name_eqb n k); [reflexivity|exact IH]. Qed.

Theorem classes_declared : forall w : CoreAst.workspace,
  let St := O.absN (Indexer.index_ws w) in
  exists cl, class_syms St = SOk cl /\
    Forall2 (sym_matches St) (sm_name_to_class St) cl /\
    NoDup (map cs_name cl) /\
    (forall c, In c cl -> V.last_decl (cs_name c) (V.declared_classes w) = Some (cs_ntargs c)) /\
    (forall n k, V.last_decl n (V.declared_classes w) = Some k -> In {| cs_name := n; cs_ntargs := k |} cl).
Proof.
  intros w St. pose proof (K.index_ws_classes w) as HI. pose proof (class_inv_absN _ _ HI) as CI. fold St in CI.
  destruct (class_syms_of_spec St CI (sm_name_to_class St) (incl_refl _)) as (cl & E & F2).
  exists cl. split; [exact E|]. split; [exact F2|].
  assert (Hn : map cs_name cl = map fst (sm_name_to_class St)).
  { clear E. induction F2 as [|x c l l' (A & _) _ IH]; cbn; auto. now rewrite A, IH. }
  assert (Hchar : forall n id c, In (n, id) (sm_name_to_class St) -> sym_matches St (n, id) c ->
                    V.last_decl n (V.declared_classes w) = Some (cs_ntargs c)).
  { intros n id c Hin (A & _ & B & _). cbn [fst snd] in *.
    assert (Hg : amap_get (sm_name_to_class St) n = Some id) by (apply amap_In_get; [apply CI|exact Hin]).
    unfold St in Hg. rewrite ntc_absN, amap_get_of in Hg.
    destruct (lookup_parallel _ _ _ n id (K.i_cls _ _ HI) Hg) as (T & HT & Hs).
    destruct (sig_entry _ id n true T Hs) as (e & He & _ & _ & Hta). fold St in He.
    unfold V.last_decl, V.declared_classes. rewrite alookup_map_len, HT. cbn. f_equal.
    rewrite B. unfold record_targs. rewrite He. rewrite <- Hta, map_length. reflexivity. }
  split; [rewrite Hn; apply CI|]. split.
  - intros c Hc. destruct (Forall2_In_r _ _ _ _ _ c F2 Hc) as ([n id] & Hin & Hm).
    pose proof Hm as (A & _). cbn [fst] in A. rewrite A. exact (Hchar n id c Hin Hm).
  - intros n k Hk. pose proof Hk as Hk0. unfold V.last_decl, V.declared_classes in Hk. rewrite alookup_map_len in Hk.
    destruct (S.alookup n (V.cv_classes (V.cvisit_ws w))) as [T|] eqn:ET; [|discriminate]. cbn in Hk. inversion Hk. subst k.
    destruct (lookup_parallel_rev _ _ _ n T (K.i_cls _ _ HI) ET) as (id & Hid & _).
    assert (Hin : In (n, id) (sm_name_to_class St)).
    { apply amap_get_In. unfold St. rewrite ntc_absN, amap_get_of. exact Hid. }
    destruct (Forall2_In_l _ _ _ _ _ (n, id) F2 Hin) as (c & Hc & Hm).
    pose proof (Hchar n id c Hin Hm) as Hl. rewrite Hk0 in Hl. inversion Hl as [Hlen].
    destruct Hm as (A & _). cbn [fst] in A. destruct c as [cn ck]. cbn in *. subst cn. rewrite Hlen. exact Hc.
Qed.

(** ---- the handler in a parent-class position, and the placeholders *)
Theorem completion_declared : forall (w : CoreAst.workspace) tr off p rest,
  ancestors_at tr off = Some (p :: S_ClassRef :: rest) ->
  exists cl, completion_sm (O.absN (Indexer.index_ws w)) tr off None = SOk (Some (map class_item cl)) /\
    NoDup (map cs_name cl) /\
    (forall c, In c cl -> V.last_decl (cs_name c) (V.declared_classes w) = Some (cs_ntargs c)) /\
    (forall n k, V.last_decl n (V.declared_classes w) = Some k -> In {| cs_name := n; cs_ntargs := k |} cl) /\
    (forall c, In c cl -> ~ In 36%N (cs_name c) ->
       item_label (class_item c) = cs_name c /\
       tabstops (class_snippet c) = map N.of_nat (seq 1 (cs_ntargs c)) ++ [0%N]).
Proof.
  intros w tr off p rest Ha. destruct (classes_declared w) as (cl & E & _ & Hnd & H1 & H2).
  exists cl. split; [|split; [exact Hnd|split; [exact H1|split; [exact H2|]]]].
  - unfold completion_sm. rewrite E. cbn [sbind]. destruct (C20_classes_proof cl tr off p rest Ha) as (Hc & _). rewrite Hc. reflexivity.
  - intros c _ Hd. split; [reflexivity|]. apply C20_class_placeholders_proof. exact Hd.
Qed.
Print Assumptions classes_declared.
Print Assumptions completion_declared.

Theorem classes_declared_short : forall w : CoreAst.workspace,
  let St := O.absN (Indexer.index_ws w) in
  exists cl, class_syms St = SOk cl /\
    NoDup (map cs_name cl) /\
    (forall c, In c cl -> V.last_decl (cs_name c) (V.declared_classes w) = Some (cs_ntargs c)) /\
    (forall n k, V.last_decl n (V.declared_classes w) = Some k -> In {| cs_name := n; cs_ntargs := k |} cl).
Proof. intros w St. destruct (classes_declared w) as (cl & E & _ & H). exists cl. split; [exact E|exact H]. Qed.

From TG.Model Require AstToCore Pipeline.
From TG.Proofs Require IndexerPipeline BridgeText.
Theorem pipeline_classes : forall pfuel cfuel files root a w,
  Pipeline.analyze pfuel cfuel files root = Some a -> Pipeline.an_core a = AstToCore.Ok w ->
  forall tr off p rest, ancestors_at tr off = Some (p :: S_ClassRef :: rest) ->
  exists cl, completion_sm (O.absN (Indexer.index_ws w)) tr off None = SOk (Some (map class_item cl)) /\
    NoDup (map cs_name cl) /\
    (forall c, In c cl -> V.last_decl (cs_name c) (V.declared_classes w) = Some (cs_ntargs c)) /\
    (forall n k, V.last_decl n (V.declared_classes w) = Some k -> In {| cs_name := n; cs_ntargs := k |} cl) /\
    (forall c, In c cl -> ~ In 36%N (cs_name c) ->
       item_label (class_item c) = cs_name c /\
       tabstops (class_snippet c) = map N.of_nat (seq 1 (cs_ntargs c)) ++ [0%N]).
Proof. intros pfuel cfuel files root a w _ _ tr off p rest Ha. exact (completion_declared w tr off p rest Ha). Qed.

Example pipeline_classes_nonvacuous :
  exists a w, Pipeline.analyze 200 10 [(IndexerPipeline.pipe_ex_path, BridgeText.bridge_example_text)] IndexerPipeline.pipe_ex_path = Some a /\
    Pipeline.an_core a = AstToCore.Ok w /\
    V.declared_classes w = [([65%N], 1%nat)] /\
    class_syms (O.absN (Indexer.index_ws w)) = SOk [ {| cs_name := [65%N]; cs_ntargs := 1 |} ].
Proof.
  pose proof IndexerPipeline.pipe_ex_w_eq as H. unfold IndexerPipeline.pipe_ex_w_val in H.
  match type of H with _ = Some ?w0 => destruct (IndexerPipeline.pipe_ex_from w0 H) as (a & A & E); exists a, w0 end.
  split; [exact A|]. split; [exact E|]. split; vm_compute; reflexivity.
Qed.
Print Assumptions pipeline_classes.
Print Assumptions pipeline_classes_nonvacuous.
