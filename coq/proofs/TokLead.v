(** The non-trivia token sequence of a TEXT, and the refinement of the parser model to the token-level semantics from the
    INITIAL parser state (whose look-ahead may be trivia: the grammar's entry function starts nodes and then skips).
    [ntk txt] = the kinds of the tokens the preprocessor model delivers for [raw_lex txt], without trivia (white space,
    comments, preprocessor directives and the regions they disable), up to Eof; [None] when a lexical / preprocessor Error
    token is among them (a decidable exclusion). *)
From Coq Require Import List NArith Bool Lia PeanoNat Arith String.
From TG.Gen Require Import GenTokens.
From TG.Model Require Import Chars Lexer Prep Tree ParserPrims GInterp TokSem.
From TG.Proofs Require Import GramSound TokRefine.
Import ListNotations.
Close Scope string_scope.
Close Scope N_scope.
Open Scope nat_scope.
Open Scope list_scope.

(** the delivered non-trivia kinds from a preprocessor state and a raw token list *)
Fixpoint ntk_from (fuel : nat) (st : pstate) (raw : list rtok) : option (list TokenKind) :=
  match fuel with
  | O => None
  | S n =>
      let '(k, len, st1, r1) := prep_next st raw in
      if tk_eqb k T_Eof then Some []
      else if tk_eqb k T_Error then None
      else match ntk_from n st1 r1 with
           | Some l => Some (if is_trivia k then l else k :: l)
           | None => None
           end
  end.
Definition ntk (txt : text) : option (list TokenKind) :=
  ntk_from (S (S (List.length (raw_lex txt)))) pinit (raw_lex txt).

(** the same, starting with the look-ahead of a parser state *)
Definition ntk_cur (n : nat) (s : pst) : option (list TokenKind) :=
  if tk_eqb (cur s) T_Eof then Some []
  else if tk_eqb (cur s) T_Error then None
  else match ntk_from n (pp s) (raw s) with
       | Some l => Some (if is_trivia (cur s) then l else cur s :: l)
       | None => None
       end.

Lemma ntk_lex n s : ntk_cur n (p_lex s) = ntk_from (S n) (pp s) (raw s).
Proof.
  unfold ntk_cur, p_lex. cbn [ntk_from]. destruct (prep_next (pp s) (raw s)) as [[[k len] st1] r1].
  destruct (take_bytes len (src s)). reflexivity.
Qed.
Lemma p_save_same s s1 : tk_eqb (cur s) T_Error = false -> p_save s = Some s1 -> pp s1 = pp s /\ raw s1 = raw s.
Proof. unfold p_save. intros E H. rewrite E in H. inversion H. cbn. auto. Qed.

Lemma ntk_mono : forall n st raw l, ntk_from n st raw = Some l -> forall m, n <= m -> ntk_from m st raw = Some l.
Proof.
  induction n as [|n IH]; intros st raw l H m Hm; [discriminate H|]. destruct m as [|m]; [lia|].
  cbn [ntk_from] in *. destruct (prep_next st raw) as [[[k len] st1] r1].
  destruct (tk_eqb k T_Eof); auto. destruct (tk_eqb k T_Error); auto.
  destruct (ntk_from n st1 r1) as [l1|] eqn:E; [|discriminate H]. rewrite (IH _ _ _ E m ltac:(lia)). exact H.
Qed.

(** skipping trivia does not change the sequence *)
Lemma skip_ntk : forall fuel n s s' l, ntk_cur n s = Some l -> p_skip fuel s = Some s' ->
  ntk_cur n s' = Some l /\ is_trivia (cur s') = false.
Proof.
  induction fuel as [|t fuel IH]; intros n s s' l Hn Hs; cbn [p_skip] in Hs.
  - destruct (is_trivia (cur s)) eqn:T; [discriminate Hs|]. inversion Hs. subst. auto.
  - destruct (is_trivia (cur s)) eqn:T; [|inversion Hs; subst; auto].
    destruct (p_save s) as [s1|] eqn:Sv; [|discriminate Hs].
    assert (Ee : tk_eqb (cur s) T_Error = false).
    { destruct (tk_eqb (cur s) T_Error) eqn:E; auto. apply tk_eqb_eq in E. rewrite E in T. discriminate T. }
    destruct (p_save_same s s1 Ee Sv) as (P1 & P2).
    unfold ntk_cur in Hn. rewrite Ee, T in Hn.
    destruct (tk_eqb (cur s) T_Eof) eqn:Ef; [apply tk_eqb_eq in Ef; rewrite Ef in T; discriminate T|].
    destruct (ntk_from n (pp s) (raw s)) as [l0|] eqn:E0; [|discriminate Hn]. inversion Hn. subst l0.
    destruct n as [|n0]; [discriminate E0|].
    assert (Hl : ntk_cur n0 (p_lex s1) = Some l) by (rewrite ntk_lex, P1, P2; exact E0).
    destruct (IH n0 _ _ _ Hl Hs) as (A & B). split; auto.
    unfold ntk_cur in A |- *. destruct (tk_eqb (cur s') T_Eof); auto. destruct (tk_eqb (cur s') T_Error); auto.
    destruct (ntk_from n0 (pp s') (raw s')) as [l1|] eqn:E1; [|discriminate A].
    rewrite (ntk_mono _ _ _ _ E1 (S n0) ltac:(lia)). exact A.
Qed.

Lemma ntk_canon n s : ntk_cur n (canon s) = ntk_cur n s.
Proof. reflexivity. Qed.

(** the sequence of a state whose look-ahead is not trivia is its [Toks] *)
Lemma ntk_toks : forall n s l, ntk_cur n s = Some l -> is_trivia (cur s) = false -> Toks s l.
Proof.
  induction n as [n IH] using lt_wf_ind. intros s l Hn T.
  unfold ntk_cur in Hn. destruct (tk_eqb (cur s) T_Eof) eqn:Ef.
  - inversion Hn. subst. constructor. now apply tk_eqb_eq.
  - destruct (tk_eqb (cur s) T_Error) eqn:Ee; [discriminate Hn|].
    destruct (ntk_from n (pp s) (raw s)) as [l0|] eqn:E0; [|discriminate Hn]. rewrite T in Hn. inversion Hn. subst l.
    apply Toks_cons; auto.
    + intros E. rewrite E in Ef. discriminate Ef.
    + intros E. rewrite E in Ee. discriminate Ee.
    + intros s' He. unfold p_eat in He. destruct (p_save (canon s)) as [s1|] eqn:Sv; [|discriminate He].
      destruct (p_save_same (canon s) s1 Ee Sv) as (P1 & P2). cbn in P1, P2.
      destruct n as [|n0]; [discriminate E0|].
      assert (Hl : ntk_cur n0 (p_lex s1) = Some l0) by (rewrite ntk_lex, P1, P2; exact E0).
      unfold p_skip_all in He. destruct (skip_ntk _ _ _ _ _ Hl He) as (A & B).
      apply (IH n0 ltac:(lia) s' l0 A B).
Qed.

(** * The initial state *)
Lemma ntk_new txt n : ntk_cur n (p_new txt) = ntk_from (S n) pinit (raw_lex txt).
Proof. unfold p_new. rewrite ntk_lex. reflexivity. Qed.

(** "after the initial skip the upcoming tokens are [tks ts]" *)
Definition TP (s : pst) (ts : tst) : Prop :=
  (forall s', p_skip_all (canon s) = Some s' -> Toks s' (tks ts)) /\ nerr s = terr ts /\ after_err s = false /\ tafter ts = false.

Lemma TP_of s w n : ntk_cur n s = Some w -> nerr s = 0 -> after_err s = false ->
  TP s {| tks := w; terr := 0; tafter := false |}.
Proof.
  intros H E1 E2. split; [|split; [exact E1|split; [exact E2|reflexivity]]].
  intros s' Hs. cbn [tks]. rewrite <- ntk_canon in H. unfold p_skip_all in Hs.
  destruct (skip_ntk _ _ _ _ _ H Hs) as (A & B). eapply ntk_toks; eauto.
Qed.
Lemma TP_new txt w : ntk txt = Some w -> TP (p_new txt) {| tks := w; terr := 0; tafter := false |}.
Proof.
  intros H. destruct (p_new_init txt) as (E1 & E2 & _). unfold ntk in H. rewrite <- ntk_new in H.
  eapply TP_of; [exact H| |exact E2]. unfold nerr. rewrite E1. reflexivity.
Qed.

(** * Expressions that reach [skip] before they look at a token *)
Inductive verdict := Harmless | Done | Bad.
Fixpoint lead_skip (n : nat) (p : prog) (e : expr) {struct n} : verdict :=
  match n with
  | O => Bad
  | S m =>
      match e with
      | EB _ => Harmless
      | EPrim (PStartNode _) => Harmless
      | EPrim PSkip => Done
      | ESeq a b => match lead_skip m p a with Done => Done | Harmless => lead_skip m p b | Bad => Bad end
      | ECall f None =>
          match fn_body p f with
          | Some body => match lead_skip m p body with Done => Done | _ => Bad end
          | None => Bad
          end
      | _ => Bad
      end
  end.

(** results of a harmless prefix *)
Definition pre_ok (r : res) (tr : tres) : Prop :=
  match tr with
  | TVal tv ten' ts' =>
      match r with
      | RVal v en' s' => val_rel v tv /\ env_rel en' ten' /\ TP s' ts'
      | RPanic => True
      | _ => False
      end
  | TOOF => match r with ROOF | RPanic => True | _ => False end
  | TStuck => True
  | TBrk _ _ | TRet _ _ _ => match r with RPanic => True | _ => False end
  end.
Lemma pre_panic tr : pre_ok RPanic tr.
Proof. destruct tr; exact I. Qed.

Lemma TP_start_node s ts k : TP s ts -> TP (p_start_node s k) ts.
Proof. intros (A & B & C & D). split; [exact A|]. repeat split; auto. Qed.

Lemma TP_skip s ts s' : TP s ts -> p_skip_all s = Some s' -> TR s' ts.
Proof.
  intros (A & B & C & D) H. unfold p_skip_all in H.
  destruct (canon_p_skip _ s (canon s) s' (eq_sym (canon_idem s)) H) as (c' & Hc & Cc).
  split; [|split].
  - eapply Toks_canon; [symmetry; exact Cc|]. apply A. exact Hc.
  - destruct (p_skip_quiet _ _ _ H) as (E1 & _). unfold nerr in *. now rewrite E1.
  - destruct (p_skip_quiet _ _ _ H) as (_ & E2 & _). rewrite D. auto.
Qed.

Lemma lead_refine p : forall n e,
  (lead_skip n p e = Harmless -> forall fuel en ten s ts, TP s ts -> env_rel en ten ->
      pre_ok (gexec fuel p e en s) (texec fuel p e ten ts)) /\
  (lead_skip n p e = Done -> forall fuel en ten s ts, TP s ts -> env_rel en ten ->
      prim_ok (gexec fuel p e en s) (texec fuel p e ten ts)).
Proof.
  induction n as [|m IH]; intros e; [split; discriminate|].
  destruct e as [b|x|a|pr|f arg|a b|c a b|c b| |a|x a]; cbn [lead_skip]; split; intros L; try discriminate L;
    intros fuel en ten s ts HT He; (destruct fuel as [|fu]; [exact I|]); cbn [gexec texec].
  - (* EB *) cbn. split; [reflexivity|split; [exact He|exact HT]].
  - (* EPrim harmless *)
    destruct pr; try discriminate L. cbn [exec_prim texec_prim pre_ok]. split; [reflexivity|split; [exact He|now apply TP_start_node]].
  - (* EPrim done *)
    destruct pr; try discriminate L. cbn [exec_prim texec_prim]. unfold lift.
    destruct (p_skip_all s) as [s'|] eqn:Es; cbn; auto. split; [reflexivity|split; [exact He|eapply TP_skip; eauto]].
  - (* ECall harmless: impossible *)
    exfalso. destruct arg; [discriminate|]. destruct (fn_body p f); [|discriminate]. destruct (lead_skip m p e); discriminate.
  - (* ECall done *)
    destruct arg; [discriminate|]. destruct (fn_body p f) as [body|]; [|discriminate].
    destruct (lead_skip m p body) eqn:LB; try discriminate.
    pose proof (proj2 (IH body) LB fu [] [] s ts HT (Forall2_nil _)) as R.
    destruct (texec fu p body [] ts) as [tv ten1 ts1|ten1 ts1|tv ten1 ts1| |];
      destruct (gexec fu p body [] s) as [v en1 s1|en1 s1|v en1 s1| |]; cbn in R |- *; auto; try tauto.
  - (* ESeq harmless *)
    destruct (lead_skip m p a) eqn:LA; try discriminate.
    pose proof (proj1 (IH a) LA fu en ten s ts HT He) as RA.
    destruct (texec fu p a ten ts) as [tv ten1 ts1|ten1 ts1|tv ten1 ts1| |];
      destruct (gexec fu p a en s) as [v en1 s1|en1 s1|v en1 s1| |]; cbn in RA |- *; auto; try tauto; try apply pre_panic.
    destruct RA as (_ & R1 & R2). apply (proj1 (IH b) L); auto.
  - (* ESeq done *)
    destruct (lead_skip m p a) eqn:LA; try discriminate.
    + pose proof (proj1 (IH a) LA fu en ten s ts HT He) as RA.
      destruct (texec fu p a ten ts) as [tv ten1 ts1|ten1 ts1|tv ten1 ts1| |];
        destruct (gexec fu p a en s) as [v en1 s1|en1 s1|v en1 s1| |]; cbn in RA |- *; auto; try tauto; try apply ok_panic.
      destruct RA as (_ & R1 & R2). apply (proj2 (IH b) L); auto.
    + pose proof (proj2 (IH a) LA fu en ten s ts HT He) as RA.
      destruct (texec fu p a ten ts) as [tv ten1 ts1|ten1 ts1|tv ten1 ts1| |];
        destruct (gexec fu p a en s) as [v en1 s1|en1 s1|v en1 s1| |]; cbn in RA |- *; auto; try tauto; try apply ok_panic.
      destruct RA as (_ & R1 & R2). apply refine; auto.
Qed.

(** * [ntk] in terms of the preprocessor model's run [prep_text] (property C15's model of what the parser is given) *)
Definition text_kinds (txt : text) : list TokenKind := map (fun x => fst (fst x)) (prep_text txt).
Definition is_word_kind (k : TokenKind) : bool := negb (is_trivia k) && negb (tk_eqb k T_Eof).
(** the non-trivia token kinds of a text *)
Definition text_tokens (txt : text) : list TokenKind := filter is_word_kind (text_kinds txt).
(** the decidable exclusion: no lexical / preprocessor Error token (and the run ends with Eof, which it always does) *)
Definition lex_clean (txt : text) : bool :=
  negb (existsb (fun k => tk_eqb k T_Error) (text_kinds txt)) && tk_eqb (last (text_kinds txt) T_Error) T_Eof.

Lemma ntk_from_prep_all : forall n st raw,
  let ks := map (fun x => fst (fst x)) (prep_all n st raw) in
  existsb (fun k => tk_eqb k T_Error) ks = false -> last ks T_Error = T_Eof ->
  ntk_from n st raw = Some (filter is_word_kind ks).
Proof.
  induction n as [|n IH]; intros st raw ks He Hl; [discriminate Hl|].
  subst ks. cbn [prep_all ntk_from] in *. destruct (prep_next st raw) as [[[k len] st1] r1].
  destruct (tk_eqb k T_Eof) eqn:Ef.
  - apply tk_eqb_eq in Ef. subst k. reflexivity.
  - destruct (tk_eqb k T_Error) eqn:Ee.
    + apply tk_eqb_eq in Ee. subst k. destruct (take_error st1). cbn in He. discriminate He.
    + assert (X : (match k with
                   | T_Eof => [(k, len, None)]
                   | T_Error => let '(e, st2) := take_error st1 in (k, len, e) :: prep_all n st2 r1
                   | _ => (k, len, None) :: prep_all n st1 r1
                   end) = (k, len, None) :: prep_all n st1 r1).
      { destruct k; try reflexivity; discriminate. }
      rewrite X in He, Hl |- *. cbn [map fst existsb] in He. rewrite Ee in He. cbn [orb] in He.
      cbn [map fst] in Hl.
      assert (Hl' : last (map (fun x => fst (fst x)) (prep_all n st1 r1)) T_Error = T_Eof).
      { destruct (map (fun x => fst (fst x)) (prep_all n st1 r1)) eqn:Em; [|exact Hl].
        cbn in Hl. subst k. discriminate Ef. }
      rewrite (IH st1 r1 He Hl'). cbn [map fst filter].
      replace (is_word_kind k) with (negb (is_trivia k)) by (unfold is_word_kind; rewrite Ef; cbn; now rewrite andb_true_r).
      destruct (is_trivia k); reflexivity.
Qed.
Local Strategy opaque [raw_lex prep_next prep_all ntk_from].
Lemma ntk_text txt : lex_clean txt = true -> ntk txt = Some (text_tokens txt).
Proof.
  intros H.
  exact (let H12 := proj1 (andb_true_iff _ _) H in
         ntk_from_prep_all (S (S (List.length (raw_lex txt)))) pinit (raw_lex txt)
           (proj1 (negb_true_iff _) (proj1 H12)) (proj1 (tk_eqb_eq _ _) (proj2 H12))).
Qed.
