(** IndexerCohFlat (group symmap): the structural well-formedness predicate [IndexerCoh.stmt_ok] (every identifier of the
    AST is an identifier token of its file carrying its name) follows from the same condition on the flat list of
    identifiers [CoreParts.file_idents] -- the form in which builder "bridge" proves it for the model pipeline
    (proofs/BridgeSymbol.v).  Then: C06 for the Core fragment composed with the model pipeline. *)
From Coq Require Import List Arith NArith Bool Lia.
From TG.Model Require Import CoreAst CoreParts Scope Indexer IndexerOps.
From TG.Model Require SymbolMap SymbolWf.
From TG.Proofs Require Import IndexerCoh.
Import ListNotations.

Section Flat.
Variable toks : list SymbolWf.tok.
Variable cf : N.
Definition ip (p : part) : Prop := match p with PI i => id_ok toks cf i | PR _ => True end.
Definition IP (l : list part) : Prop := Forall ip l.

Lemma IP_app : forall a b, IP (a ++ b) -> IP a /\ IP b.
Proof. intros a b H. apply Forall_app in H. exact H. Qed.
Lemma IP_cons : forall p l, IP (p :: l) -> ip p /\ IP l.
Proof. intros p l H. inversion H; subst. split; assumption. Qed.
Lemma IP_in : forall A (g : A -> list part) l x, IP (flat_map g l) -> In x l -> IP (g x).
Proof. intros A g l x H Hin. apply Forall_flat_map in H. rewrite Forall_forall in H. apply H. exact Hin. Qed.
Ltac isplit :=
  repeat match goal with
  | H : IP (_ ++ _) |- _ => apply IP_app in H; destruct H
  | H : IP (_ :: _) |- _ => apply IP_cons in H; cbn [ip] in H; destruct H
  | H : IP [] |- _ => clear H
  end.

Lemma ty_flat : forall t, IP (ty_parts t) -> ty_ok toks cf t.
Proof. induction t; cbn [ty_parts ty_ok]; intros H; try exact I; [apply IHt; exact H|isplit; assumption]. Qed.
Lemma suffix_flat : forall sf, IP (suffix_parts sf) -> suffix_ok toks cf sf.
Proof. intros [| |i r]; cbn [suffix_parts suffix_ok]; intros H; try exact I. isplit. assumption. Qed.

(** sizes of list elements *)
Lemma in_sum_inner : forall x l, In x l ->
  (inner_size x <= (fix go (l : list inner) : nat := match l with [] => 0 | x :: r => inner_size x + go r end) l)%nat.
Proof. intros x. induction l as [|y r IH]; intros H; [destruct H|]. destruct H as [<-|H]; [lia|]. specialize (IH H). lia. Qed.
Lemma in_sum_value : forall x l, In x l ->
  (value_size x <= (fix go (l : list value) : nat := match l with [] => 0 | x :: r => value_size x + go r end) l)%nat.
Proof. intros x. induction l as [|y r IH]; intros H; [destruct H|]. destruct H as [<-|H]; [lia|]. specialize (IH H). lia. Qed.
Lemma in_sum_arg : forall x l, In x l ->
  (arg_size x <= (fix go (l : list arg) : nat := match l with [] => 0 | x :: r => arg_size x + go r end) l)%nat.
Proof. intros x. induction l as [|y r IH]; intros H; [destruct H|]. destruct H as [<-|H]; [lia|]. specialize (IH H). lia. Qed.

Lemma values_flat : forall n,
  (forall v, (value_size v <= n)%nat -> IP (value_parts v) -> value_ok toks cf v) /\
  (forall x, (inner_size x <= n)%nat -> IP (inner_parts x) -> inner_ok toks cf x) /\
  (forall s, (simple_size s <= n)%nat -> IP (simple_parts s) -> simple_ok toks cf s) /\
  (forall a, (arg_size a <= n)%nat -> IP (arg_parts a) -> arg_ok toks cf a).
Proof.
  induction n as [|n (IHv & IHi & IHs & IHa)].
  - split; [|split; [|split]].
    + intros [r l] H. cbn in H. lia.
    + intros [s l] H. cbn in H. lia.
    + intros s H. destruct s; cbn in H; lia.
    + intros a H. destruct a; cbn in H; lia.
  - assert (Hvals : forall vs, ((fix go (l : list value) : nat := match l with [] => 0 | x :: r => value_size x + go r end) vs <= n)%nat ->
                               IP (flat_map value_parts vs) -> Forall (value_ok toks cf) vs).
    { intros vs Hs H. apply Forall_forall. intros v Hv. apply IHv; [pose proof (in_sum_value v vs Hv); lia|eapply IP_in; eassumption]. }
    assert (Hargs : forall l, ((fix go (l : list arg) : nat := match l with [] => 0 | x :: r => arg_size x + go r end) l <= n)%nat ->
                               IP (flat_map arg_parts l) -> Forall (arg_ok toks cf) l).
    { intros l Hs H. apply Forall_forall. intros a Ha. apply IHa; [pose proof (in_sum_arg a l Ha); lia|eapply IP_in; eassumption]. }
    split; [|split; [|split]].
    + intros [r inners] Hs H. cbn [value_size] in Hs. cbn [value_parts] in H. isplit. cbn [value_ok].
      apply inners_ok_forall. apply Forall_forall. intros x Hx.
      apply IHi; [pose proof (in_sum_inner x inners Hx); lia|eapply IP_in; eassumption].
    + intros [s sufs] Hs H. cbn [inner_size] in Hs. cbn [inner_parts] in H. isplit. cbn [inner_ok]. split.
      * apply IHs; [lia|assumption].
      * apply Forall_forall. intros sf Hsf. apply suffix_flat. eapply IP_in; eassumption.
    + intros s Hs H. destruct s; cbn [simple_ok]; try exact I; cbn [simple_size] in Hs; cbn [simple_parts] in H.
      * apply vals_ok_forall. apply Hvals; [lia|exact H].
      * apply vals_ok_forall. apply Hvals; [lia|exact H].
      * apply vals_ok_forall. apply Hvals; [lia|exact H].
      * isplit. assumption.
      * isplit. split; [assumption|]. apply args_ok_forall. apply Hargs; [lia|assumption].
      * isplit. split.
        -- destruct annot as [[t tr]|]; cbn [annot_ok]; [|exact I]. isplit. apply ty_flat. assumption.
        -- apply vals_ok_forall. apply Hvals; [lia|assumption].
      * apply vals_ok_forall. apply Hvals; [lia|exact H].
    + intros a Hs H. destruct a; cbn [arg_ok]; try exact I; cbn [arg_size] in Hs; cbn [arg_parts] in H; isplit;
        (apply IHv; [lia|assumption]).
Qed.
Lemma value_flat : forall v, IP (value_parts v) -> value_ok toks cf v.
Proof. intros v. apply (proj1 (values_flat (value_size v))). lia. Qed.
Lemma arg_flat : forall a, IP (arg_parts a) -> arg_ok toks cf a.
Proof. intros a. apply (proj2 (proj2 (proj2 (values_flat (arg_size a))))). lia. Qed.
Lemma values_flat_all : forall vs, IP (flat_map value_parts vs) -> Forall (value_ok toks cf) vs.
Proof. intros vs H. apply Forall_forall. intros v Hv. apply value_flat. eapply IP_in; eassumption. Qed.
Lemma args_flat_all : forall l, IP (flat_map arg_parts l) -> Forall (arg_ok toks cf) l.
Proof. intros l H. apply Forall_forall. intros a Ha. apply arg_flat. eapply IP_in; eassumption. Qed.

Lemma classref_flat : forall c, IP (classref_parts c) -> classref_ok toks cf c.
Proof. intros [i a r] H. cbn [classref_parts] in H. isplit. split; [assumption|apply args_flat_all; assumption]. Qed.
Lemma classrefs_flat : forall l, IP (flat_map classref_parts l) -> Forall (classref_ok toks cf) l.
Proof. intros l H. apply Forall_forall. intros c Hc. apply classref_flat. eapply IP_in; eassumption. Qed.
Lemma opt_value_flat : forall o, IP (opt_parts value_parts o) -> opt_ok (value_ok toks cf) o.
Proof. intros [v|] H; cbn in *; [apply value_flat; exact H|exact I]. Qed.
Lemma targ_flat : forall a, IP (targ_parts a) -> targ_ok toks cf a.
Proof.
  intros [t i d] H. cbn [targ_parts] in H. isplit. split; [apply ty_flat; assumption|]. split; [assumption|].
  apply opt_value_flat. assumption.
Qed.
Lemma targs_flat : forall o, IP (opt_parts (flat_map targ_parts) o) -> opt_ok (Forall (targ_ok toks cf)) o.
Proof.
  intros [l|] H; cbn in *; [|exact I]. apply Forall_forall. intros a Ha. apply targ_flat. eapply IP_in; eassumption.
Qed.
Lemma item_flat : forall it, IP (item_parts it) -> item_ok toks cf it.
Proof.
  intros it H. destruct it; cbn [item_parts] in H; cbn [item_ok]; isplit.
  - split; [apply ty_flat; assumption|]. split; [assumption|apply opt_value_flat; assumption].
  - split; [assumption|apply value_flat; assumption].
  - split; [assumption|apply value_flat; assumption].
  - split; apply value_flat; assumption.
  - apply value_flat. exact H.
Qed.
Lemma items_flat : forall l, IP (flat_map item_parts l) -> Forall (item_ok toks cf) l.
Proof. intros l H. apply Forall_forall. intros c Hc. apply item_flat. eapply IP_in; eassumption. Qed.

Lemma in_sum_stmt : forall x l, In x l ->
  (stmt_size x <= (fix go (l : list stmt) : nat := match l with [] => 0 | x :: r => stmt_size x + go r end) l)%nat.
Proof. intros x. induction l as [|y r IH]; intros H; [destruct H|]. destruct H as [<-|H]; [lia|]. specialize (IH H). lia. Qed.

Lemma stmt_flat_n : forall n x, (stmt_size x <= n)%nat -> IP (stmt_parts x) -> stmt_ok toks cf x.
Proof.
  induction n as [|n IH]; intros x Hs H; [destruct x; cbn in Hs; lia|].
  assert (Hl : forall l, ((fix go (l : list stmt) : nat := match l with [] => 0 | x :: r => stmt_size x + go r end) l <= n)%nat ->
                         IP (flat_map stmt_parts l) -> Forall (stmt_ok toks cf) l).
  { intros l Hsz Hp. apply Forall_forall. intros y Hy. apply IH; [pose proof (in_sum_stmt y l Hy); lia|eapply IP_in; eassumption]. }
  destruct x; cbn [stmt_size] in Hs; cbn [stmt_parts] in H; cbn [stmt_ok]; isplit.
  - exact I.
  - split; apply value_flat; assumption.
  - split; [assumption|]. split; [apply targs_flat; assumption|]. split; [apply classrefs_flat; assumption|apply items_flat; assumption].
  - split; [apply opt_value_flat; assumption|]. split; [apply classrefs_flat; assumption|apply items_flat; assumption].
  - split; [apply opt_value_flat; assumption|apply classrefs_flat; assumption].
  - split; [apply ty_flat; assumption|]. split; [assumption|]. apply stmts_ok_forall. apply Hl; [lia|assumption].
  - split; [assumption|apply value_flat; assumption].
  - apply value_flat. exact H.
  - split; [assumption|]. split; [destruct init; [exact I|apply value_flat; assumption]|].
    apply stmts_ok_forall. apply Hl; [destruct init; lia|assumption].
  - split; [apply value_flat; assumption|]. split.
    + apply stmts_ok_forall. apply Hl; [destruct el; lia|assumption].
    + destruct el as [e|]; [|exact I]. apply stmts_ok_forall. apply Hl; [lia|assumption].
  - split; [apply values_flat_all; assumption|]. apply stmts_ok_forall. apply Hl; [lia|assumption].
  - split; [assumption|]. split; [apply targs_flat; assumption|]. split; [apply classrefs_flat; assumption|].
    apply stmts_ok_forall. apply Hl; [lia|assumption].
Qed.

Theorem stmts_ok_of_idents : forall body,
  Forall (id_ok toks cf) (file_idents body) -> Forall (stmt_ok toks cf) body.
Proof.
  intros body H. apply Forall_forall. intros x Hx. apply (stmt_flat_n (stmt_size x)); [lia|].
  unfold file_idents in H. rewrite Forall_flat_map in H. unfold IP. rewrite Forall_forall in *.
  intros p Hp. assert (Hin : In p (flat_map stmt_parts body)) by (apply in_flat_map; exists x; split; assumption).
  specialize (H p Hin). destruct p as [r|i]; cbn [ip]; [exact I|]. inversion H; assumption.
Qed.
End Flat.
Print Assumptions stmts_ok_of_idents.
