(** Non-vacuity of C07_pipeline_history_independent: disk a.td (includes b.td), b.td, c.td; history: touch a.td with a
    text that includes c.td instead of b.td (include retargeted), touch b.td (root switch; b.td now includes a.td), touch
    a.td again (root switch back).  Both sides run inside Coq (model lexer + preprocessor + parser + host + bridge). *)
From Coq Require Import List NArith Bool Arith.
From TG.Gen Require Import GenTokens GenAst GenGrammar.
From TG.Model Require Import Chars Lexer Prep Tree ParserPrims GInterp AstAccess Includes Host CoreAst AstToCore Scope Indexer Pipeline PipelineHost.
From TG.Proofs Require Import PipelineHostFrame.
Import ListNotations.
Open Scope N_scope.

Definition px_a : text := [47;119;47;97;46;116;100].
Definition px_b : text := [47;119;47;98;46;116;100].
Definition px_c : text := [47;119;47;99;46;116;100].
Definition tx_a0 : text := [105;110;99;108;117;100;101;32;34;98;46;116;100;34;10;99;108;97;115;115;32;65;32;58;32;66;59;10].
Definition tx_b0 : text := [99;108;97;115;115;32;66;59;10].
Definition tx_c0 : text := [99;108;97;115;115;32;67;32;123;32;105;110;116;32;120;32;61;32;49;59;32;125;10].
Definition tx_a1 : text := [105;110;99;108;117;100;101;32;34;99;46;116;100;34;10;99;108;97;115;115;32;65;32;58;32;67;59;10;100;101;102;32;100;32;58;32;65;59;10].
Definition tx_b1 : text := [105;110;99;108;117;100;101;32;34;97;46;116;100;34;10;99;108;97;115;115;32;66;50;59;10].

Definition px_disk : list (text * text) := [(px_a, tx_a0); (px_b, tx_b0); (px_c, tx_c0)].
Definition px_hist : list (text * text) := [(px_a, tx_a1); (px_b, tx_b1)].
Definition px_final : list (text * text) := rev (px_hist ++ [(px_a, tx_a1)]) ++ px_disk.

Definition px_dfs := disk_files_of 400 px_final.

Example pipeline_hypotheses_satisfiable :
  exists st1 an ws,
    Host.run 20 (world_of (skipn 3 (disk_files_of 400 px_final))) Host.st_init
             (rev (firstn 3 (disk_files_of 400 px_final))) = Done st1 /\
    analyze 400 20 px_final px_a = Some an /\
    an_core an = Ok ws /\ List.length (ws_files ws) = 2%nat /\ an_perrs an = [] /\
    List.length (ids (fst st1)) = 3%nat.      (* a.td, c.td and b.td are known to the history's host; a fresh start knows 2 *)
Proof.
  remember (Host.run 20 (world_of (skipn 3 (disk_files_of 400 px_final))) Host.st_init
                     (rev (firstn 3 (disk_files_of 400 px_final)))) as r eqn:Er.
  remember (analyze 400 20 px_final px_a) as o eqn:Eo.
  assert (Q : (match r, o with
               | Done st1, Some an =>
                   match an_core an with
                   | Ok ws => Nat.eqb (List.length (ws_files ws)) 2 &&
                              match an_perrs an with [] => true | _ => false end &&
                              Nat.eqb (List.length (ids (fst st1))) 3
                   | _ => false
                   end
               | _, _ => false
               end) = true) by (subst r o; vm_compute; reflexivity).
  clear Er Eo.
  destruct r as [st1| |]; try discriminate Q.
  destruct o as [an|]; try discriminate Q.
  destruct (an_core an) as [ws| |] eqn:Ec; try discriminate Q.
  apply andb_true_iff in Q. destruct Q as [Q Q3]. apply andb_true_iff in Q. destruct Q as [Q1 Q2].
  exists st1, an, ws. split; [reflexivity|]. split; [reflexivity|]. split; [exact Ec|].
  split; [apply Nat.eqb_eq; exact Q1|]. split; [destruct (an_perrs an); [reflexivity|discriminate Q2]|].
  apply Nat.eqb_eq. exact Q3.
Qed.
