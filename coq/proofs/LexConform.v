(** LexConform: the lexer model (Lexer.v) conforms to the token-language specification (LexSpec.v).
    Per class a munch lemma  lex_one (w ++ r) = (k, None, w, r)  for every lexeme w of the class and every
    continuation r allowed by [follow_ok]; then C14_conforms by induction on the piece list. *)
From Coq Require Import List Arith PeanoNat NArith Bool Lia String Ascii Btauto Wf_nat.
From TG.Gen Require Import GenTokens GenLexTables GenUnicode.
From TG.Model Require Import Chars Lexer LexSpec.
From TG.Proofs Require Import LexBasics.
Import ListNotations.
Open Scope N_scope.

(** * Bridging the two sets of character classes (they are defined independently) *)

Lemma cls_digit c : is_ascii_digit c = digit c.
Proof. reflexivity. Qed.
Lemma cls_ualpha c : is_identifier_start c = ualpha c.
Proof. unfold is_identifier_start, is_ascii_alphabetic, ualpha. btauto. Qed.
Lemma cls_letter c : is_ascii_alphabetic c = letter c.
Proof. unfold is_ascii_alphabetic, letter. btauto. Qed.
Lemma cls_idchar c : is_identifier_continue c = idchar c.
Proof.
  unfold is_identifier_continue, is_ascii_alphanumeric, is_ascii_alphabetic, idchar, ualpha, digit, is_ascii_digit.
  btauto.
Qed.
Lemma cls_hexdigit c : is_ascii_hexdigit c = hexdigit c.
Proof. unfold is_ascii_hexdigit, hexdigit, is_ascii_digit, digit. btauto. Qed.
Lemma cls_bindigit c : is_bin_digit c = bindigit c.
Proof. reflexivity. Qed.
Lemma cls_newline c : is_newline c = newline c.
Proof. unfold is_newline, newline. btauto. Qed.
Lemma cls_wschar c : is_ascii_whitespace c = wschar c.
Proof. reflexivity. Qed.

Lemma stext_eqb_list_eqb a : forall b, stext_eqb a b = list_eqb a b.
Proof. induction a as [|x a IH]; intros [|y b]; cbn; first [reflexivity | rewrite IH; reflexivity]. Qed.

Lemma stext_eqb_eq a : forall b, stext_eqb a b = true -> a = b.
Proof.
  induction a as [|x a IH]; intros [|y b]; cbn [stext_eqb]; try discriminate; [reflexivity|].
  intros H. apply andb_true_iff in H. destruct H as [H1 H2]. apply N.eqb_eq in H1. apply IH in H2. congruence.
Qed.
Lemma stext_eqb_refl a : stext_eqb a a = true.
Proof. induction a as [|x a IH]; cbn [stext_eqb]; [reflexivity|]. rewrite N.eqb_refl, IH. reflexivity. Qed.
Lemma list_eqb_eq a b : list_eqb a b = true -> a = b.
Proof. rewrite <- stext_eqb_list_eqb. apply stext_eqb_eq. Qed.
Lemma list_eqb_refl a : list_eqb a a = true.
Proof. rewrite <- stext_eqb_list_eqb. apply stext_eqb_refl. Qed.

(** * Finite checks over the ASCII range *)

Fixpoint upto (n : nat) : list N := match n with O => [] | S k => upto k ++ [N.of_nat k] end.

Lemma upto_in n c : (N.to_nat c < n)%nat -> In c (upto n).
Proof.
  induction n as [|k IH]; intros H; [lia|]. cbn [upto]. apply in_or_app.
  destruct (Nat.eq_dec (N.to_nat c) k) as [E|E].
  - right. left. rewrite <- E. apply N2Nat.id.
  - left. apply IH. lia.
Qed.

Lemma ascii_check (P : N -> bool) : forallb P (upto 128) = true -> forall c, c < 128 -> P c = true.
Proof.
  intros H c L. rewrite forallb_forall in H. apply H. apply upto_in. lia.
Qed.

Ltac b2p H :=
  repeat match type of H with
  | _ && _ = true => let H1 := fresh H in let H2 := fresh H in apply andb_true_iff in H; destruct H as [H1 H2]; b2p H1; b2p H2
  | _ || _ = true => apply orb_true_iff in H; destruct H as [H|H]; b2p H
  | (_ <=? _) = true => apply N.leb_le in H
  | (_ <? _) = true => apply N.ltb_lt in H
  | (_ =? _) = true => apply N.eqb_eq in H
  end.

Lemma digit_lt c : digit c = true -> c < 128.
Proof. unfold digit. intros H. b2p H. lia. Qed.
Lemma ualpha_lt c : ualpha c = true -> c < 128.
Proof. unfold ualpha. intros H. b2p H; lia. Qed.
Lemma letter_lt c : letter c = true -> c < 128.
Proof. unfold letter. intros H. b2p H; lia. Qed.
Lemma idchar_lt c : idchar c = true -> c < 128.
Proof. unfold idchar. intros H. apply orb_true_iff in H. destruct H; [apply ualpha_lt|apply digit_lt]; assumption. Qed.
Lemma wschar_lt c : wschar c = true -> c < 128.
Proof. unfold wschar. intros H. b2p H; lia. Qed.

(** dispatch facts of [lex_one] for the first character of each class *)
Lemma ws_first c : wschar c = true -> is_whitespace c = true.
Proof.
  intros H. pose proof (wschar_lt c H) as L. revert H.
  apply (ascii_check (fun c => implb (wschar c) (is_whitespace c))) in L; [|vm_compute; reflexivity].
  destruct (wschar c); [intros _; exact L|discriminate].
Qed.

Definition not_ws_slash (c : N) : bool := negb (is_whitespace c) && negb (c =? 47).

Lemma digit_first c : digit c = true ->
  is_whitespace c = false /\ (c =? 47) = false.
Proof.
  intros H. pose proof (digit_lt c H) as L.
  apply (ascii_check (fun c => implb (digit c) (negb (is_whitespace c) && negb (c =? 47)))) in L; [|vm_compute; reflexivity].
  rewrite H in L. cbn [implb] in L. apply andb_true_iff in L. destruct L as [L1 L2].
  apply negb_true_iff in L1, L2. split; assumption.
Qed.

Lemma ualpha_first c : ualpha c = true ->
  is_whitespace c = false /\ (c =? 47) = false /\ digit c = false /\ (c =? 45) = false /\ (c =? 43) = false.
Proof.
  intros H. pose proof (ualpha_lt c H) as L.
  apply (ascii_check (fun c => implb (ualpha c)
     (negb (is_whitespace c) && negb (c =? 47) && negb (digit c) && negb (c =? 45) && negb (c =? 43)))) in L;
    [|vm_compute; reflexivity].
  rewrite H in L. cbn [implb] in L.
  repeat (apply andb_true_iff in L; destruct L as [L ?]).
  repeat match goal with X : negb _ = true |- _ => apply negb_true_iff in X end.
  repeat split; assumption.
Qed.

(** * Scanner primitives on  lexeme ++ continuation *)

Lemma hdp_ext (p q : N -> bool) r : (forall c, p c = q c) -> hdp p r = hdp q r.
Proof. intros E. destruct r; cbn; [reflexivity|apply E]. Qed.

Lemma eat_while_munch (p : N -> bool) a r :
  forallb p a = true -> hdp p r = false -> eat_while p (a ++ r) = (a, r).
Proof.
  intros A R. induction a as [|c a IH]; cbn [app].
  - destruct r as [|d r']; [reflexivity|]. cbn [hdp] in R. cbn [eat_while]. rewrite R. reflexivity.
  - cbn [forallb] in A. apply andb_true_iff in A. destruct A as [A1 A2].
    cbn [eat_while]. rewrite A1, (IH A2). reflexivity.
Qed.

Lemma forallb_ext {A} (p q : A -> bool) l : (forall c, p c = q c) -> forallb p l = forallb q l.
Proof. intros E. induction l as [|c l IH]; cbn; [reflexivity|]. rewrite E, IH. reflexivity. Qed.

Lemma hd_eqb_app_cons x c (a r : text) : hd_eqb x ((c :: a) ++ r) = (c =? x).
Proof. reflexivity. Qed.

Lemma hd_eqb_hdp x r : hd_eqb x r = hdp (N.eqb x) r.
Proof. destruct r; cbn; [reflexivity|apply N.eqb_sym]. Qed.

(** * Table facts: the generated tables agree with the specification's lists (re-established by
    computation whenever the tables are regenerated from the sources) *)

Lemma in_table_inv tbl k w : in_table tbl k w = true -> exists e, In e tbl /\ snd e = k /\ cps (fst e) = w.
Proof.
  unfold in_table. intros H. apply existsb_exists in H. destruct H as (e & I & H).
  apply andb_true_iff in H. destruct H as [H1 H2]. exists e. split; [exact I|].
  split; [apply tk_eqb_eq; exact H1|apply stext_eqb_eq; exact H2].
Qed.

Lemma word_in_false tbl e : In e tbl -> word_in tbl (cps (fst e)) = true.
Proof.
  intros I. unfold word_in. apply existsb_exists. exists e. split; [exact I|apply stext_eqb_refl].
Qed.

Lemma lookup_in {A} (tbl : list (list N * A)) key v : lookup tbl key = Some v -> In (key, v) tbl.
Proof.
  induction tbl as [|[k' v'] tbl IH]; cbn [lookup]; [discriminate|].
  destruct (list_eqb k' key) eqn:E.
  - intros H. inversion H; subst. apply list_eqb_eq in E. subst. left. reflexivity.
  - intros H. right. apply IH. exact H.
Qed.

(** every keyword of the table is a reserved word of the specification, with the same kind ... *)
Lemma keyword_table_sub :
  forallb (fun kv => in_table keywords (snd kv) (fst kv)) keyword_table = true.
Proof. vm_compute. reflexivity. Qed.
(** ... and every reserved word of the specification is in the table with that kind, consists of
    identifier characters and starts with a ualpha *)
Lemma keywords_in_table :
  forallb (fun e => match cps (fst e) with
                    | c :: cs => ualpha c && forallb idchar cs
                                 && match lookup keyword_table (c :: cs) with Some k => tk_eqb k (snd e) | None => false end
                    | [] => false end) keywords = true.
Proof. vm_compute. reflexivity. Qed.

Lemma bangs_in_table :
  forallb (fun e => match cps (fst e) with
                    | c :: cs => (c =? 33) && forallb letter cs
                                 && match lookup bangop_table cs with Some k => tk_eqb k (snd e) | None => false end
                                 && negb (wordlike (snd e))
                    | [] => false end) bangs = true.
Proof. vm_compute. reflexivity. Qed.

Lemma directives_in_table :
  forallb (fun e => match cps (fst e) with
                    | c :: cs => (c =? 35) && forallb letter cs
                                 && match lookup directive_table cs with Some k => tk_eqb k (snd e) | None => false end
                                 && negb (wordlike (snd e)) && negb (kind_in bangs (snd e))
                    | [] => false end) directives = true.
Proof. vm_compute. reflexivity. Qed.

(** every directive name of the table is one of the specification's directive words *)
Lemma directive_table_sub :
  forallb (fun kv => existsb (fun d => stext_eqb (cps d) (fst kv)) directive_words) directive_table = true.
Proof. vm_compute. reflexivity. Qed.

Lemma keyword_lookup_none w : word_in keywords w = false -> lookup keyword_table w = None.
Proof.
  intros H. destruct (lookup keyword_table w) as [k|] eqn:L; [|reflexivity].
  apply lookup_in in L. pose proof keyword_table_sub as S. rewrite forallb_forall in S.
  specialize (S _ L). cbn [fst snd] in S. apply in_table_inv in S. destruct S as (e & I & _ & W).
  apply word_in_false in I. rewrite W in I. congruence.
Qed.

(** * Separators *)

Definition munched (k : TokenKind) (w r : text) : Prop := lex_one (w ++ r) = (k, None, w, r).

Lemma munch_ws w r : is_ws w = true -> hdp wschar r = false -> munched T_Whitespace w r.
Proof.
  unfold is_ws, munched. intros H R. apply andb_true_iff in H. destruct H as [H1 H2].
  destruct w as [|c w']; [discriminate|]. cbn [forallb] in H2. apply andb_true_iff in H2. destruct H2 as [C W].
  cbn [app]. rewrite lex_one_eq. rewrite (ws_first c C).
  rewrite (eat_while_munch is_ascii_whitespace w' r); [reflexivity| |].
  - rewrite (forallb_ext _ wschar); [exact W|apply cls_wschar].
  - rewrite (hdp_ext _ wschar); [exact R|apply cls_wschar].
Qed.

Lemma ws47 : is_whitespace 47 = false.
Proof. vm_compute. reflexivity. Qed.

Lemma munch_line w r : is_line_comment w = true -> (is_nil r || hdp newline r) = true -> munched T_LineComment w r.
Proof.
  unfold is_line_comment, munched. intros H R.
  destruct w as [|a [|b body]]; try discriminate.
  apply andb_true_iff in H. destruct H as [H B]. apply andb_true_iff in H. destruct H as [Ha Hb].
  apply N.eqb_eq in Ha, Hb. subst a b.
  cbn [app]. rewrite lex_one_eq. rewrite ws47. cbn [hd_eqb]. rewrite N.eqb_refl. cbn [andb tl].
  unfold eat_until.
  rewrite (eat_while_munch (fun c => negb (is_newline c)) body r); [reflexivity| |].
  - rewrite (forallb_ext _ (fun c => negb (newline c))); [exact B|intros c; rewrite cls_newline; reflexivity].
  - destruct r as [|d r']; [reflexivity|]. cbn [is_nil hdp orb] in *. rewrite cls_newline, R. reflexivity.
Qed.

Lemma block_comment_cons2 depth c d r' :
  block_comment depth (c :: d :: r') =
  if (c =? 47) && (d =? 42) then let '(a, b) := block_comment (S depth) r' in (c :: d :: a, b)
  else if (c =? 42) && (d =? 47) then
    match depth with
    | O => ([c; d], r')
    | S depth' => let '(a, b) := block_comment depth' r' in (c :: d :: a, b)
    end
  else let '(a, b) := block_comment depth (d :: r') in (c :: a, b).
Proof. reflexivity. Qed.

Lemma block_comment_munch : forall n t, (List.length t <= n)%nat -> forall depth r,
  bc_tail depth t = true -> block_comment depth (t ++ r) = (t, r).
Proof.
  induction n as [|n IH]; intros t L depth r H.
  - destruct t; [discriminate|cbn in L; lia].
  - destruct t as [|c [|d t']]; [discriminate|discriminate|].
    cbn [bc_tail] in H. cbn [app]. rewrite block_comment_cons2.
    destruct ((c =? 47) && (d =? 42)).
    + rewrite (IH t'); [reflexivity|cbn in L; lia|exact H].
    + destruct ((c =? 42) && (d =? 47)).
      * destruct depth as [|depth'].
        -- destruct t'; [reflexivity|discriminate].
        -- rewrite (IH t'); [reflexivity|cbn in L; lia|exact H].
      * change (d :: t' ++ r) with ((d :: t') ++ r).
        rewrite (IH (d :: t')); [reflexivity|cbn in L |- *; lia|exact H].
Qed.

Lemma munch_block w r : is_block_comment w = true -> munched T_BlockComment w r.
Proof.
  unfold is_block_comment, munched. intros H.
  destruct w as [|a [|b t]]; try discriminate.
  apply andb_true_iff in H. destruct H as [H B]. apply andb_true_iff in H. destruct H as [Ha Hb].
  apply N.eqb_eq in Ha, Hb. subst a b.
  cbn [app]. rewrite lex_one_eq. rewrite ws47. cbn [hd_eqb].
  replace (42 =? 47) with false by reflexivity. rewrite N.eqb_refl. cbn [andb tl].
  rewrite (block_comment_munch (List.length t) t (le_n _) O r B). reflexivity.
Qed.

(** * Strings, code fragments, variable names *)

Lemma string_body_cons escaped c r :
  string_body escaped (c :: r) =
  if (c =? 92) && negb escaped then let '(k, e, a, b) := string_body true r in (k, e, c :: a, b)
  else if (c =? 34) && negb escaped then tok T_StrVal [c] r
  else if (c =? 13) || (c =? 10) then err EEolInString [c] r
  else let '(k, e, a, b) := string_body false r in (k, e, c :: a, b).
Proof. reflexivity. Qed.

Lemma escchar_plain e : escchar e = true -> ((e =? 13) || (e =? 10)) = false.
Proof. unfold escchar. intros H. b2p H; subst; reflexivity. Qed.

Lemma string_munch : forall n t, (List.length t <= n)%nat -> forall r,
  str_tail t = true -> string_body false (t ++ r) = (T_StrVal, None, t, r).
Proof.
  induction n as [|n IH]; intros t L r H.
  - destruct t; [discriminate|cbn in L; lia].
  - destruct t as [|c t1]; [discriminate|]. cbn [str_tail] in H. cbn [app]. rewrite string_body_cons.
    destruct (c =? 34) eqn:Q.
    + apply N.eqb_eq in Q. subst c. destruct t1; [|discriminate]. reflexivity.
    + destruct (c =? 92) eqn:B.
      * destruct t1 as [|e t2]; [discriminate|]. apply andb_true_iff in H. destruct H as [E H].
        cbn [negb andb app]. rewrite string_body_cons. cbn [negb]. rewrite !andb_false_r.
        rewrite (escchar_plain e E).
        rewrite (IH t2); [reflexivity|cbn in L; lia|exact H].
      * apply andb_true_iff in H. destruct H as [NL H]. apply negb_true_iff in NL.
        cbn [andb]. replace ((c =? 13) || (c =? 10)) with false
          by (symmetry; unfold newline in NL; rewrite orb_comm; exact NL).
        rewrite (IH t1); [reflexivity|cbn in L; lia|exact H].
Qed.

Lemma ws34 : is_whitespace 34 = false. Proof. vm_compute. reflexivity. Qed.
Lemma ws36 : is_whitespace 36 = false. Proof. vm_compute. reflexivity. Qed.
Lemma ws91 : is_whitespace 91 = false. Proof. vm_compute. reflexivity. Qed.
Lemma ws33 : is_whitespace 33 = false. Proof. vm_compute. reflexivity. Qed.
Lemma ws35 : is_whitespace 35 = false. Proof. vm_compute. reflexivity. Qed.
Lemma ws46 : is_whitespace 46 = false. Proof. vm_compute. reflexivity. Qed.
Lemma ws43 : is_whitespace 43 = false. Proof. vm_compute. reflexivity. Qed.
Lemma ws45 : is_whitespace 45 = false. Proof. vm_compute. reflexivity. Qed.

Lemma munch_string w r : is_string w = true -> munched T_StrVal w r.
Proof.
  unfold is_string, munched. intros H. destruct w as [|q t]; [discriminate|].
  apply andb_true_iff in H. destruct H as [Q H]. apply N.eqb_eq in Q. subst q.
  cbn [app]. rewrite lex_one_eq. rewrite ws34.
  change (34 =? 47) with false. change (is_ascii_digit 34) with false. change (34 =? 45) with false.
  change (34 =? 43) with false. change (is_identifier_start 34) with false. change (34 =? 34) with true.
  cbn [andb]. rewrite (string_munch (List.length t) t (le_n _) r H). reflexivity.
Qed.

Lemma eat_until2_cons2 x y c d r :
  eat_until2 x y (c :: d :: r) =
  if (c =? x) && (d =? y) then ([], c :: d :: r)
  else let '(a, b) := eat_until2 x y (d :: r) in (c :: a, b).
Proof. reflexivity. Qed.

Lemma code_munch t r : code_tail t = true ->
  exists a, t = a ++ [125; 93] /\ eat_until2 125 93 (t ++ r) = (a, 125 :: 93 :: r).
Proof.
  induction t as [|c t1 IH]; [discriminate|]. cbn [code_tail]. intros H.
  destruct ((c =? 125) && hdp (N.eqb 93) t1) eqn:E.
  - apply andb_true_iff in E. destruct E as [E1 E2]. apply N.eqb_eq in E1. subst c.
    destruct t1 as [|d t2]; [discriminate|]. cbn [hdp] in E2. apply N.eqb_eq in E2. subst d.
    cbn [tl] in H. destruct t2; [|discriminate]. exists []. split; reflexivity.
  - destruct (IH H) as (a & T & EU). exists (c :: a). split; [cbn; congruence|].
    destruct t1 as [|d t2]; [discriminate|]. cbn [app]. rewrite eat_until2_cons2.
    cbn [hdp] in E. rewrite (N.eqb_sym 93 d) in E. rewrite E.
    change (d :: t2 ++ r) with ((d :: t2) ++ r). rewrite EU. reflexivity.
Qed.

Lemma munch_code w r : is_code w = true -> munched T_CodeFragment w r.
Proof.
  unfold is_code, munched. intros H. destruct w as [|a [|b t]]; try discriminate.
  apply andb_true_iff in H. destruct H as [H T]. apply andb_true_iff in H. destruct H as [Ha Hb].
  apply N.eqb_eq in Ha, Hb. subst a b.
  cbn [app]. rewrite lex_one_eq. rewrite ws91.
  change (91 =? 47) with false. change (is_ascii_digit 91) with false. change (91 =? 45) with false.
  change (91 =? 43) with false. change (is_identifier_start 91) with false. change (91 =? 34) with false.
  change (91 =? 36) with false. change (91 =? 91) with true. cbn [andb hd_eqb tl]. rewrite N.eqb_refl.
  rewrite code_fragment_eq. destruct (code_munch t r T) as (a & TA & EU). rewrite EU.
  cbn [hd_eqb tl]. rewrite !N.eqb_refl. cbn [andb]. unfold tok. rewrite <- TA. reflexivity.
Qed.

Lemma munch_var w r : is_var w = true -> hdp idchar r = false -> munched T_VarName w r.
Proof.
  unfold is_var, munched. intros H R. destruct w as [|d [|c cs]]; try discriminate.
  apply andb_true_iff in H. destruct H as [H CS]. apply andb_true_iff in H. destruct H as [D C].
  apply N.eqb_eq in D. subst d.
  cbn [app]. rewrite lex_one_eq. rewrite ws36.
  change (36 =? 47) with false. change (is_ascii_digit 36) with false. change (36 =? 45) with false.
  change (36 =? 43) with false. change (is_identifier_start 36) with false. change (36 =? 34) with false.
  change (36 =? 36) with true. cbn [andb].
  unfold var_name. rewrite cls_ualpha, C.
  rewrite (eat_while_munch is_identifier_continue cs r); [reflexivity| |].
  - rewrite (forallb_ext _ idchar); [exact CS|apply cls_idchar].
  - rewrite (hdp_ext _ idchar); [exact R|apply cls_idchar].
Qed.

(** * Words that start with a ualpha: keywords and identifiers *)

Lemma lex_word c cs r : ualpha c = true -> forallb idchar cs = true -> hdp idchar r = false ->
  lex_one ((c :: cs) ++ r) =
  match lookup keyword_table (c :: cs) with
  | Some k => (k, None, c :: cs, r)
  | None => (T_Id, None, c :: cs, r)
  end.
Proof.
  intros C CS R. destruct (ualpha_first c C) as (W & S & D & M & P).
  cbn [app]. rewrite lex_one_eq. rewrite W, S, cls_digit, D, M, P, cls_ualpha, C. cbn [andb].
  unfold identifier.
  rewrite (eat_while_munch is_identifier_continue cs r).
  - destruct (lookup keyword_table (c :: cs)); reflexivity.
  - rewrite (forallb_ext _ idchar); [exact CS|apply cls_idchar].
  - rewrite (hdp_ext _ idchar); [exact R|apply cls_idchar].
Qed.

Lemma munch_keyword k w r : in_table keywords k w = true -> hdp idchar r = false -> munched k w r.
Proof.
  intros H R. apply in_table_inv in H. destruct H as (e & I & K & W).
  pose proof keywords_in_table as T. rewrite forallb_forall in T. specialize (T e I).
  rewrite W in T. destruct w as [|c cs]; [discriminate|].
  apply andb_true_iff in T. destruct T as [T L]. apply andb_true_iff in T. destruct T as [C CS].
  unfold munched. rewrite (lex_word c cs r C CS R).
  destruct (lookup keyword_table (c :: cs)) as [k'|]; [|discriminate].
  apply tk_eqb_eq in L. subst. reflexivity.
Qed.

(** * Bang operators and directives *)

Lemma munch_bang k w r : in_table bangs k w = true -> hdp letter r = false -> munched k w r.
Proof.
  intros H R. apply in_table_inv in H. destruct H as (e & I & K & W).
  pose proof bangs_in_table as T. rewrite forallb_forall in T. specialize (T e I).
  rewrite W in T. destruct w as [|c cs]; [discriminate|].
  apply andb_true_iff in T. destruct T as [T _]. apply andb_true_iff in T. destruct T as [T L].
  apply andb_true_iff in T. destruct T as [C CS]. apply N.eqb_eq in C. subst c.
  unfold munched. cbn [app]. rewrite lex_one_eq. rewrite ws33.
  change (33 =? 47) with false. change (is_ascii_digit 33) with false. change (33 =? 45) with false.
  change (33 =? 43) with false. change (is_identifier_start 33) with false. change (33 =? 34) with false.
  change (33 =? 36) with false. change (33 =? 91) with false. change (33 =? 33) with true. cbn [andb].
  unfold bangoperator.
  rewrite (eat_while_munch is_ascii_alphabetic cs r).
  - destruct (lookup bangop_table cs) as [k'|]; [|discriminate]. apply tk_eqb_eq in L. subst. reflexivity.
  - rewrite (forallb_ext _ letter); [exact CS|apply cls_letter].
  - rewrite (hdp_ext _ letter); [exact R|apply cls_letter].
Qed.

Lemma alphabetic_ascii c : c < 128 -> is_alphabetic c = letter c.
Proof.
  intros L. apply (ascii_check (fun c => Bool.eqb (is_alphabetic c) (letter c))) in L; [|vm_compute; reflexivity].
  apply eqb_prop in L. exact L.
Qed.

Lemma munch_directive k w r : in_table directives k w = true ->
  hdp letter r = false -> hdp (fun c => 128 <=? c) r = false -> munched k w r.
Proof.
  intros H R R2. apply in_table_inv in H. destruct H as (e & I & K & W).
  pose proof directives_in_table as T. rewrite forallb_forall in T. specialize (T e I).
  rewrite W in T. destruct w as [|c cs]; [discriminate|].
  apply andb_true_iff in T. destruct T as [T _]. apply andb_true_iff in T. destruct T as [T _].
  apply andb_true_iff in T. destruct T as [T L].
  apply andb_true_iff in T. destruct T as [C CS]. apply N.eqb_eq in C. subst c.
  unfold munched. cbn [app]. rewrite lex_one_eq. rewrite ws35.
  change (35 =? 47) with false. change (is_ascii_digit 35) with false. change (35 =? 45) with false.
  change (35 =? 43) with false. change (is_identifier_start 35) with false. change (35 =? 34) with false.
  change (35 =? 36) with false. change (35 =? 91) with false. change (35 =? 33) with false.
  change (35 =? 35) with true. cbn [andb].
  unfold preprocessor.
  rewrite (eat_while_munch is_alphabetic cs r).
  - destruct (lookup directive_table cs) as [k'|]; [|discriminate]. apply tk_eqb_eq in L. subst. reflexivity.
  - rewrite forallb_forall in CS |- *. intros x X. specialize (CS x X).
    rewrite alphabetic_ascii; [exact CS|apply letter_lt; exact CS].
  - destruct r as [|d r']; [reflexivity|]. cbn [hdp] in *.
    apply N.leb_gt in R2. rewrite alphabetic_ascii; assumption.
Qed.

(** * Integers *)

Definition fstep (base : N) (a d : N) : N := a * base + digit_value d.

Lemma value_of_eq base ds : value_of base ds = fold_left (fstep base) ds 0.
Proof. reflexivity. Qed.

Lemma fold_fstep_ge base ds : 1 <= base -> forall acc, acc <= fold_left (fstep base) ds acc.
Proof.
  intros B. induction ds as [|d ds IH]; intros acc; cbn [fold_left]; [lia|].
  specialize (IH (fstep base acc d)). unfold fstep in *. nia.
Qed.

Lemma digit_val_hex c : hexdigit c = true -> digit_val c = digit_value c.
Proof.
  unfold hexdigit, digit_val, digit_value. change (is_ascii_digit c) with (digit c). intros H.
  destruct (digit c) eqn:D; [reflexivity|]. cbn [orb] in H.
  destruct (97 <=? c) eqn:A.
  - apply N.leb_le in A. lia.
  - apply N.leb_gt in A. b2p H; lia.
Qed.

Lemma parse_digits_ok base bound ds : 1 <= base -> forallb hexdigit ds = true ->
  forall acc, fold_left (fstep base) ds acc < bound ->
  parse_digits base bound acc ds = Some (fold_left (fstep base) ds acc).
Proof.
  intros B. induction ds as [|d ds IH]; intros H acc V; cbn [fold_left parse_digits]; [reflexivity|].
  cbn [forallb] in H. apply andb_true_iff in H. destruct H as [Hd H].
  cbn [fold_left] in V. cbv zeta. rewrite (digit_val_hex d Hd). fold (fstep base acc d).
  pose proof (fold_fstep_ge base ds B (fstep base acc d)) as G.
  destruct (bound <=? fstep base acc d) eqn:E; [apply N.leb_le in E; lia|].
  apply IH; assumption.
Qed.

Lemma interpret_ok_spec base sign ds bound : 1 <= base -> forallb hexdigit ds = true -> ds <> [] ->
  (if sign =? 2 then Lexer.two63 + 1 else Lexer.two64) = bound -> value_of base ds < bound ->
  interpret_ok base sign ds = true.
Proof.
  intros B H NE BD V. unfold interpret_ok. destruct ds as [|d ds']; [contradiction|].
  rewrite BD. rewrite (parse_digits_ok base bound (d :: ds') B H 0 V). reflexivity.
Qed.

Lemma digit_hex ds : forallb digit ds = true -> forallb hexdigit ds = true.
Proof.
  intros H. rewrite forallb_forall in *. intros x X. unfold hexdigit. rewrite (H x X). reflexivity.
Qed.
Lemma bin_hex ds : forallb bindigit ds = true -> forallb hexdigit ds = true.
Proof.
  intros H. rewrite forallb_forall in *. intros x X. specialize (H x X). unfold bindigit in H.
  b2p H; subst; reflexivity.
Qed.

Lemma digit_idchar c : digit c = true -> idchar c = true.
Proof. unfold idchar. intros ->. apply orb_true_r. Qed.
Lemma ualpha_idchar c : ualpha c = true -> idchar c = true.
Proof. unfold idchar. intros ->. reflexivity. Qed.
Lemma hexdigit_idchar c : hexdigit c = true -> idchar c = true.
Proof.
  unfold hexdigit, idchar, ualpha. intros H. b2p H.
  - rewrite H. apply orb_true_r.
  - replace ((97 <=? c) && (c <=? 122)) with true; [reflexivity|].
    symmetry. apply andb_true_iff. split; [apply N.leb_le|apply N.leb_le]; lia.
  - replace ((65 <=? c) && (c <=? 90)) with true; [rewrite orb_true_r; reflexivity|].
    symmetry. apply andb_true_iff. split; [apply N.leb_le|apply N.leb_le]; lia.
Qed.
Lemma bindigit_idchar c : bindigit c = true -> idchar c = true.
Proof. unfold bindigit. intros H. b2p H; subst; reflexivity. Qed.

Lemma hdp_weaken (p q : N -> bool) r : (forall c, p c = true -> q c = true) -> hdp q r = false -> hdp p r = false.
Proof.
  intros I. destruct r as [|d r']; cbn [hdp]; [reflexivity|]. intros Q.
  destruct (p d) eqn:P; [|reflexivity]. rewrite (I d P) in Q. discriminate.
Qed.

(** head of  digits ++ continuation  is not the letter x (x an identifier character that is no digit) *)
Lemma hd_eqb_digits_cont x ds r : idchar x = true -> digit x = false ->
  forallb digit ds = true -> hdp idchar r = false -> hd_eqb x (ds ++ r) = false.
Proof.
  intros X NX D R. destruct ds as [|d ds'].
  - cbn [app]. destruct r as [|e r']; [reflexivity|]. cbn [hd_eqb hdp] in *.
    destruct (e =? x) eqn:E; [|reflexivity]. apply N.eqb_eq in E. subst. congruence.
  - cbn [app hd_eqb]. cbn [forallb] in D. apply andb_true_iff in D. destruct D as [D _].
    destruct (d =? x) eqn:E; [|reflexivity]. apply N.eqb_eq in E. subst. congruence.
Qed.

Lemma num_pfx_dec c ds r : forallb digit ds = true -> hdp idchar r = false ->
  num_pfx c (ds ++ r) = (10, [], ds ++ r).
Proof.
  intros D R. unfold num_pfx. destruct (c =? 48); [|reflexivity].
  rewrite (hd_eqb_digits_cont 98 ds r), (hd_eqb_digits_cont 120 ds r); try assumption; reflexivity.
Qed.

Lemma digit_not_sign c : digit c = true -> (c =? 43) = false /\ (c =? 45) = false.
Proof. unfold digit. intros H. b2p H. split; apply N.eqb_neq; lia. Qed.

Lemma munch_dec_unsigned w r : forallb digit w = true -> w <> [] -> value_of 10 w < LexSpec.two64 ->
  hdp idchar r = false -> munched T_IntVal w r.
Proof.
  intros D NE V R. destruct w as [|c ds]; [contradiction|].
  pose proof D as D0. cbn [forallb] in D. apply andb_true_iff in D. destruct D as [C DS].
  destruct (digit_first c C) as (W & S). destruct (digit_not_sign c C) as (P & M).
  unfold munched. cbn [app]. rewrite lex_one_eq. rewrite W, S. change (is_ascii_digit c) with (digit c). rewrite C. cbn [andb].
  rewrite number_eq. cbv zeta. rewrite P, M, !andb_false_r.
  rewrite (num_pfx_dec c ds r DS R). cbv beta iota.
  change (10 =? 2) with false. change (10 =? 10) with true. change (0 =? 0) with true. cbv beta iota.
  rewrite (eat_while_munch is_ascii_digit ds r);
    [|exact DS|exact (hdp_weaken _ _ r digit_idchar R)].
  cbn [andb].
  replace (match r with d :: _ => is_identifier_start d | [] => false end) with (hdp ualpha r)
    by (destruct r; [reflexivity|cbn [hdp]; rewrite cls_ualpha; reflexivity]).
  rewrite (hdp_weaken _ _ r ualpha_idchar R).
  rewrite (interpret_ok_spec 10 0 (c :: ds) Lexer.two64); [reflexivity|lia|apply digit_hex; exact D0|discriminate|reflexivity|exact V].
Qed.

Lemma ident_start_hdp r : (match r with d :: _ => is_identifier_start d | [] => false end) = hdp ualpha r.
Proof. destruct r; [reflexivity|cbn [hdp]; rewrite cls_ualpha; reflexivity]. Qed.

Lemma peek_digit_hdp (s : text) : (match s with d :: _ => is_ascii_digit d | [] => false end) = hdp digit s.
Proof. destruct s; reflexivity. Qed.

(** signed decimal: sign = 43 or 45 *)
Lemma munch_dec_signed c ds r : ((c =? 43) || (c =? 45)) = true -> forallb digit ds = true -> ds <> [] ->
  value_of 10 ds < (if c =? 45 then LexSpec.two63 + 1 else LexSpec.two64) ->
  hdp idchar r = false -> munched T_IntVal (c :: ds) r.
Proof.
  intros C D NE V R. unfold munched. cbn [app]. rewrite lex_one_eq.
  assert (HW : is_whitespace c = false) by (b2p C; subst; [apply ws43|apply ws45]).
  assert (H47 : (c =? 47) = false) by (b2p C; subst; reflexivity).
  assert (HD : is_ascii_digit c = false) by (b2p C; subst; reflexivity).
  rewrite HW, H47, HD. cbn [andb].
  assert (NUM : number c (ds ++ r) = tok T_IntVal ds r).
  { rewrite number_eq. cbv zeta. rewrite peek_digit_hdp.
    destruct ds as [|d ds']; [contradiction|]. cbn [app hdp].
    pose proof D as D0. cbn [forallb] in D. apply andb_true_iff in D. destruct D as [Dd Dds].
    rewrite Dd. cbn [negb andb].
    assert (N48 : (c =? 48) = false) by (b2p C; subst; reflexivity).
    unfold num_pfx. rewrite N48. cbv beta iota.
    change (10 =? 2) with false. change (10 =? 10) with true. cbv beta iota.
    change (d :: ds' ++ r) with ((d :: ds') ++ r).
    rewrite (eat_while_munch is_ascii_digit (d :: ds') r);
      [|exact D0|exact (hdp_weaken _ _ r digit_idchar R)].
    assert (SG : ((if c =? 43 then 1 else if c =? 45 then 2 else 0) =? 0) = false).
    { b2p C; subst; reflexivity. }
    rewrite SG. cbn [andb].
    rewrite (interpret_ok_spec 10 _ (d :: ds') (if c =? 45 then Lexer.two63 + 1 else Lexer.two64));
      [reflexivity|lia|apply digit_hex; exact D0|discriminate| |exact V].
    b2p C; subst; reflexivity. }
  destruct (c =? 45) eqn:M.
  - rewrite NUM. reflexivity.
  - assert (P : (c =? 43) = true) by (rewrite ?M, orb_false_r in C; exact C).
    rewrite P, NUM. reflexivity.
Qed.

Lemma nonnil_match {A} (l : list A) : l <> [] -> (match l with [] => true | _ :: _ => false end) = false.
Proof. destruct l; [contradiction|reflexivity]. Qed.

Lemma munch_hex hs r : forallb hexdigit hs = true -> hs <> [] -> value_of 16 hs < LexSpec.two64 ->
  hdp idchar r = false -> munched T_IntVal (48 :: 120 :: hs) r.
Proof.
  intros D NE V R. unfold munched. cbn [app]. rewrite lex_one_eq.
  replace (is_whitespace 48) with false by (vm_compute; reflexivity).
  change (48 =? 47) with false. change (is_ascii_digit 48) with true. cbn [andb].
  rewrite number_eq. cbv zeta. change (48 =? 43) with false. change (48 =? 45) with false.
  rewrite !andb_false_r. unfold num_pfx. change (48 =? 48) with true. cbn [hd_eqb tl].
  change (120 =? 98) with false. change (120 =? 120) with true. cbv beta iota.
  change (16 =? 2) with false. change (16 =? 10) with false. cbv beta iota.
  rewrite (eat_while_munch is_ascii_hexdigit hs r).
  - cbn [andb]. rewrite (nonnil_match hs NE), andb_false_r.
    rewrite (interpret_ok_spec 16 0 hs Lexer.two64); [reflexivity|lia|exact D|exact NE|reflexivity|exact V].
  - rewrite (forallb_ext _ hexdigit); [exact D|apply cls_hexdigit].
  - rewrite (hdp_ext _ hexdigit); [exact (hdp_weaken _ _ r hexdigit_idchar R)|apply cls_hexdigit].
Qed.

Lemma munch_bin bs r : forallb bindigit bs = true -> bs <> [] -> value_of 2 bs < LexSpec.two64 ->
  hdp idchar r = false -> munched T_BinaryIntVal (48 :: 98 :: bs) r.
Proof.
  intros D NE V R. unfold munched. cbn [app]. rewrite lex_one_eq.
  replace (is_whitespace 48) with false by (vm_compute; reflexivity).
  change (48 =? 47) with false. change (is_ascii_digit 48) with true. cbn [andb].
  rewrite number_eq. cbv zeta. change (48 =? 43) with false. change (48 =? 45) with false.
  rewrite !andb_false_r. unfold num_pfx. change (48 =? 48) with true. cbn [hd_eqb tl].
  change (98 =? 98) with true. cbv beta iota.
  change (2 =? 2) with true. change (2 =? 10) with false. cbv beta iota.
  rewrite (eat_while_munch is_bin_digit bs r).
  - cbn [andb]. rewrite (nonnil_match bs NE), andb_false_r.
    rewrite (interpret_ok_spec 2 0 bs Lexer.two64); [reflexivity|lia|apply bin_hex; exact D|exact NE|reflexivity|exact V].
  - exact D.
  - exact (hdp_weaken _ _ r bindigit_idchar R).
Qed.

Lemma munch_sign c r : ((c =? 43) || (c =? 45)) = true -> hdp digit r = false ->
  munched (if c =? 43 then T_Plus else T_Minus) [c] r.
Proof.
  intros C R. unfold munched. cbn [app]. rewrite lex_one_eq.
  assert (HW : is_whitespace c = false) by (b2p C; subst; [apply ws43|apply ws45]).
  assert (H47 : (c =? 47) = false) by (b2p C; subst; reflexivity).
  assert (HD : is_ascii_digit c = false) by (b2p C; subst; reflexivity).
  rewrite HW, H47, HD. cbn [andb].
  assert (NUM : number c r = tok (if c =? 43 then T_Plus else T_Minus) [] r).
  { rewrite number_eq. cbv zeta. rewrite peek_digit_hdp, R. cbn [negb andb].
    b2p C; subst; reflexivity. }
  destruct (c =? 45) eqn:M.
  - rewrite NUM. reflexivity.
  - assert (P : (c =? 43) = true) by (rewrite ?M, orb_false_r in C; exact C).
    rewrite P in *. rewrite NUM. reflexivity.
Qed.

Lemma is_nil_false {A} (l : list A) : match l with [] => true | _ => false end = false -> l <> [].
Proof. destruct l; [discriminate|discriminate]. Qed.

Lemma munch_int w r : (is_dec w || is_hex w) = true -> hdp idchar r = false -> munched T_IntVal w r.
Proof.
  intros H R. apply orb_true_iff in H. destruct H as [H|H].
  - unfold is_dec in H. destruct w as [|c ds]; [discriminate|].
    destruct (c =? 43) eqn:P.
    + apply andb_true_iff in H. destruct H as [H V]. apply andb_true_iff in H. destruct H as [NE D].
      apply N.ltb_lt in V. apply negb_true_iff in NE.
      apply munch_dec_signed; [rewrite P; reflexivity|exact D|apply is_nil_false; exact NE| |exact R].
      apply N.eqb_eq in P. subst c. exact V.
    + destruct (c =? 45) eqn:M.
      * apply andb_true_iff in H. destruct H as [H V]. apply andb_true_iff in H. destruct H as [NE D].
        apply N.leb_le in V. apply negb_true_iff in NE.
        apply munch_dec_signed; [rewrite M; apply orb_true_r|exact D|apply is_nil_false; exact NE| |exact R].
        rewrite M. lia.
      * apply andb_true_iff in H. destruct H as [D V]. apply N.ltb_lt in V.
        apply munch_dec_unsigned; [exact D|discriminate|exact V|exact R].
  - unfold is_hex in H. destruct w as [|z [|x hs]]; try discriminate.
    repeat (apply andb_true_iff in H; destruct H as [H ?]).
    apply N.eqb_eq in H. subst z.
    match goal with X : (x =? 120) = true |- _ => apply N.eqb_eq in X; subst x end.
    match goal with X : (_ <? _) = true |- _ => apply N.ltb_lt in X end.
    match goal with X : negb _ = true |- _ => apply negb_true_iff in X; apply is_nil_false in X end.
    apply munch_hex; assumption.
Qed.

Lemma munch_binint w r : is_bin w = true -> hdp idchar r = false -> munched T_BinaryIntVal w r.
Proof.
  intros H R. unfold is_bin in H. destruct w as [|z [|x bs]]; try discriminate.
  repeat (apply andb_true_iff in H; destruct H as [H ?]).
  apply N.eqb_eq in H. subst z.
  match goal with X : (x =? 98) = true |- _ => apply N.eqb_eq in X; subst x end.
  match goal with X : (_ <? _) = true |- _ => apply N.ltb_lt in X end.
  match goal with X : negb _ = true |- _ => apply negb_true_iff in X; apply is_nil_false in X end.
  apply munch_bin; assumption.
Qed.

(** * Identifiers *)

Lemma ualpha_not_digit c : ualpha c = true -> digit c = false.
Proof. intros H. exact (proj1 (proj2 (proj2 (ualpha_first c H)))). Qed.

Lemma idchar_cases c : idchar c = true -> ualpha c = false -> digit c = true.
Proof. unfold idchar. intros H U. rewrite U in H. exact H. Qed.

Lemma ident_split w : forallb idchar w = true -> existsb ualpha w = true ->
  exists ds a cs, w = ds ++ a :: cs /\ forallb digit ds = true /\ ualpha a = true /\ forallb idchar cs = true.
Proof.
  induction w as [|c w IH]; [discriminate|]. cbn [forallb existsb]. intros A E.
  apply andb_true_iff in A. destruct A as [C A].
  destruct (ualpha c) eqn:U.
  - exists [], c, w. repeat split; assumption.
  - cbn [orb] in E. destruct (IH A E) as (ds & a & cs & W & D & UA & CS).
    exists (c :: ds), a, cs. repeat split; try assumption.
    + cbn. congruence.
    + cbn [forallb]. rewrite (idchar_cases c C U), D. reflexivity.
Qed.

Lemma forallb_app_intro {A} (p : A -> bool) a b : forallb p a = true -> forallb p b = true -> forallb p (a ++ b) = true.
Proof. intros. rewrite forallb_app. rewrite H, H0. reflexivity. Qed.

(** digit-leading identifier  c ds a cs  (c, ds digits; a ualpha): outside the known class the
    lexer does not take the 0b / 0x branch *)
Lemma munch_ident_digit c ds a cs r :
  digit c = true -> forallb digit ds = true -> ualpha a = true -> forallb idchar cs = true ->
  radix_word (c :: ds ++ a :: cs) = false ->
  word_in keywords (c :: ds ++ a :: cs) = false ->
  hdp idchar r = false -> munched T_Id (c :: ds ++ a :: cs) r.
Proof.
  intros C DS A CS RW KW R.
  destruct (digit_first c C) as (W & S). destruct (digit_not_sign c C) as (P & M).
  unfold munched. cbn [app]. rewrite lex_one_eq. rewrite W, S.
  change (is_ascii_digit c) with (digit c). rewrite C. cbn [andb].
  rewrite <- app_assoc. cbn [app]. rewrite number_eq. cbv zeta. rewrite P, M, !andb_false_r.
  assert (PFX : num_pfx c (ds ++ a :: cs ++ r) = (10, [], ds ++ a :: cs ++ r)).
  { unfold num_pfx. destruct (c =? 48) eqn:Z; [|reflexivity].
    destruct ds as [|d ds'].
    - cbn [app hd_eqb]. cbn [app radix_word] in RW. rewrite Z in RW. cbn [andb] in RW.
      apply orb_false_iff in RW. destruct RW as [RX RB]. rewrite RB, RX. reflexivity.
    - cbn [app hd_eqb]. cbn [forallb] in DS. apply andb_true_iff in DS. destruct DS as [Dd _].
      unfold digit in Dd. b2p Dd.
      replace (d =? 98) with false by (symmetry; apply N.eqb_neq; lia).
      replace (d =? 120) with false by (symmetry; apply N.eqb_neq; lia). reflexivity. }
  rewrite PFX. cbv beta iota.
  change (10 =? 2) with false. change (10 =? 10) with true. change (0 =? 0) with true. cbv beta iota.
  rewrite (eat_while_munch is_ascii_digit ds (a :: cs ++ r));
    [|exact DS|cbn [hdp]; apply ualpha_not_digit; exact A].
  cbn [andb]. rewrite cls_ualpha, A.
  change (a :: cs ++ r) with ((a :: cs) ++ r).
  rewrite (eat_while_munch is_identifier_continue (a :: cs) r).
  - rewrite (keyword_lookup_none _ KW). reflexivity.
  - rewrite (forallb_ext _ idchar); [|apply cls_idchar]. cbn [forallb]. rewrite (ualpha_idchar a A), CS. reflexivity.
  - rewrite (hdp_ext _ idchar); [exact R|apply cls_idchar].
Qed.

Lemma eat_while_none (p : N -> bool) s : hdp p s = false -> eat_while p s = ([], s).
Proof. destruct s as [|c s']; [reflexivity|]. cbn [hdp eat_while]. intros ->. reflexivity. Qed.

(** identifiers that begin with 0x / 0b but not with a complete literal (repair 35af9d5): m = 'x' or 'b' *)
Lemma munch_ident_radix m cs r :
  ((m =? 120) || (m =? 98)) = true -> forallb idchar cs = true ->
  radix_literal_prefix (48 :: m :: cs) = false ->
  word_in keywords (48 :: m :: cs) = false ->
  hdp idchar r = false -> munched T_Id (48 :: m :: cs) r.
Proof.
  intros Hm CS RL KW R. unfold munched. cbn [app]. rewrite lex_one_eq.
  replace (is_whitespace 48) with false by (vm_compute; reflexivity).
  change (48 =? 47) with false. change (is_ascii_digit 48) with true. cbn [andb].
  rewrite number_eq. cbv zeta. change (48 =? 43) with false. change (48 =? 45) with false.
  rewrite !andb_false_r. unfold num_pfx. change (48 =? 48) with true. cbn [hd_eqb tl].
  assert (IDC : eat_while is_identifier_continue (cs ++ r) = (cs, r)).
  { apply eat_while_munch.
    - rewrite (forallb_ext _ idchar); [exact CS|apply cls_idchar].
    - rewrite (hdp_ext _ idchar); [exact R|apply cls_idchar]. }
  apply orb_true_iff in Hm. destruct Hm as [Hm|Hm]; apply N.eqb_eq in Hm; subst m.
  - (* 0x *) change (120 =? 98) with false. change (120 =? 120) with true. cbv beta iota.
    change (16 =? 2) with false. change (16 =? 10) with false. cbv beta iota.
    assert (NH : hdp is_ascii_hexdigit (cs ++ r) = false).
    { rewrite (hdp_ext _ hexdigit) by apply cls_hexdigit. destruct cs as [|d cs'].
      - exact (hdp_weaken _ _ r hexdigit_idchar R).
      - cbn [app hdp]. cbn [radix_literal_prefix] in RL. change (48 =? 48) with true in RL.
        change (120 =? 120) with true in RL. change (120 =? 98) with false in RL. cbn [andb orb] in RL.
        rewrite orb_false_r in RL. exact RL. }
    rewrite (eat_while_none _ _ NH). cbn [andb negb]. rewrite IDC.
    change (48 :: [120] ++ cs) with (48 :: 120 :: cs). rewrite (keyword_lookup_none _ KW). reflexivity.
  - (* 0b *) change (98 =? 98) with true. cbv beta iota.
    change (2 =? 2) with true. change (2 =? 10) with false. cbv beta iota.
    assert (NB : hdp is_bin_digit (cs ++ r) = false).
    { destruct cs as [|d cs'].
      - exact (hdp_weaken _ _ r bindigit_idchar R).
      - cbn [app hdp]. cbn [radix_literal_prefix] in RL. change (48 =? 48) with true in RL.
        change (98 =? 120) with false in RL. change (98 =? 98) with true in RL. cbn [andb orb] in RL.
        exact RL. }
    rewrite (eat_while_none _ _ NB). cbn [andb negb]. rewrite IDC.
    change (48 :: [98] ++ cs) with (48 :: 98 :: cs). rewrite (keyword_lookup_none _ KW). reflexivity.
Qed.

Lemma munch_ident w r : is_ident w = true -> hdp idchar r = false -> munched T_Id w r.
Proof.
  unfold is_ident, ident_shape. intros H R.
  apply andb_true_iff in H. destruct H as [H RL]. apply andb_true_iff in H. destruct H as [H KW].
  apply andb_true_iff in H. destruct H as [A E]. apply negb_true_iff in KW, RL.
  destruct (radix_word w) eqn:RW.
  - unfold radix_word in RW. destruct w as [|z [|m cs]]; try discriminate.
    apply andb_true_iff in RW. destruct RW as [Z Hm]. apply N.eqb_eq in Z. subst z.
    cbn [forallb] in A. apply andb_true_iff in A. destruct A as [_ A]. apply andb_true_iff in A. destruct A as [_ A].
    apply munch_ident_radix; assumption.
  - destruct (ident_split w A E) as (ds & a & cs & W & D & UA & CS).
    destruct ds as [|c ds'].
    + cbn [app] in W. subst w. unfold munched. rewrite (lex_word a cs r UA CS R).
      rewrite (keyword_lookup_none _ KW). reflexivity.
    + cbn [app] in W. subst w. cbn [forallb] in D. apply andb_true_iff in D. destruct D as [C D].
      apply munch_ident_digit; assumption.
Qed.

(** * Punctuation *)

Definition plain_punct (c : N) : bool :=
  negb (is_whitespace c) && negb (c =? 47) && negb (is_ascii_digit c) && negb (c =? 45) && negb (c =? 43)
  && negb (is_identifier_start c) && negb (c =? 34) && negb (c =? 36) && negb (c =? 33) && negb (c =? 35)
  && negb (c =? 46).

Lemma lex_plain_punct c r : plain_punct c = true -> ((c =? 91) && hd_eqb 123 r) = false ->
  lex_one (c :: r) = match lookup1 punct_table c with
                     | Some k => (k, None, [c], r)
                     | None => (T_Error, Some EUnexpectedChar, [c], r)
                     end.
Proof.
  unfold plain_punct. intros H B.
  repeat (apply andb_true_iff in H; destruct H as [H ?]).
  repeat match goal with X : negb _ = true |- _ => apply negb_true_iff in X end.
  rewrite lex_one_eq.
  repeat match goal with X : _ = false |- _ => rewrite X; clear X end.
  cbn [andb]. destruct (lookup1 punct_table c); reflexivity.
Qed.

Lemma munch_punct k w r : in_table puncts k w = true -> follow_ok k r = true -> munched k w r.
Proof.
  intros H F. apply in_table_inv in H. destruct H as (e & I & K & W). subst k w.
  cbn [puncts In] in I.
  repeat (destruct I as [I|I]; [subst e; cbn [fst snd cps] in *|]); try contradiction.
  - (* - *) change (follow_ok T_Minus r) with (negb (hdp digit r)) in F. apply negb_true_iff in F.
    exact (munch_sign 45 r eq_refl F).
  - (* + *) change (follow_ok T_Plus r) with (negb (hdp digit r)) in F. apply negb_true_iff in F.
    exact (munch_sign 43 r eq_refl F).
  - (* [ *) change (follow_ok T_LSquare r) with (negb (hdp (N.eqb 123) r)) in F. apply negb_true_iff in F.
    unfold munched. cbn [app N_of_ascii]. rewrite lex_plain_punct; [reflexivity|vm_compute; reflexivity|].
    rewrite hd_eqb_hdp, F. reflexivity.
  - unfold munched. cbn [app]. rewrite lex_plain_punct; [reflexivity|vm_compute; reflexivity|reflexivity].
  - unfold munched. cbn [app]. rewrite lex_plain_punct; [reflexivity|vm_compute; reflexivity|reflexivity].
  - unfold munched. cbn [app]. rewrite lex_plain_punct; [reflexivity|vm_compute; reflexivity|reflexivity].
  - unfold munched. cbn [app]. rewrite lex_plain_punct; [reflexivity|vm_compute; reflexivity|reflexivity].
  - unfold munched. cbn [app]. rewrite lex_plain_punct; [reflexivity|vm_compute; reflexivity|reflexivity].
  - unfold munched. cbn [app]. rewrite lex_plain_punct; [reflexivity|vm_compute; reflexivity|reflexivity].
  - unfold munched. cbn [app]. rewrite lex_plain_punct; [reflexivity|vm_compute; reflexivity|reflexivity].
  - unfold munched. cbn [app]. rewrite lex_plain_punct; [reflexivity|vm_compute; reflexivity|reflexivity].
  - unfold munched. cbn [app]. rewrite lex_plain_punct; [reflexivity|vm_compute; reflexivity|reflexivity].
  - unfold munched. cbn [app]. rewrite lex_plain_punct; [reflexivity|vm_compute; reflexivity|reflexivity].
  - (* . *) change (follow_ok T_Dot r) with (negb (hdp (N.eqb 46) r)) in F. apply negb_true_iff in F.
    change (munched T_Dot [46] r). unfold munched. cbn [app]. rewrite lex_one_eq. rewrite ws46.
    change (46 =? 47) with false. change (is_ascii_digit 46) with false. change (46 =? 45) with false.
    change (46 =? 43) with false. change (is_identifier_start 46) with false. change (46 =? 34) with false.
    change (46 =? 36) with false. change (46 =? 91) with false. change (46 =? 33) with false.
    change (46 =? 35) with false. change (46 =? 46) with true. cbn [andb].
    rewrite hd_eqb_hdp, F. reflexivity.
  - (* ... *) change (munched T_DotDotDot [46; 46; 46] r). unfold munched. cbn [app]. rewrite lex_one_eq. rewrite ws46.
    reflexivity.
  - unfold munched. cbn [app]. rewrite lex_plain_punct; [reflexivity|vm_compute; reflexivity|reflexivity].
  - unfold munched. cbn [app]. rewrite lex_plain_punct; [reflexivity|vm_compute; reflexivity|reflexivity].
  - (* # *) change (follow_ok T_Paste r) with (negb (existsb (fun d => is_prefix (cps d) r) directive_words)) in F.
    apply negb_true_iff in F.
    change (munched T_Paste [35] r). unfold munched. cbn [app]. rewrite lex_one_eq. rewrite ws35.
    change (35 =? 47) with false. change (is_ascii_digit 35) with false. change (35 =? 45) with false.
    change (35 =? 43) with false. change (is_identifier_start 35) with false. change (35 =? 34) with false.
    change (35 =? 36) with false. change (35 =? 91) with false. change (35 =? 33) with false.
    change (35 =? 35) with true. cbn [andb].
    unfold preprocessor. destruct (eat_while is_alphabetic r) as [a rest] eqn:E.
    destruct (lookup directive_table a) as [k|] eqn:L; [|reflexivity].
    exfalso. apply lookup_in in L. pose proof directive_table_sub as S. rewrite forallb_forall in S.
    specialize (S _ L). cbn [fst] in S. apply existsb_exists in S. destruct S as (d & Id & Ed).
    apply stext_eqb_eq in Ed. apply eat_while_split in E.
    assert (PX : is_prefix (cps d) r = true).
    { rewrite Ed, E. clear. induction a as [|x a IH]; [reflexivity|]. cbn. rewrite N.eqb_refl, IH. reflexivity. }
    assert (EX : existsb (fun d => is_prefix (cps d) r) directive_words = true).
    { apply existsb_exists. exists d. split; assumption. }
    congruence.
Qed.

(** * All classes together *)

Lemma spec_tok_cases k w : spec_tok k w = true ->
  (k = T_Id /\ is_ident w = true) \/ (k = T_IntVal /\ (is_dec w || is_hex w) = true)
  \/ (k = T_BinaryIntVal /\ is_bin w = true) \/ (k = T_StrVal /\ is_string w = true)
  \/ (k = T_CodeFragment /\ is_code w = true) \/ (k = T_VarName /\ is_var w = true)
  \/ in_table keywords k w = true \/ in_table bangs k w = true \/ in_table puncts k w = true.
Proof.
  destruct k; cbn [spec_tok]; intros H;
    try (solve [repeat (first [left; split; [reflexivity|exact H] | right])]);
    (apply orb_true_iff in H; destruct H as [H|H]; [apply orb_true_iff in H; destruct H as [H|H]|]); tauto.
Qed.

Lemma spec_sep_cases k w : spec_sep k w = true ->
  (k = T_Whitespace /\ is_ws w = true) \/ (k = T_LineComment /\ is_line_comment w = true)
  \/ (k = T_BlockComment /\ is_block_comment w = true).
Proof. destruct k; cbn [spec_sep]; intros H; try discriminate; tauto. Qed.

Lemma in_table_kind_in tbl k w : in_table tbl k w = true -> kind_in tbl k = true.
Proof.
  unfold in_table, kind_in. intros H. apply existsb_exists in H. destruct H as (e & I & H).
  apply andb_true_iff in H. destruct H as [H _]. apply existsb_exists. exists e. split; assumption.
Qed.

Lemma keyword_wordlike k : kind_in keywords k = true -> wordlike k = true.
Proof. destruct k; intros H; try reflexivity; exact H. Qed.

Lemma follow_wordlike k r : wordlike k = true -> follow_ok k r = negb (hdp idchar r).
Proof. unfold follow_ok. intros ->. reflexivity. Qed.

Lemma follow_bang k w r : in_table bangs k w = true -> follow_ok k r = negb (hdp letter r).
Proof.
  intros H. pose proof (in_table_kind_in _ _ _ H) as KI. apply in_table_inv in H. destruct H as (e & I & K & W).
  pose proof bangs_in_table as T. rewrite forallb_forall in T. specialize (T e I).
  destruct (cps (fst e)) as [|c cs]; [discriminate|].
  apply andb_true_iff in T. destruct T as [_ NW]. apply negb_true_iff in NW. rewrite K in NW.
  unfold follow_ok. rewrite NW, KI. reflexivity.
Qed.

Lemma follow_directive k w r : in_table directives k w = true ->
  follow_ok k r = negb (hdp letter r) && negb (hdp (fun c => 128 <=? c) r).
Proof.
  intros H. pose proof (in_table_kind_in _ _ _ H) as KI. apply in_table_inv in H. destruct H as (e & I & K & W).
  pose proof directives_in_table as T. rewrite forallb_forall in T. specialize (T e I).
  destruct (cps (fst e)) as [|c cs]; [discriminate|].
  apply andb_true_iff in T. destruct T as [T NB]. apply andb_true_iff in T. destruct T as [_ NW].
  apply negb_true_iff in NW, NB. rewrite K in NW, NB.
  unfold follow_ok. rewrite NW, NB, KI. reflexivity.
Qed.

(** The munch lemma for every class. *)
Lemma munch k w r :
  (spec_tok k w || spec_sep k w || spec_directive k w) = true ->
  follow_ok k r = true -> munched k w r.
Proof.
  intros V F. apply orb_true_iff in V. destruct V as [V|V]; [apply orb_true_iff in V; destruct V as [V|V]|].
  - apply spec_tok_cases in V.
    destruct V as [[-> V]|[[-> V]|[[-> V]|[[-> V]|[[-> V]|[[-> V]|[V|[V|V]]]]]]]].
    + change (follow_ok T_Id r) with (negb (hdp idchar r)) in F. apply negb_true_iff in F.
      apply munch_ident; assumption.
    + change (follow_ok T_IntVal r) with (negb (hdp idchar r)) in F. apply negb_true_iff in F.
      apply munch_int; assumption.
    + change (follow_ok T_BinaryIntVal r) with (negb (hdp idchar r)) in F. apply negb_true_iff in F.
      apply munch_binint; assumption.
    + apply munch_string; assumption.
    + apply munch_code; assumption.
    + change (follow_ok T_VarName r) with (negb (hdp idchar r)) in F. apply negb_true_iff in F.
      apply munch_var; assumption.
    + rewrite (follow_wordlike k r (keyword_wordlike k (in_table_kind_in _ _ _ V))) in F.
      apply negb_true_iff in F. apply munch_keyword; assumption.
    + rewrite (follow_bang k w r V) in F. apply negb_true_iff in F. apply munch_bang; assumption.
    + apply munch_punct; assumption.
  - apply spec_sep_cases in V. destruct V as [[-> V]|[[-> V]|[-> V]]].
    + change (follow_ok T_Whitespace r) with (negb (hdp wschar r)) in F. apply negb_true_iff in F.
      apply munch_ws; assumption.
    + change (follow_ok T_LineComment r) with (is_nil r || hdp newline r) in F.
      apply munch_line; assumption.
    + apply munch_block; assumption.
  - unfold spec_directive in V. rewrite (follow_directive k w r V) in F.
    apply andb_true_iff in F. destruct F as [F1 F2]. apply negb_true_iff in F1, F2.
    apply munch_directive; assumption.
Qed.

(** * Sequences *)

Lemma valid_nonempty k : (spec_tok k [] || spec_sep k [] || spec_directive k []) = false.
Proof. destruct k; vm_compute; reflexivity. Qed.

Lemma conforms_lexes ps :
  forallb valid_piece_d ps = true -> not_merged ps = true ->
  lexes (render ps) (expected_tokens ps).
Proof.
  induction ps as [|p ps IH]; intros V M.
  - constructor.
  - cbn [forallb] in V. apply andb_true_iff in V. destruct V as [Vp V].
    cbn [not_merged] in M. apply andb_true_iff in M. destruct M as [Fp M].
    destruct p as [k w]. cbn [pk pw] in *.
    unfold valid_piece_d, valid_piece in Vp. cbn [pk pw] in Vp.
    pose proof (munch k w (render ps) Vp Fp) as MU. unfold munched in MU.
    change (render ({| pk := k; pw := w |} :: ps)) with (w ++ render ps).
    change (expected_tokens ({| pk := k; pw := w |} :: ps)) with ((k, @None lex_err, w) :: expected_tokens ps).
    eapply lexes_cons; [|exact MU|exact (IH V M)].
    destruct w as [|c w']; [|discriminate]. rewrite valid_nonempty in Vp. discriminate.
Qed.

Lemma conforms ps :
  forallb valid_piece_d ps = true -> not_merged ps = true ->
  lex_text (render ps) = expected_tokens ps.
Proof. intros V M. apply lexes_lex_text. apply conforms_lexes; assumption. Qed.

Lemma valid_piece_d_of ps : forallb valid_piece ps = true -> forallb valid_piece_d ps = true.
Proof.
  intros H. rewrite forallb_forall in *. intros p I. unfold valid_piece_d. rewrite (H p I). reflexivity.
Qed.

Lemma conforms_tokens ps :
  forallb valid_piece ps = true -> not_merged ps = true ->
  lex_text (render ps) = expected_tokens ps.
Proof. intros V M. apply conforms; [apply valid_piece_d_of; exact V|exact M]. Qed.

(** * Tokens separated by well-formed gaps are never merged *)

Definition sep_start (c : N) : bool := wschar c || (c =? 47).

Lemma follow_sep_start k c r : sep_start c = true ->
  negb (tk_eqb k T_Whitespace) && negb (tk_eqb k T_LineComment) = true -> follow_ok k (c :: r) = true.
Proof.
  unfold sep_start, wschar. intros H K. b2p H; subst c; destruct k; try discriminate K; reflexivity.
Qed.

Lemma follow_nil k : follow_ok k [] = true.
Proof. destruct k; reflexivity. Qed.

Lemma sep_first p : valid_piece p = true -> is_sep p = true -> exists c w', pw p = c :: w' /\ sep_start c = true.
Proof.
  destruct p as [k w]. unfold valid_piece, is_sep. cbn [pk pw]. intros V S.
  assert (V' : spec_sep k w = true).
  { destruct (spec_sep k w) eqn:E; [reflexivity|]. rewrite orb_false_r in V.
    destruct k; try discriminate S; vm_compute in V; discriminate. }
  apply spec_sep_cases in V'. destruct V' as [[-> V']|[[-> V']|[-> V']]].
  - unfold is_ws in V'. destruct w as [|c w']; [discriminate|]. cbn [negb is_nil andb forallb] in V'.
    apply andb_true_iff in V'. destruct V' as [C _]. exists c, w'. split; [reflexivity|].
    unfold sep_start. rewrite C. reflexivity.
  - unfold is_line_comment in V'. destruct w as [|a [|b w']]; try discriminate.
    apply andb_true_iff in V'. destruct V' as [V' _]. apply andb_true_iff in V'. destruct V' as [A _].
    apply N.eqb_eq in A. subst a. exists 47, (b :: w'). split; reflexivity.
  - unfold is_block_comment in V'. destruct w as [|a [|b w']]; try discriminate.
    apply andb_true_iff in V'. destruct V' as [V' _]. apply andb_true_iff in V'. destruct V' as [A _].
    apply N.eqb_eq in A. subst a. exists 47, (b :: w'). split; reflexivity.
Qed.

(** first character of a piece that is not a white-space run is no white-space character *)
Lemma fixed_first_not_ws :
  forallb (fun e => negb (hdp wschar (cps (fst e)))) (keywords ++ bangs ++ puncts) = true.
Proof. vm_compute. reflexivity. Qed.

Lemma not_ws_first p : valid_piece p = true -> tk_eqb (pk p) T_Whitespace = false -> hdp wschar (pw p) = false.
Proof.
  destruct p as [k w]. unfold valid_piece. cbn [pk pw]. intros V K.
  apply orb_true_iff in V. destruct V as [V|V].
  - apply spec_tok_cases in V.
    destruct V as [[-> V]|[[-> V]|[[-> V]|[[-> V]|[[-> V]|[[-> V]|V]]]]]].
    + unfold is_ident, ident_shape in V. destruct w as [|c w']; [reflexivity|]. cbn [hdp].
      repeat (apply andb_true_iff in V; destruct V as [V _]).
      assert (C : idchar c = true) by exact V. pose proof (idchar_lt c C) as L.
      apply (ascii_check (fun c => implb (idchar c) (negb (wschar c)))) in L; [|vm_compute; reflexivity].
      rewrite C in L. apply negb_true_iff in L. exact L.
    + destruct w as [|c w']; [reflexivity|]. cbn [hdp].
      apply orb_true_iff in V. destruct V as [V|V].
      * unfold is_dec in V. destruct (c =? 43) eqn:P; [apply N.eqb_eq in P; subst; reflexivity|].
        destruct (c =? 45) eqn:M; [apply N.eqb_eq in M; subst; reflexivity|].
        apply andb_true_iff in V. destruct V as [V _]. cbn [forallb] in V.
        apply andb_true_iff in V. destruct V as [C _]. pose proof (digit_lt c C) as L.
        apply (ascii_check (fun c => implb (digit c) (negb (wschar c)))) in L; [|vm_compute; reflexivity].
        rewrite C in L. apply negb_true_iff in L. exact L.
      * unfold is_hex in V. destruct w' as [|x hs]; [discriminate|].
        repeat (apply andb_true_iff in V; destruct V as [V _]). apply N.eqb_eq in V. subst. reflexivity.
    + unfold is_bin in V. destruct w as [|c [|x bs]]; try discriminate.
      repeat (apply andb_true_iff in V; destruct V as [V _]). apply N.eqb_eq in V. subst. reflexivity.
    + unfold is_string in V. destruct w as [|c w']; [discriminate|].
      apply andb_true_iff in V. destruct V as [V _]. apply N.eqb_eq in V. subst. reflexivity.
    + unfold is_code in V. destruct w as [|c [|x w']]; try discriminate.
      repeat (apply andb_true_iff in V; destruct V as [V _]). apply N.eqb_eq in V. subst. reflexivity.
    + unfold is_var in V. destruct w as [|c [|x w']]; try discriminate.
      repeat (apply andb_true_iff in V; destruct V as [V _]). apply N.eqb_eq in V. subst. reflexivity.
    + assert (IT : exists e, In e (keywords ++ bangs ++ puncts) /\ cps (fst e) = w).
      { destruct V as [V|[V|V]]; apply in_table_inv in V; destruct V as (e & I & _ & W); exists e;
          (split; [|exact W]); rewrite !in_app_iff; tauto. }
      destruct IT as (e & I & W). pose proof fixed_first_not_ws as T. rewrite forallb_forall in T.
      specialize (T e I). rewrite W in T. apply negb_true_iff in T. exact T.
  - apply spec_sep_cases in V. destruct V as [[-> V]|[[-> V]|[-> V]]].
    + discriminate K.
    + unfold is_line_comment in V. destruct w as [|a [|b w']]; try discriminate.
      repeat (apply andb_true_iff in V; destruct V as [V _]). apply N.eqb_eq in V. subst. reflexivity.
    + unfold is_block_comment in V. destruct w as [|a [|b w']]; try discriminate.
      repeat (apply andb_true_iff in V; destruct V as [V _]). apply N.eqb_eq in V. subst. reflexivity.
Qed.

Lemma valid_piece_nonempty p : valid_piece p = true -> pw p <> [].
Proof.
  destruct p as [k w]. unfold valid_piece. cbn [pk pw]. intros V E. subst w.
  pose proof (valid_nonempty k) as N. apply orb_false_iff in N. destruct N as [N _]. congruence.
Qed.

Lemma hdp_app_nonempty (p : N -> bool) (w r : text) : w <> [] -> hdp p (w ++ r) = hdp p w.
Proof. destruct w; [contradiction|reflexivity]. Qed.

Lemma separated_not_merged ps : forallb valid_piece ps = true -> separated ps = true -> not_merged ps = true.
Proof.
  induction ps as [|p ps IH]; intros V S; [reflexivity|].
  cbn [forallb] in V. apply andb_true_iff in V. destruct V as [Vp V].
  cbn [not_merged]. apply andb_true_iff. split.
  - destruct ps as [|q ps']; [apply follow_nil|].
    cbn [separated] in S. apply andb_true_iff in S. destruct S as [A _].
    cbn [forallb] in V. apply andb_true_iff in V. destruct V as [Vq _].
    unfold adjacent_ok in A. apply andb_true_iff in A. destruct A as [A1 A2].
    change (render (q :: ps')) with (pw q ++ render ps').
    pose proof (valid_piece_nonempty q Vq) as NEq.
    destruct (is_sep p) eqn:SP.
    + (* p is a separator *)
      destruct p as [k w]. unfold is_sep in SP. cbn [pk pw] in *.
      destruct k; try discriminate SP.
      * (* white space *) change (follow_ok T_Whitespace (pw q ++ render ps')) with (negb (hdp wschar (pw q ++ render ps'))).
        rewrite hdp_app_nonempty by exact NEq. apply negb_true_iff in A2.
        rewrite (not_ws_first q Vq A2). reflexivity.
      * (* line comment *) change (follow_ok T_LineComment (pw q ++ render ps'))
          with (is_nil (pw q ++ render ps') || hdp newline (pw q ++ render ps')).
        apply andb_true_iff in A2. destruct A2 as [_ NL].
        rewrite hdp_app_nonempty by exact NEq. rewrite NL. apply orb_true_r.
      * reflexivity.
    + (* p is a token, q a separator *)
      cbn [orb] in A1. destruct (sep_first q Vq A1) as (c & w' & W & C). rewrite W. cbn [app].
      apply follow_sep_start; [exact C|].
      unfold is_sep in SP. destruct (pk p); try discriminate SP; reflexivity.
  - apply IH; [exact V|]. destruct ps as [|q ps']; [reflexivity|].
    cbn [separated] in S. apply andb_true_iff in S. destruct S as [_ S]. exact S.
Qed.

(** * Every well-nested comment is accepted by the specification's comment scanner *)

Lemma render_cevs_cons e es : render_cevs (e :: es) = render_cev e ++ render_cevs es.
Proof. reflexivity. Qed.

Lemma cev_closed_nonempty d es : cev_closed d es = true -> exists x y rest, render_cevs es = x :: y :: rest.
Proof.
  revert d. induction es as [|e es IH]; intros d H; [discriminate|].
  destruct e as [c| |]; rewrite render_cevs_cons; cbn [render_cev app].
  - cbn [cev_closed] in H. destruct (IH d H) as (x & y & rest & E). rewrite E. eauto.
  - eauto.
  - eauto.
Qed.

Lemma nested_comment_ok es : forall d, cev_closed d es = true -> cev_clean es = true ->
  bc_tail d (render_cevs es) = true.
Proof.
  induction es as [|e es IH]; intros d C K; [discriminate|].
  destruct e as [c| |]; rewrite render_cevs_cons; cbn [render_cev app].
  - cbn [cev_closed] in C. cbn [cev_clean] in K.
    apply andb_true_iff in K. destruct K as [K K3]. apply andb_true_iff in K. destruct K as [K1 K2].
    destruct (cev_closed_nonempty d es C) as (x & y & rest & E).
    specialize (IH d C K3). rewrite E in *. cbn [hdp] in K1, K2. cbn [bc_tail] in IH |- *.
    apply negb_true_iff in K1, K2. rewrite (N.eqb_sym 42 x) in K1. rewrite (N.eqb_sym 47 x) in K2.
    rewrite K1, K2. exact IH.
  - cbn [cev_closed] in C. cbn [cev_clean] in K. cbn [bc_tail]. change (47 =? 47) with true. change (42 =? 42) with true.
    cbn [andb]. apply IH; assumption.
  - cbn [cev_closed] in C. cbn [cev_clean] in K. cbn [bc_tail]. change (42 =? 47) with false. change (42 =? 42) with true.
    change (47 =? 47) with true. cbn [andb].
    destruct d as [|d'].
    + destruct es; [reflexivity|discriminate].
    + apply IH; assumption.
Qed.

Lemma nested_comment_in_spec es : cev_closed O es = true -> cev_clean es = true ->
  spec_sep T_BlockComment (47 :: 42 :: render_cevs es) = true.
Proof. intros C K. cbn [spec_sep is_block_comment]. rewrite !N.eqb_refl. cbn [andb]. apply nested_comment_ok; assumption. Qed.

(** * The side condition makes the decomposition unique *)

Lemma expected_tokens_inj (ps qs : list piece) :
  @expected_tokens lex_err ps = expected_tokens qs -> ps = qs.
Proof.
  unfold expected_tokens. revert qs. induction ps as [|[k w] ps IH]; intros [|[k' w'] qs] H; cbn [map app pk pw] in H.
  - reflexivity.
  - inversion H; subst. destruct qs; discriminate.
  - inversion H; subst. destruct ps; discriminate.
  - inversion H; subst. f_equal. apply IH. assumption.
Qed.

Lemma unambiguous ps qs :
  forallb valid_piece_d ps = true -> not_merged ps = true ->
  forallb valid_piece_d qs = true -> not_merged qs = true ->
  render ps = render qs -> ps = qs.
Proof.
  intros V1 M1 V2 M2 R. apply expected_tokens_inj.
  rewrite <- (conforms ps V1 M1), <- (conforms qs V2 M2), R. reflexivity.
Qed.

(** * Semantics of the generated Unicode range tables *)
Lemma in_ranges_spec rs c : in_ranges rs c = true <-> exists lo hi, In (lo, hi) rs /\ lo <= c /\ c <= hi.
Proof.
  induction rs as [|[lo hi] rs IH]; cbn [in_ranges].
  - split; [discriminate|intros (lo & hi & [] & _)].
  - rewrite orb_true_iff, andb_true_iff, N.leb_le, N.leb_le, IH. split.
    + intros [[A B]|(lo' & hi' & I & A & B)]; [exists lo, hi|exists lo', hi']; cbn; auto.
    + intros (lo' & hi' & [E|I] & A & B); [inversion E; subst; left; auto|right; eauto].
Qed.

(** * The side condition is necessary: the lexer never ends a token where [follow_ok] fails.
    Exceptions ([conservative]): a signed decimal / hex / binary integer directly followed by a letter
    or '_' that is no digit of its base (the lexer splits there, as llvm-tblgen does; the reference is
    ambiguous), '#' and the directives (the side condition is deliberately coarser there). *)

Lemma eat_while_stop (p : N -> bool) s a b : eat_while p s = (a, b) -> hdp p b = false.
Proof.
  revert a b. induction s as [|c s IH]; intros a b H; cbn [eat_while] in H.
  - inversion H. reflexivity.
  - destruct (p c) eqn:P.
    + destruct (eat_while p s) as [a' b'] eqn:E. inversion H; subst. apply (IH a' b). reflexivity.
    + inversion H; subst. cbn [hdp]. exact P.
Qed.

Lemma eat_while_all (p : N -> bool) s a b : eat_while p s = (a, b) -> forallb p a = true.
Proof.
  revert a b. induction s as [|c s IH]; intros a b H; cbn [eat_while] in H.
  - inversion H. reflexivity.
  - destruct (p c) eqn:P.
    + destruct (eat_while p s) as [a' b'] eqn:E. inversion H; subst. cbn [forallb]. rewrite P. apply (IH a' b). reflexivity.
    + inversion H; subst. reflexivity.
Qed.

Definition free_kind (k : TokenKind) : bool :=
  negb (wordlike k) && negb (kind_in bangs k) && negb (kind_in directives k)
  && match k with
     | T_Plus | T_Minus | T_Dot | T_LSquare | T_Paste | T_Whitespace | T_LineComment => false
     | _ => true
     end.

Lemma free_kind_follow k r : free_kind k = true -> follow_ok k r = true.
Proof.
  unfold free_kind, follow_ok. intros H.
  repeat (apply andb_true_iff in H; destruct H as [H ?]).
  repeat match goal with X : negb _ = true |- _ => apply negb_true_iff in X; rewrite X end.
  destruct k; try discriminate; reflexivity.
Qed.

(** kinds of the generated tables, seen from the specification *)
Lemma keyword_table_wordlike : forallb (fun kv => wordlike (snd kv)) keyword_table = true.
Proof. vm_compute. reflexivity. Qed.
Lemma bangop_table_bang :
  forallb (fun kv => negb (wordlike (snd kv)) && kind_in bangs (snd kv)) bangop_table = true.
Proof. vm_compute. reflexivity. Qed.
Lemma directive_table_directive : forallb (fun kv => kind_in directives (snd kv)) directive_table = true.
Proof. vm_compute. reflexivity. Qed.
Lemma punct_table_free :
  forallb (fun ck => (fst ck =? 91) || (fst ck =? 46) || free_kind (snd ck)) punct_table = true.
Proof. vm_compute. reflexivity. Qed.
Lemma punct_table_lsquare : lookup1 punct_table 91 = Some T_LSquare.
Proof. vm_compute. reflexivity. Qed.

Lemma lookup1_in {A} (tbl : list (N * A)) key v : lookup1 tbl key = Some v -> In (key, v) tbl.
Proof.
  induction tbl as [|[k' v'] tbl IH]; cbn [lookup1]; [discriminate|].
  destruct (k' =? key) eqn:E.
  - intros H. inversion H; subst. apply N.eqb_eq in E. subst. left. reflexivity.
  - intros H. right. apply IH. exact H.
Qed.

Lemma word_result_follow (tbl_k : option TokenKind) a rest' (s : text) :
  eat_while is_identifier_continue s = (a, rest') ->
  forall k, (match tbl_k with Some k0 => k0 | None => T_Id end) = k ->
  (forall k0, tbl_k = Some k0 -> wordlike k0 = true) -> follow_ok k rest' = true.
Proof.
  intros E k K W. assert (WK : wordlike k = true).
  { destruct tbl_k as [k0|]; subst k; [apply W; reflexivity|reflexivity]. }
  rewrite (follow_wordlike k rest' WK). apply negb_true_iff.
  rewrite <- (hdp_ext _ _ rest' cls_idchar). exact (eat_while_stop _ _ _ _ E).
Qed.

Lemma keyword_lookup_wordlike key k0 : lookup keyword_table key = Some k0 -> wordlike k0 = true.
Proof. intros L. exact (lookup_forallb wordlike _ _ _ keyword_table_wordlike L). Qed.

Lemma string_body_kind s : forall esc k a b, string_body esc s = (k, None, a, b) -> k = T_StrVal.
Proof.
  induction s as [|c r IH]; intros esc k a b H; [discriminate|].
  rewrite string_body_cons in H.
  destruct ((c =? 92) && negb esc).
  - destruct (string_body true r) as [[[k1 e1] a1] b1] eqn:E. inversion H; subst. eapply IH. exact E.
  - destruct ((c =? 34) && negb esc); [inversion H; reflexivity|].
    destruct ((c =? 13) || (c =? 10)); [discriminate|].
    destruct (string_body false r) as [[[k1 e1] a1] b1] eqn:E. inversion H; subst. eapply IH. exact E.
Qed.

Lemma number_follow c s k a rest : ((is_ascii_digit c) || (c =? 45) || (c =? 43)) = true ->
  number c s = (k, None, a, rest) -> conservative k (c :: a) = false -> follow_ok k rest = true.
Proof.
  intros C H NC. rewrite number_eq in H. cbv zeta in H. rewrite peek_digit_hdp in H.
  destruct (negb (hdp digit s) && (c =? 43)) eqn:P.
  { inversion H; subst. apply andb_true_iff in P. destruct P as [P _]. exact P. }
  destruct (negb (hdp digit s) && (c =? 45)) eqn:M.
  { inversion H; subst. apply andb_true_iff in M. destruct M as [M _]. exact M. }
  destruct (num_pfx c s) as [[base pfx] s1] eqn:EP.
  destruct (if base =? 2 then eat_while is_bin_digit s1
            else if base =? 10 then eat_while is_ascii_digit s1 else eat_while is_ascii_hexdigit s1)
    as [ds rest0] eqn:ED.
  destruct ((base =? 10) && _ && _) eqn:EI.
  { destruct (eat_while is_identifier_continue rest0) as [a' rest'] eqn:EA.
    destruct (lookup keyword_table (c :: ds ++ a')) as [k0|] eqn:L; inversion H; subst.
    - eapply (word_result_follow (Some k) _ _ _ EA); [reflexivity|]. intros k0 E0. inversion E0; subst.
      eapply keyword_lookup_wordlike; exact L.
    - eapply (word_result_follow None _ _ _ EA); [reflexivity|discriminate]. }
  destruct (negb (base =? 10) && _) eqn:EF.
  { destruct (eat_while is_identifier_continue rest0) as [a' rest'] eqn:EA.
    destruct (lookup keyword_table (c :: pfx ++ a')) as [k0|] eqn:L; inversion H; subst.
    - eapply (word_result_follow (Some k) _ _ _ EA); [reflexivity|]. intros k0 E0. inversion E0; subst.
      eapply keyword_lookup_wordlike; exact L.
    - eapply (word_result_follow None _ _ _ EA); [reflexivity|discriminate]. }
  destruct (interpret_ok _ _ _); [|discriminate]. inversion H; subst k a rest. clear H.
  (* numeric literal: outside [conservative] it is an unsigned decimal *)
  unfold conservative in NC. apply orb_false_iff in NC. destruct NC as [NC _].
  apply orb_false_iff in NC. destruct NC as [NC _].
  assert (KI : (tk_eqb (if base =? 2 then T_BinaryIntVal else T_IntVal) T_IntVal
                || tk_eqb (if base =? 2 then T_BinaryIntVal else T_IntVal) T_BinaryIntVal) = true)
    by (destruct (base =? 2); reflexivity).
  rewrite KI in NC. cbn [andb] in NC. apply negb_false_iff in NC.
  cbn [forallb] in NC. apply andb_true_iff in NC. destruct NC as [DC DA].
  rewrite forallb_app in DA. apply andb_true_iff in DA. destruct DA as [DP DD].
  (* c is a digit, so no sign; the prefix consists of digits, so it is empty: base 10 *)
  assert (B10 : base = 10 /\ pfx = [] /\ s1 = s).
  { unfold num_pfx in EP. destruct (c =? 48).
    - destruct (hd_eqb 98 s); [inversion EP; subst; discriminate DP|].
      destruct (hd_eqb 120 s); [inversion EP; subst; discriminate DP|]. inversion EP; auto.
    - inversion EP; auto. }
  destruct B10 as (-> & -> & ->). change (10 =? 2) with false in *. change (10 =? 10) with true in *.
  cbv beta iota in ED. cbn [andb negb] in EI.
  assert (SG : ((if c =? 43 then 1 else if c =? 45 then 2 else 0) =? 0) = true).
  { destruct (digit_not_sign c DC) as [-> ->]. reflexivity. }
  rewrite SG in EI. cbn [andb] in EI. rewrite ident_start_hdp in EI.
  change (follow_ok T_IntVal rest0) with (negb (hdp idchar rest0)). apply negb_true_iff.
  pose proof (eat_while_stop _ _ _ _ ED) as ND.
  destruct rest0 as [|d r0]; [reflexivity|]. cbn [hdp] in *. unfold idchar. rewrite EI.
  change (is_ascii_digit d) with (digit d) in ND. rewrite ND. reflexivity.
Qed.

Theorem follow_necessary s k a rest :
  lex_one s = (k, None, a, rest) -> conservative k a = false -> follow_ok k rest = true.
Proof.
  intros H NC. destruct s as [|c r]; [inversion H; reflexivity|]. rewrite lex_one_eq in H.
  destruct (is_whitespace c).
  { destruct (eat_while is_ascii_whitespace r) as [a' rest'] eqn:E. inversion H; subst.
    change (follow_ok T_Whitespace rest) with (negb (hdp wschar rest)). apply negb_true_iff.
    exact (eat_while_stop _ _ _ _ E). }
  destruct ((c =? 47) && hd_eqb 47 r).
  { unfold eat_until in H. destruct (eat_while (fun c0 => negb (is_newline c0)) (tl r)) as [a' rest'] eqn:E.
    inversion H; subst. change (follow_ok T_LineComment rest) with (is_nil rest || hdp newline rest).
    pose proof (eat_while_stop _ _ _ _ E) as S. destruct rest as [|d r0]; [reflexivity|].
    cbn [hdp is_nil orb] in *. apply negb_false_iff in S. rewrite cls_newline in S. exact S. }
  destruct ((c =? 47) && hd_eqb 42 r).
  { destruct (block_comment 0 (tl r)) as [a' rest']. inversion H; subst. reflexivity. }
  assert (NUM : ((is_ascii_digit c) || (c =? 45) || (c =? 43)) = true ->
                cons_lexeme c (number c r) = (k, None, a, rest) -> follow_ok k rest = true).
  { intros C H'. destruct (number c r) as [[[k1 e1] a1] b1] eqn:E. cbn [cons_lexeme] in H'.
    inversion H'; subst. eapply number_follow; [exact C|exact E|exact NC]. }
  destruct (is_ascii_digit c) eqn:D; [apply NUM; [reflexivity|exact H]|].
  destruct (c =? 45) eqn:M; [apply NUM; [reflexivity|exact H]|].
  destruct (c =? 43) eqn:P; [apply NUM; [reflexivity|exact H]|]. clear NUM.
  destruct (is_identifier_start c).
  { unfold identifier in H. destruct (eat_while is_identifier_continue r) as [a' rest'] eqn:E.
    destruct (lookup keyword_table (c :: a')) as [k0|] eqn:L; cbn [cons_lexeme tok] in H; inversion H; subst.
    - eapply (word_result_follow (Some k) _ _ _ E); [reflexivity|]. intros k0 E0. inversion E0; subst.
      eapply keyword_lookup_wordlike; exact L.
    - eapply (word_result_follow None _ _ _ E); [reflexivity|discriminate]. }
  destruct (c =? 34).
  { destruct (string_body false r) as [[[k1 e1] a1] b1] eqn:E. cbn [cons_lexeme] in H. inversion H; subst.
    rewrite (string_body_kind _ _ _ _ _ E). reflexivity. }
  destruct (c =? 36).
  { unfold var_name in H. destruct r as [|d r0]; [discriminate|].
    destruct (is_identifier_start d); [|discriminate].
    destruct (eat_while is_identifier_continue r0) as [a' rest'] eqn:E. cbn [cons_lexeme tok] in H. inversion H; subst.
    change (follow_ok T_VarName rest) with (negb (hdp idchar rest)). apply negb_true_iff.
    rewrite <- (hdp_ext _ _ rest cls_idchar). exact (eat_while_stop _ _ _ _ E). }
  destruct ((c =? 91) && hd_eqb 123 r) eqn:CF.
  { rewrite code_fragment_eq in H. destruct (eat_until2 125 93 (tl r)) as [a' rest'].
    destruct (hd_eqb 125 rest' && hd_eqb 93 (tl rest')); [|discriminate]. inversion H; subst. reflexivity. }
  destruct (c =? 33).
  { unfold bangoperator in H. destruct (eat_while is_ascii_alphabetic r) as [a' rest'] eqn:E.
    destruct (lookup bangop_table a') as [k0|] eqn:L; [|discriminate]. cbn [cons_lexeme tok] in H. inversion H; subst.
    pose proof (lookup_forallb (fun k1 => negb (wordlike k1) && kind_in bangs k1) _ _ _ bangop_table_bang L) as B. cbv beta in B. apply andb_true_iff in B. destruct B as [NW KB].
    apply negb_true_iff in NW. unfold follow_ok. rewrite NW, KB. apply negb_true_iff.
    rewrite <- (hdp_ext _ _ rest cls_letter). exact (eat_while_stop _ _ _ _ E). }
  destruct (c =? 35).
  { exfalso. unfold preprocessor in H. destruct (eat_while is_alphabetic r) as [a' rest'].
    unfold conservative in NC. apply orb_false_iff in NC. destruct NC as [NC ND]. apply orb_false_iff in NC. destruct NC as [_ NP].
    destruct (lookup directive_table a') as [k0|] eqn:L; cbn [cons_lexeme tok] in H; inversion H; subst.
    - rewrite (lookup_forallb (fun k1 => kind_in directives k1) _ _ _ directive_table_directive L) in ND. discriminate.
    - discriminate NP. }
  destruct (c =? 46) eqn:DOT.
  { destruct (hd_eqb 46 r) eqn:D2.
    - destruct (hd_eqb 46 (tl r)); [inversion H; subst; reflexivity|discriminate].
    - inversion H; subst. change (follow_ok T_Dot rest) with (negb (hdp (N.eqb 46) rest)).
      rewrite <- hd_eqb_hdp, D2. reflexivity. }
  destruct (lookup1 punct_table c) as [k0|] eqn:L; [|discriminate]. inversion H; subst.
  pose proof (lookup1_in _ _ _ L) as IL. pose proof punct_table_free as F. rewrite forallb_forall in F. specialize (F _ IL). cbn [fst snd] in F.
  rewrite DOT, orb_false_r in F. destruct (c =? 91) eqn:LS.
  - apply N.eqb_eq in LS. subst c. rewrite punct_table_lsquare in L. inversion L; subst.
    change (follow_ok T_LSquare rest) with (negb (hdp (N.eqb 123) rest)).
    cbn [andb] in CF. rewrite <- hd_eqb_hdp, CF. reflexivity.
  - cbn [orb] in F. apply free_kind_follow. exact F.
Qed.


Lemma expected_tokens_cons p ps : @expected_tokens lex_err (p :: ps) = (pk p, None, pw p) :: expected_tokens ps.
Proof. reflexivity. Qed.

Lemma expected_tokens_not_nil ps : @expected_tokens lex_err ps <> [].
Proof. unfold expected_tokens. destruct ps; discriminate. Qed.

Theorem side_condition_necessary ps :
  no_conservative ps = true -> lex_text (render ps) = expected_tokens ps -> not_merged ps = true.
Proof.
  induction ps as [|p ps IH]; intros NC H; [reflexivity|].
  cbn [no_conservative] in NC. apply andb_true_iff in NC. destruct NC as [NCp NC]. apply negb_true_iff in NCp.
  pose proof (lex_text_lexes (render (p :: ps))) as LX. rewrite H, expected_tokens_cons in LX.
  change (render (p :: ps)) with (pw p ++ render ps) in LX.
  inversion LX as [E1 E2|s k e a r l NE L1 LR E1 E2]; subst.
  - exfalso. exact (expected_tokens_not_nil ps (eq_sym H1)).
  - pose proof (lex_one_split _ _ _ _ _ L1) as SP. apply app_inv_head in SP. subst r.
    cbn [not_merged]. rewrite (follow_necessary _ _ _ _ L1 NCp). cbn [andb].
    apply IH; [exact NC|]. apply lexes_lex_text. exact LR.
Qed.

(** for piece lists without the coarse cases the side condition is exact *)
Theorem side_condition_exact ps :
  forallb valid_piece_d ps = true -> no_conservative ps = true ->
  (lex_text (render ps) = expected_tokens ps <-> not_merged ps = true).
Proof.
  intros V NC. split; [apply side_condition_necessary; exact NC|apply conforms; exact V].
Qed.

(** * Conformance of the regenerated source rendering (GenLexer.v), via GenLexerEq *)
From TG.Proofs Require GenLexerEq.
Lemma conforms_source ps :
  forallb valid_piece ps = true -> not_merged ps = true ->
  GenLexerEq.gen_lex_text (render ps) = map GenLexerEq.hand_view (expected_tokens ps).
Proof. intros V M. rewrite GenLexerEq.gen_lex_text_eq, (conforms_tokens ps V M). reflexivity. Qed.
