(** C18: what an add-op registers is what the final state shows.  For EVERY op sequence that replays without error, the entry
    allocated by an add-op keeps, to the end, the op's name, its define_loc, its type string (template argument, field, variable,
    defset) and its record kind -- the four things [Outline.symbol_to_document_symbol] reads to build an outline entry
    (the child lists / reference lists are the only parts later ops change). *)
From Coq Require Import List NArith Bool Lia.
From TG.Model Require Import Chars SymbolMap.
From TG.Proofs Require Import OutlineProofs SymbolMapBasics SymbolOps OutlineIndexProofs OutlineSourceProofs.
Import ListNotations.
Open Scope N_scope.

Definition payload_typ (p : payload) : option name :=
  match p with
  | PTemplateArg t | PRecordField t _ | PVariable t | PDefset t _ => Some t
  | _ => None
  end.
Definition payload_rk (p : payload) : option record_kind :=
  match p with PRecord k _ _ _ => Some k | _ => None end.
Definition esig (e : entry) : name * file_range * option name * option record_kind :=
  (e_name e, e_def e, payload_typ (e_payload e), payload_rk (e_payload e)).

Lemma esig_preserved : forall S o S' s e, apply_op S o = SOk S' -> get_entry S s = Some e ->
  exists e', get_entry S' s = Some e' /\ esig e' = esig e.
Proof.
  intros S o S' s e H He. apply apply_op_spec in H. destruct H as (Ha & _ & _). unfold arenas_after in Ha.
  destruct (op_alloc o) as [[[k e0] keyed]|].
  - destruct Ha as (Hg & _). rewrite Hg.
    destruct (sid_eqb s (k, next_id S k)) eqn:Q.
    + exfalso. apply sid_eqb_eq in Q. subst s. unfold get_entry in He. cbn [fst snd] in He.
      assert (next_id S k < len_N (get_arena S k)) as Hlt by (apply nth_N_some_lt; eauto).
      unfold next_id in Hlt. lia.
    + eauto.
  - destruct (op_update S o) as [[t g]|] eqn:Eu.
    + destruct Ha as (_ & Hg & _). rewrite Hg. destruct (sid_eqb t s); [|eauto].
      rewrite He. cbn [option_map]. eexists. split; [reflexivity|].
      destruct o; cbn [op_update] in Eu; try discriminate;
        try (destruct (cur_target S _); [|discriminate]; cbn [option_map] in Eu; injection Eu as _ <-);
        try (injection Eu as _ <-); unfold esig, upd_payload, push_ref; cbn [e_name e_def e_payload];
        try reflexivity; destruct (e_payload e); reflexivity.
    + rewrite (same_arenas_get_entry _ _ s Ha). eauto.
Qed.

Lemma esig_preserved_run : forall ops S S' s e, run_ops_from S ops = SOk S' -> get_entry S s = Some e ->
  exists e', get_entry S' s = Some e' /\ esig e' = esig e.
Proof.
  induction ops as [|o r IH]; intros S S' s e H He; cbn [run_ops_from] in H.
  - injection H as <-. eauto.
  - destruct (apply_op S o) as [S1|err] eqn:Ea; cbn [sbind] in H; [|discriminate].
    destruct (esig_preserved _ _ _ _ _ Ea He) as (e1 & H1 & E1).
    destruct (IH _ _ _ _ H H1) as (e2 & H2 & E2). exists e2. split; [exact H2|congruence].
Qed.

Theorem registration_kept : forall ops1 o ops2 S1 S k e0 keyed,
  run_ops ops1 = SOk S1 -> run_ops (ops1 ++ o :: ops2) = SOk S -> op_alloc o = Some (k, e0, keyed) ->
  exists e, get_entry S (k, next_id S1 k) = Some e /\ esig e = esig e0.
Proof.
  intros ops1 o ops2 S1 S k e0 keyed H1 H Ho. unfold run_ops in *. rewrite run_ops_from_app, H1 in H.
  cbn [sbind run_ops_from] in H. destruct (apply_op S1 o) as [S2|err] eqn:Ea; cbn [sbind] in H; [|discriminate].
  pose proof Ea as Hs. apply apply_op_spec in Hs. destruct Hs as (Ha & _ & _). unfold arenas_after in Ha. rewrite Ho in Ha.
  destruct Ha as (Hg & _). specialize (Hg (k, next_id S1 k)).
  assert (sid_eqb (k, next_id S1 k) (k, next_id S1 k) = true) as Q by (apply sid_eqb_eq; reflexivity).
  rewrite Q in Hg. exact (esig_preserved_run _ _ _ _ _ H Hg).
Qed.
