(** Every Id token of every tree the parser returns is NON-EMPTY, for every program of the grammar DSL:
    the look-ahead delivered by ParserBase::lex with kind Id spans at least one (non-empty) raw token, and the
    builder only ever receives the look-ahead.  With the tiling invariant (ParserTile / GTile) this makes the
    range of every Id leaf non-empty ([id_leaves_nonempty]).  Used by BridgeSymbol.v to drop the side condition
    "the identifier is non-empty". *)
From Coq Require Import List NArith Bool PeanoNat Lia.
From TG.Gen Require Import GenTokens GenLexTables.
From TG.Model Require Import Chars Lexer Prep Tree ParserPrims GInterp.
From TG.Proofs Require Import LexBasics PrepBasics ParserTile GTile.
Import ListNotations.
Open Scope N_scope.

(** no Id token of the tree is empty *)
Fixpoint id_ne (t : tree) : bool :=
  match t with
  | Tok k tx => negb (sk_eqb k S_Id) || match tx with [] => false | _ => true end
  | Node _ cs => (fix go (l : list tree) : bool := match l with [] => true | c :: r => id_ne c && go r end) cs
  end.
Lemma id_ne_node k cs : id_ne (Node k cs) = forallb id_ne cs.
Proof. cbn [id_ne]. induction cs as [|c r IH]; [reflexivity|]. cbn [forallb]. rewrite <- IH. reflexivity. Qed.

Definition Mine (s : pst) : Prop :=
  Forall (fun t => id_ne t = true) (children (bld s)) /\ (cur s = T_Id -> cur_text s <> []).

Lemma sk_of_tk_id k : sk_of_tk k = S_Id -> k = T_Id.
Proof. destruct k; cbn; intros H; try discriminate H; reflexivity. Qed.

Lemma tok_id_ne s : (cur s = T_Id -> cur_text s <> []) -> id_ne (Tok (sk_of_tk (cur s)) (cur_text s)) = true.
Proof.
  intros H. cbn [id_ne]. destruct (sk_eqb (sk_of_tk (cur s)) S_Id) eqn:E; [|reflexivity]. cbn [negb orb].
  apply sk_eqb_eq in E. apply sk_of_tk_id in E. specialize (H E). destruct (cur_text s); [contradiction|reflexivity].
Qed.

(** * save / lex / skip / eat *)
Lemma p_save_children s s1 : p_save s = Some s1 ->
  children (bld s1) = Tok (sk_of_tk (cur s)) (cur_text s) :: children (bld s) /\ parents (bld s1) = parents (bld s).
Proof.
  unfold p_save. destruct (tk_eqb (cur s) T_Error).
  - destruct (take_error _) as [[e|] pp']; [|discriminate]. intros E. inversion E. split; reflexivity.
  - intros E. inversion E. split; reflexivity.
Qed.

Lemma p_save_mine s s1 : p_save s = Some s1 -> Mine s -> Forall (fun t => id_ne t = true) (children (bld s1)).
Proof. intros E (C & K). destruct (p_save_children _ _ E) as (-> & _). constructor; [apply tok_id_ne; exact K|exact C]. Qed.

Lemma raw_text_cons t r : raw_text (t :: r) = rtext t ++ raw_text r.
Proof. reflexivity. Qed.

Lemma p_lex_children s : children (bld (p_lex s)) = children (bld s) /\ parents (bld (p_lex s)) = parents (bld s).
Proof. rewrite p_lex_eq. destruct (prep_next (pp s) (raw s)) as [[[k len] pp'] raw']. destruct (take_bytes len (src s)). split; reflexivity. Qed.

Lemma p_lex_id_nonempty txt s : Pre txt s -> cur (p_lex s) = T_Id -> cur_text (p_lex s) <> [].
Proof.
  intros [PT PS PC PR PE]. rewrite p_lex_eq.
  destruct (prep_next (pp s) (raw s)) as [[[k len] pp'] raw'] eqn:EP.
  destruct (prep_next_span _ _ _ _ _ _ EP) as (pre & ER & EL).
  assert (TB : take_bytes len (src s) = (raw_text pre, raw_text raw')).
  { rewrite PS, ER, raw_text_app, EL, <- bytes_raw_text. apply take_bytes_app. }
  rewrite TB. cbn [cur cur_text]. intros ->.
  destruct (raw s) as [|t0 r0] eqn:RS.
  - rewrite prep_next_nil in EP. destruct (0 <? openc (pp s)); inversion EP.
  - assert (NE : t0 :: r0 <> []) by discriminate.
    pose proof (prep_next_progress _ _ _ _ _ _ EP NE) as LT.
    destruct pre as [|t pre'].
    + cbn [app] in ER. rewrite <- ER in LT. lia.
    + destruct PR as (_ & _ & F3). rewrite ER in F3. inversion F3 as [|x l Hx _]; subst.
      rewrite raw_text_cons. intros H. apply app_eq_nil in H. destruct H as [H _]. contradiction.
Qed.

Lemma p_lex_mine txt s1 : Pre txt s1 -> Forall (fun t => id_ne t = true) (children (bld s1)) -> Mine (p_lex s1).
Proof.
  intros P C. split; [destruct (p_lex_children s1) as (-> & _); exact C|]. apply (p_lex_id_nonempty txt). exact P.
Qed.

Lemma p_skip_mine txt : forall fuel s s', Tile txt s -> Mine s -> p_skip fuel s = Some s' -> Mine s' /\ Tile txt s'.
Proof.
  induction fuel as [|x fuel IH]; intros s s' T M E; cbn [p_skip] in E.
  - destruct (is_trivia (cur s)); [discriminate|]. inversion E; subst. auto.
  - destruct (is_trivia (cur s)); [|inversion E; subst; auto].
    destruct (p_save_tile txt s T) as (s1 & S1 & P1). rewrite S1 in E.
    apply (IH (p_lex s1) s'); [apply p_lex_tile; exact P1|eapply p_lex_mine; [exact P1|eapply p_save_mine; eauto]|exact E].
Qed.

Lemma p_eat_mine txt s s' : Tile txt s -> Mine s -> p_eat s = Some s' -> Mine s' /\ Tile txt s'.
Proof.
  intros T M E. unfold p_eat in E. destruct (p_save_tile txt s T) as (s1 & S1 & P1). rewrite S1 in E.
  unfold p_skip_all in E. eapply p_skip_mine; [apply p_lex_tile; exact P1|eapply p_lex_mine; [exact P1|eapply p_save_mine; eauto]|exact E].
Qed.

Lemma p_eat_if_mine txt s k b s' : Tile txt s -> Mine s -> p_eat_if s k = Some (b, s') -> Mine s' /\ Tile txt s'.
Proof.
  unfold p_eat_if. intros T M E. destruct (p_at s k).
  - destruct (p_eat s) as [s1|] eqn:EE; [|discriminate]. inversion E; subst. eapply p_eat_mine; eauto.
  - inversion E; subst. auto.
Qed.

(** * start_node / finish_node keep the children's tokens *)
Lemma In_skipn' {A} n : forall (l : list A) x, In x (skipn n l) -> In x l.
Proof. induction n; intros [|a l] x H; cbn [skipn] in H; auto. right. auto. Qed.
Lemma In_firstn' {A} n : forall (l : list A) x, In x (firstn n l) -> In x l.
Proof. induction n; intros [|a l] x H; cbn [firstn] in H; try contradiction. destruct H as [->|H]; [left; reflexivity|right; auto]. Qed.

Lemma finish_children b b' : b_finish_node b = Some b' ->
  Forall (fun t => id_ne t = true) (children b) -> Forall (fun t => id_ne t = true) (children b').
Proof.
  intros E C. unfold b_finish_node in E. destruct (parents b) as [|[k first] ps]; [discriminate|]. inversion E. cbn [children].
  constructor.
  - rewrite id_ne_node. apply forallb_forall. intros x Hx. apply in_rev in Hx. apply In_firstn' in Hx.
    rewrite Forall_forall in C. apply C. exact Hx.
  - rewrite Forall_forall in *. intros x Hx. apply C. eapply In_skipn'. exact Hx.
Qed.

Lemma p_finish_node_mine s s' : p_finish_node s = Some s' -> Mine s -> Mine s'.
Proof.
  unfold p_finish_node. destruct (b_finish_node (bld s)) as [b|] eqn:E; [|discriminate]. intros H (C & K). inversion H.
  split; [cbn [bld with_bld]; eapply finish_children; eauto|exact K].
Qed.

Lemma start_at_children b cp k b' : b_start_node_at b cp k = Some b' -> children b' = children b.
Proof.
  unfold b_start_node_at. destruct (Nat.leb cp (List.length (children b))); [|discriminate].
  destruct (parents b) as [|[k0 first] ps]; [intros E; inversion E; reflexivity|].
  destruct (Nat.leb first cp); [intros E; inversion E; reflexivity|discriminate].
Qed.

Lemma error_eat_mine txt s m s' : Tile txt s -> Mine s ->
  match p_eat (with_bld (p_error s m) (b_start_node (bld (p_error s m)) S_Error)) with
  | Some s3 => p_finish_node s3
  | None => None
  end = Some s' -> Mine s'.
Proof.
  intros T M E. destruct (p_eat _) as [s3|] eqn:E3; [|discriminate].
  eapply p_finish_node_mine; [exact E|].
  assert (T2 : Tile txt (with_bld (p_error s m) (b_start_node (bld (p_error s m)) S_Error))).
  { apply tile_with_bld; [apply pushed_start_node|apply p_error_tile; exact T]. }
  refine (proj1 (p_eat_mine txt _ _ T2 _ E3)). exact M.
Qed.

(** * Every primitive preserves (Tile /\ Mine) *)
Definition TM (txt : text) (s : pst) : Prop := Tile txt s /\ Mine s.

Lemma exec_prim_tm txt p pr en s : TM txt s -> res_inv (TM txt) (exec_prim p pr en s).
Proof.
  intros (T & M). pose proof (exec_prim_tile txt p pr en s T) as HT. destruct pr; cbn [exec_prim] in *.
  - (* start_node *) cbn [res_inv] in *. split; [exact HT|]. destruct M as (C & K). split; [exact C|exact K].
  - (* finish_node *) destruct (p_finish_node s) as [s'|] eqn:E; cbn [lift res_inv] in *; [|exact I].
    split; [exact HT|eapply p_finish_node_mine; eauto].
  - (* checkpoint *) split; assumption.
  - (* start_node_at *) destruct (env_get en x) as [[b|cp]|]; cbn [res_inv] in *; auto.
    destruct (p_start_node_at s cp k) as [s'|] eqn:E; cbn [lift res_inv] in *; [|exact I]. split; [exact HT|].
    unfold p_start_node_at in E. destruct (b_start_node_at (bld s) cp k) as [b|] eqn:B; [|discriminate]. inversion E.
    destruct M as (C & K). split; [cbn [bld with_bld]; rewrite (start_at_children _ _ _ _ B); exact C|exact K].
  - (* assert *) destruct (p_assert s k) as [s'|] eqn:E; cbn [lift res_inv] in *; [|exact I]. split; [exact HT|].
    unfold p_assert in E. destruct (p_eat_if s k) as [[[|] s1]|] eqn:EI; try discriminate. inversion E; subst.
    exact (proj1 (p_eat_if_mine txt _ _ _ _ T M EI)).
  - (* expect *) destruct (p_expect s k m) as [s'|] eqn:E; cbn [lift res_inv] in *; [|exact I]. split; [exact HT|].
    unfold p_expect in E. destruct (p_eat_if s k) as [[[|] s1]|] eqn:EI; try discriminate.
    + inversion E; subst. exact (proj1 (p_eat_if_mine txt _ _ _ _ T M EI)).
    + destruct (p_eat_if_mine txt _ _ _ _ T M EI) as (M1 & _). destruct (after_err s1); inversion E; subst; exact M1.
  - (* eat *) destruct (p_eat s) as [s'|] eqn:E; cbn [lift res_inv] in *; [|exact I]. split; [exact HT|].
    exact (proj1 (p_eat_mine txt _ _ T M E)).
  - (* eat_if *) destruct (p_eat_if s k) as [[b s1]|] eqn:EI; cbn [res_inv] in *; [|exact I]. split; [exact HT|].
    exact (proj1 (p_eat_if_mine txt _ _ _ _ T M EI)).
  - (* skip *) destruct (p_skip_all s) as [s'|] eqn:E; cbn [lift res_inv] in *; [|exact I]. split; [exact HT|].
    unfold p_skip_all in E. exact (proj1 (p_skip_mine txt _ _ _ T M E)).
  - (* error *) cbn [res_inv] in *. split; [exact HT|exact M].
  - (* error_and_eat *) destruct (p_error_and_eat s m) as [s'|] eqn:E; cbn [lift res_inv] in *; [|exact I]. split; [exact HT|].
    unfold p_error_and_eat in E. exact (error_eat_mine txt s m s' T M E).
  - (* error_and_recover *) destruct (p_error_and_recover (recover_tokens p) s m) as [s'|] eqn:E; cbn [lift res_inv] in *; [|exact I].
    split; [exact HT|]. unfold p_error_and_recover in E.
    destruct (negb (p_at_set (p_error s m) (recover_tokens p)) && negb (p_eof (p_error s m))).
    + exact (error_eat_mine txt s m s' T M E).
    + inversion E. exact M.
  - split; assumption.
Qed.

(** * Any invariant preserved by every primitive is preserved by every program (the scheme of GTile.gexec_tile) *)
Theorem gexec_inv (P : pst -> Prop) p : (forall pr en s, P s -> res_inv P (exec_prim p pr en s)) ->
  forall n e en s, P s -> res_inv P (gexec n p e en s).
Proof.
  intros HP. induction n as [|n IH]; intros e en s T; [exact I|].
  destruct e as [b|x|a|pr|f arg|a b|c a b|c b| |a|x a]; cbn [gexec].
  - exact T.
  - destruct (env_get en x); cbn; auto.
  - pose proof (IH a en s T) as H. destruct (gexec n p a en s) as [[b|m] en1 s1| | | |]; cbn in *; auto.
  - apply HP, T.
  - destruct (fn_body p f) as [body|]; [|exact I].
    destruct (match arg with Some (x, _) => match env_get en x with Some v => Some [v] | None => None end | None => Some [] end) as [cen0|]; [|exact I].
    pose proof (IH body cen0 s T) as H.
    destruct (gexec n p body cen0 s) as [v cen1 s1|cen1 s1|v cen1 s1| |]; cbn in *; auto;
      destruct arg as [[x [|]]|]; cbn; auto; destruct cen1; cbn; auto.
  - pose proof (IH a en s T) as H. destruct (gexec n p a en s) as [v en1 s1| | | |]; cbn in *; auto.
  - pose proof (IH c en s T) as H. destruct (gexec n p c en s) as [[[|]|m] en1 s1| | | |]; cbn in *; auto.
  - pose proof (IH c en s T) as H. destruct (gexec n p c en s) as [[[|]|m] en1 s1| | | |]; cbn in *; auto.
    pose proof (IH b en1 s1 H) as H2. destruct (gexec n p b en1 s1) as [v en2 s2|en2 s2| | |]; cbn in *; auto.
  - exact T.
  - pose proof (IH a en s T) as H. destruct (gexec n p a en s) as [v en1 s1| | | |]; cbn in *; auto.
  - pose proof (IH a en s T) as H. destruct (gexec n p a en s) as [v en1 s1| | | |]; cbn in *; auto.
Qed.

(** * The tree of every completed parse, for EVERY program *)
Lemma p_new_tm txt : TM txt (p_new txt).
Proof.
  split; [apply p_new_tile|]. unfold p_new.
  set (s0 := {| raw := raw_lex txt; src := txt; pp := pinit; cursor := 0; cur := T_Eof; cur_lo := 0; cur_text := [];
                bld := builder_init; errs := []; after_err := false; nlex := 0; nstart := 0 |}).
  apply (p_lex_mine txt); [|constructor].
  constructor; cbn [raw src pp cursor bld errs s0]; try reflexivity.
  - symmetry. apply raw_lex_concat.
  - apply raw_ok_lex.
  - constructor.
Qed.

Lemma id_ne_leaves : forall t off, id_ne t = true ->
  forall lo hi tx, In (S_Id, lo, hi, tx) (leaves_from off t) -> tx <> [].
Proof.
  fix IH 1. intros [k cs|k txt] off H lo hi tx Hin.
  - rewrite id_ne_node in H. rewrite leaves_from_node in Hin. revert off Hin.
    induction cs as [|c r IHr]; intros off Hin; [contradiction|]. cbn [forallb] in H. apply andb_true_iff in H. destruct H as [H1 H2].
    cbn [forest_leaves] in Hin. apply in_app_or in Hin. destruct Hin as [Hin|Hin].
    + eapply (IH c off H1). exact Hin.
    + eapply (IHr H2). exact Hin.
  - cbn [leaves_from] in Hin. destruct Hin as [Hin|[]]. inversion Hin; subst. cbn [id_ne] in H.
    replace (sk_eqb S_Id S_Id) with true in H by reflexivity. cbn [negb orb] in H. destruct tx; [discriminate|discriminate].
Qed.

Theorem parse_id_nonempty p entry fuel txt t errs st :
  parse_with fuel p entry txt = ParseOk t errs st ->
  forall lo hi tx, In (S_Id, lo, hi, tx) (leaves t) -> tx <> [] /\ lo < hi.
Proof.
  intros H lo hi tx Hin. unfold parse_with in H.
  pose proof (gexec_inv (TM txt) p (fun pr en s => exec_prim_tm txt p pr en s) fuel (ECall entry None) [] (p_new txt) (p_new_tm txt)) as T.
  assert (F : forall s, TM txt s -> p_finish s = Some (t, errs) -> id_ne t = true).
  { intros s (_ & (C & _)) E. unfold p_finish in E. destruct (b_finish (bld s)) as [t0|] eqn:B; [|discriminate]. inversion E; subst t0.
    unfold b_finish in B. destruct (children (bld s)) as [|[k cs|k tx0] [|c2 r]] eqn:EC; try discriminate.
    assert (t = Node k cs) by (destruct (parents (bld s)); inversion B; reflexivity). subst t.
    inversion C. assumption. }
  assert (NE : id_ne t = true).
  { destruct (gexec fuel p (ECall entry None) [] (p_new txt)) as [v en s|en s|v en s| |]; try discriminate; cbn [res_inv] in T;
      destruct (p_finish s) as [[t0 es]|] eqn:PF; try discriminate; inversion H; subst; eapply F; eauto. }
  assert (X : tx <> []) by (eapply (id_ne_leaves t 0 NE); exact Hin). split; [exact X|].
  destruct (leaves_from_spec t 0) as (_ & R & _). unfold leaves in Hin.
  assert (G : forall ls off, running off ls -> In (S_Id, lo, hi, tx) ls -> hi = lo + bytes tx).
  { induction ls as [|[[[k0 lo0] hi0] tx0] r IHr]; intros off Rr Hi; [contradiction|]. cbn [running] in Rr.
    destruct Rr as (-> & -> & Rr). destruct Hi as [Hi|Hi]; [inversion Hi; subst; reflexivity|eapply IHr; eauto]. }
  rewrite (G _ _ R Hin). destruct tx as [|c r]; [contradiction|]. cbn [bytes]. pose proof (utf8_len_pos c). lia.
Qed.
