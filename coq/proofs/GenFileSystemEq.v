(** The hand model M-host (TG.Model.Includes / Host) IS the current source: the Gallina rendering of
    crates/ide/src/file_system.rs, crates/ide/src/analysis.rs and crates/lsp/src/vfs.rs that
    tools/translate/t_filesystem.py regenerates on every run (TG.Gen.GenFileSystem) is equal, for all
    arguments, to the functions of the hand model.

    Data representation: the rendering keeps Rust's data layout (FileSet = two HashMaps, Vfs = struct of
    three fields, SourceRoot = FileSet + root); the hand model keeps one association list per table.
    [emb_ids] / [emb_fset] / [emb_vfs] embed the model's states into the rendering's; the equalities are
    stated on embedded states, results included (so they compose along any run). *)
From Coq Require Import List NArith Bool.
From TG.Model Require Import Includes Host FsOps.
From TG.Gen Require Import GenFileSystem.
Import ListNotations.
Local Open Scope N_scope.

Section Eq.
Context {path istr : Type} {PA : PathAlg path istr}.
Notation content := (content istr).
Notation world := (world path istr).
Notation fsys := (@fsys path istr).
Notation inputs := (@inputs path istr).

Definition swap {A B : Type} (x : A * B) : B * A := (snd x, fst x).

(** the id table of the Vfs ([ids], newest first) and the file set under construction of
    collect_sources ([fset], newest first) as FileSets *)
Definition emb_ids (l : list (path * N)) : gFileSet := mk_gFileSet l (map swap l).
Definition emb_fset (l : list (N * path)) : gFileSet := mk_gFileSet (map swap l) l.
Definition emb_vfs (fs : fsys) : gVfs := mk_gVfs (emb_ids (ids fs)) (next fs) (opened fs).

(** ** HashMap contracts vs the model's list functions *)
Lemma hm_get_assoc : forall (B : Type) (l : list (path * B)) p, hm_get path_eqb l p = assoc p l.
Proof. induction l as [|[q b] l IH]; intro p; cbn; [reflexivity|]. rewrite IH. reflexivity. Qed.

Lemma hm_get_rassoc : forall (l : list (path * N)) f, hm_get N.eqb (map swap l) f = rassoc f l.
Proof. induction l as [|[q g] l IH]; intro f; cbn; [reflexivity|]. rewrite IH. reflexivity. Qed.

Lemma hm_contains_fset_mem : forall (l : list (N * path)) f, hm_contains_key N.eqb l f = fset_mem f l.
Proof.
  unfold hm_contains_key, fset_mem. induction l as [|[g q] l IH]; intro f; cbn; [reflexivity|].
  destruct (g =? f); [reflexivity|]. apply IH.
Qed.

(** ** file_system.rs: FileSet *)
Lemma FileSet_new_ids : gen_FileSet_new = emb_ids [].
Proof. reflexivity. Qed.
Lemma FileSet_new_fset : gen_FileSet_new = emb_fset [].
Proof. reflexivity. Qed.
Lemma FileSet_insert_ids : forall l f p, gen_FileSet_insert (emb_ids l) f p = emb_ids ((p, f) :: l).
Proof. reflexivity. Qed.
Lemma FileSet_insert_fset : forall l f p, gen_FileSet_insert (emb_fset l) f p = emb_fset ((f, p) :: l).
Proof. reflexivity. Qed.
Lemma FileSet_file_for_path_ids : forall l p, gen_FileSet_file_for_path (emb_ids l) p = assoc p l.
Proof. intros. autounfold with gensrc. cbn [emb_ids gFileSet_path_to_id]. apply hm_get_assoc. Qed.
Lemma FileSet_path_for_file_ids : forall l f,
  gen_FileSet_path_for_file (emb_ids l) f = match rassoc f l with Some p => Done p | None => Panic PNoPath end.
Proof.
  intros. autounfold with gensrc. cbn [emb_ids gFileSet_id_to_path]. unfold hm_index.
  rewrite hm_get_rassoc. destruct (rassoc f l); reflexivity.
Qed.
Lemma FileSet_contains_fset : forall l f, gen_FileSet_contains (emb_fset l) f = fset_mem f l.
Proof. intros. autounfold with gensrc. cbn [emb_fset gFileSet_id_to_path]. apply hm_contains_fset_mem. Qed.

(** ** vfs.rs *)
Variable w : world.

Lemma Vfs_new_eq : gen_Vfs_new = emb_vfs fs_init.
Proof. reflexivity. Qed.

Lemma Vfs_set_open_document_eq : forall fs p c,
  gen_Vfs_set_open_document (emb_vfs fs) p c = emb_vfs (set_open fs p c).
Proof. reflexivity. Qed.

Lemma Vfs_assign_eq : forall fs p,
  gen_Vfs_assign_or_get_file_id (emb_vfs fs) p = let '(f, fs') := assign fs p in (emb_vfs fs', f).
Proof.
  intros fs p. unfold gen_Vfs_assign_or_get_file_id, assign, file_for_path.
  cbn [emb_vfs gVfs_file_set]. rewrite FileSet_file_for_path_ids.
  destruct (assoc p (ids fs)); reflexivity.
Qed.

Lemma Vfs_path_for_file_eq : forall fs f,
  gen_Vfs_path_for_file (emb_vfs fs) f =
  match path_for_file fs f with Some p => Done p | None => Panic PNoPath end.
Proof.
  intros fs f. unfold gen_Vfs_path_for_file, path_for_file. cbn [emb_vfs gVfs_file_set].
  rewrite FileSet_path_for_file_ids. destruct (rassoc f (ids fs)); reflexivity.
Qed.

Lemma Vfs_read_content_eq : forall fs p, gen_Vfs_read_content w (emb_vfs fs) p = read w fs p.
Proof.
  intros fs p. unfold gen_Vfs_read_content, read, disk_read. cbn [emb_vfs gVfs_open_documents].
  rewrite hm_get_assoc. destruct (assoc p (opened fs)); [reflexivity|]. destruct (disk w p); reflexivity.
Qed.

(** ** trait FileSystem as the model implements it (read_content also logs the call, as the harness'
    MemFs does) *)
Definition model_fso : FileSystemOps fsys :=
  {| fso_assign := assign;
     fso_path_for_file := fun fs f => match path_for_file fs f with Some p => Done p | None => Panic PNoPath end;
     fso_read_content := fun fs p => (log_read fs p, read w fs p) |}.

(** ** file_system.rs: resolve_include_file *)
Lemma resolve_include_file_eq : forall s dirs db fs,
  gen_resolve_include_file model_fso db fs s dirs =
  let '(fs', db', o) := resolve w fs db s dirs in (db', fs', o).
Proof.
  intros s. unfold gen_resolve_include_file.
  induction dirs as [|d r IH]; intros db fs; cbn [for_find resolve]; [reflexivity|].
  unfold gen_FilePath_join at 1 2. unfold fs_assign at 1.
  cbn [model_fso fso_read_content fso_assign].
  destruct (read w fs (join d s)) as [c|].
  - destruct (assign (log_read fs (join d s)) (join d s)) as [f fs2]. reflexivity.
  - apply IH.
Qed.

(** ** file_system.rs: collect_sources *)
Lemma for_each_push : forall (A : Type) (xs l : list A),
  for_each xs (fun x l => vec_push l x) l = l ++ xs.
Proof.
  intros A. induction xs as [|x xs IH]; intro l; cbn [for_each]; [rewrite app_nil_r; reflexivity|].
  rewrite IH. unfold vec_push. rewrite <- app_assoc. reflexivity.
Qed.

(** the include loop of one file: the body as the rendering has it *)
Definition inc_body (dirs : list path) :=
  fun (x : rng * istr) (st : inputs * fsys * list N * list (rng * N)) =>
    let '(sid, s) := x in
    let '(db, fs, files, imap) := st in
    let '(db', fs', o) := gen_resolve_include_file model_fso db fs s dirs in
    match o with
    | Some f => (db', fs', vec_push files f, hm_insert imap sid f)
    | None => (db', fs', files, imap)
    end.

Lemma include_loop_eq : forall dirs incs db fs files imap,
  for_each incs (inc_body dirs) (db, fs, files, imap) =
  let '(fs', db', l) := resolve_all w fs db dirs incs in
  (db', fs', files ++ map snd l, rev l ++ imap).
Proof.
  intros dirs. induction incs as [|[sid s] r IH]; intros db fs files imap; cbn [for_each resolve_all].
  - rewrite app_nil_r. reflexivity.
  - unfold inc_body at 2. rewrite resolve_include_file_eq.
    destruct (resolve w fs db s dirs) as [[fs1 db1] o].
    destruct o as [f|]; rewrite IH; destruct (resolve_all w fs1 db1 dirs r) as [[fs2 db2] l].
    + unfold vec_push, hm_insert. cbn [map snd rev]. rewrite <- !app_assoc. reflexivity.
    + reflexivity.
Qed.

Definition collect_result (r : outcome (fsys * inputs * list (N * path))) (root : N)
  : outcome (inputs * fsys * gSourceRoot) :=
  match r with
  | Done (fs', db', fset) => Done (db', fs', mk_gSourceRoot (emb_fset fset) root)
  | OutOfFuel => OutOfFuel
  | Panic e => Panic e
  end.

(** the body of the `while let Some(file_id) = files.pop_front()` loop, as rendered *)
Definition walk_body :=
  fun (f : N) (files : list N) (st : inputs * fsys * gFileSet) =>
    let '(db, fs, file_set) := st in
    if gen_FileSet_contains file_set f then Done (files, (db, fs, file_set))
    else
      bind (db_parse db f) (fun c =>
      bind (fso_path_for_file model_fso fs f) (fun p =>
      bind (expect_parent (gen_FilePath_parent p)) (fun d =>
      let file_set := gen_FileSet_insert file_set f p in
      let dirs := for_each (env_include_dir w) (fun x l => vec_push l x) [d] in
      let '(db, fs, files, imap) :=
        for_each (ast_list_includes c) (inc_body dirs) (db, fs, files, []) in
      Done (files, (db_set_resolved_include_map db f imap, fs, file_set))))).

(** [body] is the rendered loop body; the hypothesis is discharged by conversion at the use site *)
Lemma walk_eq : forall body,
  (forall f files db fs fset, body f files (db, fs, emb_fset fset) = walk_body f files (db, fs, emb_fset fset)) ->
  forall fuel fs db queue fset,
  while_pop fuel body queue (db, fs, emb_fset fset) =
  match collect fuel w fs db queue fset with
  | Done (fs', db', fset') => Done (db', fs', emb_fset fset')
  | OutOfFuel => OutOfFuel
  | Panic e => Panic e
  end.
Proof.
  intros body Hbody.
  induction fuel as [|n IH]; intros fs db queue fset; destruct queue as [|f q]; cbn [while_pop collect];
    try reflexivity.
  rewrite Hbody. unfold walk_body. rewrite FileSet_contains_fset.
  destruct (fset_mem f fset); [apply IH|].
  unfold db_parse. destruct (fc db f) as [c|]; cbn [bind]; [|reflexivity].
  cbn [model_fso fso_path_for_file]. destruct (path_for_file fs f) as [p|]; cbn [bind]; [|reflexivity].
  unfold gen_FilePath_parent, expect_parent. destruct (parent p) as [d|]; cbn [bind]; [|reflexivity].
  rewrite for_each_push. unfold env_include_dir, ast_list_includes. cbn [app].
  rewrite include_loop_eq.
  destruct (resolve_all w fs db (d :: extra w) (list_includes (c_items c))) as [[fs1 db1] l].
  rewrite FileSet_insert_fset. unfold db_set_resolved_include_map.
  rewrite app_nil_r, rev_involutive. apply IH.
Qed.

Theorem collect_sources_eq : forall fuel db fs root,
  gen_collect_sources w model_fso fuel db fs root = collect_result (collect fuel w fs db [root] []) root.
Proof.
  intros fuel db fs root. unfold gen_collect_sources.
  rewrite FileSet_new_fset. cbn [vec_push app].
  rewrite walk_eq; [|intros; reflexivity].
  destruct (collect fuel w fs db [root] []) as [[[fs' db'] fset]| |e]; reflexivity.
Qed.

(** ** analysis.rs *)
Theorem set_file_content_eq : forall (db : inputs) f c,
  gen_AnalysisHost_set_file_content (mk_gAnalysisHost db) f c = mk_gAnalysisHost (set_fc db f c).
Proof. reflexivity. Qed.

Theorem set_root_file_eq : forall fuel db fs root,
  gen_AnalysisHost_set_root_file w model_fso fuel (mk_gAnalysisHost db) fs root =
  match set_root_file fuel w fs db root with
  | Done (fs', db') => Done (mk_gAnalysisHost db', fs')
  | OutOfFuel => OutOfFuel
  | Panic e => Panic e
  end.
Proof.
  intros fuel db fs root. unfold gen_AnalysisHost_set_root_file, set_root_file.
  cbn [gAnalysisHost_db]. rewrite collect_sources_eq.
  destruct (collect fuel w fs db [root] []) as [[[fs' db'] fset]| |e]; reflexivity.
Qed.

(** ** packaged per property *)
Theorem c16_model_is_source :
  (* FileSet, on the Vfs' id table and on the file set collect_sources builds *)
  (gen_FileSet_new = emb_ids [] /\ gen_FileSet_new = emb_fset []) /\
  (forall l f p, gen_FileSet_insert (emb_ids l) f p = emb_ids ((p, f) :: l)) /\
  (forall l f p, gen_FileSet_insert (emb_fset l) f p = emb_fset ((f, p) :: l)) /\
  (forall l p, gen_FileSet_file_for_path (emb_ids l) p = assoc p l) /\
  (forall l f, gen_FileSet_path_for_file (emb_ids l) f =
               match rassoc f l with Some p => Done p | None => Panic PNoPath end) /\
  (forall l f, gen_FileSet_contains (emb_fset l) f = fset_mem f l) /\
  (* resolve_include_file and collect_sources, over the model's implementation of trait FileSystem *)
  (forall s dirs db fs, gen_resolve_include_file model_fso db fs s dirs =
                        let '(fs', db', o) := resolve w fs db s dirs in (db', fs', o)) /\
  (forall fuel db fs root, gen_collect_sources w model_fso fuel db fs root =
                           collect_result (collect fuel w fs db [root] []) root).
Proof.
  split; [split; reflexivity|]. split; [apply FileSet_insert_ids|]. split; [apply FileSet_insert_fset|].
  split; [apply FileSet_file_for_path_ids|]. split; [apply FileSet_path_for_file_ids|].
  split; [apply FileSet_contains_fset|]. split; [apply resolve_include_file_eq|apply collect_sources_eq].
Qed.

Theorem c07_model_is_source :
  (forall (db : inputs) f c,
     gen_AnalysisHost_set_file_content (mk_gAnalysisHost db) f c = mk_gAnalysisHost (set_fc db f c)) /\
  (forall fuel db fs root,
     gen_AnalysisHost_set_root_file w model_fso fuel (mk_gAnalysisHost db) fs root =
     match set_root_file fuel w fs db root with
     | Done (fs', db') => Done (mk_gAnalysisHost db', fs')
     | OutOfFuel => OutOfFuel
     | Panic e => Panic e
     end).
Proof. split; [apply set_file_content_eq|apply set_root_file_eq]. Qed.

Theorem c12_model_is_source :
  gen_Vfs_new = emb_vfs fs_init /\
  (forall fs p c, gen_Vfs_set_open_document (emb_vfs fs) p c = emb_vfs (set_open fs p c)) /\
  (forall fs p, gen_Vfs_assign_or_get_file_id (emb_vfs fs) p = let '(f, fs') := assign fs p in (emb_vfs fs', f)) /\
  (forall fs f, gen_Vfs_path_for_file (emb_vfs fs) f =
                match path_for_file fs f with Some p => Done p | None => Panic PNoPath end) /\
  (forall fs p, gen_Vfs_read_content w (emb_vfs fs) p = read w fs p).
Proof.
  split; [reflexivity|]. split; [apply Vfs_set_open_document_eq|]. split; [apply Vfs_assign_eq|].
  split; [apply Vfs_path_for_file_eq|apply Vfs_read_content_eq].
Qed.

End Eq.
