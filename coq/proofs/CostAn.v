(** A-cost: the quantitative half of A-prog.  Executable definitions only (soundness: CostSound.v).

    Work of a parser state: [nlex + nstart] (calls of ParserBase::lex and ParserBase::start_node).
    [zc zf e]      bound on the work of [e] that is not paid by consumed tokens (every call costs the callee's
                   null bound [zf f]; a loop is charged twice: first iteration + final partial iteration);
    [znull zf r e] bound on the work of a NULL execution of [e] (nothing consumed) inside a function of rank [r]:
                   in a null execution only callees of strictly lower rank run (no left recursion) and no loop
                   completes an iteration;
    tables/constants (computed by [cost_consts], re-checked by [cchk]): [zf] per function, [D] >= zc of every body
    and of every loop (condition + body), [RM] > every rank, [B] = tokens pay B units of work each. *)
From Coq Require Import List Arith NArith Bool.
From TG.Gen Require Import GenTokens.
From TG.Model Require Import Chars Lexer Prep Tree ParserPrims GInterp.
From TG.Proofs Require Import LookProg.
Import ListNotations.
Open Scope nat_scope.

Definition prim_cost (pr : prim) : nat :=
  match pr with
  | PStartNode _ | PAssert _ | PExpect _ _ | PEat | PEatIf _ | PErrorAndEat _ | PErrorAndRecover _ => 1
  | PFinishNode | PCheckpoint | PStartNodeAt _ _ | PSkip | PError _ | PAtSet _ => 0
  end.

Section COST.
Variable ce : cert.
Variable zf : list nat.
Definition zfn (f : nat) : nat := nth f zf 0.
Definition rk (f : nat) : nat := rank (cert_of ce f).

Fixpoint zc (e : expr) : nat :=
  match e with
  | EB _ | EVar _ | EBreak => 0
  | ENot x | EReturn x | ESet _ x => zc x
  | EPrim pr => prim_cost pr
  | ECall f _ => zfn f
  | ESeq x y => zc x + zc y
  | EIf c x y => zc c + Nat.max (zc x) (zc y)
  | EWhile c b => 2 * (zc c + zc b)
  end.

Fixpoint znull (r : nat) (e : expr) : nat :=
  match e with
  | EB _ | EVar _ | EBreak => 0
  | ENot x | EReturn x | ESet _ x => znull r x
  | EPrim pr => prim_cost pr
  | ECall f _ => if Nat.ltb (rk f) r then zfn f else 0
  | ESeq x y => znull r x + znull r y
  | EIf c x y => znull r c + Nat.max (znull r x) (znull r y)
  | EWhile c b => znull r c + znull r b
  end.

(** null bound when callees of any rank may run (the function has already consumed): a loop runs its condition and
    at most one partial iteration *)
Fixpoint zcn (e : expr) : nat :=
  match e with
  | EB _ | EVar _ | EBreak => 0
  | ENot x | EReturn x | ESet _ x => zcn x
  | EPrim pr => prim_cost pr
  | ECall f _ => zfn f
  | ESeq x y => zcn x + zcn y
  | EIf c x y => zcn c + Nat.max (zcn x) (zcn y)
  | EWhile c b => zcn c + zcn b
  end.

(** every loop's overhead (condition + body once) is at most [D] *)
Fixpoint loops_ok (D : nat) (e : expr) : bool :=
  match e with
  | EB _ | EVar _ | EBreak | EPrim _ | ECall _ _ => true
  | ENot x | EReturn x | ESet _ x => loops_ok D x
  | ESeq x y => loops_ok D x && loops_ok D y
  | EIf c x y => loops_ok D c && loops_ok D x && loops_ok D y
  | EWhile c b => Nat.leb (zc c + zc b) D && loops_ok D c && loops_ok D b
  end.

Definition cchk_fn (D RM : nat) (f : nat) (body : expr) : bool :=
  Nat.leb (znull (rk f) body) (zfn f) && Nat.leb (zc body) D && loops_ok D body && Nat.ltb (rk f) RM.
Fixpoint cchk_fns (D RM : nat) (f : nat) (l : list expr) : bool :=
  match l with [] => true | b :: r => cchk_fn D RM f b && cchk_fns D RM (S f) r end.
End COST.

(** slack owed by a consuming execution inside a function of rank [r] *)
Definition sigma (D RM r : nat) : nat := 2 * D + (RM - r) * D.

Record cconsts := { c_zf : list nat; c_D : nat; c_RM : nat; c_B : nat }.
Definition cchk (p : prog) (ce : cert) (k : cconsts) : bool :=
  cchk_fns ce (c_zf k) (c_D k) (c_RM k) 0 (fns p) && Nat.leb (2 + sigma (c_D k) (c_RM k) 0) (c_B k).

(** computing the constants (untrusted: [cchk] re-checks them) *)
Fixpoint indexed {A} (i : nat) (l : list A) : list (nat * A) :=
  match l with [] => [] | x :: r => (i, x) :: indexed (S i) r end.
Definition zf_step (p : prog) (ce : cert) (z : list nat) : list nat :=
  map (fun fb => znull ce z (rk ce (fst fb)) (snd fb)) (indexed 0 (fns p)).
Fixpoint iter {A} (n : nat) (f : A -> A) (x : A) : A := match n with O => x | S m => iter m f (f x) end.
Definition cost_consts (p : prog) (ce : cert) : cconsts :=
  let RM := S (fold_right Nat.max 0 (map rank ce)) in
  let z := iter RM (zf_step p ce) (map (fun _ => 0) (fns p)) in
  let D := fold_right Nat.max 0 (map (zc z) (fns p)) in
  {| c_zf := z; c_D := D; c_RM := RM; c_B := 2 + sigma D RM 0 |}.
(** the linear bound: work <= lin_K * (raw tokens + 1) *)
Definition lin_K (k : cconsts) (entry : nat) : nat := 2 * c_B k + nth entry (c_zf k) 0 + 1.
