(** GenLibGlueEq: the rendering of crates/syntax/src/lib.rs (gen/GenLibGlue.v, tools/translate/t_libglue.py) against the
    definitions the proofs use: `parse` IS [GenParserEq.gparse_with] (which lexprep wrote by hand as a mirror of lib.rs);
    rowan's raw kinds round-trip through kind_to_raw / kind_from_raw without panic; `Parse::syntax_node` is the located
    root at offset 0; `source_file` succeeds exactly on a SourceFile root. *)
From Coq Require Import List Arith PeanoNat NArith Bool String Lia.
From TG.Gen Require Import GenTokens GenLexer GenPrep GenParser GenLibGlue.
From TG.Model Require Import Chars Tree ScanMonad PrepMonad ParserPrims ParserMonad GInterp LibGlueApi.
From TG.Proofs Require Import GenParserEq.
Import ListNotations.

Theorem glib_parse_eq fuel p entry txt :
  glib_parse (fun g => ggexec fuel p (ECall entry None) [] g) txt = gparse_with fuel p entry txt.
Proof.
  unfold glib_parse, gparse_with. destruct (gpr_new (gp_new (g_new txt))) as [[g| |] t]; reflexivity.
Qed.

Theorem kind_raw_roundtrip k : glib_kind_from_raw (glib_kind_to_raw k) = Some k.
Proof.
  unfold glib_kind_from_raw, glib_kind_to_raw, sk_as_u16, sk_transmute, sk_last.
  pose proof (sk_nth k) as H.
  assert (L : (N.to_nat (sk_index k) < List.length all_syntax_kinds)%nat) by (apply nth_error_Some; congruence).
  apply Nat.ltb_lt in L. rewrite L. exact H.
Qed.

Theorem kind_from_raw_inverse raw k : glib_kind_from_raw raw = Some k -> glib_kind_to_raw k = raw.
Proof.
  unfold glib_kind_from_raw, glib_kind_to_raw, sk_as_u16, sk_transmute, sk_last, lm_panic.
  destruct (Nat.ltb raw (List.length all_syntax_kinds)) eqn:L; [|discriminate]. intros H.
  (* all_syntax_kinds lists every kind at its own index *)
  pose proof (sk_nth k) as Hk.
  assert (ND : NoDup all_syntax_kinds) by (vm_compute; repeat constructor; cbn; intuition discriminate).
  eapply NoDup_nth_error; [exact ND| |congruence]. apply nth_error_Some. congruence.
Qed.

Theorem syntax_node_root g es : glib_syntax_node (mk_parse g es) = (0%N, g).
Proof. reflexivity. Qed.

Theorem source_file_cast g es :
  glib_source_file (mk_parse g es) = if sk_eqb (kind_of g) S_SourceFile then Some (0%N, g) else None.
Proof. reflexivity. Qed.
