(** C06: the coherence invariant of the symbol map, preserved by every op that satisfies the (checked) side
    conditions [op_coh_ok], and the four clauses of the property derived from it for every position. *)
From Coq Require Import List Arith NArith Bool Lia Sorted.
From TG.Model Require Import Chars SymbolMap SymbolWf.
From TG.Proofs Require Import SymbolMapBasics SymbolOps.
Import ListNotations.
Open Scope N_scope.

(** ---- identifier tokens *)
Definition toks_nonempty (toks : list tok) : Prop := forall r n, In (r, n) toks -> fr_lo r < fr_hi r.
Definition toks_disjoint (toks : list tok) : Prop :=
  forall r1 n1 r2 n2, In (r1, n1) toks -> In (r2, n2) toks -> fr_file r1 = fr_file r2 ->
    r1 = r2 \/ fr_hi r1 <= fr_lo r2 \/ fr_hi r2 <= fr_lo r1.

Lemma tok_name_In : forall toks r n, tok_name toks r = Some n -> In (r, n) toks.
Proof.
  induction toks as [|[r' n'] t IH]; intros r n H; cbn in H; [discriminate|].
  destruct (fr_eqb r' r) eqn:E.
  - apply fr_eqb_eq in E. inversion H. subst. left. reflexivity.
  - right. apply IH. exact H.
Qed.

Lemma tok_before_trans : forall a b c,
  tok_before a b = true -> fr_lo b < fr_hi b -> tok_before b c = true -> tok_before a c = true.
Proof.
  unfold tok_before. intros a b c H1 Hb H2.
  apply orb_true_iff in H1. apply orb_true_iff in H2. apply orb_true_iff.
  rewrite !andb_true_iff, !N.ltb_lt, !N.eqb_eq, !N.leb_le in *. lia.
Qed.

Lemma toks_sorted_head : forall toks r n,
  toks_sorted ((r, n) :: toks) = true -> forall r' n', In (r', n') toks -> tok_before r r' = true.
Proof.
  induction toks as [|[r1 n1] t IH]; intros r n H r' n' Hin; [destruct Hin|].
  cbn [toks_sorted] in H. apply andb_true_iff in H. destruct H as [H H3].
  apply andb_true_iff in H. destruct H as [H1 H2].
  destruct Hin as [Hin|Hin].
  - inversion Hin. subst. exact H2.
  - pose proof H3 as H3'. cbn [toks_sorted] in H3. apply andb_true_iff in H3. destruct H3 as [H3 _].
    apply andb_true_iff in H3. destruct H3 as [H3 _]. apply N.ltb_lt in H3.
    eapply tok_before_trans; [exact H2|exact H3|]. exact (IH r1 n1 H3' r' n' Hin).
Qed.

Lemma toks_sorted_tail : forall x toks, toks_sorted (x :: toks) = true -> toks_sorted toks = true.
Proof.
  intros [r n] toks H. cbn [toks_sorted] in H. apply andb_true_iff in H. destruct H as [_ H]. exact H.
Qed.

Theorem toks_sorted_sound : forall toks, toks_sorted toks = true -> toks_nonempty toks /\ toks_disjoint toks.
Proof.
  induction toks as [|[r n] t IH]; intros H.
  - split; intros ? ?; intros; contradiction.
  - pose proof (toks_sorted_tail _ _ H) as Ht. destruct (IH Ht) as [IH1 IH2].
    pose proof (toks_sorted_head _ _ _ H) as Hh.
    assert (Hne : fr_lo r < fr_hi r).
    { cbn [toks_sorted] in H. apply andb_true_iff in H. destruct H as [H _].
      apply andb_true_iff in H. destruct H as [H _]. apply N.ltb_lt. exact H. }
    split.
    + intros r' n' [Hin|Hin]; [inversion Hin; subst; exact Hne|eapply IH1; exact Hin].
    + intros r1 n1 r2 n2 [H1|H1] [H2|H2] Hf.
      * inversion H1. inversion H2. subst. left. reflexivity.
      * inversion H1. subst. specialize (Hh _ _ H2). unfold tok_before in Hh.
        apply orb_true_iff in Hh. rewrite andb_true_iff, N.ltb_lt, N.eqb_eq, N.leb_le in Hh. right. left. lia.
      * inversion H2. subst. specialize (Hh _ _ H1). unfold tok_before in Hh.
        apply orb_true_iff in Hh. rewrite andb_true_iff, N.ltb_lt, N.eqb_eq, N.leb_le in Hh. right. right. lia.
      * eapply IH2; eassumption.
Qed.

Lemma fr_eta : forall r, mkFR (fr_file r) (fr_lo r) (fr_hi r) = r.
Proof. destruct r; reflexivity. Qed.

Lemma opt_name_eqb_eq : forall a b, opt_name_eqb a b = true <-> a = Some b.
Proof.
  intros [x|] b; cbn; split; intros H; try discriminate.
  - apply list_eqb_eq in H. subst. reflexivity.
  - inversion H. apply list_eqb_refl.
Qed.
Lemma opt_fr_eqb_eq : forall a b, opt_fr_eqb a b = true <-> a = Some b.
Proof.
  intros [x|] b; cbn; split; intros H; try discriminate.
  - apply fr_eqb_eq in H. subst. reflexivity.
  - inversion H. apply fr_eqb_refl.
Qed.

(** ---- the invariant *)
Record Coh (toks : list tok) (S : symbol_map) : Prop := {
  coh_sorted : forall f, ivl_sorted (posf S f);
  (* every key of the interval map is an identifier token carrying the symbol's name, and is the symbol's
     definition or one of its references; the definition is an identifier token with that name as well *)
  coh_key : forall f lo hi s, In (lo, hi, s) (posf S f) ->
      exists e, get_entry S s = Some e /\
        tok_name toks (mkFR f lo hi) = Some (e_name e) /\
        tok_name toks (e_def e) = Some (e_name e) /\
        (e_def e = mkFR f lo hi \/ In (mkFR f lo hi) (e_refs e));
  (* every reference is keyed, to a symbol with the same definition *)
  coh_refs : forall s e r, get_entry S s = Some e -> In r (e_refs e) ->
      exists s' e', In (fr_lo r, fr_hi r, s') (posf S (fr_file r)) /\ get_entry S s' = Some e' /\ e_def e' = e_def e;
  (* no symbol references itself at its own definition *)
  coh_noself : forall s e, get_entry S s = Some e -> ~ In (e_def e) (e_refs e) }.

Lemma coh_empty : forall toks, Coh toks sm_empty.
Proof.
  intros toks. split.
  - intros f. constructor.
  - intros f lo hi s H. destruct H.
  - intros [k i] e r H. unfold get_entry, nth_N in H. destruct k; cbn in H; destruct (N.to_nat i); discriminate.
  - intros [k i] e H. unfold get_entry, nth_N in H. destruct k; cbn in H; destruct (N.to_nat i); discriminate.
Qed.

Definition hdr_same (S S' : symbol_map) : Prop :=
  forall s, match get_entry S' s, get_entry S s with
            | Some e', Some e => e_name e' = e_name e /\ e_def e' = e_def e /\ e_refs e' = e_refs e
            | None, None => True
            | _, _ => False
            end.

Lemma coh_frame : forall toks S S',
  hdr_same S S' -> (forall f, posf S' f = posf S f) -> Coh toks S -> Coh toks S'.
Proof.
  intros toks S S' Hh Hp [C1 C2 C3 C4]. split.
  - intros f. rewrite Hp. apply C1.
  - intros f lo hi s Hin. rewrite Hp in Hin. destruct (C2 _ _ _ _ Hin) as (e & He & H1 & H2 & H3).
    specialize (Hh s). rewrite He in Hh. destruct (get_entry S' s) as [e'|]; [|contradiction].
    destruct Hh as (Hn & Hd & Hr). exists e'. rewrite Hn, Hd, Hr. auto.
  - intros s e' r He' Hin. pose proof (Hh s) as Hs. rewrite He' in Hs.
    destruct (get_entry S s) as [e|] eqn:He; [|contradiction]. destruct Hs as (Hn & Hd & Hr).
    rewrite Hr in Hin. destruct (C3 _ _ _ He Hin) as (s1 & e1 & Hi & He1 & Hd1).
    pose proof (Hh s1) as Hs1. rewrite He1 in Hs1. destruct (get_entry S' s1) as [e1'|] eqn:He1'; [|contradiction].
    destruct Hs1 as (_ & Hd1' & _). exists s1, e1'. rewrite Hp. repeat split; [exact Hi|exact He1'|congruence].
  - intros s e' He'. pose proof (Hh s) as Hs. rewrite He' in Hs.
    destruct (get_entry S s) as [e|] eqn:He; [|contradiction]. destruct Hs as (Hn & Hd & Hr).
    rewrite Hd, Hr. eapply C4. exact He.
Qed.

Lemma next_id_fresh : forall S k, get_entry S (k, next_id S k) = None.
Proof.
  intros S k. destruct (get_entry S (k, next_id S k)) eqn:E; [|reflexivity].
  assert (H : exists e, get_entry S (k, next_id S k) = Some e) by eauto.
  apply get_entry_valid in H. unfold valid_id in H. cbn [fst snd] in H. rewrite N.ltb_irrefl in H. discriminate.
Qed.

Lemma sid_eqb_false_of_fresh : forall S s k e, get_entry S s = Some e -> sid_eqb s (k, next_id S k) = false.
Proof.
  intros S s k e H. destruct (sid_eqb s (k, next_id S k)) eqn:E; [|reflexivity].
  apply sid_eqb_eq in E. subst. rewrite next_id_fresh in H. discriminate.
Qed.

(** allocation without a key (anonymous def / defm) *)
Lemma coh_alloc_unkeyed : forall toks S S' k e,
  (forall s, get_entry S' s = if sid_eqb s (k, next_id S k) then Some e else get_entry S s) ->
  (forall f, posf S' f = posf S f) -> e_refs e = [] -> Coh toks S -> Coh toks S'.
Proof.
  intros toks S S' k e Hg Hp Hr [C1 C2 C3 C4]. split.
  - intros f. rewrite Hp. apply C1.
  - intros f lo hi s Hin. rewrite Hp in Hin. destruct (C2 _ _ _ _ Hin) as (e0 & He0 & H).
    exists e0. rewrite Hg. rewrite (sid_eqb_false_of_fresh _ _ _ _ He0). auto.
  - intros s e1 r He1 Hin. rewrite Hg in He1. destruct (sid_eqb s (k, next_id S k)).
    + inversion He1. subst. rewrite Hr in Hin. destruct Hin.
    + destruct (C3 _ _ _ He1 Hin) as (s1 & e1' & Hi & He1' & Hd). exists s1, e1'. rewrite Hp, Hg.
      rewrite (sid_eqb_false_of_fresh _ _ _ _ He1'). auto.
  - intros s e1 He1. rewrite Hg in He1. destruct (sid_eqb s (k, next_id S k)).
    + inversion He1. subst. rewrite Hr. intros [].
    + eapply C4. exact He1.
Qed.

Lemma In_pos_after_key : forall S loc s f lo hi s',
  ivl_sorted (posf S (fr_file loc)) -> fr_is_empty loc = false ->
  (In (lo, hi, s') (pos_after S (Some (loc, s)) f) <->
   (mkFR f lo hi = loc /\ s' = s) \/ (mkFR f lo hi <> loc /\ In (lo, hi, s') (posf S f))).
Proof.
  intros S loc s f lo hi s' Hs He. unfold pos_after. rewrite He.
  destruct (fr_file loc =? f) eqn:Ef.
  - apply N.eqb_eq in Ef. subst f. rewrite In_ivl_insert_sorted by exact Hs.
    destruct loc as [lf ll lh]. cbn [fr_file fr_lo fr_hi]. split.
    + intros [[H1 H2]|[H1 H2]]; [left|right]; split; auto; try congruence;
        try (intros C; inversion C; subst; contradiction).
    + intros [[H1 H2]|[H1 H2]]; [left|right]; split; auto; try congruence;
        try (intros C; inversion C; subst; contradiction).
  - apply N.eqb_neq in Ef. split.
    + intros H. right. split; [|exact H]. intros C. subst loc. cbn in Ef. contradiction.
    + intros [[H1 H2]|[H1 H2]]; [subst loc; cbn in Ef; contradiction|exact H2].
Qed.

Lemma pos_after_sorted : forall S key f, (forall f, ivl_sorted (posf S f)) -> ivl_sorted (pos_after S key f).
Proof.
  intros S [[loc s]|] f H; unfold pos_after; [|apply H].
  destruct (fr_is_empty loc); [apply H|]. destruct (fr_file loc =? f); [|apply H].
  apply ivl_insert_sorted. apply H.
Qed.

Lemma pos_get_In : forall S r s, ivl_sorted (posf S (fr_file r)) ->
  (pos_get S r = Some s <-> In (fr_lo r, fr_hi r, s) (posf S (fr_file r))).
Proof.
  intros S r s Hs. rewrite pos_get_posf. split; [apply ivl_get_In|apply ivl_In_get; exact Hs].
Qed.

(** allocation keyed at the definition range *)
Lemma coh_alloc_keyed : forall toks S S' k e,
  toks_nonempty toks ->
  (forall s, get_entry S' s = if sid_eqb s (k, next_id S k) then Some e else get_entry S s) ->
  (forall f, posf S' f = pos_after S (Some (e_def e, (k, next_id S k))) f) ->
  e_refs e = [] -> def_ok toks S (e_name e) (e_def e) = true ->
  Coh toks S -> Coh toks S'.
Proof.
  intros toks S S' k e Hne Hg Hp Hr Hok [C1 C2 C3 C4].
  unfold def_ok in Hok. apply andb_true_iff in Hok. destruct Hok as [Hn Hk]. apply opt_name_eqb_eq in Hn.
  set (snew := (k, next_id S k)) in *. set (loc := e_def e) in *.
  assert (Hemp : fr_is_empty loc = false).
  { apply tok_name_In in Hn. apply Hne in Hn. unfold fr_is_empty. apply N.leb_gt. exact Hn. }
  split.
  - intros f. rewrite Hp. apply pos_after_sorted. exact C1.
  - intros f lo hi s Hin. rewrite Hp in Hin. apply In_pos_after_key in Hin; [|apply C1|exact Hemp].
    destruct Hin as [[H1 H2]|[H1 H2]].
    + subst s. exists e. rewrite Hg. unfold snew. rewrite (proj2 (sid_eqb_eq _ _) eq_refl). rewrite H1.
      fold loc. auto.
    + destruct (C2 _ _ _ _ H2) as (e0 & He0 & H). exists e0. rewrite Hg.
      unfold snew. rewrite (sid_eqb_false_of_fresh _ _ _ _ He0). auto.
  - intros s e1 r He1 Hin. rewrite Hg in He1. destruct (sid_eqb s snew) eqn:Es.
    + inversion He1. subst. rewrite Hr in Hin. destruct Hin.
    + destruct (C3 _ _ _ He1 Hin) as (s1 & e1' & Hi & He1' & Hd).
      destruct (fr_eq_dec r loc) as [Hrl|Hrl].
      * (* the new definition would overwrite a reference: excluded by key_ok_for_def + coh_noself *)
        exfalso. subst r. unfold key_ok_for_def in Hk.
        apply (proj2 (pos_get_In S loc s1 (C1 _))) in Hi. rewrite Hi in Hk.
        unfold sym_def in Hk. rewrite He1' in Hk. cbn [option_map] in Hk. apply opt_fr_eqb_eq in Hk.
        inversion Hk as [Hk']. apply (C4 _ _ He1). rewrite <- Hd, Hk'. exact Hin.
      * exists s1, e1'. rewrite Hp, Hg. unfold snew. rewrite (sid_eqb_false_of_fresh _ _ _ _ He1').
        split; [|auto]. apply In_pos_after_key; [apply C1|exact Hemp|]. right. rewrite fr_eta. auto.
  - intros s e1 He1. rewrite Hg in He1. destruct (sid_eqb s snew).
    + inversion He1. subst. rewrite Hr. intros [].
    + eapply C4. exact He1.
Qed.

(** a reference *)
Lemma coh_reference : forall toks S S' s0 loc,
  toks_nonempty toks ->
  (forall s', get_entry S' s' = if sid_eqb s0 s' then option_map (push_ref loc) (get_entry S s') else get_entry S s') ->
  (forall f, posf S' f = pos_after S (Some (loc, s0)) f) ->
  op_coh_ok toks S (OpAddReference s0 loc) = true ->
  Coh toks S -> Coh toks S'.
Proof.
  intros toks S S' s0 loc Hne Hg Hp Hok [C1 C2 C3 C4].
  cbn [op_coh_ok] in Hok. destruct (get_entry S s0) as [e0|] eqn:He0; [|discriminate].
  apply andb_true_iff in Hok. destruct Hok as [Hok Hk].
  apply andb_true_iff in Hok. destruct Hok as [Hok Hnd].
  apply andb_true_iff in Hok. destruct Hok as [Hn Hdn].
  apply opt_name_eqb_eq in Hn. apply opt_name_eqb_eq in Hdn.
  apply negb_true_iff in Hnd. apply fr_eqb_neq in Hnd.
  assert (Hemp : fr_is_empty loc = false).
  { apply tok_name_In in Hn. apply Hne in Hn. unfold fr_is_empty. apply N.leb_gt. exact Hn. }
  (* every old entry survives with the same name and definition and a superset of references *)
  assert (Hold : forall s e, get_entry S s = Some e ->
            exists e', get_entry S' s = Some e' /\ e_name e' = e_name e /\ e_def e' = e_def e /\
                       (forall r, In r (e_refs e) -> In r (e_refs e'))).
  { intros s e He. rewrite Hg. destruct (sid_eqb s0 s); rewrite He.
    - exists (push_ref loc e). cbn. split; [reflexivity|]. split; [reflexivity|]. split; [reflexivity|].
      intros r Hr. apply in_or_app. left. exact Hr.
    - exists e. auto. }
  assert (Hnew : forall s e', get_entry S' s = Some e' ->
            exists e, get_entry S s = Some e /\ e_name e' = e_name e /\ e_def e' = e_def e /\
                      (forall r, In r (e_refs e') -> In r (e_refs e) \/ (s = s0 /\ r = loc))).
  { intros s e' He'. rewrite Hg in He'. destruct (sid_eqb s0 s) eqn:Es.
    - apply sid_eqb_eq in Es. subst s. rewrite He0 in He'. inversion He'. subst e'. exists e0. cbn.
      split; [exact He0|]. split; [reflexivity|]. split; [reflexivity|].
      intros r Hr. apply in_app_or in Hr. destruct Hr as [Hr|[Hr|[]]]; auto.
    - exists e'. split; [exact He'|]. split; [reflexivity|]. split; [reflexivity|]. intros r Hr. left. exact Hr. }
  split.
  - intros f. rewrite Hp. apply pos_after_sorted. exact C1.
  - intros f lo hi s Hin. rewrite Hp in Hin. apply In_pos_after_key in Hin; [|apply C1|exact Hemp].
    destruct Hin as [[H1 H2]|[H1 H2]].
    + subst s. exists (push_ref loc e0). rewrite Hg. rewrite (proj2 (sid_eqb_eq _ _) eq_refl). rewrite He0.
      cbn. rewrite H1. repeat split; auto. right. apply in_or_app. right. left. reflexivity.
    + destruct (C2 _ _ _ _ H2) as (e1 & He1 & Ha & Hb & Hc).
      destruct (Hold _ _ He1) as (e1' & He1' & Hn1 & Hd1 & Hr1). exists e1'. rewrite Hn1, Hd1.
      repeat split; auto. destruct Hc as [Hc|Hc]; [left; exact Hc|right; apply Hr1; exact Hc].
  - intros s e1' r He1' Hin.
    destruct (Hnew _ _ He1') as (e1 & He1 & Hn1 & Hd1 & Hr1).
    destruct (fr_eq_dec r loc) as [Hrl|Hrl].
    + (* the position now maps to s0: its definition must be the one of every symbol referencing it *)
      subst r. destruct (Hold _ _ He0) as (e0' & He0' & _ & Hd0 & _).
      exists s0, e0'. split; [|split; [exact He0'|]].
      * rewrite Hp. apply In_pos_after_key; [apply C1|exact Hemp|]. left. rewrite fr_eta. auto.
      * rewrite Hd0, Hd1. destruct (Hr1 _ Hin) as [Hin1|[Hs _]]; [|subst s; congruence].
        destruct (C3 _ _ _ He1 Hin1) as (s2 & e2 & Hi2 & He2 & Hd2).
        unfold key_ok_for_ref in Hk. apply (proj2 (pos_get_In S loc s2 (C1 _))) in Hi2. rewrite Hi2 in Hk.
        unfold sym_def in Hk. rewrite He2, He0 in Hk. cbn [option_map] in Hk.
        apply orb_true_iff in Hk. destruct Hk as [Hk|Hk]; apply fr_eqb_eq in Hk.
        -- congruence.
        -- exfalso. apply (C4 _ _ He1). rewrite <- Hd2, Hk. exact Hin1.
    + destruct (Hr1 _ Hin) as [Hin1|[_ Hc]]; [|contradiction].
      destruct (C3 _ _ _ He1 Hin1) as (s2 & e2 & Hi2 & He2 & Hd2).
      destruct (Hold _ _ He2) as (e2' & He2' & _ & Hd2' & _).
      exists s2, e2'. split; [|split; [exact He2'|congruence]].
      rewrite Hp. apply In_pos_after_key; [apply C1|exact Hemp|]. right. rewrite fr_eta. auto.
  - intros s e1' He1' Hin.
    destruct (Hnew _ _ He1') as (e1 & He1 & Hn1 & Hd1 & Hr1).
    destruct (Hr1 _ Hin) as [Hin1|[Hs Hc]].
    + apply (C4 _ _ He1). rewrite <- Hd1. exact Hin1.
    + subst s. rewrite He0 in He1. inversion He1. subst e1. congruence.
Qed.

(** in-place payload updates keep the headers *)
Lemma hdr_same_update_payload : forall S S' t g,
  (forall s', get_entry S' s' = if sid_eqb t s' then option_map (upd_payload g) (get_entry S s') else get_entry S s') ->
  hdr_same S S'.
Proof.
  intros S S' t g Hg s. rewrite Hg. destruct (sid_eqb t s); destruct (get_entry S s); cbn; auto.
Qed.

Lemma hdr_same_same_arenas : forall S S', same_arenas S S' -> hdr_same S S'.
Proof.
  intros S S' H s. rewrite (same_arenas_get_entry _ _ s H). destruct (get_entry S s); auto.
Qed.

(** ---- one step *)
Theorem coh_step : forall toks S o S',
  toks_nonempty toks -> Coh toks S -> op_coh_ok toks S o = true -> apply_op S o = SOk S' -> Coh toks S'.
Proof.
  intros toks S o S' Hne HC Hok Hap.
  destruct (apply_op_spec _ _ _ Hap) as (Har & Hp & _). unfold arenas_after in Har.
  destruct o; cbn [op_alloc op_update op_key e_def] in Har, Hp; cbn [op_coh_ok] in Hok.
  - destruct Har as [Hg _]. eapply coh_alloc_keyed; [exact Hne|exact Hg|exact Hp|reflexivity|exact Hok|exact HC].
  - destruct Har as [Hg _]. eapply coh_alloc_unkeyed; [exact Hg|exact Hp|reflexivity|exact HC].
  - destruct Har as [Hg _]. eapply coh_alloc_keyed; [exact Hne|exact Hg|exact Hp|reflexivity|exact Hok|exact HC].
  - destruct Har as [Hg _]. eapply coh_alloc_keyed; [exact Hne|exact Hg|exact Hp|reflexivity|exact Hok|exact HC].
  - destruct Har as [Hg _]. eapply coh_alloc_keyed; [exact Hne|exact Hg|exact Hp|reflexivity|exact Hok|exact HC].
  - destruct Har as [Hg _]. eapply coh_alloc_keyed; [exact Hne|exact Hg|exact Hp|reflexivity|exact Hok|exact HC].
  - destruct Har as [Hg _]. eapply coh_alloc_keyed; [exact Hne|exact Hg|exact Hp|reflexivity|exact Hok|exact HC].
  - destruct Har as [Hg _]. eapply coh_alloc_keyed; [exact Hne|exact Hg|exact Hp|reflexivity|exact Hok|exact HC].
  - destruct Har as [Hg _]. eapply coh_alloc_unkeyed; [exact Hg|exact Hp|reflexivity|exact HC].
  - destruct Har as (_ & Hg & _). eapply coh_reference; [exact Hne|exact Hg|exact Hp|exact Hok|exact HC].
  - eapply coh_frame; [apply hdr_same_same_arenas; exact Har|exact Hp|exact HC].
  - eapply coh_frame; [apply hdr_same_same_arenas; exact Har|exact Hp|exact HC].
  - eapply coh_frame; [apply hdr_same_same_arenas; exact Har|exact Hp|exact HC].
  - eapply coh_frame; [apply hdr_same_same_arenas; exact Har|exact Hp|exact HC].
  - destruct (cur_target S KRecord) as [t|]; cbn [option_map] in Har.
    + destruct Har as (_ & Hg & _). eapply coh_frame; [eapply hdr_same_update_payload; exact Hg|exact Hp|exact HC].
    + eapply coh_frame; [apply hdr_same_same_arenas; exact Har|exact Hp|exact HC].
  - destruct (cur_target S KRecord) as [t|]; cbn [option_map] in Har.
    + destruct Har as (_ & Hg & _). eapply coh_frame; [eapply hdr_same_update_payload; exact Hg|exact Hp|exact HC].
    + eapply coh_frame; [apply hdr_same_same_arenas; exact Har|exact Hp|exact HC].
  - destruct (cur_target S KRecord) as [t|]; cbn [option_map] in Har.
    + destruct Har as (_ & Hg & _). eapply coh_frame; [eapply hdr_same_update_payload; exact Hg|exact Hp|exact HC].
    + eapply coh_frame; [apply hdr_same_same_arenas; exact Har|exact Hp|exact HC].
  - destruct (cur_target S KDefset) as [t|]; cbn [option_map] in Har.
    + destruct Har as (_ & Hg & _). eapply coh_frame; [eapply hdr_same_update_payload; exact Hg|exact Hp|exact HC].
    + eapply coh_frame; [apply hdr_same_same_arenas; exact Har|exact Hp|exact HC].
  - destruct (cur_target S KMulticlass) as [t|]; cbn [option_map] in Har.
    + destruct Har as (_ & Hg & _). eapply coh_frame; [eapply hdr_same_update_payload; exact Hg|exact Hp|exact HC].
    + eapply coh_frame; [apply hdr_same_same_arenas; exact Har|exact Hp|exact HC].
  - destruct (cur_target S KMulticlass) as [t|]; cbn [option_map] in Har.
    + destruct Har as (_ & Hg & _). eapply coh_frame; [eapply hdr_same_update_payload; exact Hg|exact Hp|exact HC].
    + eapply coh_frame; [apply hdr_same_same_arenas; exact Har|exact Hp|exact HC].
  - destruct (cur_target S KDefm) as [t|]; cbn [option_map] in Har.
    + destruct Har as (_ & Hg & _). eapply coh_frame; [eapply hdr_same_update_payload; exact Hg|exact Hp|exact HC].
    + eapply coh_frame; [apply hdr_same_same_arenas; exact Har|exact Hp|exact HC].
  - eapply coh_frame; [apply hdr_same_same_arenas; exact Har|exact Hp|exact HC].
Qed.

Theorem coh_run : forall toks ops,
  toks_nonempty toks -> ops_ok_from (op_coh_ok toks) sm_empty ops = true ->
  exists S, run_ops ops = SOk S /\ Coh toks S.
Proof.
  intros toks ops Hne H. unfold run_ops.
  apply (ops_ok_from_inv (op_coh_ok toks) (Coh toks)); [|apply coh_empty|exact H].
  intros S o S' HC Hok Hap. eapply coh_step; eassumption.
Qed.

(** ---- position lookups under the invariant *)
Lemma find_symbol_id_at_In : forall S f p s,
  find_symbol_id_at S f p = Some s -> exists lo hi, In (lo, hi, s) (posf S f) /\ lo <= p /\ p < hi.
Proof.
  intros S f p s H. unfold find_symbol_id_at in H. unfold posf.
  destruct (fmap_get (sm_pos S) f) as [m|]; [|discriminate].
  destruct (ivl_overlap_point m p) as [|[[lo hi] v] r] eqn:E; [discriminate|]. inversion H. subst v.
  assert (Hin : In (lo, hi, s) (ivl_overlap_point m p)) by (rewrite E; left; reflexivity).
  unfold ivl_overlap_point in Hin. apply filter_In in Hin. destruct Hin as [Hin Hc].
  cbn in Hc. apply andb_true_iff in Hc. rewrite N.leb_le, N.ltb_lt in Hc. exists lo, hi. tauto.
Qed.

Lemma find_symbol_id_at_none : forall S f p,
  find_symbol_id_at S f p = None -> forall lo hi s, In (lo, hi, s) (posf S f) -> ~ (lo <= p /\ p < hi).
Proof.
  intros S f p H lo hi s Hin [H1 H2]. unfold find_symbol_id_at in H. unfold posf in Hin.
  destruct (fmap_get (sm_pos S) f) as [m|]; [|destruct Hin].
  assert (Hf : In (lo, hi, s) (ivl_overlap_point m p)).
  { unfold ivl_overlap_point. apply filter_In. split; [exact Hin|]. cbn. apply andb_true_iff.
    rewrite N.leb_le, N.ltb_lt. auto. }
  destruct (ivl_overlap_point m p) as [|[[a b] c] r]; [destruct Hf|discriminate].
Qed.

Lemma find_symbol_id_at_unique : forall toks S f lo hi s q,
  toks_disjoint toks -> Coh toks S -> In (lo, hi, s) (posf S f) -> lo <= q -> q < hi ->
  find_symbol_id_at S f q = Some s.
Proof.
  intros toks S f lo hi s q Hd HC Hin H1 H2.
  destruct (find_symbol_id_at S f q) as [s'|] eqn:E.
  - apply find_symbol_id_at_In in E. destruct E as (lo' & hi' & Hin' & H1' & H2').
    destruct (coh_key _ _ HC _ _ _ _ Hin) as (e & _ & Ht & _).
    destruct (coh_key _ _ HC _ _ _ _ Hin') as (e' & _ & Ht' & _).
    apply tok_name_In in Ht. apply tok_name_In in Ht'.
    destruct (Hd _ _ _ _ Ht Ht' eq_refl) as [Heq|[Hlt|Hlt]]; cbn [fr_lo fr_hi] in *; try lia.
    inversion Heq. subst lo' hi'. f_equal. eapply ivl_sorted_unique; [apply (coh_sorted _ _ HC f)|eassumption|eassumption].
  - exfalso. eapply find_symbol_id_at_none; eauto.
Qed.

Definition covers_p (r : file_range) (f : fileid) (p : N) : Prop := fr_file r = f /\ fr_lo r <= p /\ p < fr_hi r.

(** ---- C06 *)
Theorem coherent_queries : forall toks S,
  toks_disjoint toks -> Coh toks S ->
  forall f p t, goto_definition S f p = SOk (Some t) ->
  exists c n rs,
    (* c is the identifier token under the cursor, n its text *)
    tok_name toks c = Some n /\ covers_p c f p /\
    (forall c' n', In (c', n') toks -> covers_p c' f p -> c' = c) /\
    (* the target is an identifier token with the same text *)
    tok_name toks t = Some n /\
    references S f p = SOk (Some rs) /\
    (* every reference is an identifier token with the same text, and go-to-definition from anywhere inside it
       gives the same target *)
    (forall r, In r rs -> tok_name toks r = Some n /\
       forall q, fr_lo r <= q -> q < fr_hi r -> goto_definition S (fr_file r) q = SOk (Some t)) /\
    (* the identifier under the cursor is the target or one of the references *)
    (t = c \/ In c rs).
Proof.
  intros toks S Hd HC f p t Hg.
  unfold goto_definition, find_symbol_at in Hg.
  destruct (find_symbol_id_at S f p) as [s|] eqn:Ef; [|cbn in Hg; discriminate].
  unfold symbol in Hg. destruct (get_entry S s) as [e|] eqn:He; [|cbn in Hg; discriminate].
  cbn in Hg. inversion Hg. subst t. clear Hg.
  destruct (find_symbol_id_at_In _ _ _ _ Ef) as (lo & hi & Hin & H1 & H2).
  destruct (coh_key _ _ HC _ _ _ _ Hin) as (e0 & He0 & Hc & Hdn & Hor).
  rewrite He in He0. inversion He0. subst e0. clear He0.
  exists (mkFR f lo hi), (e_name e), (e_refs e). repeat split.
  - exact Hc.
  - cbn. exact H1.
  - cbn. exact H2.
  - intros c' n' Hin' (Hf' & Hl' & Hh').
    pose proof (tok_name_In _ _ _ Hc) as Hc'.
    destruct (Hd _ _ _ _ Hin' Hc' Hf') as [Heq|[Hlt|Hlt]]; cbn [fr_lo fr_hi] in *; [exact Heq|lia|lia].
  - exact Hdn.
  - unfold references, find_symbol_at. rewrite Ef. unfold symbol. rewrite He. reflexivity.
  - destruct (coh_refs _ _ HC _ _ _ He H) as (s' & e' & Hi' & He' & Hd').
    destruct (coh_key _ _ HC _ _ _ _ Hi') as (e1 & He1 & Hc1 & Hdn1 & _).
    rewrite He' in He1. inversion He1. subst e1. rewrite fr_eta in Hc1. rewrite Hd' in Hdn1. congruence.
  - intros q Hq1 Hq2.
    destruct (coh_refs _ _ HC _ _ _ He H) as (s' & e' & Hi' & He' & Hd').
    unfold goto_definition, find_symbol_at.
    rewrite (find_symbol_id_at_unique _ _ _ _ _ _ _ Hd HC Hi' Hq1 Hq2).
    unfold symbol. rewrite He'. cbn. rewrite Hd'. reflexivity.
  - destruct Hor as [Hor|Hor]; [left; exact Hor|right; exact Hor].
Qed.

(** go-to-definition and find-references never fail on a coherent state, and answer together *)
Theorem coherent_queries_total : forall toks S, Coh toks S ->
  forall f p, (goto_definition S f p = SOk None /\ references S f p = SOk None) \/
              (exists t rs, goto_definition S f p = SOk (Some t) /\ references S f p = SOk (Some rs)).
Proof.
  intros toks S HC f p. unfold goto_definition, references, find_symbol_at.
  destruct (find_symbol_id_at S f p) as [s|] eqn:Ef; [|left; auto].
  destruct (find_symbol_id_at_In _ _ _ _ Ef) as (lo & hi & Hin & _).
  destruct (coh_key _ _ HC _ _ _ _ Hin) as (e & He & _). unfold symbol. rewrite He. cbn. right. eauto.
Qed.

(** ---- the statement of props/C06.v *)
Lemma ops_wf_coh : forall toks ops, ops_wf toks ops = true -> ops_ok_from (op_coh_ok toks) sm_empty ops = true.
Proof. intros toks ops H. unfold ops_wf, op_wf in H. apply ops_ok_from_and in H. tauto. Qed.
Lemma ops_wf_ids : forall toks ops, ops_wf toks ops = true -> ops_ids_wf ops = true.
Proof. intros toks ops H. unfold ops_wf, op_wf in H. apply ops_ok_from_and in H. unfold ops_ids_wf. tauto. Qed.

Theorem c06_coherent : forall toks ops,
  toks_sorted toks = true -> ops_wf toks ops = true ->
  exists S, run_ops ops = SOk S /\
  forall f p t, goto_definition S f p = SOk (Some t) ->
  exists c n rs,
    tok_name toks c = Some n /\ (fr_file c = f /\ fr_lo c <= p /\ p < fr_hi c) /\
    (forall c' n', In (c', n') toks -> (fr_file c' = f /\ fr_lo c' <= p /\ p < fr_hi c') -> c' = c) /\
    tok_name toks t = Some n /\
    references S f p = SOk (Some rs) /\
    (forall r, In r rs -> tok_name toks r = Some n /\
       forall q, fr_lo r <= q -> q < fr_hi r -> goto_definition S (fr_file r) q = SOk (Some t)) /\
    (t = c \/ In c rs).
Proof.
  intros toks ops Ht Hw. destruct (toks_sorted_sound _ Ht) as [Hne Hd].
  destruct (coh_run toks ops Hne (ops_wf_coh _ _ Hw)) as (S & Hr & HC).
  exists S. split; [exact Hr|]. intros f p t Hg. exact (coherent_queries toks S Hd HC f p t Hg).
Qed.

Theorem c06_total : forall toks ops,
  toks_sorted toks = true -> ops_wf toks ops = true ->
  exists S, run_ops ops = SOk S /\
  forall f p, (goto_definition S f p = SOk None /\ references S f p = SOk None) \/
              (exists t rs, goto_definition S f p = SOk (Some t) /\ references S f p = SOk (Some rs)).
Proof.
  intros toks ops Ht Hw. destruct (toks_sorted_sound _ Ht) as [Hne Hd].
  destruct (coh_run toks ops Hne (ops_wf_coh _ _ Hw)) as (S & Hr & HC).
  exists S. split; [exact Hr|]. exact (coherent_queries_total toks S HC).
Qed.

(** ---- non-vacuity: the log of
      class A { int x; }  class B : A { let x = 1; int y = x; }
    (tokens A@6 x@14 B@25 A@29 x@37 y@48 x@52) satisfies the side conditions, including the `let` pair
    (the new field defined at 37..38, then the inherited field referenced at the same range) *)
Definition ex_toks : list tok :=
  [ (mkFR 0 6 7, [65]); (mkFR 0 14 15, [120]); (mkFR 0 25 26, [66]); (mkFR 0 29 30, [65]);
    (mkFR 0 37 38, [120]); (mkFR 0 48 49, [121]); (mkFR 0 52 53, [120]) ].
Definition ex_ops : list op :=
  [ OpAddRecord [65] RKClass (mkFR 0 6 7) true 0;
    OpAddRecordField [120] [] (mkFR 0 14 15) 0 0; OpRecordMut 0; OpRecAddField [120] 0;
    OpAddRecord [66] RKClass (mkFR 0 25 26) true 1;
    OpAddReference (KRecord, 0) (mkFR 0 29 30); OpRecordMut 0; OpRecordMut 1; OpRecAddParent 0;
    OpAddRecordField [120] [] (mkFR 0 37 38) 1 1; OpRecordMut 1; OpRecAddField [120] 1;
    OpAddReference (KRecordField, 0) (mkFR 0 37 38);
    OpAddRecordField [121] [] (mkFR 0 48 49) 1 2; OpRecordMut 1; OpRecAddField [121] 2;
    OpAddReference (KRecordField, 1) (mkFR 0 52 53) ].

Example ex_wf : toks_sorted ex_toks = true /\ ops_wf ex_toks ex_ops = true.
Proof. vm_compute. split; reflexivity. Qed.

Example ex_answers : exists S, run_ops ex_ops = SOk S /\
  goto_definition S 0 37 = SOk (Some (mkFR 0 14 15)) /\          (* `let x`: the inherited field of A *)
  references S 0 37 = SOk (Some [mkFR 0 37 38]) /\
  goto_definition S 0 52 = SOk (Some (mkFR 0 37 38)) /\          (* `= x` in B: the override *)
  goto_definition S 0 29 = SOk (Some (mkFR 0 6 7)).
Proof. eexists. split; [vm_compute; reflexivity|]. vm_compute. repeat split; reflexivity. Qed.

(** ---- the side conditions are needed: a file indexed twice (defect D2, diamond include) with the class it
    refers to redefined between the two visits.  s.td = `class Y : X;` (X@10), first visit resolves X to the
    record defined in main.td (file 0), second visit to the one redefined in a.td (file 1): the reference is
    re-keyed to the second record while the first still lists it. *)
Definition d2_toks : list tok :=
  [ (mkFR 0 6 7, [88]); (mkFR 1 6 7, [88]); (mkFR 2 6 7, [89]); (mkFR 2 10 11, [88]) ].
Definition d2_ops : list op :=
  [ OpAddRecord [88] RKClass (mkFR 0 6 7) true 0;
    OpAddRecord [89] RKClass (mkFR 2 6 7) true 1; OpAddReference (KRecord, 0) (mkFR 2 10 11);
    OpRecordMut 0; OpRecordMut 1; OpRecAddParent 0;
    OpAddRecord [88] RKClass (mkFR 1 6 7) true 2;
    OpAddRecord [89] RKClass (mkFR 2 6 7) true 3; OpAddReference (KRecord, 2) (mkFR 2 10 11);
    OpRecordMut 2; OpRecordMut 3; OpRecAddParent 2 ].

Theorem c06_double_visit_incoherent :
  ops_wf d2_toks d2_ops = false /\
  exists S, run_ops d2_ops = SOk S /\
    goto_definition S 0 6 = SOk (Some (mkFR 0 6 7)) /\
    references S 0 6 = SOk (Some [mkFR 2 10 11]) /\
    goto_definition S 2 10 = SOk (Some (mkFR 1 6 7)).       (* not the target the cursor at 0:6 has *)
Proof. split; [vm_compute; reflexivity|]. eexists. split; [vm_compute; reflexivity|]. vm_compute. repeat split; reflexivity. Qed.
