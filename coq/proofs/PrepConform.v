(** PrepConform: the preprocessor model (Prep.v: a flat scan of the raw token list with a depth
    counter) conforms to the structural reference evaluation of PrepSpec.v on every well-nested
    arrangement, of any depth and length (C15).

    Plan: (1) a nested induction principle for [item]; (2) a fuel-free big-step relation [pruns]
    of the run (with, for every delivered token, the raw tokens it covers) and the proof that the
    fuel [prep_run] uses always suffices; (3) the skip lemma: [eat_until_else_or_endif] at depth
    d >= 1 runs over a well-formed arrangement and comes back at depth d; (4) the enabled lemma: in
    enabled mode the run over [render_items items] delivers exactly [xent ms items], a structural
    description of the delivered entries; (5) properties of [xent] against [select]/[disabled];
    (6) arrangements cut off by the end of the file; (7) directives without a macro name. *)
From Coq Require Import List Arith NArith Bool Lia.
From TG.Gen Require Import GenTokens GenLexTables.
From TG.Model Require Import Chars Lexer Prep PrepRun PrepSpec.
From TG.Proofs Require Import LexBasics PrepBasics.
Import ListNotations.
Open Scope N_scope.

(** * 1. Nested induction principle for [item] *)

Definition opt_items (Q : list item -> Prop) (el : option (rtok * list item)) : Prop :=
  match el with Some (_, els) => Q els | None => True end.

Section ItemInd.
  Variable P : item -> Prop.
  Variable Q : list item -> Prop.
  Hypothesis HTok : forall t, P (ITok t).
  Hypothesis HDef : forall h, P (IDefine h).
  Hypothesis HCond : forall k h th el en, Q th -> opt_items Q el -> P (ICond k h th el en).
  Hypothesis HNil : Q [].
  Hypothesis HCons : forall i l, P i -> Q l -> Q (i :: l).

  Fixpoint item_ind2 (i : item) : P i :=
    match i with
    | ITok t => HTok t
    | IDefine h => HDef h
    | ICond k h th el en =>
        let go := fix go (l : list item) : Q l :=
          match l with
          | [] => HNil
          | x :: r => HCons x r (item_ind2 x) (go r)
          end in
        HCond k h th el en (go th)
          (match el as e return opt_items Q e with
           | Some (et, els) => go els
           | None => I
           end)
    end.

  Fixpoint items_ind2 (l : list item) : Q l :=
    match l with
    | [] => HNil
    | x :: r => HCons x r (item_ind2 x) (items_ind2 r)
    end.
End ItemInd.

(** * Unfoldings of the specification's nested fixpoints *)

Definition el_ok (el : option (rtok * list item)) : bool :=
  match el with Some (et, els) => tk_eqb (rk et) T_Else && items_ok els | None => true end.

Lemma item_ok_cond k h th el en :
  item_ok (ICond k h th el en) = head_ok (if_dir k) h && items_ok th && el_ok el && tk_eqb (rk en) T_Endif.
Proof. reflexivity. Qed.

Lemma items_ok_cons i l : items_ok (i :: l) = item_ok i && items_ok l.
Proof. reflexivity. Qed.

Lemma select_item_cond ms k h th el en :
  select_item ms (ICond k h th el en) =
  if taken k ms (rtext (h_name h)) then select ms th
  else match el with Some (_, els) => select ms els | None => (ms, []) end.
Proof. reflexivity. Qed.

Lemma select_cons ms i r :
  select ms (i :: r) =
  (fst (select (fst (select_item ms i)) r), snd (select_item ms i) ++ snd (select (fst (select_item ms i)) r)).
Proof.
  cbn [select]. destruct (select_item ms i) as [ms1 a]. cbn [fst snd].
  destruct (select ms1 r) as [ms2 b]. reflexivity.
Qed.

Lemma disabled_item_cond ms k h th el en :
  disabled_item ms (ICond k h th el en) =
  if taken k ms (rtext (h_name h)) then
    disabled ms th ++ match el with Some (_, els) => render_items els | None => [] end
  else render_items th ++ match el with Some (_, els) => disabled ms els | None => [] end.
Proof. reflexivity. Qed.

Lemma disabled_cons ms i r :
  disabled ms (i :: r) = disabled_item ms i ++ disabled (fst (select_item ms i)) r.
Proof. reflexivity. Qed.

Lemma render_items_cons i l : render_items (i :: l) = render_item i ++ render_items l.
Proof. reflexivity. Qed.

Lemma render_item_cond k h th el en :
  render_item (ICond k h th el en) =
  render_head h ++ render_items th
  ++ match el with Some (et, els) => et :: render_items els | None => [] end ++ [en].
Proof. reflexivity. Qed.

Lemma render_head_app h R : render_head h ++ R = h_dir h :: h_gap h ++ h_name h :: R.
Proof. unfold render_head. cbn [app]. rewrite <- app_assoc. reflexivity. Qed.

(** * Raw-token facts from the well-formedness predicates *)

Lemma plain_tok_spec t : plain_tok t = true ->
  tk_eqb (rk t) T_Ifdef = false /\ tk_eqb (rk t) T_Ifndef = false /\ tk_eqb (rk t) T_Else = false
  /\ tk_eqb (rk t) T_Endif = false /\ tk_eqb (rk t) T_Define = false /\ tk_eqb (rk t) T_Eof = false
  /\ tk_eqb (rk t) T_PreProcessor = false
  /\ Bool.eqb (tk_eqb (rk t) T_Error) (match rerr t with Some _ => true | None => false end) = true.
Proof.
  unfold plain_tok, is_directive_kind. intros H.
  repeat (apply andb_true_iff in H; destruct H as [H ?]).
  apply negb_true_iff in H.
  repeat (apply orb_false_iff in H; destruct H as [H ?]).
  repeat match goal with X : negb _ = true |- _ => apply negb_true_iff in X end.
  repeat split; assumption.
Qed.

Lemma gap_tok_spec t : gap_tok t = true ->
  (rk t = T_Whitespace \/ rk t = T_LineComment \/ rk t = T_BlockComment) /\ rerr t = None.
Proof.
  unfold gap_tok. intros H. apply andb_true_iff in H. destruct H as [H E].
  split; [|destruct (rerr t); [discriminate|reflexivity]].
  apply orb_true_iff in H. destruct H as [H|H]; [apply orb_true_iff in H; destruct H as [H|H]|];
    apply LexBasics.tk_eqb_eq in H; auto.
Qed.

Lemma gap_tok_trivia t : gap_tok t = true -> is_trivia (rk t) = true.
Proof. intros H. apply gap_tok_spec in H. destruct H as [[K|[K|K]] _]; rewrite K; reflexivity. Qed.

(** kinds the skipping loop passes over without changing its depth *)
Definition skippable (t : rtok) : bool :=
  negb (tk_eqb (rk t) T_Ifdef || tk_eqb (rk t) T_Ifndef || tk_eqb (rk t) T_Endif || tk_eqb (rk t) T_Else).

Lemma plain_skippable t : plain_tok t = true -> skippable t = true.
Proof.
  intros H. apply plain_tok_spec in H. destruct H as (A & B & C & D & _).
  unfold skippable. rewrite A, B, C, D. reflexivity.
Qed.

Lemma gap_skippable t : gap_tok t = true -> skippable t = true.
Proof.
  intros H. apply gap_tok_spec in H. destruct H as [[K|[K|K]] _]; unfold skippable; rewrite K; reflexivity.
Qed.

Lemma kind_skippable t k : tk_eqb (rk t) k = true ->
  negb (tk_eqb k T_Ifdef || tk_eqb k T_Ifndef || tk_eqb k T_Endif || tk_eqb k T_Else) = true -> skippable t = true.
Proof. intros H. apply LexBasics.tk_eqb_eq in H. unfold skippable. rewrite H. trivial. Qed.

Lemma head_ok_spec d h : head_ok d h = true ->
  tk_eqb (rk (h_dir h)) d = true /\ forallb gap_tok (h_gap h) = true /\ tk_eqb (rk (h_name h)) T_Id = true.
Proof.
  unfold head_ok. intros H. apply andb_true_iff in H. destruct H as [H C].
  apply andb_true_iff in H. destruct H as [A B]. auto.
Qed.

(** * State bookkeeping *)

Definition notes (st : pstate) (l : list rtok) : pstate := fold_left note_err l st.

Lemma notes_nil st : notes st [] = st. Proof. reflexivity. Qed.
Lemma notes_cons st t l : notes st (t :: l) = notes (note_err st t) l. Proof. reflexivity. Qed.
Lemma notes_app st a b : notes st (a ++ b) = notes (notes st a) b.
Proof. unfold notes. apply fold_left_app. Qed.

Lemma notes_macros l : forall st, macros (notes st l) = macros st.
Proof. induction l as [|t l IH]; intros st; [reflexivity|]. rewrite notes_cons, IH. apply note_err_macros. Qed.
Lemma notes_perr l : forall st, perr (notes st l) = perr st.
Proof. induction l as [|t l IH]; intros st; [reflexivity|]. rewrite notes_cons, IH. apply note_err_perr. Qed.
Lemma notes_openc l : forall st, openc (notes st l) = openc st.
Proof. induction l as [|t l IH]; intros st; [reflexivity|]. rewrite notes_cons, IH. apply note_err_openc. Qed.

Lemma set_openc_macros st n : macros (set_openc st n) = macros st. Proof. reflexivity. Qed.
Lemma set_openc_perr st n : perr (set_openc st n) = perr st. Proof. reflexivity. Qed.
Lemma set_openc_openc st n : openc (set_openc st n) = n. Proof. reflexivity. Qed.
Lemma set_perr_macros st e : macros (set_perr st e) = macros st. Proof. reflexivity. Qed.
Lemma set_perr_openc st e : openc (set_perr st e) = openc st. Proof. reflexivity. Qed.
Lemma add_macro_perr st m : perr (add_macro st m) = perr st. Proof. reflexivity. Qed.
Lemma add_macro_openc st m : openc (add_macro st m) = openc st. Proof. reflexivity. Qed.
Lemma add_macro_macros st m : macros (add_macro st m) = define (macros st) m. Proof. reflexivity. Qed.

Lemma take_error_perr st e : take_error (set_perr st e) =
  (Some (ErrPrep e), {| macros := macros st; perr := None; lerr := lerr st; openc := openc st |}).
Proof. reflexivity. Qed.

(** * 2. The run without fuel *)

Definition xentry := (TokenKind * list rtok * option any_err)%type.
Definition xproj (x : xentry) : TokenKind * N * option any_err := let '(k, c, e) := x in (k, sumlen c, e).

Inductive pruns : pstate -> list rtok -> list xentry -> pstate -> Prop :=
| pr_eof st raw len st1 r1 pre :
    prep_next st raw = (T_Eof, len, st1, r1) -> raw = pre ++ r1 ->
    pruns st raw [(T_Eof, pre, None)] st1
| pr_err st raw len st1 r1 pre e st2 l stf :
    prep_next st raw = (T_Error, len, st1, r1) -> raw = pre ++ r1 ->
    take_error st1 = (e, st2) -> pruns st2 r1 l stf ->
    pruns st raw ((T_Error, pre, e) :: l) stf
| pr_tok st raw k len st1 r1 pre l stf :
    prep_next st raw = (k, len, st1, r1) -> raw = pre ++ r1 ->
    tk_eqb k T_Eof = false -> tk_eqb k T_Error = false -> pruns st1 r1 l stf ->
    pruns st raw ((k, pre, None) :: l) stf.

Lemma prep_all_unfold n st raw :
  prep_all (S n) st raw =
  let '(k, len, st1, r1) := prep_next st raw in
  if tk_eqb k T_Eof then [(k, len, None)]
  else if tk_eqb k T_Error then let '(e, st2) := take_error st1 in (k, len, e) :: prep_all n st2 r1
  else (k, len, None) :: prep_all n st1 r1.
Proof. cbn [prep_all]. destruct (prep_next st raw) as [[[k len] st1] r1]. destruct k; reflexivity. Qed.

Lemma prep_allx_unfold n st raw :
  prep_allx (S n) st raw =
  let '(k, len, st1, r1) := prep_next st raw in
  let covered := firstn (List.length raw - List.length r1) raw in
  if tk_eqb k T_Eof then [(k, covered, None)]
  else if tk_eqb k T_Error then let '(e, st2) := take_error st1 in (k, covered, e) :: prep_allx n st2 r1
  else (k, covered, None) :: prep_allx n st1 r1.
Proof. cbn [prep_allx]. destruct (prep_next st raw) as [[[k len] st1] r1]. destruct k; reflexivity. Qed.

Lemma prep_final_unfold n st raw :
  prep_final (S n) st raw =
  let '(k, len, st1, r1) := prep_next st raw in
  if tk_eqb k T_Eof then st1
  else if tk_eqb k T_Error then prep_final n (snd (take_error st1)) r1
  else prep_final n st1 r1.
Proof. cbn [prep_final]. destruct (prep_next st raw) as [[[k len] st1] r1]. destruct k; reflexivity. Qed.

Lemma covered_app (pre r : list rtok) : firstn (List.length (pre ++ r) - List.length r) (pre ++ r) = pre.
Proof.
  rewrite app_length. replace (List.length pre + List.length r - List.length r)%nat with (List.length pre) by lia.
  rewrite firstn_app, Nat.sub_diag, firstn_all. cbn [firstn]. apply app_nil_r.
Qed.

Lemma span_len st raw k len st1 r1 pre :
  prep_next st raw = (k, len, st1, r1) -> raw = pre ++ r1 -> len = sumlen pre.
Proof.
  intros H E. apply prep_next_span_sumlen in H. destruct H as (pre' & E' & L).
  rewrite E in E'. apply app_inv_tail in E'. subst. reflexivity.
Qed.

(** one step of the three fuelled functions *)
Definition all3 (fuel : nat) (st : pstate) (raw : list rtok) (l : list xentry) (stf : pstate) : Prop :=
  prep_all fuel st raw = map xproj l /\ prep_allx fuel st raw = l /\ prep_final fuel st raw = stf.

Lemma all3_eof n st raw len st1 r1 pre :
  prep_next st raw = (T_Eof, len, st1, r1) -> raw = pre ++ r1 -> all3 (S n) st raw [(T_Eof, pre, None)] st1.
Proof.
  intros H E. pose proof (span_len _ _ _ _ _ _ _ H E) as L. unfold all3.
  rewrite prep_all_unfold, prep_allx_unfold, prep_final_unfold, H. cbv zeta.
  change (tk_eqb T_Eof T_Eof) with true. cbv iota.
  rewrite E at 1 2. rewrite covered_app. subst len. repeat split; reflexivity.
Qed.

Lemma all3_err n st raw len st1 r1 pre e st2 l stf :
  prep_next st raw = (T_Error, len, st1, r1) -> raw = pre ++ r1 -> take_error st1 = (e, st2) ->
  all3 n st2 r1 l stf -> all3 (S n) st raw ((T_Error, pre, e) :: l) stf.
Proof.
  intros H E T (A & B & C). pose proof (span_len _ _ _ _ _ _ _ H E) as L. unfold all3.
  rewrite prep_all_unfold, prep_allx_unfold, prep_final_unfold, H. cbv zeta.
  change (tk_eqb T_Error T_Eof) with false. change (tk_eqb T_Error T_Error) with true. cbv iota.
  rewrite T. cbn [snd]. rewrite A, B, C.
  rewrite E at 1 2. rewrite covered_app. subst len. repeat split; reflexivity.
Qed.

Lemma all3_tok n st raw k len st1 r1 pre l stf :
  prep_next st raw = (k, len, st1, r1) -> raw = pre ++ r1 ->
  tk_eqb k T_Eof = false -> tk_eqb k T_Error = false ->
  all3 n st1 r1 l stf -> all3 (S n) st raw ((k, pre, None) :: l) stf.
Proof.
  intros H E K1 K2 (A & B & C). pose proof (span_len _ _ _ _ _ _ _ H E) as L. unfold all3.
  rewrite prep_all_unfold, prep_allx_unfold, prep_final_unfold, H. cbv zeta.
  rewrite K1, K2, A, B, C.
  rewrite E at 1 2. rewrite covered_app. subst len. repeat split; reflexivity.
Qed.

Lemma pruns_nil_closed st l stf : pruns st [] l stf -> openc st = 0 -> l = [(T_Eof, [], None)] /\ stf = st.
Proof.
  intros H O. inversion H as [? ? len st1 r1 pre HN E|? ? len st1 r1 pre e st2 l' ? HN E|? ? k len st1 r1 pre l' ? HN E K1 K2]; subst;
    rewrite prep_next_nil, O in HN; cbn in HN; inversion HN; subst.
  - symmetry in E. apply app_eq_nil in E. destruct E; subst. auto.
  - discriminate.
Qed.

Lemma pruns_nil_all3 st l stf : pruns st [] l stf -> forall fuel, (2 <= fuel)%nat -> all3 fuel st [] l stf.
Proof.
  intros H fuel F. destruct fuel as [|[|n]]; try lia.
  inversion H as [? ? len st1 r1 pre HN E|? ? len st1 r1 pre e st2 l' ? HN E T R|? ? k len st1 r1 pre l' ? HN E K1 K2 R]; subst.
  - eapply all3_eof; eassumption.
  - assert (r1 = [] /\ openc st2 = 0) as [-> O].
    { rewrite prep_next_nil in HN. destruct (0 <? openc st); inversion HN; subst.
      rewrite take_error_perr in T. inversion T; subst. cbn. auto. }
    apply pruns_nil_closed in R; [|exact O]. destruct R as [-> ->].
    eapply all3_err; [exact HN|exact E|exact T|].
    eapply all3_eof with (len := 0); [|reflexivity]. rewrite prep_next_nil, O. reflexivity.
  - exfalso. rewrite prep_next_nil in HN. destruct (0 <? openc st); inversion HN; subst; discriminate.
Qed.

(** the fuel of [prep_run] always suffices *)
Lemma pruns_all3 st raw l stf : pruns st raw l stf ->
  forall fuel, (List.length raw + 2 <= fuel)%nat -> all3 fuel st raw l stf.
Proof.
  induction 1 as [st raw len st1 r1 pre HN E|st raw len st1 r1 pre e st2 l stf HN E T R IH
                  |st raw k len st1 r1 pre l stf HN E K1 K2 R IH]; intros fuel F.
  - destruct fuel as [|n]; [lia|]. eapply all3_eof; eassumption.
  - destruct raw as [|t r].
    + apply pruns_nil_all3; [|lia]. eapply pr_err; eassumption.
    + destruct fuel as [|n]; [lia|].
      pose proof (prep_next_progress _ _ _ _ _ _ HN ltac:(discriminate)) as PG.
      eapply all3_err; [exact HN|exact E|exact T|]. apply IH. cbn [List.length] in *. lia.
  - destruct raw as [|t r].
    + apply pruns_nil_all3; [|lia]. eapply pr_tok; eassumption.
    + destruct fuel as [|n]; [lia|].
      pose proof (prep_next_progress _ _ _ _ _ _ HN ltac:(discriminate)) as PG.
      eapply all3_tok; [exact HN|exact E|exact K1|exact K2|]. apply IH. cbn [List.length] in *. lia.
Qed.

Lemma pruns_run raw l stf : pruns pinit raw l stf ->
  prep_run raw = map xproj l /\ prep_runx raw = l /\ prep_run_macros raw = macros stf.
Proof.
  intros H. destruct (pruns_all3 _ _ _ _ H (S (S (List.length raw))) ltac:(lia)) as (A & B & C).
  unfold prep_run, prep_runx, prep_run_macros. rewrite A, B, C. auto.
Qed.

(** the run is total *)
Lemma pruns_total_aux n : forall st raw, (List.length raw <= n)%nat -> exists l stf, pruns st raw l stf.
Proof.
  induction n as [|n IH]; intros st raw L.
  - destruct raw as [|t r]; [|cbn in L; lia].
    destruct (0 <? openc st) eqn:O.
    + do 2 eexists. eapply pr_err with (pre := []); [rewrite prep_next_nil, O; reflexivity|reflexivity|apply take_error_perr|].
      eapply pr_eof with (pre := []); [rewrite prep_next_nil; reflexivity|reflexivity].
    + do 2 eexists. eapply pr_eof with (pre := []); [rewrite prep_next_nil, O; reflexivity|reflexivity].
  - destruct raw as [|t r]; [apply IH; cbn; lia|].
    destruct (prep_next st (t :: r)) as [[[k len] st1] r1] eqn:HN.
    pose proof (prep_next_progress _ _ _ _ _ _ HN ltac:(discriminate)) as PG.
    destruct (prep_next_span_sumlen _ _ _ _ _ _ HN) as (pre & E & _).
    destruct (tk_eqb k T_Eof) eqn:K1.
    { apply LexBasics.tk_eqb_eq in K1. subst k. do 2 eexists. eapply pr_eof; eassumption. }
    destruct (tk_eqb k T_Error) eqn:K2.
    { apply LexBasics.tk_eqb_eq in K2. subst k. destruct (take_error st1) as [e st2] eqn:T.
      destruct (IH st2 r1) as (l & stf & R); [cbn [List.length] in *; lia|].
      do 2 eexists. eapply pr_err; eassumption. }
    destruct (IH st1 r1) as (l & stf & R); [cbn [List.length] in *; lia|].
    do 2 eexists. eapply pr_tok; eassumption.
Qed.

Lemma pruns_total st raw : exists l stf, pruns st raw l stf.
Proof. apply (pruns_total_aux (List.length raw)). lia. Qed.

(** * One step of [prep_next], by the kind of the first raw token *)

Definition wanted (k : ifkind) : bool := match k with IfDef => true | IfNdef => false end.

Lemma taken_eqb k ms m : taken k ms m = Bool.eqb (wanted k) (mem_macro m ms).
Proof. unfold taken, defined, mem_macro. destruct k; cbn [wanted]; destruct (existsb (list_eqb m) ms); reflexivity. Qed.

Lemma prep_next_plain st t r :
  tk_eqb (rk t) T_Ifdef = false -> tk_eqb (rk t) T_Ifndef = false -> tk_eqb (rk t) T_Else = false ->
  tk_eqb (rk t) T_Endif = false -> tk_eqb (rk t) T_Define = false -> tk_eqb (rk t) T_Eof = false ->
  prep_next st (t :: r) = (rk t, rlen t, note_err st t, r).
Proof.
  intros A B C D E F. rewrite prep_next_eq, raw_eat_cons. cbv beta iota.
  rewrite A, B, C, D, E, F. reflexivity.
Qed.

Lemma prep_next_if k st t r :
  tk_eqb (rk t) (if_dir k) = true -> prep_next st (t :: r) = process_if t (note_err st t) r (wanted k).
Proof.
  intros H. apply LexBasics.tk_eqb_eq in H. rewrite prep_next_eq, raw_eat_cons. cbv beta iota.
  rewrite H. destruct k; reflexivity.
Qed.

Lemma prep_next_else st t r :
  tk_eqb (rk t) T_Else = true -> prep_next st (t :: r) = process_else t (note_err st t) r.
Proof.
  intros H. apply LexBasics.tk_eqb_eq in H. rewrite prep_next_eq, raw_eat_cons. cbv beta iota.
  rewrite H. reflexivity.
Qed.

Lemma prep_next_endif st t r :
  tk_eqb (rk t) T_Endif = true ->
  prep_next st (t :: r) = (T_PreProcessor, rlen t, set_openc (note_err st t) (N.pred (openc (note_err st t))), r).
Proof.
  intros H. apply LexBasics.tk_eqb_eq in H. rewrite prep_next_eq, raw_eat_cons. cbv beta iota.
  rewrite H. reflexivity.
Qed.

Lemma prep_next_define st t r :
  tk_eqb (rk t) T_Define = true -> prep_next st (t :: r) = process_define t (note_err st t) r.
Proof.
  intros H. apply LexBasics.tk_eqb_eq in H. rewrite prep_next_eq, raw_eat_cons. cbv beta iota.
  rewrite H. reflexivity.
Qed.

Lemma id_not_trivia n : tk_eqb (rk n) T_Id = true -> is_trivia (rk n) = false.
Proof. intros H. apply LexBasics.tk_eqb_eq in H. rewrite H. reflexivity. Qed.

Lemma nnt_gap gap : forallb gap_tok gap = true -> forall st n R sk, is_trivia (rk n) = false ->
  next_not_trivia st (gap ++ n :: R) sk = (n, sk + sumlen gap, notes st (gap ++ [n]), R).
Proof.
  induction gap as [|g gap IH]; intros G st n R sk NT.
  - cbn [app]. rewrite next_not_trivia_cons, NT. change (sumlen []) with 0. rewrite N.add_0_r. reflexivity.
  - cbn [forallb] in G. apply andb_true_iff in G. destruct G as [G1 G2].
    cbn [app]. rewrite next_not_trivia_cons, (gap_tok_trivia _ G1), (IH G2 _ _ _ _ NT).
    rewrite sumlen_cons, N.add_assoc. reflexivity.
Qed.

Lemma nnt_gap_end gap : forallb gap_tok gap = true -> forall st sk,
  next_not_trivia st gap sk = (eof_tok, sk + sumlen gap, notes st gap, []).
Proof.
  induction gap as [|g gap IH]; intros G st sk.
  - cbn [next_not_trivia]. change (sumlen []) with 0. rewrite N.add_0_r. reflexivity.
  - cbn [forallb] in G. apply andb_true_iff in G. destruct G as [G1 G2].
    rewrite next_not_trivia_cons, (gap_tok_trivia _ G1), (IH G2).
    rewrite sumlen_cons, N.add_assoc. reflexivity.
Qed.

(** * 3. The skip lemma *)

Definition skips (d : N) (l : list rtok) (d' : N) : Prop :=
  forall st k e, eat_until_else_or_endif d st (l ++ k) e = eat_until_else_or_endif d' (notes st l) k (e + sumlen l).

Lemma skips_nil d : skips d [] d.
Proof. intros st k e. cbn [app]. change (sumlen []) with 0. rewrite N.add_0_r. reflexivity. Qed.

Lemma skips_app d a d1 b d2 : skips d a d1 -> skips d1 b d2 -> skips d (a ++ b) d2.
Proof.
  intros HA HB st k e. rewrite <- app_assoc, HA, HB, notes_app, sumlen_app, N.add_assoc. reflexivity.
Qed.

Lemma skips_one d t d' :
  (forall st k e, eat_until_else_or_endif d st (t :: k) e = eat_until_else_or_endif d' (note_err st t) k (e + rlen t)) ->
  skips d [t] d'.
Proof.
  intros H st k e. cbn [app]. rewrite H. change (sumlen [t]) with (rlen t + 0). rewrite N.add_0_r. reflexivity.
Qed.

Lemma skippable_spec t : skippable t = true ->
  tk_eqb (rk t) T_Ifdef = false /\ tk_eqb (rk t) T_Ifndef = false /\ tk_eqb (rk t) T_Endif = false /\ tk_eqb (rk t) T_Else = false.
Proof.
  unfold skippable. intros H. apply negb_true_iff in H.
  apply orb_false_iff in H. destruct H as [H D]. apply orb_false_iff in H. destruct H as [H C].
  apply orb_false_iff in H. destruct H as [A B]. auto.
Qed.

Lemma skips_default d t : skippable t = true -> skips d [t] d.
Proof.
  intros H. apply skippable_spec in H. destruct H as (A & B & C & D).
  apply skips_one. intros st k e. rewrite eat_until_cons. cbv zeta. rewrite A, B, C, D. reflexivity.
Qed.

Lemma forallb_imp {A} (p q : A -> bool) l :
  (forall x, p x = true -> q x = true) -> forallb p l = true -> forallb q l = true.
Proof.
  intros I. induction l as [|x l IH]; cbn [forallb]; [trivial|].
  intros H. apply andb_true_iff in H. destruct H as [H1 H2]. rewrite (I _ H1), (IH H2). reflexivity.
Qed.

Lemma skips_list d l : forallb skippable l = true -> skips d l d.
Proof.
  induction l as [|t l IH]; intros H; [apply skips_nil|].
  cbn [forallb] in H. apply andb_true_iff in H. destruct H as [H1 H2].
  change (t :: l) with ([t] ++ l). eapply skips_app; [apply skips_default; exact H1|apply IH; exact H2].
Qed.

Lemma skips_if d t k : tk_eqb (rk t) (if_dir k) = true -> skips d [t] (d + 1).
Proof.
  intros H. apply LexBasics.tk_eqb_eq in H.
  apply skips_one. intros st r e. rewrite eat_until_cons. cbv zeta. rewrite H. destruct k; reflexivity.
Qed.

Lemma skips_else_deep d t : tk_eqb (rk t) T_Else = true -> 2 <= d -> skips d [t] d.
Proof.
  intros H D. apply LexBasics.tk_eqb_eq in H.
  apply skips_one. intros st r e. rewrite eat_until_cons. cbv zeta. rewrite H.
  change (tk_eqb T_Else T_Ifdef || tk_eqb T_Else T_Ifndef) with false.
  change (tk_eqb T_Else T_Endif) with false. change (tk_eqb T_Else T_Else) with true. cbv iota.
  destruct (d =? 1) eqn:E; [apply N.eqb_eq in E; lia|reflexivity].
Qed.

Lemma skips_endif_deep d t : tk_eqb (rk t) T_Endif = true -> 2 <= d -> skips d [t] (d - 1).
Proof.
  intros H D. apply LexBasics.tk_eqb_eq in H.
  apply skips_one. intros st r e. rewrite eat_until_cons. cbv zeta. rewrite H.
  change (tk_eqb T_Endif T_Ifdef || tk_eqb T_Endif T_Ifndef) with false.
  change (tk_eqb T_Endif T_Endif) with true. cbv iota.
  destruct (2 <=? d) eqn:E; [reflexivity|apply N.leb_gt in E; lia].
Qed.

Lemma eat_stop_else st t R e : tk_eqb (rk t) T_Else = true ->
  eat_until_else_or_endif 1 st (t :: R) e = (e + rlen t, note_err st t, R).
Proof.
  intros H. apply LexBasics.tk_eqb_eq in H. rewrite eat_until_cons. cbv zeta. rewrite H. reflexivity.
Qed.

Lemma eat_stop_endif st t R e : tk_eqb (rk t) T_Endif = true ->
  eat_until_else_or_endif 1 st (t :: R) e
  = (e + rlen t, set_openc (note_err st t) (N.pred (openc (note_err st t))), R).
Proof.
  intros H. apply LexBasics.tk_eqb_eq in H. rewrite eat_until_cons. cbv zeta. rewrite H. reflexivity.
Qed.

Lemma skips_end d l d' st e : skips d l d' ->
  eat_until_else_or_endif d st l e = (e + sumlen l, notes st l, []).
Proof. intros H. pose proof (H st [] e) as E. rewrite app_nil_r in E. exact E. Qed.

Lemma head_skippable d h : head_ok d h = true ->
  forallb skippable (h_gap h ++ [h_name h]) = true.
Proof.
  intros H. apply head_ok_spec in H. destruct H as (_ & G & N).
  rewrite forallb_app. rewrite (forallb_imp _ _ _ gap_skippable G). cbn [forallb andb].
  rewrite (kind_skippable _ _ N); reflexivity.
Qed.

Lemma skips_define_head d h : head_ok T_Define h = true -> skips d (render_head h) d.
Proof.
  intros H. apply skips_list. unfold render_head.
  change (h_dir h :: h_gap h ++ [h_name h]) with ([h_dir h] ++ (h_gap h ++ [h_name h])).
  rewrite forallb_app, (head_skippable _ _ H). cbn [forallb andb].
  apply head_ok_spec in H. destruct H as (D & _). rewrite (kind_skippable _ _ D); reflexivity.
Qed.

Lemma skips_if_head d k h : head_ok (if_dir k) h = true -> skips d (render_head h) (d + 1).
Proof.
  intros H. unfold render_head.
  change (h_dir h :: h_gap h ++ [h_name h]) with ([h_dir h] ++ (h_gap h ++ [h_name h])).
  eapply skips_app; [|apply skips_list; exact (head_skippable _ _ H)].
  apply head_ok_spec in H. destruct H as (D & _). exact (skips_if _ _ _ D).
Qed.

Lemma skip_items : forall items, items_ok items = true -> forall d, 1 <= d -> skips d (render_items items) d.
Proof.
  apply (items_ind2
    (fun i => item_ok i = true -> forall d, 1 <= d -> skips d (render_item i) d)
    (fun l => items_ok l = true -> forall d, 1 <= d -> skips d (render_items l) d)).
  - intros t OK d D. apply skips_default, plain_skippable, OK.
  - intros h OK d D. apply skips_define_head, OK.
  - intros k h th el en IHth IHel OK d D.
    rewrite item_ok_cond in OK. apply andb_true_iff in OK. destruct OK as [OK EN].
    apply andb_true_iff in OK. destruct OK as [OK EL]. apply andb_true_iff in OK. destruct OK as [HD TH].
    rewrite render_item_cond.
    eapply skips_app; [exact (skips_if_head _ _ _ HD)|].
    eapply skips_app; [apply (IHth TH); lia|].
    eapply skips_app with (d1 := d + 1).
    + destruct el as [[et els]|]; [|apply skips_nil].
      cbn [el_ok] in EL. apply andb_true_iff in EL. destruct EL as [ET ELS].
      change (et :: render_items els) with ([et] ++ render_items els).
      eapply skips_app; [apply skips_else_deep; [exact ET|lia]|].
      apply (IHel ELS). lia.
    + replace d with (d + 1 - 1) at 2 by lia. apply skips_endif_deep; [exact EN|lia].
  - intros _ d D. apply skips_nil.
  - intros i l IHi IHl OK d D. rewrite items_ok_cons in OK. apply andb_true_iff in OK. destruct OK as [OKi OKl].
    rewrite render_items_cons. eapply skips_app; [apply IHi; assumption|apply IHl; assumption].
Qed.

(** * 4. The enabled lemma *)

(** what the run delivers for an arrangement, structurally (with the covered raw tokens) *)
Definition deliverx (t : rtok) : xentry :=
  (rk t, [t], if tk_eqb (rk t) T_Error then option_map ErrLex (rerr t) else None).
Definition ppx (c : list rtok) : xentry := (T_PreProcessor, c, None).

Fixpoint xent_item (ms : list text) (i : item) : list xentry :=
  match i with
  | ITok t => [deliverx t]
  | IDefine h => [ppx (render_head h)]
  | ICond k h th el en =>
      let go := fix go (ms : list text) (l : list item) : list xentry :=
        match l with
        | [] => []
        | i :: r => xent_item ms i ++ go (fst (select_item ms i)) r
        end in
      if taken k ms (rtext (h_name h)) then
        match el with
        | None => [ppx (render_head h)] ++ go ms th ++ [ppx [en]]
        | Some (et, els) => [ppx (render_head h)] ++ go ms th ++ [ppx (et :: render_items els ++ [en])]
        end
      else
        match el with
        | None => [ppx (render_head h ++ render_items th ++ [en])]
        | Some (et, els) => [ppx (render_head h ++ render_items th ++ [et])] ++ go ms els ++ [ppx [en]]
        end
  end.
Fixpoint xent (ms : list text) (l : list item) : list xentry :=
  match l with
  | [] => []
  | i :: r => xent_item ms i ++ xent (fst (select_item ms i)) r
  end.

Lemma xent_item_cond ms k h th el en :
  xent_item ms (ICond k h th el en) =
  if taken k ms (rtext (h_name h)) then
    match el with
    | None => [ppx (render_head h)] ++ xent ms th ++ [ppx [en]]
    | Some (et, els) => [ppx (render_head h)] ++ xent ms th ++ [ppx (et :: render_items els ++ [en])]
    end
  else
    match el with
    | None => [ppx (render_head h ++ render_items th ++ [en])]
    | Some (et, els) => [ppx (render_head h ++ render_items th ++ [et])] ++ xent ms els ++ [ppx [en]]
    end.
Proof. reflexivity. Qed.

Lemma xent_cons ms i r : xent ms (i :: r) = xent_item ms i ++ xent (fst (select_item ms i)) r.
Proof. reflexivity. Qed.

(** control part of the state (everything but the lexer's parked error) *)
Definition ctl_is (st : pstate) (ms : list text) (pe : option prep_err) (oc : N) : Prop :=
  macros st = ms /\ perr st = pe /\ openc st = oc.

(** a segment of the run: from [st] over [raw] the entries [ents] are delivered, reaching [st'] *)
Definition seg (st : pstate) (raw : list rtok) (ents : list xentry) (st' : pstate) : Prop :=
  forall rest out stf, pruns st' rest out stf -> pruns st (raw ++ rest) (ents ++ out) stf.

Lemma seg_nil st : seg st [] [] st.
Proof. intros rest out stf H. exact H. Qed.

Lemma seg_app st a e1 st1 b e2 st2 : seg st a e1 st1 -> seg st1 b e2 st2 -> seg st (a ++ b) (e1 ++ e2) st2.
Proof. intros HA HB rest out stf H. rewrite <- !app_assoc. apply HA, HB, H. Qed.

Lemma seg_pp st pre st1 :
  (forall R, exists len, prep_next st (pre ++ R) = (T_PreProcessor, len, st1, R)) -> seg st pre [ppx pre] st1.
Proof.
  intros H rest out stf P. destruct (H rest) as [len HN].
  eapply pr_tok; [exact HN|reflexivity|reflexivity|reflexivity|exact P].
Qed.

Lemma seg_plain st t : plain_tok t = true -> perr st = None ->
  exists st1, ctl_is st1 (macros st) None (openc st) /\ seg st [t] [deliverx t] st1.
Proof.
  intros OK PE. apply plain_tok_spec in OK. destruct OK as (A & B & C & D & E & F & G & ER).
  assert (HN : forall R, prep_next st (t :: R) = (rk t, rlen t, note_err st t, R))
    by (intros R; apply prep_next_plain; assumption).
  unfold deliverx. destruct (tk_eqb (rk t) T_Error) eqn:K.
  - apply LexBasics.tk_eqb_eq in K. destruct (rerr t) as [e|] eqn:RE; [|discriminate].
    exists {| macros := macros st; perr := None; lerr := None; openc := openc st |}.
    split; [repeat split|].
    intros rest out stf P. cbn [app option_map]. rewrite K.
    eapply pr_err with (pre := [t]); [rewrite HN, K; reflexivity|reflexivity| |exact P].
    unfold note_err, take_error. rewrite RE. cbn [perr lerr macros openc]. rewrite PE. reflexivity.
  - exists (note_err st t). split.
    { repeat split; [apply note_err_macros|rewrite note_err_perr; exact PE|apply note_err_openc]. }
    intros rest out stf P. cbn [app].
    eapply pr_tok with (pre := [t]); [apply HN|reflexivity|exact F|exact K|exact P].
Qed.

Lemma seg_define st h : head_ok T_Define h = true ->
  exists st1, ctl_is st1 (define (macros st) (rtext (h_name h))) (perr st) (openc st)
              /\ seg st (render_head h) [ppx (render_head h)] st1.
Proof.
  intros H. apply head_ok_spec in H. destruct H as (D & G & N).
  exists (add_macro (notes (note_err st (h_dir h)) (h_gap h ++ [h_name h])) (rtext (h_name h))). split.
  { unfold ctl_is. rewrite add_macro_macros, add_macro_perr, add_macro_openc,
      notes_macros, notes_perr, notes_openc, note_err_macros, note_err_perr, note_err_openc. auto. }
  apply seg_pp. intros R. rewrite render_head_app, (prep_next_define _ _ _ D). unfold process_define.
  rewrite (nnt_gap _ G _ _ _ _ (id_not_trivia _ N)). cbv beta iota zeta. rewrite N. eexists. reflexivity.
Qed.

Lemma seg_if_taken st k h : head_ok (if_dir k) h = true -> taken k (macros st) (rtext (h_name h)) = true ->
  exists st1, ctl_is st1 (macros st) (perr st) (openc st + 1) /\ seg st (render_head h) [ppx (render_head h)] st1.
Proof.
  intros H TK. apply head_ok_spec in H. destruct H as (D & G & N).
  set (s2 := notes (note_err st (h_dir h)) (h_gap h ++ [h_name h])).
  assert (M2 : macros s2 = macros st) by (unfold s2; rewrite notes_macros; apply note_err_macros).
  assert (P2 : perr s2 = perr st) by (unfold s2; rewrite notes_perr; apply note_err_perr).
  assert (O2 : openc s2 = openc st) by (unfold s2; rewrite notes_openc; apply note_err_openc).
  exists (set_openc s2 (openc s2 + 1)). split.
  { unfold ctl_is. rewrite set_openc_macros, set_openc_perr, set_openc_openc, M2, P2, O2. auto. }
  apply seg_pp. intros R. rewrite render_head_app, (prep_next_if _ _ _ _ D). unfold process_if.
  rewrite (nnt_gap _ G _ _ _ _ (id_not_trivia _ N)). fold s2. cbv beta iota zeta. rewrite N.
  rewrite M2, <- taken_eqb, TK. eexists. reflexivity.
Qed.

(** the head of a conditional that is not taken: the skipping loop starts at depth 1 *)
Lemma prep_next_if_skip st k h : head_ok (if_dir k) h = true -> taken k (macros st) (rtext (h_name h)) = false ->
  exists s3, ctl_is s3 (macros st) (perr st) (openc st + 1) /\
    forall R, exists len, prep_next st (render_head h ++ R) =
      let '(eaten, st4, r3) := eat_until_else_or_endif 1 s3 R 0 in (T_PreProcessor, len + eaten, st4, r3).
Proof.
  intros H TK. apply head_ok_spec in H. destruct H as (D & G & N).
  set (s2 := notes (note_err st (h_dir h)) (h_gap h ++ [h_name h])).
  assert (M2 : macros s2 = macros st) by (unfold s2; rewrite notes_macros; apply note_err_macros).
  assert (P2 : perr s2 = perr st) by (unfold s2; rewrite notes_perr; apply note_err_perr).
  assert (O2 : openc s2 = openc st) by (unfold s2; rewrite notes_openc; apply note_err_openc).
  exists (set_openc s2 (openc s2 + 1)). split.
  { unfold ctl_is. rewrite set_openc_macros, set_openc_perr, set_openc_openc, M2, P2, O2. auto. }
  intros R. rewrite render_head_app, (prep_next_if _ _ _ _ D). unfold process_if.
  rewrite (nnt_gap _ G _ _ _ _ (id_not_trivia _ N)). fold s2. cbv beta iota zeta. rewrite N.
  rewrite M2, <- taken_eqb, TK. eexists. reflexivity.
Qed.

Lemma seg_endif st t : tk_eqb (rk t) T_Endif = true ->
  exists st1, ctl_is st1 (macros st) (perr st) (N.pred (openc st)) /\ seg st [t] [ppx [t]] st1.
Proof.
  intros H. exists (set_openc (note_err st t) (N.pred (openc (note_err st t)))). split.
  { unfold ctl_is. rewrite set_openc_macros, set_openc_perr, set_openc_openc,
      note_err_macros, note_err_perr, note_err_openc. auto. }
  apply seg_pp. intros R. cbn [app]. rewrite (prep_next_endif _ _ _ H). eexists. reflexivity.
Qed.

Lemma seg_else_skip st et body en :
  tk_eqb (rk et) T_Else = true -> skips 1 body 1 -> tk_eqb (rk en) T_Endif = true ->
  exists st1, ctl_is st1 (macros st) (perr st) (N.pred (openc st))
              /\ seg st (et :: body ++ [en]) [ppx (et :: body ++ [en])] st1.
Proof.
  intros ET SK EN.
  set (s1 := note_err (notes (note_err st et) body) en).
  exists (set_openc s1 (N.pred (openc s1))). split.
  { unfold ctl_is, s1. rewrite set_openc_macros, set_openc_perr, set_openc_openc,
      !note_err_macros, !note_err_perr, !note_err_openc, notes_macros, notes_perr, notes_openc,
      note_err_macros, note_err_perr, note_err_openc. auto. }
  apply seg_pp. intros R. cbn [app]. rewrite <- app_assoc. cbn [app].
  rewrite (prep_next_else _ _ _ ET). unfold process_else.
  rewrite SK, (eat_stop_endif _ _ _ _ EN). fold s1. eexists. reflexivity.
Qed.

Lemma seg_if_skip_endif st k h body en :
  head_ok (if_dir k) h = true -> taken k (macros st) (rtext (h_name h)) = false ->
  skips 1 body 1 -> tk_eqb (rk en) T_Endif = true ->
  exists st1, ctl_is st1 (macros st) (perr st) (openc st)
              /\ seg st (render_head h ++ body ++ [en]) [ppx (render_head h ++ body ++ [en])] st1.
Proof.
  intros H TK SK EN. destruct (prep_next_if_skip _ _ _ H TK) as (s3 & (M3 & P3 & O3) & HN).
  set (s1 := note_err (notes s3 body) en).
  exists (set_openc s1 (N.pred (openc s1))). split.
  { unfold ctl_is, s1. rewrite set_openc_macros, set_openc_perr, set_openc_openc,
      !note_err_macros, !note_err_perr, !note_err_openc, notes_macros, notes_perr, notes_openc, M3, P3, O3.
    rewrite N.add_1_r, N.pred_succ. auto. }
  apply seg_pp. intros R. rewrite <- !app_assoc. cbn [app]. destruct (HN (body ++ en :: R)) as [len E].
  rewrite E, SK, (eat_stop_endif _ _ _ _ EN). fold s1. eexists. reflexivity.
Qed.

Lemma seg_if_skip_else st k h body et :
  head_ok (if_dir k) h = true -> taken k (macros st) (rtext (h_name h)) = false ->
  skips 1 body 1 -> tk_eqb (rk et) T_Else = true ->
  exists st1, ctl_is st1 (macros st) (perr st) (openc st + 1)
              /\ seg st (render_head h ++ body ++ [et]) [ppx (render_head h ++ body ++ [et])] st1.
Proof.
  intros H TK SK ET. destruct (prep_next_if_skip _ _ _ H TK) as (s3 & (M3 & P3 & O3) & HN).
  exists (note_err (notes s3 body) et). split.
  { unfold ctl_is. rewrite !note_err_macros, !note_err_perr, !note_err_openc,
      notes_macros, notes_perr, notes_openc, M3, P3, O3. auto. }
  apply seg_pp. intros R. rewrite <- !app_assoc. cbn [app]. destruct (HN (body ++ et :: R)) as [len E].
  rewrite E, SK, (eat_stop_else _ _ _ _ ET). eexists. reflexivity.
Qed.

Definition enabled_item_stmt (i : item) : Prop :=
  item_ok i = true -> forall st, perr st = None ->
  exists st', ctl_is st' (fst (select_item (macros st) i)) None (openc st)
              /\ seg st (render_item i) (xent_item (macros st) i) st'.
Definition enabled_items_stmt (l : list item) : Prop :=
  items_ok l = true -> forall st, perr st = None ->
  exists st', ctl_is st' (fst (select (macros st) l)) None (openc st)
              /\ seg st (render_items l) (xent (macros st) l) st'.

Lemma enabled_items : forall items, enabled_items_stmt items.
Proof.
  apply (items_ind2 enabled_item_stmt enabled_items_stmt); unfold enabled_item_stmt, enabled_items_stmt.
  - (* ITok *) intros t OK st PE. exact (seg_plain st t OK PE).
  - (* IDefine *) intros h OK st PE. destruct (seg_define st h OK) as (st1 & C & S).
    exists st1. rewrite PE in C. split; [exact C|exact S].
  - (* ICond *) intros k h th el en IHth IHel OK st PE.
    rewrite item_ok_cond in OK. apply andb_true_iff in OK. destruct OK as [OK EN].
    apply andb_true_iff in OK. destruct OK as [OK EL]. apply andb_true_iff in OK. destruct OK as [HD TH].
    rewrite render_item_cond, select_item_cond, xent_item_cond.
    destruct (taken k (macros st) (rtext (h_name h))) eqn:TK.
    + (* taken *)
      destruct (seg_if_taken _ _ _ HD TK) as (s3 & (M3 & P3 & O3) & S3). rewrite PE in P3.
      destruct (IHth TH s3 P3) as (s4 & (M4 & P4 & O4) & S4). rewrite M3 in M4, S4. rewrite O3 in O4.
      destruct el as [[et els]|].
      * cbn [el_ok] in EL. apply andb_true_iff in EL. destruct EL as [ET ELS].
        destruct (seg_else_skip s4 et (render_items els) en ET (skip_items _ ELS 1 ltac:(lia)) EN)
          as (s5 & (M5 & P5 & O5) & S5).
        exists s5. split.
        { unfold ctl_is. rewrite M5, P5, O5, M4, P4, O4, N.add_1_r, N.pred_succ. auto. }
        eapply seg_app; [exact S3|]. eapply seg_app; [exact S4|]. exact S5.
      * destruct (seg_endif s4 en EN) as (s5 & (M5 & P5 & O5) & S5).
        exists s5. split.
        { unfold ctl_is. rewrite M5, P5, O5, M4, P4, O4, N.add_1_r, N.pred_succ. auto. }
        eapply seg_app; [exact S3|]. eapply seg_app; [exact S4|]. cbn [app]. exact S5.
    + (* not taken *)
      destruct el as [[et els]|].
      * cbn [el_ok] in EL. apply andb_true_iff in EL. destruct EL as [ET ELS].
        destruct (seg_if_skip_else st k h (render_items th) et HD TK (skip_items _ TH 1 ltac:(lia)) ET)
          as (s3 & (M3 & P3 & O3) & S3). rewrite PE in P3.
        destruct (IHel ELS s3 P3) as (s4 & (M4 & P4 & O4) & S4). rewrite M3 in M4, S4. rewrite O3 in O4.
        destruct (seg_endif s4 en EN) as (s5 & (M5 & P5 & O5) & S5).
        exists s5. split.
        { unfold ctl_is. rewrite M5, P5, O5, M4, P4, O4, N.add_1_r, N.pred_succ. auto. }
        replace (render_head h ++ render_items th ++ (et :: render_items els) ++ [en])
          with ((render_head h ++ render_items th ++ [et]) ++ render_items els ++ [en])
          by (rewrite <- !app_assoc; reflexivity).
        eapply seg_app; [exact S3|]. eapply seg_app; [exact S4|exact S5].
      * destruct (seg_if_skip_endif st k h (render_items th) en HD TK (skip_items _ TH 1 ltac:(lia)) EN)
          as (s3 & (M3 & P3 & O3) & S3). rewrite PE in P3.
        exists s3. split; [repeat split; assumption|]. cbn [app]. exact S3.
  - (* nil *) intros _ st PE. exists st. split; [repeat split; auto|apply seg_nil].
  - (* cons *) intros i l IHi IHl OK st PE. rewrite items_ok_cons in OK. apply andb_true_iff in OK. destruct OK as [OKi OKl].
    destruct (IHi OKi st PE) as (s1 & (M1 & P1 & O1) & S1).
    destruct (IHl OKl s1 P1) as (s2 & (M2 & P2 & O2) & S2). rewrite M1 in M2, S2. rewrite O1 in O2.
    exists s2. rewrite select_cons, xent_cons, render_items_cons. cbn [fst].
    split; [repeat split; assumption|]. eapply seg_app; eassumption.
Qed.

(** * 5. The delivered entries against the reference evaluation *)

Lemma xproj_deliverx t : xproj (deliverx t) = deliver t.
Proof. unfold xproj, deliverx, deliver. change (sumlen [t]) with (rlen t + 0). rewrite N.add_0_r. reflexivity. Qed.

Lemma filter_pp_single c : filter not_pp (map xproj [ppx c]) = [].
Proof. reflexivity. Qed.

Lemma xent_selects : forall items, items_ok items = true -> forall ms,
  filter not_pp (map xproj (xent ms items)) = map deliver (snd (select ms items)).
Proof.
  apply (items_ind2
    (fun i => item_ok i = true -> forall ms,
       filter not_pp (map xproj (xent_item ms i)) = map deliver (snd (select_item ms i)))
    (fun l => items_ok l = true -> forall ms,
       filter not_pp (map xproj (xent ms l)) = map deliver (snd (select ms l)))).
  - intros t OK ms. cbn [xent_item select_item snd map]. rewrite xproj_deliverx. cbn [filter].
    apply plain_tok_spec in OK. destruct OK as (_ & _ & _ & _ & _ & _ & G & _).
    unfold not_pp, deliver, entry_kind. cbn [fst]. rewrite G. reflexivity.
  - intros h OK ms. reflexivity.
  - intros k h th el en IHth IHel OK ms.
    rewrite item_ok_cond in OK. apply andb_true_iff in OK. destruct OK as [OK EN].
    apply andb_true_iff in OK. destruct OK as [OK EL]. apply andb_true_iff in OK. destruct OK as [HD TH].
    rewrite select_item_cond, xent_item_cond.
    destruct (taken k ms (rtext (h_name h))).
    + destruct el as [[et els]|]; rewrite !map_app, !filter_app, !filter_pp_single, app_nil_r; cbn [app];
        apply IHth; exact TH.
    + destruct el as [[et els]|].
      * cbn [el_ok] in EL. apply andb_true_iff in EL. destruct EL as [ET ELS].
        rewrite !map_app, !filter_app, !filter_pp_single, app_nil_r. cbn [app]. apply (IHel ELS).
      * reflexivity.
  - intros _ ms. reflexivity.
  - intros i l IHi IHl OK ms. rewrite items_ok_cons in OK. apply andb_true_iff in OK. destruct OK as [OKi OKl].
    rewrite xent_cons, select_cons. cbn [snd]. rewrite map_app, filter_app, map_app, (IHi OKi), (IHl OKl). reflexivity.
Qed.

Lemma xent_covers_disabled : forall items ms t, In t (disabled ms items) ->
  exists c, In (ppx c) (xent ms items) /\ In t c.
Proof.
  intros items.
  apply (items_ind2
    (fun i => forall ms t, In t (disabled_item ms i) -> exists c, In (ppx c) (xent_item ms i) /\ In t c)
    (fun l => forall ms t, In t (disabled ms l) -> exists c, In (ppx c) (xent ms l) /\ In t c)).
  - intros t0 ms t H. contradiction.
  - intros h ms t H. contradiction.
  - intros k h th el en IHth IHel ms t H.
    rewrite disabled_item_cond in H. rewrite xent_item_cond.
    destruct (taken k ms (rtext (h_name h))).
    + apply in_app_or in H. destruct H as [H|H].
      * apply IHth in H. destruct H as (c & I1 & I2). exists c. split; [|exact I2].
        destruct el as [[et els]|]; apply in_or_app; right; apply in_or_app; left; exact I1.
      * destruct el as [[et els]|]; [|contradiction].
        exists (et :: render_items els ++ [en]). split.
        { apply in_or_app; right; apply in_or_app; right; left; reflexivity. }
        right. apply in_or_app. left. exact H.
    + apply in_app_or in H. destruct H as [H|H].
      * destruct el as [[et els]|].
        { exists (render_head h ++ render_items th ++ [et]). split; [left; reflexivity|].
          apply in_or_app; right; apply in_or_app; left; exact H. }
        { exists (render_head h ++ render_items th ++ [en]). split; [left; reflexivity|].
          apply in_or_app; right; apply in_or_app; left; exact H. }
      * destruct el as [[et els]|]; [|contradiction].
        apply IHel in H. destruct H as (c & I1 & I2). exists c. split; [|exact I2].
        apply in_or_app; right; apply in_or_app; left; exact I1.
  - intros ms t H. contradiction.
  - intros i l IHi IHl ms t H. rewrite disabled_cons in H. rewrite xent_cons.
    apply in_app_or in H. destruct H as [H|H].
    + apply IHi in H. destruct H as (c & I1 & I2). exists c. split; [apply in_or_app; left; exact I1|exact I2].
    + apply IHl in H. destruct H as (c & I1 & I2). exists c. split; [apply in_or_app; right; exact I1|exact I2].
Qed.

(** * The run over a whole well-nested arrangement *)

Definition eofx : xentry := (T_Eof, [], None).

Lemma run_items items : items_ok items = true ->
  exists stf, macros stf = fst (select [] items)
              /\ pruns pinit (render_items items) (xent [] items ++ [eofx]) stf.
Proof.
  intros OK. destruct (enabled_items items OK pinit eq_refl) as (st' & (M & P & O) & S).
  exists st'. split; [exact M|]. rewrite <- (app_nil_r (render_items items)). apply S.
  eapply pr_eof with (pre := []); [|reflexivity]. rewrite prep_next_nil, O. reflexivity.
Qed.

Lemma run_items_eq items : items_ok items = true ->
  prep_run (render_items items) = map xproj (xent [] items) ++ [eof_entry]
  /\ prep_runx (render_items items) = xent [] items ++ [eofx]
  /\ prep_run_macros (render_items items) = fst (select [] items).
Proof.
  intros OK. destruct (run_items items OK) as (stf & M & R).
  destruct (pruns_run _ _ _ R) as (A & B & C). rewrite A, B, C, M, map_app. auto.
Qed.

Lemma C15_selects_proof : forall items, items_ok items = true ->
  filter not_pp (prep_run (render_items items)) = map deliver (snd (select [] items)) ++ [eof_entry]
  /\ prep_run_macros (render_items items) = fst (select [] items).
Proof.
  intros items OK. destruct (run_items_eq items OK) as (A & _ & C). split; [|exact C].
  rewrite A, filter_app, (xent_selects items OK). reflexivity.
Qed.

Lemma filter_filter_imp {A} (p q : A -> bool) l :
  (forall x, q x = true -> p x = true) -> filter q (filter p l) = filter q l.
Proof.
  intros I. induction l as [|x l IH]; [reflexivity|]. cbn [filter].
  destruct (p x) eqn:Px.
  - cbn [filter]. rewrite IH. reflexivity.
  - destruct (q x) eqn:Qx; [rewrite (I _ Qx) in Px; discriminate|exact IH].
Qed.

Lemma filter_map_deliver l :
  filter not_trivia (map deliver l) = map deliver (filter (fun t => negb (is_trivia (rk t))) l).
Proof.
  induction l as [|t l IH]; [reflexivity|]. cbn [map filter].
  change (not_trivia (deliver t)) with (negb (is_trivia (rk t))).
  destruct (negb (is_trivia (rk t))); cbn [map]; rewrite IH; reflexivity.
Qed.

Lemma not_trivia_not_pp x : not_trivia x = true -> not_pp x = true.
Proof.
  unfold not_trivia, not_pp. destruct (tk_eqb (entry_kind x) T_PreProcessor) eqn:K; [|reflexivity].
  apply LexBasics.tk_eqb_eq in K. rewrite K. intros H. exact H.
Qed.

Lemma C15_selects_nontrivia_proof : forall items, items_ok items = true ->
  filter not_trivia (prep_run (render_items items))
  = map deliver (filter (fun t => negb (is_trivia (rk t))) (snd (select [] items))) ++ [eof_entry].
Proof.
  intros items OK. destruct (C15_selects_proof items OK) as [A _].
  rewrite <- (filter_filter_imp not_pp not_trivia _ not_trivia_not_pp), A, filter_app, filter_map_deliver.
  reflexivity.
Qed.

Lemma prep_text_run s : prep_text s = prep_run (raw_lex s).
Proof. unfold prep_text, prep_run. cbv zeta. reflexivity. Qed.

Lemma C15_selects_text_proof : forall s items, raw_lex s = render_items items -> items_ok items = true ->
  filter not_pp (prep_text s) = map deliver (snd (select [] items)) ++ [eof_entry].
Proof.
  intros s items E OK. rewrite prep_text_run, E.
  exact (proj1 (C15_selects_proof items OK)).
Qed.

Lemma C15_disabled_invisible_proof : forall items, items_ok items = true ->
  (forall x, In x (prep_run (render_items items)) ->
     entry_kind x = T_PreProcessor \/ x = eof_entry \/ exists t, In t (snd (select [] items)) /\ x = deliver t)
  /\ (forall x, In x (prep_run (render_items items)) -> entry_kind x = T_Error ->
        exists t, In t (snd (select [] items)) /\ rk t = T_Error /\ x = deliver t).
Proof.
  intros items OK. destruct (C15_selects_proof items OK) as [A _].
  assert (P1 : forall x, In x (prep_run (render_items items)) ->
     entry_kind x = T_PreProcessor \/ x = eof_entry \/ exists t, In t (snd (select [] items)) /\ x = deliver t).
  { intros x IN. destruct (not_pp x) eqn:NP.
    - right. assert (IN' : In x (filter not_pp (prep_run (render_items items)))) by (apply filter_In; auto).
      rewrite A in IN'. apply in_app_or in IN'. destruct IN' as [IN'|IN'].
      + right. apply in_map_iff in IN'. destruct IN' as (t & E & I). exists t. auto.
      + left. destruct IN' as [E|[]]. auto.
    - left. unfold not_pp in NP. apply negb_false_iff in NP. apply LexBasics.tk_eqb_eq in NP. exact NP. }
  split; [exact P1|].
  intros x IN K. destruct (P1 x IN) as [H|[H|(t & I & E)]].
  - rewrite H in K. discriminate.
  - subst x. discriminate.
  - exists t. subst x. auto.
Qed.

Lemma C15_disabled_covered_proof : forall items, items_ok items = true ->
  forall t, In t (disabled [] items) ->
  exists c e, In (T_PreProcessor, c, e) (prep_runx (render_items items)) /\ In t c.
Proof.
  intros items OK t IN. destruct (run_items_eq items OK) as (_ & B & _).
  destruct (xent_covers_disabled items [] t IN) as (c & I1 & I2).
  exists c, None. rewrite B. split; [apply in_or_app; left; exact I1|exact I2].
Qed.

(** * 6. Arrangements cut off by the end of the file *)

Definition opt_partial (P : partial -> Prop) (more : option partial) : Prop :=
  match more with Some q => P q | None => True end.

Section PartialInd.
  Variable P : partial -> Prop.
  Hypothesis HThen : forall k h body more, opt_partial P more -> P (PThen k h body more).
  Hypothesis HElse : forall k h th et body more, opt_partial P more -> P (PElse k h th et body more).
  Fixpoint partial_ind2 (p : partial) : P p :=
    match p with
    | PThen k h body more =>
        HThen k h body more
          (match more as m return opt_partial P m with Some q => partial_ind2 q | None => I end)
    | PElse k h th et body more =>
        HElse k h th et body more
          (match more as m return opt_partial P m with Some q => partial_ind2 q | None => I end)
    end.
End PartialInd.

Definition more_r (more : option partial) : list rtok :=
  match more with Some q => render_partial q | None => [] end.
Definition more_ok (more : option partial) : bool :=
  match more with Some q => partial_ok q | None => true end.
Definition more_sel (ms : list text) (more : option partial) : list rtok :=
  match more with Some q => select_partial ms q | None => [] end.

Lemma render_partial_then k h body more :
  render_partial (PThen k h body more) = render_head h ++ render_items body ++ more_r more.
Proof. reflexivity. Qed.
Lemma render_partial_else k h th et body more :
  render_partial (PElse k h th et body more)
  = render_head h ++ render_items th ++ et :: render_items body ++ more_r more.
Proof. reflexivity. Qed.
Lemma partial_ok_then k h body more :
  partial_ok (PThen k h body more) = head_ok (if_dir k) h && items_ok body && more_ok more.
Proof. reflexivity. Qed.
Lemma partial_ok_else k h th et body more :
  partial_ok (PElse k h th et body more)
  = head_ok (if_dir k) h && items_ok th && tk_eqb (rk et) T_Else && items_ok body && more_ok more.
Proof. reflexivity. Qed.
Lemma select_partial_then ms k h body more :
  select_partial ms (PThen k h body more) =
  if taken k ms (rtext (h_name h)) then snd (select ms body) ++ more_sel (fst (select ms body)) more else [].
Proof. cbn [select_partial]. destruct (select ms body). reflexivity. Qed.
Lemma select_partial_else ms k h th et body more :
  select_partial ms (PElse k h th et body more) =
  if taken k ms (rtext (h_name h)) then snd (select ms th)
  else snd (select ms body) ++ more_sel (fst (select ms body)) more.
Proof. cbn [select_partial]. destruct (select ms body). reflexivity. Qed.

(** the skipping loop runs over a cut-off arrangement to the end of the raw list *)
Lemma skip_partial : forall p, partial_ok p = true -> forall d, 1 <= d -> exists d', skips d (render_partial p) d'.
Proof.
  apply (partial_ind2 (fun p => partial_ok p = true -> forall d, 1 <= d -> exists d', skips d (render_partial p) d')).
  - intros k h body more IH OK d D. rewrite partial_ok_then in OK.
    apply andb_true_iff in OK. destruct OK as [OK MO]. apply andb_true_iff in OK. destruct OK as [HD BD].
    assert (T : exists d', skips (d + 1) (more_r more) d').
    { destruct more as [q|]; [apply (IH MO); lia|exists (d + 1); apply skips_nil]. }
    destruct T as [d' T]. exists d'. rewrite render_partial_then.
    eapply skips_app; [exact (skips_if_head _ _ _ HD)|].
    eapply skips_app; [apply (skip_items _ BD); lia|exact T].
  - intros k h th et body more IH OK d D. rewrite partial_ok_else in OK.
    apply andb_true_iff in OK. destruct OK as [OK MO]. apply andb_true_iff in OK. destruct OK as [OK BD].
    apply andb_true_iff in OK. destruct OK as [OK ET]. apply andb_true_iff in OK. destruct OK as [HD TH].
    assert (T : exists d', skips (d + 1) (more_r more) d').
    { destruct more as [q|]; [apply (IH MO); lia|exists (d + 1); apply skips_nil]. }
    destruct T as [d' T]. exists d'. rewrite render_partial_else.
    eapply skips_app; [exact (skips_if_head _ _ _ HD)|].
    eapply skips_app; [apply (skip_items _ TH); lia|].
    change (et :: render_items body ++ more_r more) with ([et] ++ render_items body ++ more_r more).
    eapply skips_app; [apply skips_else_deep; [exact ET|lia]|].
    eapply skips_app; [apply (skip_items _ BD); lia|exact T].
Qed.

Lemma skip_more more : more_ok more = true -> forall d, 1 <= d -> exists d', skips d (more_r more) d'.
Proof.
  intros OK d D. destruct more as [q|]; [exact (skip_partial q OK d D)|exists d; apply skips_nil].
Qed.

(** a run up to the end of the raw list *)
Definition to_end (st : pstate) (raw : list rtok) (ents : list xentry) (st' : pstate) : Prop :=
  forall out stf, pruns st' [] out stf -> pruns st raw (ents ++ out) stf.

Lemma seg_to_end st a e1 st1 b e2 st2 : seg st a e1 st1 -> to_end st1 b e2 st2 -> to_end st (a ++ b) (e1 ++ e2) st2.
Proof. intros HA HB out stf H. rewrite <- app_assoc. apply HA, HB, H. Qed.

Lemma to_end_nil st : to_end st [] [] st.
Proof. intros out stf H. exact H. Qed.

Lemma end_if_skip st k h body d' :
  head_ok (if_dir k) h = true -> taken k (macros st) (rtext (h_name h)) = false -> skips 1 body d' ->
  exists st1, ctl_is st1 (macros st) (perr st) (openc st + 1)
              /\ to_end st (render_head h ++ body) [ppx (render_head h ++ body)] st1.
Proof.
  intros H TK SK. destruct (prep_next_if_skip _ _ _ H TK) as (s3 & (M3 & P3 & O3) & HN).
  exists (notes s3 body). split.
  { unfold ctl_is. rewrite notes_macros, notes_perr, notes_openc. auto. }
  intros out stf P. destruct (HN body) as [len E]. rewrite (skips_end _ _ _ _ _ SK) in E.
  eapply pr_tok; [exact E|symmetry; apply app_nil_r|reflexivity|reflexivity|exact P].
Qed.

Lemma end_else_skip st et body d' :
  tk_eqb (rk et) T_Else = true -> skips 1 body d' ->
  exists st1, ctl_is st1 (macros st) (perr st) (openc st)
              /\ to_end st (et :: body) [ppx (et :: body)] st1.
Proof.
  intros ET SK. exists (notes (note_err st et) body). split.
  { unfold ctl_is. rewrite notes_macros, notes_perr, notes_openc, note_err_macros, note_err_perr, note_err_openc. auto. }
  intros out stf P.
  eapply pr_tok with (r1 := []); [|symmetry; apply app_nil_r|reflexivity|reflexivity|exact P].
  rewrite (prep_next_else _ _ _ ET). unfold process_else. rewrite (skips_end _ _ _ _ _ SK). reflexivity.
Qed.

Definition partial_stmt (p : partial) : Prop :=
  partial_ok p = true -> forall st, perr st = None ->
  exists ents st', perr st' = None /\ 0 < openc st' /\ to_end st (render_partial p) ents st'
    /\ filter not_pp (map xproj ents) = map deliver (select_partial (macros st) p).

Lemma more_tail more : opt_partial partial_stmt more -> more_ok more = true ->
  forall st, perr st = None -> 0 < openc st ->
  exists ents st', perr st' = None /\ 0 < openc st' /\ to_end st (more_r more) ents st'
    /\ filter not_pp (map xproj ents) = map deliver (more_sel (macros st) more).
Proof.
  intros IH OK st PE OC. destruct more as [q|].
  - exact (IH OK st PE).
  - exists [], st. repeat split; [exact PE|exact OC|apply to_end_nil].
Qed.

Lemma enabled_partial : forall p, partial_stmt p.
Proof.
  apply (partial_ind2 partial_stmt).
  - (* PThen *) intros k h body more IH OK st PE. rewrite partial_ok_then in OK.
    apply andb_true_iff in OK. destruct OK as [OK MO]. apply andb_true_iff in OK. destruct OK as [HD BD].
    rewrite render_partial_then, select_partial_then.
    destruct (taken k (macros st) (rtext (h_name h))) eqn:TK.
    + destruct (seg_if_taken _ _ _ HD TK) as (s3 & (M3 & P3 & O3) & S3). rewrite PE in P3.
      destruct (enabled_items body BD s3 P3) as (s4 & (M4 & P4 & O4) & S4). rewrite M3 in M4, S4. rewrite O3 in O4.
      destruct (more_tail more IH MO s4 P4 ltac:(lia)) as (entsq & st' & P' & O' & R' & F'). rewrite M4 in F'.
      exists ([ppx (render_head h)] ++ xent (macros st) body ++ entsq), st'.
      split; [exact P'|]. split; [exact O'|]. split.
      { eapply seg_to_end; [exact S3|]. eapply seg_to_end; [exact S4|exact R']. }
      rewrite !map_app, !filter_app, filter_pp_single, (xent_selects body BD), F'. reflexivity.
    + destruct (skip_more more MO 1 ltac:(lia)) as [d' SM].
      destruct (end_if_skip st k h (render_items body ++ more_r more) d' HD TK) as (s1 & (M1 & P1 & O1) & E1).
      { eapply skips_app; [apply (skip_items _ BD); lia|exact SM]. }
      exists [ppx (render_head h ++ render_items body ++ more_r more)], s1.
      split; [rewrite P1; exact PE|]. split; [lia|]. split; [exact E1|reflexivity].
  - (* PElse *) intros k h th et body more IH OK st PE. rewrite partial_ok_else in OK.
    apply andb_true_iff in OK. destruct OK as [OK MO]. apply andb_true_iff in OK. destruct OK as [OK BD].
    apply andb_true_iff in OK. destruct OK as [OK ET]. apply andb_true_iff in OK. destruct OK as [HD TH].
    rewrite render_partial_else, select_partial_else.
    destruct (taken k (macros st) (rtext (h_name h))) eqn:TK.
    + destruct (seg_if_taken _ _ _ HD TK) as (s3 & (M3 & P3 & O3) & S3). rewrite PE in P3.
      destruct (enabled_items th TH s3 P3) as (s4 & (M4 & P4 & O4) & S4). rewrite M3 in M4, S4. rewrite O3 in O4.
      destruct (skip_more more MO 1 ltac:(lia)) as [d' SM].
      destruct (end_else_skip s4 et (render_items body ++ more_r more) d' ET) as (s5 & (M5 & P5 & O5) & E5).
      { eapply skips_app; [apply (skip_items _ BD); lia|exact SM]. }
      exists ([ppx (render_head h)] ++ xent (macros st) th ++ [ppx (et :: render_items body ++ more_r more)]), s5.
      split; [rewrite P5; exact P4|]. split; [lia|]. split.
      { eapply seg_to_end; [exact S3|]. eapply seg_to_end; [exact S4|exact E5]. }
      rewrite !map_app, !filter_app, !filter_pp_single, (xent_selects th TH), app_nil_r. reflexivity.
    + destruct (seg_if_skip_else st k h (render_items th) et HD TK (skip_items _ TH 1 ltac:(lia)) ET)
        as (s3 & (M3 & P3 & O3) & S3). rewrite PE in P3.
      destruct (enabled_items body BD s3 P3) as (s4 & (M4 & P4 & O4) & S4). rewrite M3 in M4, S4. rewrite O3 in O4.
      destruct (more_tail more IH MO s4 P4 ltac:(lia)) as (entsq & st' & P' & O' & R' & F'). rewrite M4 in F'.
      exists ([ppx (render_head h ++ render_items th ++ [et])] ++ xent (macros st) body ++ entsq), st'.
      split; [exact P'|]. split; [exact O'|]. split.
      { replace (render_head h ++ render_items th ++ et :: render_items body ++ more_r more)
          with ((render_head h ++ render_items th ++ [et]) ++ render_items body ++ more_r more)
          by (rewrite <- !app_assoc; reflexivity).
        eapply seg_to_end; [exact S3|]. eapply seg_to_end; [exact S4|exact R']. }
      rewrite !map_app, !filter_app, filter_pp_single, (xent_selects body BD), F'. reflexivity.
Qed.

Definition unterminated_entry : TokenKind * N * option any_err := (T_Error, 0, Some (ErrPrep PEUnterminated)).

Lemma at_end st : perr st = None -> 0 < openc st ->
  exists stf, pruns st [] [(T_Error, [], Some (ErrPrep PEUnterminated)); eofx] stf.
Proof.
  intros PE OC. apply N.ltb_lt in OC. eexists.
  eapply pr_err with (pre := []); [rewrite prep_next_nil, OC; reflexivity|reflexivity|apply take_error_perr|].
  eapply pr_eof with (pre := []); [rewrite prep_next_nil; reflexivity|reflexivity].
Qed.

Lemma C15_unterminated_proof : forall items p, items_ok items = true -> partial_ok p = true ->
  filter not_pp (prep_run (render_items items ++ render_partial p))
  = map deliver (snd (select [] items) ++ select_partial (fst (select [] items)) p)
    ++ [(T_Error, 0, Some (ErrPrep PEUnterminated)); eof_entry].
Proof.
  intros items p OK POK.
  destruct (enabled_items items OK pinit eq_refl) as (s1 & (M1 & P1 & O1) & S1).
  destruct (enabled_partial p POK s1 P1) as (ents & s2 & P2 & O2 & E2 & F2). rewrite M1 in F2.
  destruct (at_end s2 P2 O2) as (stf & R).
  pose proof (S1 _ _ _ (E2 _ _ R)) as RUN.
  destruct (pruns_run _ _ _ RUN) as (A & _ & _).
  rewrite A, !map_app, !filter_app, (xent_selects items OK), F2, <- app_assoc. reflexivity.
Qed.

(** * 7. Directives without a macro name *)

Lemma nnt_missing gap rest st :
  forallb gap_tok gap = true ->
  match rest with [] => true | x :: _ => negb (tk_eqb (rk x) T_Id) && negb (is_trivia (rk x)) end = true ->
  exists n sk st2 r2, next_not_trivia st (gap ++ rest) 0 = (n, sk, st2, r2) /\ tk_eqb (rk n) T_Id = false.
Proof.
  intros G RC. destruct rest as [|x r].
  - rewrite app_nil_r, (nnt_gap_end _ G). do 4 eexists. split; reflexivity.
  - apply andb_true_iff in RC. destruct RC as [NI NT]. apply negb_true_iff in NI, NT.
    rewrite (nnt_gap _ G _ _ _ _ NT). do 4 eexists. split; [reflexivity|exact NI].
Qed.

Lemma missing_step st dir gap rest : missing_name dir gap rest = true ->
  exists len st1 r1, prep_next st (dir :: gap ++ rest) = (T_Error, len, set_perr st1 (missing_name_err dir), r1).
Proof.
  unfold missing_name. intros H. apply andb_true_iff in H. destruct H as [H RC].
  apply andb_true_iff in H. destruct H as [D G].
  destruct (nnt_missing gap rest (note_err st dir) G RC) as (n & sk & st2 & r2 & E & NI).
  unfold missing_name_err.
  apply orb_true_iff in D. destruct D as [D|D]; [apply orb_true_iff in D; destruct D as [D|D]|].
  - rewrite (prep_next_if IfDef _ _ _ D), D. unfold process_if. rewrite E. cbv beta iota zeta. rewrite NI.
    do 3 eexists. reflexivity.
  - rewrite (prep_next_if IfNdef _ _ _ D), D. apply LexBasics.tk_eqb_eq in D. rewrite D.
    unfold process_if. rewrite E. cbv beta iota zeta. rewrite NI. do 3 eexists. reflexivity.
  - rewrite (prep_next_define _ _ _ D). apply LexBasics.tk_eqb_eq in D. rewrite D.
    unfold process_define. rewrite E. cbv beta iota zeta. rewrite NI. do 3 eexists. reflexivity.
Qed.

Lemma C15_missing_name_proof : forall items dir gap rest, items_ok items = true -> missing_name dir gap rest = true ->
  exists pre len post,
    prep_run (render_items items ++ dir :: gap ++ rest)
    = pre ++ (T_Error, len, Some (ErrPrep (missing_name_err dir))) :: post
    /\ filter not_pp pre = map deliver (snd (select [] items)).
Proof.
  intros items dir gap rest OK MN.
  destruct (enabled_items items OK pinit eq_refl) as (s1 & (M1 & P1 & O1) & S1).
  destruct (missing_step s1 dir gap rest MN) as (len & st1 & r1 & HN).
  destruct (prep_next_span_sumlen _ _ _ _ _ _ HN) as (pre & E & _).
  destruct (pruns_total {| macros := macros st1; perr := None; lerr := lerr st1; openc := openc st1 |} r1)
    as (l & stf & R).
  assert (RUN : pruns s1 (dir :: gap ++ rest) ((T_Error, pre, Some (ErrPrep (missing_name_err dir))) :: l) stf).
  { eapply pr_err; [exact HN|exact E|apply take_error_perr|exact R]. }
  apply S1 in RUN. destruct (pruns_run _ _ _ RUN) as (A & _ & _).
  exists (map xproj (xent [] items)), (sumlen pre), (map xproj l).
  split; [rewrite A, map_app; reflexivity|exact (xent_selects items OK [])].
Qed.

(** * 8. Concrete arrangements (non-vacuity of the hypotheses; used by the Examples of props/C15.v) *)

Definition mk (k : TokenKind) (txt : text) : rtok := {| rk := k; rerr := None; rtext := txt |}.
Definition mkerr (e : lex_err) (txt : text) : rtok := {| rk := T_Error; rerr := Some e; rtext := txt |}.

Definition ex_ws : rtok := mk T_Whitespace [32].
Definition ex_nl : rtok := mk T_Whitespace [10].
Definition ex_cmt : rtok := mk T_BlockComment [47; 42; 42; 47].                    (* /**/ *)
Definition ex_ifdef : rtok := mk T_Ifdef [35; 105; 102; 100; 101; 102].            (* #ifdef *)
Definition ex_ifndef : rtok := mk T_Ifndef [35; 105; 102; 110; 100; 101; 102].     (* #ifndef *)
Definition ex_else : rtok := mk T_Else [35; 101; 108; 115; 101].                   (* #else *)
Definition ex_endif : rtok := mk T_Endif [35; 101; 110; 100; 105; 102].            (* #endif *)
Definition ex_define : rtok := mk T_Define [35; 100; 101; 102; 105; 110; 101].     (* #define *)
Definition ex_id (c : N) : rtok := mk T_Id [c].
Definition ex_hd (dir : rtok) (name : N) : head := mkhead dir [ex_ws; ex_cmt] (ex_id name).

(** #define A
    #ifdef A                       -- taken (depth 1)
      x1
      #ifdef B                     -- not taken (depth 2)
        #define C                  -- disabled: must NOT define C
        `                          -- raw Error token in a disabled branch
        #ifdef A  y  #else  z  #endif      -- depth 3, all disabled
      #else                        -- #else at depth 2 inside an enabled branch
        22
        #ifndef C  xyz  #endif     -- depth 3, taken because C is not defined
      #endif
    #else                          -- else-branch of a taken conditional: disabled
      #ifdef A  w1  #else  w2  #endif      -- #else at depth 2 inside a disabled branch
      #define D                    -- disabled: must NOT define D
    #endif
    #ifdef D  v  #endif            -- not taken
    ;  ..                          -- the second one a raw Error token in enabled text *)
Definition ex_bad : rtok := mkerr EUnexpectedChar [96].
Definition ex_nested : list item :=
  [ IDefine (ex_hd ex_define 65);
    ITok ex_nl;
    ICond IfDef (ex_hd ex_ifdef 65)
      [ ITok (mk T_Id [120; 49]);
        ICond IfDef (ex_hd ex_ifdef 66)
          [ IDefine (ex_hd ex_define 67);
            ITok ex_bad;
            ICond IfDef (ex_hd ex_ifdef 65) [ITok (ex_id 121)] (Some (ex_else, [ITok (ex_id 122)])) ex_endif ]
          (Some (ex_else,
            [ ITok (mk T_IntVal [50; 50]);
              ICond IfNdef (ex_hd ex_ifndef 67) [ITok (mk T_Id [120; 121; 122])] None ex_endif ]))
          ex_endif ]
      (Some (ex_else,
        [ ICond IfDef (ex_hd ex_ifdef 65) [ITok (mk T_Id [119; 49])] (Some (ex_else, [ITok (mk T_Id [119; 50])])) ex_endif;
          IDefine (ex_hd ex_define 68) ]))
      ex_endif;
    ICond IfDef (ex_hd ex_ifdef 68) [ITok (ex_id 118)] None ex_endif;
    ITok (mk T_Semi [59]);
    ITok (mkerr EInvalidDotDot [46; 46]) ].

(** #ifdef U  q  #ifdef A  r  <EOF>      -- U undefined: everything is disabled *)
Definition ex_partial_disabled : partial :=
  PThen IfDef (ex_hd ex_ifdef 85) [ITok (ex_id 113)]
    (Some (PThen IfDef (ex_hd ex_ifdef 65) [ITok (ex_id 114)] None)).

(** #ifdef U  a ` #else  b  #ifndef V  c  <EOF>     -- else-branch and the deeper conditional enabled *)
Definition ex_partial_enabled : partial :=
  PElse IfDef (ex_hd ex_ifdef 85) [ITok (ex_id 97); ITok ex_bad] ex_else [ITok (ex_id 98)]
    (Some (PThen IfNdef (ex_hd ex_ifndef 86) [ITok (ex_id 99)] None)).
