(** C03, indexer part: types, values, class references, parent lists, template arguments, body items never reach a
    modelled panic; the fuel [size of the syntax] suffices.  (Statements and files: IndexerTotal.v.) *)
From Coq Require Import List NArith Bool Lia PeanoNat.
From TG.Model Require Import CoreAst Scope BangOps Indexer.
From TG.Proofs Require Import IndexerTotalBase.
Import ListNotations.
Open Scope N_scope.

(** * Sizes *)
Lemma sum_fix_eq {A} (f : A -> nat) : forall l,
  (fix go (l : list A) : nat := match l with [] => 0%nat | x :: r => (f x + go r)%nat end) l = sum_sizes f l.
Proof. induction l as [|x r IH]; [reflexivity|]. cbn [sum_sizes fold_right]. rewrite IH. reflexivity. Qed.

Lemma value_size_eq r inners : value_size (Val r inners) = S (sum_sizes inner_size inners).
Proof. cbn [value_size]. rewrite sum_fix_eq. reflexivity. Qed.
Lemma inner_size_eq s sufs : inner_size (Inner s sufs) = S (simple_size s).
Proof. reflexivity. Qed.
Definition vsum (vs : list value) : nat := sum_sizes value_size vs.
Lemma simple_size_vals s vs : s = SBits vs \/ s = SList vs \/ s = SDag vs \/ s = SCond vs -> simple_size s = S (vsum vs).
Proof. intros H. destruct H as [H|[H|[H|H]]]; subst s; cbn [simple_size]; rewrite sum_fix_eq; reflexivity. Qed.
Lemma simple_size_bang op an vs r : simple_size (SBang op an vs r) = S (S (S (vsum vs))).
Proof. cbn [simple_size]. rewrite sum_fix_eq. reflexivity. Qed.
Lemma simple_size_cv i a r : simple_size (SClassVal i a r) = S (sum_sizes arg_size a).
Proof. cbn [simple_size]. rewrite sum_fix_eq. reflexivity. Qed.

Lemma in_sum {A} (f : A -> nat) l y : In y l -> (f y <= sum_sizes f l)%nat.
Proof.
  induction l as [|x r IH]; [contradiction|]. cbn [sum_sizes fold_right]. intros [->|H]; [lia|].
  specialize (IH H). unfold sum_sizes in IH. lia.
Qed.
Lemma sum_cons {A} (f : A -> nat) x l : sum_sizes f (x :: l) = (f x + sum_sizes f l)%nat.
Proof. reflexivity. Qed.

(** * Automation *)
Lemma tot_bind_lift_some A B (x : A) (f : A -> M B) P Q : tot P (f x) Q -> tot P (bind (lift (Some x)) f) Q.
Proof. intros T s G p. exact (T s G p). Qed.
Lemma tot_bind_lift_none A B (f : A -> M B) P (Q : B -> st -> Prop) : tot P (bind (lift None) f) Q.
Proof. intros s G p. cbn. split; [exact G|split; [apply Step_refl|intros y E; discriminate]]. Qed.

Ltac stb :=
  repeat first [ assumption | apply stable_top | apply stable_and | apply stable_const | apply stable_anyv
               | apply stable_kinds_eq | apply stable_lt_nrec | apply stable_lt_nmc | apply stable_kinds ].

Ltac tprim :=
  first [ apply tot_ret_any | apply tot_none | apply tot_lift | apply tot_get_any | apply tot_here | apply tot_state
        | apply tot_error | apply tot_add_reference | apply tot_add_leaf | apply tot_add_leaf_nopos
        | apply tot_add_defset | apply tot_add_record | apply tot_add_anonymous_def | apply tot_add_multiclass
        | apply tot_next_anonymous | apply tot_scopes_add_variable
        | (apply tot_err; [stb]) | (apply tot_emit; [stb]) | (apply tot_leaf_of; [stb]) ].

Ltac tt :=
  repeat first
    [ tprim
    | eassumption
    | match goal with
      | |- tot _ (bind (lift (Some _)) _) _ => apply tot_bind_lift_some
      | |- tot _ (bind (lift None) _) _ => apply tot_bind_lift_none
      | |- tot _ (bind (lift ?o) _) _ => let E := fresh "E" in destruct o eqn:E
      end
    | (eapply tot_bind_any; [stb| |intros ?])
    | (eapply tot_seq; [stb| |])
    | eapply tot_try
    | match goal with
      | |- tot _ (match ?x with _ => _ end) _ => destruct x
      | |- tot _ (if ?x then _ else _) _ => destruct x
      | |- tot _ (let '(_, _) := ?x in _) _ => destruct x
      end ].

Section Values.
Variable P : st -> Prop.
Hypothesis SP : stable P.

Lemma t_index_ty : forall t, tot P (index_ty t) anyv.
Proof. induction t; cbn [index_ty]; tt. Qed.

Lemma t_index_annot op an r : tot P (index_annot op an r) anyv.
Proof. unfold index_annot. tt; apply t_index_ty. Qed.
Lemma t_check_arity op vs r : tot P (check_arity op vs r) anyv.
Proof. unfold check_arity. tt. Qed.

Lemma t_sufs_loop : forall (l : list suffix) t,
  tot P ((fix sufs_loop (t : mty) (l : list suffix) : M mty :=
           match l with
           | [] => ret t
           | sf :: r =>
             bind match sf with
                   | SufRange => lift (match t with MBits _ => Some MBit | _ => None end)
                   | SufSlice single => if single then lift (element_typ t) else ret t
                   | SufField i fr =>
                     bind (here (i_rng i)) (fun loc =>
                     bind state (fun s =>
                     match ty_find_field s t (i_name i) with
                     | None => match t with MUnknown => none | _ => seq (err fr DCannotAccessField) none end
                     | Some f => seq (add_reference (SyLeaf f) loc) (bind (leaf_of f) (fun lf => ret (lf_ty lf)))
                     end))
                   end (fun t' => sufs_loop t' r)
           end) t l) anyv.
Proof.
  induction l as [|sf r IH]; intros t; [apply tot_ret_any|].
  eapply tot_bind_any; [stb| |intros t'; apply IH]. instantiate (1 := anyv). destruct sf; tt.
Qed.

Definition bind_var (i : ident) (t : mty) : M unit :=
  bind (here (i_rng i)) (fun loc => scopes_add_variable (mkLeaf LVar (i_name i) t false loc)).
Lemma t_bind_var i t : tot P (bind_var i t) anyv.
Proof. unfold bind_var. tt. Qed.
End Values.

(** the body of a scoped operator runs under [top]: nothing of the enclosing precondition is needed inside *)
Lemma t_scoped_top A k (body : M A) (P : st -> Prop) Q :
  (match k with KRecord _ | KMulticlass _ => False | _ => True end) -> tot top body Q -> tot P (scoped k body) anyv.
Proof.
  intros HK TB. eapply tot_scoped with (P' := top); [|intros; exact I|exact TB].
  intros s _ _. destruct k; try contradiction; exact I.
Qed.

Definition values_tot (n : nat) : Prop :=
  (forall v, (value_size v <= n)%nat -> forall P, stable P -> tot P (index_value n v) anyv) /\
  (forall x, (inner_size x <= n)%nat -> forall P, stable P -> tot P (index_inner n x) anyv) /\
  (forall sv, (simple_size sv <= n)%nat -> forall P, stable P -> tot P (index_simple n sv) anyv) /\
  (forall a, (arg_size a <= n)%nat -> forall P, stable P -> tot P (index_arg n a) anyv) /\
  (forall op an vs r, (2 + vsum vs <= n)%nat -> forall P, stable P -> tot P (index_bang n op an vs r) anyv) /\
  (forall op a vs r, (1 + vsum vs <= n)%nat -> forall P, stable P -> tot P (index_bang_ops n op a vs r) anyv).

Lemma value_size_pos v : (1 <= value_size v)%nat.
Proof. destruct v. rewrite value_size_eq. lia. Qed.
Lemma simple_size_pos s : (1 <= simple_size s)%nat.
Proof. destruct s; cbn [simple_size]; lia. Qed.
Lemma arg_size_pos a : (1 <= arg_size a)%nat.
Proof. destruct a; cbn [arg_size]; lia. Qed.

Lemma nth_error_vsum vs k v : nth_error vs k = Some v -> (value_size v <= vsum vs)%nat.
Proof. intros H. apply in_sum. eapply nth_error_In. exact H. Qed.

Ltac renth :=
  repeat match goal with
         | H : match ?vs with _ => _ end = Some ?v |- _ =>
             first [ change (nth_error vs 0 = Some v) in H | change (nth_error vs 1 = Some v) in H
                   | change (nth_error vs 2 = Some v) in H | change (nth_error vs 3 = Some v) in H
                   | change (nth_error vs 4 = Some v) in H ]
         end.
Ltac sz :=
  renth;
  repeat match goal with
         | H : In ?x ?l |- _ =>
             first [ pose proof (in_sum value_size l x H) | pose proof (in_sum inner_size l x H)
                   | pose proof (in_sum arg_size l x H) ]; clear H
         | H : nth_error ?vs _ = Some ?v |- _ => pose proof (nth_error_vsum _ _ _ H); clear H
         end;
  unfold vsum in *; rewrite ?sum_cons in *; lia.

(** apply the induction hypotheses of [values_tot] (found by their shape) *)
Ltac useIH :=
  match goal with
  | H : forall v, (value_size v <= ?n)%nat -> _ |- tot _ (index_value ?n _) _ => apply H; [sz|stb]
  | H : forall x, (inner_size x <= ?n)%nat -> _ |- tot _ (index_inner ?n _) _ => apply H; [sz|stb]
  | H : forall sv, (simple_size sv <= ?n)%nat -> _ |- tot _ (index_simple ?n _) _ => apply H; [sz|stb]
  | H : forall a, (arg_size a <= ?n)%nat -> _ |- tot _ (index_arg ?n _) _ => apply H; [sz|stb]
  | H : forall op an vs r, (2 + vsum vs <= ?n)%nat -> _ |- tot _ (index_bang ?n _ _ _ _) _ => apply H; [sz|stb]
  | H : forall op a vs r, (1 + vsum vs <= ?n)%nat -> _ |- tot _ (index_bang_ops ?n _ _ _ _) _ => apply H; [sz|stb]
  end.

Ltac tv :=
  repeat first
    [ tprim
    | useIH
    | (apply t_index_ty; stb) | (apply t_index_annot; stb) | (apply t_check_arity; stb) | (apply t_sufs_loop; stb)
    | (apply tot_iterM; [stb|intros ? ?])
    | (apply tot_mapM_opt; [stb|intros ? ?])
    | (eapply t_scoped_top; [exact I|])
    | match goal with
      | |- tot _ (bind (lift (Some _)) _) _ => apply tot_bind_lift_some
      | |- tot _ (bind (lift None) _) _ => apply tot_bind_lift_none
      | |- tot _ (bind (lift ?o) _) _ => let E := fresh "E" in destruct o eqn:E
      end
    | (eapply tot_bind_any; [stb| |intros ?])
    | (eapply tot_seq; [stb| |])
    | eapply tot_try
    | match goal with
      | |- tot _ (match ?x with _ => _ end) _ => destruct x
      | |- tot _ (if ?x then _ else _) _ => destruct x
      | |- tot _ (let '(_, _) := ?x in _) _ => destruct x
      end ].

Lemma values_tot_all : forall n, values_tot n.
Proof.
  induction n as [|n (IHv & IHi & IHs & IHa & IHb & IHo)].
  - split; [|split; [|split; [|split; [|split]]]].
    + intros v H. pose proof (value_size_pos v). lia.
    + intros [s sufs] H. rewrite inner_size_eq in H. lia.
    + intros sv H. pose proof (simple_size_pos sv). lia.
    + intros a H. pose proof (arg_size_pos a). lia.
    + intros op an vs r H. lia.
    + intros op a vs r H. lia.
  - split; [|split; [|split; [|split; [|split]]]].
    + (* value *)
      intros [r [|first rest]] Hs P SP; simpl; [apply tot_none|]. rewrite value_size_eq, sum_cons in Hs.
      eapply tot_bind_any; [stb|eapply tot_try; apply IHi; [lia|stb]|intros t1].
      eapply tot_seq; [stb|apply tot_iterM; [stb|intros x Hx; apply IHi; [pose proof (in_sum inner_size rest x Hx); lia|stb]]|].
      destruct rest; tt.
    + (* inner *)
      intros [sv sufs] Hs P SP; simpl. rewrite inner_size_eq in Hs.
      eapply tot_bind_any; [stb|apply IHs; [lia|stb]|intros t0; apply t_sufs_loop; stb].
    + (* simple *)
      intros sv Hs P SP. destruct sv; simpl;
        try (rewrite (simple_size_vals _ vs) in Hs by tauto);
        try rewrite simple_size_bang in Hs; try rewrite simple_size_cv in Hs; tv.
    + (* arg *)
      intros a Hs P SP. destruct a; simpl; cbn [arg_size] in Hs; tv.
    + (* bang *)
      intros op an vs r Hs P SP. simpl. tv.
    + (* bang_ops *)
      intros op a vs r Hs P SP. destruct op; simpl; tv.
  Unshelve. all: try exact anyv.
Qed.

Section ValuesUse.
Variable P : st -> Prop.
Hypothesis SP : stable P.
Lemma t_index_value n v : (value_size v <= n)%nat -> tot P (index_value n v) anyv.
Proof. intros H. apply (values_tot_all n); assumption. Qed.
Lemma t_index_arg n a : (arg_size a <= n)%nat -> tot P (index_arg n a) anyv.
Proof. intros H. apply (values_tot_all n); assumption. Qed.
Lemma t_index_args n l : (sum_sizes arg_size l <= n)%nat -> tot P (index_args n l) anyv.
Proof.
  intros H. unfold index_args. apply tot_mapM_opt; [exact SP|]. intros a Ha. apply t_index_arg.
  pose proof (in_sum arg_size l a Ha). lia.
Qed.
Lemma t_values n vs : (vsum vs <= n)%nat -> tot P (iterM (index_value n) vs) anyv.
Proof.
  intros H. apply tot_iterM; [exact SP|]. intros v Hv. apply t_index_value. pose proof (in_sum value_size vs v Hv). unfold vsum in H. lia.
Qed.
End ValuesUse.
