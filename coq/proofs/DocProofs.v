(** C19 (doc comments): the hand-written `prev_token` walk of hover.rs returns the previous token of the file for
    ALL trees (it steps over empty nodes), and `extract_doc_comments` computes the adjacency rule [doc_spec] on the
    flat token sequence. *)
From Coq Require Import List NArith Bool Lia Arith.
From TG.Gen Require Import GenTokens.
From TG.Model Require Import Chars Tree TreeNav DocComments.
From TG.Proofs Require Import TreeNavProofs.
Import ListNotations.
Open Scope N_scope.

(** ---- forests that flatten to the same leaf sequence ---- *)
Definition fequiv (F1 F2 : list tree) : Prop :=
  forest_len F1 = forest_len F2 /\ forall o, leaves_forest o F1 = leaves_forest o F2.

Lemma leaves_forest_app : forall a b o,
  leaves_forest o (a ++ b) = leaves_forest o a ++ leaves_forest (o + forest_len a) b.
Proof.
  induction a as [|c r IH]; intros b o.
  - cbn [app leaves_forest]. unfold forest_len. cbn [fold_right]. now rewrite N.add_0_r.
  - cbn [app leaves_forest]. rewrite IH, forest_len_cons, <- app_assoc. do 2 f_equal. f_equal. lia.
Qed.

Lemma fequiv_refl : forall F, fequiv F F.
Proof. intros F. split; auto. Qed.

Lemma fequiv_sym : forall F G, fequiv F G -> fequiv G F.
Proof. intros F G [H1 H2]. split; [auto|]. intros o. now rewrite H2. Qed.

Lemma fequiv_trans : forall F G H, fequiv F G -> fequiv G H -> fequiv F H.
Proof. intros F G H [A1 A2] [B1 B2]. split; [congruence|]. intros o. now rewrite A2, B2. Qed.

Lemma fequiv_app : forall F F' G G', fequiv F F' -> fequiv G G' -> fequiv (F ++ G) (F' ++ G').
Proof.
  intros F F' G G' [A1 A2] [B1 B2]. split.
  - rewrite !forest_len_app. congruence.
  - intros o. rewrite !leaves_forest_app, A1, A2, B2. reflexivity.
Qed.

Lemma fequiv_node : forall k cs, fequiv [Node k cs] cs.
Proof.
  intros k cs. split.
  - rewrite forest_len_cons, tree_len_node. unfold forest_len at 2. cbn [fold_right]. lia.
  - intros o. cbn [leaves_forest]. rewrite leaves_from_node. apply app_nil_r.
Qed.

(** ---- descend_last ---- *)
Definition leafish (t : tree) : Prop := match t with Tok _ _ => True | Node _ cs => cs = [] end.

Lemma descend_last_spec : forall s ctx,
  fequiv (before_ctx (snd (descend_last s ctx)) ++ [fst (descend_last s ctx)]) (before_ctx ctx ++ [s]) /\
  leafish (fst (descend_last s ctx)).
Proof.
  induction s as [k txt|k cs IH] using tree_ind'; intros ctx.
  - cbn [descend_last fst snd]. split; [apply fequiv_refl|exact I].
  - cbn [descend_last].
    set (go := fix go (left_rev l : list tree) {struct l} : cursor :=
           match l with
           | [] => (Node k cs, ctx)
           | [c] => descend_last c (mkFrame k left_rev [] :: ctx)
           | c :: (_ :: _) as r => go (c :: left_rev) r
           end).
    destruct cs as [|c0 r0].
    + cbn [fst snd]. split; [apply fequiv_refl|reflexivity].
    + assert (forall l, Forall (fun s => forall ctx,
                fequiv (before_ctx (snd (descend_last s ctx)) ++ [fst (descend_last s ctx)]) (before_ctx ctx ++ [s]) /\
                leafish (fst (descend_last s ctx))) l ->
              l <> [] -> forall left_rev,
              fequiv (before_ctx (snd (go left_rev l)) ++ [fst (go left_rev l)]) (before_ctx ctx ++ rev left_rev ++ l) /\
              leafish (fst (go left_rev l))) as Hgo.
      { intros l Hl. induction Hl as [|c r Hc Hr IHr]; intros Hne left_rev; [congruence|].
        destruct r as [|c2 r'].
        - cbn [go]. destruct (Hc (mkFrame k left_rev [] :: ctx)) as [E Lf]. split; [|exact Lf].
          cbn [before_ctx fr_left] in E. now rewrite <- app_assoc in E.
        - change (go left_rev (c :: c2 :: r')) with (go (c :: left_rev) (c2 :: r')).
          destruct (IHr ltac:(discriminate) (c :: left_rev)) as [E Lf]. split; [|exact Lf].
          cbn [rev] in E. rewrite <- app_assoc in E. exact E. }
      destruct (Hgo (c0 :: r0) IH ltac:(discriminate) []) as [E Lf]. split; [|exact Lf].
      cbn [rev app] in E. eapply fequiv_trans; [exact E|].
      apply fequiv_app; [apply fequiv_refl|apply fequiv_sym, fequiv_node].
Qed.

(** ---- one step of the walk ---- *)
Lemma prev_sibling_before : forall c p, prev_sibling_or_token c = Some p ->
  before_ctx (snd c) = before_ctx (snd p) ++ [fst p].
Proof.
  intros [t ctx] p H. unfold prev_sibling_or_token in H. cbn [snd fst] in *.
  destruct ctx as [|f outer]; [discriminate|]. destruct (fr_left f) as [|l ls] eqn:E; [discriminate|].
  injection H as <-. cbn [snd fst before_ctx fr_left]. rewrite E. cbn [rev]. now rewrite app_assoc.
Qed.

Lemma parent_before : forall c q, prev_sibling_or_token c = None -> parent c = Some q ->
  before_ctx (snd q) = before_ctx (snd c) /\ is_node (fst q) = true.
Proof.
  intros [t ctx] q Hs Hp. unfold prev_sibling_or_token, parent in *. cbn [snd fst] in *.
  destruct ctx as [|f outer]; [discriminate|]. injection Hp as <-.
  destruct (fr_left f) as [|l ls] eqn:E; [|discriminate].
  cbn [snd fst before_ctx]. rewrite E. cbn [rev]. now rewrite app_nil_r.
Qed.

Lemma no_parent_before : forall c, parent c = None -> before_ctx (snd c) = [].
Proof. intros [t ctx] H. unfold parent in H. cbn [snd] in *. destruct ctx; [reflexivity|discriminate]. Qed.

Lemma leaves_before_tok : forall e k txt F, fst e = Tok k txt ->
  fequiv (before_ctx (snd e) ++ [fst e]) F ->
  exists l, cur_leaf e = Some l /\ leaves_forest 0 F = leaves_before e ++ [l].
Proof.
  intros e k txt F Hk [_ H]. unfold cur_leaf, leaves_before, cur_offset. rewrite Hk in *.
  eexists. split; [reflexivity|]. rewrite <- H, leaves_forest_app. cbn [leaves_forest].
  rewrite leaves_from_tok, N.add_0_l. now rewrite app_nil_r.
Qed.

Lemma leaves_before_empty_node : forall e k F, fst e = Node k [] ->
  fequiv (before_ctx (snd e) ++ [fst e]) F -> leaves_forest 0 F = leaves_before e.
Proof.
  intros e k F Hk [_ H]. unfold leaves_before. rewrite <- H, Hk, leaves_forest_app. cbn [leaves_forest].
  rewrite leaves_from_node. cbn [leaves_forest]. now rewrite !app_nil_r.
Qed.

(** ---- the walk returns the previous token of the file ---- *)
Theorem prev_token_sound : forall fuel c,
  match prev_token fuel c with
  | WFound e => exists l, cur_leaf e = Some l /\ leaves_before c = leaves_before e ++ [l]
  | WNone => leaves_before c = []
  | WOutOfFuel => True
  end.
Proof.
  induction fuel as [|f IH]; intros c; [exact I|].
  cbn [prev_token].
  destruct (prev_sibling_or_token c) as [p|] eqn:Hs.
  - pose proof (prev_sibling_before _ _ Hs) as Hb.
    destruct (descend_last_spec (fst p) (snd p)) as [E Lf].
    set (e := descend_last (fst p) (snd p)) in *.
    rewrite <- Hb in E.
    destruct (fst e) as [k cs|k txt] eqn:Hk.
    + cbn in Lf. subst cs. rewrite <- Hk in E.
      pose proof (leaves_before_empty_node e k _ Hk E) as Hl. fold (leaves_before c) in Hl.
      specialize (IH e). destruct (prev_token f e) as [e'| |]; [|congruence|exact I].
      destruct IH as (l & H1 & H2). exists l. split; [exact H1|congruence].
    + rewrite <- Hk in E. destruct (leaves_before_tok e k txt _ Hk E) as (l & H1 & H2). exists l. split; [exact H1|exact H2].
  - destruct (parent c) as [q|] eqn:Hp.
    + destruct (parent_before _ _ Hs Hp) as [Hb Hn].
      destruct (fst q) as [k cs|k txt] eqn:Hk; [|discriminate].
      specialize (IH q). unfold leaves_before in *. rewrite Hb in IH. exact IH.
    + unfold leaves_before. now rewrite (no_parent_before _ Hp).
Qed.

Corollary prev_token_found : forall fuel c e, prev_token fuel c = WFound e ->
  exists l, cur_leaf e = Some l /\ leaves_before c = leaves_before e ++ [l].
Proof. intros fuel c e H. pose proof (prev_token_sound fuel c) as S. now rewrite H in S. Qed.

Corollary prev_token_none : forall fuel c, prev_token fuel c = WNone -> leaves_before c = [].
Proof. intros fuel c H. pose proof (prev_token_sound fuel c) as S. now rewrite H in S. Qed.

(** ---- the loop computes the adjacency rule on the flat leaf list ---- *)
Lemma doc_lines_rev_stop1 : forall l1 rest, is_ws_one_newline l1 = false -> doc_lines_rev (l1 :: rest) = [].
Proof. intros l1 [|l2 rest] H; cbn [doc_lines_rev]; [reflexivity|]. now rewrite H. Qed.

Lemma doc_loop_sound : forall fuel wfuel cur acc lines,
  doc_loop fuel wfuel cur acc = Some lines ->
  lines = rev (doc_lines_rev (rev (leaves_before cur))) ++ acc.
Proof.
  induction fuel as [|f IH]; intros wfuel cur acc lines H; [discriminate|].
  cbn [doc_loop] in H.
  destruct (prev_token wfuel cur) as [c1| |] eqn:W1; [| |discriminate].
  2:{ injection H as <-. now rewrite (prev_token_none _ _ W1). }
  destruct (prev_token_found _ _ _ W1) as (l1 & Hl1 & B1). rewrite Hl1 in H.
  rewrite B1, rev_app_distr. cbn [rev app].
  destruct (is_ws_one_newline l1) eqn:Hws; cbn [negb] in H.
  2:{ injection H as <-. now rewrite doc_lines_rev_stop1. }
  destruct (prev_token wfuel c1) as [c2| |] eqn:W2; [| |discriminate].
  2:{ injection H as <-. now rewrite (prev_token_none _ _ W2). }
  destruct (prev_token_found _ _ _ W2) as (l2 & Hl2 & B2). rewrite Hl2 in H.
  rewrite B2, rev_app_distr. cbn [rev app doc_lines_rev]. rewrite Hws. cbn [andb]. unfold is_doc_comment.
  destruct (sk_eqb (lf_kind l2) S_LineComment) eqn:Hk; cbn [negb andb] in *.
  2:{ injection H as <-. reflexivity. }
  destruct (starts_with_slashes (lf_text l2)) eqn:Hsl; cbn [negb] in *.
  2:{ injection H as <-. reflexivity. }
  apply IH in H. rewrite H. cbn [rev]. now rewrite <- app_assoc.
Qed.

Theorem extract_doc_sound : forall fuel wfuel root lo hi,
  extract_doc_comments_fuel fuel wfuel root lo hi <> DocOutOfFuel ->
  extract_doc_comments_fuel fuel wfuel root lo hi =
    match decl_first_token root lo hi with
    | Some d => doc_spec (leaves_before d)
    | None => DocNone
    end.
Proof.
  intros fuel wfuel root lo hi Hne. unfold extract_doc_comments_fuel in *.
  destruct (decl_first_token root lo hi) as [d|]; [|reflexivity].
  destruct (doc_loop fuel wfuel d []) as [lines|] eqn:E; [|congruence].
  apply doc_loop_sound in E. rewrite app_nil_r in E. subst lines. reflexivity.
Qed.

(** ---- termination: the fuel of [extract_doc_comments] always suffices ---- *)
Lemma forest_size_app : forall a b, forest_size (a ++ b) = (forest_size a + forest_size b)%nat.
Proof. induction a as [|c r IH]; intros b; [reflexivity|]. cbn [app forest_size]. rewrite IH. lia. Qed.

Lemma tree_size_node : forall k cs, tree_size (Node k cs) = S (forest_size cs).
Proof. reflexivity. Qed.

Lemma descend_measure : forall s ctx,
  (cur_measure (descend_last s ctx) + 1 = forest_size (before_ctx ctx) + tree_size s + length ctx)%nat.
Proof.
  induction s as [k txt|k cs IH] using tree_ind'; intros ctx.
  - cbn [descend_last]. unfold cur_measure. cbn [snd tree_size]. lia.
  - cbn [descend_last].
    set (go := fix go (left_rev l : list tree) {struct l} : cursor :=
           match l with
           | [] => (Node k cs, ctx)
           | [c] => descend_last c (mkFrame k left_rev [] :: ctx)
           | c :: (_ :: _) as r => go (c :: left_rev) r
           end).
    destruct cs as [|c0 r0].
    + unfold cur_measure. subst go. cbn [snd]. rewrite tree_size_node. cbn [forest_size]. lia.
    + assert (forall l, Forall (fun s => forall ctx,
                (cur_measure (descend_last s ctx) + 1 = forest_size (before_ctx ctx) + tree_size s + length ctx)%nat) l ->
              l <> [] -> forall left_rev,
              (cur_measure (go left_rev l) + 1 =
               forest_size (before_ctx ctx) + forest_size left_rev + forest_size l + length ctx + 1)%nat) as Hgo.
      { intros l Hl. induction Hl as [|c r Hc Hr IHr]; intros Hne left_rev; [congruence|].
        destruct r as [|c2 r'].
        - cbn [go]. rewrite (Hc (mkFrame k left_rev [] :: ctx)).
          cbn [before_ctx fr_left length forest_size]. rewrite forest_size_app.
          assert (forest_size (rev left_rev) = forest_size left_rev) as ->.
          { clear. induction left_rev as [|x xs IHx]; [reflexivity|]. cbn [rev]. rewrite forest_size_app, IHx.
            cbn [forest_size]. lia. }
          lia.
        - change (go left_rev (c :: c2 :: r')) with (go (c :: left_rev) (c2 :: r')).
          rewrite (IHr ltac:(discriminate) (c :: left_rev)). cbn [forest_size]. lia. }
      rewrite (Hgo (c0 :: r0) IH ltac:(discriminate) []). rewrite tree_size_node. cbn [forest_size]. lia.
Qed.

Lemma prev_token_terminates : forall fuel c, (cur_measure c < fuel)%nat ->
  match prev_token fuel c with
  | WOutOfFuel => False
  | WFound e => (cur_measure e < cur_measure c)%nat
  | WNone => True
  end.
Proof.
  induction fuel as [|f IH]; intros c Hm; [lia|].
  cbn [prev_token].
  destruct (prev_sibling_or_token c) as [p|] eqn:Hs.
  - pose proof (prev_sibling_before _ _ Hs) as Hb.
    pose proof (descend_measure (fst p) (snd p)) as Hd.
    assert (length (snd p) = length (snd c)) as Hlen.
    { destruct c as [t ctx]. unfold prev_sibling_or_token in Hs. cbn [snd fst] in *.
      destruct ctx as [|fr outer]; [discriminate|]. destruct (fr_left fr); [discriminate|].
      injection Hs as <-. reflexivity. }
    assert (cur_measure (descend_last (fst p) (snd p)) + 1 = cur_measure c)%nat as Hlt.
    { rewrite Hd. unfold cur_measure. rewrite Hb, forest_size_app. cbn [forest_size]. lia. }
    set (e := descend_last (fst p) (snd p)) in *.
    destruct (fst e) as [k cs|k txt] eqn:Hk; [|lia].
    specialize (IH e ltac:(lia)). destruct (prev_token f e); [lia|exact I|exact IH].
  - destruct (parent c) as [q|] eqn:Hp; [|exact I].
    destruct (parent_before _ _ Hs Hp) as [Hb Hn].
    assert (cur_measure q + 1 = cur_measure c)%nat as Hlt.
    { unfold cur_measure. rewrite Hb. destruct c as [t ctx]. unfold parent in Hp. cbn [snd] in *.
      destruct ctx; [discriminate|]. injection Hp as <-. cbn [snd length]. lia. }
    destruct (fst q) as [k cs|k txt] eqn:Hk; [|discriminate].
    specialize (IH q ltac:(lia)). destruct (prev_token f q); [lia|exact I|exact IH].
Qed.

Lemma doc_loop_terminates : forall fuel wfuel cur acc,
  (length (leaves_before cur) < fuel)%nat -> (cur_measure cur < wfuel)%nat ->
  doc_loop fuel wfuel cur acc <> None.
Proof.
  induction fuel as [|f IH]; intros wfuel cur acc Hl Hm; [lia|].
  cbn [doc_loop].
  pose proof (prev_token_terminates wfuel cur Hm) as T1.
  destruct (prev_token wfuel cur) as [c1| |] eqn:W1; [|discriminate|contradiction].
  destruct (prev_token_found _ _ _ W1) as (l1 & Hl1 & B1). rewrite Hl1.
  destruct (negb (is_ws_one_newline l1)); [discriminate|].
  pose proof (prev_token_terminates wfuel c1 ltac:(lia)) as T2.
  destruct (prev_token wfuel c1) as [c2| |] eqn:W2; [|discriminate|contradiction].
  destruct (prev_token_found _ _ _ W2) as (l2 & Hl2 & B2). rewrite Hl2.
  destruct (negb (sk_eqb (lf_kind l2) S_LineComment)); [discriminate|].
  destruct (negb (starts_with_slashes (lf_text l2))); [discriminate|].
  apply IH; [|lia]. rewrite B1, B2, !app_length in Hl. cbn [length] in Hl. lia.
Qed.

(** the model of extract_doc_comments IS the adjacency rule, for every tree and every range *)
Theorem extract_doc_correct : forall root lo hi,
  extract_doc_comments root lo hi =
    match decl_first_token root lo hi with
    | Some d => doc_spec (leaves_before d)
    | None => DocNone
    end.
Proof.
  intros root lo hi. unfold extract_doc_comments.
  destruct (decl_first_token root lo hi) as [d|]; [|reflexivity].
  destruct (doc_loop (S (length (leaves_before d))) (S (cur_measure d)) d []) as [lines|] eqn:E.
  - apply doc_loop_sound in E. rewrite app_nil_r in E. subst lines. reflexivity.
  - exfalso. revert E. apply doc_loop_terminates; lia.
Qed.

Corollary extract_doc_never_out_of_fuel : forall root lo hi, extract_doc_comments root lo hi <> DocOutOfFuel.
Proof.
  intros root lo hi. rewrite extract_doc_correct. destruct (decl_first_token root lo hi); [|discriminate].
  unfold doc_spec, render_doc. destruct (join_nl _); discriminate.
Qed.

(** ---- the cursor stays inside the file: [leaves_before d] is the prefix of the file's token sequence that ends
         right before the declaration's first token ---- *)
Fixpoint root_of_ctx (t : tree) (ctx : list frame) : tree :=
  match ctx with [] => t | f :: outer => root_of_ctx (plug t f) outer end.
Definition root_of (c : cursor) : tree := root_of_ctx (fst c) (snd c).

Lemma leaves_root_of : forall ctx t, exists after,
  leaves_from 0 (root_of_ctx t ctx) =
  leaves_forest 0 (before_ctx ctx) ++ leaves_from (forest_len (before_ctx ctx)) t ++ after.
Proof.
  induction ctx as [|f outer IH]; intros t.
  - exists []. cbn [root_of_ctx before_ctx leaves_forest app]. unfold forest_len. cbn [fold_right].
    now rewrite app_nil_r.
  - cbn [root_of_ctx]. unfold plug. destruct (IH (Node (fr_kind f) (rev (fr_left f) ++ t :: fr_right f))) as [after E].
    rewrite leaves_from_node, leaves_forest_app in E. cbn [leaves_forest] in E.
    eexists. rewrite E. cbn [before_ctx]. rewrite leaves_forest_app, forest_len_app, N.add_0_l.
    rewrite <- !app_assoc. reflexivity.
Qed.

Lemma root_of_parent : forall c q, parent c = Some q -> root_of q = root_of c.
Proof.
  intros [t ctx] q H. unfold parent in H. cbn [snd fst] in H. destruct ctx as [|f outer]; [discriminate|].
  injection H as <-. reflexivity.
Qed.

Lemma first_token_spec : forall t ctx e, first_token t ctx = Some e ->
  root_of e = root_of_ctx t ctx /\ is_node (fst e) = false.
Proof.
  induction t as [k txt|k cs IH] using tree_ind'; intros ctx e H.
  - cbn [first_token] in H. injection H as <-. split; reflexivity.
  - cbn [first_token] in H. destruct cs as [|c r]; [discriminate|].
    inversion IH as [|? ? Hc _]; subst. apply Hc in H. destruct H as [H1 H2]. split; [|exact H2].
    rewrite H1. reflexivity.
Qed.

Lemma covering_from_root : forall lo hi t off ctx, root_of (covering_from lo hi off t ctx) = root_of_ctx t ctx.
Proof.
  intros lo hi. induction t as [k txt|k cs IH] using tree_ind'; intros off ctx; [reflexivity|].
  cbn [covering_from].
  set (go := fix go (o : N) (left_rev l : list tree) {struct l} : cursor :=
         match l with
         | [] => (Node k cs, ctx)
         | c :: r => if (o <=? lo) && (hi <=? o + tree_len c)
                     then covering_from lo hi o c (mkFrame k left_rev r :: ctx)
                     else go (o + tree_len c) (c :: left_rev) r
         end).
  assert (forall l, Forall (fun t => forall off ctx, root_of (covering_from lo hi off t ctx) = root_of_ctx t ctx) l ->
          forall o left_rev, rev left_rev ++ l = cs -> root_of (go o left_rev l) = root_of_ctx (Node k cs) ctx) as Hgo.
  { intros l Hl. induction Hl as [|c r Hc Hr IHr]; intros o left_rev E; [reflexivity|].
    cbn [go]. destruct ((o <=? lo) && (hi <=? o + tree_len c)).
    - rewrite Hc. cbn [root_of_ctx]. unfold plug. cbn [fr_kind fr_left fr_right]. now rewrite E.
    - apply IHr. cbn [rev]. now rewrite <- app_assoc. }
  apply (Hgo cs IH off []). reflexivity.
Qed.

Lemma decl_first_token_in_root : forall root lo hi d, decl_first_token root lo hi = Some d ->
  root_of d = root /\ is_node (fst d) = false.
Proof.
  intros root lo hi d H. unfold decl_first_token in H.
  destruct (decl_node root lo hi) as [n|] eqn:Hn; [|discriminate].
  apply first_token_spec in H. destruct H as [H1 H2]. split; [|exact H2]. rewrite H1. fold (root_of n).
  unfold decl_node in Hn. unfold covering_element in Hn.
  destruct ((lo <? hi) && (hi <=? tree_len root)); [|discriminate].
  pose proof (covering_from_root lo hi root 0 []) as Hc. cbn [root_of_ctx] in Hc.
  set (idn := covering_from lo hi 0 root []) in *.
  assert (forall idc, (match kind_of (fst idn) with
                       | S_Id => parent idn
                       | S_Identifier => if is_node (fst idn) then Some idn else None
                       | _ => None end) = Some idc -> root_of idc = root) as Hid.
  { intros idc E. destruct (kind_of (fst idn)); try discriminate;
      first [ apply root_of_parent in E; congruence
            | destruct (is_node (fst idn)); [|discriminate]; injection E as <-; exact Hc ]. }
  destruct (match kind_of (fst idn) with
            | S_Id => parent idn
            | S_Identifier => if is_node (fst idn) then Some idn else None
            | _ => None end) as [idc|] eqn:Eid; [|discriminate].
  specialize (Hid idc eq_refl).
  destruct (parent idc) as [p|] eqn:Hp; [|discriminate]. apply root_of_parent in Hp.
  destruct (sk_eqb (kind_of (fst p)) S_InnerValue).
  - destruct (parent p) as [v|] eqn:Hv; [|discriminate]. apply root_of_parent in Hv.
    apply root_of_parent in Hn. congruence.
  - injection Hn as <-. congruence.
Qed.

(** the leaves before the declaration's first token, that token, and the rest, make up the file's leaves *)
Theorem decl_first_token_prefix : forall root lo hi d, decl_first_token root lo hi = Some d ->
  exists l after, cur_leaf d = Some l /\ leaves root = leaves_before d ++ l :: after.
Proof.
  intros root lo hi d H. destruct (decl_first_token_in_root _ _ _ _ H) as [Hr Ht].
  destruct (leaves_root_of (snd d) (fst d)) as [after E]. fold (root_of d) in E. rewrite Hr in E.
  destruct d as [t ctx]. cbn [fst snd] in *. destruct t as [k cs|k txt]; [discriminate|].
  exists (k, forest_len (before_ctx ctx), forest_len (before_ctx ctx) + bytes txt, txt), after.
  split; [reflexivity|]. unfold leaves, leaves_before. cbn [snd]. rewrite E, leaves_from_tok. reflexivity.
Qed.

(** ---- what the adjacency rule says: the maximal run of (one-newline whitespace, `//` comment) pairs ---- *)
Lemma list_ind2 : forall (A : Type) (P : list A -> Prop),
  P [] -> (forall x, P [x]) -> (forall x y l, P l -> P (x :: y :: l)) -> forall l, P l.
Proof.
  intros A P H0 H1 H2. fix F 1. intros [|x [|y l]]; [exact H0|apply H1|apply H2, F].
Qed.

Definition doc_pair_ok (p : leaf * leaf) : Prop :=
  is_ws_one_newline (fst p) = true /\ is_doc_comment (snd p) = true.

Theorem doc_lines_rev_maximal_run : forall L, exists pairs rest,
  L = flat_map (fun p : leaf * leaf => [fst p; snd p]) pairs ++ rest /\
  Forall doc_pair_ok pairs /\
  doc_lines_rev L = map (fun p : leaf * leaf => comment_text (lf_text (snd p))) pairs /\
  match rest with
  | w :: c :: _ => is_ws_one_newline w && is_doc_comment c = false
  | _ => True
  end.
Proof.
  induction L as [|x|w c l IH] using list_ind2.
  - exists [], []. split; [reflexivity|]. split; [constructor|]. split; [reflexivity|exact I].
  - exists [], [x]. split; [reflexivity|]. split; [constructor|]. split; [reflexivity|exact I].
  - destruct (is_ws_one_newline w && is_doc_comment c) eqn:E.
    + destruct IH as (pairs & rest & H1 & H2 & H3 & H4).
      exists ((w, c) :: pairs), rest. cbn [flat_map fst snd app map doc_lines_rev]. rewrite E.
      apply andb_prop in E.
      split; [now rewrite H1|]. split; [constructor; [exact E|exact H2]|]. split; [now rewrite H3|exact H4].
    + exists [], (w :: c :: l). cbn [flat_map app map doc_lines_rev]. rewrite E.
      split; [reflexivity|]. split; [constructor|]. split; reflexivity.
Qed.
