(** Completeness direction for the RECURSIVE nonterminals Type / ListType (Type ::= BitType | .. | ListType | ClassId,
    ListType ::= "list" "<" Type ">"): induction on the derivation; the non-recursive alternatives by enumeration
    (TokComplete), the recursive one by stepping the token-level semantics through `type` and `list_type`. *)
From Coq Require Import List NArith Bool Lia PeanoNat Arith String.
From TG.Gen Require Import GenTokens GenGrammar GenDocGrammar.
From TG.Model Require Import Chars Lexer Prep Tree ParserPrims GInterp DocGrammar GramAbs GramCert TokSem.
From TG.Proofs Require Import GramRx GramSound TokRefine TokFrame TokComplete.
Import ListNotations.
Close Scope string_scope.
Close Scope N_scope.
Open Scope nat_scope.
Open Scope list_scope.

(** one-step unfoldings of [texec] *)
Lemma texec_seq n p a b en ts :
  texec (S n) p (ESeq a b) en ts = match texec n p a en ts with TVal _ en1 ts1 => texec n p b en1 ts1 | r => r end.
Proof. reflexivity. Qed.
Lemma texec_prim_eq n p pr en ts : texec (S n) p (EPrim pr) en ts = texec_prim p pr en ts.
Proof. reflexivity. Qed.
Lemma texec_if n p c a b en ts :
  texec (S n) p (EIf c a b) en ts =
  match texec n p c en ts with
  | TVal (VB true) en1 ts1 => texec n p a en1 ts1
  | TVal (VB false) en1 ts1 => texec n p b en1 ts1
  | TVal (VN _) _ _ => TStuck
  | r => r
  end.
Proof. reflexivity. Qed.
Lemma texec_call0 n p f en ts body : fn_body p f = Some body ->
  texec (S n) p (ECall f None) en ts =
  match texec n p body [] ts with
  | TVal v _ ts1 => TVal v en ts1
  | TRet v _ ts1 => TVal v en ts1
  | TBrk _ _ => TStuck
  | TStuck => TStuck
  | TOOF => TOOF
  end.
Proof. intros H. cbn [texec]. rewrite H. reflexivity. Qed.
Lemma texec_b n p b en ts : texec (S n) p (EB b) en ts = TVal (VB b) en ts.
Proof. reflexivity. Qed.

(** [f] parses the word [w] in every context and with every follower, for all sufficiently large fuels *)
Definition Done (f : nat) (w : word) : Prop :=
  exists n0, forall n k rest e, n0 <= n ->
    texec n grammar_prog (ECall f None) [] (mk_ts (w ++ k :: rest) e) = TVal (VB true) [] (mk_ts (k :: rest) e).

Definition f_type : nat := 19.
Definition f_list_type : nat := 25.
Lemma f_type_name : fn_name f_type = "type"%string /\ fn_name f_list_type = "list_type"%string.
Proof. split; reflexivity. Qed.

(** the non-recursive alternatives of Type, through the function `type` itself: finite enumeration *)
Definition type_leaf_nts : list nat :=
  flat_map (fun s => match nt_index s with Some n => [n] | None => [] end)
           ["BitType"; "IntType"; "StringType"; "DagType"; "BitsType"; "ClassId"]%string.
Definition type_leaf_words : list word :=
  flat_map (fun n => match enum doc_rules_must efuel (RSym (DNT n)) with Some ws => ws | None => [] end) type_leaf_nts.
Lemma type_leaves_all :
  forallb (fun w => forallb (fun k => is_done (run_fn f_type (w ++ [k])) [k]) all_token_kinds) type_leaf_words = true.
Proof. vm_cast_no_check (eq_refl true). Qed.

Lemma Done_leaf w : In w type_leaf_words -> Done f_type w.
Proof.
  intros Hin. exists cfuel. intros n k rest e Hn.
  pose proof (proj1 (forallb_forall _ _) type_leaves_all w Hin) as H1.
  pose proof (proj1 (forallb_forall _ _) H1 k (all_token_kinds_complete k)) as H2.
  pose proof (done_any_context f_type w k rest e H2) as H3.
  rewrite (texec_fuel grammar_prog cfuel (ECall f_type None) [] (mk_ts (w ++ k :: rest) e)); [exact H3| |exact Hn].
  rewrite H3. exact I.
Qed.

(** stepping lemmas *)
Lemma assert_step p k l e : tk_eqb k T_Error = false ->
  texec_prim p (PAssert k) [] (mk_ts (k :: l) e) = TVal (VB true) [] (mk_ts l e).
Proof.
  intros H. cbn [texec_prim]. unfold tcur, t_eat, tlift, mk_ts. cbn [tks terr tafter]. now rewrite tk_eqb_refl, H.
Qed.
Lemma expect_step p k m l e : tk_eqb k T_Error = false ->
  texec_prim p (PExpect k m) [] (mk_ts (k :: l) e) = TVal (VB true) [] (mk_ts l e).
Proof.
  intros H. cbn [texec_prim]. unfold tcur, t_eat, tlift, mk_ts. cbn [tks terr tafter]. now rewrite tk_eqb_refl, H.
Qed.
Lemma if_at_set n p ks a b en ts :
  texec (S (S n)) p (EIf (EPrim (PAtSet ks)) a b) en ts =
  if t_at_set ts ks then texec (S n) p a en ts else texec (S n) p b en ts.
Proof. rewrite texec_if, texec_prim_eq. cbn [texec_prim]. destruct (t_at_set ts ks); reflexivity. Qed.
Lemma at_set_head k l e ks : t_at_set (mk_ts (k :: l) e) ks = existsb (tk_eqb k) ks.
Proof. reflexivity. Qed.

Lemma body_type : fn_body grammar_prog f_type = Some fn_19_type.
Proof. reflexivity. Qed.
Lemma body_list_type : fn_body grammar_prog f_list_type = Some fn_25_list_type.
Proof. reflexivity. Qed.

Lemma Done_list W : Done f_type W -> Done f_type ([T_List; T_Less] ++ W ++ [T_Greater]).
Proof.
  intros (n0 & H). exists (n0 + 24). intros n k rest e Hn.
  do 20 (destruct n as [|n]; [lia|]).
  assert (Hn0 : n0 <= n) by lia. clear Hn.
  replace (([T_List; T_Less] ++ W ++ [T_Greater]) ++ k :: rest) with (T_List :: T_Less :: (W ++ T_Greater :: k :: rest))
    by (cbn [app]; rewrite <- app_assoc; reflexivity).
  (* type: dispatch on the look-ahead *)
  rewrite (texec_call0 _ grammar_prog f_type _ _ fn_19_type body_type). unfold fn_19_type at 1.
  rewrite texec_seq.
  rewrite if_at_set, at_set_head. change (existsb (tk_eqb T_List) [T_Bit]) with false. cbv iota.
  rewrite if_at_set, at_set_head. change (existsb (tk_eqb T_List) [T_Int]) with false. cbv iota.
  rewrite if_at_set, at_set_head. change (existsb (tk_eqb T_List) [T_String]) with false. cbv iota.
  rewrite if_at_set, at_set_head. change (existsb (tk_eqb T_List) [T_Dag]) with false. cbv iota.
  rewrite if_at_set, at_set_head. change (existsb (tk_eqb T_List) [T_Bits]) with false. cbv iota.
  rewrite if_at_set, at_set_head. change (existsb (tk_eqb T_List) [T_List]) with true. cbv iota.
  (* list_type *)
  rewrite (texec_call0 _ grammar_prog f_list_type _ _ fn_25_list_type body_list_type). unfold fn_25_list_type at 1.
  rewrite texec_seq, texec_prim_eq. cbn [texec_prim].
  rewrite texec_seq, texec_prim_eq, assert_step by reflexivity.
  rewrite texec_seq, texec_prim_eq, expect_step by reflexivity.
  rewrite texec_seq.
  rewrite (H _ T_Greater (k :: rest) e) by lia.
  rewrite texec_seq, texec_prim_eq, expect_step by reflexivity.
  rewrite texec_seq, texec_prim_eq. cbn [texec_prim].
  rewrite texec_b.
  rewrite texec_b. reflexivity.
Qed.

(** * Every word of Type *)
Definition nt_Type : nat := match nt_index "Type"%string with Some n => n | None => 0 end.
Definition nt_ListType : nat := match nt_index "ListType"%string with Some n => n | None => 0 end.

Lemma leaf_enums_some :
  forallb (fun c => match enum doc_rules_must efuel (RSym (DNT c)) with Some _ => true | None => false end) type_leaf_nts = true.
Proof. vm_compute. reflexivity. Qed.
Lemma leaf_in c w : In c type_leaf_nts -> derives doc_rules_must c w -> In w type_leaf_words.
Proof.
  intros Hc Hd. unfold type_leaf_words. apply in_flat_map. exists c. split; auto.
  pose proof (proj1 (forallb_forall _ _) leaf_enums_some c Hc) as E. cbv beta in E.
  destruct (enum doc_rules_must efuel (RSym (DNT c))) as [ws|] eqn:Ee.
  - eapply enum_complete; eauto.
  - discriminate E.
Qed.

Theorem type_complete_tok : forall w, derives doc_rules_must nt_Type w -> Done f_type w.
Proof.
  intros w. remember (List.length w) as len eqn:Hl. revert w Hl.
  induction len as [len IH] using lt_wf_ind. intros w Hl Hd.
  unfold derives in Hd. inversion Hd as [| |m rhs w' Hn Hr| | | | |]; subst.
  vm_compute in Hn. inversion Hn; subst rhs; clear Hn.
  repeat match goal with Hx : rmatch _ (RAlt _ _) _ |- _ => inversion Hx; subst; clear Hx end;
    try (apply Done_leaf; eapply leaf_in; [|eassumption]; vm_compute; tauto).
  (* ListType *)
  match goal with Hx : rmatch _ (RSym (DNT _)) _ |- _ => inversion Hx as [| |m2 rhs2 w2 Hn2 Hr2| | | | |]; subst; clear Hx end.
  vm_compute in Hn2. inversion Hn2; subst rhs2; clear Hn2.
  repeat match goal with
         | Hx : rmatch _ (RSeq _ _) _ |- _ => inversion Hx; subst; clear Hx
         | Hx : rmatch _ (RSym (DTok _)) _ |- _ => inversion Hx; subst; clear Hx
         end.
  repeat match goal with Hx : In _ [_] |- _ => destruct Hx as [<-|[]] end.
  match goal with Hx : rmatch _ (RSym (DNT _)) ?W |- _ =>
    change ([T_List] ++ [T_Less] ++ W ++ [T_Greater]) with ([T_List; T_Less] ++ W ++ [T_Greater]);
    apply Done_list; apply (IH (List.length W)); [|reflexivity|exact Hx] end.
  cbn [app List.length]. rewrite app_length. cbn. lia.
Qed.

(** the same for the full parser model *)
Theorem type_complete_model : forall w, derives doc_rules_must nt_Type w ->
  exists n0, forall n k rest s, n0 <= n -> Toks s (w ++ k :: rest) -> after_err s = false ->
    match gexec n grammar_prog (ECall f_type None) [] s with
    | RPanic => True
    | RVal v _ s' => v = VB true /\ Toks s' (k :: rest) /\ nerr s' = nerr s /\ after_err s' = false
    | _ => False
    end.
Proof.
  intros w Hd. destruct (type_complete_tok w Hd) as (n0 & H). exists n0. intros n k rest s Hn HT Ha.
  assert (R0 : TR s (mk_ts (w ++ k :: rest) (nerr s))) by (repeat split; auto).
  exact (refine_done grammar_prog n (ECall f_type None) s (mk_ts (w ++ k :: rest) (nerr s)) (mk_ts (k :: rest) (nerr s)) R0
           (H n k rest (nerr s) Hn)).
Qed.

(** non-vacuity: a nested list type is a word of Type *)
Example type_word_example : derives doc_rules_must nt_Type [T_List; T_Less; T_List; T_Less; T_Bits; T_Less; T_IntVal; T_Greater; T_Greater; T_Greater].
Proof.
  assert (Leaf : derives doc_rules_must nt_Type [T_Bits; T_Less; T_IntVal; T_Greater]).
  { eapply MNT; [vm_compute; reflexivity|]. do 4 apply MAltR. apply MAltL.
    eapply MNT; [vm_compute; reflexivity|].
    change [T_Bits; T_Less; T_IntVal; T_Greater] with ([T_Bits] ++ [T_Less] ++ [T_IntVal] ++ [T_Greater]).
    repeat (constructor; try (now left)).
    eapply MNT; [vm_compute; reflexivity|]. constructor. now left. }
  assert (Wrap : forall W, derives doc_rules_must nt_Type W -> derives doc_rules_must nt_Type ([T_List] ++ [T_Less] ++ W ++ [T_Greater])).
  { intros W HW. eapply MNT; [vm_compute; reflexivity|]. do 5 apply MAltR. apply MAltL.
    eapply MNT; [vm_compute; reflexivity|]. repeat (constructor; try (now left)); exact HW. }
  exact (Wrap _ (Wrap _ Leaf)).
Qed.
