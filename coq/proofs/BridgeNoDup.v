(** The identifier occurrences of the CoreAst of a parsed file have pairwise different ranges (the bridge visits every
    Identifier node at most once: BridgeLinear.v; Id tokens of a parse are non-empty: IdNonEmpty.v), per file of every
    workspace of the pipeline. *)
From Coq Require Import List NArith Bool String PeanoNat Lia.
From TG.Gen Require Import GenTokens GenAst GenGrammar.
From TG.Model Require Import Chars Lexer Prep Tree ParserPrims GInterp AstAccess CoreAst AstToCore CoreParts Pipeline.
From TG.Proofs Require Import BridgeProofs BridgeText IdNonEmpty BridgeLinear PipelineProofs.
Import ListNotations.
Close Scope string_scope.
Open Scope N_scope.

Theorem core_idents_nodup : forall fuel file links txt t errs st ss,
  parse_with fuel grammar_prog grammar_entry txt = ParseOk t errs st ->
  core_of_tree file links t = Ok ss ->
  NoDup (map i_rng (file_idents ss)).
Proof.
  intros fuel file links txt t errs st ss P E. eapply core_idents_nodup_if_nonempty; [exact E|].
  apply Forall_map. eapply Forall_impl; [|eapply core_idents_are_id_tokens_parsed; eauto]. cbv beta. intros i (_ & L).
  destruct (parse_id_nonempty _ _ _ _ _ _ _ P _ _ _ L) as (_ & Ne). exact Ne.
Qed.

Theorem pipeline_idents_nodup : forall pfuel cfuel files root a w,
  analyze pfuel cfuel files root = Some a -> an_core a = Ok w ->
  forall k fl, nth_error (ws_files w) k = Some fl -> NoDup (map i_rng (file_idents fl)).
Proof.
  intros pfuel cfuel files root a w A E k fl Hk.
  destruct (analyze_assemble _ _ _ _ _ A) as (ids & dl & wsf & -> & L & OKs).
  destruct (assemble_nth _ _ _ _ _ _ E Hk) as (f & p & Hw & C).
  rewrite Forall_forall in OKs. destruct (OKs (f, p) (nth_error_In _ _ Hw)) as (fuel & PO). cbn [snd] in PO.
  unfold core_of_pfile in C. cbn [fst snd] in C. unfold pf_tree in C.
  destruct (pf_out p) as [t es st| |] eqn:O; try discriminate. symmetry in PO.
  eapply core_idents_nodup; [exact PO|exact C].
Qed.
