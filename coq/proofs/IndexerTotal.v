(** C03, indexer part: [index_ws] never reaches a modelled panic and [ws_fuel] always suffices, for EVERY
    CoreAst workspace (any number of files, any include structure, any nesting).
    Class references, parent lists, template arguments, body items, statements; the potential argument for
    includes (every file is entered at most once, [s_indexed] only grows). *)
From Coq Require Import List NArith Bool Lia PeanoNat Compare_dec.
From TG.Model Require Import CoreAst Scope BangOps Indexer.
From TG.Proofs Require Import IndexerTotalBase IndexerTotalValues.
Import ListNotations.
Open Scope N_scope.

Lemma tot_absurd A (P : st -> Prop) (m : M A) Q : (forall s, Good s -> P s -> False) -> tot P m Q.
Proof. intros H s G p. destruct (H s G p). Qed.

(** * Contexts *)
Definition in_rec (s : st) : Prop := find_map kind_record_id (kinds s) <> None.
Definition in_mc (s : st) : Prop := find_map kind_mc_id (kinds s) <> None.
Definition in_defm (s : st) : Prop := find_map kind_defm_id (kinds s) <> None.
Lemma stable_in_rec : stable in_rec. Proof. apply (stable_kinds (fun ks => find_map kind_record_id ks <> None)). Qed.
Lemma stable_in_mc : stable in_mc. Proof. apply (stable_kinds (fun ks => find_map kind_mc_id ks <> None)). Qed.
Lemma stable_in_defm : stable in_defm. Proof. apply (stable_kinds (fun ks => find_map kind_defm_id ks <> None)). Qed.
Lemma stable_or P Q : stable P -> stable Q -> stable (fun s => P s \/ Q s).
Proof. intros HP HQ s s' E [p|q]; [left; eapply HP|right; eapply HQ]; eauto. Qed.

Ltac stb2 := repeat first [ apply stable_in_rec | apply stable_in_mc | apply stable_in_defm | apply stable_or | stb ].

Lemma cur_rec_of_kinds x s : kinds x = kinds s -> current_record_id x = current_record_id s.
Proof. intros K. rewrite !current_record_kinds, K. reflexivity. Qed.
Lemma cur_mc_of_kinds x s : kinds x = kinds s -> current_multiclass_id x = current_multiclass_id s.
Proof. intros K. rewrite !current_multiclass_kinds, K. reflexivity. Qed.
Lemma cur_defm_of_kinds x s : kinds x = kinds s -> current_defm_id x = current_defm_id s.
Proof. intros K. rewrite !current_defm_kinds, K. reflexivity. Qed.

Section Refs0.
Variable P : st -> Prop.
Hypothesis SP : stable P.

Lemma t_resolve_class n c : (classref_size c <= n)%nat -> tot P (resolve_class_ref_as_class n c) anyv.
Proof.
  destruct c as [i args r]. cbn [classref_size]. intros H. cbn [resolve_class_ref_as_class].
  tt; try (apply t_index_args; [stb|lia]).
  Unshelve. all: try exact anyv.
Qed.
Lemma t_resolve_multiclass n c : (classref_size c <= n)%nat -> tot P (resolve_class_ref_as_multiclass n c) anyv.
Proof.
  destruct c as [i args r]. cbn [classref_size]. intros H. cbn [resolve_class_ref_as_multiclass].
  tt; try (apply t_index_args; [stb|lia]).
  Unshelve. all: try exact anyv.
Qed.

Lemma t_index_defvar n i v : (value_size v <= n)%nat -> tot P (index_defvar n i v) anyv.
Proof.
  intros H. unfold index_defvar. tt; try (apply t_index_value; [stb|lia]).
  Unshelve. all: try exact anyv.
Qed.

End Refs0.

Section Refs.
Variable P : st -> Prop.
Hypothesis SP : stable P.

(** ParentClassList::index: inside a record, multiclass or defm scope *)
Lemma t_index_parents n ps :
  (forall s, P s -> in_rec s \/ in_mc s \/ in_defm s) -> (sum_sizes classref_size ps <= n)%nat ->
  tot P (index_parents n ps) anyv.
Proof.
  intros CTX H. unfold index_parents.
  eapply tot_bind; [exact SP|apply tot_state|]. intros x. cbv beta.
  assert (SPx : stable (fun s => P s /\ kinds x = kinds s)) by stb.
  assert (SZ : forall cr, In cr ps -> (classref_size cr <= n)%nat) by (intros cr Hc; pose proof (in_sum classref_size ps cr Hc); lia).
  destruct (current_record_id x) as [rid|] eqn:CR.
  - apply tot_iterM; [exact SPx|]. intros cr Hc.
    eapply tot_bind_any; [exact SPx|eapply tot_try; apply t_resolve_class; [exact SPx|auto]|]. intros [cid|]; [|apply tot_ret_any].
    destruct (cid =? rid); [apply tot_err; exact SPx|].
    apply tot_record_mut. intros s G [_ K]. apply current_record_ok; [exact G|]. rewrite <- (cur_rec_of_kinds _ _ K). exact CR.
  - destruct (current_multiclass_id x) as [mid|] eqn:CM.
    + apply tot_iterM; [exact SPx|]. intros cr Hc.
      eapply tot_bind_any; [exact SPx|eapply tot_try; apply t_resolve_multiclass; [exact SPx|auto]|]. intros [p|]; [|apply tot_ret_any].
      apply tot_multiclass_mut. intros s G [_ K]. apply current_multiclass_ok; [exact G|]. rewrite <- (cur_mc_of_kinds _ _ K). exact CM.
    + destruct (current_defm_id x) as [d|] eqn:CD.
      * apply tot_iterM; [exact SPx|]. intros cr Hc. eapply tot_any. apply t_resolve_multiclass; [exact SPx|auto].
      * apply tot_absurd. intros s G [p K]. unfold in_rec, in_mc, in_defm in CTX.
        rewrite (cur_rec_of_kinds _ _ K), current_record_kinds in CR.
        rewrite (cur_mc_of_kinds _ _ K), current_multiclass_kinds in CM.
        rewrite (cur_defm_of_kinds _ _ K), current_defm_kinds in CD.
        destruct (CTX s p) as [C|[C|C]]; congruence.
  Unshelve. all: try exact anyv.
Qed.

(** TemplateArgDecl::index: inside a record or multiclass scope *)
Lemma t_index_targ n a : (forall s, P s -> in_rec s \/ in_mc s) -> (targ_size a <= n)%nat -> tot P (index_targ n a) anyv.
Proof.
  intros CTX H. destruct a as [t i dflt]. cbn [index_targ]. cbn [targ_size] in H.
  eapply tot_bind_any; [exact SP|apply tot_here|]. intros loc.
  eapply tot_bind_any; [exact SP|apply t_index_ty; exact SP|]. intros typ.
  eapply tot_bind_any; [exact SP|apply tot_add_leaf|]. intros tid.
  eapply tot_bind; [exact SP|apply tot_state|]. intros x. cbv beta.
  assert (SPx : stable (fun s => P s /\ kinds x = kinds s)) by stb.
  eapply tot_seq; [exact SPx| |].
  - destruct (current_record_id x) as [rid|] eqn:CR.
    + apply tot_record_mut. intros s G [_ K]. apply current_record_ok; [exact G|]. rewrite <- (cur_rec_of_kinds _ _ K). exact CR.
    + destruct (current_multiclass_id x) as [mid|] eqn:CM.
      * apply tot_multiclass_mut. intros s G [_ K]. apply current_multiclass_ok; [exact G|]. rewrite <- (cur_mc_of_kinds _ _ K). exact CM.
      * apply tot_absurd. intros s G [p K]. unfold in_rec, in_mc in CTX.
        rewrite (cur_rec_of_kinds _ _ K), current_record_kinds in CR.
        rewrite (cur_mc_of_kinds _ _ K), current_multiclass_kinds in CM.
        destruct (CTX s p) as [C|C]; congruence.
  - destruct dflt as [v|]; [|apply tot_none]. cbn [opt_size] in H.
    eapply tot_seq; [exact SPx|apply t_index_value; [exact SPx|lia]|apply tot_none].
  Unshelve. all: try exact anyv.
Qed.

(** BodyItem::index: inside a record scope *)
Lemma t_index_item n it : (forall s, P s -> in_rec s) -> (item_size it <= n)%nat -> tot P (index_item n it) anyv.
Proof.
  intros CTX H. destruct it as [t i v|i v|i v|c m|v]; cbn [index_item]; cbn [item_size] in H.
  - eapply tot_bind; [exact SP|apply tot_state|]. intros x. cbv beta.
    assert (SPx : stable (fun s => P s /\ kinds x = kinds s)) by stb.
    destruct (current_record_id x) as [rid|] eqn:CR.
    + eapply tot_bind_any; [exact SPx|apply tot_here|]. intros loc.
      eapply tot_bind_any; [exact SPx|apply t_index_ty; exact SPx|]. intros typ.
      eapply tot_bind_any; [exact SPx|apply tot_add_leaf|]. intros fid.
      eapply tot_seq; [exact SPx| |].
      * apply tot_record_mut. intros s G [_ K]. apply current_record_ok; [exact G|]. rewrite <- (cur_rec_of_kinds _ _ K). exact CR.
      * destruct v as [v'|]; [apply tot_bind_lift_some|apply tot_bind_lift_none]. cbn [opt_size] in H.
        eapply tot_bind_any; [exact SPx|apply t_index_value; [exact SPx|lia]|]. intros vt.
        eapply tot_bind_any; [exact SPx|apply tot_state|]. intros s'. destruct (can_cast s' vt typ); [apply tot_none|apply tot_err; exact SPx].
    + apply tot_absurd. intros s G [p K]. unfold in_rec in CTX. rewrite (cur_rec_of_kinds _ _ K), current_record_kinds in CR.
      apply (CTX s p). exact CR.
  - eapply tot_bind_any; [exact SP|apply tot_here|]. intros loc.
    eapply tot_bind; [exact SP|apply tot_state|]. intros x. cbv beta.
    assert (SPx : stable (fun s => P s /\ kinds x = kinds s)) by stb.
    destruct (current_record_id x) as [rid|] eqn:CR.
    + destruct (find_field (rec_fuel x) (s_recs x) rid (i_name i)) as [fid|]; [apply tot_bind_lift_some|apply tot_bind_lift_none].
      eapply tot_bind_any; [exact SPx|apply tot_leaf_of; exact SPx|]. intros f.
      eapply tot_bind_any; [exact SPx|apply tot_add_leaf|]. intros nid.
      eapply tot_seq; [exact SPx| |].
      * apply tot_record_mut. intros s G [_ K]. apply current_record_ok; [exact G|]. rewrite <- (cur_rec_of_kinds _ _ K). exact CR.
      * eapply tot_seq; [exact SPx|apply tot_add_reference|].
        eapply tot_bind_any; [exact SPx|apply t_index_value; [exact SPx|lia]|]. intros vt.
        eapply tot_bind_any; [exact SPx|apply tot_state|]. intros s'. destruct (can_cast s' vt (lf_ty f)); [apply tot_none|apply tot_err; exact SPx].
    + apply tot_absurd. intros s G [p K]. unfold in_rec in CTX. rewrite (cur_rec_of_kinds _ _ K), current_record_kinds in CR.
      apply (CTX s p). exact CR.
  - apply t_index_defvar; [exact SP|lia].
  - eapply tot_seq; [exact SP|apply t_index_value; [exact SP|lia]|].
    eapply tot_seq; [exact SP|apply t_index_value; [exact SP|lia]|apply tot_none].
  - eapply tot_seq; [exact SP|apply t_index_value; [exact SP|lia]|apply tot_none].
  Unshelve. all: try exact anyv.
Qed.

Lemma t_record_body n ps b : (forall s, P s -> in_rec s) ->
  (sum_sizes classref_size ps + sum_sizes item_size b <= n)%nat -> tot P (index_record_body n ps b) anyv.
Proof.
  intros CTX H. unfold index_record_body. eapply tot_seq; [exact SP|apply t_index_parents; [intros s p; left; auto|lia]|].
  apply tot_iterM; [exact SP|]. intros it Hit. apply t_index_item; [exact CTX|]. pose proof (in_sum item_size b it Hit). lia.
Qed.

Lemma t_targs n (o : option (list targ)) : (forall s, P s -> in_rec s \/ in_mc s) ->
  (opt_size (sum_sizes targ_size) o <= n)%nat ->
  tot P (match o with Some l => iterM (index_targ n) l | None => ret tt end) anyv.
Proof.
  intros CTX H. destruct o as [l|]; [|apply tot_ret_any]. cbn [opt_size] in H.
  apply tot_iterM; [exact SP|]. intros a Ha. apply t_index_targ; [exact CTX|]. pose proof (in_sum targ_size l a Ha). lia.
Qed.

Lemma t_index_name_value v : tot P (index_name_value v) anyv.
Proof. destruct v as [r [|[[] sufs] rest]]; cbn [index_name_value]; tt. Unshelve. all: try exact anyv. Qed.
End Refs.

(** * The potential of the files not yet indexed *)
Definition fsize (body : list stmt) : nat := S (sum_sizes stmt_size body).
Fixpoint pot_from (k : N) (files : list (list stmt)) (I : list N) : nat :=
  match files with
  | [] => O
  | b :: r => ((if existsb (N.eqb k) I then O else fsize b) + pot_from (k + 1) r I)%nat
  end.

Lemma existsb_incl k I I' : incl I I' -> existsb (N.eqb k) I = true -> existsb (N.eqb k) I' = true.
Proof.
  intros H E. apply existsb_exists in E. destruct E as (x & Hx & E). apply existsb_exists. exists x. split; [apply H; exact Hx|exact E].
Qed.
Lemma pot_mono : forall files k I I', incl I I' -> (pot_from k files I' <= pot_from k files I)%nat.
Proof.
  induction files as [|b r IH]; intros k I I' H; cbn [pot_from]; [lia|]. specialize (IH (k + 1) I I' H).
  destruct (existsb (N.eqb k) I) eqn:E; [rewrite (existsb_incl _ _ _ H E); lia|]. destruct (existsb (N.eqb k) I'); lia.
Qed.
Lemma pot_enter : forall files k j body I,
  nth_error files j = Some body -> existsb (N.eqb (k + N.of_nat j)) I = false ->
  (fsize body + pot_from k files ((k + N.of_nat j)%N :: I) <= pot_from k files I)%nat.
Proof.
  induction files as [|b r IH]; intros k j body I Hn E; [destruct j; discriminate|].
  destruct j as [|j]; cbn [nth_error] in Hn.
  - inversion Hn; subst b. rewrite N.add_0_r in *. cbn [pot_from existsb]. rewrite N.eqb_refl, E. cbn [orb].
    pose proof (pot_mono r (k + 1) I (k :: I) (incl_tl k (incl_refl I))). lia.
  - replace (k + N.of_nat (S j)) with (k + 1 + N.of_nat j) in * by lia.
    specialize (IH (k + 1) j body I Hn E). cbn [pot_from existsb].
    assert (NE : (k =? k + 1 + N.of_nat j) = false) by (apply N.eqb_neq; lia). rewrite NE. cbn [orb].
    destruct (existsb (N.eqb k) I); lia.
Qed.
Lemma pot_total : forall files k I, (pot_from k files I <= sum_sizes fsize files)%nat.
Proof.
  induction files as [|b r IH]; intros k I; cbn [pot_from]; [cbn; lia|]. rewrite sum_cons. specialize (IH (k + 1) I).
  destruct (existsb (N.eqb k) I); lia.
Qed.

Lemma stmts_fix_eq : forall b,
  (fix go (l : list stmt) : nat := match l with [] => 0%nat | x :: r => (stmt_size x + go r)%nat end) b = sum_sizes stmt_size b.
Proof. apply sum_fix_eq. Qed.
Lemma stmt_size_pos x : (1 <= stmt_size x)%nat.
Proof. destruct x; cbn [stmt_size]; lia. Qed.

(** the `include` arm of index_stmt, as a function of the state *)
Definition inc_arm (files : list (list stmt)) (n : nat) (f : N) : M unit :=
  bind state (fun s =>
    if existsb (N.eqb f) (s_indexed s) then none
    else seq (upd (fun s => set_files (s_trace s) (f :: s_indexed s) s))
             (bind (lift (nthN files f)) (fun body =>
                seq (push_file f) (seq (iterM (index_stmt files n) body) pop_file)))).
Lemma inc_arm_eq files n f s :
  inc_arm files n f s =
  if existsb (N.eqb f) (s_indexed s) then (None, s)
  else let s1 := set_files (s_trace s) (f :: s_indexed s) s in
       match nthN files f with
       | None => (None, s1)
       | Some body =>
           let s2 := set_files (f :: s_trace s1) (s_indexed s1) s1 in
           pop_file (snd (iterM (index_stmt files n) body s2))
       end.
Proof.
  unfold inc_arm, bind, state, get. cbn [fst snd]. destruct (existsb (N.eqb f) (s_indexed s)); [reflexivity|].
  unfold seq, upd, lift, push_file. cbn [fst snd]. destruct (nthN files f); reflexivity.
Qed.

Section Stmts.
Variable files : list (list stmt).
Definition pot (I : list N) : nat := pot_from 0 files I.
Definition fits (k n : nat) (s : st) : Prop := (k + pot (s_indexed s) <= n)%nat.
Lemma stable_fits k n : stable (fits k n).
Proof. intros s s' (_ & _ & _ & _ & I) H. unfold fits, pot in *. pose proof (pot_mono files 0 _ _ I). lia. Qed.
Lemma fits_le k k' n n' s : (k' <= k)%nat -> (n <= n')%nat -> fits k n s -> fits k' n' s.
Proof. unfold fits. lia. Qed.
Lemma fits_sub k k' n s : (S k' <= k)%nat -> fits k (S n) s -> fits k' n s.
Proof. unfold fits. lia. Qed.

Ltac stb3 := repeat first [ apply stable_fits | stb2 ].

Section Step.
Variable n : nat.
Hypothesis IH : forall x, tot (fits (stmt_size x) n) (index_stmt files n x) anyv.

Lemma t_stmts b (P : st -> Prop) : stable P -> (forall s, P s -> fits (sum_sizes stmt_size b) n s) ->
  tot P (iterM (index_stmt files n) b) anyv.
Proof.
  intros SP H. apply tot_iterM; [exact SP|]. intros y Hy. eapply tot_pre; [|apply IH].
  intros s _ p. eapply fits_le; [|reflexivity|apply H; exact p]. apply in_sum. exact Hy.
Qed.

(** a block body: `scoped k (iterM index_stmt b)` *)
Lemma t_block k b (P : st -> Prop) :
  (forall s, Good s -> P s -> kind_ok s k) -> (forall s, P s -> fits (sum_sizes stmt_size b) n s) ->
  tot P (scoped k (iterM (index_stmt files n) b)) anyv.
Proof.
  intros HK H. eapply tot_scoped with (P' := fits (sum_sizes stmt_size b) n); [exact HK| |apply t_stmts; [apply stable_fits|auto]].
  intros s _ p. apply H in p. exact p.
Qed.

Lemma in_rec_push rid s : in_rec (snd (push_scope (KRecord rid) s)).
Proof. unfold in_rec, push_scope, upd. cbn [snd]. rewrite kinds_push. cbn. discriminate. Qed.
Lemma in_mc_push mid s : in_mc (snd (push_scope (KMulticlass mid) s)).
Proof. unfold in_mc, push_scope, upd. cbn [snd]. rewrite kinds_push. cbn. discriminate. Qed.
Lemma in_defm_push d s : in_defm (snd (push_scope (KDefm d) s)).
Proof. unfold in_defm, push_scope, upd. cbn [snd]. rewrite kinds_push. cbn. discriminate. Qed.

Lemma t_stmt_S x : tot (fits (stmt_size x) (S n)) (index_stmt files (S n) x) anyv.
Proof.
  set (P := fits (stmt_size x) (S n)). assert (SP : stable P) by apply stable_fits.
  destruct (le_dec (stmt_size x) (S n)) as [LE|GT].
  2:{ apply tot_absurd. intros s _ p. unfold P, fits in p. lia. }
  destruct x as [r target|c m|i targs ps b|nm r ps b|nm r ps|t i b|i v|v|i init b|c th el|vs b|i targs ps b]; cbn [index_stmt].
  - (* include *)
    destruct target as [f|]; [|eapply tot_seq; [exact SP|apply tot_err; exact SP|apply tot_none]].
    change (tot P (inc_arm files n f) anyv). intros s G p. rewrite inc_arm_eq.
    destruct (existsb (N.eqb f) (s_indexed s)) eqn:EX; [apply (tot_none _ P _ s G p)|]. cbv zeta.
    set (s1 := set_files (s_trace s) (f :: s_indexed s) s).
    assert (G1 : Good s1) by (destruct G as (B & T & K & F); repeat split; auto).
    assert (S01 : Step s s1) by (unfold Step, s1, kinds, nrec, nmc; cbn; repeat split; try lia; apply incl_tl, incl_refl).
    destruct (nthN files f) as [body|] eqn:NF.
    2:{ cbn [fst snd]. split; [exact G1|split; [exact S01|intros y E; discriminate]]. }
    set (s2 := set_files (f :: s_trace s1) (s_indexed s1) s1).
    assert (G2 : Good s2) by (destruct G1 as (B & T & K & F); repeat split; auto; discriminate).
    assert (S12 : kinds s2 = kinds s1 /\ nrec s1 <= nrec s2 /\ nmc s1 <= nmc s2 /\ incl (s_indexed s1) (s_indexed s2))
      by (unfold s2, kinds, nrec, nmc; cbn; repeat split; try lia; apply incl_refl).
    assert (F2 : fits (sum_sizes stmt_size body) n s2).
    { unfold P, fits, pot in *. cbn [stmt_size] in p. change (s_indexed s2) with (f :: s_indexed s).
      unfold nthN in NF. pose proof (pot_enter files 0 (N.to_nat f) body (s_indexed s) NF) as PE.
      rewrite N.add_0_l, N2Nat.id in PE. specialize (PE EX). unfold fsize in PE. lia. }
    destruct (t_stmts body (fits (sum_sizes stmt_size body) n) (stable_fits _ _) (fun s0 p0 => p0) s2 G2 F2) as (G3 & S23 & _).
    set (s3 := snd (iterM (index_stmt files n) body s2)) in *.
    destruct S23 as (K3 & T3 & R3 & M3 & I3). unfold pop_file.
    assert (T3' : s_trace s3 = f :: s_trace s) by (rewrite T3; reflexivity). rewrite T3'. cbn [fst snd].
    destruct G as (B & T & K & F). destruct G3 as (B3 & _ & Kn3 & F3). destruct S12 as (K12 & R12 & M12 & I12).
    destruct S01 as (K01 & _ & R01 & M01 & I01).
    split; [|split; [|intros; exact I]].
    + unfold Good, kinds, nrec, nmc in *. cbn. repeat split; auto.
    + unfold Step, kinds, nrec, nmc in *. cbn. repeat split; try congruence; try lia.
      eapply incl_tran; [exact I01|]. eapply incl_tran; [exact I12|exact I3].
  - (* assert *) cbn [stmt_size] in LE.
    eapply tot_seq; [exact SP|apply t_index_value; [exact SP|lia]|].
    eapply tot_seq; [exact SP|apply t_index_value; [exact SP|lia]|apply tot_none].
  - (* class *) cbn [stmt_size] in LE.
    eapply tot_bind_any; [exact SP|apply tot_here|]. intros loc.
    eapply tot_bind; [exact SP|apply tot_add_record|]. intros rid. cbv beta.
    eapply tot_scoped with (P' := in_rec); [intros s _ [_ q]; exact q|intros; apply in_rec_push|].
    eapply tot_seq; [apply stable_in_rec|apply t_targs; [apply stable_in_rec|intros; left; assumption|lia]|].
    apply t_record_body; [apply stable_in_rec|auto|lia].
  - (* def *) cbn [stmt_size] in LE.
    eapply tot_bind; [exact SP| |intros did; cbv beta;
      eapply tot_scoped with (P' := in_rec); [intros s _ [_ q]; exact q|intros; apply in_rec_push|
        apply t_record_body; [apply stable_in_rec|auto|lia]]].
    destruct nm as [v|].
    + eapply tot_bind_any; [exact SP|apply t_index_name_value; exact SP|]. intros p0. apply tot_add_record.
    + eapply tot_seq; [exact SP|apply tot_next_anonymous|]. eapply tot_bind_any; [exact SP|apply tot_here|]. intros loc. apply tot_add_anonymous_def.
  - (* defm *) cbn [stmt_size] in LE.
    eapply tot_bind_any; [exact SP| |intros did;
      eapply tot_scoped with (P' := in_defm); [intros; exact I|intros; apply in_defm_push|
        apply t_index_parents; [apply stable_in_defm|intros; right; right; assumption|lia]]].
    destruct nm as [v|].
    + eapply tot_bind_any; [exact SP|apply t_index_name_value; exact SP|]. intros p0. apply tot_add_leaf.
    + eapply tot_seq; [exact SP|apply tot_next_anonymous|]. eapply tot_bind_any; [exact SP|apply tot_here|]. intros loc. apply tot_add_leaf_nopos.
  - (* defset *) cbn [stmt_size] in LE. rewrite stmts_fix_eq in LE.
    eapply tot_bind_any; [exact SP|apply tot_here|]. intros loc.
    eapply tot_bind_any; [exact SP|apply t_index_ty; exact SP|]. intros typ.
    eapply tot_bind_any; [exact SP|apply tot_add_defset|]. intros did.
    apply t_block; [intros; exact I|]. intros s p. unfold P in p. cbn [stmt_size] in p. rewrite stmts_fix_eq in p.
    eapply fits_sub; [|exact p]; lia.
  - (* defvar *) cbn [stmt_size] in LE. apply t_index_defvar; [exact SP|lia].
  - (* dump *) cbn [stmt_size] in LE. eapply tot_seq; [exact SP|apply t_index_value; [exact SP|lia]|apply tot_none].
  - (* foreach *) cbn [stmt_size] in LE. rewrite stmts_fix_eq in LE.
    eapply tot_bind_any; [exact SP|apply tot_here|]. intros loc.
    eapply tot_bind_any; [exact SP| |intros o].
    { eapply tot_try. destruct init as [|v]; [apply tot_ret_any|].
      eapply tot_bind_any; [exact SP|apply t_index_value; [exact SP|lia]|]. intros t0. apply tot_lift. }
    eapply tot_bind_any; [exact SP|apply tot_add_leaf|]. intros vid.
    apply t_block; [intros; exact I|]. intros s p. unfold P in p. cbn [stmt_size] in p. rewrite stmts_fix_eq in p.
    eapply fits_sub; [|exact p]; lia.
  - (* if *) destruct el as [e|]; cbn [stmt_size] in LE; rewrite (stmts_fix_eq th) in LE; try rewrite (stmts_fix_eq e) in LE.
    + eapply tot_seq; [exact SP|apply t_index_value; [exact SP|lia]|].
      apply tot_iterM; [exact SP|]. intros body Hb.
      apply t_block; [intros; exact I|]. intros s p. unfold P in p. cbn [stmt_size] in p. rewrite (stmts_fix_eq th), (stmts_fix_eq e) in p.
      destruct Hb as [<-|[<-|[]]]; (eapply fits_sub; [|exact p]; lia).
    + eapply tot_seq; [exact SP|apply t_index_value; [exact SP|lia]|].
      apply tot_iterM; [exact SP|]. intros body Hb.
      apply t_block; [intros; exact I|]. intros s p. unfold P in p. cbn [stmt_size] in p. rewrite (stmts_fix_eq th) in p.
      destruct Hb as [<-|[]]. eapply fits_sub; [|exact p]; lia.
  - (* let *) cbn [stmt_size] in LE. rewrite stmts_fix_eq in LE.
    eapply tot_seq; [exact SP|apply t_values; [exact SP|unfold vsum; lia]|].
    apply t_block; [intros; exact I|]. intros s p. unfold P in p. cbn [stmt_size] in p. rewrite stmts_fix_eq in p.
    eapply fits_sub; [|exact p]; lia.
  - (* multiclass *) cbn [stmt_size] in LE. rewrite stmts_fix_eq in LE.
    eapply tot_bind_any; [exact SP|apply tot_here|]. intros loc.
    eapply tot_bind; [exact SP|apply tot_add_multiclass|]. intros mid. cbv beta.
    eapply tot_scoped with (P' := fun s => in_mc s /\ fits (sum_sizes stmt_size b) n s).
    + intros s _ [_ q]; exact q.
    + intros s _ [p _]. split; [apply in_mc_push|]. unfold P in p. cbn [stmt_size] in p. rewrite stmts_fix_eq in p.
      unfold push_scope, upd. cbn [snd]. eapply fits_sub; [|exact p]; lia.
    + assert (SQ : stable (fun s => in_mc s /\ fits (sum_sizes stmt_size b) n s)) by stb3.
      eapply tot_seq; [exact SQ|apply t_targs; [exact SQ|intros s [q _]; right; exact q|lia]|].
      eapply tot_seq; [exact SQ|apply t_index_parents; [exact SQ|intros s [q _]; right; left; exact q|lia]|].
      apply t_stmts; [exact SQ|intros s [_ q]; exact q].
  Unshelve. all: try exact anyv.
Qed.
End Step.

Theorem t_index_stmt : forall n x, tot (fits (stmt_size x) n) (index_stmt files n x) anyv.
Proof.
  induction n as [|n IH]; intros x.
  - apply tot_absurd. intros s _ p. unfold fits in p. pose proof (stmt_size_pos x). lia.
  - apply t_stmt_S. exact IH.
Qed.
End Stmts.

(** * The whole workspace *)
Lemma good_st0 : Good st0.
Proof. unfold Good, st0, kinds. cbn. repeat split; try discriminate. constructor; [exact I|constructor]. Qed.

Theorem index_ws_total : forall w, s_bad (index_ws w) = false.
Proof.
  intros w. unfold index_ws. destruct (ws_files w) as [|root rest] eqn:F; [reflexivity|].
  set (files := root :: rest).
  assert (T : tot (fits files (sum_sizes stmt_size root) (ws_fuel w)) (iterM (index_stmt files (ws_fuel w)) root) anyv).
  { apply t_stmts; [apply t_index_stmt|apply stable_fits|auto]. }
  assert (P0 : fits files (sum_sizes stmt_size root) (ws_fuel w) st0).
  { unfold fits, pot, files, ws_fuel. rewrite F. rewrite sum_cons.
    change (sum_sizes (fun f : list stmt => S (sum_sizes stmt_size f)) rest) with (sum_sizes fsize rest).
    change (s_indexed st0) with [0]. cbn [pot_from existsb]. change (0 =? 0) with true. cbn [orb].
    pose proof (pot_total rest (0 + 1) [0]). lia. }
  destruct (T st0 good_st0 P0) as ((B & _) & _). exact B.
Qed.
