(** Generic facts about the token-level semantics (model/TokSem.v):
    - tokens are only consumed (the final token list is a suffix of the initial one), errors only grow;
    - FRAME: a run that leaves at least one token unread behaves identically when more tokens are appended and
      when the initial error count is larger (one-token look-ahead);
    - more fuel does not change a result. *)
From Coq Require Import List NArith Bool Lia PeanoNat Arith.
From TG.Gen Require Import GenTokens.
From TG.Model Require Import Chars Lexer Prep Tree ParserPrims GInterp TokSem.
Import ListNotations.
Close Scope N_scope.
Open Scope nat_scope.
Open Scope list_scope.

(** appending [rest] to the unread tokens and adding [d] to the error count *)
Definition frame (rest : list TokenKind) (d : nat) (ts : tst) : tst :=
  {| tks := tks ts ++ rest; terr := terr ts + d; tafter := tafter ts |}.
Definition frame_res (rest : list TokenKind) (d : nat) (r : tres) : tres :=
  match r with
  | TVal v en ts => TVal v en (frame rest d ts)
  | TBrk en ts => TBrk en (frame rest d ts)
  | TRet v en ts => TRet v en (frame rest d ts)
  | TStuck => TStuck
  | TOOF => TOOF
  end.
(** the result state (if any) still has an unread token *)
Definition unread (r : tres) : Prop :=
  match r with
  | TVal _ _ ts | TBrk _ ts | TRet _ _ ts => tks ts <> []
  | TStuck | TOOF => False
  end.
Definition res_state (r : tres) : option tst :=
  match r with TVal _ _ ts | TBrk _ ts | TRet _ _ ts => Some ts | _ => None end.

(** suffix *)
Definition suffix_of (a b : list TokenKind) : Prop := exists pre, b = pre ++ a.
Lemma suffix_refl a : suffix_of a a.
Proof. exists []. reflexivity. Qed.
Lemma suffix_trans a b c : suffix_of a b -> suffix_of b c -> suffix_of a c.
Proof. intros [p ->] [q ->]. exists (q ++ p). now rewrite app_assoc. Qed.
Lemma suffix_nonempty a b : suffix_of a b -> a <> [] -> b <> [].
Proof. intros [p ->] H. destruct p; auto. discriminate. Qed.

Definition shrinks (ts : tst) (r : tres) : Prop :=
  match res_state r with Some ts' => suffix_of (tks ts') (tks ts) | None => True end.

Lemma t_eat_shrinks ts ts' : t_eat ts = Some ts' -> suffix_of (tks ts') (tks ts).
Proof.
  unfold t_eat. destruct (tks ts) as [|k r] eqn:E; [discriminate|].
  destruct (tk_eqb k T_Error); [discriminate|]. intros H. inversion H. cbn. exists [k]. reflexivity.
Qed.

Lemma prim_shrinks p pr en ts : shrinks ts (texec_prim p pr en ts).
Proof.
  unfold shrinks. destruct pr; cbn [texec_prim];
    repeat match goal with
           | |- context [env_get ?e ?x] => destruct (env_get e x) as [[?|?]|]
           | |- context [tk_eqb ?a ?b] => destruct (tk_eqb a b)
           | |- context [tafter ?t] => destruct (tafter t)
           | |- context [t_eat ?t] => let E := fresh "E" in destruct (t_eat t) eqn:E; [apply t_eat_shrinks in E|]
           | |- context [negb ?a && negb ?b] => destruct (negb a && negb b)
           end; cbn; auto using suffix_refl.
Qed.

Lemma texec_shrinks p : forall n e en ts, shrinks ts (texec n p e en ts).
Proof.
  induction n as [|n IH]; intros e en ts; [exact I|].
  destruct e as [b|x|a|pr|f arg|a b|c a b|c b| |a|x a]; cbn [texec].
  - apply suffix_refl.
  - destruct (env_get en x); cbn; auto using suffix_refl.
  - pose proof (IH a en ts) as H. destruct (texec n p a en ts) as [[b|k] en1 ts1| | | |]; cbn in *; auto.
  - apply prim_shrinks.
  - destruct (fn_body p f) as [body|]; [|exact I].
    destruct (match arg with Some (x, _) => match env_get en x with Some v => Some [v] | None => None end | None => Some [] end) as [cen0|]; [|exact I].
    pose proof (IH body cen0 ts) as H.
    destruct (texec n p body cen0 ts) as [v cen1 ts1|cen1 ts1|v cen1 ts1| |]; try exact I;
      destruct arg as [[x [|]]|]; try destruct (env_get cen1 0); try exact I; exact H.
  - pose proof (IH a en ts) as H. destruct (texec n p a en ts) as [v en1 ts1| | | |]; cbn in *; auto.
    pose proof (IH b en1 ts1) as H2. unfold shrinks in *. destruct (res_state (texec n p b en1 ts1)); auto.
    eapply suffix_trans; eauto.
  - pose proof (IH c en ts) as H. destruct (texec n p c en ts) as [[[|]|k] en1 ts1| | | |]; cbn in *; auto.
    + pose proof (IH a en1 ts1) as H2. unfold shrinks in *. destruct (res_state (texec n p a en1 ts1)); auto. eapply suffix_trans; eauto.
    + pose proof (IH b en1 ts1) as H2. unfold shrinks in *. destruct (res_state (texec n p b en1 ts1)); auto. eapply suffix_trans; eauto.
  - pose proof (IH c en ts) as H. destruct (texec n p c en ts) as [[[|]|k] en1 ts1| | | |]; cbn in *; auto.
    pose proof (IH b en1 ts1) as H2. destruct (texec n p b en1 ts1) as [v2 en2 ts2|en2 ts2|v2 en2 ts2| |]; cbn in *; auto.
    + pose proof (IH (EWhile c b) en2 ts2) as H3. unfold shrinks in *. destruct (res_state (texec n p (EWhile c b) en2 ts2)); auto.
      eapply suffix_trans; [exact H3|]. eapply suffix_trans; eauto.
    + eapply suffix_trans; eauto.
    + eapply suffix_trans; eauto.
  - apply suffix_refl.
  - pose proof (IH a en ts) as H. destruct (texec n p a en ts) as [v en1 ts1| | | |]; cbn in *; auto.
  - pose proof (IH a en ts) as H. destruct (texec n p a en ts) as [v en1 ts1| | | |]; cbn in *; auto.
Qed.

(** * Frame *)
Lemma unread_start p n e en ts : unread (texec n p e en ts) -> tks ts <> [].
Proof.
  intros H. pose proof (texec_shrinks p n e en ts) as S. unfold shrinks in S.
  destruct (texec n p e en ts); cbn in *; try contradiction; eapply suffix_nonempty; eauto.
Qed.

Lemma tcur_frame rest d ts : tks ts <> [] -> tcur (frame rest d ts) = tcur ts.
Proof. unfold tcur, frame. cbn [tks]. destruct (tks ts); [contradiction|reflexivity]. Qed.
Lemma t_error_frame rest d ts : t_error (frame rest d ts) = frame rest d (t_error ts).
Proof. reflexivity. Qed.
Lemma t_at_set_frame rest d ts ks : tks ts <> [] -> t_at_set (frame rest d ts) ks = t_at_set ts ks.
Proof. intros H. unfold t_at_set. now rewrite tcur_frame. Qed.
Lemma t_eat_frame rest d ts ts' : t_eat ts = Some ts' -> t_eat (frame rest d ts) = Some (frame rest d ts').
Proof.
  unfold t_eat, frame. cbn [tks terr tafter]. destruct (tks ts) as [|k r]; [discriminate|]. cbn [app].
  destruct (tk_eqb k T_Error); [discriminate|]. intros H. inversion H. reflexivity.
Qed.
Lemma tlift_frame rest d o en : unread (tlift o en) ->
  tlift (match o with Some ts => t_eat (frame rest d ts) | None => None end) en = tlift None en -> True.
Proof. auto. Qed.

Lemma eat_frame rest d ts en : unread (tlift (t_eat ts) en) ->
  tlift (t_eat (frame rest d ts)) en = frame_res rest d (tlift (t_eat ts) en).
Proof.
  unfold tlift. destruct (t_eat ts) as [ts'|] eqn:E; [|intros []].
  intros _. now rewrite (t_eat_frame rest d ts ts' E).
Qed.

Lemma prim_frame p rest d pr en ts : unread (texec_prim p pr en ts) ->
  texec_prim p pr en (frame rest d ts) = frame_res rest d (texec_prim p pr en ts).
Proof.
  intros H.
  assert (Hne : tks ts <> []).
  { pose proof (prim_shrinks p pr en ts) as S. unfold shrinks in S.
    destruct (texec_prim p pr en ts); cbn in *; try contradiction; eapply suffix_nonempty; eauto. }
  destruct pr; cbn [texec_prim] in *; rewrite ?tcur_frame, ?t_at_set_frame by assumption; try reflexivity.
  - destruct (env_get en x) as [[b|c]|]; try reflexivity; destruct H.
  - destruct (tk_eqb (tcur ts) k); [apply eat_frame; exact H|reflexivity].
  - destruct (tk_eqb (tcur ts) k); [apply eat_frame; exact H|].
    change (tafter (frame rest d ts)) with (tafter ts). destruct (tafter ts); reflexivity.
  - apply eat_frame; exact H.
  - destruct (tk_eqb (tcur ts) k); [|reflexivity].
    destruct (t_eat ts) as [ts'|] eqn:E; [|destruct H]. now rewrite (t_eat_frame rest d ts ts' E).
  - rewrite t_error_frame. apply eat_frame. exact H.
  - rewrite !t_error_frame.
    assert (Hne1 : tks (t_error ts) <> []) by exact Hne.
    rewrite ?tcur_frame, ?t_at_set_frame by assumption.
    destruct (negb (t_at_set (t_error ts) (recover_tokens p)) && negb (tk_eqb (tcur (t_error ts)) T_Eof)); [apply eat_frame; exact H|reflexivity].
Qed.

Theorem texec_frame p rest d : forall n e en ts, unread (texec n p e en ts) ->
  texec n p e en (frame rest d ts) = frame_res rest d (texec n p e en ts).
Proof.
  induction n as [|n IH]; intros e en ts H; [destruct H|].
  destruct e as [b|x|a|pr|f arg|a b|c a b|c b| |a|x a]; cbn [texec] in *.
  - reflexivity.
  - destruct (env_get en x); [reflexivity|destruct H].
  - destruct (texec n p a en ts) as [[b|k] en1 ts1|en1 ts1|v en1 ts1| |] eqn:E; cbn in H; try contradiction;
      rewrite (IH a en ts) by (rewrite E; exact H); rewrite E; reflexivity.
  - apply prim_frame. exact H.
  - destruct (fn_body p f) as [body|]; [|destruct H].
    destruct (match arg with Some (x, _) => match env_get en x with Some v => Some [v] | None => None end | None => Some [] end) as [cen0|]; [|destruct H].
    destruct (texec n p body cen0 ts) as [v cen1 ts1|cen1 ts1|v cen1 ts1| |] eqn:E; try (destruct H; fail).
    + assert (U : unread (texec n p body cen0 ts)).
      { rewrite E. destruct arg as [[x [|]]|]; try destruct (env_get cen1 0); cbn in *; auto; contradiction. }
      rewrite (IH body cen0 ts U), E. cbn [frame_res].
      destruct arg as [[x [|]]|]; try destruct (env_get cen1 0); reflexivity.
    + assert (U : unread (texec n p body cen0 ts)).
      { rewrite E. destruct arg as [[x [|]]|]; try destruct (env_get cen1 0); cbn in *; auto; contradiction. }
      rewrite (IH body cen0 ts U), E. cbn [frame_res].
      destruct arg as [[x [|]]|]; try destruct (env_get cen1 0); reflexivity.
  - destruct (texec n p a en ts) as [v en1 ts1|en1 ts1|v en1 ts1| |] eqn:E; cbn in H; try contradiction.
    + assert (U : unread (texec n p a en ts)) by (rewrite E; cbn; eapply unread_start; eauto).
      rewrite (IH a en ts U), E. cbn [frame_res]. apply IH. exact H.
    + rewrite (IH a en ts) by (rewrite E; exact H). rewrite E. reflexivity.
    + rewrite (IH a en ts) by (rewrite E; exact H). rewrite E. reflexivity.
  - destruct (texec n p c en ts) as [[[|]|k] en1 ts1|en1 ts1|v en1 ts1| |] eqn:E; cbn in H; try contradiction.
    + assert (U : unread (texec n p c en ts)) by (rewrite E; cbn; eapply unread_start; eauto).
      rewrite (IH c en ts U), E. cbn [frame_res]. apply IH. exact H.
    + assert (U : unread (texec n p c en ts)) by (rewrite E; cbn; eapply unread_start; eauto).
      rewrite (IH c en ts U), E. cbn [frame_res]. apply IH. exact H.
    + rewrite (IH c en ts) by (rewrite E; exact H). rewrite E. reflexivity.
    + rewrite (IH c en ts) by (rewrite E; exact H). rewrite E. reflexivity.
  - destruct (texec n p c en ts) as [[[|]|k] en1 ts1|en1 ts1|v en1 ts1| |] eqn:E; cbn in H; try contradiction.
    + destruct (texec n p b en1 ts1) as [v2 en2 ts2|en2 ts2|v2 en2 ts2| |] eqn:E2; cbn in H; try contradiction.
      * assert (U2 : unread (texec n p b en1 ts1)) by (rewrite E2; cbn; eapply unread_start; eauto).
        assert (U : unread (texec n p c en ts)) by (rewrite E; cbn; eapply unread_start; eauto).
        rewrite (IH c en ts U), E. cbn [frame_res]. rewrite (IH b en1 ts1 U2), E2. cbn [frame_res]. apply IH. exact H.
      * assert (U2 : unread (texec n p b en1 ts1)) by (rewrite E2; exact H).
        assert (U : unread (texec n p c en ts)) by (rewrite E; cbn; eapply unread_start; eauto).
        rewrite (IH c en ts U), E. cbn [frame_res]. rewrite (IH b en1 ts1 U2), E2. reflexivity.
      * assert (U2 : unread (texec n p b en1 ts1)) by (rewrite E2; exact H).
        assert (U : unread (texec n p c en ts)) by (rewrite E; cbn; eapply unread_start; eauto).
        rewrite (IH c en ts U), E. cbn [frame_res]. rewrite (IH b en1 ts1 U2), E2. reflexivity.
    + rewrite (IH c en ts) by (rewrite E; exact H). rewrite E. reflexivity.
    + rewrite (IH c en ts) by (rewrite E; exact H). rewrite E. reflexivity.
    + rewrite (IH c en ts) by (rewrite E; exact H). rewrite E. reflexivity.
  - reflexivity.
  - destruct (texec n p a en ts) as [v en1 ts1|en1 ts1|v en1 ts1| |] eqn:E; cbn in H; try contradiction;
      rewrite (IH a en ts) by (rewrite E; exact H); rewrite E; reflexivity.
  - destruct (texec n p a en ts) as [v en1 ts1|en1 ts1|v en1 ts1| |] eqn:E; cbn in H; try contradiction;
      rewrite (IH a en ts) by (rewrite E; exact H); rewrite E; reflexivity.
Qed.

(** * Fuel monotonicity *)
Definition not_oof (r : tres) : Prop := match r with TOOF => False | _ => True end.
Theorem texec_fuel p : forall n e en ts, not_oof (texec n p e en ts) ->
  forall m, n <= m -> texec m p e en ts = texec n p e en ts.
Proof.
  induction n as [|n IH]; intros e en ts H m Hm; [destruct H|].
  destruct m as [|m]; [lia|]. assert (Hm' : n <= m) by lia.
  destruct e as [b|x|a|pr|f arg|a b|c a b|c b| |a|x a]; cbn [texec] in *; try reflexivity.
  - destruct (texec n p a en ts) as [[b|k] en1 ts1|en1 ts1|v en1 ts1| |] eqn:E; try (destruct H; fail);
      rewrite (IH a en ts) by (try rewrite E; cbn; auto); rewrite E; reflexivity.
  - destruct (fn_body p f) as [body|]; [|reflexivity].
    destruct (match arg with Some (x, _) => match env_get en x with Some v => Some [v] | None => None end | None => Some [] end) as [cen0|]; [|reflexivity].
    destruct (texec n p body cen0 ts) as [v cen1 ts1|cen1 ts1|v cen1 ts1| |] eqn:E; try (destruct H; fail);
      rewrite (IH body cen0 ts) by (try rewrite E; cbn; auto); rewrite E; reflexivity.
  - destruct (texec n p a en ts) as [v en1 ts1|en1 ts1|v en1 ts1| |] eqn:E; try (destruct H; fail);
      rewrite (IH a en ts) by (try rewrite E; cbn; auto); rewrite E; try reflexivity. apply IH; auto.
  - destruct (texec n p c en ts) as [[[|]|k] en1 ts1|en1 ts1|v en1 ts1| |] eqn:E; try (destruct H; fail);
      rewrite (IH c en ts) by (try rewrite E; cbn; auto); rewrite E; try reflexivity; apply IH; auto.
  - destruct (texec n p c en ts) as [[[|]|k] en1 ts1|en1 ts1|v en1 ts1| |] eqn:E; try (destruct H; fail);
      rewrite (IH c en ts) by (try rewrite E; cbn; auto); rewrite E; try reflexivity.
    destruct (texec n p b en1 ts1) as [v2 en2 ts2|en2 ts2|v2 en2 ts2| |] eqn:E2; try (destruct H; fail);
      rewrite (IH b en1 ts1) by (try rewrite E2; cbn; auto); rewrite E2; try reflexivity. apply IH; auto.
  - destruct (texec n p a en ts) as [v en1 ts1|en1 ts1|v en1 ts1| |] eqn:E; try (destruct H; fail);
      rewrite (IH a en ts) by (try rewrite E; cbn; auto); rewrite E; reflexivity.
  - destruct (texec n p a en ts) as [v en1 ts1|en1 ts1|v en1 ts1| |] eqn:E; try (destruct H; fail);
      rewrite (IH a en ts) by (try rewrite E; cbn; auto); rewrite E; reflexivity.
Qed.

(** the frame theorem in the form used with concrete runs *)
Lemma frame_done p rest d n e en ts v enr tsr :
  texec n p e en ts = TVal v enr tsr -> tks tsr <> [] ->
  texec n p e en (frame rest d ts) = TVal v enr (frame rest d tsr).
Proof.
  intros H Hne. rewrite texec_frame; rewrite H; [reflexivity|exact Hne].
Qed.
